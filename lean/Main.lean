import Corankco.Proto
import Corankco.Driver.C01
import Corankco.Driver.C02
import Corankco.Driver.C19
import Corankco.Driver.C20
import Corankco.Driver.Algos
import Corankco.Driver.Bio
import Corankco.Driver.Partition
import Corankco.Driver.Exact
import Corankco.Driver.C14
import Corankco.Driver.C16
import Corankco.Driver.C18
import Corankco.Driver.C15
open Corankco

def allOps : List (String × (J → Option J)) :=
  Driver.c01Ops ++ Driver.c02Ops ++ Driver.c19Ops ++ Driver.c20Ops ++ Driver.algosOps ++ Driver.bioOps ++ Driver.partOps ++ Driver.exactOps ++ Driver.c14Ops ++ Driver.c16Ops ++ Driver.c18Ops ++ Driver.c15Ops

def handle (line : String) : String :=
  let line := line.trimAscii.toString
  match line.splitOn " " with
  | op :: rest =>
    match allOps.lookup op with
    | none => "bad-op"
    | some f =>
      match J.parse (" ".intercalate rest) with
      | none => "bad-arg"
      | some a => match f a with
        | none => "bad-arg"
        | some r => r.render
  | [] => "bad-op"

partial def loop (h : IO.FS.Stream) (out : IO.FS.Stream) : IO Unit := do
  let line ← h.getLine
  if line.isEmpty then return ()
  out.putStrLn (handle line)
  loop h out

def main : IO Unit := do
  let stdin ← IO.getStdin
  let stdout ← IO.getStdout
  loop stdin stdout
