import Corankco.Lemmas.Basic
import Corankco.Spec.Bio
/-
  The two moves of BioConsert (`changeBucket`, `addBucket`): the result is a dense vector whose pairwise comparisons are
  those of the key vector `moveKeys`, and the bookkeeping of the maximal bucket id is right.
-/
namespace Corankco
open Model Spec
namespace BioSM

/-! ### the score only depends on the comparisons -/

theorem int_lt_iff_compare (a b : Int) : a < b ↔ compare a b = .lt := by
  simp [Int.compare_eq_lt]

theorem sel_congr_cmp (t : Table) (v w : List Int) (i j : Nat)
    (h1 : compare (v.getD i 0) (v.getD j 0) = compare (w.getD i 0) (w.getD j 0))
    (h2 : compare (v.getD j 0) (v.getD i 0) = compare (w.getD j 0) (w.getD i 0)) :
    sel t v i j = sel t w i j := by
  simp only [sel, int_lt_iff_compare, h1, h2]

end BioSM
open BioSM

/-- score depends only on the pairwise comparisons of the keys -/
theorem scoreVec_congr_cmp (t : Table) (v w : List Int) (hl : v.length = w.length)
    (h : ∀ i j, i < v.length → j < v.length →
      compare (v.getD i 0) (v.getD j 0) = compare (w.getD i 0) (w.getD j 0)) :
    scoreVec t v = scoreVec t w := by
  unfold scoreVec
  rw [← hl]
  apply isum_map_congr
  intro p hp
  obtain ⟨h1, h2⟩ := mem_pairs_range p hp
  exact sel_congr_cmp t v w p.1 p.2 (h _ _ (by omega) h2) (h _ _ h2 (by omega))

namespace BioSM

/-! ### pointwise access -/

theorem getD_set' {α : Type} (l : List α) (i k : Nat) (a d : α) :
    (l.set i a).getD k d = if k = i ∧ i < l.length then a else l.getD k d := by
  simp only [List.getD_eq_getElem?_getD, List.getElem?_set]
  by_cases h : i = k
  · subst h
    by_cases h2 : i < l.length
    · simp [h2]
    · simp [h2]
  · have : ¬ k = i := fun e => h e.symm
    simp [h, this]

theorem getD_map' {α β : Type} (f : α → β) (l : List α) (i : Nat) (d : α) (e : β) (h : i < l.length) :
    (l.map f).getD i e = f (l.getD i d) := by
  simp [List.getD_eq_getElem?_getD, h]

theorem getD_moveKeys (v : List Nat) (x : Nat) (k : Int) (i : Nat) (h : i < v.length) :
    (moveKeys v x k).getD i 0 = if i = x then k else 2 * (Int.ofNat (v.getD i 0)) + 1 := by
  simp [moveKeys, List.getD_eq_getElem?_getD, h]

theorem mem_iff_getD (l : List Nat) (v : Nat) : v ∈ l ↔ ∃ i, i < l.length ∧ l.getD i 0 = v := by
  rw [List.mem_iff_getElem]
  constructor
  · rintro ⟨i, h, e⟩; exact ⟨i, h, by rw [getD_of_lt l i 0 h]; exact e⟩
  · rintro ⟨i, h, e⟩; exact ⟨i, h, by rw [getD_of_lt l i 0 h] at e; exact e⟩

/-! ### `foldl max 0` is the maximum -/

theorem foldl_max_ge (l : List Nat) (a : Nat) : a ≤ l.foldl max a ∧ ∀ v ∈ l, v ≤ l.foldl max a := by
  induction l generalizing a with
  | nil => simp
  | cons x xs ih =>
    simp only [List.foldl_cons, List.mem_cons]
    have := ih (max a x)
    refine ⟨by omega, ?_⟩
    rintro v (rfl | hv)
    · omega
    · exact this.2 v hv

theorem foldl_max_mem (l : List Nat) (a : Nat) : l.foldl max a = a ∨ l.foldl max a ∈ l := by
  induction l generalizing a with
  | nil => simp
  | cons x xs ih =>
    simp only [List.foldl_cons, List.mem_cons]
    rcases ih (max a x) with h | h
    · rw [h]; rcases Nat.le_total a x with g | g
      · right; left; omega
      · left; omega
    · right; right; exact h

theorem foldl_max_eq (l : List Nat) (M : Nat) (h1 : ∀ v ∈ l, v ≤ M) (h2 : M ∈ l) : l.foldl max 0 = M := by
  have a := (foldl_max_ge l 0).2 M h2
  rcases foldl_max_mem l 0 with h | h
  · omega
  · have := h1 _ h; omega

/-- a dense non-empty vector, pointwise: every cell is `≤ max` and every value `≤ max` is taken. -/
theorem dense_surj (r : List Nat) (hd : DenseN r) (hne : 0 < r.length) :
    (∀ i, i < r.length → r.getD i 0 ≤ r.foldl max 0) ∧
    (∀ c, c ≤ r.foldl max 0 → ∃ k, k < r.length ∧ r.getD k 0 = c) := by
  constructor
  · intro i hi
    exact (foldl_max_ge r 0).2 _ ((mem_iff_getD r _).mpr ⟨i, hi, rfl⟩)
  · intro c hc
    have hM : r.foldl max 0 ∈ r := by
      rcases foldl_max_mem r 0 with h | h
      · have h0 : r.getD 0 0 ∈ r := (mem_iff_getD r _).mpr ⟨0, hne, rfl⟩
        have := (foldl_max_ge r 0).2 _ h0
        have e : r.getD 0 0 = 0 := by omega
        rw [h, ← e]; exact h0
      · exact h
    apply (mem_iff_getD r c).mp
    rcases Nat.lt_or_eq_of_le hc with h | h
    · exact hd _ hM c h
    · rw [h]; exact hM

/-- conversely: a vector bounded by `M` that takes every value `≤ M` is dense with maximum `M`. -/
theorem dense_of_surj (r : List Nat) (M : Nat) (h1 : ∀ i, i < r.length → r.getD i 0 ≤ M)
    (h2 : ∀ c, c ≤ M → ∃ k, k < r.length ∧ r.getD k 0 = c) : DenseN r ∧ r.foldl max 0 = M := by
  constructor
  · intro v hv b hb
    obtain ⟨i, hi, e⟩ := (mem_iff_getD r v).mp hv
    have := h1 i hi
    exact (mem_iff_getD r b).mpr (h2 b (by omega))
  · apply foldl_max_eq
    · intro v hv
      obtain ⟨i, hi, e⟩ := (mem_iff_getD r v).mp hv
      rw [← e]; exact h1 i hi
    · exact (mem_iff_getD r M).mpr (h2 M (Nat.le_refl _))

theorem cmp_nat_int (a b : Nat) (c d : Int) (h1 : a < b ↔ c < d) (h2 : a = b ↔ c = d) :
    compare a b = compare c d := by
  simp only [compare, compareOfLessAndEq]
  by_cases e1 : a < b
  · simp [e1, h1.mp e1]
  · have : ¬ c < d := fun h => e1 (h1.mpr h)
    by_cases e2 : a = b
    · simp [e2, h2.mp e2]
    · have : ¬ c = d := fun h => e2 (h2.mpr h)
      simp [*]

end BioSM

/-! ### the moves -/

/-- `alone` as a proposition -/
def AloneAt (r : List Nat) (x : Nat) : Prop := ∀ y, y < r.length → y ≠ x → r.getD y 0 ≠ r.getD x 0

namespace BioSM

theorem not_alone_witness (r : List Nat) (x : Nat) (h : ¬ AloneAt r x) :
    ∃ y, y < r.length ∧ y ≠ x ∧ r.getD y 0 = r.getD x 0 := by
  apply Classical.byContradiction
  intro hno
  apply h
  intro y hy hyx e
  exact hno ⟨y, hy, hyx, e⟩

/-- every value `≤ max` other than the bucket of a lonely `x` is taken by some cell other than `x`. -/
theorem dense_surj_other (r : List Nat) (hd : DenseN r) (x : Nat) (hx : x < r.length) (alone : Bool)
    (ha : alone = true ↔ AloneAt r x) (c : Nat) (hc : c ≤ r.foldl max 0) (h : c ≠ r.getD x 0 ∨ alone = false) :
    ∃ k, k < r.length ∧ k ≠ x ∧ r.getD k 0 = c := by
  obtain ⟨k, hk, e⟩ := (dense_surj r hd (by omega)).2 c hc
  by_cases hkx : k = x
  · subst hkx
    rcases h with h | h
    · exact absurd e.symm h
    · have hna : ¬ AloneAt r k := fun g => by rw [ha.mpr g] at h; cases h
      obtain ⟨y, hy, hyx, e2⟩ := not_alone_witness r k hna
      exact ⟨y, hy, hyx, by omega⟩
  · exact ⟨k, hk, hkx, e⟩

end BioSM

theorem bio_changeBucket (r : List Nat) (hd : DenseN r) (x : Nat) (hx : x < r.length) (j : Nat)
    (hj : j ≤ r.foldl max 0) (hjb : j ≠ r.getD x 0) (alone : Bool) (ha : alone = true ↔ AloneAt r x) :
    let r' := changeBucket r x (r.getD x 0) j alone
    DenseN r' ∧ r'.length = r.length ∧
    (∀ i k, i < r.length → k < r.length →
      compare (r'.getD i 0) (r'.getD k 0) =
        compare ((moveKeys r x (2 * (Int.ofNat j) + 1)).getD i 0) ((moveKeys r x (2 * (Int.ofNat j) + 1)).getD k 0)) ∧
    r'.foldl max 0 = (if alone then r.foldl max 0 - 1 else r.foldl max 0) := by
  intro r'
  obtain ⟨hle, hsurj⟩ := dense_surj r hd (by omega)
  have hother := dense_surj_other r hd x hx alone ha
  have hbM := hle x hx
  have hlen : r'.length = r.length := by
    simp only [r', changeBucket]; split <;> simp
  have hpt : ∀ i, i < r.length → r'.getD i 0 =
      if alone = true then
        (if (if i = x then j else r.getD i 0) > r.getD x 0 then (if i = x then j else r.getD i 0) - 1
          else (if i = x then j else r.getD i 0))
      else (if i = x then j else r.getD i 0) := by
    intro i hi
    simp only [r', changeBucket]
    cases alone with
    | false => simp only [Bool.false_eq_true, if_false]; rw [getD_set']; simp only [hx, and_true]
    | true =>
      simp only [if_true]
      rw [getD_map' _ _ i 0 0 (by simpa using hi), getD_set']
      simp [hx]
  have hcmp : ∀ i k, i < r.length → k < r.length →
      compare (r'.getD i 0) (r'.getD k 0) =
        compare ((moveKeys r x (2 * (Int.ofNat j) + 1)).getD i 0)
          ((moveKeys r x (2 * (Int.ofNat j) + 1)).getD k 0) := by
    intro i k hi hk
    rw [hpt i hi, hpt k hk, getD_moveKeys _ _ _ _ hi, getD_moveKeys _ _ _ _ hk]
    simp only [Int.ofNat_eq_natCast]
    cases alone with
    | false =>
      simp only [Bool.false_eq_true, if_false]
      apply cmp_nat_int <;> split <;> split <;> omega
    | true =>
      have hal := ha.mp rfl
      simp only [if_true]
      have hi' : i ≠ x → r.getD i 0 ≠ r.getD x 0 := fun h => hal i hi h
      have hk' : k ≠ x → r.getD k 0 ≠ r.getD x 0 := fun h => hal k hk h
      by_cases e1 : i = x <;> by_cases e2 : k = x
      · subst e1; subst e2; simp
      · have := hk' e2
        simp only [e1, e2, if_true, if_false]
        apply cmp_nat_int <;> split <;> split <;> omega
      · have := hi' e1
        simp only [e1, e2, if_true, if_false]
        apply cmp_nat_int <;> split <;> split <;> omega
      · have := hi' e1
        have := hk' e2
        simp only [e1, e2, if_false]
        apply cmp_nat_int <;> split <;> split <;> omega
  have hdm : DenseN r' ∧ r'.foldl max 0 = (if alone then r.foldl max 0 - 1 else r.foldl max 0) := by
    apply dense_of_surj
    · intro i hi
      rw [hlen] at hi
      rw [hpt i hi]
      have := hle i hi
      cases alone with
      | false => simp only [Bool.false_eq_true, if_false]; split <;> omega
      | true =>
        have hal := ha.mp rfl
        simp only [if_true]
        by_cases e1 : i = x
        · simp only [e1, if_true]; split <;> omega
        · have := hal i hi e1
          simp only [e1, if_false]; split <;> omega
    · intro c hc
      rw [hlen]
      cases alone with
      | false =>
        simp only [Bool.false_eq_true, if_false] at hc
        obtain ⟨k, hk, hkx, e⟩ := hother c hc (Or.inr rfl)
        exact ⟨k, hk, by rw [hpt k hk]; simp only [Bool.false_eq_true, if_false, hkx]; exact e⟩
      | true =>
        simp only [if_true] at hc
        by_cases hcb : c < r.getD x 0
        · obtain ⟨k, hk, hkx, e⟩ := hother c (by omega) (Or.inl (by omega))
          refine ⟨k, hk, ?_⟩
          rw [hpt k hk]; simp only [if_true, hkx, if_false, e]
          rw [if_neg (by omega)]
        · obtain ⟨k, hk, hkx, e⟩ := hother (c + 1) (by omega) (Or.inl (by omega))
          refine ⟨k, hk, ?_⟩
          rw [hpt k hk]; simp only [if_true, hkx, if_false, e]
          rw [if_pos (by omega)]; omega
  exact ⟨hdm.1, hlen, hcmp, hdm.2⟩

namespace BioSM

/-- generic single-element move: the other cells are renumbered by `F`, cell `x` receives `X`; `K` is the key of the
    moved element. The list reasoning is done here once, the callers only supply arithmetic facts about `F`, `X`, `K`. -/
theorem move_core (r : List Nat) (hd : DenseN r) (x : Nat) (hx : x < r.length) (alone : Bool)
    (ha : alone = true ↔ AloneAt r x) (F : Nat → Nat) (X : Nat) (K : Int) (M' : Nat)
    (hXF : ∀ v, v ≤ r.foldl max 0 → (v ≠ r.getD x 0 ∨ alone = false) →
      (X < F v ↔ K < 2 * (v : Int) + 1) ∧ (X = F v ↔ K = 2 * (v : Int) + 1) ∧ F v ≤ M')
    (hFF : ∀ u v, u ≤ r.foldl max 0 → v ≤ r.foldl max 0 → (u ≠ r.getD x 0 ∨ alone = false) →
      (v ≠ r.getD x 0 ∨ alone = false) → (F u < F v ↔ u < v))
    (hX : X ≤ M')
    (hs : ∀ c, c ≤ M' → c = X ∨ ∃ v, v ≤ r.foldl max 0 ∧ (v ≠ r.getD x 0 ∨ alone = false) ∧ F v = c) :
    DenseN ((r.map F).set x X) ∧ ((r.map F).set x X).length = r.length ∧
    (∀ i k, i < r.length → k < r.length →
      compare (((r.map F).set x X).getD i 0) (((r.map F).set x X).getD k 0) =
        compare ((moveKeys r x K).getD i 0) ((moveKeys r x K).getD k 0)) ∧
    ((r.map F).set x X).foldl max 0 = M' := by
  obtain ⟨hle, hsurj⟩ := dense_surj r hd (by omega)
  have hother := dense_surj_other r hd x hx alone ha
  have hlen : ((r.map F).set x X).length = r.length := by simp
  have hpt : ∀ i, i < r.length → ((r.map F).set x X).getD i 0 = if i = x then X else F (r.getD i 0) := by
    intro i hi
    rw [getD_set']
    simp only [List.length_map, hx, and_true]
    split
    · rfl
    · exact getD_map' F r i 0 0 hi
  have hdom : ∀ i, i < r.length → i ≠ x → (r.getD i 0 ≠ r.getD x 0 ∨ alone = false) := by
    intro i hi hix
    cases alone with
    | false => exact Or.inr rfl
    | true => exact Or.inl (ha.mp rfl i hi hix)
  have hinj : ∀ u v, u ≤ r.foldl max 0 → v ≤ r.foldl max 0 → (u ≠ r.getD x 0 ∨ alone = false) →
      (v ≠ r.getD x 0 ∨ alone = false) → (F u = F v ↔ u = v) := by
    intro u v hu hv du dv
    constructor
    · intro e
      have h1 := hFF u v hu hv du dv
      have h2 := hFF v u hv hu dv du
      omega
    · intro e; rw [e]
  have hcmp : ∀ i k, i < r.length → k < r.length →
      compare (((r.map F).set x X).getD i 0) (((r.map F).set x X).getD k 0) =
        compare ((moveKeys r x K).getD i 0) ((moveKeys r x K).getD k 0) := by
    intro i k hi hk
    rw [hpt i hi, hpt k hk, getD_moveKeys _ _ _ _ hi, getD_moveKeys _ _ _ _ hk]
    simp only [Int.ofNat_eq_natCast]
    by_cases e1 : i = x <;> by_cases e2 : k = x
    · simp [e1, e2]
    · simp only [e1, e2, if_true, if_false]
      have := hXF _ (hle k hk) (hdom k hk e2)
      exact cmp_nat_int _ _ _ _ this.1 this.2.1
    · simp only [e1, e2, if_true, if_false]
      have := hXF _ (hle i hi) (hdom i hi e1)
      apply cmp_nat_int <;> omega
    · simp only [e1, e2, if_false]
      have h1 := hFF _ _ (hle i hi) (hle k hk) (hdom i hi e1) (hdom k hk e2)
      have h2 := hinj _ _ (hle i hi) (hle k hk) (hdom i hi e1) (hdom k hk e2)
      apply cmp_nat_int <;> omega
  have hdm := dense_of_surj ((r.map F).set x X) M'
    (by
      intro i hi
      rw [hlen] at hi
      rw [hpt i hi]
      split
      · exact hX
      · next e => exact (hXF _ (hle i hi) (hdom i hi e)).2.2)
    (by
      intro c hc
      rw [hlen]
      rcases hs c hc with e | ⟨v, hv, dv, e⟩
      · exact ⟨x, hx, by rw [hpt x hx, if_pos rfl, e]⟩
      · obtain ⟨k, hk, hkx, e2⟩ := hother v hv dv
        exact ⟨k, hk, by rw [hpt k hk, if_neg hkx, e2, e]⟩)
  exact ⟨hdm.1, hlen, hcmp, hdm.2⟩

end BioSM

/-- creating a new singleton bucket just before old bucket p (p ≤ max+1) -/
theorem bio_addBucket (r : List Nat) (hd : DenseN r) (x : Nat) (hx : x < r.length) (p : Nat)
    (hp : p ≤ r.foldl max 0 + 1) (alone : Bool) (ha : alone = true ↔ AloneAt r x) :
    let r' := addBucket r x (r.getD x 0) p alone
    DenseN r' ∧ r'.length = r.length ∧
    (∀ i k, i < r.length → k < r.length →
      compare (r'.getD i 0) (r'.getD k 0) =
        compare ((moveKeys r x (2 * (Int.ofNat p))).getD i 0) ((moveKeys r x (2 * (Int.ofNat p))).getD k 0)) ∧
    r'.foldl max 0 = (if alone then r.foldl max 0 else r.foldl max 0 + 1) := by
  intro r'
  have hbM := (dense_surj r hd (by omega)).1 x hx
  have hshift : alone = false →
      DenseN ((r.map fun v => if v ≥ p then v + 1 else v).set x p) ∧
      ((r.map fun v => if v ≥ p then v + 1 else v).set x p).length = r.length ∧
      (∀ i k, i < r.length → k < r.length →
        compare (((r.map fun v => if v ≥ p then v + 1 else v).set x p).getD i 0)
            (((r.map fun v => if v ≥ p then v + 1 else v).set x p).getD k 0) =
          compare ((moveKeys r x (2 * (Int.ofNat p))).getD i 0) ((moveKeys r x (2 * (Int.ofNat p))).getD k 0)) ∧
      ((r.map fun v => if v ≥ p then v + 1 else v).set x p).foldl max 0 = r.foldl max 0 + 1 := by
    intro hal
    apply move_core r hd x hx alone ha (fun v => if v ≥ p then v + 1 else v) p _ (r.foldl max 0 + 1)
    · intro v hv _
      simp only [Int.ofNat_eq_natCast]
      split <;> omega
    · intro u v _ _ _ _
      split <;> split <;> omega
    · exact hp
    · intro c hc
      by_cases h1 : c < p
      · exact Or.inr ⟨c, by omega, Or.inr hal, by rw [if_neg (by omega)]⟩
      · by_cases h2 : c = p
        · exact Or.inl h2
        · exact Or.inr ⟨c - 1, by omega, Or.inr hal, by rw [if_pos (by omega)]; omega⟩
  simp only [r', addBucket]
  cases alone with
  | false =>
    simp only [Bool.false_eq_true, if_false, ite_self]
    exact hshift rfl
  | true =>
    simp only [if_true]
    by_cases hbp : r.getD x 0 < p
    · rw [if_pos hbp]
      apply move_core r hd x hx true ha (fun v => if r.getD x 0 < v ∧ v < p then v - 1 else v) (p - 1) _
        (r.foldl max 0)
      · intro v hv dv
        have dv : v ≠ r.getD x 0 := by rcases dv with h | h; exact h; cases h
        simp only [Int.ofNat_eq_natCast]
        split <;> omega
      · intro u v _ _ du dv
        have du : u ≠ r.getD x 0 := by rcases du with h | h; exact h; cases h
        have dv : v ≠ r.getD x 0 := by rcases dv with h | h; exact h; cases h
        split <;> split <;> omega
      · omega
      · intro c hc
        by_cases h1 : c < r.getD x 0
        · exact Or.inr ⟨c, hc, Or.inl (by omega), by rw [if_neg (by omega)]⟩
        · by_cases h2 : c < p - 1
          · exact Or.inr ⟨c + 1, by omega, Or.inl (by omega), by rw [if_pos (by omega)]; omega⟩
          · by_cases h3 : c = p - 1
            · exact Or.inl h3
            · exact Or.inr ⟨c, hc, Or.inl (by omega), by rw [if_neg (by omega)]⟩
    · rw [if_neg hbp]
      apply move_core r hd x hx true ha (fun v => if p ≤ v ∧ v < r.getD x 0 then v + 1 else v) p _
        (r.foldl max 0)
      · intro v hv dv
        have dv : v ≠ r.getD x 0 := by rcases dv with h | h; exact h; cases h
        simp only [Int.ofNat_eq_natCast]
        split <;> omega
      · intro u v _ _ du dv
        have du : u ≠ r.getD x 0 := by rcases du with h | h; exact h; cases h
        have dv : v ≠ r.getD x 0 := by rcases dv with h | h; exact h; cases h
        split <;> split <;> omega
      · omega
      · intro c hc
        by_cases h1 : c < p
        · exact Or.inr ⟨c, hc, Or.inl (by omega), by rw [if_neg (by omega)]⟩
        · by_cases h2 : c = p
          · exact Or.inl h2
          · by_cases h3 : c ≤ r.getD x 0
            · exact Or.inr ⟨c - 1, by omega, Or.inl (by omega), by rw [if_pos (by omega)]; omega⟩
            · exact Or.inr ⟨c, hc, Or.inl (by omega), by rw [if_neg (by omega)]⟩

/-! ### concrete checks (including the no-op corners `p = b`, `p = b + 1` of a lonely element) -/

#guard changeBucket [0, 1, 2, 1] 2 2 0 true == [0, 1, 0, 1]
#guard changeBucket [0, 1, 2, 1] 0 0 2 true == [1, 0, 1, 0]
#guard changeBucket [0, 1, 2, 1] 1 1 2 false == [0, 2, 2, 1]
#guard addBucket [0, 1, 2, 1] 2 2 3 true == [0, 1, 2, 1]
#guard addBucket [0, 1, 2, 1] 2 2 2 true == [0, 1, 2, 1]
#guard addBucket [0, 1, 2, 1] 2 2 0 true == [1, 2, 0, 2]
#guard addBucket [0, 1, 2, 1] 0 0 3 true == [2, 0, 1, 0]
#guard addBucket [0, 1, 2, 1] 1 1 1 false == [0, 1, 3, 2]
#guard addBucket [0, 1, 2, 1] 1 1 3 false == [0, 3, 2, 1]
#guard moveKeys [0, 1, 2, 1] 1 6 == [1, 6, 5, 3]

example : DenseN (addBucket [0, 1, 2, 1] 1 1 3 false) ∧ (addBucket [0, 1, 2, 1] 1 1 3 false).foldl max 0 = 3 := by
  have h := bio_addBucket [0, 1, 2, 1] (by unfold DenseN; decide) 1 (by decide) 3 (by decide) false
    (by unfold AloneAt; decide)
  exact ⟨h.1, h.2.2.2⟩

end Corankco
