import Corankco.Lemmas.Basic
import Corankco.Spec.Partition
import Corankco.Spec.Bio
/-
  Helpers for C06: decomposition of a pair-sum along a partition (within-group pairs + cross pairs), invariance of a
  pair-sum that is symmetric on `0..n-1` under permutations, and the projection of a ranking on a set of kept elements.
-/
namespace Corankco
open Model Spec
namespace PartSum

/-! ### pair sums and cross sums -/

/-- sum of `f` over the pairs of `l`. -/
def psum (f : Nat → Nat → Int) (l : List Nat) : Int := isum ((pairs l).map fun p => f p.1 p.2)

/-- sum of `f` over `a × b`. -/
def cross (f : Nat → Nat → Int) (a b : List Nat) : Int := isum (a.map fun i => isum (b.map fun j => f i j))

theorem isum_map_le {α : Type} {f g : α → Int} {l : List α} (h : ∀ a ∈ l, f a ≤ g a) :
    isum (l.map f) ≤ isum (l.map g) := by
  induction l with
  | nil => simp
  | cons x xs ih =>
    have h1 := h x (by simp)
    have h2 := ih (fun a ha => h a (by simp [ha]))
    simp only [List.map_cons, isum_cons]
    omega

@[simp] theorem psum_nil (f : Nat → Nat → Int) : psum f [] = 0 := rfl

theorem psum_cons (f : Nat → Nat → Int) (x : Nat) (xs : List Nat) :
    psum f (x :: xs) = isum (xs.map fun y => f x y) + psum f xs := by
  simp [psum, isum_append, List.map_map, Function.comp_def]

@[simp] theorem cross_nil_left (f : Nat → Nat → Int) (b : List Nat) : cross f [] b = 0 := rfl

theorem cross_cons_left (f : Nat → Nat → Int) (x : Nat) (xs b : List Nat) :
    cross f (x :: xs) b = isum (b.map fun j => f x j) + cross f xs b := rfl

theorem cross_append_right (f : Nat → Nat → Int) (a b c : List Nat) :
    cross f a (b ++ c) = cross f a b + cross f a c := by
  unfold cross
  simp only [List.map_append, isum_append]
  exact isum_map_add _ _ a

theorem psum_append (f : Nat → Nat → Int) (a b : List Nat) :
    psum f (a ++ b) = psum f a + cross f a b + psum f b := by
  induction a with
  | nil => simp
  | cons x xs ih =>
    rw [List.cons_append, psum_cons, ih, psum_cons, cross_cons_left, List.map_append, isum_append]
    omega

theorem cross_flatten (f : Nat → Nat → Int) (a : List Nat) (gs : List (List Nat)) :
    cross f a gs.flatten = isum (gs.map fun h => cross f a h) := by
  induction gs with
  | nil => simp [cross, isum_map_zero]
  | cons g rest ih => rw [List.flatten_cons, cross_append_right, ih]; rfl

/-- pair sum over a concatenation of groups: within-group pair sums plus cross sums of the pairs of groups. -/
theorem psum_flatten (f : Nat → Nat → Int) (gs : List (List Nat)) :
    psum f gs.flatten =
      isum (gs.map fun g => psum f g) + isum ((pairs gs).map fun p => cross f p.1 p.2) := by
  induction gs with
  | nil => simp
  | cons g rest ih =>
    rw [List.flatten_cons, psum_append, ih, cross_flatten]
    simp only [List.map_cons, isum_cons, pairs_cons, List.map_append, isum_append, List.map_map,
      Function.comp_def]
    omega

/-- a pair sum symmetric on ids `< n` is invariant under permutations of a list of ids `< n`. -/
theorem psum_perm_lt (f : Nat → Nat → Int) (n : Nat) (hf : ∀ i j, i < n → j < n → f i j = f j i)
    {l₁ l₂ : List Nat} (h : l₁.Perm l₂) (hl : ∀ i ∈ l₁, i < n) : psum f l₁ = psum f l₂ := by
  let f' : Nat → Nat → Int := fun i j => if i < n ∧ j < n then f i j else 0
  have hf' : ∀ x y, f' x y = f' y x := by
    intro x y
    simp only [f']
    by_cases hx : x < n <;> by_cases hy : y < n <;> simp [hx, hy]
    exact hf x y hx hy
  have e : ∀ l : List Nat, (∀ i ∈ l, i < n) → psum f l = psum f' l := by
    intro l hl
    unfold psum
    apply isum_map_congr
    intro p hp
    obtain ⟨h1, h2⟩ := mem_pairs p hp
    simp [f', hl _ h1, hl _ h2]
  rw [e l₁ hl, e l₂ (fun i hi => hl i (h.mem_iff.mpr hi))]
  exact isum_pairs_perm f' hf' h

/-! ### `sel` and the mirror law -/

theorem sel_symm (t : Table) (n : Nat) (hm : MirrorT t n) (v : List Int) (i j : Nat) (hi : i < n) (hj : j < n) :
    sel t v i j = sel t v j i := by
  obtain ⟨h1, h2⟩ := hm i j hi hj
  obtain ⟨h3, _⟩ := hm j i hj hi
  simp only [sel]
  by_cases a : v.getD i 0 < v.getD j 0
  · have b : ¬ v.getD j 0 < v.getD i 0 := by omega
    rw [if_pos a, if_neg b, if_pos a, h1]
  · by_cases b : v.getD j 0 < v.getD i 0
    · rw [if_neg a, if_pos b, if_pos b, h3]
    · rw [if_neg a, if_neg b, if_neg b, if_neg a, h2]

theorem scoreVec_eq_psum (t : Table) (v : List Int) : scoreVec t v = psum (sel t v) (List.range v.length) := rfl

theorem scoreIds_eq_psum (t : Table) (ids : List Nat) (v : List Int) : scoreIds t ids v = psum (sel t v) ids := rfl

/-! ### partitions -/

theorem partition_mem (n : Nat) (groups : List (List Nat)) (hp : isPartitionOf n groups = true) (i : Nat) :
    i ∈ groups.flatten ↔ i < n := by
  simp only [isPartitionOf, sameSet, Bool.and_eq_true, List.all_eq_true, List.contains_iff_mem,
    List.mem_range] at hp
  exact ⟨fun h => hp.2.1 i h, fun h => hp.2.2 i h⟩

theorem partition_perm (n : Nat) (groups : List (List Nat)) (hp : isPartitionOf n groups = true) :
    groups.flatten.Perm (List.range n) := by
  have hnd : groups.flatten.Nodup := by
    simp only [isPartitionOf, Bool.and_eq_true, decide_eq_true_eq] at hp
    exact hp.1.2
  apply (List.perm_ext_iff_of_nodup hnd List.nodup_range).mpr
  intro i
  rw [partition_mem n groups hp i, List.mem_range]

/-- cross terms of a key vector that respects the groups: always the `bef` entry. -/
theorem cross_respects (t : Table) (groups : List (List Nat)) (v : List Int) (hr : RespectsI groups v) :
    isum ((pairs groups).map fun p => cross (sel t v) p.1 p.2) =
      isum ((pairs groups).map fun p => cross (fun i j => t.bef i j) p.1 p.2) := by
  apply isum_map_congr
  intro p hp
  unfold cross
  apply isum_map_congr
  intro i hi
  apply isum_map_congr
  intro j hj
  have := hr p hp i hi j hj
  simp only [sel]
  rw [if_pos this]

/-! ### projection of a ranking on kept elements -/

/-- one ranking of `projectKeepAll`. -/
def projR (keep : List Elem) (r : Ranking) : Ranking :=
  (r.map fun b => b.filter fun x => keep.contains x).filter fun b => !b.isEmpty

theorem projectKeepAll_eq (D : Dataset) (keep : List Elem) : projectKeepAll D keep = D.map (projR keep) := rfl

theorem projR_cons (keep : List Elem) (b : Bucket) (bs : Ranking) :
    projR keep (b :: bs) =
      if (b.filter fun x => keep.contains x).isEmpty then projR keep bs
      else (b.filter fun x => keep.contains x) :: projR keep bs := by
  unfold projR
  rw [List.map_cons, List.filter_cons]
  by_cases h : (b.filter fun x => keep.contains x).isEmpty
  · rw [if_pos h, if_neg (by rw [h]; simp)]
  · rw [if_neg h, if_pos (by rw [Bool.not_eq_true] at h; rw [h]; rfl)]

theorem status_cons (b : Bucket) (bs : Ranking) (x y : Elem) :
    Spec.status (b :: bs) x y =
      if x ∈ b then (if y ∈ b then 2 else if (bucketIdx bs y).isSome then 0 else 3)
      else if y ∈ b then (if (bucketIdx bs x).isSome then 1 else 4)
      else Spec.status bs x y := by
  unfold Spec.status
  simp only [bucketIdx]
  by_cases hx : x ∈ b <;> by_cases hy : y ∈ b <;> simp only [hx, hy, if_true, if_false]
  · simp
  · cases bucketIdx bs y <;> simp
  · cases bucketIdx bs x <;> simp
  · cases bucketIdx bs x <;> cases bucketIdx bs y <;> simp

theorem mem_projR_flatten (keep : List Elem) (r : Ranking) (x : Elem) (hx : x ∈ keep) :
    x ∈ (projR keep r).flatten ↔ x ∈ r.flatten := by
  induction r with
  | nil => simp [projR]
  | cons b bs ih =>
    rw [projR_cons]
    have hb : x ∈ (b.filter fun x => keep.contains x) ↔ x ∈ b := by simp [hx]
    by_cases h : (b.filter fun x => keep.contains x).isEmpty
    · have hnb : x ∉ b := by
        intro hxb
        have := hb.mpr hxb
        rw [List.isEmpty_iff] at h
        rw [h] at this
        simp at this
      rw [if_pos h, ih, List.flatten_cons, List.mem_append]
      simp [hnb]
    · rw [if_neg h, List.flatten_cons, List.mem_append, List.flatten_cons, List.mem_append, ih, hb]

theorem bucketIdx_projR_isSome (keep : List Elem) (r : Ranking) (x : Elem) (hx : x ∈ keep) :
    (bucketIdx (projR keep r) x).isSome = (bucketIdx r x).isSome := by
  have h := mem_projR_flatten keep r x hx
  have e1 := @bucketIdx_eq_none (projR keep r) x
  have e2 := @bucketIdx_eq_none r x
  cases h1 : bucketIdx (projR keep r) x <;> cases h2 : bucketIdx r x <;> simp_all

/-- the status of a pair of kept elements is unchanged by the projection. -/
theorem status_projR (keep : List Elem) (r : Ranking) (x y : Elem) (hx : x ∈ keep) (hy : y ∈ keep) :
    Spec.status (projR keep r) x y = Spec.status r x y := by
  induction r with
  | nil => rfl
  | cons b bs ih =>
    have hbx : x ∈ (b.filter fun x => keep.contains x) ↔ x ∈ b := by simp [hx]
    have hby : y ∈ (b.filter fun x => keep.contains x) ↔ y ∈ b := by simp [hy]
    rw [projR_cons, status_cons]
    by_cases h : (b.filter fun x => keep.contains x).isEmpty
    · rw [if_pos h, ih]
      rw [List.isEmpty_iff] at h
      have hnx : x ∉ b := fun hxb => by have := hbx.mpr hxb; rw [h] at this; simp at this
      have hny : y ∉ b := fun hyb => by have := hby.mpr hyb; rw [h] at this; simp at this
      simp [hnx, hny]
    · rw [if_neg h, status_cons]
      simp only [hbx, hby, bucketIdx_projR_isSome keep bs x hx, bucketIdx_projR_isSome keep bs y hy, ih]

/-- splitting a sum over rankings into the non-empty rankings and the empty ones. -/
theorem isum_split_empty (L : List Ranking) (f : Ranking → Int) (c : Int) (hf : f [] = c) :
    isum (L.map f) =
      isum ((L.filter fun r => !r.isEmpty).map f) + ((L.filter fun r => r.isEmpty).length : Int) * c := by
  induction L with
  | nil => simp
  | cons r rs ih =>
    cases r with
    | nil =>
      simp only [List.map_cons, isum_cons, ih, hf, List.filter_cons, List.isEmpty_nil, Bool.not_true,
        Bool.false_eq_true, if_false, if_true, List.length_cons]
      rw [Int.natCast_add, Int.add_mul]
      simp
      omega
    | cons b bs =>
      simp only [List.map_cons, isum_cons, ih, List.filter_cons, List.isEmpty_cons, Bool.not_false,
        Bool.false_eq_true, if_false, if_true]
      omega

end PartSum
end Corankco
