import Corankco.Lemmas.BioSweep
import Corankco.Lemmas.L4
/-
  Termination of the BioConsert local search (`improveLoop`): a sweep that makes a move ends with a running delta
  strictly below the one it started with (by more than τ ≥ 0), the running delta tracks the integer score, and the
  score is bounded below by `L4.lower`; so at most `score - lower` moving sweeps can happen.
-/
namespace Corankco
open Model Spec
namespace BioSM

/-- a sweep that reports a move has decreased the running delta by more than `τ` -/
theorem sweep_moved_lt (t : Table) (τ : Int) (hτ : 0 ≤ τ) (r : List Nat) (M : Nat) (delta : Int)
    (hm : MirrorT t r.length) (hd : DenseN r) (hM : M = r.foldl max 0)
    (hmv : (sweep t τ r M delta).moved = true) : (sweep t τ r M delta).delta < delta - τ := by
  have key := foldl_inv (sweepStep t τ)
    (fun _ st => DenseN st.r ∧ st.r.length = r.length ∧ st.maxId = st.r.foldl max 0 ∧
      st.delta ≤ delta ∧ (st.moved = true → st.delta < delta - τ))
    (List.range r.length) { r := r, maxId := M, delta := delta, moved := false }
    ⟨hd, rfl, hM, Int.le_refl _, fun h => by cases h⟩
    (by
      intro j hj st ⟨i1, i2, i3, i4, i5⟩
      rw [List.length_range] at hj
      rw [List.getElem_range]
      rcases sweepStep_spec t τ hτ st j (by rw [i2]; exact hm) i1 (by omega) i3 with
        ⟨e, _⟩ | ⟨_, s2, s3, s4, _, s6⟩
      · rw [e]
        exact ⟨i1, i2, i3, i4, i5⟩
      · exact ⟨s2, by omega, s4, by omega, fun _ => by omega⟩)
  exact key.2.2.2.2 hmv

/-- the lower bound of every score, for a vector of bucket ids -/
theorem lower_le_scoreVecN (t : Table) (r : List Nat) : L4.lower t r.length ≤ scoreVecN t r := by
  have h := L4.lower_le t (r.map fun v => Int.ofNat v)
  rw [List.length_map] at h
  exact h

/-- termination of the loop with an explicit fuel bound -/
theorem improveLoop_terminates (t : Table) (τ : Int) (hτ : 0 ≤ τ) (fuel : Nat) (r : List Nat) (M : Nat) (delta : Int)
    (hm : MirrorT t r.length) (hd : DenseN r) (hM : M = r.foldl max 0)
    (hf : (scoreVecN t r - L4.lower t r.length).toNat + 1 ≤ fuel) :
    (improveLoop t τ fuel r M delta).2.2 = true := by
  induction fuel generalizing r M delta with
  | zero => omega
  | succ fuel ih =>
    obtain ⟨k1, k2, k3, k4, _, _⟩ := sweep_spec t τ hτ r M delta hm hd hM
    unfold improveLoop
    simp only []
    by_cases hmv : (sweep t τ r M delta).moved = true
    · rw [if_pos hmv]
      have hlt := sweep_moved_lt t τ hτ r M delta hm hd hM hmv
      have hlow := lower_le_scoreVecN t (sweep t τ r M delta).r
      rw [k2] at hlow
      apply ih _ _ _ (by rw [k2]; exact hm) k1 k3
      rw [k2]
      omega
    · rw [if_neg hmv]

/-- fuel independence of the loop -/
theorem improveLoop_fuel_mono (t : Table) (τ : Int) (fuel fuel' : Nat) (r : List Nat) (M : Nat) (delta : Int)
    (h : fuel ≤ fuel') (hok : (improveLoop t τ fuel r M delta).2.2 = true) :
    improveLoop t τ fuel' r M delta = improveLoop t τ fuel r M delta := by
  induction fuel generalizing fuel' r M delta with
  | zero => simp [improveLoop] at hok
  | succ fuel ih =>
    obtain ⟨f, rfl⟩ : ∃ f, fuel' = f + 1 := ⟨fuel' - 1, by omega⟩
    unfold improveLoop at hok ⊢
    simp only [] at hok ⊢
    by_cases hmv : (sweep t τ r M delta).moved = true
    · rw [if_pos hmv] at hok
      rw [if_pos hmv, if_pos hmv]
      exact ih f _ _ _ (by omega) hok
    · rw [if_neg hmv, if_neg hmv]

end BioSM
end Corankco
