import Corankco.Lemmas.C02
import Corankco.Lemmas.C12
import Batteries.Data.List.Basic
/-
  Invariance lemmas about the specification itself: `bucketIdx`, `status`, `pen`, `kemenyOne` do not depend on
  the order of the members inside a bucket, and commute with an injective renaming of the elements;
  the same for the ingredients of the Borda specification (`univOf`, `unifyRanking`, `bordaSumCount`).
-/
namespace Corankco
open Model Spec
namespace Invariance

/-! ### renaming by an injective function -/

theorem mem_map_inj {f : Elem → Elem} (hf : Function.Injective f) (l : List Elem) (x : Elem) :
    f x ∈ l.map f ↔ x ∈ l := by
  rw [List.mem_map]
  constructor
  · rintro ⟨a, ha, e⟩
    exact hf e ▸ ha
  · intro h
    exact ⟨x, h, rfl⟩

theorem flatten_rename (f : Elem → Elem) (r : Ranking) :
    (r.map fun b => b.map f).flatten = r.flatten.map f := by
  rw [List.map_flatten]

theorem bucketIdx_rename {f : Elem → Elem} (hf : Function.Injective f) (r : Ranking) (x : Elem) :
    bucketIdx (r.map fun b => b.map f) (f x) = bucketIdx r x := by
  induction r with
  | nil => rfl
  | cons b bs ih =>
    simp only [List.map_cons, bucketIdx, ih, mem_map_inj hf]

theorem status_rename {f : Elem → Elem} (hf : Function.Injective f) (r : Ranking) (x y : Elem) :
    status (r.map fun b => b.map f) (f x) (f y) = status r x y := by
  unfold status
  rw [bucketIdx_rename hf, bucketIdx_rename hf]

theorem pen_rename {f : Elem → Elem} (hf : Function.Injective f) (S : Scheme) (r c : Ranking) (x y : Elem) :
    pen S (r.map fun b => b.map f) (c.map fun b => b.map f) (f x) (f y) = pen S r c x y := by
  unfold pen
  rw [bucketIdx_rename hf, bucketIdx_rename hf, status_rename hf, status_rename hf]

theorem kemenyOne_rename {f : Elem → Elem} (hf : Function.Injective f) (S : Scheme) (c r : Ranking) :
    kemenyOne S (c.map fun b => b.map f) (r.map fun b => b.map f) = kemenyOne S c r := by
  unfold kemenyOne
  rw [flatten_rename, pairs_map, List.map_map]
  apply isum_map_congr
  intro p _
  exact pen_rename hf S r c p.1 p.2

/-! ### order of the members inside the buckets -/

theorem bucketIdx_members {r r' : Ranking} (h : List.Forall₂ (fun b b' => b.Perm b') r r') (x : Elem) :
    bucketIdx r x = bucketIdx r' x := by
  induction h with
  | nil => rfl
  | cons hb _ ih => simp only [bucketIdx, ih, hb.mem_iff]

theorem status_members {r r' : Ranking} (h : List.Forall₂ (fun b b' => b.Perm b') r r') (x y : Elem) :
    status r x y = status r' x y := by
  unfold status
  rw [bucketIdx_members h, bucketIdx_members h]

theorem flatten_members {r r' : Ranking} (h : List.Forall₂ (fun b b' => b.Perm b') r r') :
    r.flatten.Perm r'.flatten := by
  induction h with
  | nil => exact List.Perm.refl _
  | cons hb _ ih =>
    simp only [List.flatten_cons]
    exact hb.append ih

theorem pen_input_members (S : Scheme) {r r' : Ranking} (h : List.Forall₂ (fun b b' => b.Perm b') r r')
    (c : Ranking) (x y : Elem) : pen S r c x y = pen S r' c x y := by
  unfold pen
  rw [status_members h, status_members h]

theorem kemenyOne_input_members (S : Scheme) {r r' : Ranking} (h : List.Forall₂ (fun b b' => b.Perm b') r r')
    (c : Ranking) : kemenyOne S c r = kemenyOne S c r' := by
  unfold kemenyOne
  apply isum_map_congr
  intro p _
  exact pen_input_members S h c p.1 p.2

theorem pen_candidate_members (S : Scheme) {c c' : Ranking} (h : List.Forall₂ (fun b b' => b.Perm b') c c')
    (r : Ranking) (x y : Elem) : pen S r c x y = pen S r c' x y := by
  unfold pen
  rw [bucketIdx_members h, bucketIdx_members h]

/-- the candidate's buckets may list their members in any order (no `Nodup` hypothesis needed). -/
theorem kemenyOne_candidate_members (S : Scheme) (h01 : S.t0 = S.t1) (h34 : S.t3 = S.t4) {c c' : Ranking}
    (h : List.Forall₂ (fun b b' => b.Perm b') c c') (r : Ranking) : kemenyOne S c r = kemenyOne S c' r := by
  unfold kemenyOne
  have e : (pairs c.flatten).map (fun p => pen S r c p.1 p.2) =
      (pairs c.flatten).map (fun p => pen S r c' p.1 p.2) :=
    List.map_congr_left fun p _ => pen_candidate_members S h r p.1 p.2
  rw [e]
  exact isum_pairs_perm (fun x y => pen S r c' x y) (fun x y => pen_symm S h01 h34 r c' x y)
    (flatten_members h)

/-! ### the ingredients of Borda under an injective renaming -/

theorem dedup_map {f : Elem → Elem} (hf : Function.Injective f) (l : List Elem) :
    dedup (l.map f) = (dedup l).map f := by
  induction l with
  | nil => rfl
  | cons x xs ih =>
    simp only [List.map_cons, dedup, ih, List.filter_map]
    congr 2
    apply List.filter_congr
    intro y _
    simp only [Function.comp_def]
    by_cases e : y = x
    · simp [e]
    · have : f y ≠ f x := fun h => e (hf h)
      simp [e, this]

theorem ff_rename (f : Elem → Elem) (D : Dataset) :
    (D.map fun r => r.map fun b => b.map f).flatten.flatten = D.flatten.flatten.map f := by
  rw [List.map_flatten, List.map_flatten]

theorem univOf_rename {f : Elem → Elem} (hf : Function.Injective f) (D : Dataset) :
    univOf (D.map fun r => r.map fun b => b.map f) = (univOf D).map f := by
  unfold univOf
  rw [ff_rename, dedup_map hf]

theorem unifyRanking_rename {f : Elem → Elem} (hf : Function.Injective f) (u : List Elem) (r : Ranking) :
    unifyRanking (u.map f) (r.map fun b => b.map f) = (unifyRanking u r).map fun b => b.map f := by
  unfold unifyRanking
  have e : (u.map f).filter (fun x => !((r.map fun b => b.map f).flatten.contains x)) =
      (u.filter fun x => !(r.flatten.contains x)).map f := by
    rw [List.filter_map]
    congr 1
    apply List.filter_congr
    intro y _
    simp only [Function.comp_def, flatten_rename]
    congr 1
    rw [Bool.eq_iff_iff]
    simp only [List.contains_iff_mem]
    exact mem_map_inj hf _ y
  simp only [e, List.isEmpty_map]
  split
  · rfl
  · simp

theorem unifiedRankings_rename {f : Elem → Elem} (hf : Function.Injective f) (D : Dataset) :
    unifiedRankings (D.map fun r => r.map fun b => b.map f) =
      (unifiedRankings D).map fun r => r.map fun b => b.map f := by
  unfold unifiedRankings
  rw [univOf_rename hf, List.map_map, List.map_map]
  apply List.map_congr_left
  intro r _
  exact unifyRanking_rename hf (univOf D) r

theorem bordaRs_rename {f : Elem → Elem} (hf : Function.Injective f) (S : Scheme) (D : Dataset) :
    C12.bordaRs S (D.map fun r => r.map fun b => b.map f) =
      (C12.bordaRs S D).map fun r => r.map fun b => b.map f := by
  unfold C12.bordaRs
  split
  · exact unifiedRankings_rename hf D
  · rfl

theorem bordaScoreIn_rename {f : Elem → Elem} (hf : Function.Injective f) (useBid : Bool) (r : Ranking) (x : Elem) :
    bordaScoreIn useBid (r.map fun b => b.map f) (f x) = bordaScoreIn useBid r x := by
  unfold bordaScoreIn
  rw [bucketIdx_rename hf]
  cases bucketIdx r x with
  | none => rfl
  | some i => simp [← List.map_take, List.map_map, Function.comp_def]

theorem bordaSumCount_rename {f : Elem → Elem} (hf : Function.Injective f) (useBid : Bool) (rs : Dataset) (x : Elem) :
    bordaSumCount useBid (rs.map fun r => r.map fun b => b.map f) (f x) = bordaSumCount useBid rs x := by
  unfold bordaSumCount
  rw [List.foldl_map]
  simp only [bordaScoreIn_rename hf]

theorem nodup_rename {f : Elem → Elem} (hf : Function.Injective f) (D : Dataset) (hD : ∀ r ∈ D, r.flatten.Nodup) :
    ∀ r ∈ (D.map fun r => r.map fun b => b.map f), r.flatten.Nodup := by
  intro r' hr'
  obtain ⟨r, hr, rfl⟩ := List.mem_map.mp hr'
  rw [flatten_rename]
  have := hD r hr
  rw [List.nodup_iff_pairwise_ne] at this ⊢
  rw [List.pairwise_map]
  exact this.imp fun h e => h (hf e)

end Invariance
end Corankco
