import Corankco.Model.Basic
/-
  C01 helper lemmas, part 1: the generic double count `cross P L R = #{(x, y) ∈ L × R | P x y}`,
  its algebra (append, flatten, swap, permutation, filter, map), and the bridge between counts over the
  unordered pairs `pairs l` and `cross P l l`.
-/
namespace Corankco
namespace C01

/-- number of `(x, y) ∈ L × R` with `P x y` -/
def cross {α β : Type} (P : α → β → Bool) (L : List α) (R : List β) : Nat :=
  (L.map (fun x => R.countP (P x))).sum

section
variable {α β : Type} (P : α → β → Bool)

@[simp] theorem cross_nil_left (R : List β) : cross P [] R = 0 := rfl

theorem cross_cons_left (a : α) (L : List α) (R : List β) :
    cross P (a :: L) R = R.countP (P a) + cross P L R := by simp [cross]

@[simp] theorem cross_nil_right (L : List α) : cross P L ([] : List β) = 0 := by
  induction L with
  | nil => rfl
  | cons a L ih => simp [cross_cons_left, ih]

theorem cross_cons_right (b : β) (L : List α) (R : List β) :
    cross P L (b :: R) = L.countP (fun x => P x b) + cross P L R := by
  induction L with
  | nil => simp
  | cons a L ih =>
    simp only [cross_cons_left, ih, List.countP_cons]
    cases P a b <;> simp <;> omega

theorem cross_append_left (L1 L2 : List α) (R : List β) :
    cross P (L1 ++ L2) R = cross P L1 R + cross P L2 R := by
  simp [cross]

theorem cross_append_right (L : List α) (R1 R2 : List β) :
    cross P L (R1 ++ R2) = cross P L R1 + cross P L R2 := by
  induction L with
  | nil => simp
  | cons a L ih => simp only [cross_cons_left, ih, List.countP_append]; omega

theorem cross_swap (L : List α) (R : List β) :
    cross P L R = cross (fun y x => P x y) R L := by
  induction L with
  | nil => simp
  | cons a L ih => rw [cross_cons_left, cross_cons_right, ih]

theorem cross_congr {P Q : α → β → Bool} {L : List α} {R : List β}
    (h : ∀ x ∈ L, ∀ y ∈ R, P x y = Q x y) : cross P L R = cross Q L R := by
  induction L with
  | nil => simp
  | cons a L ih =>
    rw [cross_cons_left, cross_cons_left, ih (fun x hx y hy => h x (by simp [hx]) y hy)]
    congr 1
    apply List.countP_congr
    intro y hy
    rw [h a (by simp) y hy]

theorem cross_eq_zero {L : List α} {R : List β}
    (h : ∀ x ∈ L, ∀ y ∈ R, P x y = false) : cross P L R = 0 := by
  induction L with
  | nil => simp
  | cons a L ih =>
    rw [cross_cons_left, ih (fun x hx y hy => h x (by simp [hx]) y hy)]
    have : R.countP (P a) = 0 := by
      rw [List.countP_eq_zero]; intro y hy; simp [h a (by simp) y hy]
    omega

theorem cross_perm_left {L L' : List α} (h : L.Perm L') (R : List β) :
    cross P L R = cross P L' R := by
  unfold cross
  exact (h.map _).sum_nat

theorem cross_perm_right (L : List α) {R R' : List β} (h : R.Perm R') :
    cross P L R = cross P L R' := by
  rw [cross_swap, cross_perm_left _ h, ← cross_swap]

theorem cross_perm {L L' : List α} {R R' : List β} (h : L.Perm L') (h' : R.Perm R') :
    cross P L R = cross P L' R' := by
  rw [cross_perm_left _ h, cross_perm_right _ _ h']

theorem cross_map {γ δ : Type} (f : γ → α) (g : δ → β) (L : List γ) (R : List δ) :
    cross P (L.map f) (R.map g) = cross (fun x y => P (f x) (g y)) L R := by
  induction L with
  | nil => simp
  | cons a L ih =>
    simp only [List.map_cons, cross_cons_left, ih, List.countP_map]
    rfl

theorem cross_filter (q : α → Bool) (q' : β → Bool) (L : List α) (R : List β) :
    cross (fun x y => q x && q' y && P x y) L R = cross P (L.filter q) (R.filter q') := by
  induction L with
  | nil => simp
  | cons a L ih =>
    rw [cross_cons_left, ih, List.filter_cons]
    cases hq : q a
    · simp
    · simp only [if_true, cross_cons_left, List.countP_filter]
      congr 1
      apply List.countP_congr
      intro y _
      simp [Bool.and_comm]

theorem cross_flatten_left (A : List (List α)) (R : List β) :
    cross P A.flatten R = (A.map (fun a => cross P a R)).sum := by
  induction A with
  | nil => simp
  | cons a A ih => simp [cross_append_left, ih]

theorem cross_flatten_right (L : List α) (B : List (List β)) :
    cross P L B.flatten = (B.map (fun b => cross P L b)).sum := by
  induction B with
  | nil => simp
  | cons b B ih => simp [cross_append_right, ih]

end

/-! ### pairs -/

theorem mem_pairs {α : Type} {l : List α} {p : α × α} (h : p ∈ pairs l) : p.1 ∈ l ∧ p.2 ∈ l := by
  induction l with
  | nil => simp [pairs] at h
  | cons x xs ih =>
    simp only [pairs, List.mem_append, List.mem_map] at h
    rcases h with ⟨y, hy, rfl⟩ | h
    · simp [hy]
    · have := ih h; simp [this.1, this.2]

theorem pairs_map {α β : Type} (f : α → β) (l : List α) :
    pairs (l.map f) = (pairs l).map (fun p => (f p.1, f p.2)) := by
  induction l with
  | nil => rfl
  | cons x xs ih => simp [pairs, ih, Function.comp_def]

/-- the double count over `l × l` splits into the two orientations of each unordered pair and the diagonal -/
theorem cross_pairs {α : Type} (P : α → α → Bool) (l : List α) :
    cross P l l = (pairs l).countP (fun p => P p.1 p.2) + (pairs l).countP (fun p => P p.2 p.1)
      + l.countP (fun x => P x x) := by
  induction l with
  | nil => simp [pairs]
  | cons x xs ih =>
    rw [cross_cons_left, cross_cons_right, ih]
    simp only [pairs, List.countP_append, List.countP_map, List.countP_cons, Function.comp_def]
    have e : List.countP (fun y => P x y) xs = List.countP (P x) xs := rfl
    omega

theorem countP_or_of_disjoint {α : Type} (p q : α → Bool) (l : List α)
    (h : ∀ x ∈ l, ¬ (p x = true ∧ q x = true)) :
    l.countP (fun x => p x || q x) = l.countP p + l.countP q := by
  induction l with
  | nil => simp
  | cons a l ih =>
    have h1 := h a (by simp)
    simp only [List.countP_cons, ih (fun x hx => h x (by simp [hx]))]
    cases hp : p a <;> cases hq : q a <;> simp_all <;> omega

/-- counting unordered pairs satisfying `P` in one of the two orientations (never both, never on the diagonal) -/
theorem countP_pairs_orient {α : Type} (P : α → α → Bool) (l : List α)
    (hasym : ∀ x ∈ l, ∀ y ∈ l, ¬ (P x y = true ∧ P y x = true)) :
    (pairs l).countP (fun p => P p.1 p.2 || P p.2 p.1) = cross P l l := by
  rw [cross_pairs, countP_or_of_disjoint]
  · have : l.countP (fun x => P x x) = 0 := by
      rw [List.countP_eq_zero]; intro x hx hP; exact hasym x hx x hx ⟨hP, hP⟩
    omega
  · intro p hp
    have := mem_pairs hp
    exact hasym p.1 this.1 p.2 this.2

/-- unordered pairs of a filtered list -/
theorem pairs_filter {α : Type} (q : α → Bool) (l : List α) :
    pairs (l.filter q) = (pairs l).filter (fun p => q p.1 && q p.2) := by
  induction l with
  | nil => rfl
  | cons x xs ih =>
    simp only [pairs, List.filter_cons, List.filter_append, List.filter_map, Function.comp_def]
    cases hq : q x
    · simp [ih]
    · simp [pairs, ih]

theorem sum_map_add {α : Type} (f g : α → Nat) (l : List α) :
    (l.map (fun i => f i + g i)).sum = (l.map f).sum + (l.map g).sum := by
  induction l with
  | nil => rfl
  | cons a l ih => simp only [List.map_cons, List.sum_cons, ih]; omega

theorem sum_map_congr {α : Type} {f g : α → Nat} {l : List α} (h : ∀ x ∈ l, f x = g x) :
    (l.map f).sum = (l.map g).sum := by
  rw [List.map_congr_left h]

end C01
end Corankco
