import Corankco.Lemmas.Exact
import Corankco.Lemmas.PartSum
import Corankco.Lemmas.BioMove
/-
  Helper lemmas for the composed statements (C06d): bucket ids in a concatenation of rankings, the consensus of
  ParCons as a concatenation of component rankings.
-/
namespace Corankco
open Model Spec

namespace Compose

theorem bidIn_lt_length (A : List (List Nat)) (x : Nat) (h : x ∈ A.flatten) : bidIn A x < A.length := by
  induction A with
  | nil => simp at h
  | cons g gs ih =>
    by_cases hx : x ∈ g
    · rw [Exact.bidIn_cons_mem g gs x hx]; simp only [List.length_cons]; omega
    · have hx' : x ∈ gs.flatten := by simpa [hx] using h
      rw [Exact.bidIn_cons_not_mem g gs x hx hx']
      have := ih hx'
      simp only [List.length_cons]; omega

theorem bidIn_append_left (A B : List (List Nat)) (x : Nat) (h : x ∈ A.flatten) :
    bidIn (A ++ B) x = bidIn A x := by
  induction A with
  | nil => simp at h
  | cons g gs ih =>
    by_cases hx : x ∈ g
    · rw [List.cons_append, Exact.bidIn_cons_mem g _ x hx, Exact.bidIn_cons_mem g gs x hx]
    · have hx' : x ∈ gs.flatten := by simpa [hx] using h
      rw [List.cons_append, Exact.bidIn_cons_not_mem g _ x hx (by simp [hx']),
        Exact.bidIn_cons_not_mem g gs x hx hx', ih hx']

theorem bidIn_append_right (A B : List (List Nat)) (x : Nat) (h : x ∉ A.flatten) (h' : x ∈ B.flatten) :
    bidIn (A ++ B) x = bidIn B x + A.length := by
  induction A with
  | nil => simp
  | cons g gs ih =>
    have hx : x ∉ g := fun e => h (by simp [e])
    have hx' : x ∉ gs.flatten := fun e => h (by simp [e])
    rw [List.cons_append, Exact.bidIn_cons_not_mem g _ x hx (by simp [h']), ih hx']
    simp only [List.length_cons]; omega

/-- the key the consensus vector gives to an id that is ranked -/
theorem key_eq (n : Nat) (cons : List (List Nat)) (i : Nat) (hi : i < n) (hmem : i ∈ cons.flatten) :
    ((vecOfIds n cons).map fun k => Int.ofNat k).getD i 0 = bidIn cons i := by
  rw [Exact.getD_map_ofNat, Exact.vecOfIds_getD n cons i hi]
  have := Exact.bidIn_nonneg cons i hmem
  simp only [Int.ofNat_eq_natCast]
  omega

section flatMap
variable (f : List Nat → List (List Nat))

theorem mem_flatMap_flatten (comps : List (List Nat))
    (hf : ∀ c ∈ comps, ∀ x, x ∈ (f c).flatten ↔ x ∈ c) (x : Nat) :
    x ∈ (comps.flatMap f).flatten ↔ x ∈ comps.flatten := by
  induction comps with
  | nil => simp
  | cons c cs ih =>
    have ih' := ih (fun c hc => hf c (by simp [hc]))
    simp only [List.flatMap_cons, List.flatten_append, List.mem_append, List.flatten_cons]
    rw [ih', hf c (by simp) x]

/-- earlier components come strictly before later ones in the concatenation -/
theorem bidIn_flatMap_lt (comps : List (List Nat)) (hnd : comps.flatten.Nodup)
    (hf : ∀ c ∈ comps, ∀ x, x ∈ (f c).flatten ↔ x ∈ c) :
    ∀ p ∈ pairs comps, ∀ i ∈ p.1, ∀ j ∈ p.2, bidIn (comps.flatMap f) i < bidIn (comps.flatMap f) j := by
  induction comps with
  | nil => intro p hp; simp [pairs] at hp
  | cons c cs ih =>
    have hf' : ∀ c ∈ cs, ∀ x, x ∈ (f c).flatten ↔ x ∈ c := fun c hc => hf c (by simp [hc])
    rw [List.flatten_cons, List.nodup_append] at hnd
    obtain ⟨_, hnd', hdisj⟩ := hnd
    have ih' := ih hnd' hf'
    intro p hp i hi j hj
    simp only [pairs, List.mem_append, List.mem_map] at hp
    rw [List.flatMap_cons]
    rcases hp with ⟨d, hd, rfl⟩ | hp
    · -- i ∈ c, j ∈ d ∈ cs
      simp only at hi hj
      have hi' : i ∈ (f c).flatten := (hf c (by simp) i).mpr hi
      have hjcs : j ∈ cs.flatten := List.mem_flatten.mpr ⟨d, hd, hj⟩
      have hj' : j ∉ (f c).flatten := by
        intro e
        exact hdisj j ((hf c (by simp) j).mp e) j hjcs rfl
      have hj'' : j ∈ (cs.flatMap f).flatten := (mem_flatMap_flatten f cs hf' j).mpr hjcs
      rw [bidIn_append_left _ _ i hi', bidIn_append_right _ _ j hj' hj'']
      have h1 := bidIn_lt_length _ i hi'
      have h2 := Exact.bidIn_nonneg _ j hj''
      omega
    · obtain ⟨h1, h2⟩ := mem_pairs p hp
      have hics : i ∈ cs.flatten := List.mem_flatten.mpr ⟨p.1, h1, hi⟩
      have hjcs : j ∈ cs.flatten := List.mem_flatten.mpr ⟨p.2, h2, hj⟩
      have hi' : i ∉ (f c).flatten := fun e => hdisj i ((hf c (by simp) i).mp e) i hics rfl
      have hj' : j ∉ (f c).flatten := fun e => hdisj j ((hf c (by simp) j).mp e) j hjcs rfl
      rw [bidIn_append_right _ _ i hi' ((mem_flatMap_flatten f cs hf' i).mpr hics),
        bidIn_append_right _ _ j hj' ((mem_flatMap_flatten f cs hf' j).mpr hjcs)]
      have := ih' p hp i hi j hj
      omega

/-- inside a component, the concatenation shifts the bucket ids of the component's ranking by a constant -/
theorem bidIn_flatMap_offset (comps : List (List Nat)) (hnd : comps.flatten.Nodup)
    (hf : ∀ c ∈ comps, ∀ x, x ∈ (f c).flatten ↔ x ∈ c) :
    ∀ g ∈ comps, ∃ off : Int, ∀ i ∈ g, bidIn (comps.flatMap f) i = bidIn (f g) i + off := by
  induction comps with
  | nil => intro g hg; simp at hg
  | cons c cs ih =>
    have hf' : ∀ c ∈ cs, ∀ x, x ∈ (f c).flatten ↔ x ∈ c := fun c hc => hf c (by simp [hc])
    rw [List.flatten_cons, List.nodup_append] at hnd
    obtain ⟨_, hnd', hdisj⟩ := hnd
    intro g hg
    rw [List.flatMap_cons]
    by_cases hgc : g = c
    · subst hgc
      refine ⟨0, fun i hi => ?_⟩
      rw [bidIn_append_left _ _ i ((hf g (by simp) i).mpr hi)]
      omega
    · have hg' : g ∈ cs := by
        rcases List.mem_cons.mp hg with e | e
        · exact absurd e hgc
        · exact e
      obtain ⟨off, hoff⟩ := ih hnd' hf' g hg'
      refine ⟨off + (f c).length, fun i hi => ?_⟩
      have hics : i ∈ cs.flatten := List.mem_flatten.mpr ⟨g, hg', hi⟩
      have hi' : i ∉ (f c).flatten := fun e => hdisj i ((hf c (by simp) i).mp e) i hics rfl
      rw [bidIn_append_right _ _ i hi' ((mem_flatMap_flatten f cs hf' i).mpr hics), hoff i hi]
      omega

theorem flatMap_flatten_perm (comps : List (List Nat)) (hf : ∀ c ∈ comps, (f c).flatten.Perm c) :
    (comps.flatMap f).flatten.Perm comps.flatten := by
  induction comps with
  | nil => simp
  | cons c cs ih =>
    rw [List.flatMap_cons, List.flatten_append, List.flatten_cons]
    exact List.Perm.append (hf c (by simp)) (ih (fun c hc => hf c (by simp [hc])))

end flatMap

/-- the score on a list of ids only depends on the comparisons among these ids -/
theorem scoreIds_congr (t : Table) (ids : List Nat) (v w : List Int)
    (h : ∀ i ∈ ids, ∀ j ∈ ids, compare (v.getD i 0) (v.getD j 0) = compare (w.getD i 0) (w.getD j 0)) :
    scoreIds t ids v = scoreIds t ids w := by
  unfold scoreIds
  apply Int.le_antisymm
  · apply PartSum.isum_map_le
    intro p hp
    obtain ⟨h1, h2⟩ := mem_pairs p hp
    rw [BioSM.sel_congr_cmp t v w p.1 p.2 (h _ h1 _ h2) (h _ h2 _ h1)]
    exact Int.le_refl _
  · apply PartSum.isum_map_le
    intro p hp
    obtain ⟨h1, h2⟩ := mem_pairs p hp
    rw [BioSM.sel_congr_cmp t v w p.1 p.2 (h _ h1 _ h2) (h _ h2 _ h1)]
    exact Int.le_refl _

end Compose
end Corankco
