import Corankco.Spec.Algos
import Corankco.Lemmas.Basic
import Corankco.Props.C01
import Corankco.Props.C19
/-
  Helper lemmas for C10 (PickAPerm): the scan invariant, `foldl min`, reflexivity of `sameRanking`,
  the (unified) input rankings are valid candidates for `getScore`.
-/
namespace Corankco
namespace C10
open Model

/-! ### the scan -/

/-- Invariant of `pickScan` started from a state `(m0, acc0)`. -/
theorem pickScan_some {α : Type} (score : α → Int) (amo : Bool) :
    ∀ (l : List α) (m0 : Int) (acc0 : List α), acc0 ≠ [] → (∀ r ∈ acc0, score r = m0) →
      (amo = true → acc0.length = 1) →
      ∃ m acc, pickScan score amo l (some (m0, acc0)) = some (m, acc) ∧ acc ≠ [] ∧
        (∀ r ∈ acc, (r ∈ acc0 ∨ r ∈ l) ∧ score r = m) ∧ m ≤ m0 ∧ (∀ r ∈ l, m ≤ score r) ∧
        (amo = true → acc.length = 1) ∧
        (amo = false → (∀ r ∈ l, score r = m → r ∈ acc) ∧ (m = m0 → ∀ r ∈ acc0, r ∈ acc)) := by
  intro l
  induction l with
  | nil =>
    intro m0 acc0 hne hsc hlen
    refine ⟨m0, acc0, rfl, hne, ?_, Int.le_refl _, ?_, hlen, ?_⟩
    · intro r hr; exact ⟨Or.inl hr, hsc r hr⟩
    · intro r hr; simp at hr
    · intro _; exact ⟨by intro r hr; simp at hr, fun _ r hr => hr⟩
  | cons a rs ih =>
    intro m0 acc0 hne hsc hlen
    simp only [pickScan]
    by_cases h1 : score a < m0
    · rw [if_pos h1]
      obtain ⟨m, acc, he, hane, hmem, hle, hmin, hl1, hall⟩ :=
        ih (score a) [a] (by simp) (by intro r hr; simp at hr; rw [hr]) (by intro _; rfl)
      refine ⟨m, acc, he, hane, ?_, by omega, ?_, hl1, ?_⟩
      · intro r hr
        obtain ⟨h, hs⟩ := hmem r hr
        refine ⟨Or.inr ?_, hs⟩
        rcases h with h | h
        · simp at h; simp [h]
        · simp [h]
      · intro r hr
        rcases List.mem_cons.mp hr with rfl | hr
        · exact hle
        · exact hmin r hr
      · intro hf
        obtain ⟨ha1, ha2⟩ := hall hf
        refine ⟨?_, ?_⟩
        · intro r hr hs
          rcases List.mem_cons.mp hr with rfl | hr
          · exact ha2 hs.symm r (by simp)
          · exact ha1 r hr hs
        · intro hm; omega
    · rw [if_neg h1]
      by_cases h2 : score a = m0 ∧ (!amo) = true
      · rw [if_pos h2]
        have hamo : amo = false := by simpa using h2.2
        obtain ⟨m, acc, he, hane, hmem, hle, hmin, hl1, hall⟩ :=
          ih m0 (acc0 ++ [a]) (by simp)
            (by
              intro r hr
              rcases List.mem_append.mp hr with hr | hr
              · exact hsc r hr
              · simp at hr; rw [hr]; exact h2.1)
            (by intro ht; rw [hamo] at ht; exact absurd ht (by simp))
        refine ⟨m, acc, he, hane, ?_, hle, ?_, hl1, ?_⟩
        · intro r hr
          obtain ⟨h, hs⟩ := hmem r hr
          refine ⟨?_, hs⟩
          rcases h with h | h
          · rcases List.mem_append.mp h with h | h
            · exact Or.inl h
            · simp at h; exact Or.inr (by simp [h])
          · exact Or.inr (by simp [h])
        · intro r hr
          rcases List.mem_cons.mp hr with rfl | hr
          · omega
          · exact hmin r hr
        · intro hf
          obtain ⟨ha1, ha2⟩ := hall hf
          refine ⟨?_, ?_⟩
          · intro r hr hs
            rcases List.mem_cons.mp hr with rfl | hr
            · exact ha2 (by omega) r (by simp)
            · exact ha1 r hr hs
          · intro hm r hr
            exact ha2 hm r (by simp [hr])
      · rw [if_neg h2]
        obtain ⟨m, acc, he, hane, hmem, hle, hmin, hl1, hall⟩ := ih m0 acc0 hne hsc hlen
        refine ⟨m, acc, he, hane, ?_, hle, ?_, hl1, ?_⟩
        · intro r hr
          obtain ⟨h, hs⟩ := hmem r hr
          refine ⟨?_, hs⟩
          rcases h with h | h
          · exact Or.inl h
          · exact Or.inr (by simp [h])
        · intro r hr
          rcases List.mem_cons.mp hr with rfl | hr
          · omega
          · exact hmin r hr
        · intro hf
          obtain ⟨ha1, ha2⟩ := hall hf
          refine ⟨?_, ha2⟩
          intro r hr hs
          rcases List.mem_cons.mp hr with rfl | hr
          · exfalso
            apply h2
            refine ⟨by omega, by simp [hf]⟩
          · exact ha1 r hr hs

/-! ### `foldl min` is the minimum -/

theorem foldl_min_le (l : List Int) (a : Int) :
    l.foldl min a ≤ a ∧ ∀ x ∈ l, l.foldl min a ≤ x := by
  induction l generalizing a with
  | nil => simp
  | cons y ys ih =>
    simp only [List.foldl_cons]
    obtain ⟨h1, h2⟩ := ih (min a y)
    refine ⟨by omega, ?_⟩
    intro x hx
    rcases List.mem_cons.mp hx with rfl | hx
    · omega
    · exact h2 x hx

theorem foldl_min_mem (l : List Int) (a : Int) :
    l.foldl min a = a ∨ l.foldl min a ∈ l := by
  induction l generalizing a with
  | nil => simp
  | cons y ys ih =>
    simp only [List.foldl_cons]
    rcases ih (min a y) with h | h
    · rw [h]
      rcases Int.le_total a y with hle | hle
      · left; omega
      · right; simp; left; omega
    · right; simp [h]

/-- the fold of the spec equals any attained lower bound -/
theorem foldl_min_eq {l : List Int} {a m : Int} (ha : a ∈ l) (hm : m ∈ l) (hle : ∀ x ∈ l, m ≤ x) :
    l.foldl min a = m := by
  obtain ⟨h1, h2⟩ := foldl_min_le l a
  have h3 := h2 m hm
  have h4 : m ≤ l.foldl min a := by
    rcases foldl_min_mem l a with h | h
    · rw [h]; exact hle a ha
    · exact hle _ h
  omega

/-! ### `sameRanking` -/

theorem sameRanking_refl (r : Ranking) : Spec.sameRanking r r = true := by
  unfold Spec.sameRanking
  simp only [beq_self_eq_true, Bool.true_and, List.all_eq_true]
  intro p hp
  have hpe : p.1 = p.2 := by
    have : ∀ (l : List Bucket) (p : Bucket × Bucket), p ∈ l.zip l → p.1 = p.2 := by
      intro l
      induction l with
      | nil => intro p hp; simp at hp
      | cons b bs ih =>
        intro p hp
        simp only [List.zip_cons_cons, List.mem_cons] at hp
        rcases hp with rfl | hp
        · rfl
        · exact ih p hp
    exact this r p hp
  rw [← hpe]
  simp

/-! ### the inputs are valid candidates -/

theorem mem_univOf {D : Dataset} {x : Elem} : x ∈ univOf D ↔ x ∈ D.flatten.flatten := mem_dedup

theorem covers_of_sub {c : Ranking} {D : Dataset} (h : ∀ x ∈ univOf D, x ∈ c.flatten) :
    Spec.covers c D = true := by
  unfold Spec.covers
  rw [List.all_eq_true]
  intro x hx
  simpa using h x (mem_univOf.mpr hx)

theorem complete_mem {D : Dataset} (hc : isComplete D = true) :
    ∀ r ∈ D, ∀ x ∈ univOf D, x ∈ r.flatten := by
  intro r hr x hx
  unfold isComplete at hc
  rw [List.all_eq_true] at hc
  have := hc x hx
  rw [List.all_eq_true] at this
  simpa using this r hr

theorem unify_flatten (univ : List Elem) (r : Ranking) :
    (unifyRanking univ r).flatten = r.flatten ++ univ.filter fun x => !(r.flatten.contains x) := by
  unfold unifyRanking
  simp only
  split
  · rename_i h
    rw [List.isEmpty_iff] at h
    rw [h]; simp
  · simp

theorem unify_nodup {univ : List Elem} (hu : univ.Nodup) {r : Ranking} (hr : r.flatten.Nodup) :
    (unifyRanking univ r).flatten.Nodup := by
  rw [unify_flatten]
  rw [List.nodup_append]
  refine ⟨hr, hu.sublist List.filter_sublist, ?_⟩
  intro a ha b hb hab
  subst hab
  rw [List.mem_filter] at hb
  simp [ha] at hb

theorem unify_mem {univ : List Elem} {r : Ranking} {x : Elem} (hx : x ∈ univ) :
    x ∈ (unifyRanking univ r).flatten := by
  rw [unify_flatten, List.mem_append, List.mem_filter]
  by_cases h : x ∈ r.flatten
  · exact Or.inl h
  · exact Or.inr ⟨hx, by simp [h]⟩

/-- the rankings PickAPerm scans -/
def inputs (D : Dataset) : Dataset := if isComplete D then D else unifiedRankings D

theorem inputs_ne_nil {D : Dataset} (hne : D ≠ []) : inputs D ≠ [] := by
  unfold inputs unifiedRankings
  split
  · exact hne
  · simpa using hne

theorem inputs_score (S : Scheme) (hS : S.Valid) (D : Dataset) (hD : ∀ r ∈ D, r.flatten.Nodup) :
    ∀ c ∈ inputs D, getScore S c D = .ok (Spec.kemeny S D c) := by
  intro c hc
  unfold inputs at hc
  split at hc
  · rename_i hcomp
    exact C01_score S hS D c (hD c hc) hD (covers_of_sub (complete_mem hcomp c hc))
  · unfold unifiedRankings at hc
    obtain ⟨r, hr, rfl⟩ := List.mem_map.mp hc
    exact C01_score S hS D _ (unify_nodup (univOf_nodup D) (hD r hr)) hD
      (covers_of_sub fun x hx => unify_mem hx)

/-! ### PickAPerm scans the (unified) inputs with the Kemeny score of the definition -/

theorem pickScan_congr {α : Type} (f g : α → Int) (amo : Bool) :
    ∀ (l : List α) (st : Option (Int × List α)), (∀ r ∈ l, f r = g r) →
      pickScan f amo l st = pickScan g amo l st := by
  intro l
  induction l with
  | nil => intro st _; rfl
  | cons a rs ih =>
    intro st h
    have ha : f a = g a := h a (by simp)
    have hrs : ∀ r ∈ rs, f r = g r := fun r hr => h r (by simp [hr])
    cases st with
    | none => simp only [pickScan, ha]; exact ih _ hrs
    | some p =>
      obtain ⟨m, acc⟩ := p
      simp only [pickScan, ha]
      split
      · exact ih _ hrs
      · split
        · exact ih _ hrs
        · exact ih _ hrs

/-- the model of PickAPerm, with the fall-back score replaced by the definition of the Kemeny score -/
theorem pickAPerm_eq (amo : Bool) (S : Scheme) (hS : S.Valid) (D : Dataset)
    (hD : ∀ r ∈ D, r.flatten.Nodup) :
    pickAPerm amo S D =
      if !isComplete D && !isEquivalentTo S unifying then .error .incompatible
      else match pickScan (Spec.kemeny S D) amo (inputs D) none with
        | none => .ok ([], none)
        | some (m, acc) => .ok (acc, some m) := by
  have hscore := inputs_score S hS D hD
  unfold pickAPerm
  split
  · rfl
  · have hin : (if isComplete D = true then D else unifiedRankings D) = inputs D := rfl
    simp only [hin]
    rw [pickScan_congr _ (Spec.kemeny S D) amo (inputs D) none ?_]
    · rfl
    · intro r hr
      simp only [hscore r hr]

end C10
end Corankco
