import Corankco.Lemmas.SortGroup
import Corankco.Props.C02
/-
  Helper lemmas for C13 (Copeland).
-/
namespace Corankco
open Model
namespace C13
open SortGroup

/-! ### generic list facts -/

/-- counting over a list is counting over its indices. -/
theorem filter_length_range (l : List Elem) (g : Elem → Bool) :
    (l.filter g).length = ((List.range l.length).filter fun j => g (l.getD j 0)).length := by
  have e := map_getD_range l 0
  calc (l.filter g).length
      = (((List.range l.length).map fun i => l.getD i 0).filter g).length := by rw [e]
    _ = _ := by rw [List.filter_map, List.length_map]; rfl

/-- the opponents of `l[i]` satisfying `q`, counted over indices. -/
theorem filter_idx_length (l : List Elem) (hnd : l.Nodup) (i : Nat) (hi : i < l.length)
    (p : Nat → Bool) (q : Elem → Bool) (hpq : ∀ j (hj : j < l.length), j ≠ i → p j = q l[j]) :
    (((List.range l.length).filter fun j => decide (j ≠ i)).filter p).length =
      ((l.filter fun y => decide (y ≠ l[i])).filter q).length := by
  rw [List.filter_filter, List.filter_filter, filter_length_range l]
  congr 1
  apply List.filter_congr
  intro j hj
  have hj' : j < l.length := by simpa using hj
  rw [getD_of_lt l j 0 hj']
  by_cases e : j = i
  · subst e; simp
  · have := nodup_getElem_ne hnd hj' hi e
    simp [e, this, hpq j hj' e]

theorem filter_ne_length (l : List Elem) (hnd : l.Nodup) (x : Elem) (hx : x ∈ l) :
    (l.filter fun y => decide (y ≠ x)).length + 1 = l.length := by
  induction l with
  | nil => simp at hx
  | cons a l ih =>
    rw [List.nodup_cons] at hnd
    rw [List.filter_cons]
    by_cases e : a = x
    · subst e
      have hf : l.filter (fun y => decide (y ≠ a)) = l := by
        apply List.filter_eq_self.mpr
        intro y hy
        have : y ≠ a := fun h => hnd.1 (h ▸ hy)
        simp [this]
      rw [hf]; simp
    · have hx' : x ∈ l := by
        rcases List.mem_cons.mp hx with h | h
        · exact absurd h.symm e
        · exact h
      have := ih hnd.2 hx'
      have hd : decide (a ≠ x) = true := by simp [e]
      rw [hd]; simp only [if_true, List.length_cons]; omega

/-- three mutually exclusive, exhaustive classes partition a list. -/
theorem three_classes {α : Type} (o : List α) (p q r : α → Bool)
    (h : ∀ a ∈ o, (p a = true ∧ q a = false ∧ r a = false) ∨ (p a = false ∧ q a = true ∧ r a = false) ∨
      (p a = false ∧ q a = false ∧ r a = true)) :
    (o.filter p).length + (o.filter q).length + (o.filter r).length = o.length := by
  induction o with
  | nil => rfl
  | cons a o ih =>
    have := ih (fun b hb => h b (by simp [hb]))
    rcases h a (by simp) with ⟨h1, h2, h3⟩ | ⟨h1, h2, h3⟩ | ⟨h1, h2, h3⟩ <;>
      simp [h1, h2, h3] <;> omega

/-! ### sums of naturals -/

theorem nsum_map_add {α : Type} (f g : α → Nat) (l : List α) :
    (l.map fun a => f a + g a).sum = (l.map f).sum + (l.map g).sum := by
  induction l with
  | nil => rfl
  | cons x xs ih => simp [ih]; omega

theorem nsum_map_zero {α : Type} (l : List α) : (l.map fun _ => (0 : Nat)).sum = 0 := by
  induction l with
  | nil => rfl
  | cons x xs ih => simpa using ih

theorem nsum_comm {α β : Type} (f : α → β → Nat) (l₁ : List α) (l₂ : List β) :
    (l₁.map fun a => (l₂.map fun b => f a b).sum).sum = (l₂.map fun b => (l₁.map fun a => f a b).sum).sum := by
  induction l₁ with
  | nil => simp [nsum_map_zero]
  | cons x xs ih => simp [ih, nsum_map_add]

theorem filter_length_sum {α : Type} (p : α → Bool) (l : List α) :
    (l.filter p).length = (l.map fun a => if p a then 1 else 0).sum := by
  induction l with
  | nil => rfl
  | cons a l ih =>
    by_cases h : p a = true
    · simp [h, ih]; omega
    · simp [h, ih]

/-- double counting of the ordered pairs of distinct members related by `R`. -/
theorem double_count (l : List Elem) (R : Elem → Elem → Bool) :
    (l.map fun x => ((l.filter fun y => decide (y ≠ x)).filter fun y => R x y).length).sum =
      (l.map fun y => ((l.filter fun x => decide (x ≠ y)).filter fun x => R x y).length).sum := by
  have e1 : ∀ x, ((l.filter fun y => decide (y ≠ x)).filter fun y => R x y).length =
      (l.map fun y => if (decide (x ≠ y) && R x y) then 1 else 0).sum := by
    intro x
    rw [List.filter_filter, filter_length_sum]
    congr 1
    apply List.map_congr_left
    intro y _
    by_cases e : x = y
    · subst e; simp
    · have e' : ¬ y = x := fun h => e h.symm
      simp [e, e', Bool.and_comm]
  have e2 : ∀ y, ((l.filter fun x => decide (x ≠ y)).filter fun x => R x y).length =
      (l.map fun x => if (decide (x ≠ y) && R x y) then 1 else 0).sum := by
    intro y
    rw [List.filter_filter, filter_length_sum]
    congr 1
    apply List.map_congr_left
    intro x _
    simp [Bool.and_comm]
  simp only [e1, e2]
  exact nsum_comm (fun x y => if (decide (x ≠ y) && R x y) then 1 else 0) l l

theorem sum_balance {α : Type} (l : List α) (f g h : α → Nat) (c : Nat)
    (hyp : ∀ x ∈ l, f x + g x = c + h x) :
    (l.map f).sum + (l.map g).sum = l.length * c + (l.map h).sum := by
  induction l with
  | nil => simp
  | cons a l ih =>
    have h1 := ih (fun x hx => hyp x (by simp [hx]))
    have h2 := hyp a (by simp)
    simp only [List.map_cons, List.sum_cons, List.length_cons, Nat.add_mul, Nat.one_mul]
    omega

/-! ### Copeland -/

/-- doubled score of the definition. -/
def score2 (S : Scheme) (D : Dataset) (x : Elem) : Nat :=
  2 * (Spec.copVictories S D x).1 + (Spec.copVictories S D x).2.1

theorem specTable_length (S : Scheme) (D : Dataset) : (Spec.specTable S D).length = (univOf D).length := by
  simp [Spec.specTable]

theorem specTable_get_ne (S : Scheme) (D : Dataset) (i j : Nat)
    (hi : i < (univOf D).length) (hj : j < (univOf D).length) (hij : j ≠ i) :
    (Spec.specTable S D).get i j =
      (Spec.before S D (univOf D)[i] (univOf D)[j], Spec.after S D (univOf D)[i] (univOf D)[j],
        Spec.tied S D (univOf D)[i] (univOf D)[j]) := by
  rw [specTable_get S D i j hi hj]
  have := nodup_getElem_ne (univOf_nodup D) hi hj (fun h => hij h.symm)
  simp [this]

/-- the three counts of the code are the three pair classes of the definition. -/
theorem copelandResults_spec (S : Scheme) (D : Dataset) :
    copelandResults (Spec.specTable S D) = (univOf D).map (Spec.copVictories S D) := by
  unfold copelandResults
  rw [specTable_length]
  apply List.ext_getElem
  · simp
  · intro i h1 h2
    have hi : i < (univOf D).length := by simpa using h2
    simp only [List.getElem_map, List.getElem_range]
    unfold Spec.copVictories
    simp only [Prod.mk.injEq]
    refine ⟨?_, ?_, ?_⟩ <;>
    · apply filter_idx_length (univOf D) (univOf_nodup D) i hi
      intro j hj hji
      simp only [Table.bef, Table.aft, specTable_get_ne S D i j hi hj hji]

theorem after_eq_before (S : Scheme) (D : Dataset) (x y : Elem) : Spec.after S D x y = Spec.before S D y x := rfl

/-- the three classes partition the `n - 1` opponents. -/
theorem copVictories_total (S : Scheme) (D : Dataset) (x : Elem) (hx : x ∈ univOf D) :
    (Spec.copVictories S D x).1 + (Spec.copVictories S D x).2.1 + (Spec.copVictories S D x).2.2 + 1 =
      (univOf D).length := by
  unfold Spec.copVictories
  simp only
  rw [three_classes, filter_ne_length _ (univOf_nodup D) x hx]
  intro y _
  rcases Int.lt_trichotomy (Spec.before S D x y) (Spec.after S D x y) with h | h | h
  · refine Or.inl ⟨by simp [h], ?_, ?_⟩ <;> simp <;> omega
  · refine Or.inr (Or.inl ⟨?_, by simp [h], ?_⟩) <;> simp <;> omega
  · refine Or.inr (Or.inr ⟨?_, ?_, by simp [h]⟩) <;> simp <;> omega

/-- total victories = total defeats. -/
theorem victories_eq_defeats (S : Scheme) (D : Dataset) :
    ((univOf D).map fun x => (Spec.copVictories S D x).1).sum =
      ((univOf D).map fun x => (Spec.copVictories S D x).2.2).sum := by
  unfold Spec.copVictories
  simp only
  have := double_count (univOf D) (fun x y => decide (Spec.before S D x y < Spec.after S D x y))
  -- `before x y > after x y` unfolds to `before y x < after y x`: the right-hand side is the goal's
  rw [this]
  congr 1

/-- the doubled scores add up to `n (n - 1)`: every unordered pair contributes 2. -/
theorem score2_sum (S : Scheme) (D : Dataset) :
    ((univOf D).map (score2 S D)).sum = (univOf D).length * ((univOf D).length - 1) := by
  have hb := sum_balance (univOf D) (score2 S D) (fun x => (Spec.copVictories S D x).2.2)
    (fun x => (Spec.copVictories S D x).1) ((univOf D).length - 1) (by
      intro x hx
      have := copVictories_total S D x hx
      unfold score2
      omega)
  have := victories_eq_defeats S D
  omega

/-- the score table of the specification returns the doubled score on the universe. -/
theorem sc_lookup (S : Scheme) (D : Dataset) (x : Elem) (hx : x ∈ univOf D) :
    ((((univOf D).zip (((univOf D).map (Spec.copVictories S D)).map fun v => 2 * v.1 + v.2.1)).lookup x).getD 0) =
      score2 S D x := by
  rw [List.map_map, zip_map_self, lookup_map_self _ _ x hx]
  rfl

theorem copeland_ordersBy (S : Scheme) (D : Dataset) (sc : Elem → Nat)
    (hsc : ∀ x ∈ univOf D, sc x = score2 S D x) :
    Spec.ordersBy (univOf D) (fun x y => decide (sc x ≥ sc y))
      ((groupAdj (fun a b => a.2 == b.2)
        (sortBy (fun a b => decide (a.2 ≥ b.2)) ((univOf D).zip ((univOf D).map (score2 S D))))).map
          fun g => g.map (·.1)) = true := by
  rw [zip_map_self]
  apply SortGroup.ordersBy_sortGroup (fun _ => True) (fun (a b : Elem × Nat) => decide (a.2 ≥ b.2))
    (fun a b => a.2 == b.2) (·.1) (univOf D) (fun x y => decide (sc x ≥ sc y))
  · intro a b _ _
    simp only [decide_eq_true_eq]
    omega
  · intro a b c _ _ _
    simp only [decide_eq_true_eq]
    omega
  · intro a b _ _
    rw [Bool.eq_iff_iff]
    simp only [beq_iff_eq, Bool.and_eq_true, decide_eq_true_eq]
    omega
  · intro _ _; trivial
  · intro a ha b hb
    obtain ⟨x, hx, rfl⟩ := List.mem_map.mp ha
    obtain ⟨y, hy, rfl⟩ := List.mem_map.mp hb
    simp only [hsc x hx, hsc y hy]
  · simp only [List.map_map, Function.comp_def, List.map_id']
    exact univOf_nodup D
  · intro x
    simp [Function.comp_def]

end C13
end Corankco
