import Corankco.Lemmas.Basic
import Corankco.Spec.Bio
namespace Corankco
open Model Spec
namespace BioSM

theorem getD_addAt (l : List Int) (k m : Nat) (v : Int) (hk : k < l.length) :
    (addAt l k v).getD m 0 = if m = k then l.getD m 0 + v else l.getD m 0 := by
  simp only [addAt, List.getD_eq_getElem?_getD, List.getElem?_modify]
  by_cases h : m = k
  · subst h; simp [hk]
  · have : ¬ k = m := fun e => h e.symm
    simp [h, this]

@[simp] theorem length_addAt (l : List Int) (k : Nat) (v : Int) : (addAt l k v).length = l.length := by
  simp [addAt]

theorem sumRange_self (l : List Int) (c : Nat) : sumRange l c c = l.getD c 0 := by
  simp [sumRange]

theorem sumRange_succ_right (l : List Int) (lo hi : Nat) (h : lo ≤ hi + 1) :
    sumRange l lo (hi + 1) = sumRange l lo hi + l.getD (hi + 1) 0 := by
  unfold sumRange
  have e : hi + 1 + 1 - lo = (hi + 1 - lo) + 1 := by omega
  rw [e, List.range_succ, List.map_append, isum_append]
  have e2 : lo + (hi + 1 - lo) = hi + 1 := by omega
  simp [e2]

theorem sumRange_succ_left (l : List Int) (lo hi : Nat) (h : lo ≤ hi) :
    sumRange l lo hi = l.getD lo 0 + sumRange l (lo + 1) hi := by
  unfold sumRange
  have e : hi + 1 - lo = (hi + 1 - (lo + 1)) + 1 := by omega
  rw [e, List.range_succ_eq_map]
  simp only [List.map_cons, isum_cons, List.map_map, Nat.add_zero]
  congr 2
  apply List.map_congr_left
  intro i _
  simp only [Function.comp]
  congr 1
  omega

theorem sumRange_congr (l l' : List Int) (lo hi : Nat)
    (h : ∀ m, lo ≤ m → m ≤ hi → l.getD m 0 = l'.getD m 0) : sumRange l lo hi = sumRange l' lo hi := by
  unfold sumRange
  apply isum_map_congr
  intro i hi'
  simp only [List.mem_range] at hi'
  exact h _ (by omega) (by omega)

theorem foldl_inv {α β : Type} (f : β → α → β) (I : Nat → β → Prop) (l : List α) (s : β)
    (h0 : I 0 s) (hstep : ∀ j (hj : j < l.length) st, I j st → I (j + 1) (f st l[j])) :
    I l.length (l.foldl f s) := by
  induction l generalizing I s with
  | nil => exact h0
  | cons a l ih =>
    simp only [List.foldl_cons, List.length_cons]
    apply ih (fun j st => I (j + 1) st)
    · exact hstep 0 (by simp) s h0
    · intro j hj st hI
      exact hstep (j + 1) (by simp; omega) st hI

theorem foldl_accRight_some (τ : Int) (t : Nat) (arr : List Int) (l : List Nat) :
    l.foldl (accRight τ) (some t, arr) = (some t, arr) := by
  induction l with
  | nil => rfl
  | cons a l ih => simpa [accRight] using ih

theorem foldl_accLeft_some (τ : Int) (t : Nat) (arr : List Int) (l : List Nat) :
    l.foldl (accLeft τ) (some t, arr) = (some t, arr) := by
  induction l with
  | nil => rfl
  | cons a l ih => simpa [accLeft] using ih


/-- invariant of the rightward scan after the cells `c+1 .. i` have been processed (cell `c` is the base). -/
def InvR (τ : Int) (arr : List Int) (c i : Nat) (st : Option Nat × List Int) : Prop :=
  match st.1 with
  | none => (∀ m, c ≤ m → m ≤ i → st.2.getD m 0 = sumRange arr c m) ∧
            (∀ m, m < c ∨ i < m → st.2.getD m 0 = arr.getD m 0) ∧
            (∀ m, c < m → m ≤ i → -τ ≤ sumRange arr c m) ∧ st.2.length = arr.length
  | some to => c < to ∧ to ≤ i ∧ st.2.getD to 0 = sumRange arr c to ∧ sumRange arr c to < -τ

theorem InvR_step (τ : Int) (arr : List Int) (c i : Nat) (hci : c ≤ i) (hi : i + 1 < arr.length)
    (st : Option Nat × List Int) (h : InvR τ arr c i st) : InvR τ arr c (i + 1) (accRight τ st (i + 1)) := by
  obtain ⟨o, a⟩ := st
  cases o with
  | some to =>
    simp only [InvR] at h ⊢
    simp only [accRight]
    exact ⟨h.1, by omega, h.2.2⟩
  | none =>
    simp only [InvR] at h
    obtain ⟨h1, h2, h3, h4⟩ := h
    have hlen : i + 1 < a.length := by omega
    have hnew : (addAt a (i + 1) (a.getD (i + 1 - 1) 0)).getD (i + 1) 0 = sumRange arr c (i + 1) := by
      rw [getD_addAt _ _ _ _ hlen, if_pos rfl, sumRange_succ_right _ _ _ (by omega), h2 (i + 1) (by omega)]
      have : i + 1 - 1 = i := by omega
      rw [this, h1 i hci (Nat.le_refl _)]
      omega
    simp only [accRight]
    by_cases hlt : (addAt a (i + 1) (a.getD (i + 1 - 1) 0)).getD (i + 1) 0 < -τ
    · rw [if_pos hlt]
      simp only [InvR]
      exact ⟨by omega, Nat.le_refl _, hnew, by rw [← hnew]; exact hlt⟩
    · rw [if_neg hlt]
      simp only [InvR]
      refine ⟨?_, ?_, ?_, by simp [h4]⟩
      · intro m hm1 hm2
        by_cases e : m = i + 1
        · subst e; exact hnew
        · rw [getD_addAt _ _ _ _ hlen, if_neg e]; exact h1 m hm1 (by omega)
      · intro m hm
        rw [getD_addAt _ _ _ _ hlen, if_neg (by omega)]
        exact h2 m (by omega)
      · intro m hm1 hm2
        by_cases e : m = i + 1
        · subst e; rw [← hnew]; omega
        · exact h3 m hm1 (by omega)

theorem scanRight_inv (τ : Int) (arr : List Int) (c k : Nat) (hlen : c + k < arr.length) :
    InvR τ arr c (c + k) ((List.range' (c + 1) k).foldl (accRight τ) (none, arr)) := by
  have := foldl_inv (accRight τ) (fun j st => j ≤ k → InvR τ arr c (c + j) st) (List.range' (c + 1) k) (none, arr)
    (by
      intro _
      simp only [InvR, Nat.add_zero]
      refine ⟨?_, fun _ _ => trivial, fun m h1 h2 => by omega, trivial⟩
      intro m h1 h2
      have : m = c := by omega
      subst this; rw [sumRange_self])
    (by
      intro j hj st hI hjk
      simp only [List.length_range'] at hj
      have hI := hI (by omega)
      have e : (List.range' (c + 1) k)[j] = c + j + 1 := by simp; omega
      rw [e]
      exact InvR_step τ arr c (c + j) (by omega) (by omega) st hI)
  simp only [List.length_range'] at this
  exact this (Nat.le_refl _)

/-- invariant of the leftward scan after the cells `c-1 .. i` have been processed (cell `c` is the base). -/
def InvL (τ : Int) (arr : List Int) (c i : Nat) (st : Option Nat × List Int) : Prop :=
  match st.1 with
  | none => (∀ m, i ≤ m → m ≤ c → st.2.getD m 0 = sumRange arr m c) ∧
            (∀ m, m < i ∨ c < m → st.2.getD m 0 = arr.getD m 0) ∧
            (∀ m, i ≤ m → m < c → -τ ≤ sumRange arr m c) ∧ st.2.length = arr.length
  | some to => i ≤ to ∧ to < c ∧ st.2.getD to 0 = sumRange arr to c ∧ sumRange arr to c < -τ

theorem InvL_step (τ : Int) (arr : List Int) (c i : Nat) (hci : i + 1 ≤ c) (hc : c < arr.length)
    (st : Option Nat × List Int) (h : InvL τ arr c (i + 1) st) : InvL τ arr c i (accLeft τ st i) := by
  obtain ⟨o, a⟩ := st
  cases o with
  | some to =>
    simp only [InvL] at h ⊢
    simp only [accLeft]
    exact ⟨by omega, h.2⟩
  | none =>
    simp only [InvL] at h
    obtain ⟨h1, h2, h3, h4⟩ := h
    have hlen : i < a.length := by omega
    have hnew : (addAt a i (a.getD (i + 1) 0)).getD i 0 = sumRange arr i c := by
      rw [getD_addAt _ _ _ _ hlen, if_pos rfl, sumRange_succ_left _ _ _ (by omega), h2 i (by omega),
        h1 (i + 1) (Nat.le_refl _) hci]
    simp only [accLeft]
    by_cases hlt : (addAt a i (a.getD (i + 1) 0)).getD i 0 < -τ
    · rw [if_pos hlt]
      simp only [InvL]
      exact ⟨Nat.le_refl _, by omega, hnew, by rw [← hnew]; exact hlt⟩
    · rw [if_neg hlt]
      simp only [InvL]
      refine ⟨?_, ?_, ?_, by simp [h4]⟩
      · intro m hm1 hm2
        by_cases e : m = i
        · subst e; exact hnew
        · rw [getD_addAt _ _ _ _ hlen, if_neg e]; exact h1 m (by omega) hm2
      · intro m hm
        rw [getD_addAt _ _ _ _ hlen, if_neg (by omega)]
        exact h2 m (by omega)
      · intro m hm1 hm2
        by_cases e : m = i
        · subst e; rw [← hnew]; omega
        · exact h3 m (by omega) hm2

theorem scanLeft_inv (τ : Int) (arr : List Int) (c : Nat) (hlen : c < arr.length) :
    InvL τ arr c 0 ((List.range c).reverse.foldl (accLeft τ) (none, arr)) := by
  have := foldl_inv (accLeft τ) (fun j st => j ≤ c → InvL τ arr c (c - j) st) (List.range c).reverse (none, arr)
    (by
      intro _
      simp only [InvL, Nat.sub_zero]
      refine ⟨?_, fun _ _ => trivial, fun m h1 h2 => by omega, trivial⟩
      intro m h1 h2
      have : m = c := by omega
      subst this; rw [sumRange_self])
    (by
      intro j hj st hI hjk
      simp only [List.length_reverse, List.length_range] at hj
      have hI := hI (by omega)
      have e : (List.range c).reverse[j] = c - (j + 1) := by simp; omega
      rw [e]
      have e2 : c - j = c - (j + 1) + 1 := by omega
      rw [e2] at hI
      exact InvL_step τ arr c (c - (j + 1)) (by omega) hlen st hI)
  simp only [List.length_reverse, List.length_range, Nat.sub_self] at this
  exact this (Nat.le_refl _)

/-! ### the two searches -/

/-- common shape of the results: a reported target is admissible, its cell holds the cumulative value `val to`
    which is `< -τ`; no target means every admissible target has `val ≥ -τ`. -/
def SearchSpec (τ : Int) (val : Nat → Int) (ok : Nat → Prop) (res : Option Nat × List Int) : Prop :=
  match res.1 with
  | some to => ok to ∧ res.2.getD to 0 = val to ∧ val to < -τ
  | none => ∀ j, ok j → -τ ≤ val j

theorem downFrom_change (b : Nat) :
    downFrom (if b ≥ 2 then some (b - 2) else none) = (List.range (b - 1)).reverse := by
  by_cases h : b ≥ 2
  · rw [if_pos h]; simp only [downFrom]; congr 2; omega
  · rw [if_neg h]
    have : b - 1 = 0 := by omega
    simp [downFrom, this]

theorem downFrom_add (b : Nat) :
    downFrom (if b ≥ 1 then some (b - 1) else none) = (List.range b).reverse := by
  by_cases h : b ≥ 1
  · rw [if_pos h]; simp only [downFrom]; congr 2; omega
  · rw [if_neg h]
    have : b = 0 := by omega
    simp [downFrom, this]

theorem searchChange_spec (τ : Int) (hτ : 0 ≤ τ) (b maxId : Nat) (hb : b ≤ maxId) (change : List Int)
    (hlen : maxId + 1 < change.length) (h0 : change.getD b 0 = 0) :
    SearchSpec τ (changeTo change b) (fun j => j ≤ maxId ∧ j ≠ b) (searchChange τ b change maxId) := by
  have hR := scanRight_inv τ change b (maxId - b) (by omega)
  have hbm : b + (maxId - b) = maxId := by omega
  rw [hbm] at hR
  have hright : ∀ m, b < m → changeTo change b m = sumRange change b m := by
    intro m hm
    rw [changeTo, if_pos hm, sumRange_succ_left change b m (by omega), h0]; omega
  have hleft : ∀ m, m < b → changeTo change b m = sumRange change m (b - 1) := by
    intro m hm
    rw [changeTo, if_neg (by omega)]
  unfold searchChange
  have hnot : ¬ change.getD b 0 < -τ := by omega
  simp only [if_neg hnot]
  generalize (List.range' (b + 1) (maxId - b)).foldl (accRight τ) (none, change) = st1 at hR
  obtain ⟨o1, a1⟩ := st1
  cases o1 with
  | some to =>
    simp only [InvR] at hR
    simp only [SearchSpec]
    rw [hright to hR.1]
    exact ⟨⟨hR.2.1, by omega⟩, hR.2.2⟩
  | none =>
    simp only [InvR] at hR
    obtain ⟨h1, h2, h3, h4⟩ := hR
    simp only []
    by_cases hb0 : b = 0
    · rw [if_pos hb0]
      simp only [SearchSpec]
      intro j hj
      rw [hright j (by omega)]
      exact h3 j (by omega) hj.1
    · rw [if_neg hb0, downFrom_change b]
      have hcell : a1.getD (b - 1) 0 = changeTo change b (b - 1) := by
        rw [h2 (b - 1) (by omega), hleft (b - 1) (by omega), sumRange_self]
      by_cases hlt : a1.getD (b - 1) 0 < -τ
      · rw [if_pos hlt, foldl_accLeft_some]
        simp only [SearchSpec]
        exact ⟨⟨by omega, by omega⟩, hcell, by rw [← hcell]; exact hlt⟩
      · rw [if_neg hlt]
        have hL := scanLeft_inv τ a1 (b - 1) (by omega)
        have hsum : ∀ m, m < b → sumRange a1 m (b - 1) = changeTo change b m := by
          intro m hm
          rw [hleft m hm]
          apply sumRange_congr
          intro k hk1 hk2
          exact h2 k (by omega)
        generalize (List.range (b - 1)).reverse.foldl (accLeft τ) (none, a1) = st3 at hL
        obtain ⟨o3, a3⟩ := st3
        cases o3 with
        | some to =>
          simp only [InvL] at hL
          simp only [SearchSpec]
          rw [← hsum to (by omega)]
          exact ⟨⟨by omega, by omega⟩, hL.2.2⟩
        | none =>
          simp only [InvL] at hL
          simp only [SearchSpec]
          intro j hj
          rcases Nat.lt_or_gt_of_ne hj.2 with hjb | hjb
          · by_cases e : j = b - 1
            · subst e; rw [← hcell]; omega
            · rw [← hsum j hjb]
              exact hL.2.2.1 j (Nat.zero_le _) (by omega)
          · rw [hright j hjb]
            exact h3 j hjb hj.1

theorem searchAdd_spec (τ : Int) (b maxId : Nat) (hb : b ≤ maxId) (add : List Int)
    (hlen : maxId + 2 < add.length) :
    SearchSpec τ (addTo add b) (fun j => j ≤ maxId + 1) (searchAdd τ b add maxId) := by
  have hR := scanRight_inv τ add (b + 1) (maxId - b) (by omega)
  have hbm : b + 1 + (maxId - b) = maxId + 1 := by omega
  rw [hbm] at hR
  have hright : ∀ m, b < m → addTo add b m = sumRange add (b + 1) m := by
    intro m hm
    rw [addTo, if_pos hm]
  have hleft : ∀ m, m ≤ b → addTo add b m = sumRange add m b := by
    intro m hm
    rw [addTo, if_neg (by omega)]
  have hcell0 : add.getD (b + 1) 0 = addTo add b (b + 1) := by
    rw [hright _ (by omega), sumRange_self]
  unfold searchAdd
  by_cases hfirst : add.getD (b + 1) 0 < -τ
  · simp only [if_pos hfirst, foldl_accRight_some]
    simp only [SearchSpec]
    exact ⟨by omega, hcell0, by rw [← hcell0]; exact hfirst⟩
  · simp only [if_neg hfirst]
    generalize (List.range' (b + 1 + 1) (maxId - b)).foldl (accRight τ) (none, add) = st1 at hR
    obtain ⟨o1, a1⟩ := st1
    cases o1 with
    | some to =>
      simp only [InvR] at hR
      simp only [SearchSpec]
      rw [hright to (by omega)]
      exact ⟨hR.2.1, hR.2.2⟩
    | none =>
      simp only [InvR] at hR
      obtain ⟨h1, h2, h3, h4⟩ := hR
      simp only []
      rw [downFrom_add b]
      have hcell : a1.getD b 0 = addTo add b b := by
        rw [h2 b (by omega), hleft b (Nat.le_refl _), sumRange_self]
      by_cases hlt : a1.getD b 0 < -τ
      · rw [if_pos hlt, foldl_accLeft_some]
        simp only [SearchSpec]
        exact ⟨by omega, hcell, by rw [← hcell]; exact hlt⟩
      · rw [if_neg hlt]
        have hL := scanLeft_inv τ a1 b (by omega)
        have hsum : ∀ m, m ≤ b → sumRange a1 m b = addTo add b m := by
          intro m hm
          rw [hleft m hm]
          apply sumRange_congr
          intro k hk1 hk2
          exact h2 k (by omega)
        generalize (List.range b).reverse.foldl (accLeft τ) (none, a1) = st3 at hL
        obtain ⟨o3, a3⟩ := st3
        cases o3 with
        | some to =>
          simp only [InvL] at hL
          simp only [SearchSpec]
          rw [← hsum to (by omega)]
          exact ⟨by omega, hL.2.2⟩
        | none =>
          simp only [InvL] at hL
          simp only [SearchSpec]
          intro j hj
          by_cases hjb : j ≤ b
          · by_cases e : j = b
            · subst e; rw [← hcell]; omega
            · rw [← hsum j hjb]
              exact hL.2.2.1 j (Nat.zero_le _) (by omega)
          · by_cases e : j = b + 1
            · subst e; rw [← hcell0]; omega
            · rw [hright j (by omega)]
              exact h3 j (by omega) hj

end BioSM
open BioSM

theorem bio_searchChange_some (τ : Int) (hτ : 0 ≤ τ) (b maxId : Nat) (hb : b ≤ maxId) (change : List Int)
    (hlen : maxId + 1 < change.length) (h0 : change.getD b 0 = 0) (to : Nat) (change' : List Int)
    (h : searchChange τ b change maxId = (some to, change')) :
    to ≤ maxId ∧ to ≠ b ∧ change'.getD to 0 = changeTo change b to ∧ changeTo change b to < -τ := by
  have := searchChange_spec τ hτ b maxId hb change hlen h0
  rw [h] at this
  simp only [SearchSpec] at this
  exact ⟨this.1.1, this.1.2, this.2⟩

theorem bio_searchChange_none (τ : Int) (hτ : 0 ≤ τ) (b maxId : Nat) (hb : b ≤ maxId) (change : List Int)
    (hlen : maxId + 1 < change.length) (h0 : change.getD b 0 = 0) (change' : List Int)
    (h : searchChange τ b change maxId = (none, change')) :
    ∀ j, j ≤ maxId → j ≠ b → -τ ≤ changeTo change b j := by
  have := searchChange_spec τ hτ b maxId hb change hlen h0
  rw [h] at this
  simp only [SearchSpec] at this
  exact fun j h1 h2 => this j ⟨h1, h2⟩

theorem bio_searchAdd_some (τ : Int) (b maxId : Nat) (hb : b ≤ maxId) (add : List Int)
    (hlen : maxId + 2 < add.length) (to : Nat) (add' : List Int)
    (h : searchAdd τ b add maxId = (some to, add')) :
    to ≤ maxId + 1 ∧ add'.getD to 0 = addTo add b to ∧ addTo add b to < -τ := by
  have := searchAdd_spec τ b maxId hb add hlen
  rw [h] at this
  simpa only [SearchSpec] using this

theorem bio_searchAdd_none (τ : Int) (b maxId : Nat) (hb : b ≤ maxId) (add : List Int)
    (hlen : maxId + 2 < add.length) (add' : List Int)
    (h : searchAdd τ b add maxId = (none, add')) :
    ∀ p, p ≤ maxId + 1 → -τ ≤ addTo add b p := by
  have := searchAdd_spec τ b maxId hb add hlen
  rw [h] at this
  simpa only [SearchSpec] using this

/-! ### concrete checks -/

-- right scan: cell 3 receives change[2] + change[3] = -1 = changeTo .. 1 3
#guard searchChange 0 1 [3, 0, 1, -2, 5, 0] 4 == (some 3, [3, 0, 1, -1, 5, 0])
#guard changeTo [3, 0, 1, -2, 5, 0] 1 3 == -1
-- left scan (nothing on the right): bucket 0, cumulative delta change[0] + change[1]
#guard searchChange 0 2 [-1, 0, 0, 1, 0] 3 == (some 0, [-1, 0, 0, 1, 0])
#guard changeTo [-1, 0, 0, 1, 0] 2 0 == -1
-- a larger threshold hides the same target; b = 0 and b = maxId
#guard (searchChange 1 2 [-1, 0, 0, 1, 0] 3).1 == none
#guard searchChange 0 0 [0, 1, -3, 0] 2 == (some 2, [0, 1, -2, 0])
#guard searchChange 0 2 [-4, 2, 0, 0] 2 == (some 0, [-2, 2, 0, 0])
#guard searchAdd 0 1 [-1, 1, 0, 2, 0, 0] 3 == (none, [0, 1, 0, 2, 2, 0])
#guard searchAdd 0 1 [-3, 1, 0, 2, 0, 0] 3 == (some 0, [-2, 1, 0, 2, 2, 0])
#guard addTo [-3, 1, 0, 2, 0, 0] 1 0 == -2
#guard searchAdd 0 0 [0, 0, 0, 0] 1 == (none, [0, 0, 0, 0])
#guard searchAdd 0 1 [5, 5, 1, -2, 0, 0] 2 == (some 3, [5, 5, 1, -1, 0, 0])

example : ∀ j, j ≤ 3 → j ≠ 2 → -1 ≤ changeTo [-1, 0, 0, 1, 0] 2 j :=
  bio_searchChange_none 1 (by decide) 2 3 (by decide) [-1, 0, 0, 1, 0] (by decide) (by decide) [-1, 0, 0, 1, 0] (by decide)

end Corankco
