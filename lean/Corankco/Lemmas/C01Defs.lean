import Corankco.Model.Kemeny
import Corankco.Spec.Kemeny
import Corankco.Lemmas.C01Cross
/-
  C01 helper lemmas, part 4: bucket indices and statuses, the pair counters `nOrd` / `nTie` in which
  `C01_counts` is stated, and the decomposition of `kemenyOne` along these counters (valid for every scheme).
-/
namespace Corankco
namespace C01
open Model Spec

/-! ### bucket indices -/

theorem bucketIdx_cons_of_mem {b : Bucket} (bs : Ranking) {x : Elem} (h : x ∈ b) :
    bucketIdx (b :: bs) x = some 0 := by
  simp [bucketIdx, h]

theorem bucketIdx_cons_of_not_mem {b : Bucket} (bs : Ranking) {x : Elem} (h : x ∉ b) :
    bucketIdx (b :: bs) x = (bucketIdx bs x).map (· + 1) := by
  simp [bucketIdx, h]

theorem bucketIdx_eq_none_iff (r : Ranking) (x : Elem) : bucketIdx r x = none ↔ x ∉ r.flatten := by
  induction r with
  | nil => simp [bucketIdx]
  | cons b bs ih =>
    by_cases h : x ∈ b
    · simp [bucketIdx_cons_of_mem bs h, h]
    · simp [bucketIdx_cons_of_not_mem bs h, h, ih]

theorem bucketIdx_of_mem {r : Ranking} {x : Elem} (h : x ∈ r.flatten) : ∃ i, bucketIdx r x = some i := by
  cases hb : bucketIdx r x with
  | none => exact absurd h ((bucketIdx_eq_none_iff r x).mp hb)
  | some i => exact ⟨i, rfl⟩

theorem bucketIdx_lt {r : Ranking} {x : Elem} {i : Nat} (h : bucketIdx r x = some i) : i < r.length := by
  induction r generalizing i with
  | nil => simp [bucketIdx] at h
  | cons b bs ih =>
    by_cases hx : x ∈ b
    · rw [bucketIdx_cons_of_mem bs hx] at h
      simp at h; subst h; simp
    · rw [bucketIdx_cons_of_not_mem bs hx] at h
      cases hb : bucketIdx bs x with
      | none => simp [hb] at h
      | some j =>
        simp [hb] at h; subst h
        have := ih hb
        simp; omega

/-- consensus bucket id, as in `costByRanking` -/
def cid (c : Ranking) (x : Elem) : Nat := (bucketIdx c x).getD 0

theorem bucketIdx_eq_cid {c : Ranking} {x : Elem} (h : x ∈ c.flatten) : bucketIdx c x = some (cid c x) := by
  obtain ⟨i, hi⟩ := bucketIdx_of_mem h
  simp [cid, hi]

theorem cid_lt {c : Ranking} {x : Elem} (h : x ∈ c.flatten) : cid c x < c.length :=
  bucketIdx_lt (bucketIdx_eq_cid h)

/-! ### statuses -/

theorem status_le_5 (r : Ranking) (x y : Elem) : status r x y ≤ 5 := by
  unfold status
  split
  · split
    · omega
    · split <;> omega
  all_goals omega

theorem status_eq_3_iff (r : Ranking) (x y : Elem) : status r x y = 3 ↔ x ∈ r.flatten ∧ y ∉ r.flatten := by
  rw [← bucketIdx_eq_none_iff r y]
  unfold status
  cases hx : bucketIdx r x <;> cases hy : bucketIdx r y
  · have := (bucketIdx_eq_none_iff r x).mp hx; simp [this]
  · have := (bucketIdx_eq_none_iff r x).mp hx; simp [this]
  · have : x ∈ r.flatten := by
      have h := bucketIdx_eq_none_iff r x; rw [hx] at h; simpa using h
    simp [this]
  · simp only []
    split
    · simp
    · split <;> simp

theorem status_eq_4_iff (r : Ranking) (x y : Elem) : status r x y = 4 ↔ x ∉ r.flatten ∧ y ∈ r.flatten := by
  rw [← bucketIdx_eq_none_iff r x]
  unfold status
  cases hx : bucketIdx r x <;> cases hy : bucketIdx r y
  · have := (bucketIdx_eq_none_iff r y).mp hy; simp [this]
  · have : y ∈ r.flatten := by
      have h := bucketIdx_eq_none_iff r y; rw [hy] at h; simpa using h
    simp [this]
  · have := (bucketIdx_eq_none_iff r y).mp hy; simp [this]
  · simp only []
    split
    · simp
    · split <;> simp

theorem status_eq_5_iff (r : Ranking) (x y : Elem) : status r x y = 5 ↔ x ∉ r.flatten ∧ y ∉ r.flatten := by
  rw [← bucketIdx_eq_none_iff r x, ← bucketIdx_eq_none_iff r y]
  unfold status
  cases hx : bucketIdx r x <;> cases hy : bucketIdx r y
  · simp
  · simp
  · simp
  · simp only []
    split
    · simp
    · split <;> simp

/-- statuses 0, 1, 2 need both elements ranked -/
theorem mem_of_status_lt_3 {r : Ranking} {x y : Elem} (h : status r x y < 3) : x ∈ r.flatten ∧ y ∈ r.flatten := by
  unfold status at h
  cases hx : bucketIdx r x <;> cases hy : bucketIdx r y <;> rw [hx, hy] at h <;> simp only [] at h
  · omega
  · omega
  · omega
  · constructor
    · have h' := bucketIdx_eq_none_iff r x; rw [hx] at h'; simpa using h'
    · have h' := bucketIdx_eq_none_iff r y; rw [hy] at h'; simpa using h'

/-- swapping the pair exchanges 0 ↔ 1 and 3 ↔ 4 -/
theorem status_swap (r : Ranking) (x y : Elem) :
    (status r y x = 0 ↔ status r x y = 1) ∧ (status r y x = 1 ↔ status r x y = 0) ∧
    (status r y x = 3 ↔ status r x y = 4) ∧ (status r y x = 4 ↔ status r x y = 3) := by
  unfold status
  cases bucketIdx r x <;> cases bucketIdx r y <;> simp only []
  · simp
  · simp
  · simp
  · rename_i i j
    by_cases h1 : i < j
    · have : ¬ j < i := by omega
      simp [h1, this]
    · by_cases h2 : j < i
      · simp [h1, h2]
      · simp [h1, h2]

theorem status_self (r : Ranking) (x : Elem) : status r x x = 2 ∨ status r x x = 5 := by
  unfold status
  cases bucketIdx r x <;> simp

theorem status_cons_of_not_mem {b : Bucket} (bs : Ranking) {x y : Elem} (hx : x ∉ b) (hy : y ∉ b) :
    status (b :: bs) x y = status bs x y := by
  unfold status
  rw [bucketIdx_cons_of_not_mem bs hx, bucketIdx_cons_of_not_mem bs hy]
  cases bucketIdx bs x <;> cases bucketIdx bs y <;> simp

theorem status_cons_mem_mem {b : Bucket} (bs : Ranking) {x y : Elem} (hx : x ∈ b) (hy : y ∈ b) :
    status (b :: bs) x y = 2 := by
  unfold status
  rw [bucketIdx_cons_of_mem bs hx, bucketIdx_cons_of_mem bs hy]
  simp

theorem status_cons_mem_rest {b : Bucket} (bs : Ranking) {x y : Elem} (hx : x ∈ b) (hy : y ∉ b)
    (hy' : y ∈ bs.flatten) : status (b :: bs) x y = 0 := by
  unfold status
  obtain ⟨j, hj⟩ := bucketIdx_of_mem hy'
  rw [bucketIdx_cons_of_mem bs hx, bucketIdx_cons_of_not_mem bs hy, hj]
  simp

theorem status_cons_rest_mem {b : Bucket} (bs : Ranking) {x y : Elem} (hx : x ∉ b) (hx' : x ∈ bs.flatten)
    (hy : y ∈ b) : status (b :: bs) x y = 1 := by
  unfold status
  obtain ⟨j, hj⟩ := bucketIdx_of_mem hx'
  rw [bucketIdx_cons_of_mem bs hy, bucketIdx_cons_of_not_mem bs hx, hj]
  simp

/-! ### the pair counters of `C01_counts` -/

/-- status of the pair in `r`, read from the element placed first in `c`, when `c` orders the two elements -/
def ordStatus (c r : Ranking) (x y : Elem) : Option Nat :=
  match bucketIdx c x, bucketIdx c y with
  | some i, some j =>
      if i < j then some (status r x y) else if j < i then some (status r y x) else none
  | _, _ => none

/-- status of the pair in `r` when `c` ties the two elements -/
def tieStatus (c r : Ranking) (x y : Elem) : Option Nat :=
  match bucketIdx c x, bucketIdx c y with
  | some i, some j => if i = j then some (status r x y) else none
  | _, _ => none

/-- number of unordered pairs of candidate elements that `c` orders and that have status `k` in `r` -/
def nOrd (c r : Ranking) (k : Nat) : Nat :=
  (pairs c.flatten).countP (fun p => ordStatus c r p.1 p.2 == some k)

/-- number of unordered pairs of candidate elements that `c` ties and that have status `k` in `r` -/
def nTie (c r : Ranking) (k : Nat) : Nat :=
  (pairs c.flatten).countP (fun p => tieStatus c r p.1 p.2 == some k)

/-- indicator used to split a penalty along the counters -/
def ind (o : Option Nat) (k : Nat) : Nat := if o == some k then 1 else 0

theorem pen_eq (S : Scheme) (r c : Ranking) (x y : Elem) :
    pen S r c x y =
      S.b0 * (ind (ordStatus c r x y) 0 : Nat) + S.b1 * (ind (ordStatus c r x y) 1 : Nat)
      + S.b2 * (ind (ordStatus c r x y) 2 : Nat) + S.b3 * (ind (ordStatus c r x y) 3 : Nat)
      + S.b4 * (ind (ordStatus c r x y) 4 : Nat) + S.b5 * (ind (ordStatus c r x y) 5 : Nat)
      + S.t0 * (ind (tieStatus c r x y) 0 : Nat) + S.t1 * (ind (tieStatus c r x y) 1 : Nat)
      + S.t2 * (ind (tieStatus c r x y) 2 : Nat) + S.t3 * (ind (tieStatus c r x y) 3 : Nat)
      + S.t4 * (ind (tieStatus c r x y) 4 : Nat) + S.t5 * (ind (tieStatus c r x y) 5 : Nat) := by
  unfold pen ordStatus tieStatus
  cases bucketIdx c x <;> cases bucketIdx c y <;> simp only []
  · simp [ind]
  · simp [ind]
  · simp [ind]
  · rename_i i j
    by_cases h1 : i < j
    · have hs := status_le_5 r x y
      generalize status r x y = s at hs ⊢
      have h3 : ¬ i = j := by omega
      simp only [h1, if_true, h3, if_false]
      rcases (by omega : s = 0 ∨ s = 1 ∨ s = 2 ∨ s = 3 ∨ s = 4 ∨ s = 5) with rfl | rfl | rfl | rfl | rfl | rfl <;>
        simp [ind, Scheme.B]
    · by_cases h2 : j < i
      · have hs := status_le_5 r y x
        generalize status r y x = s at hs ⊢
        have h3 : ¬ i = j := by omega
        simp only [h1, h2, if_true, h3, if_false]
        rcases (by omega : s = 0 ∨ s = 1 ∨ s = 2 ∨ s = 3 ∨ s = 4 ∨ s = 5) with rfl | rfl | rfl | rfl | rfl | rfl <;>
          simp [ind, Scheme.B]
      · have hs := status_le_5 r x y
        generalize status r x y = s at hs ⊢
        have h3 : i = j := by omega
        simp only [if_true, h3]
        rcases (by omega : s = 0 ∨ s = 1 ∨ s = 2 ∨ s = 3 ∨ s = 4 ∨ s = 5) with rfl | rfl | rfl | rfl | rfl | rfl <;>
          simp [ind, Scheme.T]

theorem isum_pen_eq (S : Scheme) (r c : Ranking) (ps : List (Elem × Elem)) :
    isum (ps.map fun p => pen S r c p.1 p.2) =
      S.b0 * (ps.countP (fun p => ordStatus c r p.1 p.2 == some 0) : Nat)
      + S.b1 * (ps.countP (fun p => ordStatus c r p.1 p.2 == some 1) : Nat)
      + S.b2 * (ps.countP (fun p => ordStatus c r p.1 p.2 == some 2) : Nat)
      + S.b3 * (ps.countP (fun p => ordStatus c r p.1 p.2 == some 3) : Nat)
      + S.b4 * (ps.countP (fun p => ordStatus c r p.1 p.2 == some 4) : Nat)
      + S.b5 * (ps.countP (fun p => ordStatus c r p.1 p.2 == some 5) : Nat)
      + S.t0 * (ps.countP (fun p => tieStatus c r p.1 p.2 == some 0) : Nat)
      + S.t1 * (ps.countP (fun p => tieStatus c r p.1 p.2 == some 1) : Nat)
      + S.t2 * (ps.countP (fun p => tieStatus c r p.1 p.2 == some 2) : Nat)
      + S.t3 * (ps.countP (fun p => tieStatus c r p.1 p.2 == some 3) : Nat)
      + S.t4 * (ps.countP (fun p => tieStatus c r p.1 p.2 == some 4) : Nat)
      + S.t5 * (ps.countP (fun p => tieStatus c r p.1 p.2 == some 5) : Nat) := by
  induction ps with
  | nil => simp [isum]
  | cons p ps ih =>
    simp only [List.map_cons, isum, ih, List.countP_cons, pen_eq S r c p.1 p.2, ind, Int.natCast_add]
    grind

/-- the definition of the score against one ranking, regrouped by placement in `c` and status in `r`
    (every scheme, no hypothesis) -/
theorem kemenyOne_eq_counts (S : Scheme) (c r : Ranking) :
    kemenyOne S c r =
      S.b0 * (nOrd c r 0 : Nat) + S.b1 * (nOrd c r 1 : Nat) + S.b2 * (nOrd c r 2 : Nat)
      + S.b3 * (nOrd c r 3 : Nat) + S.b4 * (nOrd c r 4 : Nat) + S.b5 * (nOrd c r 5 : Nat)
      + S.t0 * (nTie c r 0 : Nat) + S.t1 * (nTie c r 1 : Nat) + S.t2 * (nTie c r 2 : Nat)
      + S.t3 * (nTie c r 3 : Nat) + S.t4 * (nTie c r 4 : Nat) + S.t5 * (nTie c r 5 : Nat) :=
  isum_pen_eq S r c (pairs c.flatten)

end C01
end Corankco
