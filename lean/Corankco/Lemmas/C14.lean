import Corankco.Model.Applicability
/-
  C14 — helper lemmas: the mutual statements over the nested inductive `Alg` (through `List Alg`), proved by
  mutual structural recursion.
-/
namespace Corankco
namespace C14
open Model

theorem relevantAll_eq_all (S : Scheme) : ∀ st : List Alg, relevantAll st S = st.all fun a => relevant a S
  | [] => by simp [relevantAll]
  | a :: as => by simp [relevantAll, relevantAll_eq_all S as]

theorem mayRefuseAny_eq_any (S : Scheme) (c : Bool) :
    ∀ st : List Alg, mayRefuseAny st S c = st.any fun a => mayRefuse a S c
  | [] => by simp [mayRefuseAny]
  | a :: as => by simp [mayRefuseAny, mayRefuseAny_eq_any S c as]

mutual
/-- declared relevant ⇒ never refused -/
theorem accepts (S : Scheme) (c : Bool) : ∀ a : Alg, relevant a S = true → mayRefuse a S c = false
  | .exact, _ => by simp [mayRefuse]
  | .kwik, _ => by simp [mayRefuse]
  | .copeland, _ => by simp [mayRefuse]
  | .borda, h => by simp only [relevant] at h; simp [mayRefuse, h]
  | .pickAPerm, h => by simp only [relevant] at h; simp [mayRefuse, h]
  | .bioCo, h => by simp only [relevant] at h; simp [mayRefuse, h]
  | .bioConsert st, h => by
    simp only [relevant] at h
    simp only [mayRefuse]
    exact acceptsAll S c st h
  | .parCons aux, h => by
    simp only [relevant] at h
    simp only [mayRefuse]
    exact accepts S c aux h
theorem acceptsAll (S : Scheme) (c : Bool) : ∀ l : List Alg, relevantAll l S = true → mayRefuseAny l S c = false
  | [], _ => by simp [mayRefuseAny]
  | a :: as, h => by
    simp only [relevantAll, Bool.and_eq_true] at h
    simp only [mayRefuseAny, Bool.or_eq_false_iff]
    exact ⟨accepts S c a h.1, acceptsAll S c as h.2⟩
end

mutual
/-- complete data is never refused -/
theorem complete (S : Scheme) : ∀ a : Alg, mayRefuse a S true = false
  | .exact => by simp [mayRefuse]
  | .kwik => by simp [mayRefuse]
  | .copeland => by simp [mayRefuse]
  | .borda => by simp [mayRefuse]
  | .pickAPerm => by simp [mayRefuse]
  | .bioCo => by simp [mayRefuse]
  | .bioConsert st => by simp only [mayRefuse]; exact completeAll S st
  | .parCons aux => by simp only [mayRefuse]; exact complete S aux
theorem completeAll (S : Scheme) : ∀ l : List Alg, mayRefuseAny l S true = false
  | [] => by simp [mayRefuseAny]
  | a :: as => by simp [mayRefuseAny, complete S a, completeAll S as]
end

/-- the members admitted by `exactRefusal` inside a BioConsert -/
def leafExact : Alg → Bool
  | .borda => true | .pickAPerm => true | .exact => true | .kwik => true | .copeland => true | _ => false

theorem leafExact_exact (S : Scheme) : ∀ a : Alg, leafExact a = true → mayRefuse a S false = !relevant a S
  | .exact, _ => by simp [mayRefuse, relevant]
  | .kwik, _ => by simp [mayRefuse, relevant]
  | .copeland, _ => by simp [mayRefuse, relevant]
  | .borda, _ => by simp [mayRefuse, relevant]
  | .pickAPerm, _ => by simp [mayRefuse, relevant]
  | .bioCo, h => by simp [leafExact] at h
  | .bioConsert _, h => by simp [leafExact] at h
  | .parCons _, h => by simp [leafExact] at h

theorem exactAll (S : Scheme) : ∀ l : List Alg, l.all leafExact = true →
    mayRefuseAny l S false = !relevantAll l S
  | [], _ => by simp [mayRefuseAny, relevantAll]
  | a :: as, h => by
    simp only [List.all_cons, Bool.and_eq_true] at h
    simp only [mayRefuseAny, relevantAll, leafExact_exact S a h.1, exactAll S as h.2, Bool.not_and]

end C14
end Corankco
