import Corankco.Model.DatasetOps
import Batteries.Data.List.Basic
/-
  C17 — dataset equality: `multisetEq` is equality of multisets of rankings up to `sameRankingN`.
  Core: `multisetEq a b = true ↔ ∀ r, cnt r a = cnt r b` where `cnt r l` counts the rankings of `l` equal to `r`.
-/
namespace Corankco
namespace C17
open Model

/-! ### buckets -/

theorem sameBucket_iff (a b : NBucket) : sameBucket a b = true ↔ ∀ x, x ∈ a ↔ x ∈ b := by
  simp only [sameBucket, Bool.and_eq_true, List.all_eq_true, List.contains_iff_mem]
  constructor
  · rintro ⟨h1, h2⟩ x; exact ⟨h1 x, h2 x⟩
  · intro h; exact ⟨fun x hx => (h x).1 hx, fun x hx => (h x).2 hx⟩

theorem sameBucket_refl (a : NBucket) : sameBucket a a = true := (sameBucket_iff a a).2 fun _ => Iff.rfl

theorem sameBucket_comm (a b : NBucket) : sameBucket a b = sameBucket b a := by
  simp only [sameBucket, Bool.and_comm]

theorem sameBucket_trans {a b c : NBucket} (h1 : sameBucket a b = true) (h2 : sameBucket b c = true) :
    sameBucket a c = true := by
  rw [sameBucket_iff] at *
  exact fun x => (h1 x).trans (h2 x)

theorem sameBucket_of_perm {a b : NBucket} (h : a.Perm b) : sameBucket a b = true :=
  (sameBucket_iff a b).2 fun _ => h.mem_iff

/-! ### rankings -/

@[simp] theorem sameRankingN_nil_nil : sameRankingN [] [] = true := rfl
@[simp] theorem sameRankingN_nil_cons (y : NBucket) (ys : NRanking) : sameRankingN [] (y :: ys) = false := rfl
@[simp] theorem sameRankingN_cons_nil (x : NBucket) (xs : NRanking) : sameRankingN (x :: xs) [] = false := rfl
theorem sameRankingN_cons_cons (x y : NBucket) (xs ys : NRanking) :
    sameRankingN (x :: xs) (y :: ys) = (sameBucket x y && sameRankingN xs ys) := by
  simp only [sameRankingN, List.length_cons, List.zip_cons_cons, List.all_cons]
  cases sameBucket x y <;> simp

theorem sameRankingN_iff (a b : NRanking) :
    sameRankingN a b = true ↔ List.Forall₂ (fun x y => sameBucket x y = true) a b := by
  induction a generalizing b with
  | nil =>
    cases b with
    | nil => simp
    | cons y ys => simp only [sameRankingN_nil_cons, Bool.false_eq_true, false_iff]; intro h; cases h
  | cons x xs ih =>
    cases b with
    | nil => simp only [sameRankingN_cons_nil, Bool.false_eq_true, false_iff]; intro h; cases h
    | cons y ys => simp [sameRankingN_cons_cons, ih]

theorem sameRankingN_refl (a : NRanking) : sameRankingN a a = true := by
  induction a with
  | nil => rfl
  | cons x xs ih => simp [sameRankingN_cons_cons, ih, sameBucket_refl]

theorem sameRankingN_comm (a b : NRanking) : sameRankingN a b = sameRankingN b a := by
  induction a generalizing b with
  | nil => cases b <;> rfl
  | cons x xs ih =>
    cases b with
    | nil => rfl
    | cons y ys => simp only [sameRankingN_cons_cons, ih ys, sameBucket_comm x y]

theorem sameRankingN_trans {a b c : NRanking} (h1 : sameRankingN a b = true) (h2 : sameRankingN b c = true) :
    sameRankingN a c = true := by
  induction a generalizing b c with
  | nil =>
    cases b with
    | nil => exact h2
    | cons _ _ => simp at h1
  | cons x xs ih =>
    cases b with
    | nil => simp at h1
    | cons y ys =>
      cases c with
      | nil => simp at h2
      | cons z zs =>
        simp only [sameRankingN_cons_cons, Bool.and_eq_true] at *
        exact ⟨sameBucket_trans h1.1 h2.1, ih h1.2 h2.2⟩

/-- equal rankings are equal to the same rankings -/
theorem sameRankingN_congr_right {x q : NRanking} (h : sameRankingN x q = true) (r : NRanking) :
    sameRankingN r x = sameRankingN r q := by
  rw [Bool.eq_iff_iff]
  exact ⟨fun h1 => sameRankingN_trans h1 h,
    fun h1 => sameRankingN_trans h1 (by rw [sameRankingN_comm]; exact h)⟩

theorem sameRankingN_of_perm_members {r q : NRanking} (h : List.Forall₂ (fun x y => x.Perm y) r q) :
    sameRankingN r q = true := by
  induction h with
  | nil => rfl
  | cons hxy _ ih => simp [sameRankingN_cons_cons, ih, sameBucket_of_perm hxy]

/-! ### counting -/

/-- number of rankings of `l` equal to `r` -/
def cnt (r : NRanking) (l : List NRanking) : Nat := l.countP fun q => sameRankingN r q

theorem cnt_eq_filter (r : NRanking) (l : List NRanking) :
    cnt r l = (l.filter fun q => sameRankingN r q).length := List.countP_eq_length_filter

@[simp] theorem cnt_nil (r : NRanking) : cnt r [] = 0 := rfl
theorem cnt_cons (r x : NRanking) (l : List NRanking) :
    cnt r (x :: l) = cnt r l + if sameRankingN r x = true then 1 else 0 := by
  simp [cnt, List.countP_cons]

theorem cnt_perm {a b : List NRanking} (h : a.Perm b) (r : NRanking) : cnt r a = cnt r b := h.countP_eq _

theorem cnt_pos_iff (r : NRanking) (l : List NRanking) : 0 < cnt r l ↔ ∃ q ∈ l, sameRankingN r q = true := by
  simp [cnt, List.countP_pos_iff]

theorem cnt_forall₂ {a b : List NRanking} (h : List.Forall₂ (fun r q => sameRankingN r q = true) a b)
    (r : NRanking) : cnt r a = cnt r b := by
  induction h with
  | nil => rfl
  | cons hxy _ ih => rw [cnt_cons, cnt_cons, ih, sameRankingN_congr_right hxy]

theorem forall₂_length {α β : Type} {R : α → β → Prop} {a : List α} {b : List β} (h : List.Forall₂ R a b) :
    a.length = b.length := by
  induction h with
  | nil => rfl
  | cons _ _ ih => simp [ih]

/-! ### removeFirst -/

theorem removeFirst_none {r : NRanking} {l : List NRanking} (h : removeFirst r l = none) : cnt r l = 0 := by
  induction l with
  | nil => rfl
  | cons x xs ih =>
    simp only [removeFirst] at h
    split at h
    · cases h
    · rename_i hx
      rw [cnt_cons, ih (by simpa using h)]
      simp [hx]

theorem removeFirst_some {r : NRanking} {l l' : List NRanking} (h : removeFirst r l = some l') :
    ∃ q, sameRankingN r q = true ∧ (q :: l').Perm l := by
  induction l generalizing l' with
  | nil => cases h
  | cons x xs ih =>
    simp only [removeFirst] at h
    split at h
    · rename_i hx
      cases h
      exact ⟨x, hx, List.Perm.refl _⟩
    · cases hrec : removeFirst r xs with
      | none => rw [hrec] at h; cases h
      | some t =>
        rw [hrec] at h
        cases h
        obtain ⟨q, hq, hp⟩ := ih hrec
        exact ⟨q, hq, (List.Perm.swap x q t).trans (hp.cons x)⟩

theorem removeFirst_cnt {x : NRanking} {l l' : List NRanking} (h : removeFirst x l = some l') (r : NRanking) :
    cnt r l = cnt r l' + if sameRankingN r x = true then 1 else 0 := by
  obtain ⟨q, hq, hp⟩ := removeFirst_some h
  rw [← cnt_perm hp r, cnt_cons, sameRankingN_congr_right hq]

/-! ### the characterisation -/

theorem multisetEq_iff_cnt (a b : List NRanking) : multisetEq a b = true ↔ ∀ r, cnt r a = cnt r b := by
  induction a generalizing b with
  | nil =>
    cases b with
    | nil => simp [multisetEq]
    | cons y ys =>
      simp only [multisetEq, List.isEmpty_cons, Bool.false_eq_true, false_iff]
      intro h
      have := h y
      rw [cnt_cons, sameRankingN_refl] at this
      simp at this
  | cons x xs ih =>
    simp only [multisetEq]
    cases hrec : removeFirst x b with
    | none =>
      simp only [Bool.false_eq_true, false_iff]
      intro h
      have := h x
      rw [cnt_cons, sameRankingN_refl, removeFirst_none hrec] at this
      simp at this
    | some t =>
      simp only [ih t]
      constructor
      · intro h r; rw [cnt_cons, removeFirst_cnt hrec, h r]
      · intro h r
        have := h r
        rw [cnt_cons, removeFirst_cnt hrec] at this
        omega

theorem multisetEq_matching {a b : List NRanking} (h : multisetEq a b = true) :
    ∃ b' : List NRanking, b'.Perm b ∧ List.Forall₂ (fun r q => sameRankingN r q = true) a b' := by
  induction a generalizing b with
  | nil =>
    cases b with
    | nil => exact ⟨[], List.Perm.refl _, List.Forall₂.nil⟩
    | cons _ _ => simp [multisetEq] at h
  | cons x xs ih =>
    simp only [multisetEq] at h
    cases hrec : removeFirst x b with
    | none => rw [hrec] at h; cases h
    | some t =>
      rw [hrec] at h
      obtain ⟨q, hq, hp⟩ := removeFirst_some hrec
      obtain ⟨c, hc, hf⟩ := ih h
      exact ⟨q :: c, (hc.cons q).trans hp, List.Forall₂.cons hq hf⟩

end C17
end Corankco
