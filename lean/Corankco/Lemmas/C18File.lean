import Corankco.Lemmas.C18Round
/-
  C18 (file round trip, string elements): the failing side of the reader's int-then-str fall-back. A rendered ranking
  whose first bucket starts with a name the converter refuses makes `parseTies` fail with the converter's error, and
  `mapM` over the lines then fails the same way; the reader of a written file sees exactly the rendered lines.
-/
namespace Corankco
open Model

namespace C18F
open C18R

/-! ### a bucket whose first name is refused -/

theorem bucketStep_err {conv : List Char → Except PErr Name} {acc : NBucket} {piece : List Char} {e : PErr}
    (hne : pyStrip piece ≠ []) (hc : conv (pyStrip piece) = .error e) :
    bucketStep conv acc piece = .error e := by
  unfold bucketStep
  simp [hne, hc]

theorem parseBucket_head_err (conv : List Char → Except PErr Name) (e : PErr) (t : List Char) (ts : List (List Char))
    (hts : ∀ u ∈ t :: ts, ',' ∉ u) (hne : t ≠ []) (ht : Tight t) (hc : conv t = .error e) :
    parseBucket conv ([',', ' '].intercalate (t :: ts)) = .error e := by
  rw [parseBucket_eq, pySplit_join t ts hts, List.foldlM_cons]
  have hs : pyStrip t = t := pyStrip_tight ht hne
  rw [bucketStep_err (by rw [hs]; exact hne) (by rw [hs]; exact hc)]
  rfl

/-! ### the scanning loop stops at the first refused bucket -/

theorem scanLoop_err {conv : List Char → Except PErr Name} {s : List Char} {re st en oe : Int} {fuel : Nat}
    {ret : List NBucket} {e : PErr} (hst : 0 ≤ st) (hen : 0 ≤ en)
    (hb : parseBucket conv (pySlice s (st + 1) en) = .error e) :
    scanLoop conv s re (fuel + 1) ret st en oe = .error e := by
  have h1 : (st != -1) = true := by simp; omega
  have h2 : (en != -1) = true := by simp; omega
  rw [scanLoop]
  simp only [h1, h2, Bool.and_self, if_true, hb]

/-- `parseNorm` on `[[t₁], [t₂], …]` when the parse of the first bucket fails -/
theorem parseNorm_head_err (conv : List Char → Except PErr Name) (e : PErr) (it : List Char)
    (rest : List (List Char))
    (hgood : ∀ q ∈ it :: rest, '[' ∉ q ∧ ']' ∉ q ∧ q ≠ [])
    (herr : parseBucket conv it = .error e) :
    parseNorm conv (normText (it :: rest)) = .error e := by
  generalize hsd : normText (it :: rest) = s
  have hs : s = ['['] ++ bk it ++ tailT rest ++ [']'] := by
    rw [← hsd, normText_cons]
  have hlen : s.length = it.length + 3 + (tailT rest).length + 1 := by
    rw [hs]; simp [bk]; omega
  have hf0 : pyFindFrom s '[' 0 = 0 := by
    unfold pyFindFrom
    rw [pyFind_hit (a := []) (m := []) (d1 := bk it ++ tailT rest ++ [']']) (d2 := [])]
    · simp
    · rw [hs]; simp
    · simp
    · simp
    · rw [hlen]; simp [bk]; omega
  have hrf : pyRfind s ']' = (s.length : Int) - 1 := by
    rw [hs, pyRfind_last]; simp; omega
  have hbody : pySlice s (0 + 1) ((s.length : Int) - 1) = bk it ++ tailT rest := by
    apply pySlice_mid (a := ['[']) (d := [']'])
    · rw [hs]; simp
    · simp
    · rw [hlen]; simp [bk]; omega
  have hst : pyFindFrom s '[' (0 + 1) = 1 := by
    unfold pyFindFrom
    rw [pyFind_hit (a := ['[']) (m := []) (d1 := it ++ ']' :: tailT rest ++ [']']) (d2 := [])]
    · simp
    · rw [hs]; simp [bk]
    · simp
    · simp
    · rw [hlen]; simp; omega
  have hen : pyFindFrom s ']' 0 = ((1 + 1 + it.length : Nat) : Int) := by
    unfold pyFindFrom
    rw [pyFind_hit (a := []) (m := '[' :: '[' :: it) (d1 := tailT rest ++ [']']) (d2 := [])]
    · simp; omega
    · rw [hs]; simp [bk]
    · simp; exact (hgood it (by simp)).2.1
    · simp
    · rw [hlen]; simp; omega
  have hstrip : (pyStrip (bk it ++ tailT rest)).isEmpty = false := by
    rw [List.isEmpty_eq_false_iff]
    exact pyStrip_ne_nil _ (by decide)
  have hends : pyEndsWith s ['[', '[', ']', ']'] = false := by
    cases h : pyEndsWith s ['[', '[', ']', ']'] with
    | false => rfl
    | true =>
      exfalso
      obtain ⟨P, l, hl, hPl⟩ := body_last it rest
      obtain ⟨hq2, hq3, hq4⟩ := hgood l hl
      rcases List.eq_nil_or_concat l with h0 | ⟨m, z, hm⟩
      · exact hq4 h0
      · rw [List.concat_eq_append] at hm
        have hs' : s = (['['] ++ P ++ '[' :: m) ++ [z, ']', ']'] := by
          rw [hs, List.append_assoc ['['], hPl, bk, hm]; simp
        rw [hs'] at h
        have := pyEndsWith_third h
        apply hq2
        rw [hm, this]; simp
  have hfrom : (pySliceFrom s ((s.length : Int) - 1 + 1)).isEmpty = true := by
    rw [pySliceFrom_end (by omega)]; rfl
  have hb : parseBucket conv (pySlice s ((1 : Int) + 1) ((1 + 1 + it.length : Nat) : Int)) = .error e := by
    rw [pySlice_mid (a := ['[', '[']) (b := it) (d := ']' :: tailT rest ++ [']'])]
    · exact herr
    · rw [hs]; simp [bk]
    · simp
    · simp
  have hscan : scanLoop conv s ((s.length : Int) - 1) (s.length + 2) [] 1 ((1 + 1 + it.length : Nat) : Int)
      ((1 + 1 + it.length : Nat) : Int) = .error e :=
    scanLoop_err (fuel := s.length + 1) (by omega) (by omega) hb
  unfold parseNorm
  rw [hf0, hrf, hbody, hstrip, hends, hst, hen, hfrom, hscan]
  simp

/-! ### a rendered ranking whose first name is refused -/

theorem inner_clean {r : NRanking} (hb : ∀ b ∈ r, b ≠ []) (hx : ∀ x ∈ r.flatten, GoodText (nameText x))
    {b : NBucket} (hbr : b ∈ r) : '[' ∉ inner b ∧ ']' ∉ inner b ∧ inner b ≠ [] := by
  have hmem : ∀ x ∈ b, x ∈ r.flatten := fun x hxb => List.mem_flatten.2 ⟨b, hbr, hxb⟩
  refine ⟨?_, ?_, ?_⟩
  · intro hc
    rcases mem_inner hc with h | h | ⟨x, hxb, hcx⟩
    · revert h; decide
    · revert h; decide
    · exact ((hx x (hmem x hxb)).2.2 _ hcx).1 rfl
  · intro hc
    rcases mem_inner hc with h | h | ⟨x, hxb, hcx⟩
    · revert h; decide
    · revert h; decide
    · exact ((hx x (hmem x hxb)).2.2 _ hcx).2.1 rfl
  · cases hbe : b with
    | nil => exact absurd hbe (hb b hbr)
    | cons x xs =>
      have hxne := (hx x (hmem x (by simp [hbe]))).1
      simp only [inner, List.map_cons, intercalate_eq]
      simp [hxne]

/-- `parse_ranking_with_ties` on a rendered ranking whose very first name the converter refuses -/
theorem parseTies_render_err (conv : List Char → Except PErr Name) (e : PErr) (x : Name) (xs : NBucket)
    (rest : NRanking)
    (hb : ∀ b ∈ (x :: xs) :: rest, b ≠ [])
    (hx : ∀ y ∈ ((x :: xs) :: rest).flatten, GoodText (nameText y))
    (hc : conv (nameText x) = .error e) :
    parseTies conv (renderRanking ((x :: xs) :: rest)) = .error e := by
  have hplain : ∀ y ∈ ((x :: xs) :: rest).flatten, ∀ c ∈ nameText y, Plain c := fun y h => (hx y h).2.2
  have h1 := tight_render ((x :: xs) :: rest)
  have h2 := colon_notin_render ((x :: xs) :: rest) hplain
  have hp := prep (pre := []) (post := []) (pfx := []) h1.1 h1.2 h2 (by simp) (by simp) (Or.inl rfl)
  simp only [List.append_nil, List.nil_append] at hp
  rw [parseTies_eq, hp, map_repl_render _ hplain, List.map_cons]
  apply parseNorm_head_err
  · intro q hq
    rw [← List.map_cons (f := inner)] at hq
    obtain ⟨b, hbr, rfl⟩ := List.mem_map.1 hq
    exact inner_clean hb hx hbr
  · have hxg := hx x (by simp)
    show parseBucket conv ([',', ' '].intercalate (nameText x :: xs.map nameText)) = .error e
    apply parseBucket_head_err conv e _ _ _ hxg.1 hxg.2.1 hc
    intro u hu
    rw [← List.map_cons (f := nameText)] at hu
    obtain ⟨y, hy, rfl⟩ := List.mem_map.1 hu
    intro hcm
    exact ((hx y (by simp only [List.flatten_cons, List.mem_append]; exact Or.inl hy)).2.2 _ hcm).2.2.2.2.1 rfl

/-! ### `mapM` -/

theorem mapM_err {α β : Type} (f : α → Except PErr β) (e : PErr) (l : List α)
    (hall : ∀ a ∈ l, f a = .error e ∨ ∃ b, f a = .ok b) (hex : ∃ a ∈ l, f a = .error e) :
    l.mapM f = .error e := by
  induction l with
  | nil => obtain ⟨a, ha, -⟩ := hex; simp at ha
  | cons a l ih =>
    rw [List.mapM_cons]
    rcases hall a (by simp) with h | ⟨b, h⟩
    · rw [h]; rfl
    · rw [h]
      have : ∃ a' ∈ l, f a' = .error e := by
        obtain ⟨a', ha', he⟩ := hex
        rcases List.mem_cons.1 ha' with rfl | hm
        · rw [h] at he; cases he
        · exact ⟨a', hm, he⟩
      rw [ih (fun a' ha' => hall a' (List.mem_cons_of_mem _ ha')) this]
      rfl

/-! ### the lines the reader sees -/

/-- the reader of a written file parses exactly the rendered rankings, first with the int converter -/
theorem readFile_write_eq (rs : List NRanking)
    (h : ∀ r ∈ rs, ∀ c ∈ renderRanking r, c ≠ '\\' ∧ c ≠ '\n') :
    readFile (writeFile rs) =
      match (rs.map renderRanking).mapM (parseTies convInt) with
      | .ok res => .ok res
      | .error .valueError => (rs.map renderRanking).mapM (parseTies convStr)
      | .error e => .error e := by
  have hun : readFile.unescape (writeFile rs) = writeFile rs := by
    apply unescape_id
    intro hm
    obtain ⟨r, hr, hc⟩ := List.mem_flatMap.1 hm
    rcases List.mem_append.1 hc with hc | hc
    · exact (h r hr _ hc).1 rfl
    · revert hc; decide
  have hsplit : pySplit '\n' (writeFile rs) = rs.map renderRanking ++ [[]] := by
    have := pySplit_lines (rs.map renderRanking) (by
      intro l hl hc
      obtain ⟨r, hr, rfl⟩ := List.mem_map.1 hl
      exact (h r hr _ hc).2 rfl)
    rw [← this, writeFile, List.flatMap_map]
  have hfilter : (rs.map renderRanking ++ [[]]).filter
      (fun l => !(pyStrip l).isEmpty && l.head? != some '%') = rs.map renderRanking := by
    rw [List.filter_append, List.filter_eq_self.2]
    · simp [pyStrip]
    · intro l hl
      obtain ⟨r, hr, rfl⟩ := List.mem_map.1 hl
      have ht := tight_render r
      rw [pyStrip_tight ht.1 ht.2]
      rw [renderRanking_eq]
      simp
  unfold readFile
  simp only [hun, hsplit, hfilter]
  rfl

theorem parseTies_render_nil (conv : List Char → Except PErr Name) : parseTies conv (renderRanking []) = .ok [] := by
  have := parseTies_render conv (fun t => .str t) [] false [] [] [] (by simp) (by simp) (by simp) (by simp) (by simp)
    (Or.inl rfl)
  simpa using this

end C18F
end Corankco
