import Corankco.Model.Markov
import Corankco.Spec.C20
import Corankco.Lemmas.Basic
/-
  C20 — helper lemmas for the Markov moves on bucket-id vectors.

  Method: `Dense` only speaks about membership, so it is invariant under permutation.  A move rewrites
  `v` into `(v.map f).set e a`, which is a permutation of `a :: (others v e).map f` where `others v e`
  is `v` without position `e`; and `v` itself is a permutation of `v[e] :: others v e`.
  `cnt v v[e] > 1` says `v[e] ∈ others v e` (the bucket survives the departure of `e`).
  Each move then reduces to a statement about a value `b` and a list `w` (`aL`, `aR`, `shiftDown`, `stay`, `pF`).
-/
namespace Corankco
open Model

/-- Dense bucket numbering: entries are ≥ -1 and the used bucket ids are exactly 0..max (downward closed). -/
def Dense (v : List Int) : Prop :=
  (∀ x ∈ v, -1 ≤ x) ∧ ∀ x ∈ v, ∀ b : Int, 0 ≤ b → b < x → b ∈ v

/-- position `e` removed -/
def others (v : List Int) (e : Nat) : List Int := v.take e ++ v.drop (e + 1)

theorem perm_set_map (f : Int → Int) (v : List Int) (e : Nat) (a : Int) (he : e < v.length) :
    ((v.map f).set e a).Perm (a :: (others v e).map f) := by
  rw [List.set_eq_take_append_cons_drop]
  simp only [List.length_map, he, if_true, others, List.map_append, List.map_take, List.map_drop]
  exact List.perm_middle

theorem perm_set (v : List Int) (e : Nat) (a : Int) (he : e < v.length) :
    (v.set e a).Perm (a :: others v e) := by
  have := perm_set_map id v e a he
  simpa using this

theorem perm_others (v : List Int) (e : Nat) (he : e < v.length) :
    v.Perm (v.getD e 0 :: others v e) := by
  have := perm_set v e (v.getD e 0) he
  rw [getD_of_lt v e 0 he, List.set_getElem_self] at this
  rwa [getD_of_lt v e 0 he]

theorem Dense.perm {l₁ l₂ : List Int} (p : l₁.Perm l₂) (h : Dense l₁) : Dense l₂ := by
  unfold Dense at *
  simp only [← p.mem_iff]
  exact h

theorem cnt_eq (v : List Int) (e : Nat) (he : e < v.length) (b : Int) (hb : v.getD e 0 = b):
    cnt v b = 1 + (others v e).count b := by
  have : cnt v b = v.count b := rfl
  rw [this, (perm_others v e he).count_eq, hb]
  simp; omega


theorem dense_cons_map (f : Int → Int) (a : Int) (w : List Int)
    (h1 : -1 ≤ a) (h2 : ∀ y ∈ w, -1 ≤ f y)
    (h3 : ∀ c, 0 ≤ c → (c < a ∨ ∃ y ∈ w, c < f y) → c = a ∨ ∃ y ∈ w, f y = c) :
    Dense (a :: w.map f) := by
  refine ⟨?_, ?_⟩
  · intro x hx
    simp only [List.mem_cons, List.mem_map] at hx
    rcases hx with rfl | ⟨y, hy, rfl⟩
    · exact h1
    · exact h2 y hy
  · intro x hx c hc0 hcx
    simp only [List.mem_cons, List.mem_map] at hx ⊢
    rcases hx with rfl | ⟨y, hy, rfl⟩
    · exact h3 c hc0 (Or.inl hcx)
    · exact h3 c hc0 (Or.inr ⟨y, hy, hcx⟩)

theorem dense_cons (a : Int) (w : List Int)
    (h1 : -1 ≤ a) (h2 : ∀ y ∈ w, -1 ≤ y)
    (h3 : ∀ c, 0 ≤ c → (c < a ∨ ∃ y ∈ w, c < y) → c = a ∨ c ∈ w) :
    Dense (a :: w) := by
  have := dense_cons_map id a w h1 h2 (by simpa using h3)
  simpa using this

theorem Dense.low {b : Int} {w : List Int} (hD : Dense (b :: w)) {c : Int} (h0 : 0 ≤ c) {y : Int}
    (hy : y ∈ w) (hc : c ≤ y) : c = b ∨ c ∈ w := by
  rcases Int.lt_or_eq_of_le hc with h | h
  · simpa using hD.2 y (by simp [hy]) c h0 h
  · subst h; exact Or.inr hy

theorem Dense.lowb {b : Int} {w : List Int} (hD : Dense (b :: w)) {c : Int} (h0 : 0 ≤ c)
    (hc : c < b) : c ∈ w := by
  have := hD.2 b (by simp) c h0 hc
  simp at this
  rcases this with h | h
  · omega
  · exact h

theorem Dense.ge {b : Int} {w : List Int} (hD : Dense (b :: w)) {y : Int} (hy : y ∈ w) : -1 ≤ y :=
  hD.1 y (by simp [hy])

theorem aL (w : List Int) (b : Int) (hb : 0 ≤ b) (hD : Dense (b :: w)) (hm : b ∈ w) :
    Dense (b :: w.map (fun x => if x ≥ b then x + 1 else x)) := by
  apply dense_cons_map
  · omega
  · intro y hy; have := hD.ge hy; split <;> omega
  · intro c hc0 h
    by_cases h1 : c < b
    · exact Or.inr ⟨c, hD.lowb hc0 h1, by simp; omega⟩
    by_cases h2 : c = b
    · exact Or.inl h2
    rcases h with h | ⟨y, hy, h⟩
    · omega
    · skip
      have hyb : y ≥ b := by split at h <;> omega
      rw [if_pos hyb] at h
      have : c - 1 ∈ w := by
        rcases hD.low (c := c - 1) (by omega) hy (by omega) with e | e
        · rw [e]; exact hm
        · exact e
      exact Or.inr ⟨c - 1, this, by simp; omega⟩


theorem aR (w : List Int) (b : Int) (hb : 0 ≤ b) (hD : Dense (b :: w)) (hm : b ∈ w) :
    Dense ((b + 1) :: w.map (fun x => if x > b then x + 1 else x)) := by
  apply dense_cons_map
  · omega
  · intro y hy; have := hD.ge hy; split <;> omega
  · intro c hc0 h
    by_cases h1 : c < b
    · exact Or.inr ⟨c, hD.lowb hc0 h1, by simp; omega⟩
    by_cases h2 : c = b
    · exact Or.inr ⟨b, hm, by simp; omega⟩
    by_cases h3 : c = b + 1
    · exact Or.inl h3
    rcases h with h | ⟨y, hy, h⟩
    · omega
    · have hyb : y > b := by split at h <;> omega
      rw [if_pos hyb] at h
      have : c - 1 ∈ w := by
        rcases hD.low (c := c - 1) (by omega) hy (by omega) with e | e
        · omega
        · exact e
      exact Or.inr ⟨c - 1, this, by simp; omega⟩


/-- shifting down everything above `b` (used when `e` was alone in `b`), `e` placed at `a ≤ b`. -/
theorem shiftDown (w : List Int) (b a : Int) (hD : Dense (b :: w))
    (ha : -1 ≤ a) (hab : a ≤ b) (hcov : ∀ c, 0 ≤ c → c < b → c = a ∨ c ∈ w) :
    Dense (a :: w.map (fun x => if x > b then x - 1 else x)) := by
  apply dense_cons_map
  · exact ha
  · intro y hy; have := hD.ge hy; split <;> omega
  · intro c hc0 h
    by_cases h1 : c < b
    · rcases hcov c hc0 h1 with e | e
      · exact Or.inl e
      · exact Or.inr ⟨c, e, by simp; omega⟩
    rcases h with h | ⟨y, hy, h⟩
    · omega
    · have hyb : y > b := by split at h <;> omega
      rw [if_pos hyb] at h
      have : c + 1 ∈ w := by
        rcases hD.low (c := c + 1) (by omega) hy (by omega) with e | e
        · omega
        · exact e
      exact Or.inr ⟨c + 1, this, by simp; omega⟩

/-- `e` leaves a bucket that keeps other members, for a neighbouring bucket or for `-1`. -/
theorem stay (w : List Int) (b a : Int) (hD : Dense (b :: w)) (hm : b ∈ w)
    (ha : -1 ≤ a) (hab : a ≤ b + 1) : Dense (a :: w) := by
  apply dense_cons
  · exact ha
  · intro y hy; exact hD.ge hy
  · intro c hc0 h
    by_cases h1 : c < b
    · exact Or.inr (hD.lowb hc0 h1)
    by_cases h2 : c = b
    · rw [h2]; exact Or.inr hm
    rcases h with h | ⟨y, hy, h⟩
    · omega
    · rcases hD.low hc0 hy (by omega) with e | e
      · omega
      · exact Or.inr e

theorem pF (w : List Int) (hD : Dense (-1 :: w)) :
    Dense (0 :: w.map (fun x => if x ≥ 0 then x + 1 else x)) := by
  apply dense_cons_map
  · omega
  · intro y hy; have := hD.ge hy; split <;> omega
  · intro c hc0 h
    by_cases h2 : c = 0
    · exact Or.inl h2
    rcases h with h | ⟨y, hy, h⟩
    · omega
    · have hyb : y ≥ 0 := by split at h <;> omega
      rw [if_pos hyb] at h
      have : c - 1 ∈ w := by
        rcases hD.low (c := c - 1) (by omega) hy (by omega) with e | e
        · omega
        · exact e
      exact Or.inr ⟨c - 1, this, by simp; omega⟩

/-! ### the moves -/

theorem mem_others_of_cnt {v : List Int} {e : Nat} (he : e < v.length) {b : Int} (hb : v.getD e 0 = b) :
    1 < cnt v b ↔ b ∈ others v e := by
  rw [cnt_eq v e he b hb, ← List.count_pos_iff]; omega

theorem cnt_pos {v : List Int} {e : Nat} (he : e < v.length) {b : Int} (hb : v.getD e 0 = b) :
    1 ≤ cnt v b := by
  rw [cnt_eq v e he b hb]; omega

theorem Dense.others {v : List Int} (h : Dense v) {e : Nat} (he : e < v.length) :
    Dense (v.getD e 0 :: others v e) := h.perm (perm_others v e he)

theorem addLeft_dense (v : List Int) (e : Nat) (he : e < v.length) (hr : 0 ≤ v.getD e 0) (h : Dense v) :
    Dense (addLeft v e) := by
  unfold addLeft
  simp only
  split
  · rename_i hc
    exact (aL _ _ hr (h.others he) ((mem_others_of_cnt he rfl).mp hc)).perm (perm_set_map _ v e _ he).symm
  · exact h

theorem addRight_dense (v : List Int) (e : Nat) (he : e < v.length) (hr : 0 ≤ v.getD e 0) (h : Dense v) :
    Dense (addRight v e) := by
  unfold addRight
  simp only
  split
  · rename_i hc
    exact (aR _ _ hr (h.others he) ((mem_others_of_cnt he rfl).mp (by omega))).perm
      (perm_set_map _ v e _ he).symm
  · exact h

theorem changeLeft_dense (v : List Int) (e : Nat) (he : e < v.length) (hr : 0 ≤ v.getD e 0) (h : Dense v) :
    Dense (changeLeft v e) := by
  unfold changeLeft
  simp only
  split
  · rename_i hb
    split
    · rw [getD_map_of_lt _ _ _ _ he, ← getD_of_lt v e 0 he, if_neg (by omega)]
      refine (shiftDown _ _ _ (h.others he) (by omega) (by omega) ?_).perm (perm_set_map _ v e _ he).symm
      intro c hc0 hcb
      by_cases hc : c = v.getD e 0 - 1
      · exact Or.inl hc
      · exact Or.inr ((h.others he).lowb hc0 hcb)
    · rename_i hc
      have := cnt_pos he (b := v.getD e 0) rfl
      exact (stay _ _ _ (h.others he) ((mem_others_of_cnt he rfl).mp (by omega)) (by omega) (by omega)).perm
        (perm_set v e _ he).symm
  · exact h

theorem changeRight_dense (v : List Int) (e : Nat) (he : e < v.length) (hr : 0 ≤ v.getD e 0) (h : Dense v) :
    Dense (changeRight v e) := by
  unfold changeRight
  simp only
  split
  · split
    · rw [List.map_set, if_pos (by omega)]
      refine (shiftDown _ _ (v.getD e 0 + 1 - 1) (h.others he) (by omega) (by omega) ?_).perm
        (perm_set_map _ v e _ he).symm
      intro c hc0 hcb
      exact Or.inr ((h.others he).lowb hc0 hcb)
    · rename_i hc
      have := cnt_pos he (b := v.getD e 0) rfl
      exact (stay _ _ _ (h.others he) ((mem_others_of_cnt he rfl).mp (by omega)) (by omega) (by omega)).perm
        (perm_set v e _ he).symm
  · exact h

theorem removeElem_dense (v : List Int) (e : Nat) (he : e < v.length) (hr : 0 ≤ v.getD e 0) (h : Dense v) :
    Dense (removeElem v e) := by
  unfold removeElem
  simp only
  split
  · refine (shiftDown _ _ _ (h.others he) (by omega) (by omega) ?_).perm (perm_set_map _ v e _ he).symm
    intro c hc0 hcb
    exact Or.inr ((h.others he).lowb hc0 hcb)
  · rename_i hc
    have := cnt_pos he (b := v.getD e 0) rfl
    exact (stay _ _ _ (h.others he) ((mem_others_of_cnt he rfl).mp (by omega)) (by omega) (by omega)).perm
      (perm_set v e _ he).symm

theorem putFirst_dense (v : List Int) (e : Nat) (he : e < v.length) (hm : v.getD e 0 = -1) (h : Dense v) :
    Dense (putFirst v e) := by
  unfold putFirst
  have := h.others he
  rw [hm] at this
  exact (pF _ this).perm (perm_set_map _ v e _ he).symm


/-! ### length and non-negativity -/

@[simp] theorem addLeft_length (v : List Int) (e : Nat) : (addLeft v e).length = v.length := by
  unfold addLeft; simp only; split <;> simp
@[simp] theorem addRight_length (v : List Int) (e : Nat) : (addRight v e).length = v.length := by
  unfold addRight; simp only; split <;> simp
@[simp] theorem changeLeft_length (v : List Int) (e : Nat) : (changeLeft v e).length = v.length := by
  unfold changeLeft; simp only; repeat' split
  all_goals simp
@[simp] theorem changeRight_length (v : List Int) (e : Nat) : (changeRight v e).length = v.length := by
  unfold changeRight; simp only; repeat' split
  all_goals simp
@[simp] theorem removeElem_length (v : List Int) (e : Nat) : (removeElem v e).length = v.length := by
  unfold removeElem; simp only; split <;> simp
@[simp] theorem putFirst_length (v : List Int) (e : Nat) : (putFirst v e).length = v.length := by
  unfold putFirst; simp

@[simp] theorem stepComplete_length (v : List Int) (e a : Nat) : (stepComplete v e a).length = v.length := by
  unfold stepComplete; repeat' split
  all_goals simp
@[simp] theorem stepIncomplete_length (v : List Int) (e a : Nat) :
    (stepIncomplete v e a).length = v.length := by
  unfold stepIncomplete; repeat' split
  all_goals simp

theorem getD_mem (v : List Int) (e : Nat) (he : e < v.length) : v.getD e 0 ∈ v := by
  rw [getD_of_lt v e 0 he]; exact List.getElem_mem he

theorem nonneg_set_map (f : Int → Int) (v : List Int) (e : Nat) (a : Int) (ha : 0 ≤ a)
    (hf : ∀ y ∈ v, 0 ≤ f y) : ∀ x ∈ (v.map f).set e a, 0 ≤ x := by
  intro x hx
  rcases List.mem_or_eq_of_mem_set hx with h | h
  · simp only [List.mem_map] at h
    obtain ⟨y, hy, rfl⟩ := h
    exact hf y hy
  · omega

theorem nonneg_set (v : List Int) (e : Nat) (a : Int) (ha : 0 ≤ a)
    (hf : ∀ y ∈ v, 0 ≤ y) : ∀ x ∈ v.set e a, 0 ≤ x := by
  have := nonneg_set_map id v e a ha hf
  simpa using this

theorem addLeft_nonneg (v : List Int) (e : Nat) (he : e < v.length) (h : ∀ x ∈ v, 0 ≤ x) :
    ∀ x ∈ addLeft v e, 0 ≤ x := by
  have hb := h _ (getD_mem v e he)
  unfold addLeft; simp only; split
  · apply nonneg_set_map _ _ _ _ hb
    intro y hy; have := h y hy; split <;> omega
  · exact h

theorem addRight_nonneg (v : List Int) (e : Nat) (he : e < v.length) (h : ∀ x ∈ v, 0 ≤ x) :
    ∀ x ∈ addRight v e, 0 ≤ x := by
  have hb := h _ (getD_mem v e he)
  unfold addRight; simp only; split
  · apply nonneg_set_map _ _ _ _ (by omega)
    intro y hy; have := h y hy; split <;> omega
  · exact h

theorem changeLeft_nonneg (v : List Int) (e : Nat) (he : e < v.length) (h : ∀ x ∈ v, 0 ≤ x) :
    ∀ x ∈ changeLeft v e, 0 ≤ x := by
  have hb := h _ (getD_mem v e he)
  unfold changeLeft; simp only; split
  · split
    · rw [getD_map_of_lt _ _ _ _ he, ← getD_of_lt v e 0 he, if_neg (by omega)]
      apply nonneg_set_map _ _ _ _ (by omega)
      intro y hy; have := h y hy; split <;> omega
    · exact nonneg_set _ _ _ (by omega) h
  · exact h

theorem changeRight_nonneg (v : List Int) (e : Nat) (he : e < v.length) (h : ∀ x ∈ v, 0 ≤ x) :
    ∀ x ∈ changeRight v e, 0 ≤ x := by
  have hb := h _ (getD_mem v e he)
  unfold changeRight; simp only; split
  · split
    · rw [List.map_set]
      apply nonneg_set_map _ _ _ _ (by split <;> omega)
      intro y hy; have := h y hy; split <;> omega
    · exact nonneg_set _ _ _ (by omega) h
  · exact h

theorem stepComplete_nonneg (v : List Int) (e a : Nat) (he : e < v.length) (h : ∀ x ∈ v, 0 ≤ x) :
    ∀ x ∈ stepComplete v e a, 0 ≤ x := by
  unfold stepComplete
  repeat' split
  · exact addLeft_nonneg v e he h
  · exact addRight_nonneg v e he h
  · exact changeLeft_nonneg v e he h
  · exact changeRight_nonneg v e he h
  · exact h

theorem stepComplete_dense (v : List Int) (e a : Nat) (he : e < v.length) (hr : 0 ≤ v.getD e 0)
    (h : Dense v) : Dense (stepComplete v e a) := by
  unfold stepComplete
  repeat' split
  · exact addLeft_dense v e he hr h
  · exact addRight_dense v e he hr h
  · exact changeLeft_dense v e he hr h
  · exact changeRight_dense v e he hr h
  · exact h

theorem stepIncomplete_dense (v : List Int) (e a : Nat) (he : e < v.length)
    (h : Dense v) : Dense (stepIncomplete v e a) := by
  unfold stepIncomplete
  split
  · rename_i hneg
    have : v.getD e 0 = -1 := by
      have := h.1 _ (getD_mem v e he); omega
    split
    · exact putFirst_dense v e he this h
    · exact h
  · rename_i hr
    have hr : 0 ≤ v.getD e 0 := by omega
    repeat' split
    · exact addLeft_dense v e he hr h
    · exact addRight_dense v e he hr h
    · exact changeLeft_dense v e he hr h
    · exact changeRight_dense v e he hr h
    · exact removeElem_dense v e he hr h
    · exact h

theorem step_dense (complete : Bool) (v : List Int) (e alea : Nat) (he : e < v.length) (h : Dense v)
    (hc : complete = true → ∀ x ∈ v, 0 ≤ x) :
    Dense (if complete then stepComplete v e alea else stepIncomplete v e alea) := by
  cases complete with
  | true => exact stepComplete_dense v e alea he (hc rfl _ (getD_mem v e he)) h
  | false => exact stepIncomplete_dense v e alea he h

theorem walk_dense (complete : Bool) (draws : List (Nat × Nat)) : ∀ (v : List Int)
    (_hd : ∀ d ∈ draws, d.1 < v.length) (_h : Dense v) (_hc : complete = true → ∀ x ∈ v, 0 ≤ x),
    Dense (walk complete v draws) ∧ (walk complete v draws).length = v.length ∧
    (complete = true → ∀ x ∈ walk complete v draws, 0 ≤ x) := by
  induction draws with
  | nil => intro v _ h hc; exact ⟨h, rfl, hc⟩
  | cons d ds ih =>
    intro v hd h hc
    have hd1 : d.1 < v.length := hd d (by simp)
    have hlen : (if complete then stepComplete v d.1 d.2 else stepIncomplete v d.1 d.2).length = v.length := by
      cases complete <;> simp
    have := ih (if complete then stepComplete v d.1 d.2 else stepIncomplete v d.1 d.2)
      (by intro d' hd'; rw [hlen]; exact hd d' (by simp [hd']))
      (step_dense complete v d.1 d.2 hd1 h hc)
      (by intro hct; subst hct; simpa using stepComplete_nonneg v d.1 d.2 hd1 (hc rfl))
    simp only [walk, List.foldl_cons] at this ⊢
    rw [hlen] at this
    exact this


/-! ### `vmax` -/

theorem vmax_cons_cons (x y : Int) (ys : List Int) : vmax (x :: y :: ys) = max x (vmax (y :: ys)) := rfl

theorem le_vmax : ∀ (v : List Int), ∀ x ∈ v, x ≤ vmax v
  | [], x, hx => by simp at hx
  | [a], x, hx => by simp at hx; simp [vmax, hx]
  | a :: b :: bs, x, hx => by
    rw [vmax_cons_cons]
    rcases List.mem_cons.mp hx with h | h
    · omega
    · have := le_vmax (b :: bs) x h; omega

theorem vmax_mem : ∀ (v : List Int), v ≠ [] → vmax v ∈ v
  | [], h => absurd rfl h
  | [a], _ => by simp [vmax]
  | a :: b :: bs, _ => by
    rw [vmax_cons_cons]
    have := vmax_mem (b :: bs) (by simp)
    by_cases h : a ≤ vmax (b :: bs)
    · rw [Int.max_eq_right h]; exact List.mem_cons_of_mem _ this
    · rw [Int.max_eq_left (by omega)]; simp

/-! ### conversion -/

/-- bucket `i` of the conversion -/
def bucketOf (v : List Int) (i : Nat) : List Nat :=
  (List.range v.length).filter fun e => v.getD e 0 == Int.ofNat i

theorem mem_bucketOf {v : List Int} {i e : Nat} :
    e ∈ bucketOf v i ↔ e < v.length ∧ v.getD e 0 = Int.ofNat i := by
  simp [bucketOf]

theorem toRanking_eq (v : List Int) :
    toRanking v = if (vmax v + 1).toNat > 0 then some ((List.range (vmax v + 1).toNat).map (bucketOf v)) else none :=
  rfl

theorem nodup_flatten_map_range (g : Nat → List Nat) (key : Nat → Nat) (h1 : ∀ i, (g i).Nodup)
    (h2 : ∀ i, ∀ e ∈ g i, key e = i) (n : Nat) : ((List.range n).map g).flatten.Nodup := by
  induction n with
  | zero => simp
  | succ n ih =>
    rw [List.range_succ, List.map_append, List.flatten_append, List.nodup_append]
    refine ⟨ih, by simpa using h1 n, ?_⟩
    intro a ha b hb hab
    subst hab
    simp only [List.mem_flatten, List.mem_map, List.mem_range] at ha
    obtain ⟨l, ⟨i, hi, rfl⟩, ha⟩ := ha
    simp only [List.map_cons, List.map_nil, List.flatten_cons, List.flatten_nil, List.append_nil] at hb
    have := h2 i a ha
    have := h2 n a hb
    omega

theorem mem_flatten_buckets {v : List Int} {nb e : Nat} :
    e ∈ ((List.range nb).map (bucketOf v)).flatten ↔
      e < v.length ∧ 0 ≤ v.getD e 0 ∧ v.getD e 0 < nb := by
  simp only [List.mem_flatten, List.mem_map, List.mem_range]
  constructor
  · rintro ⟨l, ⟨i, hi, rfl⟩, he⟩
    rw [mem_bucketOf] at he
    refine ⟨he.1, ?_, ?_⟩
    · rw [he.2]; exact Int.natCast_nonneg i
    · rw [he.2]; exact Int.ofNat_lt.mpr hi
  · rintro ⟨h1, h2, h3⟩
    refine ⟨_, ⟨(v.getD e 0).toNat, by omega, rfl⟩, ?_⟩
    rw [mem_bucketOf]
    refine ⟨h1, ?_⟩
    show v.getD e 0 = ((v.getD e 0).toNat : Int)
    omega

theorem mem_iff_getD {v : List Int} {x : Int} : x ∈ v ↔ ∃ e, e < v.length ∧ v.getD e 0 = x := by
  rw [List.mem_iff_getElem]
  constructor
  · rintro ⟨i, hi, rfl⟩; exact ⟨i, hi, getD_of_lt v i 0 hi⟩
  · rintro ⟨i, hi, rfl⟩; exact ⟨i, hi, (getD_of_lt v i 0 hi).symm⟩

theorem convert (v : List Int) (h : Dense v) (r : Ranking) (hr : toRanking v = some r) :
    Spec.validRanking v.length r = true ∧ ∀ e, e ∈ r.flatten ↔ (e < v.length ∧ 0 ≤ v.getD e 0) := by
  rw [toRanking_eq] at hr
  split at hr
  · rename_i hnb
    simp only [Option.some.injEq] at hr
    subst hr
    have hne : v ≠ [] := by
      intro e; subst e; simp [vmax] at hnb
    have hmem := vmax_mem v hne
    refine ⟨?_, ?_⟩
    · unfold Spec.validRanking
      simp only [Bool.and_eq_true, List.all_eq_true, decide_eq_true_eq]
      refine ⟨⟨?_, ?_⟩, ?_⟩
      · intro b hb
        simp only [List.mem_map, List.mem_range] at hb
        obtain ⟨i, hi, rfl⟩ := hb
        have : (Int.ofNat i) ∈ v := by
          by_cases hiv : (Int.ofNat i) = vmax v
          · rw [hiv]; exact hmem
          · exact h.2 _ hmem _ (Int.natCast_nonneg i) (by
              have : ((i : Nat) : Int) = Int.ofNat i := rfl
              omega)
        obtain ⟨e, he, hev⟩ := mem_iff_getD.mp this
        have : e ∈ bucketOf v i := mem_bucketOf.mpr ⟨he, hev⟩
        cases hb : bucketOf v i with
        | nil => rw [hb] at this; simp at this
        | cons _ _ => rfl
      · intro e he
        have := (mem_flatten_buckets.mp he).1
        simpa using this
      · apply nodup_flatten_map_range (bucketOf v) (fun e => (v.getD e 0).toNat)
        · intro i
          exact List.Nodup.sublist List.filter_sublist List.nodup_range
        · intro i e he
          rw [mem_bucketOf] at he
          show (v.getD e 0).toNat = i
          rw [he.2]; rfl
    · intro e
      rw [mem_flatten_buckets]
      constructor
      · rintro ⟨h1, h2, _⟩; exact ⟨h1, h2⟩
      · rintro ⟨h1, h2⟩
        refine ⟨h1, h2, ?_⟩
        have := le_vmax v _ (getD_mem v e h1)
        omega
  · simp at hr

theorem convert_none (v : List Int) (h : Dense v) : toRanking v = none ↔ ∀ x ∈ v, x = -1 := by
  rw [toRanking_eq]
  constructor
  · intro hn x hx
    split at hn
    · simp at hn
    · have := le_vmax v x hx
      have := h.1 x hx
      omega
  · intro hall
    rw [if_neg]
    by_cases hne : v = []
    · subst hne; simp [vmax]
    · have := hall _ (vmax_mem v hne)
      omega

theorem toRanking_isSome (v : List Int) (hne : v ≠ []) (hc : ∀ x ∈ v, 0 ≤ x) :
    ∃ r, toRanking v = some r := by
  rw [toRanking_eq, if_pos]
  · exact ⟨_, rfl⟩
  · have := hc _ (vmax_mem v hne); omega

theorem init_dense (n : Nat) : Dense ((List.range n).map fun (i : Nat) => Int.ofNat i) := by
  refine ⟨?_, ?_⟩
  · intro x hx
    simp only [List.mem_map, List.mem_range] at hx
    obtain ⟨i, _, rfl⟩ := hx
    have := Int.natCast_nonneg i
    show -1 ≤ (i : Int)
    omega
  · intro x hx b hb0 hbx
    simp only [List.mem_map, List.mem_range] at hx ⊢
    obtain ⟨i, hi, rfl⟩ := hx
    refine ⟨b.toNat, ?_, ?_⟩
    · have : b < (i : Int) := hbx
      omega
    · show (b.toNat : Int) = b
      omega

theorem init_nonneg (n : Nat) : ∀ x ∈ (List.range n).map fun (i : Nat) => Int.ofNat i, 0 ≤ x := by
  intro x hx
  simp only [List.mem_map, List.mem_range] at hx
  obtain ⟨i, _, rfl⟩ := hx
  exact Int.natCast_nonneg i

theorem length_of_nodup_mem_iff {l : List Nat} {n : Nat} (hnd : l.Nodup) (h : ∀ e, e ∈ l ↔ e < n) :
    l.length = n := by
  have : l.Perm (List.range n) :=
    (List.perm_ext_iff_of_nodup hnd List.nodup_range).mpr (by simpa using h)
  simpa using this.length_eq


theorem length_filterMap_of_isSome {α β : Type} (f : α → Option β) (l : List α)
    (h : ∀ a ∈ l, ∃ b, f a = some b) : (l.filterMap f).length = l.length := by
  induction l with
  | nil => rfl
  | cons a as ih =>
    obtain ⟨b, hb⟩ := h a (by simp)
    rw [List.filterMap_cons_some hb, List.length_cons, List.length_cons,
      ih (fun a' ha' => h a' (by simp [ha']))]

theorem validRanking_nodup {n : Nat} {r : Ranking} (h : Spec.validRanking n r = true) : r.flatten.Nodup := by
  unfold Spec.validRanking at h
  simp only [Bool.and_eq_true, decide_eq_true_eq] at h
  exact h.2

theorem generate_holds (n : Nat) (hn : 0 < n) (complete : Bool) (draws : List (List (Nat × Nat)))
    (hd : ∀ ds ∈ draws, ∀ d ∈ ds, d.1 < n) :
    Spec.C20.holds n draws.length complete (generate n complete draws) = true := by
  let v0 : List Int := (List.range n).map fun (i : Nat) => Int.ofNat i
  have hv0 : v0.length = n := by simp [v0]
  have hw : ∀ ds ∈ draws, Dense (walk complete v0 ds) ∧ (walk complete v0 ds).length = n ∧
      (complete = true → ∀ x ∈ walk complete v0 ds, 0 ≤ x) := by
    intro ds hds
    have := walk_dense complete ds v0 (by rw [hv0]; exact hd ds hds) (init_dense n)
      (fun _ => init_nonneg n)
    rw [hv0] at this
    exact this
  have hvalid : ∀ ds ∈ draws, ∀ r, toRanking (walk complete v0 ds) = some r →
      Spec.validRanking n r = true ∧ (complete = true → r.flatten.length = n) := by
    intro ds hds r hr
    obtain ⟨h1, h2, h3⟩ := hw ds hds
    obtain ⟨c1, c2⟩ := convert _ h1 r hr
    rw [h2] at c1 c2
    refine ⟨c1, fun hc => length_of_nodup_mem_iff (validRanking_nodup c1) ?_⟩
    intro e
    rw [c2]
    constructor
    · exact fun h => h.1
    · intro he
      exact ⟨he, h3 hc _ (getD_mem _ e (by omega))⟩
  unfold Spec.C20.holds generate
  simp only [Bool.and_eq_true, Bool.or_eq_true, Bool.not_eq_true', List.all_eq_true, beq_iff_eq,
    List.mem_filterMap, forall_exists_index, and_imp]
  refine ⟨fun r ds hds hr => (hvalid ds hds r hr).1, ?_⟩
  cases hc : complete with
  | false => exact Or.inl rfl
  | true =>
    subst hc
    refine Or.inr ⟨?_, fun r ds hds hr => (hvalid ds hds r hr).2 rfl⟩
    apply length_filterMap_of_isSome
    intro ds hds
    obtain ⟨_, h2, h3⟩ := hw ds hds
    apply toRanking_isSome
    · intro e; rw [e] at h2; simp at h2; omega
    · exact h3 rfl


/-! ### bridge with the executable `Spec.denseB` (used by the differential check) -/

theorem dense_iff_denseB (v : List Int) : Dense v ↔ Spec.denseB v = true := by
  unfold Dense Spec.denseB
  simp only [Bool.and_eq_true, List.all_eq_true, decide_eq_true_eq, List.mem_range, List.contains_iff_mem]
  constructor
  · rintro ⟨h1, h2⟩
    refine ⟨h1, ?_⟩
    intro x hx b hb
    apply h2 x hx
    · exact Int.natCast_nonneg b
    · show (b : Int) < x
      omega
  · rintro ⟨h1, h2⟩
    refine ⟨h1, ?_⟩
    intro x hx b hb0 hbx
    have := h2 x hx b.toNat (by omega)
    have e : Int.ofNat b.toNat = b := by
      show (b.toNat : Int) = b
      omega
    rwa [e] at this

instance (v : List Int) : Decidable (Dense v) := decidable_of_iff _ (dense_iff_denseB v).symm

end Corankco
