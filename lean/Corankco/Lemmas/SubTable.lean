import Corankco.Lemmas.C02
import Corankco.Lemmas.PartSum
/-
  Helpers for C06e: the dataset projected on a set of kept elements (`projectKeepAll`) has its own id numbering
  (`univOf` of the projected dataset); its universe is the kept set, its cost table is the restriction of the table of
  the whole dataset through the two numberings, and a key vector over the big id space restricts to one over the small
  id space with the same score on the kept ids.
-/
namespace Corankco
open Model Spec
namespace SubTable

/-! ### `indexOf?` -/

theorem indexOf?_getElem? {x : Nat} {l : List Nat} {i : Nat} (h : indexOf? x l = some i) : l[i]? = some x := by
  induction l generalizing i with
  | nil => simp [indexOf?] at h
  | cons y ys ih =>
    unfold indexOf? at h
    by_cases e : x = y
    · simp only [e, if_true, Option.some.injEq] at h
      subst h
      simp [e]
    · simp only [e, if_false, Option.map_eq_some_iff] at h
      obtain ⟨k, hk, rfl⟩ := h
      simpa using ih hk

theorem indexOf?_lt {x : Nat} {l : List Nat} {i : Nat} (h : indexOf? x l = some i) : i < l.length := by
  have := indexOf?_getElem? h
  exact (List.getElem?_eq_some_iff.mp this).1

theorem indexOf?_getElem {x : Nat} {l : List Nat} {i : Nat} (h : indexOf? x l = some i) :
    l[i]'(indexOf?_lt h) = x :=
  (List.getElem?_eq_some_iff.mp (indexOf?_getElem? h)).2

theorem indexOf?_mem {x : Nat} {l : List Nat} {i : Nat} (h : indexOf? x l = some i) : x ∈ l :=
  List.mem_of_getElem? (indexOf?_getElem? h)

theorem indexOf?_of_mem {x : Nat} {l : List Nat} (h : x ∈ l) : ∃ i, indexOf? x l = some i := by
  induction l with
  | nil => simp at h
  | cons y ys ih =>
    unfold indexOf?
    by_cases e : x = y
    · exact ⟨0, by simp [e]⟩
    · have hx : x ∈ ys := by
        rcases List.mem_cons.mp h with h | h
        · exact absurd h e
        · exact h
      obtain ⟨k, hk⟩ := ih hx
      exact ⟨k + 1, by simp [e, hk]⟩

/-- in a list without repetition the index of the `i`-th entry is `i`. -/
theorem indexOf?_getElem_nodup {l : List Nat} (hn : l.Nodup) (i : Nat) (hi : i < l.length) :
    indexOf? l[i] l = some i := by
  obtain ⟨k, hk⟩ := indexOf?_of_mem (List.getElem_mem hi)
  have hkl := indexOf?_lt hk
  have he := indexOf?_getElem hk
  by_cases e : k = i
  · rw [hk, e]
  · exact absurd he (nodup_getElem_ne hn hkl hi e)

/-- id of `x` in `l` (0 when absent). -/
def idx (l : List Nat) (x : Nat) : Nat := (indexOf? x l).getD 0

theorem indexOf?_eq_idx {x : Nat} {l : List Nat} (h : x ∈ l) : indexOf? x l = some (idx l x) := by
  obtain ⟨i, hi⟩ := indexOf?_of_mem h
  simp [idx, hi]

theorem idx_lt {x : Nat} {l : List Nat} (h : x ∈ l) : idx l x < l.length := indexOf?_lt (indexOf?_eq_idx h)

theorem getElem_idx {x : Nat} {l : List Nat} (h : x ∈ l) : l[idx l x]'(idx_lt h) = x :=
  indexOf?_getElem (indexOf?_eq_idx h)

theorem filterMap_indexOf? (keep l : List Nat) (hk : ∀ x ∈ keep, x ∈ l) :
    (keep.filterMap fun x => indexOf? x l) = keep.map (idx l) := by
  induction keep with
  | nil => rfl
  | cons a as ih =>
    rw [List.filterMap_cons, indexOf?_eq_idx (hk a (by simp)), List.map_cons,
      ih (fun x hx => hk x (by simp [hx]))]

/-! ### the universe of the projected dataset -/

theorem mem_projR_keep (keep : List Elem) (r : Ranking) (x : Elem) (h : x ∈ (PartSum.projR keep r).flatten) :
    x ∈ keep := by
  obtain ⟨b, hb, hxb⟩ := List.mem_flatten.mp h
  unfold PartSum.projR at hb
  obtain ⟨b0, _, rfl⟩ := List.mem_map.mp (List.mem_filter.mp hb).1
  have := (List.mem_filter.mp hxb).2
  simpa using this

theorem mem_univOf_project (D : Dataset) (keep : List Elem) (hk : ∀ x ∈ keep, x ∈ univOf D) (x : Elem) :
    x ∈ univOf (projectKeepAll D keep) ↔ x ∈ keep := by
  unfold univOf
  rw [mem_dedup, PartSum.projectKeepAll_eq]
  constructor
  · intro h
    obtain ⟨b, hb, hxb⟩ := List.mem_flatten.mp h
    obtain ⟨r', hr', hbr⟩ := List.mem_flatten.mp hb
    have hx : x ∈ r'.flatten := List.mem_flatten.mpr ⟨b, hbr, hxb⟩
    obtain ⟨r, _, rfl⟩ := List.mem_map.mp hr'
    exact mem_projR_keep keep r x hx
  · intro h
    have hu := hk x h
    unfold univOf at hu
    rw [mem_dedup] at hu
    obtain ⟨b, hb, hxb⟩ := List.mem_flatten.mp hu
    obtain ⟨r, hr, hbr⟩ := List.mem_flatten.mp hb
    have hxr : x ∈ r.flatten := List.mem_flatten.mpr ⟨b, hbr, hxb⟩
    have hxp := (PartSum.mem_projR_flatten keep r x h).mpr hxr
    obtain ⟨b', hb', hxb'⟩ := List.mem_flatten.mp hxp
    exact List.mem_flatten.mpr ⟨b', List.mem_flatten.mpr ⟨_, List.mem_map.mpr ⟨r, hr, rfl⟩, hb'⟩, hxb'⟩

/-- the universe of the projected dataset is a permutation of the kept list. -/
theorem univOf_project_perm (D : Dataset) (keep : List Elem) (hkn : keep.Nodup)
    (hk : ∀ x ∈ keep, x ∈ univOf D) : (univOf (projectKeepAll D keep)).Perm keep :=
  (List.perm_ext_iff_of_nodup (univOf_nodup _) hkn).mpr (mem_univOf_project D keep hk)

/-! ### the table of the projected dataset -/

theorem projection_costs (S : Scheme) (D : Dataset) (keep : List Elem) (x y : Elem) (hx : x ∈ keep) (hy : y ∈ keep) :
    Spec.before S (projectKeepAll D keep) x y = Spec.before S D x y ∧
    Spec.after S (projectKeepAll D keep) x y = Spec.after S D x y ∧
    Spec.tied S (projectKeepAll D keep) x y = Spec.tied S D x y := by
  simp only [Spec.before, Spec.after, Spec.tied, PartSum.projectKeepAll_eq, List.map_map, Function.comp_def,
    PartSum.status_projR keep _ x y hx hy, PartSum.status_projR keep _ y x hy hx, and_self]

/-- entry of the sub-table through the two numberings (needs only `t0 = t1`, `t3 = t4` of the scheme). -/
theorem subtable_get (S : Scheme) (h01 : S.t0 = S.t1) (h34 : S.t3 = S.t4) (D : Dataset) (keep : List Elem)
    (x y : Elem) (hx : x ∈ keep) (hy : y ∈ keep) (i j i' j' : Nat)
    (hi : indexOf? x (univOf D) = some i) (hj : indexOf? y (univOf D) = some j)
    (hi' : indexOf? x (univOf (projectKeepAll D keep)) = some i')
    (hj' : indexOf? y (univOf (projectKeepAll D keep)) = some j') :
    (costMatrix S (getPositions (projectKeepAll D keep))).get i' j' = (costMatrix S (getPositions D)).get i j := by
  have e1 : costMatrix S (getPositions D) = specTable S D :=
    costMatrix_rankFn_eq_specTable rankFn_posIn S h01 h34 D
  have e2 : costMatrix S (getPositions (projectKeepAll D keep)) = specTable S (projectKeepAll D keep) :=
    costMatrix_rankFn_eq_specTable rankFn_posIn S h01 h34 _
  rw [e1, e2, specTable_get S D i j (indexOf?_lt hi) (indexOf?_lt hj),
    specTable_get S _ i' j' (indexOf?_lt hi') (indexOf?_lt hj'),
    indexOf?_getElem hi, indexOf?_getElem hj, indexOf?_getElem hi', indexOf?_getElem hj']
  obtain ⟨p1, p2, p3⟩ := projection_costs S D keep x y hx hy
  rw [p1, p2, p3]

/-! ### restriction of a key vector to the sub-ids -/

/-- key vector over the ids of `U'` read off a key vector over the ids of `U`: `w'[i'] := w[i]`. -/
def restr (U U' : List Elem) (w : List Int) : List Int := U'.map fun x => w.getD (idx U x) 0

@[simp] theorem restr_length (U U' : List Elem) (w : List Int) : (restr U U' w).length = U'.length := by
  simp [restr]

theorem restr_vecOf (U U' : List Elem) (hsub : ∀ x ∈ U', x ∈ U) (c : Ranking) :
    restr U U' (vecOf U c) = vecOf U' c := by
  unfold restr vecOf
  apply List.map_congr_left
  intro x hx
  have hxu := hsub x hx
  rw [getD_map_of_lt _ _ _ _ (idx_lt hxu), getElem_idx hxu]

theorem mirror_costMatrix (S : Scheme) (D : Dataset) :
    MirrorT (costMatrix S (getPositions D)) (univOf D).length := by
  intro i j hi hj
  have hl : (getPositions D).length = (univOf D).length := by simp [getPositions]
  unfold Table.bef Table.aft Table.tie Table.get costMatrix
  rw [getD_range_map _ _ _ _ (by omega), getD_range_map _ _ _ _ (by omega),
      getD_range_map _ _ _ _ (by omega), getD_range_map _ _ _ _ (by omega)]
  rcases Nat.lt_trichotomy i j with h | h | h
  · have h' : ¬ j < i := by omega
    simp [h, h', Cost.swap]
  · subst h; simp
  · have h' : ¬ i < j := by omega
    simp [h, h', Cost.swap]

/-- the score of the restricted key vector in the sub-table is the score of the key vector on the kept ids. -/
theorem scoreVec_restr (S : Scheme) (h01 : S.t0 = S.t1) (h34 : S.t3 = S.t4) (D : Dataset) (keep : List Elem)
    (hkn : keep.Nodup) (hk : ∀ x ∈ keep, x ∈ univOf D) (w : List Int) :
    scoreVec (costMatrix S (getPositions (projectKeepAll D keep)))
        (restr (univOf D) (univOf (projectKeepAll D keep)) w) =
      scoreIds (costMatrix S (getPositions D)) (keep.filterMap fun x => indexOf? x (univOf D)) w := by
  have hkeep : ∀ x ∈ univOf (projectKeepAll D keep), x ∈ keep :=
    fun x hx => (mem_univOf_project D keep hk x).mp hx
  have hsub : ∀ x ∈ univOf (projectKeepAll D keep), x ∈ univOf D := fun x hx => hk x (hkeep x hx)
  have hnd' := univOf_nodup (projectKeepAll D keep)
  rw [filterMap_indexOf? keep _ hk]
  unfold scoreVec
  rw [restr_length]
  rw [isum_pairs_range (univOf (projectKeepAll D keep)) 0 _
    (fun x y => sel (costMatrix S (getPositions D)) w (idx (univOf D) x) (idx (univOf D) y)) ?h]
  case h =>
    intro i j hi hj _
    have mi := List.getElem_mem hi
    have mj := List.getElem_mem hj
    have e := subtable_get S h01 h34 D keep _ _ (hkeep _ mi) (hkeep _ mj) _ _ i j
      (indexOf?_eq_idx (hsub _ mi)) (indexOf?_eq_idx (hsub _ mj))
      (indexOf?_getElem_nodup hnd' i hi) (indexOf?_getElem_nodup hnd' j hj)
    unfold sel Table.bef Table.aft Table.tie restr
    rw [e, getD_map_of_lt _ _ _ _ hi, getD_map_of_lt _ _ _ _ hj]
  have hperm := (univOf_project_perm D keep hkn hk).map (idx (univOf D))
  have := PartSum.psum_perm_lt (sel (costMatrix S (getPositions D)) w) (univOf D).length
    (fun i j hi hj => PartSum.sel_symm _ _ (mirror_costMatrix S D) w i j hi hj) hperm
    (fun i hi => by
      obtain ⟨x, hx, rfl⟩ := List.mem_map.mp hi
      exact idx_lt (hsub x hx))
  unfold PartSum.psum at this
  rw [pairs_map, List.map_map] at this
  exact this

end SubTable
end Corankco
