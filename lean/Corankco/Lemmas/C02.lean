import Corankco.Lemmas.Basic
import Corankco.Spec.C02
/-
  Helper lemmas for the C02 property theorems.
-/
namespace Corankco
open Model Spec

/-! ### Rank functions: `posIn` and `bidIn` order elements like `bucketIdx` -/

/-- A function `p r x` that is `-1` on unranked elements, non-negative on ranked ones and
    compares two ranked elements like the indices of their (first) buckets. -/
structure RankFn (p : Ranking → Elem → Int) : Prop where
  none : ∀ r x, bucketIdx r x = none → p r x = -1
  nonneg : ∀ r x i, bucketIdx r x = some i → 0 ≤ p r x
  lt : ∀ r x y i j, bucketIdx r x = some i → bucketIdx r y = some j → i < j → p r x < p r y
  eq : ∀ r x y i, bucketIdx r x = some i → bucketIdx r y = some i → p r x = p r y

theorem bidIn_of_none {r : Ranking} {x : Elem} (h : bucketIdx r x = none) : bidIn r x = -1 := by
  induction r with
  | nil => rfl
  | cons b bs ih =>
    unfold bucketIdx at h
    unfold bidIn
    by_cases hx : x ∈ b
    · simp [hx] at h
    · cases hb : bucketIdx bs x with
      | none => simp [hx, ih hb]
      | some k => simp [hx, hb] at h

theorem bidIn_of_some {r : Ranking} {x : Elem} {i : Nat} (h : bucketIdx r x = some i) :
    bidIn r x = (i : Int) := by
  induction r generalizing i with
  | nil => simp [bucketIdx] at h
  | cons b bs ih =>
    unfold bucketIdx at h
    unfold bidIn
    by_cases hx : x ∈ b
    · simp [hx] at h
      simp [hx, ← h]
    · cases hb : bucketIdx bs x with
      | none => simp [hx, hb] at h
      | some k =>
        simp [hx, hb] at h
        have := ih hb
        simp only [hx, if_false, this]
        have hk : ¬ ((k : Int) < 0) := by omega
        simp only [hk, if_false]
        omega

theorem posIn_of_none {r : Ranking} {x : Elem} (h : bucketIdx r x = none) : posIn r x = -1 := by
  induction r with
  | nil => rfl
  | cons b bs ih =>
    unfold bucketIdx at h
    unfold posIn
    by_cases hx : x ∈ b
    · simp [hx] at h
    · cases hb : bucketIdx bs x with
      | none => simp [hx, ih hb]
      | some k => simp [hx, hb] at h

theorem posIn_nonneg {r : Ranking} {x : Elem} {i : Nat} (h : bucketIdx r x = some i) :
    0 ≤ posIn r x := by
  induction r generalizing i with
  | nil => simp [bucketIdx] at h
  | cons b bs ih =>
    unfold bucketIdx at h
    unfold posIn
    by_cases hx : x ∈ b
    · simp [hx]
    · cases hb : bucketIdx bs x with
      | none => simp [hx, hb] at h
      | some k =>
        have := ih hb
        have hk : ¬ (posIn bs x < 0) := by omega
        simp only [hx, if_false, hk]
        omega

theorem posIn_cons_of_not_mem {b : Bucket} {bs : Ranking} {x : Elem} {k : Nat}
    (hx : x ∉ b) (hb : bucketIdx bs x = some k) :
    posIn (b :: bs) x = posIn bs x + b.length := by
  have := posIn_nonneg hb
  have hk : ¬ (posIn bs x < 0) := by omega
  simp [posIn, hx, hk]

theorem posIn_lt {r : Ranking} {x y : Elem} {i j : Nat}
    (hx : bucketIdx r x = some i) (hy : bucketIdx r y = some j) (hij : i < j) :
    posIn r x < posIn r y := by
  induction r generalizing i j with
  | nil => simp [bucketIdx] at hx
  | cons b bs ih =>
    unfold bucketIdx at hx hy
    by_cases mx : x ∈ b <;> by_cases my : y ∈ b
    · simp [my] at hy; omega
    · cases hb : bucketIdx bs y with
      | none => simp [my, hb] at hy
      | some k =>
        rw [posIn_cons_of_not_mem my hb]
        have h0 := posIn_nonneg hb
        have hl := List.length_pos_of_mem mx
        simp [posIn, mx]
        omega
    · simp [my] at hy; omega
    · cases hbx : bucketIdx bs x with
      | none => simp [mx, hbx] at hx
      | some k =>
        cases hby : bucketIdx bs y with
        | none => simp [my, hby] at hy
        | some k' =>
          simp [mx, hbx] at hx
          simp [my, hby] at hy
          rw [posIn_cons_of_not_mem mx hbx, posIn_cons_of_not_mem my hby]
          have := ih hbx hby (by omega)
          omega

theorem posIn_eq {r : Ranking} {x y : Elem} {i : Nat}
    (hx : bucketIdx r x = some i) (hy : bucketIdx r y = some i) :
    posIn r x = posIn r y := by
  induction r generalizing i with
  | nil => simp [bucketIdx] at hx
  | cons b bs ih =>
    unfold bucketIdx at hx hy
    by_cases mx : x ∈ b <;> by_cases my : y ∈ b
    · simp [posIn, mx, my]
    · cases hb : bucketIdx bs y with
      | none => simp [my, hb] at hy
      | some k => simp [mx] at hx; simp [my, hb] at hy; omega
    · cases hb : bucketIdx bs x with
      | none => simp [mx, hb] at hx
      | some k => simp [my] at hy; simp [mx, hb] at hx; omega
    · cases hbx : bucketIdx bs x with
      | none => simp [mx, hbx] at hx
      | some k =>
        cases hby : bucketIdx bs y with
        | none => simp [my, hby] at hy
        | some k' =>
          simp [mx, hbx] at hx
          simp [my, hby] at hy
          have hk : k = k' := by omega
          subst hk
          rw [posIn_cons_of_not_mem mx hbx, posIn_cons_of_not_mem my hby, ih hbx hby]

theorem rankFn_posIn : RankFn posIn :=
  ⟨fun _ _ h => posIn_of_none h, fun _ _ _ h => posIn_nonneg h,
   fun _ _ _ _ _ hx hy h => posIn_lt hx hy h, fun _ _ _ _ hx hy => posIn_eq hx hy⟩

theorem rankFn_bidIn : RankFn bidIn := by
  refine ⟨fun _ _ h => bidIn_of_none h, ?_, ?_, ?_⟩
  · intro r x i h; rw [bidIn_of_some h]; omega
  · intro r x y i j hx hy h; rw [bidIn_of_some hx, bidIn_of_some hy]; omega
  · intro r x y i hx hy; rw [bidIn_of_some hx, bidIn_of_some hy]

/-! ### One step / one pair of rows of the cost matrix -/

/-- The six-way case analysis of the code on the two rank values of a pair is the
    status-indexed lookup of the definition (for every scheme). -/
theorem stepCost_rankFn {p : Ranking → Elem → Int} (hp : RankFn p) (S : Scheme) (r : Ranking) (x y : Elem) :
    stepCost S (p r x) (p r y) = (S.B (status r x y), S.B (status r y x), S.T (status r x y)) := by
  unfold stepCost status
  cases hx : bucketIdx r x with
  | none =>
    cases hy : bucketIdx r y with
    | none =>
      simp [hp.none r x hx, hp.none r y hy, Scheme.B, Scheme.T]
    | some j =>
      have h2 := hp.nonneg r y j hy
      have h2' : p r y ≠ -1 := by omega
      simp [hp.none r x hx, h2', Scheme.B, Scheme.T]
  | some i =>
    have h1 := hp.nonneg r x i hx
    have h1' : p r x ≠ -1 := by omega
    cases hy : bucketIdx r y with
    | none =>
      simp [hp.none r y hy, h1', Scheme.B, Scheme.T]
    | some j =>
      have h2 := hp.nonneg r y j hy
      have h2' : p r y ≠ -1 := by omega
      rcases Nat.lt_trichotomy i j with h | h | h
      · have hl := hp.lt r x y i j hx hy h
        have hn : ¬ j < i := by omega
        simp [h1', h2', hl, h, hn, Scheme.B, Scheme.T]
      · subst h
        have he := hp.eq r x y i hx hy
        simp [h2', he, Scheme.B, Scheme.T]
      · have hl := hp.lt r y x j i hy hx h
        have hn : ¬ i < j := by omega
        have hn' : ¬ p r x < p r y := by omega
        simp [h1', h2', hl, h, hn, hn', Scheme.B, Scheme.T]

theorem pairCost_rankFn {p : Ranking → Elem → Int} (hp : RankFn p) (S : Scheme) (D : Dataset) (x y : Elem) :
    pairCost S (D.map fun r => p r x) (D.map fun r => p r y) =
      (before S D x y, after S D x y, tied S D x y) := by
  induction D with
  | nil => rfl
  | cons r rs ih =>
    simp only [List.map_cons, pairCost, ih, stepCost_rankFn hp]
    rfl

/-- Swapping the two elements of a pair exchanges statuses 0/1 and 3/4; `T` is blind to that
    when `t0 = t1` and `t3 = t4` (part of `Scheme.Valid`). -/
theorem T_status_swap (S : Scheme) (h01 : S.t0 = S.t1) (h34 : S.t3 = S.t4) (r : Ranking) (x y : Elem) :
    S.T (status r x y) = S.T (status r y x) := by
  unfold status
  cases hx : bucketIdx r x <;> cases hy : bucketIdx r y
  · rfl
  · simp [Scheme.T, h34]
  · simp [Scheme.T, h34]
  · rename_i i j
    rcases Nat.lt_trichotomy i j with h | h | h
    · have hn : ¬ j < i := by omega
      simp [h, hn, Scheme.T, h01]
    · subst h; simp
    · have hn : ¬ i < j := by omega
      simp [h, hn, Scheme.T, h01]

theorem tied_swap (S : Scheme) (h01 : S.t0 = S.t1) (h34 : S.t3 = S.t4) (D : Dataset) (x y : Elem) :
    tied S D x y = tied S D y x := by
  unfold tied
  exact isum_map_congr (fun r _ => T_status_swap S h01 h34 r x y)

/-! ### The whole table -/

/-- The table built from any rank-function matrix is the table of the definition, provided `T` is
    symmetric (`t0 = t1`, `t3 = t4`): the lower triangle of the code is mirrored from the upper one,
    so its `tied` entry is `tied y x`, not `tied x y`. -/
theorem costMatrix_rankFn_eq_specTable {p : Ranking → Elem → Int} (hp : RankFn p)
    (S : Scheme) (h01 : S.t0 = S.t1) (h34 : S.t3 = S.t4) (D : Dataset) :
    costMatrix S ((univOf D).map fun x => D.map fun r => p r x) = specTable S D := by
  unfold costMatrix specTable
  apply List.ext_getElem
  · simp
  · intro i h1 h2
    have hi : i < (univOf D).length := by simpa using h2
    simp only [List.getElem_map, List.getElem_range, List.length_map]
    apply List.ext_getElem
    · simp
    · intro j h3 h4
      have hj : j < (univOf D).length := by simpa using h4
      simp only [List.getElem_map, List.getElem_range]
      rw [getD_map_of_lt _ _ _ _ hi, getD_map_of_lt _ _ _ _ hj, pairCost_rankFn hp, pairCost_rankFn hp]
      rcases Nat.lt_trichotomy i j with h | h | h
      · have hne := nodup_getElem_ne (univOf_nodup D) hi hj (by omega)
        simp [h, hne]
      · subst h; simp
      · have hne := nodup_getElem_ne (univOf_nodup D) hi hj (by omega)
        have hn : ¬ i < j := by omega
        simp only [hn, h, if_true, if_false, hne, Cost.swap]
        rw [tied_swap S h01 h34 D (univOf D)[j] (univOf D)[i]]
        rfl

/-- Two rank functions give the same table (for every scheme). -/
theorem costMatrix_rankFn_congr {p q : Ranking → Elem → Int} (hp : RankFn p) (hq : RankFn q)
    (S : Scheme) (D : Dataset) :
    costMatrix S ((univOf D).map fun x => D.map fun r => p r x) =
      costMatrix S ((univOf D).map fun x => D.map fun r => q r x) := by
  unfold costMatrix
  simp only [List.length_map]
  apply List.map_congr_left
  intro i hi
  apply List.map_congr_left
  intro j hj
  have hi' : i < (univOf D).length := by simpa using hi
  have hj' : j < (univOf D).length := by simpa using hj
  rw [getD_map_of_lt _ _ _ _ hi', getD_map_of_lt _ _ _ _ hj',
      getD_map_of_lt _ _ _ _ hi', getD_map_of_lt _ _ _ _ hj',
      pairCost_rankFn hp, pairCost_rankFn hp, pairCost_rankFn hq, pairCost_rankFn hq]

/-! ### The score read off the table -/

/-- Entry of the specification table at in-range ids. -/
theorem specTable_get (S : Scheme) (D : Dataset) (i j : Nat)
    (hi : i < (univOf D).length) (hj : j < (univOf D).length) :
    (specTable S D).get i j =
      if (univOf D)[i] = (univOf D)[j] then (0, 0, 0)
      else (before S D (univOf D)[i] (univOf D)[j], after S D (univOf D)[i] (univOf D)[j],
            tied S D (univOf D)[i] (univOf D)[j]) := by
  unfold Table.get specTable
  rw [getD_map_of_lt _ _ _ _ hi, getD_map_of_lt _ _ _ _ hj]

/-- The cost of the pair `{x, y}` selected by a candidate `c`, summed over the dataset. -/
def selElem (S : Scheme) (D : Dataset) (c : Ranking) (x y : Elem) : Int :=
  if bidIn c x < bidIn c y then before S D x y
  else if bidIn c y < bidIn c x then after S D x y
  else tied S D x y

theorem sel_specTable (S : Scheme) (D : Dataset) (c : Ranking) (i j : Nat)
    (hi : i < (univOf D).length) (hj : j < (univOf D).length) (hij : i < j) :
    sel (specTable S D) (vecOf (univOf D) c) i j = selElem S D c (univOf D)[i] (univOf D)[j] := by
  have hne := nodup_getElem_ne (univOf_nodup D) hi hj (by omega)
  unfold sel selElem Table.bef Table.aft Table.tie vecOf
  rw [specTable_get S D i j hi hj, getD_map_of_lt _ _ _ _ hi, getD_map_of_lt _ _ _ _ hj]
  simp only [hne, if_false]

theorem scoreVec_specTable (S : Scheme) (D : Dataset) (c : Ranking) :
    scoreVec (specTable S D) (vecOf (univOf D) c) =
      isum ((pairs (univOf D)).map fun p => selElem S D c p.1 p.2) := by
  unfold scoreVec
  have hl : (vecOf (univOf D) c).length = (univOf D).length := by simp [vecOf]
  rw [hl]
  exact isum_pairs_range (univOf D) 0 _ _ (fun i j hi hj hij => sel_specTable S D c i j hi hj hij)

/-! ### The Kemeny score as a sum over pairs of the universe -/

theorem pen_symm (S : Scheme) (h01 : S.t0 = S.t1) (h34 : S.t3 = S.t4) (r c : Ranking) (x y : Elem) :
    pen S r c x y = pen S r c y x := by
  unfold pen
  cases hx : bucketIdx c x <;> cases hy : bucketIdx c y
  · rfl
  · rfl
  · rfl
  · rename_i i j
    rcases Nat.lt_trichotomy i j with h | h | h
    · have hn : ¬ j < i := by omega
      simp [h, hn]
    · subst h
      simp [T_status_swap S h01 h34 r x y]
    · have hn : ¬ i < j := by omega
      simp [h, hn]

theorem pen_of_some (S : Scheme) (r c : Ranking) (x y : Elem) {i j : Nat}
    (hx : bucketIdx c x = some i) (hy : bucketIdx c y = some j) :
    pen S r c x y =
      if bidIn c x < bidIn c y then S.B (status r x y)
      else if bidIn c y < bidIn c x then S.B (status r y x)
      else S.T (status r x y) := by
  unfold pen
  rw [hx, hy, bidIn_of_some hx, bidIn_of_some hy]
  simp only [Int.ofNat_lt]

theorem isum_pen_eq_selElem (S : Scheme) (D : Dataset) (c : Ranking) (x y : Elem)
    (hx : x ∈ c.flatten) (hy : y ∈ c.flatten) :
    isum (D.map fun r => pen S r c x y) = selElem S D c x y := by
  obtain ⟨i, hi⟩ := bucketIdx_isSome hx
  obtain ⟨j, hj⟩ := bucketIdx_isSome hy
  simp only [pen_of_some S _ c x y hi hj]
  rw [isum_map_ite3]
  rfl

theorem kemeny_eq_isum_pairs (S : Scheme) (h01 : S.t0 = S.t1) (h34 : S.t3 = S.t4)
    (D : Dataset) (c : Ranking) (l : List Elem) (hc : c.flatten.Perm l) :
    kemeny S D c = isum ((pairs l).map fun p => selElem S D c p.1 p.2) := by
  unfold kemeny kemenyOne
  have e : ∀ r ∈ D, isum ((pairs c.flatten).map fun p => pen S r c p.1 p.2) =
      isum ((pairs l).map fun p => pen S r c p.1 p.2) :=
    fun r _ => isum_pairs_perm (fun x y => pen S r c x y) (pen_symm S h01 h34 r c) hc
  rw [isum_map_congr e, isum_map_isum_comm (fun (r : Ranking) (p : Elem × Elem) => pen S r c p.1 p.2) D (pairs l)]
  apply isum_map_congr
  intro p hp
  obtain ⟨h1, h2⟩ := mem_pairs p hp
  exact isum_pen_eq_selElem S D c p.1 p.2 (hc.mem_iff.mpr h1) (hc.mem_iff.mpr h2)

end Corankco
