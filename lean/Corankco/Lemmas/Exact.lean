import Corankco.Lemmas.Basic
import Corankco.Lemmas.L4
import Corankco.Lemmas.SortGroup
import Corankco.Lemmas.BioMove
import Corankco.Model.Exact
import Corankco.Spec.Partition
import Corankco.Spec.Bio
/-
  Helpers for C05 (exact ILP model): row membership, the propositional reading `Feas` of feasibility,
  the encoding `asgOfVec`, defeat counts of a feasible point, and the defeat-count decoder.
-/
namespace Corankco
open Model Spec
namespace Exact

/-! ### sums -/

theorem isum_flatMap {α β : Type} (l : List α) (f : α → List β) (g : β → Int) :
    isum ((l.flatMap f).map g) = isum (l.map fun a => isum ((f a).map g)) := by
  induction l with
  | nil => rfl
  | cons x xs ih => simp [List.flatMap_cons, isum_append, ih]

/-- a double sum over the off-diagonal ordered pairs is a sum over the unordered pairs. -/
theorem isum_offdiag (F : Nat → Nat → Int) (l : List Nat) (hnd : l.Nodup) :
    isum (l.map fun i => isum (l.map fun j => if i = j then 0 else F i j)) =
      isum ((pairs l).map fun p => F p.1 p.2 + F p.2 p.1) := by
  induction l with
  | nil => rfl
  | cons x xs ih =>
    rw [List.nodup_cons] at hnd
    have h1 : isum (xs.map fun j => if x = j then 0 else F x j) = isum (xs.map fun j => F x j) := by
      apply isum_map_congr
      intro j hj
      have : x ≠ j := fun e => hnd.1 (e ▸ hj)
      simp [this]
    have h2 : isum (xs.map fun i => isum ((x :: xs).map fun j => if i = j then 0 else F i j)) =
        isum (xs.map fun i => F i x) + isum (xs.map fun i => isum (xs.map fun j => if i = j then 0 else F i j)) := by
      rw [← isum_map_add]
      apply isum_map_congr
      intro i hi
      have : i ≠ x := fun e => hnd.1 (e ▸ hi)
      simp [this]
    simp only [List.map_cons, isum_cons, if_true, pairs_cons, List.map_append, List.map_map, isum_append,
      Function.comp_def]
    simp only [List.map_cons, isum_cons] at h2
    rw [h1, h2, ih hnd.2]
    have h3 := isum_map_add (fun y => F x y) (fun y => F y x) xs
    omega

theorem evalLin_append (a : Asg) (l₁ l₂ : List (Var × Int)) :
    evalLin a (l₁ ++ l₂) = evalLin a l₁ + evalLin a l₂ := by
  simp [evalLin, isum_append]

/-! ### membership in `ltPairs` -/

theorem mem_ltPairs (n i j : Nat) : (i, j) ∈ ltPairs n ↔ i < j ∧ j < n := by
  unfold ltPairs
  constructor
  · intro h
    exact mem_pairs_range (i, j) h
  · rintro ⟨h1, h2⟩
    rw [L4.mem_pairs_iff]
    exact ⟨i, j, h1, by rw [List.getElem?_range (by omega)], by rw [List.getElem?_range (by omega)]⟩

theorem forall_ltPairs (n : Nat) (P : Nat × Nat → Prop) :
    (∀ p ∈ ltPairs n, P p) ↔ ∀ i j, i < j → j < n → P (i, j) := by
  constructor
  · intro h i j h1 h2; exact h (i, j) ((mem_ltPairs n i j).mpr ⟨h1, h2⟩)
  · rintro h ⟨i, j⟩ hp
    obtain ⟨h1, h2⟩ := (mem_ltPairs n i j).mp hp
    exact h i j h1 h2

/-! ### the propositional reading of feasibility -/

/-- `a` is a 0/1 point of the binary and transitivity rows on `n` ids. -/
structure Feas (a : Asg) (n : Nat) : Prop where
  xbin : ∀ i j, i < n → j < n → i ≠ j → a (.x i j) = 0 ∨ a (.x i j) = 1
  tbin : ∀ i j, i < j → j < n → a (.t i j) = 0 ∨ a (.t i j) = 1
  one : ∀ i j, i < j → j < n → a (.x i j) + a (.x j i) + a (.t i j) = 1
  tr : ∀ i j k, i < n → j < n → k < n → j ≠ i → k ≠ i → k ≠ j →
    a (.x i j) + a (.x j k) + a (tvar j k) - a (.x i k) ≤ 1 ∧
    a (.x i j) + a (tvar i j) + a (.x j k) - a (.x i k) ≤ 1 ∧
    2 * a (tvar i j) + 2 * a (tvar j k) - a (tvar i k) ≤ 3

theorem isBinary_iff (a : Asg) (n : Nat) :
    isBinary a n = true ↔
      (∀ i j, i < n → j < n → i ≠ j → a (.x i j) = 0 ∨ a (.x i j) = 1) ∧
      (∀ i j, i < j → j < n → a (.t i j) = 0 ∨ a (.t i j) = 1) := by
  unfold isBinary
  rw [Bool.and_eq_true, List.all_eq_true, List.all_eq_true, forall_ltPairs]
  simp only [List.all_eq_true, List.mem_range, Bool.or_eq_true, beq_iff_eq]
  constructor
  · rintro ⟨h1, h2⟩
    refine ⟨fun i j hi hj hne => ?_, h2⟩
    rcases h1 i hi j hj with (h | h) | h
    · exact absurd h hne
    · exact Or.inl h
    · exact Or.inr h
  · rintro ⟨h1, h2⟩
    refine ⟨fun i hi j hj => ?_, h2⟩
    by_cases e : i = j
    · exact Or.inl (Or.inl e)
    · rcases h1 i j hi hj e with h | h
      · exact Or.inl (Or.inr h)
      · exact Or.inr h

theorem binaryRows_iff (a : Asg) (n : Nat) :
    (binaryRows n).all (satisfies a) = true ↔
      ∀ i j, i < j → j < n → a (.x i j) + a (.x j i) + a (.t i j) = 1 := by
  unfold binaryRows
  rw [List.all_map, List.all_eq_true, forall_ltPairs]
  simp only [Function.comp_def, satisfies, evalLin, List.map_cons, List.map_nil, isum_cons, isum_nil, beq_iff_eq]
  constructor
  · intro h i j h1 h2; have := h i j h1 h2; omega
  · intro h i j h1 h2; have := h i j h1 h2; omega

theorem transRows_iff (a : Asg) (n : Nat) :
    (transRows n).all (satisfies a) = true ↔
      ∀ i j k, i < n → j < n → k < n → j ≠ i → k ≠ i → k ≠ j →
        a (.x i j) + a (.x j k) + a (tvar j k) - a (.x i k) ≤ 1 ∧
        a (.x i j) + a (tvar i j) + a (.x j k) - a (.x i k) ≤ 1 ∧
        2 * a (tvar i j) + 2 * a (tvar j k) - a (tvar i k) ≤ 3 := by
  unfold transRows
  simp only [List.all_eq_true, List.mem_flatMap, List.mem_range]
  constructor
  · intro h i j k hi hj hk hji hki hkj
    have hk' : ¬ (k = i ∨ k = j) := by simp [hki, hkj]
    have r1 := h _ ⟨i, hi, j, hj, by rw [if_neg hji]; exact List.mem_flatMap.mpr ⟨k, by simpa using hk, by
      rw [if_neg hk']; exact List.mem_cons_self⟩⟩
    have r2 := h _ ⟨i, hi, j, hj, by rw [if_neg hji]; exact List.mem_flatMap.mpr ⟨k, by simpa using hk, by
      rw [if_neg hk']; exact List.mem_cons_of_mem _ List.mem_cons_self⟩⟩
    have r3 := h _ ⟨i, hi, j, hj, by rw [if_neg hji]; exact List.mem_flatMap.mpr ⟨k, by simpa using hk, by
      rw [if_neg hk']; exact List.mem_cons_of_mem _ (List.mem_cons_of_mem _ List.mem_cons_self)⟩⟩
    simp only [satisfies, evalLin, List.map_cons, List.map_nil, isum_cons, isum_nil, decide_eq_true_eq] at r1 r2 r3
    omega
  · rintro h r ⟨i, hi, j, hj, hr⟩
    by_cases hji : j = i
    · simp [hji] at hr
    rw [if_neg hji] at hr
    obtain ⟨k, hk, hr⟩ := List.mem_flatMap.mp hr
    by_cases hk' : k = i ∨ k = j
    · simp [hk'] at hr
    rw [if_neg hk'] at hr
    have := h i j k hi hj (by simpa using hk) hji (fun e => hk' (Or.inl e)) (fun e => hk' (Or.inr e))
    simp only [List.mem_cons, List.not_mem_nil, or_false] at hr
    rcases hr with rfl | rfl | rfl <;>
      simp only [satisfies, evalLin, List.map_cons, List.map_nil, isum_cons, isum_nil, decide_eq_true_eq] <;> omega

theorem feasible_iff (a : Asg) (n : Nat) :
    feasible a n (binaryRows n ++ transRows n) = true ↔ Feas a n := by
  unfold feasible
  rw [Bool.and_eq_true, List.all_append, Bool.and_eq_true, isBinary_iff, binaryRows_iff, transRows_iff]
  constructor
  · rintro ⟨⟨h1, h2⟩, h3, h4⟩; exact ⟨h1, h2, h3, h4⟩
  · rintro ⟨h1, h2, h3, h4⟩; exact ⟨⟨h1, h2⟩, h3, h4⟩

/-! ### the encoding of a ranking with ties -/

theorem asgOfVec_tvar (v : List Int) (i j : Nat) :
    asgOfVec v (tvar i j) = if v.getD i 0 = v.getD j 0 then 1 else 0 := by
  unfold tvar
  split
  · simp [asgOfVec]
  · simp only [asgOfVec, eq_comm]

theorem feas_asgOfVec (v : List Int) (n : Nat) : Feas (asgOfVec v) n := by
  refine ⟨?_, ?_, ?_, ?_⟩
  · intro i j _ _ _
    simp only [asgOfVec]
    split <;> simp
  · intro i j _ _
    simp only [asgOfVec]
    split <;> simp
  · intro i j _ _
    simp only [asgOfVec]
    split <;> split <;> split <;> omega
  · intro i j k _ _ _ _ _ _
    simp only [asgOfVec_tvar]
    simp only [asgOfVec]
    generalize v.getD i 0 = vi
    generalize v.getD j 0 = vj
    generalize v.getD k 0 = vk
    refine ⟨?_, ?_, ?_⟩ <;> repeat' split <;> omega

/-! ### the objective -/

theorem evalLin_objective (a : Asg) (t : Table) (n : Nat) :
    evalLin a (objective t n) =
      isum ((pairs (List.range n)).map fun p =>
        t.bef p.1 p.2 * a (.x p.1 p.2) + t.bef p.2 p.1 * a (.x p.2 p.1) + t.tie p.1 p.2 * a (.t p.1 p.2)) := by
  unfold objective
  rw [evalLin_append]
  have h1 : evalLin a ((List.range n).flatMap fun i => (List.range n).flatMap fun j =>
      if i = j then [] else [(Var.x i j, t.bef i j)]) =
      isum ((pairs (List.range n)).map fun p =>
        t.bef p.1 p.2 * a (.x p.1 p.2) + t.bef p.2 p.1 * a (.x p.2 p.1)) := by
    rw [← isum_offdiag (fun i j => t.bef i j * a (.x i j)) _ List.nodup_range]
    unfold evalLin
    rw [isum_flatMap]
    apply isum_map_congr
    intro i _
    rw [isum_flatMap]
    apply isum_map_congr
    intro j _
    split <;> simp
  rw [h1]
  unfold evalLin ltPairs
  rw [List.map_map, ← isum_map_add]
  rfl

/-- the objective only reads the variables of the problem. -/
theorem evalLin_objective_congr (a b : Asg) (t : Table) (n : Nat)
    (hx : ∀ i j, i < n → j < n → i ≠ j → a (.x i j) = b (.x i j))
    (ht : ∀ i j, i < j → j < n → a (.t i j) = b (.t i j)) :
    evalLin a (objective t n) = evalLin b (objective t n) := by
  rw [evalLin_objective, evalLin_objective]
  apply isum_map_congr
  intro p hp
  obtain ⟨h1, h2⟩ := mem_pairs_range p hp
  rw [hx p.1 p.2 (by omega) h2 (by omega), hx p.2 p.1 h2 (by omega) (by omega), ht p.1 p.2 h1 h2]

theorem evalLin_objective_asgOfVec (t : Table) (n : Nat) (hm : MirrorT t n) (v : List Int) (hv : v.length = n) :
    evalLin (asgOfVec v) (objective t n) = scoreVec t v := by
  rw [evalLin_objective]
  unfold scoreVec
  rw [hv]
  apply isum_map_congr
  intro p hp
  obtain ⟨h1, h2⟩ := mem_pairs_range p hp
  have hmir := (hm p.2 p.1 h2 (by omega)).1
  simp only [asgOfVec, sel]
  rw [hmir]
  generalize v.getD p.1 0 = vi
  generalize v.getD p.2 0 = vj
  by_cases c1 : vi < vj
  · have c2 : ¬ vj < vi := by omega
    have c3 : ¬ vi = vj := by omega
    simp [c1, c2, c3]
  · by_cases c2 : vj < vi
    · have c3 : ¬ vi = vj := by omega
      simp [c1, c2, c3]
    · have c3 : vi = vj := by omega
      simp [c3]

/-! ### defeat counts of a feasible point -/

/-- number of ids placed before `j`. -/
def cnt (a : Asg) (n j : Nat) : Nat := ((List.range n).filter fun i => i != j && a (.x i j) == 1).length

theorem defeatCounts_length (a : Asg) (n : Nat) : (defeatCounts a n).length = n := by
  simp [defeatCounts]

theorem defeatCounts_getD (a : Asg) (n j : Nat) (h : j < n) : (defeatCounts a n).getD j 0 = cnt a n j := by
  unfold defeatCounts cnt
  exact getD_range_map _ n j 0 h

theorem filter_length_lt {l : List Nat} (p q : Nat → Bool) (h : ∀ x ∈ l, p x = true → q x = true)
    (y : Nat) (hy : y ∈ l) (hq : q y = true) (hp : p y = false) :
    (l.filter p).length < (l.filter q).length := by
  induction l with
  | nil => simp at hy
  | cons x xs ih =>
    have hle : (xs.filter p).length ≤ (xs.filter q).length := by
      rw [← List.countP_eq_length_filter, ← List.countP_eq_length_filter]
      exact List.countP_mono_left fun z hz => h z (by simp [hz])
    rcases List.mem_cons.mp hy with rfl | hy
    · simp [hq, hp]
      omega
    · have ih' := ih (fun z hz => h z (by simp [hz])) hy
      have hx := h x (by simp)
      by_cases c : p x = true
      · simp [c, hx c]
        omega
      · by_cases d : q x = true
        · simp [c, d]
          omega
        · simp [c, d]
          omega

theorem tvar_comm (i j : Nat) : tvar i j = tvar j i := by
  unfold tvar
  by_cases h1 : i < j
  · have h2 : ¬ j < i := by omega
    simp [h1, h2]
  · by_cases h2 : j < i
    · simp [h1, h2]
    · have : i = j := by omega
      subst this
      rfl

namespace Feas
variable {a : Asg} {n : Nat} (hF : Feas a n)
include hF

theorem tvbin (i j : Nat) (hi : i < n) (hj : j < n) (hne : i ≠ j) : a (tvar i j) = 0 ∨ a (tvar i j) = 1 := by
  unfold tvar
  by_cases h : i < j
  · rw [if_pos h]; exact hF.tbin i j h hj
  · rw [if_neg h]; exact hF.tbin j i (by omega) hi

theorem one' (i j : Nat) (hi : i < n) (hj : j < n) (hne : i ≠ j) :
    a (.x i j) + a (.x j i) + a (tvar i j) = 1 := by
  unfold tvar
  by_cases h : i < j
  · rw [if_pos h]; exact hF.one i j h hj
  · rw [if_neg h]
    have := hF.one j i (by omega) hi
    omega

/-- anything before `i` is before `j` when `i` is before or tied with `j`. -/
theorem before_of_le (i j k : Nat) (hi : i < n) (hj : j < n) (hk : k < n) (hij : i ≠ j) (hki : k ≠ i)
    (h : a (.x i j) = 1 ∨ a (tvar i j) = 1) (hk1 : a (.x k i) = 1) : k ≠ j ∧ a (.x k j) = 1 := by
  have h1 := hF.one' i j hi hj hij
  have b1 := hF.xbin i j hi hj hij
  have b2 := hF.xbin j i hj hi (Ne.symm hij)
  have b3 := hF.tvbin i j hi hj hij
  have hkj : k ≠ j := by
    intro e
    subst e
    omega
  refine ⟨hkj, ?_⟩
  have t := (hF.tr k i j hk hi hj (Ne.symm hki) (Ne.symm hkj) (Ne.symm hij)).1
  have b4 := hF.xbin k j hk hj hkj
  omega

theorem cnt_lt (i j : Nat) (hi : i < n) (hj : j < n) (hij : i ≠ j) (h : a (.x i j) = 1) :
    cnt a n i < cnt a n j := by
  unfold cnt
  apply filter_length_lt _ _ _ i (by simpa using hi)
  · simp [hij, h]
  · simp
  · intro k hk hp
    simp only [Bool.and_eq_true, bne_iff_ne, ne_eq, beq_iff_eq] at hp ⊢
    exact hF.before_of_le i j k hi hj (by simpa using hk) hij hp.1 (Or.inl h) hp.2

theorem cnt_eq (i j : Nat) (hi : i < n) (hj : j < n) (hij : i ≠ j) (h : a (tvar i j) = 1) :
    cnt a n i = cnt a n j := by
  unfold cnt
  congr 1
  apply List.filter_congr
  intro k hk
  have hk' : k < n := by simpa using hk
  rw [Bool.eq_iff_iff]
  simp only [Bool.and_eq_true, bne_iff_ne, ne_eq, beq_iff_eq]
  constructor
  · intro hp
    exact hF.before_of_le i j k hi hj hk' hij hp.1 (Or.inr h) hp.2
  · intro hp
    exact hF.before_of_le j i k hj hi hk' (Ne.symm hij) hp.1 (Or.inr (tvar_comm i j ▸ h)) hp.2

/-- a feasible point is the encoding of the ranking by defeat counts. -/
theorem is_ranking (i j : Nat) (hi : i < n) (hj : j < n) (hij : i ≠ j) :
    a (.x i j) = (if cnt a n i < cnt a n j then 1 else 0) ∧
    a (tvar i j) = (if cnt a n i = cnt a n j then 1 else 0) := by
  have h1 := hF.one' i j hi hj hij
  have b1 := hF.xbin i j hi hj hij
  have b2 := hF.xbin j i hj hi (Ne.symm hij)
  have b3 := hF.tvbin i j hi hj hij
  rcases b1 with b1 | b1
  · rcases b2 with b2 | b2
    · have e := hF.cnt_eq i j hi hj hij (by omega)
      have : ¬ cnt a n i < cnt a n j := by omega
      rw [if_neg this, if_pos e]
      exact ⟨b1, by omega⟩
    · have e := hF.cnt_lt j i hj hi (Ne.symm hij) b2
      have c1 : ¬ cnt a n i < cnt a n j := by omega
      have c2 : ¬ cnt a n i = cnt a n j := by omega
      rw [if_neg c1, if_neg c2]
      exact ⟨b1, by omega⟩
  · have e := hF.cnt_lt i j hi hj hij b1
    have c2 : ¬ cnt a n i = cnt a n j := by omega
    rw [if_pos e, if_neg c2]
    exact ⟨b1, by omega⟩

end Feas

/-- the integer key vector of the defeat counts. -/
def cvec (a : Asg) (n : Nat) : List Int := (defeatCounts a n).map fun k => Int.ofNat k

theorem cvec_length (a : Asg) (n : Nat) : (cvec a n).length = n := by
  simp [cvec, defeatCounts_length]

theorem cvec_getD (a : Asg) (n j : Nat) (h : j < n) : (cvec a n).getD j 0 = (cnt a n j : Int) := by
  unfold cvec
  rw [getD_map_of_lt _ _ _ _ (by rw [defeatCounts_length]; exact h)]
  have := defeatCounts_getD a n j h
  rw [getD_of_lt _ _ _ (by rw [defeatCounts_length]; exact h)] at this
  rw [this]
  rfl

theorem Feas.is_ranking_cvec {a : Asg} {n : Nat} (hF : Feas a n) (i j : Nat) (hi : i < n) (hj : j < n)
    (hij : i ≠ j) :
    a (.x i j) = asgOfVec (cvec a n) (.x i j) ∧ a (tvar i j) = asgOfVec (cvec a n) (tvar i j) := by
  obtain ⟨h1, h2⟩ := hF.is_ranking i j hi hj hij
  rw [asgOfVec_tvar]
  simp only [asgOfVec, cvec_getD a n i hi, cvec_getD a n j hj, h1, h2, Int.ofNat_lt, Int.ofNat_inj]
  exact ⟨trivial, trivial⟩

/-- objective of a feasible point = score of its defeat-count vector. -/
theorem Feas.objective_eq {a : Asg} {n : Nat} (hF : Feas a n) (t : Table) (hm : MirrorT t n) :
    evalLin a (objective t n) = scoreVec t (cvec a n) := by
  rw [← evalLin_objective_asgOfVec t n hm (cvec a n) (cvec_length a n)]
  apply evalLin_objective_congr
  · intro i j hi hj hij
    exact (hF.is_ranking_cvec i j hi hj hij).1
  · intro i j hij hj
    have := (hF.is_ranking_cvec i j (by omega) hj (by omega)).2
    simpa [tvar, hij] using this

/-! ### ordered groups and bucket ids -/

/-- non-empty groups, constant key inside a group, strictly increasing keys across groups. -/
def Strict (k : Nat → Nat) (gs : List (List Nat)) : Prop :=
  (∀ g ∈ gs, g ≠ []) ∧ (∀ g ∈ gs, ∀ x ∈ g, ∀ y ∈ g, k x = k y) ∧
  gs.Pairwise (fun g h => ∀ x ∈ g, ∀ y ∈ h, k x < k y)

theorem strict_nil (k : Nat → Nat) : Strict k [] := ⟨by simp, by simp, List.Pairwise.nil⟩

theorem strict_snoc (k : Nat → Nat) (done : List (List Nat)) (cur : List Nat) (c : Nat) (hd : Strict k done)
    (hcur : cur ≠ []) (hc : ∀ x ∈ cur, k x = c) (hlt : ∀ g ∈ done, ∀ x ∈ g, k x < c) :
    Strict k (done ++ [cur]) := by
  obtain ⟨h1, h2, h3⟩ := hd
  refine ⟨?_, ?_, ?_⟩
  · intro g hg
    rcases List.mem_append.mp hg with hg | hg
    · exact h1 g hg
    · simp only [List.mem_singleton] at hg; subst hg; exact hcur
  · intro g hg x hx y hy
    rcases List.mem_append.mp hg with hg | hg
    · exact h2 g hg x hx y hy
    · simp only [List.mem_singleton] at hg; subst hg; rw [hc x hx, hc y hy]
  · rw [List.pairwise_append]
    refine ⟨h3, by simp, ?_⟩
    intro g hg h hh x hx y hy
    simp only [List.mem_singleton] at hh
    subst hh
    rw [hc y hy]
    exact hlt g hg x hx

theorem bidIn_nonneg (gs : List (List Nat)) (x : Nat) (h : x ∈ gs.flatten) : 0 ≤ bidIn gs x := by
  induction gs with
  | nil => simp at h
  | cons g gs ih =>
    unfold bidIn
    by_cases hx : x ∈ g
    · simp [hx]
    · have hx' : x ∈ gs.flatten := by simpa [hx] using h
      have := ih hx'
      simp only [if_neg hx]
      have hn : ¬ bidIn gs x < 0 := by omega
      rw [if_neg hn]
      omega

theorem bidIn_cons_mem (g : List Nat) (gs : List (List Nat)) (x : Nat) (h : x ∈ g) : bidIn (g :: gs) x = 0 := by
  simp [bidIn, h]

theorem bidIn_cons_not_mem (g : List Nat) (gs : List (List Nat)) (x : Nat) (h : x ∉ g) (h' : x ∈ gs.flatten) :
    bidIn (g :: gs) x = bidIn gs x + 1 := by
  have := bidIn_nonneg gs x h'
  have hn : ¬ bidIn gs x < 0 := by omega
  simp [bidIn, h, hn]

theorem bidIn_strict (k : Nat → Nat) (gs : List (List Nat)) (hs : Strict k gs) (i j : Nat)
    (hi : i ∈ gs.flatten) (hj : j ∈ gs.flatten) :
    (k i < k j → bidIn gs i < bidIn gs j) ∧ (k i = k j → bidIn gs i = bidIn gs j) := by
  induction gs with
  | nil => simp at hi
  | cons g gs ih =>
    obtain ⟨h1, h2, h3⟩ := hs
    rw [List.pairwise_cons] at h3
    have hs' : Strict k gs := ⟨fun g' hg' => h1 g' (by simp [hg']), fun g' hg' => h2 g' (by simp [hg']), h3.2⟩
    have hcross : ∀ x ∈ g, ∀ y ∈ gs.flatten, k x < k y := by
      intro x hx y hy
      obtain ⟨h, hh, hyh⟩ := List.mem_flatten.mp hy
      exact h3.1 h hh x hx y hyh
    have hin := h2 g (by simp)
    by_cases ci : i ∈ g
    · by_cases cj : j ∈ g
      · rw [bidIn_cons_mem g gs i ci, bidIn_cons_mem g gs j cj]
        have := hin i ci j cj
        exact ⟨fun h => by omega, fun _ => rfl⟩
      · have hj' : j ∈ gs.flatten := by simpa [cj] using hj
        rw [bidIn_cons_mem g gs i ci, bidIn_cons_not_mem g gs j cj hj']
        have := hcross i ci j hj'
        have := bidIn_nonneg gs j hj'
        exact ⟨fun _ => by omega, fun h => by omega⟩
    · have hi' : i ∈ gs.flatten := by simpa [ci] using hi
      by_cases cj : j ∈ g
      · rw [bidIn_cons_mem g gs j cj, bidIn_cons_not_mem g gs i ci hi']
        have := hcross j cj i hi'
        exact ⟨fun h => by omega, fun h => by omega⟩
      · have hj' : j ∈ gs.flatten := by simpa [cj] using hj
        rw [bidIn_cons_not_mem g gs i ci hi', bidIn_cons_not_mem g gs j cj hj']
        obtain ⟨a1, a2⟩ := ih hs' hi' hj'
        exact ⟨fun h => by have := a1 h; omega, fun h => by have := a2 h; omega⟩

theorem compare_nat_congr (a b c d : Nat) (h1 : c < d → a < b) (h2 : c = d → a = b) (h3 : d < c → b < a) :
    compare a b = compare c d := by
  rcases Nat.lt_trichotomy c d with h | h | h
  · rw [Nat.compare_eq_lt.mpr h, Nat.compare_eq_lt.mpr (h1 h)]
  · rw [Nat.compare_eq_eq.mpr h, Nat.compare_eq_eq.mpr (h2 h)]
  · rw [Nat.compare_eq_gt.mpr h, Nat.compare_eq_gt.mpr (h3 h)]

theorem bidIn_compare (k : Nat → Nat) (gs : List (List Nat)) (hs : Strict k gs) (i j : Nat)
    (hi : i ∈ gs.flatten) (hj : j ∈ gs.flatten) :
    compare (bidIn gs i).toNat (bidIn gs j).toNat = compare (k i) (k j) := by
  obtain ⟨a1, a2⟩ := bidIn_strict k gs hs i j hi hj
  obtain ⟨b1, b2⟩ := bidIn_strict k gs hs j i hj hi
  have n1 := bidIn_nonneg gs i hi
  have n2 := bidIn_nonneg gs j hj
  apply compare_nat_congr
  · intro h; have := a1 h; omega
  · intro h; have := a2 h; omega
  · intro h; have := b1 h; omega

/-! ### the decoder fold -/

abbrev St := List (List Nat) × List Nat × Nat

def step (st : St) (e : Nat × Nat) : St :=
  if e.2 = st.2.2 then (st.1, st.2.1 ++ [e.1], st.2.2) else (st.1 ++ [st.2.1], [e.1], e.2)

def out (st : St) : List (List Nat) := st.1 ++ [st.2.1]

theorem decodeCounts_eq (counts : List Nat) :
    decodeCounts counts =
      out ((sortBy (fun a b => decide (a.2 ≤ b.2)) ((List.range counts.length).zip counts)).foldl step ([], [], 0)) :=
  rfl

theorem fold_flatten (l : List (Nat × Nat)) (st : St) :
    (out (l.foldl step st)).flatten = (out st).flatten ++ l.map (·.1) := by
  induction l generalizing st with
  | nil => simp
  | cons e l ih =>
    rw [List.foldl_cons, ih]
    unfold step
    split <;> simp [out]

theorem fold_strict (k : Nat → Nat) (l : List (Nat × Nat)) (hl : ∀ e ∈ l, e.2 = k e.1)
    (hs : l.Pairwise (fun x y => x.2 ≤ y.2)) (done : List (List Nat)) (cur : List Nat) (c : Nat)
    (hcur : cur ≠ []) (hc : ∀ x ∈ cur, k x = c) (hdone : Strict k done)
    (hlt : ∀ g ∈ done, ∀ x ∈ g, k x < c) (hle : ∀ e ∈ l, c ≤ e.2) :
    Strict k (out (l.foldl step (done, cur, c))) := by
  induction l generalizing done cur c with
  | nil => exact strict_snoc k done cur c hdone hcur hc hlt
  | cons e l ih =>
    rw [List.pairwise_cons] at hs
    have hl' : ∀ e' ∈ l, e'.2 = k e'.1 := fun e' he' => hl e' (by simp [he'])
    have he := hl e (by simp)
    have hce := hle e (by simp)
    rw [List.foldl_cons]
    unfold step
    by_cases h : e.2 = c
    · simp only [h, if_true]
      apply ih hl' hs.2 done (cur ++ [e.1]) c (by simp) _ hdone hlt (fun e' he' => hle e' (by simp [he']))
      intro x hx
      rcases List.mem_append.mp hx with hx | hx
      · exact hc x hx
      · simp only [List.mem_singleton] at hx; subst hx; omega
    · simp only [h, if_false]
      have hlt' : c < e.2 := by omega
      apply ih hl' hs.2 (done ++ [cur]) [e.1] e.2 (by simp) _ (strict_snoc k done cur c hdone hcur hc hlt) _
        (fun e' he' => hs.1 e' he')
      · intro x hx
        simp only [List.mem_singleton] at hx; subst hx; omega
      · intro g hg x hx
        rcases List.mem_append.mp hg with hg | hg
        · have := hlt g hg x hx; omega
        · simp only [List.mem_singleton] at hg; subst hg; have := hc x hx; omega

theorem fold_spec (k : Nat → Nat) (n : Nat) (sorted : List (Nat × Nat)) (hmem : ∀ e ∈ sorted, e.2 = k e.1)
    (hs : sorted.Pairwise (fun x y => x.2 ≤ y.2)) (hfst : (sorted.map (·.1)).Perm (List.range n))
    (i0 : Nat) (h0 : i0 < n) (hz : k i0 = 0) :
    isPartitionOf n (out (sorted.foldl step ([], [], 0))) = true ∧
    ∀ i j, i < n → j < n →
      compare (bidIn (out (sorted.foldl step ([], [], 0))) i).toNat
          (bidIn (out (sorted.foldl step ([], [], 0))) j).toNat = compare (k i) (k j) := by
  have hflat := fold_flatten sorted ([], [], 0)
  simp only [out, List.flatten_cons, List.flatten_nil, List.nil_append, List.append_nil] at hflat
  have hmemfl : ∀ i, i ∈ (out (sorted.foldl step ([], [], 0))).flatten ↔ i < n := by
    intro i
    unfold out
    rw [hflat, hfst.mem_iff, List.mem_range]
  have hstrict : Strict k (out (sorted.foldl step ([], [], 0))) := by
    cases sorted with
    | nil =>
      have := hfst.length_eq
      simp at this
      omega
    | cons e0 rest =>
      have hi0 : i0 ∈ (e0 :: rest).map (·.1) := hfst.mem_iff.mpr (by simpa using h0)
      obtain ⟨e, he, hei⟩ := List.mem_map.mp hi0
      have he2 : e.2 = 0 := by rw [hmem e he, hei, hz]
      rw [List.pairwise_cons] at hs
      have he0 : e0.2 = 0 := by
        rcases List.mem_cons.mp he with rfl | he
        · exact he2
        · have := hs.1 e he; omega
      have hstep : step ([], [], 0) e0 = ([], [e0.1], 0) := by
        unfold step
        simp [he0]
      rw [List.foldl_cons, hstep]
      apply fold_strict k rest (fun e' he' => hmem e' (by simp [he'])) hs.2 [] [e0.1] 0 (by simp) _ (strict_nil k)
        (by simp) (by simp)
      intro x hx
      simp only [List.mem_singleton] at hx
      subst hx
      rw [← hmem e0 (by simp)]
      exact he0
  refine ⟨?_, ?_⟩
  · rw [L4.isPartitionOf_iff]
    refine ⟨hstrict.1, ?_, hmemfl⟩
    unfold out
    rw [hflat]
    exact hfst.nodup_iff.mpr List.nodup_range
  · intro i j hi hj
    exact bidIn_compare k _ hstrict i j ((hmemfl i).mpr hi) ((hmemfl j).mpr hj)

theorem zip_range (counts : List Nat) :
    (List.range counts.length).zip counts = (List.range counts.length).map fun i => (i, counts.getD i 0) := by
  have := SortGroup.zip_map_self (List.range counts.length) (fun i => counts.getD i 0)
  rw [map_getD_range] at this
  exact this

theorem decodeCounts_spec (counts : List Nat) (i0 : Nat) (h0 : i0 < counts.length) (hz : counts.getD i0 0 = 0) :
    isPartitionOf counts.length (decodeCounts counts) = true ∧
    ∀ i j, i < counts.length → j < counts.length →
      compare (bidIn (decodeCounts counts) i).toNat (bidIn (decodeCounts counts) j).toNat =
        compare (counts.getD i 0) (counts.getD j 0) := by
  rw [decodeCounts_eq]
  have hperm := SortGroup.sortBy_perm (fun a b : Nat × Nat => decide (a.2 ≤ b.2))
    ((List.range counts.length).zip counts)
  apply fold_spec (fun i => counts.getD i 0) counts.length _ _ _ _ i0 h0 hz
  · intro e he
    have := hperm.mem_iff.mp he
    rw [zip_range] at this
    obtain ⟨i, _, rfl⟩ := List.mem_map.mp this
    rfl
  · have := SortGroup.sortBy_sorted (fun _ : Nat × Nat => True) (fun a b : Nat × Nat => decide (a.2 ≤ b.2))
      (fun a b _ _ => by simp only [decide_eq_true_eq]; omega)
      (fun a b c _ _ _ => by simp only [decide_eq_true_eq]; omega)
      ((List.range counts.length).zip counts) (fun _ _ => trivial)
    exact this.imp (fun h => by simpa using h)
  · refine (hperm.map (·.1)).trans ?_
    rw [zip_range, List.map_map]
    simp [Function.comp_def]

theorem Feas.exists_zero {a : Asg} {n : Nat} (hF : Feas a n) (hn : 0 < n) : ∃ i, i < n ∧ cnt a n i = 0 := by
  have key : ∀ c j, j < n → cnt a n j = c → ∃ i, i < n ∧ cnt a n i = 0 := by
    intro c
    induction c using Nat.strongRecOn with
    | _ c ih =>
      intro j hj hc
      by_cases hz : c = 0
      · exact ⟨j, hj, hz ▸ hc⟩
      · have hpos : 0 < ((List.range n).filter fun i => i != j && a (.x i j) == 1).length := by
          unfold cnt at hc; omega
        obtain ⟨k, hk⟩ := List.exists_mem_of_length_pos hpos
        simp only [List.mem_filter, List.mem_range, Bool.and_eq_true, bne_iff_ne, ne_eq, beq_iff_eq] at hk
        obtain ⟨hkn, hkj, hx⟩ := hk
        have := hF.cnt_lt k j hkn hj hkj hx
        exact ih (cnt a n k) (by omega) k hkn rfl
  exact key _ 0 hn rfl

theorem vecOfIds_getD (n : Nat) (gs : List (List Nat)) (i : Nat) (h : i < n) :
    (vecOfIds n gs).getD i 0 = (bidIn gs i).toNat := by
  unfold vecOfIds
  exact getD_range_map _ n i 0 h

/-- the decoder on a feasible point. -/
theorem Feas.decode_spec {a : Asg} {n : Nat} (hF : Feas a n) (hn : 0 < n) :
    isPartitionOf n (decode a n) = true ∧
    ∀ i j, i < n → j < n →
      compare ((vecOfIds n (decode a n)).getD i 0) ((vecOfIds n (decode a n)).getD j 0) =
        compare ((defeatCounts a n).getD i 0) ((defeatCounts a n).getD j 0) := by
  obtain ⟨i0, h0, hz⟩ := hF.exists_zero hn
  have hlen := defeatCounts_length a n
  have := decodeCounts_spec (defeatCounts a n) i0 (by omega) (by rw [defeatCounts_getD a n i0 h0]; exact hz)
  rw [hlen] at this
  refine ⟨this.1, ?_⟩
  intro i j hi hj
  rw [vecOfIds_getD n _ i hi, vecOfIds_getD n _ j hj]
  exact this.2 i j hi hj

/-! ### natural keys -/

theorem getD_map_ofNat (l : List Nat) (i : Nat) :
    (l.map fun k => Int.ofNat k).getD i 0 = Int.ofNat (l.getD i 0) := by
  by_cases h : i < l.length
  · simp [List.getD, h]
  · simp [List.getD, h]

theorem compare_ofNat (a b : Nat) : compare (Int.ofNat a) (Int.ofNat b) = compare a b :=
  (BioSM.cmp_nat_int a b _ _ (by simp) (by simp [Int.ofNat_inj])).symm

theorem scoreVec_congr_nat (t : Table) (v w : List Nat) (hl : v.length = w.length)
    (h : ∀ i j, i < v.length → j < v.length →
      compare (v.getD i 0) (v.getD j 0) = compare (w.getD i 0) (w.getD j 0)) :
    scoreVec t (v.map fun k => Int.ofNat k) = scoreVec t (w.map fun k => Int.ofNat k) := by
  apply scoreVec_congr_cmp
  · simp [hl]
  · intro i j hi hj
    rw [List.length_map] at hi hj
    rw [getD_map_ofNat, getD_map_ofNat, getD_map_ofNat, getD_map_ofNat, compare_ofNat, compare_ofNat]
    exact h i j hi hj

/-! ### the PuLP pruning rows -/

theorem pulpPrune_asgOfVec (comps : List (List Nat)) (v : List Int) (hr : RespectsI comps v) :
    (pulpPruneRows comps).all (satisfies (asgOfVec v)) = true := by
  unfold pulpPruneRows
  simp only [List.all_eq_true, List.mem_flatMap]
  rintro r ⟨p, hp, ei, hei, ej, hej, hr'⟩
  have hlt := hr p hp ei hei ej hej
  have h1 : ¬ v.getD ej 0 < v.getD ei 0 := by omega
  have h2 : ¬ v.getD ei 0 = v.getD ej 0 := by omega
  simp only [List.mem_cons, List.not_mem_nil, or_false] at hr'
  rcases hr' with rfl | rfl | rfl
  · simp only [satisfies, evalLin, asgOfVec, List.map_cons, List.map_nil, isum_cons, isum_nil, if_pos hlt]; decide
  · simp only [satisfies, evalLin, asgOfVec, List.map_cons, List.map_nil, isum_cons, isum_nil, if_neg h1]; decide
  · split
    · simp only [satisfies, evalLin, asgOfVec, List.map_cons, List.map_nil, isum_cons, isum_nil, if_neg h2]; decide
    · simp only [satisfies, evalLin, asgOfVec, List.map_cons, List.map_nil, isum_cons, isum_nil, if_neg h1]; decide

theorem feasible_pulp_iff (a : Asg) (n : Nat) (comps : List (List Nat)) :
    feasible a n (rowsPulp n comps) = true ↔
      feasible a n (binaryRows n ++ transRows n) = true ∧ (pulpPruneRows comps).all (satisfies a) = true := by
  unfold feasible rowsPulp
  rw [List.all_append (xs := binaryRows n ++ transRows n)]
  simp only [Bool.and_eq_true]
  constructor
  · rintro ⟨h1, h2, h3⟩; exact ⟨⟨h1, h2⟩, h3⟩
  · rintro ⟨⟨h1, h2⟩, h3⟩; exact ⟨h1, h2, h3⟩

end Exact
end Corankco
