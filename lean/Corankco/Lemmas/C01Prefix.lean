import Corankco.Model.Kemeny
import Corankco.Lemmas.C01Cross
/-
  C01 helper lemmas, part 3: the prefix-sum counters (`prefixExcl`, `suffixAfter`, `missingLoop`) read as
  counts over the fibres of a map `f : α → Nat` (the consensus bucket id).
-/
namespace Corankco
namespace C01
open Model

/-! ### prefix sums -/

theorem prefixExcl_getD (acc : Nat) (t : List Nat) (k : Nat) (hk : k < t.length) :
    (prefixExcl acc t).getD k 0 = acc + (t.take k).sum := by
  induction t generalizing acc k with
  | nil => simp at hk
  | cons x xs ih =>
    cases k with
    | zero => simp [prefixExcl]
    | succ k =>
      simp only [List.length_cons] at hk
      simp only [prefixExcl, List.getD_cons_succ, List.take_succ_cons, List.sum_cons]
      rw [ih (acc + x) k (by omega)]; omega

theorem suffixAfter_getD (rem : Nat) (t : List Nat) (k : Nat) (hk : k < t.length) :
    (suffixAfter rem t).getD k 0 = rem - (t.take (k + 1)).sum := by
  induction t generalizing rem k with
  | nil => simp at hk
  | cons x xs ih =>
    cases k with
    | zero => simp [suffixAfter]
    | succ k =>
      simp only [List.length_cons] at hk
      simp only [suffixAfter, List.getD_cons_succ, List.take_succ_cons, List.sum_cons]
      rw [ih (rem - x) k (by omega)]; omega

/-! ### fibres of `f` -/

section
variable {α : Type} (M : List α) (f : α → Nat)

theorem countP_lt_succ (k : Nat) :
    M.countP (fun x => decide (f x < k + 1)) =
      M.countP (fun x => decide (f x < k)) + M.countP (fun x => f x == k) := by
  induction M with
  | nil => rfl
  | cons a M ih =>
    simp only [List.countP_cons, ih]
    by_cases h1 : f a < k
    · have : ¬ f a = k := by omega
      have : f a < k + 1 := by omega
      simp [*]; omega
    · by_cases h2 : f a = k
      · simp [h2]; omega
      · have : ¬ f a < k + 1 := by omega
        simp [*]

theorem sum_range_countP (k : Nat) :
    ((List.range k).map (fun i => M.countP (fun x => f x == i))).sum =
      M.countP (fun x => decide (f x < k)) := by
  induction k with
  | zero => simp
  | succ k ih =>
    rw [List.range_succ, List.map_append, List.sum_append, ih, countP_lt_succ]
    simp

theorem countP_le_split (i : Nat) :
    M.countP (fun x => decide (i ≤ f x)) =
      M.countP (fun x => f x == i) + M.countP (fun x => decide (i < f x)) := by
  induction M with
  | nil => rfl
  | cons a M ih =>
    simp only [List.countP_cons, ih]
    by_cases h1 : i < f a
    · have : ¬ f a = i := by omega
      have : i ≤ f a := by omega
      simp [*]; omega
    · by_cases h2 : f a = i
      · simp [h2]; omega
      · have : ¬ i ≤ f a := by omega
        simp [*]

theorem length_sub_countP_lt (k : Nat) :
    M.length - M.countP (fun x => decide (f x < k + 1)) = M.countP (fun x => decide (k < f x)) := by
  induction M with
  | nil => rfl
  | cons a M ih =>
    have hle : M.countP (fun x => decide (f x < k + 1)) ≤ M.length := List.countP_le_length
    simp only [List.countP_cons, List.length_cons]
    by_cases h1 : k < f a
    · have : ¬ f a < k + 1 := by omega
      simp [*] <;> omega
    · have : f a < k + 1 := by omega
      simp [*] <;> omega

theorem sum_map_zero {β : Type} (g : β → Nat) (l : List β) (h : ∀ i ∈ l, g i = 0) : (l.map g).sum = 0 := by
  induction l with
  | nil => rfl
  | cons b l ih =>
    rw [List.map_cons, List.sum_cons, h b (by simp), ih (fun i hi => h i (by simp [hi]))]

theorem sum_delta (n a : Nat) (h : Nat → Nat) (ha : a < n) :
    ((List.range n).map (fun i => (if (a == i) = true then 1 else 0) * h i)).sum = h a := by
  induction n with
  | zero => omega
  | succ n ih =>
    rw [List.range_succ, List.map_append, List.sum_append]
    by_cases han : a = n
    · subst han
      rw [sum_map_zero]
      · simp
      · intro i hi
        have : (a == i) = false := by
          have := List.mem_range.mp hi
          simp; omega
        simp only [this, Bool.false_eq_true, if_false, Nat.zero_mul]
    · rw [ih (by omega)]
      have : (a == n) = false := by simp [han]
      simp only [this, Bool.false_eq_true, if_false, Nat.zero_mul, List.map_cons, List.map_nil, List.sum_cons,
        List.sum_nil, Nat.add_zero]

/-- a sum over a list, regrouped by the value of `f` -/
theorem sum_fibres (h : Nat → Nat) (n : Nat) (hf : ∀ x ∈ M, f x < n) :
    (M.map (fun x => h (f x))).sum =
      ((List.range n).map (fun i => M.countP (fun x => f x == i) * h i)).sum := by
  induction M with
  | nil => simp [sum_map_zero]
  | cons a M ih =>
    have e : ∀ i, (a :: M).countP (fun x => f x == i) * h i =
        M.countP (fun x => f x == i) * h i + (if (f a == i) = true then 1 else 0) * h i := by
      intro i; rw [List.countP_cons, Nat.add_mul]
    simp only [e, sum_map_add, sum_delta n (f a) h (hf a (by simp)), List.map_cons, List.sum_cons]
    rw [ih (fun x hx => hf x (by simp [hx]))]; omega

theorem choose2_succ (t : Nat) : (t + 1) * (t + 1 - 1) / 2 = t * (t - 1) / 2 + t := by
  cases t with
  | zero => rfl
  | succ j =>
    have : (j + 1 + 1) * (j + 1 + 1 - 1) = (j + 1) * (j + 1 - 1) + 2 * (j + 1) := by
      simp only [Nat.add_sub_cancel, Nat.add_mul, Nat.mul_add]; omega
    rw [this]; omega

/-- unordered pairs inside one fibre -/
theorem countP_pairs_fibre (n : Nat) (hf : ∀ x ∈ M, f x < n) :
    (pairs M).countP (fun p => f p.1 == f p.2) =
      ((List.range n).map (fun i => M.countP (fun x => f x == i) * (M.countP (fun x => f x == i) - 1) / 2)).sum := by
  induction M with
  | nil => simp [pairs, sum_map_zero]
  | cons a M ih =>
    have e : ∀ i, (a :: M).countP (fun x => f x == i) * ((a :: M).countP (fun x => f x == i) - 1) / 2 =
        M.countP (fun x => f x == i) * (M.countP (fun x => f x == i) - 1) / 2
          + (if (f a == i) = true then 1 else 0) * M.countP (fun x => f x == i) := by
      intro i
      rw [List.countP_cons]
      by_cases hi : f a = i
      · simp only [hi, beq_self_eq_true, if_true, choose2_succ]; omega
      · have hb : (f a == i) = false := by simp [hi]
        simp only [hb, Bool.false_eq_true, if_false, Nat.add_zero, Nat.zero_mul]
    simp only [e, sum_map_add, sum_delta n (f a) _ (hf a (by simp))]
    simp only [pairs, List.countP_append, List.countP_map, Function.comp_def]
    rw [ih (fun x hx => hf x (by simp [hx]))]
    have : M.countP (fun y => f a == f y) = M.countP (fun x => f x == f a) := by
      apply List.countP_congr; intro y _
      simp only [beq_iff_eq]; exact eq_comm
    omega

end

/-! ### `missingLoop` -/

/-- first counter of `missingLoop` without the `t3 > 0` shortcut -/
def ml1 : Nat → List (Nat × Nat) → Nat
  | _, [] => 0
  | rem, (_, t) :: rest => (rem - t) * t + ml1 (rem - t) rest

theorem missingLoop_eq (rem : Nat) (lt : List (Nat × Nat)) :
    missingLoop rem lt = (ml1 rem lt, (lt.map (fun p => (p.1 - p.2) * p.2)).sum,
      (lt.map (fun p => p.2 * (p.2 - 1) / 2)).sum) := by
  fun_induction missingLoop rem lt with
  | case1 rem => rfl
  | case2 rem len t3 rest h rem' r ih =>
    simp only [r, ih, ml1, List.map_cons, List.sum_cons, rem']
    by_cases h1 : t3 > 1
    · simp [h1]
    · have : t3 = 1 := by omega
      subst this; simp
  | case3 rem len t3 rest h ih =>
    have : t3 = 0 := by omega
    subst this
    simp [ih, ml1]

theorem ml1_range' {α : Type} (M : List α) (f : α → Nat) (lenf : Nat → Nat) (s m : Nat) :
    ml1 (M.countP (fun x => decide (s ≤ f x)))
        ((List.range' s m).map (fun i => (lenf i, M.countP (fun x => f x == i)))) =
      ((List.range' s m).map (fun i => M.countP (fun x => decide (i < f x)) * M.countP (fun x => f x == i))).sum := by
  induction m generalizing s with
  | zero => simp [ml1]
  | succ m ih =>
    simp only [List.range'_succ, List.map_cons, ml1, List.sum_cons]
    have e : M.countP (fun x => decide (s ≤ f x)) - M.countP (fun x => f x == s) =
        M.countP (fun x => decide (s + 1 ≤ f x)) := by
      rw [countP_le_split]
      show _ = M.countP (fun x => decide (s < f x))
      omega
    rw [e, ih (s + 1)]
    rfl

theorem ml1_range {α : Type} (M : List α) (f : α → Nat) (lenf : Nat → Nat) (n : Nat) :
    ml1 M.length ((List.range n).map (fun i => (lenf i, M.countP (fun x => f x == i)))) =
      ((List.range n).map (fun i => M.countP (fun x => decide (i < f x)) * M.countP (fun x => f x == i))).sum := by
  have := ml1_range' M f lenf 0 n
  rw [← List.range_eq_range'] at this
  rw [← this]
  congr 1
  simp

end C01
end Corankco
