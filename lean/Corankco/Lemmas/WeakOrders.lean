import Corankco.Lemmas.BioMove
import Corankco.Lemmas.L4
import Corankco.Model.Partition
import Corankco.Model.Exact
import Corankco.Spec.Partition
/-
  Helper lemmas for C05b (L3): the enumeration `allWeakOrders` (characterisation of `extendWeak` through the inverse
  operation `shrink`), densification of key vectors, the exhaustive optimum `optScore` / `optima`, and the
  tie-breaking argument behind the no-tie pruning of the CPLEX models.
-/
namespace Corankco
open Model Spec
namespace WO

/-- number of buckets as computed by `extendWeak` -/
def nbOf (v : List Nat) : Nat := if v.isEmpty then 0 else v.foldl max 0 + 1

def up (p b : Nat) : Nat := if b ≥ p then b + 1 else b
def down (x b : Nat) : Nat := if b > x then b - 1 else b

theorem extendWeak_eq (v : List Nat) : extendWeak v =
    ((List.range (nbOf v)).map fun j => v ++ [j]) ++
    ((List.range (nbOf v + 1)).map fun p => v.map (up p) ++ [p]) := rfl

theorem mem_extendWeak (v w : List Nat) : w ∈ extendWeak v ↔
    (∃ j, j < nbOf v ∧ w = v ++ [j]) ∨ (∃ p, p ≤ nbOf v ∧ w = v.map (up p) ++ [p]) := by
  rw [extendWeak_eq]
  simp only [List.mem_append, List.mem_map, List.mem_range]
  constructor
  · rintro (⟨j, hj, rfl⟩ | ⟨p, hp, rfl⟩)
    · exact Or.inl ⟨j, hj, rfl⟩
    · exact Or.inr ⟨p, by omega, rfl⟩
  · rintro (⟨j, hj, rfl⟩ | ⟨p, hp, rfl⟩)
    · exact Or.inl ⟨j, hj, rfl⟩
    · exact Or.inr ⟨p, by omega, rfl⟩

theorem dense_mem_iff (v : List Nat) (hd : DenseN v) (c : Nat) : c ∈ v ↔ c < nbOf v := by
  unfold nbOf
  cases v with
  | nil => simp
  | cons a l =>
    have hs := BioSM.dense_surj (a :: l) hd (by simp)
    simp only [List.isEmpty_cons, Bool.false_eq_true, if_false]
    rw [BioSM.mem_iff_getD]
    constructor
    · rintro ⟨i, hi, e⟩
      have := hs.1 i hi
      omega
    · intro h
      exact hs.2 c (by omega)

theorem dense_of_mem_iff (v : List Nat) (m : Nat) (h : ∀ c, c ∈ v ↔ c < m) : DenseN v ∧ nbOf v = m := by
  constructor
  · intro a ha b hb
    have := (h a).mp ha
    exact (h b).mpr (by omega)
  · unfold nbOf
    cases v with
    | nil =>
      have := h 0
      simp at this
      simp; omega
    | cons a l =>
      simp only [List.isEmpty_cons, Bool.false_eq_true, if_false]
      have ha := (h a).mp (by simp)
      have : (a :: l).foldl max 0 = m - 1 := by
        apply BioSM.foldl_max_eq
        · intro x hx
          have := (h x).mp hx
          omega
        · exact (h _).mpr (by omega)
      omega

def shrink (w : List Nat) : List Nat :=
  match w.getLast? with
  | none => []
  | some x => if x ∈ w.dropLast then w.dropLast else w.dropLast.map (down x)

theorem shrink_concat (u : List Nat) (x : Nat) :
    shrink (u ++ [x]) = if x ∈ u then u else u.map (down x) := by
  simp [shrink]

theorem extendWeak_sound (v : List Nat) (hd : DenseN v) (w : List Nat) (hw : w ∈ extendWeak v) :
    DenseN w ∧ w.length = v.length + 1 ∧ shrink w = v := by
  have hm := dense_mem_iff v hd
  rcases (mem_extendWeak v w).mp hw with ⟨j, hj, rfl⟩ | ⟨p, hp, rfl⟩
  · have hjv : j ∈ v := (hm j).mpr hj
    refine ⟨?_, by simp, by simp [shrink_concat, hjv]⟩
    refine (dense_of_mem_iff _ (nbOf v) ?_).1
    intro c
    simp only [List.mem_append, List.mem_singleton]
    constructor
    · rintro (h | rfl)
      · exact (hm c).mp h
      · exact hj
    · intro h; exact Or.inl ((hm c).mpr h)
  · have hpn : p ∉ v.map (up p) := by
      simp only [List.mem_map, not_exists, not_and]
      intro b _
      unfold up; split <;> omega
    refine ⟨?_, by simp, ?_⟩
    · refine (dense_of_mem_iff _ (nbOf v + 1) ?_).1
      intro c
      simp only [List.mem_append, List.mem_singleton, List.mem_map]
      constructor
      · rintro (⟨b, hb, rfl⟩ | rfl)
        · have := (hm b).mp hb
          unfold up; split <;> omega
        · omega
      · intro h
        by_cases e : c = p
        · exact Or.inr e
        · left
          by_cases l : c < p
          · exact ⟨c, (hm c).mpr (by omega), by unfold up; split <;> omega⟩
          · exact ⟨c - 1, (hm _).mpr (by omega), by unfold up; split <;> omega⟩
    · rw [shrink_concat, if_neg hpn, List.map_map]
      conv => rhs; rw [← List.map_id v]
      apply List.map_congr_left
      intro b _
      simp only [Function.comp, up, down, id]
      split <;> split <;> omega

theorem extendWeak_complete (w : List Nat) (hd : DenseN w) (hne : w ≠ []) :
    DenseN (shrink w) ∧ (shrink w).length + 1 = w.length ∧ w ∈ extendWeak (shrink w) := by
  have hm := dense_mem_iff w hd
  obtain ⟨u, x, rfl⟩ : ∃ u x, w = u ++ [x] := ⟨w.dropLast, w.getLast hne, (List.dropLast_concat_getLast hne).symm⟩
  rw [shrink_concat]
  generalize hM : nbOf (u ++ [x]) = m at hm
  have hx : x < m := (hm x).mp (by simp)
  by_cases hxu : x ∈ u
  · rw [if_pos hxu]
    have hu : ∀ c, c ∈ u ↔ c < m := by
      intro c
      rw [← hm c]
      simp only [List.mem_append, List.mem_singleton]
      constructor
      · exact Or.inl
      · rintro (h | rfl)
        · exact h
        · exact hxu
    obtain ⟨h1, h2⟩ := dense_of_mem_iff u m hu
    refine ⟨h1, by simp, (mem_extendWeak _ _).mpr (Or.inl ⟨x, by omega, rfl⟩)⟩
  · rw [if_neg hxu]
    have hu : ∀ c, c ∈ u ↔ (c < m ∧ c ≠ x) := by
      intro c
      rw [← hm c]
      simp only [List.mem_append, List.mem_singleton]
      constructor
      · intro h; exact ⟨Or.inl h, fun e => hxu (e ▸ h)⟩
      · rintro ⟨h | h, h'⟩
        · exact h
        · exact absurd h h'
    have hu' : ∀ c, c ∈ u.map (down x) ↔ c < m - 1 := by
      intro c
      simp only [List.mem_map]
      constructor
      · rintro ⟨b, hb, rfl⟩
        have := (hu b).mp hb
        unfold down; split <;> omega
      · intro h
        by_cases l : c < x
        · exact ⟨c, (hu c).mpr (by omega), by unfold down; split <;> omega⟩
        · exact ⟨c + 1, (hu _).mpr (by omega), by unfold down; split <;> omega⟩
    obtain ⟨h1, h2⟩ := dense_of_mem_iff _ _ hu'
    refine ⟨h1, by simp, (mem_extendWeak _ _).mpr (Or.inr ⟨x, by omega, ?_⟩)⟩
    rw [List.map_map]
    congr 1
    conv => lhs; rw [← List.map_id u]
    apply List.map_congr_left
    intro b hb
    have := (hu b).mp hb
    simp only [Function.comp, up, down, id]
    split <;> split <;> omega

theorem denseN_replicate (n : Nat) : DenseN (List.replicate n 0) := by
  intro a ha b hb
  have := List.eq_of_mem_replicate ha
  omega

theorem allWeakOrders_spec (n : Nat) (d : List Nat) :
    d ∈ allWeakOrders n ↔ (d.length = n ∧ DenseN d) := by
  induction n generalizing d with
  | zero =>
    simp only [allWeakOrders, List.mem_singleton]
    constructor
    · rintro rfl; exact ⟨rfl, by intro a ha; simp at ha⟩
    · rintro ⟨h, _⟩; exact List.eq_nil_of_length_eq_zero h
  | succ n ih =>
    simp only [allWeakOrders, List.mem_flatMap]
    constructor
    · rintro ⟨v, hv, hd⟩
      obtain ⟨hl, hdv⟩ := (ih v).mp hv
      obtain ⟨h1, h2, _⟩ := extendWeak_sound v hdv d hd
      exact ⟨by omega, h1⟩
    · rintro ⟨hl, hd⟩
      have hne : d ≠ [] := by intro e; subst e; simp at hl
      obtain ⟨h1, h2, h3⟩ := extendWeak_complete d hd hne
      exact ⟨shrink d, (ih _).mpr ⟨by omega, h1⟩, h3⟩

theorem extendWeak_nodup (v : List Nat) (hd : DenseN v) : (extendWeak v).Nodup := by
  have hm := dense_mem_iff v hd
  rw [extendWeak_eq, List.nodup_append]
  refine ⟨?_, ?_, ?_⟩
  · refine List.Pairwise.map _ ?_ List.nodup_range
    intro a b hab e
    have := List.append_inj_right' e rfl
    simp at this
    exact hab this
  · refine List.Pairwise.map _ ?_ List.nodup_range
    intro a b hab e
    have := List.append_inj_right' e rfl
    simp at this
    exact hab this
  · intro a ha b hb
    simp only [List.mem_map, List.mem_range] at ha hb
    obtain ⟨j, hj, rfl⟩ := ha
    obtain ⟨p, hp, rfl⟩ := hb
    intro e
    have e1 := List.append_inj_right' e rfl
    have e2 := List.append_inj_left' e rfl
    simp only [List.cons.injEq, and_true] at e1
    subst e1
    have hjv : j ∈ v := (hm j).mpr hj
    rw [e2] at hjv
    simp only [List.mem_map] at hjv
    obtain ⟨b, _, hb⟩ := hjv
    unfold up at hb; split at hb <;> omega

theorem allWeakOrders_nodup (n : Nat) : (allWeakOrders n).Nodup := by
  induction n with
  | zero => simp [allWeakOrders]
  | succ n ih =>
    simp only [allWeakOrders]
    unfold List.Nodup
    rw [List.pairwise_flatMap]
    constructor
    · intro v hv
      exact extendWeak_nodup v ((allWeakOrders_spec n v).mp hv).2
    · refine List.Pairwise.imp_of_mem ?_ ih
      intro a b ha hb hab
      intro x h1 y h2 e
      subst e
      have ea := (extendWeak_sound a ((allWeakOrders_spec n a).mp ha).2 x h1).2.2
      have eb := (extendWeak_sound b ((allWeakOrders_spec n b).mp hb).2 x h2).2.2
      exact hab (ea.symm.trans eb)

/-! ### densification -/

theorem sum_map_le (g : Nat → Nat) (l : List Nat) (h1 : ∀ c ∈ l, g c ≤ c) : (l.map g).sum ≤ l.sum := by
  induction l with
  | nil => simp
  | cons x xs ih =>
    simp only [List.map_cons, List.sum_cons]
    have := h1 x (by simp)
    have := ih (fun c hc => h1 c (by simp [hc]))
    omega

theorem sum_map_lt (g : Nat → Nat) (l : List Nat) (h1 : ∀ c ∈ l, g c ≤ c) (h2 : ∃ a ∈ l, g a < a) :
    (l.map g).sum < l.sum := by
  induction l with
  | nil => obtain ⟨a, ha, _⟩ := h2; simp at ha
  | cons x xs ih =>
    simp only [List.map_cons, List.sum_cons]
    have hx := h1 x (by simp)
    have hle := sum_map_le g xs (fun c hc => h1 c (by simp [hc]))
    obtain ⟨a, ha, hlt⟩ := h2
    rcases List.mem_cons.mp ha with rfl | ha
    · omega
    · have := ih (fun c hc => h1 c (by simp [hc])) ⟨a, ha, hlt⟩
      omega

theorem densify (k : Nat) : ∀ d : List Nat, d.sum = k →
    ∃ d' : List Nat, d'.length = d.length ∧ DenseN d' ∧
      ∀ i j, i < d.length → j < d.length → (d.getD i 0 < d.getD j 0 ↔ d'.getD i 0 < d'.getD j 0) := by
  induction k using Nat.strongRecOn with
  | _ k ih =>
    intro d hk
    by_cases hd : DenseN d
    · exact ⟨d, rfl, hd, fun _ _ _ _ => Iff.rfl⟩
    · unfold DenseN at hd
      obtain ⟨a, hd⟩ := Classical.not_forall.mp hd
      obtain ⟨ha, hd⟩ := Classical.not_imp.mp hd
      obtain ⟨b, hd⟩ := Classical.not_forall.mp hd
      obtain ⟨hb, hbd⟩ := Classical.not_imp.mp hd
      have hlt : (d.map (down b)).sum < d.sum := by
        apply sum_map_lt
        · intro c _; unfold down; split <;> omega
        · exact ⟨a, ha, by unfold down; split <;> omega⟩
      obtain ⟨d', hl, hdd, hc⟩ := ih _ (by omega) (d.map (down b)) rfl
      refine ⟨d', by simpa using hl, hdd, ?_⟩
      intro i j hi hj
      rw [← hc i j (by simpa using hi) (by simpa using hj)]
      rw [BioSM.getD_map' (down b) d i 0 0 hi, BioSM.getD_map' (down b) d j 0 0 hj]
      have h1 : d.getD i 0 ≠ b := fun e => hbd (e ▸ (BioSM.mem_iff_getD d _).mpr ⟨i, hi, rfl⟩)
      have h2 : d.getD j 0 ≠ b := fun e => hbd (e ▸ (BioSM.mem_iff_getD d _).mpr ⟨j, hj, rfl⟩)
      unfold down; split <;> split <;> omega

theorem exists_dense_same_cmp (v : List Int) :
    ∃ d : List Nat, d.length = v.length ∧ DenseN d ∧
      ∀ i j, i < v.length → j < v.length →
        compare (v.getD i 0) (v.getD j 0) = compare (d.getD i 0) (d.getD j 0) := by
  obtain ⟨d, hl, hd, hc⟩ := densify _ (v.map fun (a : Int) => (a + (L4.bound v : Int)).toNat) rfl
  simp only [List.length_map] at hl hc
  refine ⟨d, hl, hd, ?_⟩
  have key : ∀ i j, i < v.length → j < v.length → (d.getD i 0 < d.getD j 0 ↔ v.getD i 0 < v.getD j 0) := by
    intro i j hi hj
    rw [← hc i j hi hj]
    rw [BioSM.getD_map' _ v i 0 0 hi, BioSM.getD_map' _ v j 0 0 hj]
    have := L4.natAbs_le_bound v i
    have := L4.natAbs_le_bound v j
    omega
  intro i j hi hj
  symm
  apply BioSM.cmp_nat_int
  · exact key i j hi hj
  · have := key i j hi hj
    have := key j i hj hi
    omega

/-! ### the exhaustive optimum -/

theorem foldl_min_le (l : List Int) (s : Int) : l.foldl min s ≤ s ∧ ∀ x ∈ l, l.foldl min s ≤ x := by
  induction l generalizing s with
  | nil => simp
  | cons a l ih =>
    simp only [List.foldl_cons, List.mem_cons]
    have := ih (min s a)
    refine ⟨by omega, ?_⟩
    rintro x (rfl | hx)
    · omega
    · exact this.2 x hx

theorem foldl_min_mem (l : List Int) (s : Int) : l.foldl min s = s ∨ l.foldl min s ∈ l := by
  induction l generalizing s with
  | nil => simp
  | cons a l ih =>
    simp only [List.foldl_cons, List.mem_cons]
    rcases ih (min s a) with h | h
    · rw [h]
      rcases Int.le_total s a with g | g
      · left; omega
      · right; left; omega
    · right; right; exact h

theorem allWeakOrders_ne_nil (n : Nat) : allWeakOrders n ≠ [] := by
  intro e
  have := (allWeakOrders_spec n (List.replicate n 0)).mpr ⟨by simp, denseN_replicate n⟩
  rw [e] at this
  simp at this

theorem optScore_le (t : Table) (n : Nat) (d : List Nat) (h : d ∈ allWeakOrders n) :
    optScore t n ≤ scoreN t d := by
  have hm : scoreN t d ∈ (allWeakOrders n).map (scoreN t) := List.mem_map.mpr ⟨d, h, rfl⟩
  unfold optScore
  split
  · rename_i e; rw [e] at hm; simp at hm
  · rename_i s ss e
    rw [e] at hm
    have := foldl_min_le ss s
    rcases List.mem_cons.mp hm with h | h
    · rw [h]; exact this.1
    · exact this.2 _ h

theorem optScore_attained (t : Table) (n : Nat) : ∃ d ∈ allWeakOrders n, scoreN t d = optScore t n := by
  have key : optScore t n ∈ (allWeakOrders n).map (scoreN t) := by
    unfold optScore
    split
    · rename_i e
      exact absurd (List.map_eq_nil_iff.mp e) (allWeakOrders_ne_nil n)
    · rename_i s ss e
      rw [e]
      rcases foldl_min_mem ss s with h | h
      · rw [h]; simp
      · exact List.mem_cons_of_mem _ h
  obtain ⟨d, hd, e⟩ := List.mem_map.mp key
  exact ⟨d, hd, e⟩

theorem compare_ofNat (a b : Nat) : compare (Int.ofNat a) (Int.ofNat b) = compare a b := by
  symm
  apply BioSM.cmp_nat_int <;> simp <;> omega

/-- a key vector and a `Nat` vector with the same comparisons have the same score -/
theorem scoreVec_eq_scoreN (t : Table) (v : List Int) (d : List Nat) (hl : d.length = v.length)
    (h : ∀ i j, i < v.length → j < v.length →
        compare (v.getD i 0) (v.getD j 0) = compare (d.getD i 0) (d.getD j 0)) :
    scoreVec t v = scoreN t d := by
  unfold scoreN
  apply scoreVec_congr_cmp t v _ (by simp [hl])
  intro i j hi hj
  rw [BioSM.getD_map' _ d i 0 0 (by omega), BioSM.getD_map' _ d j 0 0 (by omega), compare_ofNat]
  exact h i j hi hj

theorem optScore_le_scoreVec (t : Table) (n : Nat) (v : List Int) (hv : v.length = n) :
    optScore t n ≤ scoreVec t v := by
  obtain ⟨d, hl, hd, hc⟩ := exists_dense_same_cmp v
  rw [scoreVec_eq_scoreN t v d hl hc]
  exact optScore_le t n d ((allWeakOrders_spec n d).mpr ⟨by omega, hd⟩)

theorem optimal_iff (t : Table) (n : Nat) (v : List Int) :
    Optimal t n v ↔ v.length = n ∧ scoreVec t v = optScore t n := by
  constructor
  · rintro ⟨hl, ho⟩
    refine ⟨hl, ?_⟩
    obtain ⟨d, hd, e⟩ := optScore_attained t n
    have h1 := ho (d.map fun b => Int.ofNat b) (by simp [((allWeakOrders_spec n d).mp hd).1])
    have h2 := optScore_le_scoreVec t n v hl
    unfold scoreN at e
    omega
  · rintro ⟨hl, e⟩
    refine ⟨hl, fun w hw => ?_⟩
    rw [e]; exact optScore_le_scoreVec t n w hw

theorem optScore_spec (t : Table) (n : Nat) :
    (∀ v : List Int, v.length = n → optScore t n ≤ scoreVec t v) ∧
    (∀ v : List Int, Optimal t n v → scoreVec t v = optScore t n) :=
  ⟨optScore_le_scoreVec t n, fun v hv => ((optimal_iff t n v).mp hv).2⟩

theorem optima_spec (t : Table) (n : Nat) (d : List Nat) :
    d ∈ optima t n ↔ (d.length = n ∧ DenseN d ∧ Optimal t n (d.map fun b => Int.ofNat b)) := by
  unfold optima
  simp only [List.mem_filter, allWeakOrders_spec, optimal_iff, beq_iff_eq, List.length_map]
  unfold scoreN
  constructor
  · rintro ⟨⟨h1, h2⟩, h3⟩; exact ⟨h1, h2, h1, h3⟩
  · rintro ⟨h1, h2, _, h3⟩; exact ⟨⟨h1, h2⟩, h3⟩

/-! ### breaking ties -/

/-- keys `(v[i], off i)` in lexicographic order, coded on one integer. -/
def spread (K : Int) (off : Nat → Int) (v : List Int) : List Int :=
  (List.range v.length).map fun i => v.getD i 0 * K + off i

@[simp] theorem spread_length (K : Int) (off : Nat → Int) (v : List Int) : (spread K off v).length = v.length := by
  simp [spread]

theorem spread_getD (K : Int) (off : Nat → Int) (v : List Int) (i : Nat) (h : i < v.length) :
    (spread K off v).getD i 0 = v.getD i 0 * K + off i := by
  unfold spread; rw [getD_range_map _ _ _ _ h]

theorem mul_step (a b K : Int) (hK : 0 ≤ K) (h : a < b) : a * K + K ≤ b * K := by
  have h1 : (a + 1) * K ≤ b * K := Int.mul_le_mul_of_nonneg_right (by omega) hK
  rw [Int.add_mul, Int.one_mul] at h1
  exact h1

theorem sel_spread_pair (t : Table) (v : List Int) (K : Int) (off1 off2 : Nat → Int) (i j : Nat)
    (hi : i < v.length) (hj : j < v.length)
    (h1 : ∀ k, k < v.length → 0 ≤ off1 k ∧ off1 k < K) (h2 : ∀ k, k < v.length → 0 ≤ off2 k ∧ off2 k < K)
    (h12 : off1 i < off1 j) (h21 : off2 j < off2 i) (hb : t.bef i j + t.aft i j ≤ 2 * t.tie i j) :
    sel t (spread K off1 v) i j + sel t (spread K off2 v) i j ≤ sel t v i j + sel t v i j := by
  have hK : 0 ≤ K := by have := h1 i hi; omega
  have a1 := h1 i hi; have a2 := h1 j hj; have b1 := h2 i hi; have b2 := h2 j hj
  simp only [sel, spread_getD _ _ _ _ hi, spread_getD _ _ _ _ hj]
  generalize v.getD i 0 = a at *
  generalize v.getD j 0 = b at *
  rcases Int.lt_trichotomy a b with h | h | h
  · have := mul_step a b K hK h
    repeat' split
    all_goals omega
  · subst h
    repeat' split
    all_goals omega
  · have := mul_step b a K hK h
    repeat' split
    all_goals omega

theorem spread_ne (v : List Int) (K : Int) (off : Nat → Int) (i j : Nat)
    (hi : i < v.length) (hj : j < v.length)
    (h1 : ∀ k, k < v.length → 0 ≤ off k ∧ off k < K) (hne : off i ≠ off j) :
    (spread K off v).getD i 0 ≠ (spread K off v).getD j 0 := by
  have hK : 0 ≤ K := by have := h1 i hi; omega
  have a1 := h1 i hi; have a2 := h1 j hj
  rw [spread_getD _ _ _ _ hi, spread_getD _ _ _ _ hj]
  generalize v.getD i 0 = a at *
  generalize v.getD j 0 = b at *
  rcases Int.lt_trichotomy a b with h | h | h
  · have := mul_step a b K hK h; omega
  · subst h; omega
  · have := mul_step b a K hK h; omega

theorem noTieOK_pair (t : Table) (n : Nat) (θ : Int) (h : noTieOK t n θ = true) (p : Nat × Nat)
    (hp : p ∈ pairs (List.range n)) : t.bef p.1 p.2 + t.aft p.1 p.2 - 2 * t.tie p.1 p.2 ≤ θ := by
  unfold noTieOK ltPairs at h
  rw [List.all_eq_true] at h
  simpa using h p hp

theorem isum_map_double {α : Type} (f : α → Int) (l : List α) :
    isum (l.map fun a => f a + f a) = 2 * isum (l.map f) := by
  rw [isum_map_add]; omega

theorem prune_noties (t : Table) (n : Nat) (h : noTieOK t n 0 = true) (v : List Int) (hv : v.length = n) :
    ∃ w : List Int, w.length = n ∧ scoreVec t w ≤ scoreVec t v ∧
      ∀ i j, i < n → j < n → i ≠ j → w.getD i 0 ≠ w.getD j 0 := by
  let K : Int := (n : Int) + 1
  let off1 : Nat → Int := fun i => (i : Int)
  let off2 : Nat → Int := fun i => (n : Int) - (i : Int)
  have h1 : ∀ k, k < v.length → 0 ≤ off1 k ∧ off1 k < K := by intro k hk; simp only [off1, K]; omega
  have h2 : ∀ k, k < v.length → 0 ≤ off2 k ∧ off2 k < K := by intro k hk; simp only [off2, K]; omega
  have hsum : scoreVec t (spread K off1 v) + scoreVec t (spread K off2 v) ≤ 2 * scoreVec t v := by
    unfold scoreVec
    simp only [spread_length]
    rw [← isum_map_double, ← isum_map_add]
    apply L4.isum_map_le
    intro p hp
    obtain ⟨q1, q2⟩ := mem_pairs_range p hp
    have hb := noTieOK_pair t n 0 h p (hv ▸ hp)
    exact sel_spread_pair t v K off1 off2 p.1 p.2 (by omega) q2 h1 h2 (by simp only [off1]; omega)
      (by simp only [off2]; omega) (by omega)
  by_cases hc : scoreVec t (spread K off1 v) ≤ scoreVec t v
  · refine ⟨_, by simp [hv], hc, ?_⟩
    intro i j hi hj hij
    exact spread_ne v K off1 i j (by omega) (by omega) h1 (by simp only [off1]; omega)
  · refine ⟨spread K off2 v, by simp [hv], by omega, ?_⟩
    intro i j hi hj hij
    exact spread_ne v K off2 i j (by omega) (by omega) h2 (by simp only [off2]; omega)

end WO
end Corankco
