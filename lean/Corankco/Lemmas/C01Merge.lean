import Corankco.Model.Kemeny
import Corankco.Lemmas.C01Cross
/-
  C01 helper lemmas, part 2: the merge-sort-like inversion counting.
  `mergeCount` on sorted inputs returns the sorted merge and counts cross inversions / cross ties (port of the
  spike), `mergeSortLike` on a list of sorted lists returns the sum of these over all pairs of lists,
  `tieRun` on a sorted list counts the pairs of positions carrying different values.
-/
namespace Corankco
namespace C01
open Model

/-- number of (x,y) ∈ L×R with x > y -/
def crossGt (L R : List Nat) : Nat := (L.map (fun x => R.countP (· < x))).sum
/-- number of (x,y) ∈ L×R with x = y -/
def crossEq (L R : List Nat) : Nat := (L.map (fun x => R.countP (· == x))).sum


def Sorted (l : List Nat) : Prop := l.Pairwise (· ≤ ·)

theorem crossGt_nil_right (L : List Nat) : crossGt L [] = 0 := by
  induction L with
  | nil => rfl
  | cons a L ih => simp [crossGt] at *; exact ih
theorem crossEq_nil_right (L : List Nat) : crossEq L [] = 0 := by
  induction L with
  | nil => rfl
  | cons a L ih => simp [crossEq] at *; exact ih

theorem crossGt_cons_left (a : Nat) (L R : List Nat) :
    crossGt (a :: L) R = R.countP (· < a) + crossGt L R := by simp [crossGt]
theorem crossEq_cons_left (a : Nat) (L R : List Nat) :
    crossEq (a :: L) R = R.countP (· == a) + crossEq L R := by simp [crossEq]

theorem crossGt_cons_right (b : Nat) (L R : List Nat) :
    crossGt L (b :: R) = L.countP (b < ·) + crossGt L R := by
  induction L with
  | nil => simp [crossGt]
  | cons a L ih =>
    simp only [crossGt_cons_left, ih, List.countP_cons]
    by_cases h : b < a <;> simp [h] <;> omega
theorem crossEq_cons_right (b : Nat) (L R : List Nat) :
    crossEq L (b :: R) = L.countP (· == b) + crossEq L R := by
  induction L with
  | nil => simp [crossEq]
  | cons a L ih =>
    simp only [crossEq_cons_left, ih, List.countP_cons]
    by_cases h : a = b
    · subst h; simp; omega
    · have : ¬ b = a := fun e => h e.symm
      simp [h, this]; omega

theorem countP_eq_zero_of {p : Nat → Bool} {l : List Nat} (h : ∀ x ∈ l, p x = false) : l.countP p = 0 := by
  rw [List.countP_eq_zero]; intro x hx; simp [h x hx]
theorem countP_eq_length_of {p : Nat → Bool} {l : List Nat} (h : ∀ x ∈ l, p x = true) : l.countP p = l.length := by
  rw [List.countP_eq_length]; exact h


theorem sorted_tail {a : Nat} {l : List Nat} (h : Sorted (a :: l)) : Sorted l := (List.pairwise_cons.mp h).2
theorem sorted_head_le {a : Nat} {l : List Nat} (h : Sorted (a :: l)) : ∀ x ∈ l, a ≤ x := (List.pairwise_cons.mp h).1

/-- in a sorted list starting with a, the run of a's is takeWhile, the rest is > a -/
theorem dropWhile_gt {a : Nat} {l : List Nat} (h : Sorted (a :: l)) : ∀ x ∈ l.dropWhile (· == a), a < x := by
  induction l with
  | nil => simp
  | cons b l ih =>
    have hab : a ≤ b := sorted_head_le h b (by simp)
    have hsl : Sorted (a :: l) := by
      have := List.pairwise_cons.mp h
      exact List.pairwise_cons.mpr ⟨fun x hx => this.1 x (by simp [hx]), (List.pairwise_cons.mp this.2).2⟩
    simp only [List.dropWhile]
    by_cases hb : b = a
    · subst hb; simpa using ih hsl
    · have hne : (b == a) = false := by simp [hb]
      simp only [hne]
      intro x hx
      have hbl : Sorted (b :: l) := sorted_tail h
      rcases List.mem_cons.mp hx with rfl | hx
      · omega
      · have := sorted_head_le hbl x hx; omega

theorem takeWhile_all_eq (a : Nat) (l : List Nat) : ∀ x ∈ l.takeWhile (· == a), x = a := by
  induction l with
  | nil => simp
  | cons b l ih =>
    intro x hx
    simp only [List.takeWhile] at hx
    by_cases hb : b = a
    · subst hb; simp at hx; rcases hx with rfl | hx
      · rfl
      · exact ih x hx
    · have : (b == a) = false := by simp [hb]
      simp [this] at hx

theorem sorted_dropWhile {l : List Nat} (p : Nat → Bool) (h : Sorted l) : Sorted (l.dropWhile p) :=
  List.Pairwise.sublist (List.dropWhile_sublist p) h

theorem takeWhile_append_dropWhile' (p : Nat → Bool) (l : List Nat) : l.takeWhile p ++ l.dropWhile p = l :=
  List.takeWhile_append_dropWhile

theorem crossGt_append_left (L1 L2 R : List Nat) : crossGt (L1 ++ L2) R = crossGt L1 R + crossGt L2 R := by
  simp [crossGt]
theorem crossEq_append_left (L1 L2 R : List Nat) : crossEq (L1 ++ L2) R = crossEq L1 R + crossEq L2 R := by
  simp [crossEq]
theorem crossGt_append_right (L R1 R2 : List Nat) : crossGt L (R1 ++ R2) = crossGt L R1 + crossGt L R2 := by
  induction L with
  | nil => simp [crossGt]
  | cons a L ih => simp only [crossGt_cons_left, ih, List.countP_append]; omega
theorem crossEq_append_right (L R1 R2 : List Nat) : crossEq L (R1 ++ R2) = crossEq L R1 + crossEq L R2 := by
  induction L with
  | nil => simp [crossEq]
  | cons a L ih => simp only [crossEq_cons_left, ih, List.countP_append]; omega

/-- all of L equal a, all of R equal a -/
theorem cross_const (a : Nat) (L R : List Nat) (hL : ∀ x ∈ L, x = a) (hR : ∀ x ∈ R, x = a) :
    crossGt L R = 0 ∧ crossEq L R = L.length * R.length := by
  induction L with
  | nil => simp [crossGt, crossEq]
  | cons x L ih =>
    have hx : x = a := hL x (by simp)
    have ih' := ih (fun y hy => hL y (by simp [hy]))
    subst hx
    have c1 : R.countP (· < x) = 0 := countP_eq_zero_of (fun y hy => by simp [hR y hy])
    have c2 : R.countP (· == x) = R.length := countP_eq_length_of (fun y hy => by simp [hR y hy])
    simp only [crossGt_cons_left, crossEq_cons_left, c1, c2, ih'.1, ih'.2, List.length_cons]
    have e : (L.length + 1) * R.length = L.length * R.length + R.length := by rw [Nat.add_mul, Nat.one_mul]
    refine ⟨?_, ?_⟩ <;> first | trivial | omega | (rw [e, Nat.add_comm]) | (rw [e])

/-- all of L > everything in R  -/
theorem cross_all_gt (L R : List Nat) (h : ∀ x ∈ L, ∀ y ∈ R, y < x) :
    crossGt L R = L.length * R.length ∧ crossEq L R = 0 := by
  induction L with
  | nil => simp [crossGt, crossEq]
  | cons x L ih =>
    have ih' := ih (fun y hy => h y (by simp [hy]))
    have c1 : R.countP (· < x) = R.length := countP_eq_length_of (fun y hy => by simpa using h x (by simp) y hy)
    have c2 : R.countP (· == x) = 0 := countP_eq_zero_of (fun y hy => by have := h x (by simp) y hy; simp; omega)
    simp only [crossGt_cons_left, crossEq_cons_left, c1, c2, ih'.1, ih'.2, List.length_cons]
    have e : (L.length + 1) * R.length = L.length * R.length + R.length := by rw [Nat.add_mul, Nat.one_mul]
    refine ⟨?_, ?_⟩ <;> first | trivial | omega | (rw [e, Nat.add_comm]) | (rw [e])

/-- all of L < everything in R, or ≤ with no equality... : nothing counted -/
theorem cross_all_lt (L R : List Nat) (h : ∀ x ∈ L, ∀ y ∈ R, x < y) :
    crossGt L R = 0 ∧ crossEq L R = 0 := by
  induction L with
  | nil => simp [crossGt, crossEq]
  | cons x L ih =>
    have ih' := ih (fun y hy => h y (by simp [hy]))
    have c1 : R.countP (· < x) = 0 := countP_eq_zero_of (fun y hy => by have := h x (by simp) y hy; simp; omega)
    have c2 : R.countP (· == x) = 0 := countP_eq_zero_of (fun y hy => by have := h x (by simp) y hy; simp; omega)
    simp [crossGt_cons_left, crossEq_cons_left, c1, c2, ih'.1, ih'.2]

theorem mergeCount_counts (L R : List Nat) (hL : Sorted L) (hR : Sorted R) :
    (mergeCount L R).2 = (crossGt L R, crossEq L R) := by
  fun_induction mergeCount L R with
  | case1 r => simp [crossGt, crossEq]
  | case2 a l => simp [crossGt_nil_right, crossEq_nil_right]
  | case3 a l b r hab res ih =>
    have ih' := ih (sorted_tail hL) hR
    have hb : ∀ y ∈ b :: r, a < y := by
      intro y hy; rcases List.mem_cons.mp hy with rfl | hy
      · exact hab
      · have := sorted_head_le hR y hy; omega
    have c1 : (b :: r).countP (· < a) = 0 := countP_eq_zero_of (fun y hy => by have := hb y hy; simp; omega)
    have c2 : (b :: r).countP (· == a) = 0 := countP_eq_zero_of (fun y hy => by have := hb y hy; simp; omega)
    simp only [crossGt_cons_left, crossEq_cons_left, c1, c2]
    simp only [res] at *
    rw [Prod.ext_iff] at ih' ⊢
    simp at ih' ⊢
    omega
  | case4 a l b r hab hba res ih =>
    have ih' := ih hL (sorted_tail hR)
    have ha : ∀ x ∈ a :: l, b < x := by
      intro x hx; rcases List.mem_cons.mp hx with rfl | hx
      · exact hba
      · have := sorted_head_le hL x hx; omega
    have c1 : (a :: l).countP (b < ·) = (a :: l).length := countP_eq_length_of (fun x hx => by simpa using ha x hx)
    have c2 : (a :: l).countP (· == b) = 0 := countP_eq_zero_of (fun x hx => by have := ha x hx; simp; omega)
    rw [crossGt_cons_right, crossEq_cons_right, c1, c2]
    simp only [res] at *
    rw [Prod.ext_iff] at ih' ⊢
    simp at ih' ⊢
    omega
  | case5 a l b r hab hba l1 l2 r1 r2 res ih =>
    have hEq : b = a := by omega
    subst hEq
    have hl2s : Sorted l2 := sorted_dropWhile _ (sorted_tail hL)
    have hr2s : Sorted r2 := sorted_dropWhile _ (sorted_tail hR)
    have ih' := ih hl2s hr2s
    have hl : b :: l = (b :: l1) ++ l2 := by simp [l1, l2, List.takeWhile_append_dropWhile]
    have hr : b :: r = (b :: r1) ++ r2 := by simp [r1, r2, List.takeWhile_append_dropWhile]
    have hl1 : ∀ x ∈ b :: l1, x = b := by
      intro x hx; rcases List.mem_cons.mp hx with rfl | hx
      · rfl
      · exact takeWhile_all_eq b l x hx
    have hr1 : ∀ x ∈ b :: r1, x = b := by
      intro x hx; rcases List.mem_cons.mp hx with rfl | hx
      · rfl
      · exact takeWhile_all_eq b r x hx
    have hl2 : ∀ x ∈ l2, b < x := dropWhile_gt hL
    have hr2 : ∀ x ∈ r2, b < x := dropWhile_gt hR
    have A := cross_const b (b :: l1) (b :: r1) hl1 hr1
    have B := cross_all_lt (b :: l1) r2 (fun x hx y hy => by rw [hl1 x hx]; exact hr2 y hy)
    have C := cross_all_gt l2 (b :: r1) (fun x hx y hy => by rw [hr1 y hy]; exact hl2 x hx)
    rw [hl, hr]
    simp only [crossGt_append_left, crossGt_append_right, crossEq_append_left, crossEq_append_right,
      A.1, A.2, B.1, B.2, C.1, C.2]
    simp only [res] at *
    rw [Prod.ext_iff] at ih' ⊢
    simp only [List.length_cons] at *
    simp at ih' ⊢
    constructor
    · rw [ih'.1, Nat.mul_comm]; omega
    · rw [ih'.2]; omega

/-! ### relation with the generic double count -/

theorem crossGt_eq_cross (L R : List Nat) : crossGt L R = cross (fun x y => decide (y < x)) L R := rfl
theorem crossEq_eq_cross (L R : List Nat) : crossEq L R = cross (fun x y => y == x) L R := rfl

theorem crossGt_perm {L L' R R' : List Nat} (h : L.Perm L') (h' : R.Perm R') :
    crossGt L R = crossGt L' R' := by
  simp only [crossGt_eq_cross]; exact cross_perm _ h h'
theorem crossEq_perm {L L' R R' : List Nat} (h : L.Perm L') (h' : R.Perm R') :
    crossEq L R = crossEq L' R' := by
  simp only [crossEq_eq_cross]; exact cross_perm _ h h'

/-! ### the merged list -/

theorem mergeCount_perm (L R : List Nat) : (mergeCount L R).1.Perm (L ++ R) := by
  fun_induction mergeCount L R with
  | case1 r => simp
  | case2 a l => simp
  | case3 a l b r hab res ih => exact ih.cons a
  | case4 a l b r hab hba res ih =>
    exact (ih.cons b).trans (List.perm_middle (a := b) (l₁ := a :: l) (l₂ := r)).symm
  | case5 a l b r hab hba l1 l2 r1 r2 res ih =>
    have hl : l = l1 ++ l2 := by simp [l1, l2, List.takeWhile_append_dropWhile]
    have hr : r = r1 ++ r2 := by simp [r1, r2, List.takeWhile_append_dropWhile]
    rw [List.perm_iff_count]
    intro x
    have : List.count x res.1 = List.count x (l2 ++ r2) := List.perm_iff_count.mp ih x
    rw [hl, hr]
    simp only [List.count_append, List.count_cons, List.cons_append] at this ⊢
    omega

theorem sorted_of_all_eq (a : Nat) (l : List Nat) (h : ∀ x ∈ l, x = a) : Sorted l := by
  induction l with
  | nil => exact List.Pairwise.nil
  | cons b l ih =>
    refine List.pairwise_cons.mpr ⟨?_, ih (fun x hx => h x (by simp [hx]))⟩
    intro x hx
    have h1 := h b (by simp); have h2 := h x (by simp [hx]); omega

theorem mergeCount_sorted (L R : List Nat) (hL : Sorted L) (hR : Sorted R) : Sorted (mergeCount L R).1 := by
  fun_induction mergeCount L R with
  | case1 r => exact hR
  | case2 a l => exact hL
  | case3 a l b r hab res ih =>
    have ih' := ih (sorted_tail hL) hR
    refine List.pairwise_cons.mpr ⟨?_, ih'⟩
    intro x hx
    have hx' := (mergeCount_perm l (b :: r)).mem_iff.mp hx
    rcases List.mem_append.mp hx' with h | h
    · exact sorted_head_le hL x h
    · rcases List.mem_cons.mp h with rfl | h
      · omega
      · have := sorted_head_le hR x h; omega
  | case4 a l b r hab hba res ih =>
    have ih' := ih hL (sorted_tail hR)
    refine List.pairwise_cons.mpr ⟨?_, ih'⟩
    intro x hx
    have hx' := (mergeCount_perm (a :: l) r).mem_iff.mp hx
    rcases List.mem_append.mp hx' with h | h
    · rcases List.mem_cons.mp h with rfl | h
      · omega
      · have := sorted_head_le hL x h; omega
    · exact sorted_head_le hR x h
  | case5 a l b r hab hba l1 l2 r1 r2 res ih =>
    have hEq : b = a := by omega
    subst hEq
    have ih' := ih (sorted_dropWhile _ (sorted_tail hL)) (sorted_dropWhile _ (sorted_tail hR))
    have hl2 : ∀ x ∈ l2, b < x := dropWhile_gt hL
    have hr2 : ∀ x ∈ r2, b < x := dropWhile_gt hR
    have hfront : ∀ x ∈ b :: l1 ++ b :: r1, x = b := by
      intro x hx
      rcases List.mem_append.mp hx with h | h
      · rcases List.mem_cons.mp h with rfl | h
        · rfl
        · exact takeWhile_all_eq b l x h
      · rcases List.mem_cons.mp h with rfl | h
        · rfl
        · exact takeWhile_all_eq b r x h
    show Sorted ((b :: l1 ++ b :: r1) ++ res.1)
    refine List.pairwise_append.mpr ⟨sorted_of_all_eq b _ hfront, ih', ?_⟩
    intro x hx y hy
    have hy' := (mergeCount_perm l2 r2).mem_iff.mp hy
    rw [hfront x hx]
    rcases List.mem_append.mp hy' with h | h
    · exact Nat.le_of_lt (hl2 y h)
    · exact Nat.le_of_lt (hr2 y h)

/-! ### `mergeSortLike` -/

/-- sum of `F a b` over the pairs `(a, b)` of `l` taken in list order -/
def pairSum {α : Type} (F : α → α → Nat) (l : List α) : Nat := ((pairs l).map (fun p => F p.1 p.2)).sum

theorem pairSum_nil {α : Type} (F : α → α → Nat) : pairSum F [] = 0 := rfl

theorem pairSum_cons {α : Type} (F : α → α → Nat) (a : α) (l : List α) :
    pairSum F (a :: l) = (l.map (F a)).sum + pairSum F l := by
  simp [pairSum, pairs, Function.comp_def]

theorem pairSum_append {α : Type} (F : α → α → Nat) (A B : List α) :
    pairSum F (A ++ B) = pairSum F A + pairSum F B + (A.map (fun a => (B.map (F a)).sum)).sum := by
  induction A with
  | nil => simp [pairSum_nil]
  | cons a A ih =>
    simp only [List.cons_append, pairSum_cons, ih, List.map_append, List.sum_append, List.map_cons, List.sum_cons]
    omega

theorem pairSum_map {α β : Type} (F : β → β → Nat) (f : α → β) (l : List α) :
    pairSum F (l.map f) = pairSum (fun a b => F (f a) (f b)) l := by
  simp [pairSum, pairs_map, Function.comp_def]

theorem pairSum_congr {α : Type} {F G : α → α → Nat} {l : List α}
    (h : ∀ a ∈ l, ∀ b ∈ l, F a b = G a b) : pairSum F l = pairSum G l := by
  unfold pairSum
  apply sum_map_congr
  intro p hp
  have := mem_pairs hp
  exact h p.1 this.1 p.2 this.2

theorem crossGt_flatten (A B : List (List Nat)) :
    crossGt A.flatten B.flatten = (A.map (fun a => (B.map (crossGt a)).sum)).sum := by
  simp only [crossGt_eq_cross]; rw [cross_flatten_left]; simp only [cross_flatten_right]; rfl

theorem crossEq_flatten (A B : List (List Nat)) :
    crossEq A.flatten B.flatten = (A.map (fun a => (B.map (crossEq a)).sum)).sum := by
  simp only [crossEq_eq_cross]; rw [cross_flatten_left]; simp only [cross_flatten_right]; rfl

/-- what `mergeSortLike` returns on a list of sorted lists -/
def MSpec (ls : List (List Nat)) (res : List Nat × Nat × Nat) : Prop :=
  res.1.Perm ls.flatten ∧ Sorted res.1 ∧ res.2.1 = pairSum crossGt ls ∧ res.2.2 = pairSum crossEq ls

theorem MSpec_step (A B : List (List Nat)) (ra rb : List Nat × Nat × Nat) (hA : MSpec A ra) (hB : MSpec B rb) :
    MSpec (A ++ B) ((mergeCount ra.1 rb.1).1, ra.2.1 + rb.2.1 + (mergeCount ra.1 rb.1).2.1,
      ra.2.2 + rb.2.2 + (mergeCount ra.1 rb.1).2.2) := by
  obtain ⟨pA, sA, gA, eA⟩ := hA
  obtain ⟨pB, sB, gB, eB⟩ := hB
  have hc := mergeCount_counts _ _ sA sB
  have hp := mergeCount_perm ra.1 rb.1
  have hso := mergeCount_sorted _ _ sA sB
  rw [Prod.ext_iff] at hc
  simp only at hc
  refine ⟨?_, hso, ?_, ?_⟩
  · rw [List.flatten_append]
    exact hp.trans (pA.append pB)
  · show ra.2.1 + rb.2.1 + (mergeCount ra.1 rb.1).2.1 = _
    rw [pairSum_append, hc.1, gA, gB, crossGt_perm pA pB, crossGt_flatten]
  · show ra.2.2 + rb.2.2 + (mergeCount ra.1 rb.1).2.2 = _
    rw [pairSum_append, hc.2, eA, eB, crossEq_perm pA pB, crossEq_flatten]

/-- `mergeSortLike` on sorted lists: sorted merge of everything, cross inversions and cross ties summed over all
    pairs of lists. -/
theorem mergeSortLike_spec (ls : List (List Nat)) (hs : ∀ s ∈ ls, Sorted s) : MSpec ls (mergeSortLike ls) := by
  fun_induction mergeSortLike ls with
  | case1 => exact ⟨by simp, List.Pairwise.nil, rfl, rfl⟩
  | case2 x => exact ⟨by simp, hs x (by simp), by simp [pairSum, pairs], by simp [pairSum, pairs]⟩
  | case3 x y rest k iha _ _ ihb =>
    have hA := iha (fun s h => hs s (List.mem_of_mem_take h))
    have hB := ihb (fun s h => hs s (List.mem_of_mem_drop h))
    have := MSpec_step _ _ _ _ hA hB
    rw [List.take_append_drop] at this
    exact this

/-! ### `tieRun` -/

theorem tieRun_sorted (s : List Nat) (hs : Sorted s) : tieRun s = crossGt s s := by
  fun_induction tieRun s with
  | case1 => rfl
  | case2 a l run rest ih =>
    have ih' := ih (sorted_dropWhile _ (sorted_tail hs))
    have hl : a :: l = (a :: run) ++ rest := by simp [run, rest, List.takeWhile_append_dropWhile]
    have hrun : ∀ x ∈ a :: run, x = a := by
      intro x hx; rcases List.mem_cons.mp hx with rfl | hx
      · rfl
      · exact takeWhile_all_eq a l x hx
    have hrest : ∀ x ∈ rest, a < x := dropWhile_gt hs
    have A := cross_const a (a :: run) (a :: run) hrun hrun
    have B := cross_all_lt (a :: run) rest (fun x hx y hy => by rw [hrun x hx]; exact hrest y hy)
    have C := cross_all_gt rest (a :: run) (fun x hx y hy => by rw [hrun y hy]; exact hrest x hx)
    rw [hl]
    simp only [crossGt_append_left, crossGt_append_right, A.1, B.1, C.1, ih', List.length_cons]
    rw [Nat.mul_comm]; omega

/-! ### `sortNat` -/

theorem insertSorted_perm (a : Nat) (l : List Nat) : (insertSorted a l).Perm (a :: l) := by
  induction l with
  | nil => simp [insertSorted]
  | cons b l ih =>
    simp only [insertSorted]
    split
    · exact List.Perm.refl _
    · exact (ih.cons b).trans (List.Perm.swap a b l)

theorem insertSorted_sorted (a : Nat) (l : List Nat) (h : Sorted l) : Sorted (insertSorted a l) := by
  induction l with
  | nil => simp [insertSorted, Sorted]
  | cons b l ih =>
    simp only [insertSorted]
    split
    · rename_i hab
      refine List.pairwise_cons.mpr ⟨?_, h⟩
      intro x hx
      rcases List.mem_cons.mp hx with rfl | hx
      · exact hab
      · have := sorted_head_le h x hx; omega
    · rename_i hab
      refine List.pairwise_cons.mpr ⟨?_, ih (sorted_tail h)⟩
      intro x hx
      have hx' := (insertSorted_perm a l).mem_iff.mp hx
      rcases List.mem_cons.mp hx' with rfl | hx'
      · omega
      · exact sorted_head_le h x hx'

theorem sortNat_perm (l : List Nat) : (sortNat l).Perm l := by
  induction l with
  | nil => exact List.Perm.refl _
  | cons a l ih => exact (insertSorted_perm a _).trans (ih.cons a)

theorem sortNat_sorted (l : List Nat) : Sorted (sortNat l) := by
  induction l with
  | nil => exact List.Pairwise.nil
  | cons a l ih => exact insertSorted_sorted a _ ih

end C01
end Corankco
