import Corankco.Lemmas.C01Defs
/-
  C01 helper lemmas, part 7: the dot products of the count vectors under a valid scheme, and the accumulation
  over the dataset in `getScore`.
-/
namespace Corankco
namespace C01
open Model Spec

/-- under the validity constraints (`b0 = 0`, `t2 = 0`, `t0 = t1`, `t3 = t4`) the two dot products of the count
    vectors give the score against one ranking -/
theorem dot_counts_eq_kemenyOne (S : Scheme) (hS : S.Valid) (c r : Ranking) (v : List Nat × List Nat)
    (hv : v = ([0, nOrd c r 1, nOrd c r 2, nOrd c r 3, nOrd c r 4, nOrd c r 5],
       [nTie c r 0 + nTie c r 1, 0, 0, nTie c r 3 + nTie c r 4, 0, nTie c r 5])) :
    dot v.1 S.bList + dot v.2 S.tList = kemenyOne S c r := by
  obtain ⟨_, _, _, _, _, _, _, _, _, _, _, _, hb0, _, _, ht01, ht2, ht34⟩ := hS
  rw [kemenyOne_eq_counts, hv]
  simp only [dot, Scheme.bList, Scheme.tList, Int.natCast_add, hb0, ht2, ht01, ht34]
  grind

theorem dot_addVec (v w : List Nat) (u : List Int) (h : v.length = w.length) :
    dot (addVec v w) u = dot v u + dot w u := by
  induction v generalizing w u with
  | nil =>
    cases w with
    | nil => simp [addVec, dot]
    | cons b w => simp at h
  | cons a v ih =>
    cases w with
    | nil => simp at h
    | cons b w =>
      simp only [List.length_cons, Nat.add_right_cancel_iff] at h
      cases u with
      | nil => simp [addVec, dot]
      | cons e u =>
        simp only [addVec, dot, ih w u h, Int.natCast_add]
        grind

theorem addVec_length (v w : List Nat) (h : v.length = w.length) : (addVec v w).length = v.length := by
  induction v generalizing w with
  | nil => cases w <;> simp [addVec]
  | cons a v ih =>
    cases w with
    | nil => simp at h
    | cons b w =>
      simp only [List.length_cons, Nat.add_right_cancel_iff] at h
      simp [addVec, ih w h]

/-- the accumulation loop of `getScore` -/
theorem foldl_score (S : Scheme) (c : Ranking) (D : Dataset) (n : Nat) (acc : List Nat × List Nat)
    (h1 : acc.1.length = n) (h2 : acc.2.length = n)
    (hcost : ∀ r ∈ D, (costByRanking c r).1.length = n ∧ (costByRanking c r).2.length = n ∧
      dot (costByRanking c r).1 S.bList + dot (costByRanking c r).2 S.tList = kemenyOne S c r) :
    dot (D.foldl (fun acc r => (addVec acc.1 (costByRanking c r).1, addVec acc.2 (costByRanking c r).2)) acc).1 S.bList
      + dot (D.foldl (fun acc r => (addVec acc.1 (costByRanking c r).1, addVec acc.2 (costByRanking c r).2)) acc).2 S.tList
      = dot acc.1 S.bList + dot acc.2 S.tList + isum (D.map (kemenyOne S c)) := by
  induction D generalizing acc with
  | nil => simp [isum]
  | cons r D ih =>
    obtain ⟨l1, l2, hk⟩ := hcost r (by simp)
    simp only [List.foldl_cons, List.map_cons, isum]
    rw [ih _ (by simp [addVec_length _ _ (h1.trans l1.symm), h1])
      (by simp [addVec_length _ _ (h2.trans l2.symm), h2]) (fun r' hr' => hcost r' (by simp [hr']))]
    simp only []
    rw [dot_addVec _ _ _ (h1.trans l1.symm), dot_addVec _ _ _ (h2.trans l2.symm), ← hk]
    grind

theorem covers_sub {c : Ranking} {D : Dataset} (hcov : covers c D = true) :
    ∀ r ∈ D, ∀ x ∈ r.flatten, x ∈ c.flatten := by
  intro r hr x hx
  unfold covers at hcov
  rw [List.all_eq_true] at hcov
  obtain ⟨b, hb, hxb⟩ := List.mem_flatten.mp hx
  have := hcov x (List.mem_flatten.mpr ⟨b, List.mem_flatten.mpr ⟨r, hr, hb⟩, hxb⟩)
  simpa using this

end C01
end Corankco
