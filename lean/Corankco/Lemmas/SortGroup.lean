import Corankco.Lemmas.Basic
import Corankco.Spec.Algos
/-
  L5 — the shared "sort-and-group" lemma.

  For a total preorder `le` (Bool-valued; totality and transitivity are only required on the members of the
  list, through a predicate `P`) and `eq a b = (le a b && le b a)`:
  `groupAdj eq (sortBy le l)` is a list of non-empty groups whose concatenation is a permutation of `l`,
  constant (pairwise equivalent) inside each group, strictly increasing across groups (`OrdGroups`).
  Such a list of groups, read as a ranking, satisfies `Spec.ordersBy`.
-/
namespace Corankco
open Model

/-- non-empty groups, pairwise equivalent inside a group, strictly increasing across groups. -/
def OrdGroups {α : Type} (le : α → α → Bool) (gs : List (List α)) : Prop :=
  (∀ g ∈ gs, g ≠ []) ∧
  (∀ g ∈ gs, ∀ a ∈ g, ∀ b ∈ g, le a b = true) ∧
  gs.Pairwise (fun g h => ∀ a ∈ g, ∀ b ∈ h, le a b = true ∧ le b a = false)

namespace SortGroup

variable {α : Type}

/-! ### association lists built from a key list -/

theorem zip_map_self {β : Type} (l : List Elem) (g : Elem → β) :
    l.zip (l.map g) = l.map fun x => (x, g x) := by
  induction l with
  | nil => rfl
  | cons a l ih => simp [ih]

theorem lookup_map_self {β : Type} (l : List Elem) (g : Elem → β) (x : Elem) (hx : x ∈ l) :
    (l.map fun y => (y, g y)).lookup x = some (g x) := by
  induction l with
  | nil => simp at hx
  | cons a l ih =>
    simp only [List.map_cons, List.lookup_cons]
    by_cases e : x = a
    · subst e; simp
    · have : (x == a) = false := by simp [e]
      rw [this]
      exact ih (by simpa [e] using hx)

/-! ### `insertBy`, `sortBy` -/

theorem insertBy_perm (le : α → α → Bool) (a : α) (l : List α) : (insertBy le a l).Perm (a :: l) := by
  induction l with
  | nil => simp [insertBy]
  | cons b l ih =>
    unfold insertBy
    by_cases h : le b a = true
    · simp only [h, if_true]
      exact (List.Perm.cons b ih).trans (List.Perm.swap a b l)
    · simp [h]

theorem foldl_insertBy_perm (le : α → α → Bool) (l acc : List α) :
    (l.foldl (fun acc a => insertBy le a acc) acc).Perm (acc ++ l) := by
  induction l generalizing acc with
  | nil => simp
  | cons a l ih =>
    simp only [List.foldl_cons]
    refine (ih _).trans ?_
    have h1 : (insertBy le a acc ++ l).Perm ((a :: acc) ++ l) := List.Perm.append_right l (insertBy_perm le a acc)
    refine h1.trans ?_
    simp only [List.cons_append]
    exact List.perm_middle.symm

theorem sortBy_perm (le : α → α → Bool) (l : List α) : (sortBy le l).Perm l := by
  have := foldl_insertBy_perm le l []
  simpa [sortBy] using this

theorem mem_insertBy {le : α → α → Bool} {a x : α} {l : List α} : x ∈ insertBy le a l ↔ x = a ∨ x ∈ l := by
  rw [(insertBy_perm le a l).mem_iff, List.mem_cons]

theorem mem_sortBy {le : α → α → Bool} {x : α} {l : List α} : x ∈ sortBy le l ↔ x ∈ l :=
  (sortBy_perm le l).mem_iff

section sorted
variable (P : α → Prop) (le : α → α → Bool)
variable (tot : ∀ a b, P a → P b → le a b = true ∨ le b a = true)
variable (tr : ∀ a b c, P a → P b → P c → le a b = true → le b c = true → le a c = true)
include tot tr

theorem insertBy_sorted (a : α) (l : List α) (ha : P a) (hl : ∀ b ∈ l, P b)
    (hs : l.Pairwise (fun x y => le x y = true)) :
    (insertBy le a l).Pairwise (fun x y => le x y = true) := by
  induction l with
  | nil => simp [insertBy]
  | cons b l ih =>
    rw [List.pairwise_cons] at hs
    have hb : P b := hl b (by simp)
    have hl' : ∀ c ∈ l, P c := fun c hc => hl c (by simp [hc])
    unfold insertBy
    by_cases h : le b a = true
    · simp only [h, if_true, List.pairwise_cons]
      refine ⟨?_, ih hl' hs.2⟩
      intro c hc
      rcases mem_insertBy.mp hc with rfl | hc
      · exact h
      · exact hs.1 c hc
    · simp only [h]
      have hab : le a b = true := by
        rcases tot a b ha hb with h' | h'
        · exact h'
        · exact absurd h' h
      simp only [Bool.false_eq_true, if_false, List.pairwise_cons]
      refine ⟨?_, hs.1, hs.2⟩
      intro c hc
      rcases List.mem_cons.mp hc with rfl | hc
      · exact hab
      · exact tr a b c ha hb (hl' c hc) hab (hs.1 c hc)

theorem foldl_insertBy_sorted (l acc : List α) (hl : ∀ b ∈ l, P b) (hacc : ∀ b ∈ acc, P b)
    (hs : acc.Pairwise (fun x y => le x y = true)) :
    (l.foldl (fun acc a => insertBy le a acc) acc).Pairwise (fun x y => le x y = true) := by
  induction l generalizing acc with
  | nil => simpa using hs
  | cons a l ih =>
    simp only [List.foldl_cons]
    have ha : P a := hl a (by simp)
    apply ih _ (fun b hb => hl b (by simp [hb]))
    · intro b hb
      rcases mem_insertBy.mp hb with rfl | hb
      · exact ha
      · exact hacc b hb
    · exact insertBy_sorted P le tot tr a acc ha hacc hs

theorem sortBy_sorted (l : List α) (hl : ∀ b ∈ l, P b) :
    (sortBy le l).Pairwise (fun x y => le x y = true) :=
  foldl_insertBy_sorted P le tot tr l [] hl (by simp) List.Pairwise.nil

end sorted

/-! ### `groupAdj` -/

theorem groupAdj_flatten (eq : α → α → Bool) (l : List α) : (groupAdj eq l).flatten = l := by
  induction l with
  | nil => rfl
  | cons a l ih =>
    unfold groupAdj
    cases hg : groupAdj eq l with
    | nil => rw [hg] at ih; simp at ih; simp [ih]
    | cons g gs =>
      rw [hg] at ih
      cases g with
      | nil => simp at ih ⊢; exact ih
      | cons b g' =>
        by_cases h : eq a b = true
        · simp only [h, if_true]; simpa using ih
        · simp only [h]; simpa using ih

theorem groupAdj_ordGroups (P : α → Prop) (le eq : α → α → Bool)
    (tot : ∀ a b, P a → P b → le a b = true ∨ le b a = true)
    (tr : ∀ a b c, P a → P b → P c → le a b = true → le b c = true → le a c = true)
    (heq : ∀ a b, P a → P b → eq a b = (le a b && le b a))
    (l : List α) (hl : ∀ b ∈ l, P b) (hs : l.Pairwise (fun x y => le x y = true)) :
    OrdGroups le (groupAdj eq l) := by
  induction l with
  | nil => exact ⟨by simp [groupAdj], by simp [groupAdj], by simp [groupAdj]⟩
  | cons a l ih =>
    rw [List.pairwise_cons] at hs
    have ha : P a := hl a (by simp)
    have hl' : ∀ c ∈ l, P c := fun c hc => hl c (by simp [hc])
    have haa : le a a = true := by rcases tot a a ha ha with h | h <;> exact h
    obtain ⟨ne, inn, acr⟩ := ih hl' hs.2
    have hfl := groupAdj_flatten eq l
    unfold groupAdj
    cases hg : groupAdj eq l with
    | nil =>
      refine ⟨by simp, ?_, by simp⟩
      intro g hg' x hx y hy
      simp only [List.mem_singleton] at hg'
      subst hg'
      simp only [List.mem_singleton] at hx hy
      subst hx; subst hy; exact haa
    | cons g gs =>
      rw [hg] at ne inn acr hfl
      have memg : ∀ c ∈ g, c ∈ l := by
        intro c hc; rw [← hfl]; simp [hc]
      have memgs : ∀ h ∈ gs, ∀ c ∈ h, c ∈ l := by
        intro h hh c hc; rw [← hfl]
        simp only [List.flatten_cons, List.mem_append, List.mem_flatten]
        exact Or.inr ⟨h, hh, hc⟩
      rw [List.pairwise_cons] at acr
      cases g with
      | nil => exact absurd rfl (ne [] (by simp))
      | cons b g' =>
        have hbl : b ∈ l := memg b (by simp)
        have hb : P b := hl' b hbl
        have hab : le a b = true := hs.1 b hbl
        by_cases h : eq a b = true
        · simp only [h, if_true]
          have hba : le b a = true := by
            rw [heq a b ha hb, hab] at h; simpa using h
          refine ⟨?_, ?_, ?_⟩
          · intro k hk
            rcases List.mem_cons.mp hk with rfl | hk
            · simp
            · exact ne k (by simp [hk])
          · intro k hk x hx y hy
            rcases List.mem_cons.mp hk with rfl | hk
            · have big : ∀ z ∈ a :: b :: g', le a z = true ∧ le z a = true := by
                intro z hz
                rcases List.mem_cons.mp hz with rfl | hz
                · exact ⟨haa, haa⟩
                · have hzl := memg z hz
                  refine ⟨hs.1 z hzl, ?_⟩
                  exact tr z b a (hl' z hzl) hb ha (inn _ (by simp) z hz b (by simp)) hba
              have hPx : P x := by
                rcases List.mem_cons.mp hx with rfl | hx
                · exact ha
                · exact hl' x (memg x hx)
              have hPy : P y := by
                rcases List.mem_cons.mp hy with rfl | hy
                · exact ha
                · exact hl' y (memg y hy)
              exact tr x a y hPx ha hPy (big x hx).2 (big y hy).1
            · exact inn k (by simp [hk]) x hx y hy
          · rw [List.pairwise_cons]
            refine ⟨?_, acr.2⟩
            intro k hk x hx y hy
            rcases List.mem_cons.mp hx with rfl | hx
            · have hyl := memgs k hk y hy
              refine ⟨hs.1 y hyl, ?_⟩
              cases hya : le y x with
              | false => rfl
              | true =>
                have := tr y x b (hl' y hyl) ha hb hya hab
                have h2 := (acr.1 k hk b (by simp) y hy).2
                rw [this] at h2; exact absurd h2 (by simp)
            · exact acr.1 k hk x hx y hy
        · simp only [h]
          have hba : le b a = false := by
            rw [heq a b ha hb, hab] at h
            cases hh : le b a with
            | false => rfl
            | true => rw [hh] at h; simp at h
          simp only [Bool.false_eq_true, if_false]
          refine ⟨?_, ?_, ?_⟩
          · intro k hk
            rcases List.mem_cons.mp hk with rfl | hk
            · simp
            · exact ne k hk
          · intro k hk x hx y hy
            rcases List.mem_cons.mp hk with rfl | hk
            · simp only [List.mem_singleton] at hx hy
              subst hx; subst hy; exact haa
            · exact inn k hk x hx y hy
          · rw [List.pairwise_cons]
            refine ⟨?_, List.pairwise_cons.mpr acr⟩
            intro k hk x hx y hy
            simp only [List.mem_singleton] at hx
            subst hx
            rcases List.mem_cons.mp hk with rfl | hk
            · have hyl := memg y hy
              refine ⟨hs.1 y hyl, ?_⟩
              cases hya : le y x with
              | false => rfl
              | true =>
                have := tr b y x hb (hl' y hyl) ha (inn _ (by simp) b (by simp) y hy) hya
                rw [this] at hba; exact absurd hba (by simp)
            · have hyl := memgs k hk y hy
              refine ⟨hs.1 y hyl, ?_⟩
              cases hya : le y x with
              | false => rfl
              | true =>
                have := tr y x b (hl' y hyl) ha hb hya hab
                have h2 := (acr.1 k hk b (by simp) y hy).2
                rw [this] at h2; exact absurd h2 (by simp)

/-- **L5.** Sorting by a total preorder and grouping adjacent equivalent items yields ordered groups whose
    concatenation is a permutation of the input. -/
theorem sortGroup (P : α → Prop) (le eq : α → α → Bool)
    (tot : ∀ a b, P a → P b → le a b = true ∨ le b a = true)
    (tr : ∀ a b c, P a → P b → P c → le a b = true → le b c = true → le a c = true)
    (heq : ∀ a b, P a → P b → eq a b = (le a b && le b a))
    (l : List α) (hl : ∀ b ∈ l, P b) :
    OrdGroups le (groupAdj eq (sortBy le l)) ∧ (groupAdj eq (sortBy le l)).flatten.Perm l := by
  refine ⟨?_, ?_⟩
  · exact groupAdj_ordGroups P le eq tot tr heq _ (fun b hb => hl b (mem_sortBy.mp hb))
      (sortBy_sorted P le tot tr l hl)
  · rw [groupAdj_flatten]; exact sortBy_perm le l

/-! ### Transport along a key function, and `ordersBy` -/

theorem ordGroups_map {β : Type} (le : α → α → Bool) (le' : β → β → Bool) (k : α → β) (gs : List (List α))
    (hk : ∀ a ∈ gs.flatten, ∀ b ∈ gs.flatten, le a b = le' (k a) (k b))
    (h : OrdGroups le gs) : OrdGroups le' (gs.map (List.map k)) := by
  obtain ⟨ne, inn, acr⟩ := h
  have mem : ∀ g ∈ gs, ∀ a ∈ g, a ∈ gs.flatten := fun g hg a ha => List.mem_flatten.mpr ⟨g, hg, ha⟩
  refine ⟨?_, ?_, ?_⟩
  · intro g hg
    obtain ⟨g0, hg0, rfl⟩ := List.mem_map.mp hg
    simpa using ne g0 hg0
  · intro g hg x hx y hy
    obtain ⟨g0, hg0, rfl⟩ := List.mem_map.mp hg
    obtain ⟨a, ha, rfl⟩ := List.mem_map.mp hx
    obtain ⟨b, hb, rfl⟩ := List.mem_map.mp hy
    rw [← hk a (mem g0 hg0 a ha) b (mem g0 hg0 b hb)]
    exact inn g0 hg0 a ha b hb
  · rw [List.pairwise_map]
    refine List.Pairwise.imp_of_mem ?_ acr
    intro g h hg hh hgh x hx y hy
    obtain ⟨a, ha, rfl⟩ := List.mem_map.mp hx
    obtain ⟨b, hb, rfl⟩ := List.mem_map.mp hy
    rw [← hk a (mem g hg a ha) b (mem h hh b hb), ← hk b (mem h hh b hb) a (mem g hg a ha)]
    exact hgh a ha b hb

theorem bucketIdx_some_mem {r : Ranking} {x : Elem} {i : Nat} (h : bucketIdx r x = some i) :
    ∃ hi : i < r.length, x ∈ r[i] := by
  induction r generalizing i with
  | nil => simp [bucketIdx] at h
  | cons b bs ih =>
    unfold bucketIdx at h
    by_cases hx : x ∈ b
    · simp [hx] at h; subst h; exact ⟨by simp, by simpa using hx⟩
    · cases hb : bucketIdx bs x with
      | none => simp [hx, hb] at h
      | some k =>
        simp [hx, hb] at h
        subst h
        obtain ⟨hk, hm⟩ := ih hb
        exact ⟨by simp; omega, by simpa using hm⟩

/-- Ordered groups over exactly the universe form a ranking that `ordersBy` accepts. -/
theorem ordersBy_of_ordGroups (univ : List Elem) (le : Elem → Elem → Bool) (r : Ranking)
    (h : OrdGroups le r) (hnd : r.flatten.Nodup) (hmem : ∀ x, x ∈ r.flatten ↔ x ∈ univ) :
    Spec.ordersBy univ le r = true := by
  obtain ⟨ne, inn, acr⟩ := h
  unfold Spec.ordersBy Spec.wellFormedRanking
  simp only [Bool.and_eq_true, List.all_eq_true, decide_eq_true_eq, List.contains_iff_mem]
  refine ⟨⟨⟨⟨?_, hnd⟩, fun x hx => (hmem x).mp hx⟩, fun x hx => (hmem x).mpr hx⟩, ?_⟩
  · intro b hb
    have := ne b hb
    cases b with
    | nil => exact absurd rfl this
    | cons _ _ => rfl
  · intro x hx y hy
    obtain ⟨i, hi⟩ := bucketIdx_isSome ((hmem x).mpr hx)
    obtain ⟨j, hj⟩ := bucketIdx_isSome ((hmem y).mpr hy)
    obtain ⟨hi', xi⟩ := bucketIdx_some_mem hi
    obtain ⟨hj', yj⟩ := bucketIdx_some_mem hj
    unfold Spec.cmpIn
    rw [hi, hj]
    simp only [Option.getD_some]
    have acr' := List.pairwise_iff_getElem.mp acr
    rcases Nat.lt_trichotomy i j with hlt | heq | hgt
    · rw [Nat.compare_eq_lt.mpr hlt]
      have := acr' i j hi' hj' hlt x xi y yj
      simp [this.1, this.2]
    · subst heq
      rw [Nat.compare_eq_eq.mpr rfl]
      have h1 := inn r[i] (List.getElem_mem hi') x xi y yj
      have h2 := inn r[i] (List.getElem_mem hi') y yj x xi
      simp [h1, h2]
    · rw [Nat.compare_eq_gt.mpr hgt]
      have := acr' j i hj' hi' hgt y yj x xi
      simp [this.1, this.2]

/-- The combined statement used by Borda and Copeland: items with pairwise distinct keys covering `univ`,
    sorted by `le` and grouped by `eq`, then projected on their keys. -/
theorem ordersBy_sortGroup {β : Type} (P : β → Prop) (le eq : β → β → Bool) (k : β → Elem)
    (univ : List Elem) (le' : Elem → Elem → Bool)
    (tot : ∀ a b, P a → P b → le a b = true ∨ le b a = true)
    (tr : ∀ a b c, P a → P b → P c → le a b = true → le b c = true → le a c = true)
    (heq : ∀ a b, P a → P b → eq a b = (le a b && le b a))
    (l : List β) (hl : ∀ b ∈ l, P b)
    (hk : ∀ a ∈ l, ∀ b ∈ l, le a b = le' (k a) (k b))
    (hnd : (l.map k).Nodup) (hmem : ∀ x, x ∈ l.map k ↔ x ∈ univ) :
    Spec.ordersBy univ le' ((groupAdj eq (sortBy le l)).map fun g => g.map k) = true := by
  obtain ⟨og, pm⟩ := sortGroup P le eq tot tr heq l hl
  have pm' : (((groupAdj eq (sortBy le l)).map fun g => g.map k).flatten).Perm (l.map k) := by
    rw [← List.map_flatten]
    exact pm.map k
  apply ordersBy_of_ordGroups
  · apply ordGroups_map le le' k _ _ og
    intro a ha b hb
    exact hk a (pm.mem_iff.mp ha) b (pm.mem_iff.mp hb)
  · exact pm'.nodup_iff.mpr hnd
  · intro x
    rw [pm'.mem_iff]
    exact hmem x

/-- Two rankings ordering (supersets of) `{x, y}` by the same preorder place `x` and `y` alike. -/
theorem cmpIn_unique (univ univ' : List Elem) (le : Elem → Elem → Bool) (r r' : Ranking)
    (h : Spec.ordersBy univ le r = true) (h' : Spec.ordersBy univ' le r' = true) (x y : Elem)
    (hx : x ∈ univ) (hy : y ∈ univ) (hx' : x ∈ univ') (hy' : y ∈ univ') :
    Spec.cmpIn r x y = Spec.cmpIn r' x y := by
  unfold Spec.ordersBy at h h'
  simp only [Bool.and_eq_true, List.all_eq_true] at h h'
  have a := h.2 x hx y hy
  have b := h'.2 x hx' y hy'
  revert a b
  cases Spec.cmpIn r x y <;> cases Spec.cmpIn r' x y <;> cases le x y <;> cases le y x <;> simp

end SortGroup
end Corankco
