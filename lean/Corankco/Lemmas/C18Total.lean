import Corankco.Model.Parse
/-
  C18 (totality) — helper lemmas: `normIdx` / `findFrom` / `pyFind` range facts, `parseBucket` and `mapM` never
  produce `outOfFuel` on their own, and the fuel argument for `scanLoop`.
-/
namespace Corankco
namespace C18
open Model

theorem normIdx_le (n : Nat) (i : Int) : normIdx n i ≤ n := by
  unfold normIdx
  split <;> split <;> omega

theorem normIdx_nonneg (n : Nat) (i : Int) (hi : 0 ≤ i) : (normIdx n i : Int) = min i n := by
  unfold normIdx
  split <;> split <;> omega

theorem findFrom_some (c : Char) : ∀ (l : List Char) (off i : Nat), findFrom c l off = some i →
    off ≤ i ∧ i < off + l.length ∧ l[i - off]? = some c
  | [], _, _, h => by simp [findFrom] at h
  | x :: xs, off, i, h => by
    unfold findFrom at h
    split at h
    · rename_i hx
      have hx' : x = c := by simpa using hx
      have : off = i := by simpa using h
      subst this
      simp [hx']
    · have ih := findFrom_some c xs (off + 1) i h
      obtain ⟨h1, h2, h3⟩ := ih
      refine ⟨by omega, by simp only [List.length_cons]; omega, ?_⟩
      have : i - off = (i - (off + 1)) + 1 := by omega
      rw [this, List.getElem?_cons_succ]
      exact h3

theorem pyFind_range (s : List Char) (c : Char) (a b : Int) :
    pyFind s c a b = -1 ∨ ((normIdx s.length a : Int) ≤ pyFind s c a b ∧ pyFind s c a b < normIdx s.length b ∧
      s[(pyFind s c a b).toNat]? = some c) := by
  unfold pyFind
  simp only
  split
  · rename_i i hi
    right
    obtain ⟨h1, h2, h3⟩ := findFrom_some c _ _ _ hi
    have hb := normIdx_le s.length b
    simp only [List.length_drop, List.length_take] at h2
    have hlt : i < normIdx s.length b := by omega
    refine ⟨by omega, by omega, ?_⟩
    rw [List.getElem?_drop, List.getElem?_take] at h3
    have : normIdx s.length a + (i - normIdx s.length a) = i := by omega
    rw [this] at h3
    simpa [hlt] using h3
  · left; rfl

/-- a found index is `-1` or a natural number below the length -/
theorem pyFind_lt (s : List Char) (c : Char) (a b : Int) :
    pyFind s c a b = -1 ∨ (0 ≤ pyFind s c a b ∧ pyFind s c a b < s.length) := by
  rcases pyFind_range s c a b with h | ⟨h1, h2, _⟩
  · exact .inl h
  · have := normIdx_le s.length b
    right; omega

/-- the next `en_str` of the loop is `-1` or strictly larger than the current one (and below the length) -/
theorem next_en (s : List Char) (st' en re : Int) (hen : 0 ≤ en) :
    pyFind s ']' (max (en + 1) (st' + 1)) re = -1 ∨
      (en + 1 ≤ pyFind s ']' (max (en + 1) (st' + 1)) re ∧ pyFind s ']' (max (en + 1) (st' + 1)) re < s.length) := by
  rcases pyFind_range s ']' (max (en + 1) (st' + 1)) re with h | ⟨h1, h2, _⟩
  · exact .inl h
  · right
    have hb := normIdx_le s.length re
    have hn := normIdx_nonneg s.length (max (en + 1) (st' + 1)) (by omega)
    omega

theorem foldlM_ne_fuel {α β : Type} (f : β → α → Except PErr β) (hf : ∀ b a, f b a ≠ .error .outOfFuel) :
    ∀ (l : List α) (b : β), l.foldlM f b ≠ .error .outOfFuel
  | [], b => by simp [List.foldlM, pure, Except.pure]
  | a :: l, b => by
    simp only [List.foldlM, bind, Except.bind]
    cases h : f b a with
    | error e =>
      have := hf b a
      rw [h] at this
      simpa using this
    | ok b' => exact foldlM_ne_fuel f hf l b'

theorem parseBucket_ne_fuel (conv : List Char → Except PErr Name) (hconv : ∀ e, conv e ≠ .error .outOfFuel)
    (text : List Char) : parseBucket conv text ≠ .error .outOfFuel := by
  unfold parseBucket
  apply foldlM_ne_fuel
  intro acc piece
  simp only
  split
  · simp
  · have := hconv (pyStrip piece)
    split
    · simp
    · rename_i err h
      rw [h] at this
      simpa using this

theorem mapM_ne_fuel {α β : Type} (f : α → Except PErr β) (hf : ∀ a, f a ≠ .error .outOfFuel) :
    ∀ (l : List α), l.mapM f ≠ .error .outOfFuel
  | [] => by simp [pure, Except.pure]
  | a :: l => by
    rw [List.mapM_cons]
    simp only [bind, Except.bind]
    cases h : f a with
    | error e =>
      have := hf a
      rw [h] at this
      simpa using this
    | ok b =>
      simp only
      cases h' : l.mapM f with
      | error e =>
        have := mapM_ne_fuel f hf l
        rw [h'] at this
        simpa using this
      | ok bs => simp [pure, Except.pure]

theorem scan_terminates (conv : List Char → Except PErr Name) (hconv : ∀ e, conv e ≠ .error .outOfFuel)
    (s : List Char) (rankingEnd : Int) :
    ∀ (fuel : Nat) (ret : List NBucket) (st en oldEn : Int), -1 ≤ en → en < s.length →
      s.length + 1 - (en + 1).toNat < fuel →
      scanLoop conv s rankingEnd fuel ret st en oldEn ≠ .error .outOfFuel
  | 0, _, _, _, _, _, _, hf => by omega
  | fuel + 1, ret, st, en, oldEn, hen, hlt, hf => by
    unfold scanLoop
    split
    · rename_i hc
      have hen0 : 0 ≤ en := by
        simp only [bne_iff_ne, ne_eq, Bool.and_eq_true] at hc
        omega
      split
      · rename_i e he
        have := parseBucket_ne_fuel conv hconv (pySlice s (st + 1) en)
        rw [he] at this
        simpa using this
      · rename_i b _
        simp only
        rcases next_en s (pyFind s '[' (en + 1) rankingEnd) en rankingEnd hen0 with h | ⟨h1, h2⟩
        · -- the loop exits at the next round
          rw [h]
          have : ∃ k, fuel = k + 1 := ⟨fuel - 1, by omega⟩
          obtain ⟨k, rfl⟩ := this
          unfold scanLoop
          simp
        · exact scan_terminates conv hconv s rankingEnd fuel _ _ _ _ (by omega) h2 (by omega)
    · simp

end C18
end Corankco
