import Corankco.Spec.C16
/-
  C16 — helper lemmas: `dedupN`, the constructor check, a closed form of `analyse` (`mkDS (rebuilt rs)`), the invariant
  on that closed form, homogeneity of names, unification, projection; `DOp` / `applyDOp` for operation sequences.
-/
namespace Corankco
namespace C16L
open Model Spec

theorem mem_dedupN {x : Name} : ∀ {l : List Name}, x ∈ dedupN l ↔ x ∈ l
  | [] => by simp [dedupN]
  | y :: ys => by
    simp only [dedupN, List.mem_cons, List.mem_filter, mem_dedupN (l := ys)]
    by_cases h : x = y <;> simp [h]

theorem nodup_dedupN : ∀ l : List Name, (dedupN l).Nodup
  | [] => by simp [dedupN]
  | y :: ys => by
    simp only [dedupN, List.nodup_cons, List.mem_filter]
    exact ⟨by simp, (nodup_dedupN ys).filter _⟩

theorem dedupN_length_le : ∀ l : List Name, (dedupN l).length ≤ l.length
  | [] => by simp [dedupN]
  | y :: ys => by
    have := dedupN_length_le ys
    have := List.length_filter_le (fun z => decide (z ≠ y)) (dedupN ys)
    simp only [dedupN, List.length_cons]; omega

theorem dedupN_of_nodup : ∀ {l : List Name}, l.Nodup → dedupN l = l
  | [], _ => by simp [dedupN]
  | y :: ys, h => by
    rw [List.nodup_cons] at h
    simp only [dedupN, dedupN_of_nodup h.2]
    congr 1
    rw [List.filter_eq_self]
    intro a ha; simp; rintro rfl; exact h.1 ha

theorem nodup_of_dedupN_length : ∀ {l : List Name}, (dedupN l).length = l.length → l.Nodup
  | [], _ => by simp
  | y :: ys, h => by
    have h1 := dedupN_length_le ys
    have h2 := List.length_filter_le (fun z => decide (z ≠ y)) (dedupN ys)
    simp only [dedupN, List.length_cons] at h
    have h3 : (dedupN ys).length = ys.length := by omega
    have ih := nodup_of_dedupN_length h3
    rw [dedupN_of_nodup ih] at h
    have h4 : ys.filter (fun z => decide (z ≠ y)) = ys := by
      exact List.filter_eq_self.2 (List.length_filter_eq_length_iff.1 (by omega))
    rw [List.nodup_cons]
    refine ⟨?_, ih⟩
    intro hy
    rw [List.filter_eq_self] at h4
    simpa using h4 y hy

theorem mkRanking_ok {bs : List NBucket} {r : NRanking} (h : mkRanking bs = .ok r) :
    r = bs.map dedupN ∧ r.flatten.Nodup := by
  unfold mkRanking at h
  simp only at h
  split at h
  · rename_i hl
    injection h with h; subst h
    exact ⟨rfl, nodup_of_dedupN_length hl.symm⟩
  · cases h

theorem rviewOK_viewOf {r : NRanking} (h : r.flatten.Nodup) : rviewOK (viewOf r) = true := by
  simp [rviewOK, viewOf, samePairs, sameSetN, h]
  intro b hb x hx; exact ⟨b, hb, hx⟩

theorem mapM_mk {α : Type} (g : α → List NBucket) : ∀ {rs : List α} {rs' : List NRanking},
    rs.mapM (fun r => mkRanking (g r)) = .ok rs' →
    rs' = rs.map (fun r => (g r).map dedupN) ∧ ∀ r' ∈ rs', r'.flatten.Nodup
  | [], rs', h => by
    simp only [List.mapM_nil, pure, Except.pure] at h
    injection h with h; subst h; simp
  | r :: rs, rs', h => by
    rw [List.mapM_cons] at h
    cases h1 : mkRanking (g r) with
    | error e => rw [h1] at h; cases h
    | ok r1 =>
      cases h2 : rs.mapM (fun r => mkRanking (g r)) with
      | error e => rw [h1, h2] at h; cases h
      | ok rs1 =>
        rw [h1, h2] at h
        simp only [bind, Except.bind, pure, Except.pure] at h
        injection h with h; subst h
        obtain ⟨e1, n1⟩ := mkRanking_ok h1
        obtain ⟨e2, n2⟩ := mapM_mk g h2
        refine ⟨by rw [e1, e2]; rfl, ?_⟩
        intro r' hr'
        rcases List.mem_cons.1 hr' with rfl | hr'
        · exact n1
        · exact n2 r' hr'

def allIntOf (rs : List NRanking) : Bool := rs.all fun r => r.all fun b => b.all Name.canBeInt
def convOf (rs : List NRanking) : Name → Name := if allIntOf rs then Name.toIntName else Name.toStrName
def rebuilt (rs : List NRanking) : List NRanking := rs.map fun r => (r.map fun b => b.map (convOf rs)).map dedupN
def mkDS (rs' : List NRanking) : DS :=
  let univ := dedupN (rs'.flatten.flatten)
  let ids := List.range univ.length
  { rankings := rs', elemId := univ.zip ids, idElem := ids.zip univ,
    complete := univ.all fun x => countOcc rs' x == rs'.length,
    withoutTies := rs'.all fun r => r.all fun b => b.length ≤ 1 }

theorem analyse_ok {rs : List NRanking} {d : DS} (h : analyse rs = .ok d) :
    rs ≠ [] ∧ d = mkDS (rebuilt rs) ∧ (∀ r' ∈ rebuilt rs, r'.flatten.Nodup) ∧
    dedupN ((rebuilt rs).flatten.flatten) ≠ [] := by
  unfold analyse at h
  split at h
  · cases h
  · rename_i hne
    simp only at h
    split at h
    · cases h
    · rename_i rs' hb
      obtain ⟨e, nd⟩ := mapM_mk (fun r : NRanking => r.map fun b => b.map (convOf rs)) hb
      have e' : rs' = rebuilt rs := e
      subst e'
      split at h
      · cases h
      · rename_i hu
        injection h with h
        refine ⟨by simpa using hne, h.symm, nd, by simpa using hu⟩

theorem lookup_zip_range' {α : Type} : ∀ (U : List α) (k i : Nat) (h : i < U.length),
    ((List.range' k U.length).zip U).lookup (k + i) = some U[i]
  | [], _, _, h => by simp at h
  | u :: us, k, 0, _ => by simp [List.range'_succ]
  | u :: us, k, i + 1, h => by
    have ih := lookup_zip_range' us (k + 1) i (by simpa using h)
    have e : k + (i + 1) = k + 1 + i := by omega
    simp only [List.length_cons, List.range'_succ, List.zip_cons_cons, List.lookup_cons, List.getElem_cons_succ]
    have : (k + (i + 1) == k) = false := by simp
    rw [this, e]; exact ih

theorem lookup_zip_range {α : Type} (U : List α) (i : Nat) (h : i < U.length) :
    ((List.range U.length).zip U).lookup i = some U[i] := by
  have := lookup_zip_range' U 0 i h
  simpa [List.range_eq_range'] using this

theorem mem_zip_swap {α β : Type} {a : α} {b : β} : ∀ {l1 : List α} {l2 : List β},
    (a, b) ∈ l1.zip l2 → (b, a) ∈ l2.zip l1
  | [], _, h => by simp at h
  | _ :: _, [], h => by simp at h
  | x :: xs, y :: ys, h => by
    simp only [List.zip_cons_cons, List.mem_cons, Prod.mk.injEq] at h ⊢
    rcases h with ⟨rfl, rfl⟩ | h
    · exact Or.inl ⟨rfl, rfl⟩
    · exact Or.inr (mem_zip_swap h)

theorem countOcc_eq (rs : List NRanking) (x : Name) :
    (countOcc rs x == rs.length) = rs.all (fun r => r.flatten.contains x) := by
  unfold countOcc
  rw [Bool.eq_iff_iff]
  simp only [beq_iff_eq, List.length_filter_eq_length_iff, List.all_eq_true]

theorem mkDS_universe (rs' : List NRanking) : (mkDS rs').universe = dedupN rs'.flatten.flatten := by
  simp [DS.universe, mkDS, List.map_fst_zip]

theorem viewOf_buckets (rs' : List NRanking) : (rs'.map viewOf).map (·.buckets) = rs' := by
  simp [List.map_map, Function.comp_def, viewOf]

theorem inv_mkDS (rs' : List NRanking) (hnd : ∀ r' ∈ rs', r'.flatten.Nodup)
    (hhom : (if (dedupN rs'.flatten.flatten).all Name.canBeInt then (dedupN rs'.flatten.flatten).all isIntName
      else (dedupN rs'.flatten.flatten).all fun x => !isIntName x) = true) :
    C16.inv (snapOf (mkDS rs')) = true := by
  unfold C16.inv snapOf
  simp only [viewOf_buckets, mkDS_universe, posMatrix, bidMatrix]
  generalize hU : dedupN rs'.flatten.flatten = U at *
  have hUnd : U.Nodup := hU ▸ nodup_dedupN _
  have hUmem : ∀ x, x ∈ U ↔ x ∈ rs'.flatten.flatten := fun x => hU ▸ mem_dedupN
  simp only [mkDS, hU]
  simp only [Bool.and_eq_true]
  refine ⟨⟨⟨⟨⟨⟨⟨⟨⟨⟨⟨⟨⟨⟨⟨?_, ?_⟩, ?_⟩, ?_⟩, ?_⟩, ?_⟩, ?_⟩, ?_⟩, ?_⟩, ?_⟩, ?_⟩, ?_⟩, ?_⟩, ?_⟩, ?_⟩, ?_⟩
  · simp only [List.all_map, List.all_eq_true]
    intro r hr; exact rviewOK_viewOf (hnd r hr)
  · simpa using hUnd
  · simp only [sameSetN, Bool.and_eq_true, List.all_eq_true, List.contains_iff_mem]
    exact ⟨fun x hx => (hUmem x).1 hx, fun x hx => (hUmem x).2 hx⟩
  · simp
  · simp
  · simp
  · simp [sameSetN, List.map_fst_zip]
  · simpa [List.map_fst_zip] using hUnd
  · simp [List.map_snd_zip]
  · simp only [List.all_eq_true, List.contains_iff_mem]
    rintro ⟨a, b⟩ hp
    exact mem_zip_swap hp
  · simp only [List.all_eq_true, List.contains_iff_mem]
    rintro ⟨a, b⟩ hp
    exact mem_zip_swap hp
  · exact hhom
  · simp
  · rw [Bool.beq_eq_decide_eq]; simp only [decide_eq_true_eq]
    congr 1; funext x; exact countOcc_eq rs' x
  · simp
  · simp only [List.all_eq_true, List.mem_range]
    intro i hi
    rw [lookup_zip_range U i hi]
    simp [List.getD_eq_getElem?_getD, hi]
    exact ⟨fun _ _ => rfl, fun _ _ => rfl⟩

/-- one ranking after conversion and per-bucket de-duplication -/
def rb (c : Name → Name) (r : NRanking) : NRanking := r.map fun b => dedupN (b.map c)

theorem rebuilt_eq (rs : List NRanking) : rebuilt rs = rs.map (rb (convOf rs)) := by
  simp [rebuilt, rb, List.map_map, Function.comp_def]

theorem mem_rb_flatten {c : Name → Name} {r : NRanking} {x : Name} :
    x ∈ (rb c r).flatten ↔ ∃ y ∈ r.flatten, c y = x := by
  simp only [rb, List.mem_flatten, List.mem_map]
  constructor
  · rintro ⟨_, ⟨b, hb, rfl⟩, hx⟩
    rw [mem_dedupN, List.mem_map] at hx
    obtain ⟨y, hy, rfl⟩ := hx
    exact ⟨y, ⟨b, hb, hy⟩, rfl⟩
  · rintro ⟨y, ⟨b, hb, hy⟩, rfl⟩
    exact ⟨_, ⟨b, hb, rfl⟩, by rw [mem_dedupN]; exact List.mem_map_of_mem hy⟩

theorem mem_rebuilt_names {rs : List NRanking} {x : Name} :
    x ∈ (rebuilt rs).flatten.flatten ↔ ∃ y ∈ rs.flatten.flatten, convOf rs y = x := by
  rw [rebuilt_eq]
  simp only [List.mem_flatten (L := List.flatten _)]
  constructor
  · rintro ⟨l, hl, hx⟩
    -- l is a bucket of some rebuilt ranking
    rw [List.mem_flatten] at hl
    obtain ⟨r', hr', hl⟩ := hl
    rw [List.mem_map] at hr'
    obtain ⟨r, hr, rfl⟩ := hr'
    have : x ∈ (rb (convOf rs) r).flatten := List.mem_flatten.2 ⟨l, hl, hx⟩
    obtain ⟨y, hy, e⟩ := mem_rb_flatten.1 this
    obtain ⟨b, hb, hyb⟩ := List.mem_flatten.1 hy
    exact ⟨y, ⟨b, List.mem_flatten.2 ⟨r, hr, hb⟩, hyb⟩, e⟩
  · rintro ⟨y, ⟨b, hb, hyb⟩, e⟩
    obtain ⟨r, hr, hb⟩ := List.mem_flatten.1 hb
    have : x ∈ (rb (convOf rs) r).flatten := mem_rb_flatten.2 ⟨y, List.mem_flatten.2 ⟨b, hb, hyb⟩, e⟩
    obtain ⟨l, hl, hx⟩ := List.mem_flatten.1 this
    exact ⟨l, List.mem_flatten.2 ⟨_, List.mem_map_of_mem hr, hl⟩, hx⟩

theorem allIntOf_eq (rs : List NRanking) : allIntOf rs = rs.flatten.flatten.all Name.canBeInt := by
  simp [allIntOf, List.all_flatten]

theorem toIntName_isInt (y : Name) : isIntName y.toIntName = true := by cases y <;> rfl
theorem toIntName_canBeInt (y : Name) : y.toIntName.canBeInt = true := by cases y <;> rfl
theorem toStrName_notInt (y : Name) : isIntName y.toStrName = false := by cases y <;> rfl
theorem toIntName_of_isInt {y : Name} (h : isIntName y = true) : y.toIntName = y := by
  cases y <;> simp_all [isIntName, Name.toIntName]
theorem toStrName_of_notInt {y : Name} (h : isIntName y = false) : y.toStrName = y := by
  cases y <;> simp_all [isIntName, Name.toStrName]
theorem canBeInt_of_isInt {y : Name} (h : isIntName y = true) : y.canBeInt = true := by
  cases y <;> simp_all [isIntName, Name.canBeInt]

/-- the names of a successfully analysed dataset: all ints, or all strings with one that is not integer-like -/
theorem rebuilt_hom (rs : List NRanking) :
    (∀ x ∈ (rebuilt rs).flatten.flatten, isIntName x = true) ∨
    ((∀ x ∈ (rebuilt rs).flatten.flatten, isIntName x = false) ∧
      ∃ x ∈ (rebuilt rs).flatten.flatten, x.canBeInt = false) := by
  by_cases hA : allIntOf rs = true
  · left
    intro x hx
    obtain ⟨y, _, rfl⟩ := mem_rebuilt_names.1 hx
    simp only [convOf, hA, if_true]; exact toIntName_isInt y
  · right
    have hc : convOf rs = Name.toStrName := by simp [convOf, hA]
    refine ⟨?_, ?_⟩
    · intro x hx
      obtain ⟨y, _, rfl⟩ := mem_rebuilt_names.1 hx
      rw [hc]; exact toStrName_notInt y
    · rw [allIntOf_eq] at hA
      rw [Bool.not_eq_true, List.all_eq_false] at hA
      obtain ⟨y, hy, hny⟩ := hA
      have hy' : isIntName y = false := by
        cases h : isIntName y
        · rfl
        · exact absurd (canBeInt_of_isInt h) hny
      refine ⟨y, mem_rebuilt_names.2 ⟨y, hy, ?_⟩, by simpa using hny⟩
      rw [hc]; exact toStrName_of_notInt hy'

theorem hom_flag {U : List Name}
    (h : (∀ x ∈ U, isIntName x = true) ∨
      ((∀ x ∈ U, isIntName x = false) ∧ ∃ x ∈ U, x.canBeInt = false)) :
    (if U.all Name.canBeInt then U.all isIntName else U.all fun x => !isIntName x) = true := by
  rcases h with h | ⟨h, h2⟩
  · have : U.all Name.canBeInt = true := by
      simp only [List.all_eq_true]; intro x hx; exact canBeInt_of_isInt (h x hx)
    simp only [this, if_true, List.all_eq_true]; exact h
  · obtain ⟨x, hx, hnx⟩ := h2
    have : U.all Name.canBeInt = false := by
      simp only [List.all_eq_false]; exact ⟨x, hx, by simp [hnx]⟩
    simp only [this]
    simpa using h

theorem init_inv {rs : List NRanking} {d : DS} (h : analyse rs = .ok d) : C16.inv (snapOf d) = true := by
  obtain ⟨_, rfl, hnd, _⟩ := analyse_ok h
  apply inv_mkDS _ hnd
  apply hom_flag
  have := rebuilt_hom rs
  simpa only [mem_dedupN] using this


/-- one unified ranking -/
def uni (U : List Name) (r : NRanking) : NRanking :=
  let missing := U.filter fun x => !(r.flatten.contains x)
  if missing.isEmpty then r else r ++ [missing]

theorem unifiedRankingsN_eq (d : DS) : unifiedRankingsN d = d.rankings.map (uni d.universe) := rfl

theorem mem_uni_flatten {U : List Name} {r : NRanking} (hsub : ∀ x ∈ r.flatten, x ∈ U) (x : Name) :
    x ∈ (uni U r).flatten ↔ x ∈ U := by
  unfold uni
  simp only
  split
  · rename_i he
    rw [List.isEmpty_iff, List.filter_eq_nil_iff] at he
    constructor
    · exact hsub x
    · intro hx
      have := he x hx
      simpa using this
  · simp only [List.flatten_append, List.flatten_singleton, List.mem_append, List.mem_filter]
    constructor
    · rintro (h | h)
      · exact hsub x h
      · exact h.1
    · intro hx
      by_cases hr : x ∈ r.flatten
      · exact Or.inl hr
      · exact Or.inr ⟨hx, by simpa using hr⟩

theorem nodup_uni {U : List Name} {r : NRanking} (hU : U.Nodup) (hr : r.flatten.Nodup) :
    (uni U r).flatten.Nodup := by
  unfold uni
  simp only
  split
  · exact hr
  · simp only [List.flatten_append, List.flatten_singleton]
    rw [List.nodup_append]
    refine ⟨hr, hU.filter _, ?_⟩
    intro a ha b hb hab
    subst hab
    rw [List.mem_filter] at hb
    simp [ha] at hb

theorem sameBucket_refl (b : NBucket) : sameBucket b b = true := by
  simp [sameBucket]

theorem mem_zip_self {α : Type} {p : α × α} : ∀ {l : List α}, p ∈ l.zip l → p.1 = p.2
  | [], hp => by simp at hp
  | a :: l, hp => by
    simp only [List.zip_cons_cons, List.mem_cons] at hp
    rcases hp with rfl | hp
    · rfl
    · exact mem_zip_self hp

theorem sameRankingN_refl (r : NRanking) : sameRankingN r r = true := by
  simp only [sameRankingN, beq_self_eq_true, Bool.true_and, List.all_eq_true]
  intro p hp
  rw [mem_zip_self hp]; exact sameBucket_refl _

theorem all_zip_map {α β : Type} (f : α → β) (P : α × β → Bool) : ∀ l : List α,
    (l.zip (l.map f)).all P = l.all fun x => P (x, f x)
  | [] => rfl
  | a :: l => by simp [all_zip_map f P l]

theorem unifiedOK_uni {U : List Name} {R : List NRanking} (hU : U.Nodup)
    (hnd : ∀ r ∈ R, r.flatten.Nodup) :
    unifiedOK U R ((R.map (uni U)).map viewOf) = true := by
  unfold unifiedOK
  simp only [Bool.and_eq_true]
  refine ⟨⟨by simp, ?_⟩, ?_⟩
  · simp only [List.all_map, List.all_eq_true]
    intro r hr; exact rviewOK_viewOf (nodup_uni hU (hnd r hr))
  · rw [List.map_map, all_zip_map, List.all_eq_true]
    intro r _
    simp only [Function.comp, viewOf]
    unfold uni
    simp only
    split
    · exact sameRankingN_refl r
    · simp [sameRankingN_refl, sameBucket_refl, List.getD_eq_getElem?_getD]

theorem complete_of_same {V : List NRanking} {U : List Name}
    (hV : ∀ v ∈ V, ∀ x, x ∈ v.flatten ↔ x ∈ U) : (mkDS (rebuilt V)).complete = true := by
  simp only [mkDS, List.all_eq_true, countOcc_eq, List.contains_iff_mem, mem_dedupN]
  intro x hx r'' hr''
  obtain ⟨y, hy, rfl⟩ := mem_rebuilt_names.1 hx
  rw [rebuilt_eq, List.mem_map] at hr''
  obtain ⟨v, hv, rfl⟩ := hr''
  obtain ⟨b, hb, hyb⟩ := List.mem_flatten.1 hy
  obtain ⟨v0, hv0, hb⟩ := List.mem_flatten.1 hb
  have hyU : y ∈ U := (hV v0 hv0 y).1 (List.mem_flatten.2 ⟨b, hb, hyb⟩)
  exact mem_rb_flatten.2 ⟨y, (hV v hv y).2 hyU, rfl⟩

theorem mem_universe_of_mem {R : List NRanking} {r : NRanking} (hr : r ∈ R) :
    ∀ x ∈ r.flatten, x ∈ (mkDS R).universe := by
  intro x hx
  rw [mkDS_universe, mem_dedupN]
  obtain ⟨b, hb, hxb⟩ := List.mem_flatten.1 hx
  exact List.mem_flatten.2 ⟨b, List.mem_flatten.2 ⟨r, hr, hb⟩, hxb⟩

theorem unified_all {rs : List NRanking} {d : DS} (h : analyse rs = .ok d) :
    unifiedOK d.universe d.rankings ((unifiedRankingsN d).map viewOf) = true ∧
    ∀ d', unifiedDataset d = .ok d' → (C16.inv (snapOf d') = true ∧ d'.complete = true) := by
  obtain ⟨_, rfl, hnd, _⟩ := analyse_ok h
  refine ⟨?_, ?_⟩
  · rw [unifiedRankingsN_eq]
    exact unifiedOK_uni (by rw [mkDS_universe]; exact nodup_dedupN _) hnd
  · intro d' h'
    refine ⟨init_inv h', ?_⟩
    unfold unifiedDataset at h'
    obtain ⟨_, rfl, _, _⟩ := analyse_ok h'
    apply complete_of_same (U := (mkDS (rebuilt rs)).universe)
    intro v hv x
    rw [unifiedRankingsN_eq, List.mem_map] at hv
    obtain ⟨r, hr, rfl⟩ := hv
    exact mem_uni_flatten (mem_universe_of_mem hr) x

/-! ### projection -/

/-- keep the elements satisfying `p`, drop empty buckets, drop empty rankings -/
def projR (p : Name → Bool) (R : List NRanking) : List NRanking :=
  (R.map fun r => (r.map fun b => b.filter p).filter fun b => !b.isEmpty).filter fun r => !r.isEmpty

theorem subProblemN_eq (d : DS) (keep : List Name) :
    subProblemN d keep = analyse (projR (fun x => keep.contains x) d.rankings) := rfl

theorem mem_projR_names {p : Name → Bool} {R : List NRanking} {y : Name}
    (h : y ∈ (projR p R).flatten.flatten) : y ∈ R.flatten.flatten := by
  obtain ⟨b', hb', hy⟩ := List.mem_flatten.1 h
  obtain ⟨r', hr', hb'⟩ := List.mem_flatten.1 hb'
  simp only [projR, List.mem_filter, List.mem_map] at hr'
  obtain ⟨⟨r, hr, rfl⟩, _⟩ := hr'
  simp only [List.mem_filter, List.mem_map] at hb'
  obtain ⟨⟨b, hb, rfl⟩, _⟩ := hb'
  exact List.mem_flatten.2 ⟨b, List.mem_flatten.2 ⟨r, hr, hb⟩, (List.mem_filter.1 hy).1⟩

theorem normName_toIntName (y : Name) : normName y.toIntName = y.toIntName := by
  simp [normName, toIntName_canBeInt, toIntName_of_isInt (toIntName_isInt y)]

/-- the re-homogenisation of a projected dataset is invisible up to `normName` -/
theorem normName_conv {R P : List NRanking}
    (hsub : ∀ y ∈ P.flatten.flatten, y ∈ R.flatten.flatten)
    (hom : (∀ x ∈ R.flatten.flatten, isIntName x = true) ∨ (∀ x ∈ R.flatten.flatten, isIntName x = false))
    {y : Name} (hy : y ∈ P.flatten.flatten) : normName (convOf P y) = normName y := by
  by_cases hA : allIntOf P = true
  · have hc : y.canBeInt = true := by
      rw [allIntOf_eq, List.all_eq_true] at hA; exact hA y hy
    simp only [convOf, hA, if_true]
    rw [normName_toIntName]; simp [normName, hc]
  · have hcv : convOf P = Name.toStrName := by simp [convOf, hA]
    rw [hcv]
    rcases hom with hom | hom
    · exfalso; apply hA
      rw [allIntOf_eq, List.all_eq_true]
      intro z hz; exact canBeInt_of_isInt (hom z (hsub z hz))
    · rw [toStrName_of_notInt (hom y (hsub y hy))]

theorem filter_nonempty_map {α β : Type} (f : α → β) (l : List (List α)) :
    (l.map (List.map f)).filter (fun b => !b.isEmpty) = (l.filter fun b => !b.isEmpty).map (List.map f) := by
  rw [List.filter_map]
  congr 1
  apply List.filter_congr
  intro b _; cases b <;> rfl

theorem all_zip_map2 {α β γ : Type} (f : α → β) (g : α → γ) (Q : β × γ → Bool) : ∀ l : List α,
    ((l.map f).zip (l.map g)).all Q = l.all fun x => Q (f x, g x)
  | [] => rfl
  | a :: l => by simp [all_zip_map2 f g Q l]

theorem sameBucket_of_mem {a b : NBucket} (h : ∀ x, x ∈ a ↔ x ∈ b) : sameBucket a b = true := by
  simp only [sameBucket, Bool.and_eq_true, List.all_eq_true, List.contains_iff_mem]
  exact ⟨fun x hx => (h x).1 hx, fun x hx => (h x).2 hx⟩

theorem sameRankingN_map {α : Type} (f g : α → NBucket) (l : List α)
    (h : ∀ b ∈ l, sameBucket (f b) (g b) = true) : sameRankingN (l.map f) (l.map g) = true := by
  simp only [sameRankingN, List.length_map, beq_self_eq_true, Bool.true_and]
  rw [all_zip_map2, List.all_eq_true]
  exact h

/-- the expected projection, computed on normalised names, is the model's projection with names normalised -/
theorem expect_eq {R : List NRanking} {keep : List Name}
    (H : ∀ x ∈ R.flatten.flatten, (keep.map normName).contains (normName x) = true → keep.contains x = true) :
    ((R.map fun r => (r.map fun b => (b.map normName).filter fun x => (keep.map normName).contains x).filter
        fun b => !b.isEmpty).filter fun r => !r.isEmpty)
      = (projR (fun x => keep.contains x) R).map fun r => r.map fun b => b.map normName := by
  unfold projR
  have inner : ∀ r ∈ R, ((r.map fun b => (b.map normName).filter fun x => (keep.map normName).contains x).filter
        fun b => !b.isEmpty) = ((r.map fun b => b.filter fun x => keep.contains x).filter fun b => !b.isEmpty).map
          (List.map normName) := by
    intro r hr
    rw [← filter_nonempty_map, List.map_map]
    congr 1
    apply List.map_congr_left
    intro b hb
    simp only [Function.comp]
    rw [List.filter_map]
    congr 1
    apply List.filter_congr
    intro x hx
    have hxR : x ∈ R.flatten.flatten := List.mem_flatten.2 ⟨b, List.mem_flatten.2 ⟨r, hr, hb⟩, hx⟩
    simp only [Function.comp]
    rw [Bool.eq_iff_iff]
    constructor
    · exact H x hxR
    · intro hk
      rw [List.contains_iff_mem] at hk ⊢
      exact List.mem_map_of_mem hk
  rw [List.map_congr_left inner]
  have e : (fun a : NRanking => List.map (List.map normName)
      (List.filter (fun b => !b.isEmpty) (List.map (fun b => List.filter (fun x => keep.contains x) b) a)))
      = (List.map (List.map normName)) ∘ fun a : NRanking =>
        (List.filter (fun b => !b.isEmpty) (List.map (fun b => List.filter (fun x => keep.contains x) b) a)) := rfl
  rw [e, ← List.map_map, filter_nonempty_map]

theorem projOK_of {R : List NRanking} {keep : List Name}
    (hom : (∀ x ∈ R.flatten.flatten, isIntName x = true) ∨ (∀ x ∈ R.flatten.flatten, isIntName x = false))
    (H : ∀ x ∈ R.flatten.flatten, (keep.map normName).contains (normName x) = true → keep.contains x = true) :
    projOK R keep (rebuilt (projR (fun x => keep.contains x) R)) = true := by
  unfold projOK
  simp only
  rw [expect_eq H]
  generalize hP : projR (fun x => keep.contains x) R = P
  have hsub : ∀ y ∈ P.flatten.flatten, y ∈ R.flatten.flatten := fun y hy => mem_projR_names (hP ▸ hy)
  rw [rebuilt_eq, List.map_map, Bool.and_eq_true]
  refine ⟨by simp, ?_⟩
  rw [all_zip_map2, List.all_eq_true]
  intro r hr
  show sameRankingN ((rb (convOf P) r).map (List.map normName)) (r.map (List.map normName)) = true
  unfold rb
  rw [List.map_map]
  apply sameRankingN_map
  intro b hb
  apply sameBucket_of_mem
  intro x
  simp only [Function.comp_apply, List.mem_map, mem_dedupN]
  have key : ∀ y ∈ b, normName (convOf P y) = normName y := fun y hy =>
    normName_conv hsub hom (List.mem_flatten.2 ⟨b, List.mem_flatten.2 ⟨r, hr, hb⟩, hy⟩)
  constructor
  · rintro ⟨_, ⟨y, hy, rfl⟩, rfl⟩
    exact ⟨y, hy, (key y hy).symm⟩
  · rintro ⟨y, hy, rfl⟩
    exact ⟨_, ⟨y, hy, rfl⟩, key y hy⟩

theorem projection_all {rs : List NRanking} {d : DS} (h : analyse rs = .ok d) (keep : List Name) (d' : DS)
    (H : ∀ x ∈ d.universe, (keep.map normName).contains (normName x) = true → keep.contains x = true)
    (hp : subProblemN d keep = .ok d') :
    projOK d.rankings keep d'.rankings = true ∧ C16.inv (snapOf d') = true := by
  refine ⟨?_, init_inv hp⟩
  obtain ⟨_, rfl, _, _⟩ := analyse_ok h
  rw [subProblemN_eq] at hp
  obtain ⟨_, rfl, _, _⟩ := analyse_ok hp
  apply projOK_of
  · rcases rebuilt_hom rs with h1 | ⟨h1, _⟩
    · exact Or.inl h1
    · exact Or.inr h1
  · intro x hx
    apply H
    rw [mkDS_universe, mem_dedupN]; exact hx


/-- the projection computed on the raw names and normalised afterwards: holds with no side condition -/
theorem proj_raw {R : List NRanking} (p : Name → Bool)
    (hom : (∀ x ∈ R.flatten.flatten, isIntName x = true) ∨ (∀ x ∈ R.flatten.flatten, isIntName x = false)) :
    let P := projR p R
    let nn := fun (r : NRanking) => r.map fun b => b.map normName
    ((rebuilt P).map nn).length = (P.map nn).length ∧
      (((rebuilt P).map nn).zip (P.map nn)).all (fun q => sameRankingN q.1 q.2) = true := by
  intro P nn
  have hsub : ∀ y ∈ P.flatten.flatten, y ∈ R.flatten.flatten := fun y hy => mem_projR_names hy
  rw [rebuilt_eq, List.map_map]
  refine ⟨by simp, ?_⟩
  rw [all_zip_map2, List.all_eq_true]
  intro r hr
  show sameRankingN ((rb (convOf P) r).map (List.map normName)) (r.map (List.map normName)) = true
  unfold rb
  rw [List.map_map]
  apply sameRankingN_map
  intro b hb
  apply sameBucket_of_mem
  intro x
  simp only [Function.comp_apply, List.mem_map, mem_dedupN]
  have key : ∀ y ∈ b, normName (convOf P y) = normName y := fun y hy =>
    normName_conv hsub hom (List.mem_flatten.2 ⟨b, List.mem_flatten.2 ⟨r, hr, hb⟩, hy⟩)
  constructor
  · rintro ⟨_, ⟨y, hy, rfl⟩, rfl⟩
    exact ⟨y, hy, (key y hy).symm⟩
  · rintro ⟨y, hy, rfl⟩
    exact ⟨_, ⟨y, hy, rfl⟩, key y hy⟩

/-- a sufficient condition for the side condition of the projection theorem: `normName` does not identify an element
    of the universe with a different kept name -/
theorem projHyp_of_inj {U keep : List Name}
    (hinj : ∀ x ∈ U, ∀ k ∈ keep, normName x = normName k → x = k) :
    ∀ x ∈ U, (keep.map normName).contains (normName x) = true → keep.contains x = true := by
  intro x hx h
  rw [List.contains_iff_mem, List.mem_map] at h
  obtain ⟨k, hk, e⟩ := h
  rw [List.contains_iff_mem, hinj x hx k hk e.symm]; exact hk

/-- in particular: all-int universe and all-int kept names -/
theorem projHyp_of_int {U keep : List Name} (hU : ∀ x ∈ U, isIntName x = true) (hk : ∀ k ∈ keep, isIntName k = true) :
    ∀ x ∈ U, (keep.map normName).contains (normName x) = true → keep.contains x = true := by
  apply projHyp_of_inj
  intro x hx k hkk e
  have e1 : normName x = x := by simp [normName, canBeInt_of_isInt (hU x hx), toIntName_of_isInt (hU x hx)]
  have e2 : normName k = k := by simp [normName, canBeInt_of_isInt (hk k hkk), toIntName_of_isInt (hk k hkk)]
  rw [e1, e2] at e; exact e

end C16L

open Model Spec

/-! ### operation sequences -/

/-- the three mutators -/
inductive DOp where
  | removeElements (els : List Name)
  | removeRate (num den : Nat)
  | removeEmpty

/-- apply one mutator; on an exception the dataset is left as it was -/
def applyDOp (d : DS) : DOp → DS
  | .removeElements els => match removeElements d els with | .ok d' => d' | .error _ => d
  | .removeRate n k => match removeRate d n k with | .ok d' => d' | .error _ => d
  | .removeEmpty => match removeEmptyRankings d with | .ok d' => d' | .error _ => d

end Corankco
