import Corankco.Lemmas.C01Cross
import Corankco.Lemmas.C01Merge
import Corankco.Lemmas.C01Prefix
import Corankco.Lemmas.C01Defs
/-
  C01 helper lemmas, part 5: the pair counters `nOrd` / `nTie` as double counts, evaluated bucket-wise.
-/
namespace Corankco
namespace C01
open Model Spec

/-- `c` places `x` strictly before `y` -/
def ltc (c : Ranking) (x y : Elem) : Bool := decide (cid c x < cid c y)
/-- `c` ties `x` and `y` -/
def eqc (c : Ranking) (x y : Elem) : Bool := cid c x == cid c y

theorem eqc_comm (c : Ranking) (x y : Elem) : eqc c x y = eqc c y x := by
  unfold eqc; rw [Bool.eq_iff_iff]; simp only [beq_iff_eq]; exact eq_comm

/-! ### from unordered pairs to double counts -/

theorem nOrd_eq_cross (c r : Ranking) (k : Nat) :
    nOrd c r k = cross (fun x y => ltc c x y && (status r x y == k)) c.flatten c.flatten := by
  rw [← countP_pairs_orient]
  · unfold nOrd
    apply List.countP_congr
    intro p hp
    obtain ⟨h1, h2⟩ := mem_pairs hp
    simp only [ordStatus, bucketIdx_eq_cid h1, bucketIdx_eq_cid h2, ltc]
    by_cases a : cid c p.1 < cid c p.2
    · have : ¬ cid c p.2 < cid c p.1 := by omega
      simp [a, this]
    · by_cases b : cid c p.2 < cid c p.1
      · simp [a, b]
      · simp [a, b]
  · intro x _ y _ ⟨h1, h2⟩
    simp only [ltc, Bool.and_eq_true, decide_eq_true_eq] at h1 h2
    omega

theorem nTie_eq (c r : Ranking) (k : Nat) :
    nTie c r k = (pairs c.flatten).countP (fun p => eqc c p.1 p.2 && (status r p.1 p.2 == k)) := by
  unfold nTie
  apply List.countP_congr
  intro p hp
  obtain ⟨h1, h2⟩ := mem_pairs hp
  simp only [tieStatus, bucketIdx_eq_cid h1, bucketIdx_eq_cid h2, eqc]
  by_cases a : cid c p.1 = cid c p.2
  · simp [a]
  · simp [a]

theorem nTie01_eq_cross (c r : Ranking) :
    nTie c r 0 + nTie c r 1 = cross (fun x y => eqc c x y && (status r x y == 0)) c.flatten c.flatten := by
  rw [cross_pairs, nTie_eq, nTie_eq]
  have hd : c.flatten.countP (fun x => eqc c x x && (status r x x == 0)) = 0 := by
    rw [List.countP_eq_zero]; intro x _
    rcases status_self r x with h | h <;> simp [h]
  have hs : (pairs c.flatten).countP (fun p => eqc c p.1 p.2 && (status r p.1 p.2 == 1)) =
      (pairs c.flatten).countP (fun p => eqc c p.2 p.1 && (status r p.2 p.1 == 0)) := by
    apply List.countP_congr
    intro p _
    rw [eqc_comm c p.2 p.1]
    simp only [Bool.and_eq_true, beq_iff_eq, (status_swap r p.1 p.2).1]
  rw [hd, hs]; omega

theorem nTie34_eq_cross (c r : Ranking) :
    nTie c r 3 + nTie c r 4 = cross (fun x y => eqc c x y && (status r x y == 3)) c.flatten c.flatten := by
  rw [cross_pairs, nTie_eq, nTie_eq]
  have hd : c.flatten.countP (fun x => eqc c x x && (status r x x == 3)) = 0 := by
    rw [List.countP_eq_zero]; intro x _
    rcases status_self r x with h | h <;> simp [h]
  have hs : (pairs c.flatten).countP (fun p => eqc c p.1 p.2 && (status r p.1 p.2 == 4)) =
      (pairs c.flatten).countP (fun p => eqc c p.2 p.1 && (status r p.2 p.1 == 3)) := by
    apply List.countP_congr
    intro p _
    rw [eqc_comm c p.2 p.1]
    simp only [Bool.and_eq_true, beq_iff_eq, (status_swap r p.1 p.2).2.2.1]
  rw [hd, hs]; omega

/-! ### statuses as membership in `r` -/

section
variable (r : Ranking) (F : Elem → Elem → Bool) (l : List Elem)

theorem bool_rearrange (a b d : Bool) : (a && (b && d)) = (b && d && a) := by
  cases a <;> cases b <;> cases d <;> rfl

theorem cross_status3 :
    cross (fun x y => F x y && (status r x y == 3)) l l =
      cross F (l.filter fun x => r.flatten.contains x) (l.filter fun x => !(r.flatten.contains x)) := by
  rw [← cross_filter]
  apply cross_congr
  intro x _ y _
  have : (status r x y == 3) = (r.flatten.contains x && !(r.flatten.contains y)) := by
    rw [Bool.eq_iff_iff]; simp [status_eq_3_iff]
  rw [this, bool_rearrange]

theorem cross_status4 :
    cross (fun x y => F x y && (status r x y == 4)) l l =
      cross F (l.filter fun x => !(r.flatten.contains x)) (l.filter fun x => r.flatten.contains x) := by
  rw [← cross_filter]
  apply cross_congr
  intro x _ y _
  have : (status r x y == 4) = (!(r.flatten.contains x) && r.flatten.contains y) := by
    rw [Bool.eq_iff_iff]; simp [status_eq_4_iff]
  rw [this, bool_rearrange]

theorem cross_status5 :
    cross (fun x y => F x y && (status r x y == 5)) l l =
      cross F (l.filter fun x => !(r.flatten.contains x)) (l.filter fun x => !(r.flatten.contains x)) := by
  rw [← cross_filter]
  apply cross_congr
  intro x _ y _
  have : (status r x y == 5) = (!(r.flatten.contains x) && !(r.flatten.contains y)) := by
    rw [Bool.eq_iff_iff]; simp [status_eq_5_iff]
  rw [this, bool_rearrange]

theorem cross_status_lt3 (k : Nat) (hk : k < 3) :
    cross (fun x y => F x y && (status r x y == k)) l l =
      cross (fun x y => F x y && (status r x y == k))
        (l.filter fun x => r.flatten.contains x) (l.filter fun x => r.flatten.contains x) := by
  rw [← cross_filter]
  apply cross_congr
  intro x _ y _
  by_cases h : status r x y = k
  · have := mem_of_status_lt_3 (r := r) (x := x) (y := y) (by omega)
    simp [h, this.1, this.2]
  · simp [h]

end

theorem filter_ranked_perm (c r : Ranking) (hc : c.flatten.Nodup) (hr : r.flatten.Nodup)
    (hsub : ∀ x ∈ r.flatten, x ∈ c.flatten) :
    (c.flatten.filter fun x => r.flatten.contains x).Perm r.flatten := by
  rw [List.perm_ext_iff_of_nodup (hc.filter _) hr]
  intro a
  simp only [List.mem_filter, List.contains_iff_mem]
  constructor
  · exact fun h => h.2
  · exact fun h => ⟨hsub a h, h⟩

/-! ### double counts over `r.flatten × r.flatten`, bucket by bucket of `r` -/

theorem cross_status_cons (F : Elem → Elem → Bool) (k : Nat) (b : Bucket) (bs : Ranking)
    (hnd : (b ++ bs.flatten).Nodup) :
    cross (fun x y => F x y && (status (b :: bs) x y == k)) (b ++ bs.flatten) (b ++ bs.flatten) =
      (if k = 2 then cross F b b else 0) + (if k = 0 then cross F b bs.flatten else 0)
      + (if k = 1 then cross F bs.flatten b else 0)
      + cross (fun x y => F x y && (status bs x y == k)) bs.flatten bs.flatten := by
  have hdisj : ∀ x ∈ bs.flatten, x ∉ b := by
    intro x hx hxb
    exact (List.nodup_append.mp hnd).2.2 x hxb x hx rfl
  have h1 : cross (fun x y => F x y && (status (b :: bs) x y == k)) b b = if k = 2 then cross F b b else 0 := by
    split
    · subst k; apply cross_congr; intro x hx y hy; simp [status_cons_mem_mem bs hx hy]
    · apply cross_eq_zero; intro x hx y hy
      have : ¬ 2 = k := by omega
      simp [status_cons_mem_mem bs hx hy, this]
  have h2 : cross (fun x y => F x y && (status (b :: bs) x y == k)) b bs.flatten =
      if k = 0 then cross F b bs.flatten else 0 := by
    split
    · subst k; apply cross_congr; intro x hx y hy; simp [status_cons_mem_rest bs hx (hdisj y hy) hy]
    · apply cross_eq_zero; intro x hx y hy
      have : ¬ 0 = k := by omega
      simp [status_cons_mem_rest bs hx (hdisj y hy) hy, this]
  have h3 : cross (fun x y => F x y && (status (b :: bs) x y == k)) bs.flatten b =
      if k = 1 then cross F bs.flatten b else 0 := by
    split
    · subst k; apply cross_congr; intro x hx y hy; simp [status_cons_rest_mem bs (hdisj x hx) hx hy]
    · apply cross_eq_zero; intro x hx y hy
      have : ¬ 1 = k := by omega
      simp [status_cons_rest_mem bs (hdisj x hx) hx hy, this]
  have h4 : cross (fun x y => F x y && (status (b :: bs) x y == k)) bs.flatten bs.flatten =
      cross (fun x y => F x y && (status bs x y == k)) bs.flatten bs.flatten := by
    apply cross_congr; intro x hx y hy
    rw [status_cons_of_not_mem bs (hdisj x hx) (hdisj y hy)]
  rw [cross_append_left, cross_append_right, cross_append_right, h1, h2, h3, h4]
  omega

theorem nodup_tail_of_cons {b : Bucket} {bs : Ranking} (h : (b :: bs).flatten.Nodup) : bs.flatten.Nodup := by
  rw [List.flatten_cons] at h
  exact (List.nodup_append.mp h).2.1

theorem cross_status0 (F : Elem → Elem → Bool) (r : Ranking) (hr : r.flatten.Nodup) :
    cross (fun x y => F x y && (status r x y == 0)) r.flatten r.flatten = pairSum (fun a b => cross F a b) r := by
  induction r with
  | nil => simp [pairSum_nil]
  | cons b bs ih =>
    rw [List.flatten_cons, cross_status_cons F 0 b bs (by simpa using hr), ih (nodup_tail_of_cons hr),
      pairSum_cons, cross_flatten_right]
    simp

theorem cross_status1 (F : Elem → Elem → Bool) (r : Ranking) (hr : r.flatten.Nodup) :
    cross (fun x y => F x y && (status r x y == 1)) r.flatten r.flatten = pairSum (fun a b => cross F b a) r := by
  induction r with
  | nil => simp [pairSum_nil]
  | cons b bs ih =>
    rw [List.flatten_cons, cross_status_cons F 1 b bs (by simpa using hr), ih (nodup_tail_of_cons hr),
      pairSum_cons, cross_flatten_left]
    simp

theorem cross_status2 (F : Elem → Elem → Bool) (r : Ranking) (hr : r.flatten.Nodup) :
    cross (fun x y => F x y && (status r x y == 2)) r.flatten r.flatten = (r.map (fun a => cross F a a)).sum := by
  induction r with
  | nil => simp
  | cons b bs ih =>
    rw [List.flatten_cons, cross_status_cons F 2 b bs (by simpa using hr), ih (nodup_tail_of_cons hr)]
    simp

end C01
end Corankco
