import Corankco.Lemmas.BioDelta
import Corankco.Lemmas.BioSearch
import Corankco.Lemmas.BioMove
import Corankco.Props.C02
namespace Corankco
open Model Spec
namespace BioSM

theorem deltaStep_lengths (t : Table) (r : List Nat) (x b : Nat) (st : DeltaSt) (y : Nat) :
    (deltaStep t r x b st y).change.length = st.change.length ∧
    (deltaStep t r x b st y).add.length = st.add.length := by
  unfold deltaStep
  simp only []
  split
  · simp [length_addAt]
  · split
    · split <;> simp [length_addAt]
    · split <;> simp

theorem deltaFold_lengths (t : Table) (r : List Nat) (x b : Nat) (ys : List Nat) (st : DeltaSt) :
    (ys.foldl (deltaStep t r x b) st).change.length = st.change.length ∧
    (ys.foldl (deltaStep t r x b) st).add.length = st.add.length := by
  induction ys generalizing st with
  | nil => simp
  | cons y ys ih =>
    rw [List.foldl_cons, (ih _).1, (ih _).2]
    exact deltaStep_lengths t r x b st y

theorem computeDelta_lengths (t : Table) (r : List Nat) (x : Nat) :
    (computeDelta t r x).1.length = r.length + 2 ∧ (computeDelta t r x).2.1.length = r.length + 3 := by
  rw [computeDelta_fst, computeDelta_snd]
  have h := deltaFold_lengths t r x (r.getD x 0) (List.range r.length)
    { change := List.replicate (r.length + 2) 0, add := List.replicate (r.length + 3) 0, alone := true,
      ttb := 0, tta := 0, ttt := 0 }
  rw [← deltaLoop] at h
  simp only [List.length_replicate] at h
  constructor
  · split <;> simp [length_addAt, h.1]
  · simp [length_addAt, h.2]

theorem sweepStep_change (t : Table) (τ : Int) (st : SweepSt) (x to : Nat) (ch' : List Int)
    (h : searchChange τ (st.r.getD x 0) (computeDelta t st.r x).1 st.maxId = (some to, ch')) :
    sweepStep t τ st x =
      { r := changeBucket st.r x (st.r.getD x 0) to (computeDelta t st.r x).2.2,
        maxId := if (computeDelta t st.r x).2.2 then st.maxId - 1 else st.maxId,
        delta := st.delta + ch'.getD to 0, moved := true } := by
  unfold sweepStep
  simp only [h]

theorem sweepStep_add (t : Table) (τ : Int) (st : SweepSt) (x to : Nat) (ch' ad' : List Int)
    (h : searchChange τ (st.r.getD x 0) (computeDelta t st.r x).1 st.maxId = (none, ch'))
    (h2 : searchAdd τ (st.r.getD x 0) (computeDelta t st.r x).2.1 st.maxId = (some to, ad')) :
    sweepStep t τ st x =
      { r := addBucket st.r x (st.r.getD x 0) to (computeDelta t st.r x).2.2,
        maxId := if (computeDelta t st.r x).2.2 then st.maxId else st.maxId + 1,
        delta := st.delta + ad'.getD to 0, moved := true } := by
  unfold sweepStep
  simp only [h, h2]

theorem sweepStep_none (t : Table) (τ : Int) (st : SweepSt) (x : Nat) (ch' ad' : List Int)
    (h : searchChange τ (st.r.getD x 0) (computeDelta t st.r x).1 st.maxId = (none, ch'))
    (h2 : searchAdd τ (st.r.getD x 0) (computeDelta t st.r x).2.1 st.maxId = (none, ad')) :
    sweepStep t τ st x = st := by
  unfold sweepStep
  simp only [h, h2]


/-- no single-element move of `x` improves `r` by more than `τ` -/
def NoMoveAt (t : Table) (τ : Int) (r : List Nat) (x : Nat) : Prop :=
  (∀ j, j ≤ r.foldl max 0 → j ≠ r.getD x 0 →
      scoreVecN t r - τ ≤ scoreVec t (moveKeys r x (2 * (Int.ofNat j) + 1))) ∧
  (∀ p, p ≤ r.foldl max 0 + 1 →
      scoreVecN t r - τ ≤ scoreVec t (moveKeys r x (2 * (Int.ofNat p))))

theorem scoreVecN_of_cmp (t : Table) (r r' : List Nat) (w : List Int) (hl : r'.length = r.length)
    (hw : w.length = r.length)
    (h : ∀ i k, i < r.length → k < r.length →
      compare (r'.getD i 0) (r'.getD k 0) = compare (w.getD i 0) (w.getD k 0)) :
    scoreVecN t r' = scoreVec t w := by
  unfold scoreVecN
  apply scoreVec_congr_cmp
  · rw [List.length_map, hl, hw]
  · intro i j hi hj
    rw [List.length_map, hl] at hi hj
    rw [getD_map' _ _ _ 0 0 (by omega), getD_map' _ _ _ 0 0 (by omega), ← h i j hi hj]
    symm
    apply cmp_nat_int <;> simp only [Int.ofNat_eq_natCast] <;> omega

theorem max_lt_length (r : List Nat) (hd : DenseN r) (hne : 0 < r.length) : r.foldl max 0 < r.length := by
  obtain ⟨k, hk, e⟩ := (dense_surj r hd hne).2 (r.foldl max 0) (Nat.le_refl _)
  rw [← e]
  exact getD_lt_of_bound r (DenseN.lt_length hd) k hk

/-- one step: either nothing happens and no move of `x` improves by more than `τ`, or a move is made which
    keeps the invariants and decreases the score by more than `τ`. -/
theorem sweepStep_spec (t : Table) (τ : Int) (hτ : 0 ≤ τ) (st : SweepSt) (x : Nat)
    (hm : MirrorT t st.r.length) (hd : DenseN st.r) (hx : x < st.r.length) (hmax : st.maxId = st.r.foldl max 0) :
    (sweepStep t τ st x = st ∧ NoMoveAt t τ st.r x) ∨
    ((sweepStep t τ st x).moved = true ∧ DenseN (sweepStep t τ st x).r ∧
      (sweepStep t τ st x).r.length = st.r.length ∧
      (sweepStep t τ st x).maxId = (sweepStep t τ st x).r.foldl max 0 ∧
      scoreVecN t (sweepStep t τ st x).r - scoreVecN t st.r = (sweepStep t τ st x).delta - st.delta ∧
      (sweepStep t τ st x).delta - st.delta < -τ) := by
  have hbM : st.r.getD x 0 ≤ st.maxId := by rw [hmax]; exact (dense_surj st.r hd (by omega)).1 x hx
  have hMn := max_lt_length st.r hd (by omega)
  obtain ⟨hl1, hl2⟩ := computeDelta_lengths t st.r x
  have h0 := bio_change_own_zero t st.r x hx
  have ha : (computeDelta t st.r x).2.2 = true ↔ AloneAt st.r x := bio_alone_iff t st.r x hx
  rcases hsc : searchChange τ (st.r.getD x 0) (computeDelta t st.r x).1 st.maxId with ⟨_ | to, ch'⟩
  · have hcn := bio_searchChange_none τ hτ _ _ hbM _ (by omega) h0 ch' hsc
    rcases hsa : searchAdd τ (st.r.getD x 0) (computeDelta t st.r x).2.1 st.maxId with ⟨_ | to, ad'⟩
    · have han := bio_searchAdd_none τ _ _ hbM _ (by omega) ad' hsa
      left
      refine ⟨sweepStep_none t τ st x ch' ad' hsc hsa, ?_, ?_⟩
      · intro j hj hjb
        have := hcn j (by omega) hjb
        rw [bio_delta_change_dense t st.r hm hd x hx j hj hjb] at this
        omega
      · intro p hp
        have := han p (by omega)
        rw [bio_delta_add_dense t st.r hm hd x hx p hp] at this
        omega
    · obtain ⟨h1, h2, h3⟩ := bio_searchAdd_some τ _ _ hbM _ (by omega) to ad' hsa
      have hp : to ≤ st.r.foldl max 0 + 1 := by omega
      rw [bio_delta_add_dense t st.r hm hd x hx to hp] at h2 h3
      obtain ⟨m1, m2, m3, m4⟩ := bio_addBucket st.r hd x hx to hp _ ha
      right
      rw [sweepStep_add t τ st x to ch' ad' hsc hsa]
      refine ⟨rfl, m1, m2, ?_, ?_, ?_⟩
      · show _ = List.foldl max 0 _
        rw [m4, hmax]
      · show scoreVecN t (addBucket _ _ _ _ _) - _ = (st.delta + _) - st.delta
        rw [scoreVecN_of_cmp t st.r _ _ m2 (length_moveKeys _ _ _) m3, h2]
        omega
      · show (st.delta + _) - st.delta < _
        rw [h2]; omega
  · obtain ⟨h1, hjb, h2, h3⟩ := bio_searchChange_some τ hτ _ _ hbM _ (by omega) h0 to ch' hsc
    have hj : to ≤ st.r.foldl max 0 := by omega
    rw [bio_delta_change_dense t st.r hm hd x hx to hj hjb] at h2 h3
    obtain ⟨m1, m2, m3, m4⟩ := bio_changeBucket st.r hd x hx to hj hjb _ ha
    right
    rw [sweepStep_change t τ st x to ch' hsc]
    refine ⟨rfl, m1, m2, ?_, ?_, ?_⟩
    · show _ = List.foldl max 0 _
      rw [m4, hmax]
    · show scoreVecN t (changeBucket _ _ _ _ _) - _ = (st.delta + _) - st.delta
      rw [scoreVecN_of_cmp t st.r _ _ m2 (length_moveKeys _ _ _) m3, h2]
      omega
    · show (st.delta + _) - st.delta < _
      rw [h2]; omega


/-- a whole sweep -/
theorem sweep_spec (t : Table) (τ : Int) (hτ : 0 ≤ τ) (r : List Nat) (M : Nat) (delta : Int)
    (hm : MirrorT t r.length) (hd : DenseN r) (hM : M = r.foldl max 0) :
    DenseN (sweep t τ r M delta).r ∧ (sweep t τ r M delta).r.length = r.length ∧
    (sweep t τ r M delta).maxId = (sweep t τ r M delta).r.foldl max 0 ∧
    scoreVecN t (sweep t τ r M delta).r - scoreVecN t r = (sweep t τ r M delta).delta - delta ∧
    (sweep t τ r M delta).delta ≤ delta ∧
    ((sweep t τ r M delta).moved = false →
      (sweep t τ r M delta).r = r ∧ ∀ x, x < r.length → NoMoveAt t τ r x) := by
  have key := foldl_inv (sweepStep t τ)
    (fun k st => DenseN st.r ∧ st.r.length = r.length ∧ st.maxId = st.r.foldl max 0 ∧
      scoreVecN t st.r - scoreVecN t r = st.delta - delta ∧ st.delta ≤ delta ∧
      (st.moved = false → st.r = r ∧ ∀ x, x < k → NoMoveAt t τ r x))
    (List.range r.length) { r := r, maxId := M, delta := delta, moved := false }
    ⟨hd, rfl, hM, by simp, Int.le_refl _, fun _ => ⟨rfl, fun x hx => absurd hx (Nat.not_lt_zero x)⟩⟩
    (by
      intro j hj st ⟨i1, i2, i3, i4, i5, i6⟩
      rw [List.length_range] at hj
      rw [List.getElem_range]
      rcases sweepStep_spec t τ hτ st j (by rw [i2]; exact hm) i1 (by omega) i3 with ⟨e, hn⟩ | ⟨s1, s2, s3, s4, s5, s6⟩
      · rw [e]
        refine ⟨i1, i2, i3, i4, i5, ?_⟩
        intro hmv
        obtain ⟨e1, e2⟩ := i6 hmv
        refine ⟨e1, ?_⟩
        intro x hx
        by_cases hxj : x = j
        · subst hxj; rw [← e1]; exact hn
        · exact e2 x (by omega)
      · refine ⟨s2, by omega, s4, by omega, by omega, ?_⟩
        intro hmv
        rw [s1] at hmv
        cases hmv)
  rw [List.length_range] at key
  unfold sweep
  obtain ⟨k1, k2, k3, k4, k5, k6⟩ := key
  exact ⟨k1, k2, k3, k4, k5, k6⟩

theorem localOptVec_of_noMove (t : Table) (τ : Int) (r : List Nat)
    (h : ∀ x, x < r.length → NoMoveAt t τ r x) : localOptVec t τ r = true := by
  unfold localOptVec
  simp only [List.all_eq_true, List.mem_range, Bool.and_eq_true, Bool.or_eq_true, beq_iff_eq,
    decide_eq_true_eq, ge_iff_le]
  intro x hx
  obtain ⟨h1, h2⟩ := h x hx
  refine ⟨?_, ?_⟩
  · intro j hj
    by_cases hjb : j = r.getD x 0
    · left; exact hjb
    · right; exact h1 j (by omega) hjb
  · intro p hp
    exact h2 p (by omega)

theorem improveLoop_spec (t : Table) (τ : Int) (hτ : 0 ≤ τ) (fuel : Nat) (r : List Nat) (M : Nat) (delta : Int)
    (hm : MirrorT t r.length) (hd : DenseN r) (hM : M = r.foldl max 0) (r' : List Nat) (d : Int)
    (h : improveLoop t τ fuel r M delta = (r', d, true)) :
    DenseN r' ∧ r'.length = r.length ∧ localOptVec t τ r' = true ∧
    scoreVecN t r' - scoreVecN t r = d - delta ∧ d ≤ delta := by
  induction fuel generalizing r M delta with
  | zero => simp [improveLoop] at h
  | succ fuel ih =>
    obtain ⟨k1, k2, k3, k4, k5, k6⟩ := sweep_spec t τ hτ r M delta hm hd hM
    unfold improveLoop at h
    simp only [] at h
    by_cases hmv : (sweep t τ r M delta).moved = true
    · rw [if_pos hmv] at h
      obtain ⟨j1, j2, j3, j4, j5⟩ := ih (sweep t τ r M delta).r (sweep t τ r M delta).maxId
        (sweep t τ r M delta).delta (by rw [k2]; exact hm) k1 k3 h
      exact ⟨j1, by omega, j3, by omega, by omega⟩
    · rw [if_neg hmv] at h
      simp only [Prod.mk.injEq, and_true] at h
      obtain ⟨e1, e2⟩ := h
      have hmv' : (sweep t τ r M delta).moved = false := by simpa using hmv
      obtain ⟨e3, hn⟩ := k6 hmv'
      subst e1 e2
      rw [e3]
      exact ⟨hd, rfl, localOptVec_of_noMove t τ r hn, by rw [e3] at k4; exact k4, k5⟩

theorem dstInit_eq (t : Table) (r : List Nat) : dstInit t r = scoreVecN t r := by
  unfold dstInit scoreVecN scoreVec
  rw [List.length_map]
  apply isum_map_congr
  intro p hp
  obtain ⟨h1, h2⟩ := mem_pairs_range p hp
  simp only [sel]
  rw [getD_map' _ _ _ 0 0 (by omega), getD_map' _ _ _ 0 0 h2]
  simp only [Int.ofNat_eq_natCast, Int.ofNat_lt, gt_iff_lt]


/-! ### decoding of a dense vector, rows of well-formed rankings -/

theorem nodup_eraseDups_aux (n : Nat) : ∀ (l : List Nat), l.length ≤ n → l.eraseDups.Nodup := by
  induction n with
  | zero =>
    intro l hl
    have : l = [] := List.eq_nil_of_length_eq_zero (by omega)
    subst this; simp
  | succ n ih =>
    intro l hl
    cases l with
    | nil => simp
    | cons a as =>
      rw [List.eraseDups_cons, List.nodup_cons]
      constructor
      · intro hmem
        rw [List.mem_eraseDups, List.mem_filter] at hmem
        simp at hmem
      · apply ih
        have := List.length_filter_le (fun b => !b == a) as
        simp only [List.length_cons] at hl
        omega

theorem nodup_eraseDups (l : List Nat) : l.eraseDups.Nodup := nodup_eraseDups_aux l.length l (Nat.le_refl _)

/-- for a dense vector the number of distinct ids counts exactly the ids in use -/
theorem lt_eraseDups_length_iff (v : List Nat) (hd : DenseN v) (b : Nat) : b < v.eraseDups.length ↔ b ∈ v := by
  by_cases hv : v = []
  · subst hv; simp
  have hne : 0 < v.length := List.length_pos_iff.mpr hv
  obtain ⟨hle, hsurj⟩ := dense_surj v hd hne
  have hperm : v.eraseDups.Perm (List.range (v.foldl max 0 + 1)) := by
    rw [List.perm_ext_iff_of_nodup (nodup_eraseDups v) List.nodup_range]
    intro a
    rw [List.mem_eraseDups, List.mem_range, mem_iff_getD]
    constructor
    · rintro ⟨i, hi, e⟩
      have := hle i hi
      omega
    · intro ha
      exact hsurj a (by omega)
  rw [hperm.length_eq, List.length_range, mem_iff_getD]
  constructor
  · intro hb; exact hsurj b (by omega)
  · rintro ⟨i, hi, e⟩
    have := hle i hi
    omega

/-- bucket `b` of the decoding -/
def bucketAt (univ : List Elem) (v : List Nat) (b : Nat) : List Elem :=
  ((univ.zip v).filter fun p => p.2 == b).map (·.1)

theorem decodeVec_eq (univ : List Elem) (v : List Nat) :
    decodeVec univ v = (List.range v.eraseDups.length).map (bucketAt univ v) := rfl

theorem mem_bucketAt (univ : List Elem) (v : List Nat) (b : Nat) (u : Elem) :
    u ∈ bucketAt univ v b ↔ (u, b) ∈ univ.zip v := by
  simp only [bucketAt, List.mem_map, List.mem_filter, beq_iff_eq]
  constructor
  · rintro ⟨⟨u', b'⟩, ⟨h1, h2⟩, h3⟩
    simp only at h2 h3
    subst h2 h3; exact h1
  · intro h
    exact ⟨(u, b), ⟨h, rfl⟩, rfl⟩

theorem mem_zip_iff (univ : List Elem) (v : List Nat) (u : Elem) (b : Nat) :
    (u, b) ∈ univ.zip v ↔ ∃ i, ∃ (h1 : i < univ.length), ∃ (h2 : i < v.length), univ[i] = u ∧ v[i] = b := by
  rw [List.mem_iff_getElem]
  constructor
  · rintro ⟨i, hi, e⟩
    have hi' := hi
    rw [List.length_zip] at hi'
    rw [List.getElem_zip] at e
    simp only [Prod.mk.injEq] at e
    exact ⟨i, by omega, by omega, e.1, e.2⟩
  · rintro ⟨i, h1, h2, e1, e2⟩
    refine ⟨i, by rw [List.length_zip]; omega, ?_⟩
    rw [List.getElem_zip, e1, e2]

theorem zip_functional (univ : List Elem) (hu : univ.Nodup) (v : List Nat) (u : Elem) (b b' : Nat)
    (h : (u, b) ∈ univ.zip v) (h' : (u, b') ∈ univ.zip v) : b = b' := by
  obtain ⟨i, i1, i2, e1, e2⟩ := (mem_zip_iff univ v u b).mp h
  obtain ⟨j, j1, j2, f1, f2⟩ := (mem_zip_iff univ v u b').mp h'
  have : i = j := by
    apply Classical.byContradiction
    intro hne
    exact nodup_getElem_ne hu i1 j1 hne (by rw [e1, f1])
  subst this
  rw [← e2, ← f2]

theorem nodup_flatten_map_range' {α : Type} (g : Nat → List α) (h1 : ∀ i, (g i).Nodup)
    (h2 : ∀ i j e, e ∈ g i → e ∈ g j → i = j) (n : Nat) : ((List.range n).map g).flatten.Nodup := by
  induction n with
  | zero => simp
  | succ n ih =>
    rw [List.range_succ, List.map_append, List.flatten_append, List.nodup_append]
    refine ⟨ih, by simpa using h1 n, ?_⟩
    intro a ha b hb hab
    subst hab
    simp only [List.mem_flatten, List.mem_map, List.mem_range] at ha
    obtain ⟨l, ⟨i, hi, rfl⟩, ha⟩ := ha
    simp only [List.map_cons, List.map_nil, List.flatten_cons, List.flatten_nil, List.append_nil] at hb
    have := h2 i n a ha hb
    omega

theorem bidIn_eq (c : Ranking) (x : Elem) (k : Nat) (hk : k < c.length) (hx : x ∈ c[k])
    (hno : ∀ j (hj : j < k), x ∉ c[j]) : bidIn c x = (k : Int) := by
  induction c generalizing k with
  | nil => simp at hk
  | cons b bs ih =>
    cases k with
    | zero =>
      simp only [List.getElem_cons_zero] at hx
      simp [bidIn, hx]
    | succ k =>
      have hb : x ∉ b := by
        have := hno 0 (by omega)
        simpa using this
      simp only [List.getElem_cons_succ] at hx
      have := ih k (by simpa using hk) hx (by
        intro j hj
        have := hno (j + 1) (by omega)
        simpa using this)
      simp only [bidIn, if_neg hb, this]
      have : ¬ ((k : Nat) : Int) < 0 := by omega
      rw [if_neg this]
      omega

theorem flatten_nodup_disjoint (c : Ranking) (h : c.flatten.Nodup) (j k : Nat) (hj : j < c.length)
    (hk : k < c.length) (x : Elem) (hxj : x ∈ c[j]) (hxk : x ∈ c[k]) : j = k := by
  induction c generalizing j k with
  | nil => simp at hj
  | cons b bs ih =>
    rw [List.flatten_cons, List.nodup_append] at h
    obtain ⟨_, h2, h3⟩ := h
    cases j with
    | zero =>
      cases k with
      | zero => rfl
      | succ k =>
        simp only [List.getElem_cons_zero] at hxj
        simp only [List.getElem_cons_succ] at hxk
        exact absurd rfl (h3 x hxj x (List.mem_flatten.mpr ⟨_, List.getElem_mem _, hxk⟩))
    | succ j =>
      cases k with
      | zero =>
        simp only [List.getElem_cons_zero] at hxk
        simp only [List.getElem_cons_succ] at hxj
        exact absurd rfl (h3 x hxk x (List.mem_flatten.mpr ⟨_, List.getElem_mem _, hxj⟩))
      | succ k =>
        simp only [List.getElem_cons_succ] at hxj hxk
        have := ih h2 j k (by simpa using hj) (by simpa using hk) hxj hxk
        omega

theorem wellFormedRanking_iff (univ : List Elem) (c : Ranking) :
    wellFormedRanking univ c = true ↔
      (∀ b ∈ c, b ≠ []) ∧ c.flatten.Nodup ∧ (∀ x ∈ c.flatten, x ∈ univ) ∧ (∀ x ∈ univ, x ∈ c.flatten) := by
  simp only [wellFormedRanking, Bool.and_eq_true, List.all_eq_true, decide_eq_true_eq, List.contains_iff_mem,
    Bool.not_eq_true', List.isEmpty_eq_false_iff, ne_eq, and_assoc]

/-- a ranked element has its bucket index -/
theorem bidIn_of_mem (c : Ranking) (hn : c.flatten.Nodup) (x : Elem) (k : Nat) (hk : k < c.length)
    (hx : x ∈ c[k]) : bidIn c x = (k : Int) := by
  apply bidIn_eq c x k hk hx
  intro j hj hxj
  have := flatten_nodup_disjoint c hn j k (by omega) hk x hxj hx
  omega

theorem rowOf_dense (univ : List Elem) (c : Ranking) (hw : wellFormedRanking univ c = true) :
    DenseN (rowOf univ c) ∧ (rowOf univ c).length = univ.length := by
  obtain ⟨w1, w2, w3, w4⟩ := (wellFormedRanking_iff univ c).mp hw
  refine ⟨?_, by simp [rowOf]⟩
  intro v hv b hb
  simp only [rowOf, List.mem_map] at hv ⊢
  obtain ⟨u, hu, e⟩ := hv
  obtain ⟨l, hl, hul⟩ := List.mem_flatten.mp (w4 u hu)
  obtain ⟨k, hk, rfl⟩ := List.mem_iff_getElem.mp hl
  rw [bidIn_of_mem c w2 u k hk hul] at e
  have hkv : k = v := by simpa using e
  subst hkv
  have hb' : b < c.length := by omega
  have hne := w1 c[b] (List.getElem_mem _)
  obtain ⟨u', hu'⟩ := List.exists_mem_of_ne_nil _ hne
  refine ⟨u', w3 u' (List.mem_flatten.mpr ⟨_, List.getElem_mem _, hu'⟩), ?_⟩
  rw [bidIn_of_mem c w2 u' b hb' hu']
  simp

theorem decodeVec_spec (univ : List Elem) (hu : univ.Nodup) (v : List Nat) (hv : DenseN v)
    (hl : v.length = univ.length) :
    wellFormedRanking univ (decodeVec univ v) = true ∧ rowOf univ (decodeVec univ v) = v := by
  have hlen : (decodeVec univ v).length = v.eraseDups.length := by simp [decodeVec_eq]
  have hget : ∀ k (hk : k < (decodeVec univ v).length), (decodeVec univ v)[k] = bucketAt univ v k := by
    intro k hk
    simp [decodeVec_eq]
  have hmem : ∀ i (h1 : i < univ.length) (h2 : i < v.length), univ[i] ∈ bucketAt univ v v[i] := by
    intro i h1 h2
    rw [mem_bucketAt, mem_zip_iff]
    exact ⟨i, h1, h2, rfl, rfl⟩
  have hK : ∀ i (h2 : i < v.length), v[i] < (decodeVec univ v).length := by
    intro i h2
    rw [hlen, lt_eraseDups_length_iff v hv]
    exact List.getElem_mem _
  have hnd : (decodeVec univ v).flatten.Nodup := by
    rw [decodeVec_eq]
    apply nodup_flatten_map_range'
    · intro i
      unfold bucketAt
      have hs : (((univ.zip v).filter fun p => p.2 == i).map (·.1)).Sublist ((univ.zip v).map (·.1)) :=
        List.Sublist.map _ List.filter_sublist
      have e : (univ.zip v).map (·.1) = univ := List.map_fst_zip (by omega)
      rw [e] at hs
      exact List.Nodup.sublist hs hu
    · intro i j e hi hj
      rw [mem_bucketAt] at hi hj
      exact zip_functional univ hu v e i j hi hj
  constructor
  · rw [wellFormedRanking_iff]
    refine ⟨?_, hnd, ?_, ?_⟩
    · intro b hb
      obtain ⟨k, hk, rfl⟩ := List.mem_iff_getElem.mp hb
      rw [hget k hk]
      rw [hlen, lt_eraseDups_length_iff v hv, List.mem_iff_getElem] at hk
      obtain ⟨i, hi, e⟩ := hk
      have := hmem i (by omega) hi
      rw [e] at this
      exact List.ne_nil_of_mem this
    · intro x hx
      obtain ⟨l, hl', hxl⟩ := List.mem_flatten.mp hx
      obtain ⟨k, hk, rfl⟩ := List.mem_iff_getElem.mp hl'
      rw [hget k hk, mem_bucketAt] at hxl
      exact (List.of_mem_zip hxl).1
    · intro x hx
      obtain ⟨i, hi, rfl⟩ := List.mem_iff_getElem.mp hx
      have h2 : i < v.length := by omega
      refine List.mem_flatten.mpr ⟨(decodeVec univ v)[v[i]]'(hK i h2), List.getElem_mem _, ?_⟩
      rw [hget]
      exact hmem i hi h2
  · apply List.ext_getElem
    · simp [rowOf, hl]
    · intro i h1 h2
      have hi : i < univ.length := by omega
      simp only [rowOf, List.getElem_map]
      rw [bidIn_of_mem (decodeVec univ v) hnd univ[i] v[i] (hK i h2) (by rw [hget]; exact hmem i hi h2)]
      simp

theorem replicate_zero_dense (n : Nat) : DenseN (List.replicate n 0) := by
  intro v hv b hb
  have := (List.mem_replicate.mp hv).2
  omega

/-! ### selection of the best vectors -/

theorem foldl_min_spec (rest : List (List Nat × Int × Bool)) (a : Int) :
    (rest.foldl (fun m r => min m r.2.1) a ≤ a) ∧
    (∀ r ∈ rest, rest.foldl (fun m r => min m r.2.1) a ≤ r.2.1) ∧
    (rest.foldl (fun m r => min m r.2.1) a = a ∨ ∃ r ∈ rest, rest.foldl (fun m r => min m r.2.1) a = r.2.1) := by
  induction rest generalizing a with
  | nil => simp
  | cons x xs ih =>
    simp only [List.foldl_cons, List.mem_cons]
    obtain ⟨i1, i2, i3⟩ := ih (min a x.2.1)
    refine ⟨by omega, ?_, ?_⟩
    · rintro r (rfl | hr)
      · omega
      · exact i2 r hr
    · rcases i3 with h | ⟨r, hr, h⟩
      · rw [h]
        rcases Int.le_total a x.2.1 with g | g
        · left; omega
        · right; exact ⟨x, Or.inl rfl, by omega⟩
      · right; exact ⟨r, Or.inr hr, h⟩


theorem selectBest_spec (univ : List Elem) (amo : Bool) (res : List (List Nat × Int × Bool)) (hres : res ≠ []) :
    ∃ m, (selectBest univ amo res).2 = some m ∧ (∀ r ∈ res, m ≤ r.2.1) ∧ (selectBest univ amo res).1 ≠ [] ∧
      (∀ c ∈ (selectBest univ amo res).1, ∃ r ∈ res, r.2.1 = m ∧ c = decodeVec univ r.1) ∧
      (amo = true → (selectBest univ amo res).1.length = 1) := by
  cases res with
  | nil => exact absurd rfl hres
  | cons r0 rest =>
    obtain ⟨i1, i2, i3⟩ := foldl_min_spec rest r0.2.1
    have hsel : selectBest univ amo (r0 :: rest) =
        ((if amo = true then
            (match (((r0 :: rest).filter fun r => r.2.1 == rest.foldl (fun m r => min m r.2.1) r0.2.1).map
              (·.1)).getLast? with
            | some b => [b]
            | none => [])
          else ((r0 :: rest).filter fun r => r.2.1 == rest.foldl (fun m r => min m r.2.1) r0.2.1).map
              (·.1)).eraseDups.map (decodeVec univ),
          some (rest.foldl (fun m r => min m r.2.1) r0.2.1)) := rfl
    generalize rest.foldl (fun m r => min m r.2.1) r0.2.1 = lowest at i1 i2 i3 hsel
    have hall : ∀ r ∈ r0 :: rest, lowest ≤ r.2.1 := by
      intro r hr
      rcases List.mem_cons.mp hr with rfl | hr
      · exact i1
      · exact i2 r hr
    have hex : ∃ r ∈ r0 :: rest, r.2.1 = lowest := by
      rcases i3 with h | ⟨r, hr, h⟩
      · exact ⟨r0, List.mem_cons_self, h.symm⟩
      · exact ⟨r, List.mem_cons_of_mem _ hr, h.symm⟩
    generalize hb0 : ((r0 :: rest).filter fun r => r.2.1 == lowest).map (·.1) = best0 at hsel
    have hbest : ∀ b, b ∈ best0 ↔ ∃ r ∈ r0 :: rest, r.2.1 = lowest ∧ r.1 = b := by
      intro b
      rw [← hb0]
      simp only [List.mem_map, List.mem_filter, beq_iff_eq, and_assoc]
    have hne0 : best0 ≠ [] := by
      obtain ⟨r, hr, e⟩ := hex
      exact List.ne_nil_of_mem ((hbest r.1).mpr ⟨r, hr, e, rfl⟩)
    -- the list which is deduplicated and decoded
    have hbl : ∃ bl : List (List Nat), selectBest univ amo (r0 :: rest) = (bl.eraseDups.map (decodeVec univ), some lowest) ∧
        bl ≠ [] ∧ (∀ b ∈ bl, b ∈ best0) ∧ (amo = true → bl.eraseDups.length = 1) := by
      cases amo with
      | false =>
        refine ⟨best0, ?_, hne0, fun b hb => hb, fun h => by cases h⟩
        rw [hsel]; simp
      | true =>
        obtain ⟨b, hb⟩ : ∃ b, best0.getLast? = some b := by
          have := List.getLast?_isSome.mpr hne0
          exact Option.isSome_iff_exists.mp this
        refine ⟨[b], ?_, by simp, ?_, fun _ => by simp [List.eraseDups_cons]⟩
        · rw [hsel, hb]; simp
        · intro b' hb'
          rw [List.mem_singleton.mp hb']
          exact List.mem_of_getLast? hb
    obtain ⟨bl, e, hne, hsub, hone⟩ := hbl
    refine ⟨lowest, by rw [e], hall, ?_, ?_, ?_⟩
    · rw [e]
      obtain ⟨b, hb⟩ := List.exists_mem_of_ne_nil _ hne
      exact List.ne_nil_of_mem (List.mem_map.mpr ⟨b, List.mem_eraseDups.mpr hb, rfl⟩)
    · rw [e]
      intro c hc
      obtain ⟨b, hb, rfl⟩ := List.mem_map.mp hc
      obtain ⟨r, hr, e1, e2⟩ := (hbest b).mp (hsub b (List.mem_eraseDups.mp hb))
      exact ⟨r, hr, e1, by rw [e2]⟩
    · intro h
      rw [e]
      simp only [List.length_map]
      exact hone h


/-! ### dataset level -/

theorem mirror_costMatrix (S : Scheme) (D : Dataset) :
    MirrorT (costMatrix S (getPositions D)) (univOf D).length := by
  intro i j hi hj
  have hl : (getPositions D).length = (univOf D).length := by simp [getPositions]
  exact C02_mirror S (getPositions D) i j (by omega) (by omega)

theorem perm_of_wellFormed (univ : List Elem) (hu : univ.Nodup) (c : Ranking)
    (hw : wellFormedRanking univ c = true) : c.flatten.Perm univ := by
  obtain ⟨_, w2, w3, w4⟩ := (wellFormedRanking_iff univ c).mp hw
  rw [List.perm_ext_iff_of_nodup w2 hu]
  exact fun a => ⟨w3 a, w4 a⟩

theorem vecOf_eq_rowOf (univ : List Elem) (c : Ranking) (hw : wellFormedRanking univ c = true) :
    vecOf univ c = (rowOf univ c).map fun v => Int.ofNat v := by
  obtain ⟨_, w2, _, w4⟩ := (wellFormedRanking_iff univ c).mp hw
  simp only [vecOf, rowOf, List.map_map]
  apply List.map_congr_left
  intro u hu
  obtain ⟨l, hl, hul⟩ := List.mem_flatten.mp (w4 u hu)
  obtain ⟨k, hk, rfl⟩ := List.mem_iff_getElem.mp hl
  rw [Function.comp_apply, bidIn_of_mem c w2 u k hk hul]
  simp

/-- the score of the row of a well-formed ranking, read from the table the code builds, is its Kemeny score -/
theorem scoreVecN_rowOf (S : Scheme) (hS : S.Valid) (D : Dataset) (c : Ranking)
    (hw : wellFormedRanking (univOf D) c = true) :
    scoreVecN (costMatrix S (getPositions D)) (rowOf (univOf D) c) = Spec.kemeny S D c := by
  unfold scoreVecN
  rw [← vecOf_eq_rowOf _ c hw, C02_def S hS D]
  exact C02_sum S hS D c (perm_of_wellFormed _ (univOf_nodup D) c hw)


/-! ### departure rankings -/

theorem flatten_subset_univOf (D : Dataset) (r : Ranking) (hr : r ∈ D) : ∀ x ∈ r.flatten, x ∈ univOf D := by
  intro x hx
  unfold univOf
  rw [mem_dedup]
  obtain ⟨b, hb, hxb⟩ := List.mem_flatten.mp hx
  exact List.mem_flatten.mpr ⟨b, List.mem_flatten.mpr ⟨r, hr, hb⟩, hxb⟩

/-- completing a ranking with nonempty disjoint buckets inside `univ` gives a well-formed ranking over `univ` -/
theorem wellFormed_unifyRanking (univ : List Elem) (hu : univ.Nodup) (r : Ranking)
    (h1 : ∀ b ∈ r, b ≠ []) (h2 : r.flatten.Nodup) (h3 : ∀ x ∈ r.flatten, x ∈ univ) :
    wellFormedRanking univ (unifyRanking univ r) = true := by
  rw [wellFormedRanking_iff]
  unfold unifyRanking
  simp only []
  have hmiss : ∀ x, x ∈ (univ.filter fun x => !(r.flatten.contains x)) ↔ x ∈ univ ∧ x ∉ r.flatten := by
    intro x
    simp [List.mem_filter]
  by_cases he : (univ.filter fun x => !(r.flatten.contains x)).isEmpty = true
  · rw [if_pos he]
    refine ⟨h1, h2, h3, ?_⟩
    intro x hx
    apply Classical.byContradiction
    intro hn
    have := (hmiss x).mpr ⟨hx, hn⟩
    rw [List.isEmpty_iff.mp he] at this
    cases this
  · rw [if_neg he]
    refine ⟨?_, ?_, ?_, ?_⟩
    · intro b hb
      rcases List.mem_append.mp hb with hb | hb
      · exact h1 b hb
      · rw [List.mem_singleton.mp hb]
        intro e
        rw [e] at he
        exact he rfl
    · rw [List.flatten_append, List.nodup_append]
      refine ⟨h2, ?_, ?_⟩
      · simp only [List.flatten_cons, List.flatten_nil, List.append_nil]
        exact List.Nodup.sublist List.filter_sublist hu
      · intro a ha b hb hab
        simp only [List.flatten_cons, List.flatten_nil, List.append_nil] at hb
        subst hab
        exact ((hmiss a).mp hb).2 ha
    · intro x hx
      rw [List.flatten_append, List.mem_append] at hx
      rcases hx with hx | hx
      · exact h3 x hx
      · simp only [List.flatten_cons, List.flatten_nil, List.append_nil] at hx
        exact ((hmiss x).mp hx).1
    · intro x hx
      rw [List.flatten_append, List.mem_append]
      by_cases hxr : x ∈ r.flatten
      · exact Or.inl hxr
      · right
        simp only [List.flatten_cons, List.flatten_nil, List.append_nil]
        exact (hmiss x).mpr ⟨hx, hxr⟩

theorem wellFormed_of_complete (D : Dataset) (hc : isComplete D = true) (r : Ranking) (hr : r ∈ D)
    (h1 : ∀ b ∈ r, b ≠ []) (h2 : r.flatten.Nodup) : wellFormedRanking (univOf D) r = true := by
  rw [wellFormedRanking_iff]
  refine ⟨h1, h2, flatten_subset_univOf D r hr, ?_⟩
  intro x hx
  simp only [isComplete, List.all_eq_true, List.contains_iff_mem] at hc
  exact hc x hx r hr

theorem departuresDefault_dense (D : Dataset) (hD : ∀ r ∈ D, (∀ b ∈ r, b ≠ []) ∧ r.flatten.Nodup) :
    ∀ row ∈ departuresDefault D, DenseN row ∧ row.length = (univOf D).length := by
  intro row hrow
  unfold departuresDefault at hrow
  simp only [] at hrow
  rcases List.mem_append.mp hrow with h | h
  · rw [List.mem_eraseDups, List.mem_map] at h
    obtain ⟨r, hr, rfl⟩ := h
    apply rowOf_dense
    by_cases hc : isComplete D = true
    · rw [if_pos hc] at hr
      exact wellFormed_of_complete D hc r hr (hD r hr).1 (hD r hr).2
    · rw [if_neg hc] at hr
      simp only [unifiedRankings, List.mem_map] at hr
      obtain ⟨r0, hr0, rfl⟩ := hr
      exact wellFormed_unifyRanking _ (univOf_nodup D) r0 (hD r0 hr0).1 (hD r0 hr0).2
        (flatten_subset_univOf D r0 hr0)
  · rw [List.mem_singleton.mp h]
    exact ⟨replicate_zero_dense _, by simp⟩

end BioSM
end Corankco
