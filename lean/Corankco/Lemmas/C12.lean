import Corankco.Lemmas.SortGroup
import Corankco.Lemmas.C19
/-
  Helper lemmas for C12 (Borda).
-/
namespace Corankco
open Model
namespace C12

/-! ### the four scheme families -/

/-- `C19_equiv_spec` without its (unused) validity hypotheses. -/
theorem isEquivalentTo_eq (S S' : Scheme) : isEquivalentTo S S' = Spec.equivSpec 6 S S' := by
  unfold isEquivalentTo
  rw [C19.equivGen_eq_scan, C19.scan_eq_proportional]
  rfl

theorem unifying_eq (S : Scheme) :
    (isEquivalentTo S unifying || isEquivalentTo S unifyingHalf) = Spec.isUnifyingFamily S := by
  simp only [isEquivalentTo_eq, Spec.isUnifyingFamily]

theorem bordaRelevant_eq (S : Scheme) :
    bordaRelevant S = (Spec.isUnifyingFamily S || Spec.isInducedFamily S) := by
  unfold bordaRelevant Spec.isUnifyingFamily Spec.isInducedFamily
  simp only [isEquivalentTo_eq]
  cases Spec.equivSpec 6 S induced <;> cases Spec.equivSpec 6 S unifying <;>
    cases Spec.equivSpec 6 S inducedHalf <;> cases Spec.equivSpec 6 S unifyingHalf <;> rfl

/-! ### the accumulated table `points[elem] = [sum, count]` -/

abbrev Tbl := List (Elem × Nat × Nat)

def val (tbl : Tbl) (x : Elem) : Nat × Nat := (tbl.lookup x).getD (0, 0)

theorem val_nil (x : Elem) : val [] x = (0, 0) := rfl

theorem val_cons (y : Elem) (s c : Nat) (rest : Tbl) (x : Elem) :
    val ((y, s, c) :: rest) x = if x = y then (s, c) else val rest x := by
  unfold val
  rw [List.lookup_cons]
  by_cases h : x = y
  · simp [h]
  · have : (x == y) = false := by simp [h]
    simp [this, h]

theorem val_bordaAcc (tbl : Tbl) (p : Elem × Nat) (x : Elem) :
    val (bordaAcc tbl p) x = if x = p.1 then ((val tbl x).1 + p.2, (val tbl x).2 + 1) else val tbl x := by
  induction tbl with
  | nil =>
    simp only [bordaAcc, val_cons, val_nil]
    by_cases h : x = p.1 <;> simp [h]
  | cons e rest ih =>
    obtain ⟨y, s, c⟩ := e
    simp only [bordaAcc]
    by_cases hy : y = p.1
    · simp only [hy, if_true, val_cons]
      by_cases hx : x = p.1 <;> simp [hx]
    · simp only [hy, if_false, val_cons, ih]
      by_cases hx : x = y
      · have : ¬ x = p.1 := fun h => hy (hx ▸ h)
        simp [hx]
        intro h; exact absurd h hy
      · simp [hx]

theorem keys_bordaAcc (tbl : Tbl) (p : Elem × Nat) :
    (bordaAcc tbl p).map (·.1) =
      if p.1 ∈ tbl.map (·.1) then tbl.map (·.1) else tbl.map (·.1) ++ [p.1] := by
  induction tbl with
  | nil => simp [bordaAcc]
  | cons e rest ih =>
    obtain ⟨y, s, c⟩ := e
    simp only [bordaAcc]
    by_cases hy : y = p.1
    · simp [hy]
    · have hy' : ¬ p.1 = y := fun h => hy h.symm
      simp only [hy, if_false, List.map_cons, ih, List.mem_cons, hy', false_or]
      split <;> simp

theorem mem_keys_bordaAcc (tbl : Tbl) (p : Elem × Nat) (x : Elem) :
    x ∈ (bordaAcc tbl p).map (·.1) ↔ x ∈ tbl.map (·.1) ∨ x = p.1 := by
  rw [keys_bordaAcc]
  split
  · constructor
    · exact Or.inl
    · rintro (h | h)
      · exact h
      · subst h; assumption
  · simp

theorem nodup_keys_bordaAcc (tbl : Tbl) (p : Elem × Nat) (h : (tbl.map (·.1)).Nodup) :
    ((bordaAcc tbl p).map (·.1)).Nodup := by
  rw [keys_bordaAcc]
  split
  · exact h
  · rename_i hp
    rw [List.nodup_append]
    refine ⟨h, by simp, ?_⟩
    intro a ha b hb
    simp only [List.mem_singleton] at hb
    subst hb
    exact fun e => hp (e ▸ ha)

theorem count_pos_bordaAcc (tbl : Tbl) (p : Elem × Nat) (h : ∀ e ∈ tbl, 0 < e.2.2) :
    ∀ e ∈ bordaAcc tbl p, 0 < e.2.2 := by
  induction tbl with
  | nil => simp [bordaAcc]
  | cons e rest ih =>
    obtain ⟨y, s, c⟩ := e
    simp only [bordaAcc]
    have hr : ∀ e ∈ rest, 0 < e.2.2 := fun e he => h e (by simp [he])
    by_cases hy : y = p.1
    · simp only [hy, if_true]
      intro e he
      rcases List.mem_cons.mp he with rfl | he
      · simp
      · exact hr e he
    · simp only [hy, if_false]
      intro e he
      rcases List.mem_cons.mp he with rfl | he
      · exact h _ (by simp)
      · exact ih hr e he

theorem mem_keys_foldl (pts : List (Elem × Nat)) (tbl : Tbl) (x : Elem) :
    x ∈ (pts.foldl bordaAcc tbl).map (·.1) ↔ x ∈ tbl.map (·.1) ∨ x ∈ pts.map (·.1) := by
  induction pts generalizing tbl with
  | nil => simp
  | cons p pts ih =>
    rw [List.foldl_cons, ih, mem_keys_bordaAcc]
    simp only [List.map_cons, List.mem_cons]
    constructor
    · rintro ((h | h) | h)
      · exact Or.inl h
      · exact Or.inr (Or.inl h)
      · exact Or.inr (Or.inr h)
    · rintro (h | h | h)
      · exact Or.inl (Or.inl h)
      · exact Or.inl (Or.inr h)
      · exact Or.inr h

theorem nodup_keys_foldl (pts : List (Elem × Nat)) (tbl : Tbl) (h : (tbl.map (·.1)).Nodup) :
    ((pts.foldl bordaAcc tbl).map (·.1)).Nodup := by
  induction pts generalizing tbl with
  | nil => simpa using h
  | cons p pts ih => exact ih _ (nodup_keys_bordaAcc tbl p h)

theorem count_pos_foldl (pts : List (Elem × Nat)) (tbl : Tbl) (h : ∀ e ∈ tbl, 0 < e.2.2) :
    ∀ e ∈ pts.foldl bordaAcc tbl, 0 < e.2.2 := by
  induction pts generalizing tbl with
  | nil => simpa using h
  | cons p pts ih => exact ih _ (count_pos_bordaAcc tbl p h)

theorem val_of_mem (tbl : Tbl) (h : (tbl.map (·.1)).Nodup) (e : Elem × Nat × Nat) (he : e ∈ tbl) :
    val tbl e.1 = e.2 := by
  induction tbl with
  | nil => simp at he
  | cons f rest ih =>
    obtain ⟨y, s, c⟩ := f
    rw [List.map_cons, List.nodup_cons] at h
    rw [val_cons]
    rcases List.mem_cons.mp he with rfl | he
    · simp
    · have : e.1 ≠ y := by
        intro h'
        apply h.1
        rw [← h']
        exact List.mem_map.mpr ⟨e, he, rfl⟩
      simp only [this, if_false]
      exact ih h.2 he

/-! ### the points credited to one element -/

def ptsOf (x : Elem) (pts : List (Elem × Nat)) : List Nat := (pts.filter fun p => p.1 == x).map (·.2)

theorem ptsOf_nil (x : Elem) : ptsOf x [] = [] := rfl

theorem ptsOf_cons (x : Elem) (p : Elem × Nat) (pts : List (Elem × Nat)) :
    ptsOf x (p :: pts) = if p.1 = x then p.2 :: ptsOf x pts else ptsOf x pts := by
  unfold ptsOf
  by_cases h : p.1 = x
  · simp [h]
  · simp [h]

theorem ptsOf_append (x : Elem) (p q : List (Elem × Nat)) : ptsOf x (p ++ q) = ptsOf x p ++ ptsOf x q := by
  simp [ptsOf]

theorem ptsOf_not_mem (x : Elem) (pts : List (Elem × Nat)) (h : x ∉ pts.map (·.1)) : ptsOf x pts = [] := by
  induction pts with
  | nil => rfl
  | cons p pts ih =>
    simp only [List.map_cons, List.mem_cons, not_or] at h
    rw [ptsOf_cons]
    have : ¬ p.1 = x := fun e => h.1 e.symm
    simp only [this, if_false]
    exact ih h.2

theorem val_foldl (pts : List (Elem × Nat)) (tbl : Tbl) (x : Elem) :
    val (pts.foldl bordaAcc tbl) x =
      ((val tbl x).1 + (ptsOf x pts).sum, (val tbl x).2 + (ptsOf x pts).length) := by
  induction pts generalizing tbl with
  | nil => simp [ptsOf_nil]
  | cons p pts ih =>
    rw [List.foldl_cons, ih, val_bordaAcc, ptsOf_cons]
    by_cases h : x = p.1
    · have h' : p.1 = x := h.symm
      simp only [h', if_true, List.sum_cons, List.length_cons]
      ext <;> simp <;> omega
    · have h' : ¬ p.1 = x := fun e => h e.symm
      simp only [h, h', if_false]

/-! ### the points of one ranking -/

theorem bordaPoints_keys (useBid : Bool) (acc : Nat) (r : Ranking) :
    (bordaPoints useBid acc r).map (·.1) = r.flatten := by
  induction r generalizing acc with
  | nil => rfl
  | cons b bs ih => simp [bordaPoints, ih, List.map_map, Function.comp_def]

theorem ptsOf_bucket_mem (x : Elem) (acc : Nat) (b : Bucket) (hnd : b.Nodup) (hx : x ∈ b) :
    ptsOf x (b.map fun y => (y, acc)) = [acc] := by
  induction b with
  | nil => simp at hx
  | cons a b ih =>
    rw [List.nodup_cons] at hnd
    rw [List.map_cons, ptsOf_cons]
    by_cases e : a = x
    · subst e
      simp only [if_true]
      rw [ptsOf_not_mem]
      simpa [List.map_map, Function.comp_def] using hnd.1
    · simp only [e, if_false]
      apply ih hnd.2
      rcases List.mem_cons.mp hx with h | h
      · exact absurd h.symm e
      · exact h

theorem bordaScoreIn_cons_mem (useBid : Bool) (b : Bucket) (bs : Ranking) (x : Elem) (hx : x ∈ b) :
    Spec.bordaScoreIn useBid (b :: bs) x = some 0 := by
  simp [Spec.bordaScoreIn, bucketIdx, hx]

theorem bordaScoreIn_cons_not_mem (useBid : Bool) (b : Bucket) (bs : Ranking) (x : Elem) (hx : x ∉ b) :
    Spec.bordaScoreIn useBid (b :: bs) x =
      (Spec.bordaScoreIn useBid bs x).map fun s => (if useBid then 1 else b.length) + s := by
  unfold Spec.bordaScoreIn
  simp only [bucketIdx, hx, if_false]
  cases bucketIdx bs x with
  | none => rfl
  | some i =>
    cases useBid
    · simp [List.take_succ_cons]
    · simp; omega

theorem ptsOf_bordaPoints (useBid : Bool) (acc : Nat) (r : Ranking) (x : Elem) (hnd : r.flatten.Nodup) :
    ptsOf x (bordaPoints useBid acc r) =
      match Spec.bordaScoreIn useBid r x with
      | none => []
      | some s => [acc + s] := by
  induction r generalizing acc with
  | nil => rfl
  | cons b bs ih =>
    rw [List.flatten_cons, List.nodup_append] at hnd
    obtain ⟨hb, hbs, hdis⟩ := hnd
    simp only [bordaPoints, ptsOf_append]
    by_cases hx : x ∈ b
    · rw [bordaScoreIn_cons_mem useBid b bs x hx, ptsOf_bucket_mem x acc b hb hx, ptsOf_not_mem]
      · simp
      · rw [bordaPoints_keys]
        exact fun h => hdis x hx x h rfl
    · rw [bordaScoreIn_cons_not_mem useBid b bs x hx, ptsOf_not_mem x (b.map _), ih _ hbs]
      · cases Spec.bordaScoreIn useBid bs x with
        | none => rfl
        | some s =>
          cases useBid
          · simp; omega
          · simp; omega
      · simpa [List.map_map, Function.comp_def] using hx

/-! ### the whole table and `bordaSumCount` -/

def bordaTbl (useBid : Bool) (rs : Dataset) : Tbl := (rs.flatMap (bordaPoints useBid 0)).foldl bordaAcc []

def scStep (useBid : Bool) (x : Elem) (acc : Nat × Nat) (r : Ranking) : Nat × Nat :=
  match Spec.bordaScoreIn useBid r x with
  | none => acc
  | some s => (acc.1 + s, acc.2 + 1)

theorem bordaSumCount_eq (useBid : Bool) (rs : Dataset) (x : Elem) :
    Spec.bordaSumCount useBid rs x = rs.foldl (scStep useBid x) (0, 0) := rfl

theorem val_fold_rs (useBid : Bool) (rs : Dataset) (x : Elem) (tbl : Tbl) (hnd : ∀ r ∈ rs, r.flatten.Nodup) :
    val ((rs.flatMap (bordaPoints useBid 0)).foldl bordaAcc tbl) x = rs.foldl (scStep useBid x) (val tbl x) := by
  induction rs generalizing tbl with
  | nil => rfl
  | cons r rs ih =>
    rw [List.flatMap_cons, List.foldl_append, ih _ (fun r' h => hnd r' (by simp [h])), List.foldl_cons]
    congr 1
    rw [val_foldl, ptsOf_bordaPoints useBid 0 r x (hnd r (by simp))]
    unfold scStep
    cases Spec.bordaScoreIn useBid r x <;> simp

theorem val_bordaTbl (useBid : Bool) (rs : Dataset) (x : Elem) (hnd : ∀ r ∈ rs, r.flatten.Nodup) :
    val (bordaTbl useBid rs) x = Spec.bordaSumCount useBid rs x :=
  val_fold_rs useBid rs x [] hnd

theorem mem_keys_bordaTbl (useBid : Bool) (rs : Dataset) (x : Elem) :
    x ∈ (bordaTbl useBid rs).map (·.1) ↔ x ∈ rs.flatten.flatten := by
  unfold bordaTbl
  rw [mem_keys_foldl, List.map_flatMap]
  simp only [bordaPoints_keys, List.map_nil, List.not_mem_nil, false_or, List.mem_flatMap, List.mem_flatten]
  constructor
  · rintro ⟨r, hr, b, hb, hxb⟩
    exact ⟨b, ⟨r, hr, hb⟩, hxb⟩
  · rintro ⟨b, ⟨r, hr, hb⟩, hxb⟩
    exact ⟨r, hr, b, hb, hxb⟩

theorem nodup_keys_bordaTbl (useBid : Bool) (rs : Dataset) : ((bordaTbl useBid rs).map (·.1)).Nodup :=
  nodup_keys_foldl _ [] (by simp)

theorem count_pos_bordaTbl (useBid : Bool) (rs : Dataset) : ∀ e ∈ bordaTbl useBid rs, 0 < e.2.2 :=
  count_pos_foldl _ [] (by simp)

/-! ### comparison of means -/

theorem meanLe_trans (a b c : Elem × Nat × Nat) (hb : 0 < b.2.2)
    (h1 : meanLe a b = true) (h2 : meanLe b c = true) : meanLe a c = true := by
  unfold meanLe at *
  simp only [decide_eq_true_eq] at *
  apply Nat.le_of_mul_le_mul_right _ hb
  calc a.2.1 * c.2.2 * b.2.2 = a.2.1 * b.2.2 * c.2.2 := Nat.mul_right_comm _ _ _
    _ ≤ b.2.1 * a.2.2 * c.2.2 := Nat.mul_le_mul_right _ h1
    _ = b.2.1 * c.2.2 * a.2.2 := Nat.mul_right_comm _ _ _
    _ ≤ c.2.1 * b.2.2 * a.2.2 := Nat.mul_le_mul_right _ h2
    _ = c.2.1 * a.2.2 * b.2.2 := Nat.mul_right_comm _ _ _

/-- The Borda consensus built from rankings `rs` (each without repetition) whose elements are exactly `univ`
    orders `univ` by increasing mean score. -/
theorem borda_ordersBy (useBid : Bool) (rs : Dataset) (univ : List Elem)
    (hnd : ∀ r ∈ rs, r.flatten.Nodup) (hmem : ∀ x, x ∈ rs.flatten.flatten ↔ x ∈ univ)
    (m : Elem → Nat × Nat) (hm : ∀ x ∈ univ, m x = Spec.bordaSumCount useBid rs x) :
    Spec.ordersBy univ (fun x y => decide ((m x).1 * (m y).2 ≤ (m y).1 * (m x).2))
      ((groupAdj meanEq (sortBy meanLe (bordaTbl useBid rs))).map fun g => g.map (·.1)) = true := by
  apply SortGroup.ordersBy_sortGroup (fun a : Elem × Nat × Nat => 0 < a.2.2) meanLe meanEq (·.1) univ
  · intro a b _ _
    unfold meanLe
    simp only [decide_eq_true_eq]
    exact Nat.le_total _ _
  · intro a b c _ hb _
    exact meanLe_trans a b c hb
  · intro a b _ _
    unfold meanEq meanLe
    rw [Bool.eq_iff_iff]
    simp only [beq_iff_eq, Bool.and_eq_true, decide_eq_true_eq]
    generalize a.2.1 * b.2.2 = u
    generalize b.2.1 * a.2.2 = v
    omega
  · exact count_pos_bordaTbl useBid rs
  · intro a ha b hb
    have hak : a.1 ∈ univ := (hmem _).mp ((mem_keys_bordaTbl useBid rs _).mp (List.mem_map.mpr ⟨a, ha, rfl⟩))
    have hbk : b.1 ∈ univ := (hmem _).mp ((mem_keys_bordaTbl useBid rs _).mp (List.mem_map.mpr ⟨b, hb, rfl⟩))
    have ea : m a.1 = a.2 := by
      rw [hm _ hak, ← val_bordaTbl useBid rs _ hnd]
      exact val_of_mem _ (nodup_keys_bordaTbl useBid rs) a ha
    have eb : m b.1 = b.2 := by
      rw [hm _ hbk, ← val_bordaTbl useBid rs _ hnd]
      exact val_of_mem _ (nodup_keys_bordaTbl useBid rs) b hb
    simp only [ea, eb]
    rfl
  · exact nodup_keys_bordaTbl useBid rs
  · intro x
    rw [mem_keys_bordaTbl, hmem]

/-! ### unified rankings -/

theorem mem_ff (L : Dataset) (x : Elem) : x ∈ L.flatten.flatten ↔ ∃ r ∈ L, x ∈ r.flatten := by
  simp only [List.mem_flatten]
  constructor
  · rintro ⟨b, ⟨r, hr, hb⟩, hxb⟩
    exact ⟨r, hr, b, hb, hxb⟩
  · rintro ⟨r, hr, b, hb, hxb⟩
    exact ⟨b, ⟨r, hr, hb⟩, hxb⟩

theorem mem_univOf (D : Dataset) (x : Elem) : x ∈ univOf D ↔ ∃ r ∈ D, x ∈ r.flatten := by
  unfold univOf
  rw [mem_dedup, mem_ff]

theorem mem_unifyRanking (u : List Elem) (r : Ranking) (x : Elem) :
    x ∈ (unifyRanking u r).flatten ↔ x ∈ r.flatten ∨ (x ∈ u ∧ x ∉ r.flatten) := by
  unfold unifyRanking
  simp only
  split
  · rename_i h
    have he : u.filter (fun x => !(r.flatten.contains x)) = [] := List.isEmpty_iff.mp h
    constructor
    · exact Or.inl
    · rintro (h1 | ⟨h1, h2⟩)
      · exact h1
      · exfalso
        have : x ∈ u.filter (fun x => !(r.flatten.contains x)) := List.mem_filter.mpr ⟨h1, by simp [h2]⟩
        rw [he] at this
        simp at this
  · simp [List.mem_filter]

theorem nodup_unifyRanking (u : List Elem) (r : Ranking) (hu : u.Nodup) (hr : r.flatten.Nodup) :
    (unifyRanking u r).flatten.Nodup := by
  unfold unifyRanking
  simp only
  split
  · exact hr
  · rw [List.flatten_append, List.nodup_append]
    simp only [List.flatten_cons, List.flatten_nil, List.append_nil]
    refine ⟨hr, List.Nodup.sublist List.filter_sublist hu, ?_⟩
    intro a ha b hb
    rintro rfl
    have := (List.mem_filter.mp hb).2
    simp [ha] at this

theorem mem_unifiedRankings (D : Dataset) (x : Elem) :
    x ∈ (unifiedRankings D).flatten.flatten ↔ x ∈ univOf D := by
  rw [mem_ff]
  unfold unifiedRankings
  constructor
  · rintro ⟨r', hr', hx⟩
    obtain ⟨r, hr, rfl⟩ := List.mem_map.mp hr'
    rcases (mem_unifyRanking _ r x).mp hx with h | h
    · exact (mem_univOf D x).mpr ⟨r, hr, h⟩
    · exact h.1
  · intro hx
    obtain ⟨r, hr, hxr⟩ := (mem_univOf D x).mp hx
    exact ⟨_, List.mem_map.mpr ⟨r, hr, rfl⟩, (mem_unifyRanking _ r x).mpr (Or.inl hxr)⟩

theorem nodup_unifiedRankings (D : Dataset) (hD : ∀ r ∈ D, r.flatten.Nodup) :
    ∀ r ∈ unifiedRankings D, r.flatten.Nodup := by
  intro r' hr'
  obtain ⟨r, hr, rfl⟩ := List.mem_map.mp hr'
  exact nodup_unifyRanking _ r (univOf_nodup D) (hD r hr)

/-- the rankings Borda scores. -/
def bordaRs (S : Scheme) (D : Dataset) : Dataset := if Spec.isUnifyingFamily S then unifiedRankings D else D

theorem nodup_bordaRs (S : Scheme) (D : Dataset) (hD : ∀ r ∈ D, r.flatten.Nodup) :
    ∀ r ∈ bordaRs S D, r.flatten.Nodup := by
  unfold bordaRs
  split
  · exact nodup_unifiedRankings D hD
  · exact hD

theorem mem_bordaRs (S : Scheme) (D : Dataset) (x : Elem) :
    x ∈ (bordaRs S D).flatten.flatten ↔ x ∈ univOf D := by
  unfold bordaRs
  split
  · exact mem_unifiedRankings D x
  · exact (mem_dedup).symm

/-- the accepted branch of `borda`. -/
def bordaOut (useBid : Bool) (S : Scheme) (D : Dataset) : Ranking :=
  (groupAdj meanEq (sortBy meanLe (bordaTbl useBid (bordaRs S D)))).map fun g => g.map (·.1)

theorem borda_eq (useBid : Bool) (S : Scheme) (D : Dataset) :
    borda useBid S D =
      if (!isComplete D && !(Spec.isUnifyingFamily S || Spec.isInducedFamily S)) = true then .error .schemeNotHandled
      else .ok (bordaOut useBid S D) := by
  unfold borda bordaOut bordaRs bordaTbl
  simp only [unifying_eq, bordaRelevant_eq]

/-- mean scores of the specification -/
def specLe (useBid : Bool) (rs : Dataset) (x y : Elem) : Bool :=
  decide ((Spec.bordaSumCount useBid rs x).1 * (Spec.bordaSumCount useBid rs y).2 ≤
    (Spec.bordaSumCount useBid rs y).1 * (Spec.bordaSumCount useBid rs x).2)

theorem bordaOut_ordersBy (useBid : Bool) (S : Scheme) (D : Dataset) (hD : ∀ r ∈ D, r.flatten.Nodup)
    (m : Elem → Nat × Nat) (hm : ∀ x ∈ univOf D, m x = Spec.bordaSumCount useBid (bordaRs S D) x) :
    Spec.ordersBy (univOf D) (fun x y => decide ((m x).1 * (m y).2 ≤ (m y).1 * (m x).2))
      (bordaOut useBid S D) = true :=
  borda_ordersBy useBid (bordaRs S D) (univOf D) (nodup_bordaRs S D hD) (mem_bordaRs S D) m hm

/-! ### independence of the order of the rankings -/

theorem foldl_perm {α β : Type} (f : β → α → β) (hf : ∀ b x y, f (f b x) y = f (f b y) x)
    {l₁ l₂ : List α} (h : l₁.Perm l₂) (b : β) : l₁.foldl f b = l₂.foldl f b := by
  induction h generalizing b with
  | nil => rfl
  | cons x _ ih => simp only [List.foldl_cons]; exact ih _
  | swap x y l => simp only [List.foldl_cons]; rw [hf]
  | trans _ _ ih₁ ih₂ => exact (ih₁ b).trans (ih₂ b)

theorem scStep_comm (useBid : Bool) (x : Elem) (acc : Nat × Nat) (r₁ r₂ : Ranking) :
    scStep useBid x (scStep useBid x acc r₁) r₂ = scStep useBid x (scStep useBid x acc r₂) r₁ := by
  unfold scStep
  cases Spec.bordaScoreIn useBid r₁ x <;> cases Spec.bordaScoreIn useBid r₂ x <;> simp; omega

theorem bucketIdx_append_singleton (r : Ranking) (m : Bucket) (x : Elem) :
    bucketIdx (r ++ [m]) x =
      match bucketIdx r x with
      | some i => some i
      | none => if x ∈ m then some r.length else none := by
  induction r with
  | nil => by_cases hm : x ∈ m <;> simp [bucketIdx, hm]
  | cons b bs ih =>
    simp only [List.cons_append, bucketIdx]
    by_cases hx : x ∈ b
    · simp [hx]
    · simp only [hx, if_false, ih]
      cases bucketIdx bs x with
      | some i => rfl
      | none => by_cases hm : x ∈ m <;> simp [hm]

theorem bordaScoreIn_append_singleton (useBid : Bool) (r : Ranking) (m : Bucket) (x : Elem) :
    Spec.bordaScoreIn useBid (r ++ [m]) x =
      match Spec.bordaScoreIn useBid r x with
      | some s => some s
      | none => if x ∈ m then some (if useBid then r.length else (r.map List.length).sum) else none := by
  unfold Spec.bordaScoreIn
  rw [bucketIdx_append_singleton]
  cases h : bucketIdx r x with
  | none =>
    by_cases hm : x ∈ m
    · simp [hm]
    · simp [hm]
  | some i =>
    obtain ⟨hi, _⟩ := SortGroup.bucketIdx_some_mem h
    simp only
    rw [List.take_append_of_le_length (by omega)]

theorem bordaScoreIn_unify_congr (useBid : Bool) (u u' : List Elem) (r : Ranking) (x : Elem) (hp : u.Perm u') :
    Spec.bordaScoreIn useBid (unifyRanking u r) x = Spec.bordaScoreIn useBid (unifyRanking u' r) x := by
  have hm := hp.filter (fun x => !(r.flatten.contains x))
  unfold unifyRanking
  simp only
  by_cases he : u.filter (fun x => !(r.flatten.contains x)) = []
  · have he' : u'.filter (fun x => !(r.flatten.contains x)) = [] := by
      rw [he] at hm; exact hm.symm.eq_nil
    rw [he, he']
  · have he' : ¬ u'.filter (fun x => !(r.flatten.contains x)) = [] := by
      intro h; rw [h] at hm; exact he hm.eq_nil
    simp only [List.isEmpty_iff, he, he', if_false]
    rw [bordaScoreIn_append_singleton, bordaScoreIn_append_singleton]
    simp only [hm.mem_iff]

theorem univOf_perm (D D' : Dataset) (hp : D.Perm D') : (univOf D).Perm (univOf D') := by
  rw [List.perm_ext_iff_of_nodup (univOf_nodup D) (univOf_nodup D')]
  intro x
  rw [mem_univOf, mem_univOf]
  constructor
  · rintro ⟨r, hr, hx⟩; exact ⟨r, hp.mem_iff.mp hr, hx⟩
  · rintro ⟨r, hr, hx⟩; exact ⟨r, hp.mem_iff.mpr hr, hx⟩

theorem bordaSumCount_bordaRs_perm (useBid : Bool) (S : Scheme) (D D' : Dataset) (hp : D.Perm D') (x : Elem) :
    Spec.bordaSumCount useBid (bordaRs S D) x = Spec.bordaSumCount useBid (bordaRs S D') x := by
  unfold bordaRs
  simp only [bordaSumCount_eq]
  split
  · unfold unifiedRankings
    rw [List.foldl_map, List.foldl_map]
    have e : (fun (a : Nat × Nat) r => scStep useBid x a (unifyRanking (univOf D) r)) =
        (fun a r => scStep useBid x a (unifyRanking (univOf D') r)) := by
      funext a r
      unfold scStep
      rw [bordaScoreIn_unify_congr useBid _ _ r x (univOf_perm D D' hp)]
    rw [e]
    exact foldl_perm (fun a r => scStep useBid x a (unifyRanking (univOf D') r))
      (fun b r₁ r₂ => scStep_comm useBid x b _ _) hp _
  · exact foldl_perm _ (fun b r₁ r₂ => scStep_comm useBid x b _ _) hp _

theorem isComplete_perm (D D' : Dataset) (hp : D.Perm D') : isComplete D = isComplete D' := by
  rw [Bool.eq_iff_iff]
  unfold isComplete
  simp only [List.all_eq_true, List.contains_iff_mem]
  have hu : ∀ a, a ∈ univOf D ↔ a ∈ univOf D' := fun a => (univOf_perm D D' hp).mem_iff
  constructor
  · intro h x hx r hr; exact h x ((hu x).mpr hx) r (hp.mem_iff.mpr hr)
  · intro h x hx r hr; exact h x ((hu x).mp hx) r (hp.mem_iff.mp hr)

end C12
end Corankco
