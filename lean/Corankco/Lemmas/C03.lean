import Corankco.Lemmas.C10
import Corankco.Lemmas.C11
import Corankco.Lemmas.L4
/-
  Helper lemmas for C03 (composition): a single well-formed ranking satisfies `C03.holds`; `ordersBy` contains
  `wellFormedRanking`; a partition of the ids read through the id map is a well-formed ranking; the rankings
  PickAPerm scans are well-formed when the input buckets are non-empty and disjoint.
-/
namespace Corankco
namespace C03
open Model Spec

/-- one well-formed ranking is a correct answer whether or not at most one ranking was asked for -/
theorem holds_single (D : Dataset) (amo : Bool) (r : Ranking) (h : wellFormedRanking (univOf D) r = true) :
    C03.holds D amo [r] = true := by
  unfold C03.holds
  simp [h]

/-- a non-empty list of well-formed rankings, of length one on request -/
theorem holds_of (D : Dataset) (amo : Bool) (out : List Ranking) (hne : out ≠ [])
    (h1 : amo = true → out.length = 1) (hw : ∀ c ∈ out, wellFormedRanking (univOf D) c = true) :
    C03.holds D amo out = true := by
  unfold C03.holds
  simp only [Bool.and_eq_true, decide_eq_true_eq, Bool.or_eq_true, Bool.not_eq_true', beq_iff_eq,
    List.all_eq_true]
  refine ⟨⟨?_, ?_⟩, hw⟩
  · cases out with
    | nil => exact absurd rfl hne
    | cons _ _ => simp
  · cases amo with
    | true => exact .inr (h1 rfl)
    | false => exact .inl rfl

theorem wf_of_ordersBy {univ : List Elem} {le : Elem → Elem → Bool} {r : Ranking}
    (h : ordersBy univ le r = true) : wellFormedRanking univ r = true := by
  unfold ordersBy at h
  rw [Bool.and_eq_true] at h
  exact h.1

/-- membership form of `wellFormedRanking` -/
theorem wf_iff (univ : List Elem) (r : Ranking) :
    wellFormedRanking univ r = true ↔
      (∀ b ∈ r, b ≠ []) ∧ r.flatten.Nodup ∧ ∀ x, x ∈ r.flatten ↔ x ∈ univ := by
  unfold wellFormedRanking
  simp only [Bool.and_eq_true, List.all_eq_true, decide_eq_true_eq, List.contains_iff_mem,
    Bool.not_eq_true', List.isEmpty_eq_false_iff]
  constructor
  · rintro ⟨⟨⟨h1, h2⟩, h3⟩, h4⟩
    exact ⟨h1, h2, fun x => ⟨h3 x, h4 x⟩⟩
  · rintro ⟨h1, h2, h3⟩
    exact ⟨⟨⟨h1, h2⟩, fun x hx => (h3 x).mp hx⟩, fun x hx => (h3 x).mpr hx⟩

/-- ids → elements -/
theorem wf_of_partition (univ : List Elem) (hu : univ.Nodup) (c : List (List Nat))
    (hp : isPartitionOf univ.length c = true) :
    wellFormedRanking univ (c.map fun b => b.map fun i => univ.getD i 0) = true := by
  obtain ⟨hne, hnd, hmem⟩ := (L4.isPartitionOf_iff univ.length c).mp hp
  apply wellFormed_of_perm
  · rw [← List.map_flatten]
    have hperm : c.flatten.Perm (List.range univ.length) :=
      (List.perm_ext_iff_of_nodup hnd List.nodup_range).mpr (by intro i; rw [hmem i, List.mem_range])
    have := hperm.map fun i => univ.getD i 0
    rwa [map_getD_range] at this
  · exact hu
  · intro b hb
    obtain ⟨b0, hb0, rfl⟩ := List.mem_map.mp hb
    have := hne b0 hb0
    cases b0 with
    | nil => exact absurd rfl this
    | cons _ _ => simp

/-! ### the rankings PickAPerm scans -/

theorem mem_univOf_of_mem {D : Dataset} {r : Ranking} (hr : r ∈ D) {x : Elem} (hx : x ∈ r.flatten) :
    x ∈ univOf D := by
  obtain ⟨b, hb, hxb⟩ := List.mem_flatten.mp hx
  exact C10.mem_univOf.mpr (List.mem_flatten.mpr ⟨b, List.mem_flatten.mpr ⟨r, hr, hb⟩, hxb⟩)

theorem unify_buckets_ne {univ : List Elem} {r : Ranking} (hne : ∀ b ∈ r, b ≠ []) :
    ∀ b ∈ unifyRanking univ r, b ≠ [] := by
  unfold unifyRanking
  simp only
  split
  · exact hne
  · rename_i h
    intro b hb
    rcases List.mem_append.mp hb with hb | hb
    · exact hne b hb
    · simp only [List.mem_singleton] at hb
      subst hb
      intro e
      rw [e] at h
      exact h rfl

theorem unify_sub {univ : List Elem} {r : Ranking} (hsub : ∀ x ∈ r.flatten, x ∈ univ) :
    ∀ x ∈ (unifyRanking univ r).flatten, x ∈ univ := by
  intro x hx
  rw [C10.unify_flatten, List.mem_append, List.mem_filter] at hx
  rcases hx with hx | hx
  · exact hsub x hx
  · exact hx.1

/-- every ranking PickAPerm scans is well formed over the universe -/
theorem inputs_wf (D : Dataset) (hD : ∀ r ∈ D, r.flatten.Nodup) (hDne : ∀ r ∈ D, ∀ b ∈ r, b ≠ []) :
    ∀ c ∈ C10.inputs D, wellFormedRanking (univOf D) c = true := by
  intro c hc
  rw [wf_iff]
  unfold C10.inputs at hc
  split at hc
  · rename_i hcomp
    refine ⟨hDne c hc, hD c hc, fun x => ⟨fun hx => mem_univOf_of_mem hc hx, ?_⟩⟩
    exact C10.complete_mem hcomp c hc x
  · unfold unifiedRankings at hc
    obtain ⟨r, hr, rfl⟩ := List.mem_map.mp hc
    refine ⟨unify_buckets_ne (hDne r hr), C10.unify_nodup (univOf_nodup D) (hD r hr), fun x => ⟨?_, ?_⟩⟩
    · exact unify_sub (fun y hy => mem_univOf_of_mem hr hy) x
    · exact fun hx => C10.unify_mem hx

end C03
end Corankco
