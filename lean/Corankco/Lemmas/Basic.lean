import Corankco.Model.Basic
/-
  General list / sum lemmas about the basic model definitions
  (`isum`, `pairs`, `dedup`, `bucketIdx`, `univOf`).
-/
namespace Corankco

/-! ### `getD` on mapped lists -/

theorem getD_range_map {α : Type} (f : Nat → α) (n i : Nat) (d : α) (h : i < n) :
    ((List.range n).map f).getD i d = f i := by
  simp [List.getD, h]

theorem getD_map_of_lt {α β : Type} (f : α → β) (l : List α) (i : Nat) (d : β) (h : i < l.length) :
    (l.map f).getD i d = f l[i] := by
  simp [List.getD, h]

theorem getD_of_lt {α : Type} (l : List α) (i : Nat) (d : α) (h : i < l.length) :
    l.getD i d = l[i] := by
  simp [List.getD, h]

theorem map_getD_range {α : Type} (l : List α) (d : α) :
    (List.range l.length).map (fun i => l.getD i d) = l := by
  apply List.ext_getElem
  · simp
  · intro i h1 h2
    simp [List.getD, h2]

/-! ### `isum` -/

@[simp] theorem isum_nil : isum [] = 0 := rfl
@[simp] theorem isum_cons (x : Int) (xs : List Int) : isum (x :: xs) = x + isum xs := rfl

theorem isum_append (l₁ l₂ : List Int) : isum (l₁ ++ l₂) = isum l₁ + isum l₂ := by
  induction l₁ with
  | nil => simp
  | cons x xs ih => simp [ih]; omega

theorem isum_perm {l₁ l₂ : List Int} (h : l₁.Perm l₂) : isum l₁ = isum l₂ := by
  induction h with
  | nil => rfl
  | cons x _ ih => simp [ih]
  | swap x y l => simp; omega
  | trans _ _ ih₁ ih₂ => exact ih₁.trans ih₂

theorem isum_map_perm {α : Type} (f : α → Int) {l₁ l₂ : List α} (h : l₁.Perm l₂) :
    isum (l₁.map f) = isum (l₂.map f) :=
  isum_perm (h.map f)

theorem isum_map_congr {α : Type} {f g : α → Int} {l : List α} (h : ∀ a ∈ l, f a = g a) :
    isum (l.map f) = isum (l.map g) := by
  rw [List.map_congr_left h]

theorem isum_map_zero {α : Type} (l : List α) : isum (l.map fun _ => (0 : Int)) = 0 := by
  induction l with
  | nil => rfl
  | cons x xs ih => simp [ih]

theorem isum_map_add {α : Type} (f g : α → Int) (l : List α) :
    isum (l.map fun a => f a + g a) = isum (l.map f) + isum (l.map g) := by
  induction l with
  | nil => rfl
  | cons x xs ih => simp [ih]; omega

/-- Exchange of two finite sums. -/
theorem isum_map_isum_comm {α β : Type} (f : α → β → Int) (l₁ : List α) (l₂ : List β) :
    isum (l₁.map fun a => isum (l₂.map fun b => f a b)) =
      isum (l₂.map fun b => isum (l₁.map fun a => f a b)) := by
  induction l₁ with
  | nil => simp [isum_map_zero]
  | cons x xs ih => simp [ih, isum_map_add]

/-- A sum of a three-way choice whose conditions do not depend on the summation variable. -/
theorem isum_map_ite3 {α : Type} (p q : Prop) [Decidable p] [Decidable q] (f g h : α → Int) (l : List α) :
    isum (l.map fun a => if p then f a else if q then g a else h a) =
      if p then isum (l.map f) else if q then isum (l.map g) else isum (l.map h) := by
  by_cases hp : p <;> by_cases hq : q <;> simp [hp, hq]

/-! ### `pairs` -/

@[simp] theorem pairs_nil {α : Type} : pairs ([] : List α) = [] := rfl
@[simp] theorem pairs_cons {α : Type} (x : α) (xs : List α) :
    pairs (x :: xs) = xs.map (fun y => (x, y)) ++ pairs xs := rfl

theorem pairs_map {α β : Type} (f : α → β) (l : List α) :
    pairs (l.map f) = (pairs l).map (fun p => (f p.1, f p.2)) := by
  induction l with
  | nil => rfl
  | cons x xs ih => simp [ih]

/-- Every pair enumerated by `pairs` is related by `R` when the list is `Pairwise R`,
    and both components are members of the list. -/
theorem mem_pairs_of_pairwise {α : Type} {R : α → α → Prop} {l : List α} (h : l.Pairwise R) :
    ∀ p ∈ pairs l, p.1 ∈ l ∧ p.2 ∈ l ∧ R p.1 p.2 := by
  induction l with
  | nil => intro p hp; simp at hp
  | cons x xs ih =>
    rw [List.pairwise_cons] at h
    intro p hp
    simp only [pairs_cons, List.mem_append, List.mem_map] at hp
    rcases hp with ⟨y, hy, rfl⟩ | hp
    · exact ⟨by simp, by simp [hy], h.1 y hy⟩
    · obtain ⟨h1, h2, h3⟩ := ih h.2 p hp
      exact ⟨by simp [h1], by simp [h2], h3⟩

theorem mem_pairs {α : Type} {l : List α} : ∀ p ∈ pairs l, p.1 ∈ l ∧ p.2 ∈ l := by
  intro p hp
  have h : l.Pairwise (fun _ _ => True) := List.pairwise_iff_getElem.mpr (fun _ _ _ _ _ => trivial)
  obtain ⟨h1, h2, _⟩ := mem_pairs_of_pairwise h p hp
  exact ⟨h1, h2⟩

theorem mem_pairs_range {n : Nat} : ∀ p ∈ pairs (List.range n), p.1 < p.2 ∧ p.2 < n := by
  intro p hp
  obtain ⟨_, h2, h3⟩ := mem_pairs_of_pairwise (List.pairwise_lt_range (n := n)) p hp
  exact ⟨h3, by simpa using h2⟩

/-- A sum over the pairs of a list of a function symmetric in its two arguments
    does not depend on the order of the list. -/
theorem isum_pairs_perm {α : Type} (f : α → α → Int) (hf : ∀ x y, f x y = f y x)
    {l₁ l₂ : List α} (h : l₁.Perm l₂) :
    isum ((pairs l₁).map fun p => f p.1 p.2) = isum ((pairs l₂).map fun p => f p.1 p.2) := by
  induction h with
  | nil => rfl
  | cons x hp ih =>
    simp only [pairs_cons, List.map_append, List.map_map, isum_append, ih]
    have := isum_map_perm (fun y => f x y) hp
    simp only [Function.comp_def]
    omega
  | swap x y l =>
    simp only [pairs_cons, List.map_append, List.map_map, isum_append, List.map_cons, isum_cons,
      Function.comp_def]
    have := hf x y
    omega
  | trans _ _ ih₁ ih₂ => exact ih₁.trans ih₂

/-- Re-indexing: a sum over pairs of indices `i < j` into `l` is the sum over the pairs of `l`. -/
theorem isum_pairs_range {α : Type} (l : List α) (d : α) (F : Nat → Nat → Int) (G : α → α → Int)
    (h : ∀ i j (hi : i < l.length) (hj : j < l.length), i < j → F i j = G l[i] l[j]) :
    isum ((pairs (List.range l.length)).map fun p => F p.1 p.2) =
      isum ((pairs l).map fun p => G p.1 p.2) := by
  have e : pairs l = (pairs (List.range l.length)).map (fun p => (l.getD p.1 d, l.getD p.2 d)) := by
    have := pairs_map (fun i => l.getD i d) (List.range l.length)
    rw [map_getD_range] at this
    exact this
  rw [e, List.map_map]
  apply isum_map_congr
  intro p hp
  obtain ⟨h1, h2⟩ := mem_pairs_range p hp
  have hi : p.1 < l.length := by omega
  simp only [Function.comp_def, getD_of_lt l _ d hi, getD_of_lt l _ d h2]
  exact h p.1 p.2 hi h2 h1

/-! ### `dedup`, `univOf` -/

theorem mem_dedup {x : Nat} {l : List Nat} : x ∈ dedup l ↔ x ∈ l := by
  induction l with
  | nil => simp [dedup]
  | cons y ys ih =>
    simp only [dedup, List.mem_cons, List.mem_filter, ih]
    by_cases h : x = y <;> simp [h]

theorem dedup_nodup (l : List Nat) : (dedup l).Nodup := by
  induction l with
  | nil => simp [dedup]
  | cons y ys ih =>
    simp only [dedup, List.nodup_cons]
    refine ⟨?_, List.Nodup.sublist List.filter_sublist ih⟩
    simp

theorem univOf_nodup (D : Dataset) : (univOf D).Nodup := dedup_nodup _

theorem nodup_getElem_ne {α : Type} {l : List α} (h : l.Nodup) {i j : Nat}
    (hi : i < l.length) (hj : j < l.length) (hij : i ≠ j) : l[i] ≠ l[j] := by
  have h' := List.pairwise_iff_getElem.mp h
  rcases Nat.lt_or_gt_of_ne hij with hlt | hgt
  · exact h' i j hi hj hlt
  · exact fun e => h' j i hj hi hgt e.symm

/-! ### `bucketIdx` -/

theorem bucketIdx_eq_none {r : Ranking} {x : Elem} : bucketIdx r x = none ↔ x ∉ r.flatten := by
  induction r with
  | nil => simp [bucketIdx]
  | cons b bs ih =>
    simp only [bucketIdx, List.flatten_cons, List.mem_append]
    by_cases h : x ∈ b
    · simp [h]
    · simp [h, ih]

theorem bucketIdx_isSome {r : Ranking} {x : Elem} (h : x ∈ r.flatten) : ∃ i, bucketIdx r x = some i := by
  cases e : bucketIdx r x with
  | none => exact absurd h (bucketIdx_eq_none.mp e)
  | some i => exact ⟨i, rfl⟩

end Corankco
