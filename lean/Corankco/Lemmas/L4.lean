import Corankco.Lemmas.Basic
import Corankco.Lemmas.BioMove
import Corankco.Spec.Partition
import Corankco.Spec.Bio
/-
  L4 (restrict-and-concatenate): helpers for C06 / C07.

  * `isum` monotonicity and the "equal totals ⇒ equal terms" lemma,
  * `pairs` by indices, the group-index function `gidx` of a partition,
  * the lexicographic regrouping `regroup g v` (`v'[i] = g i · K + v[i]`, `K = 2·max|v| + 1`) and the term-by-term
    inequality `sel t (regroup g v) i j ≤ sel t v i j` when there is no back arc,
  * the lower bound used for the existence of an optimum.
-/
namespace Corankco
open Model Spec
namespace L4

/-! ### sums -/

theorem isum_map_le {α : Type} (l : List α) (f g : α → Int) (h : ∀ x ∈ l, f x ≤ g x) :
    isum (l.map f) ≤ isum (l.map g) := by
  induction l with
  | nil => simp
  | cons a l ih =>
    simp only [List.map_cons, isum_cons]
    have h1 := h a (by simp)
    have h2 := ih (fun x hx => h x (by simp [hx]))
    omega

/-- term-wise `≤` and totals in the reverse order: every term is equal. -/
theorem isum_map_eq_of_le {α : Type} (l : List α) (f g : α → Int) (h : ∀ x ∈ l, f x ≤ g x)
    (hs : isum (l.map g) ≤ isum (l.map f)) : ∀ x ∈ l, f x = g x := by
  induction l with
  | nil => intro x hx; simp at hx
  | cons a l ih =>
    simp only [List.map_cons, isum_cons] at hs
    have h1 := h a (by simp)
    have h2 := isum_map_le l f g (fun x hx => h x (by simp [hx]))
    have h3 := ih (fun x hx => h x (by simp [hx])) (by omega)
    intro x hx
    rcases List.mem_cons.mp hx with rfl | hx
    · omega
    · exact h3 x hx

/-! ### `pairs` by indices -/

theorem mem_pairs_iff {α : Type} (l : List α) (p : α × α) :
    p ∈ pairs l ↔ ∃ a b : Nat, a < b ∧ l[a]? = some p.1 ∧ l[b]? = some p.2 := by
  induction l with
  | nil => simp
  | cons x xs ih =>
    simp only [pairs_cons, List.mem_append, List.mem_map]
    constructor
    · rintro (⟨y, hy, rfl⟩ | hp)
      · obtain ⟨k, hk⟩ := List.mem_iff_getElem?.mp hy
        exact ⟨0, k + 1, by omega, by simp, by simpa using hk⟩
      · obtain ⟨a, b, hab, ha, hb⟩ := ih.mp hp
        exact ⟨a + 1, b + 1, by omega, by simpa using ha, by simpa using hb⟩
    · rintro ⟨a, b, hab, ha, hb⟩
      cases b with
      | zero => omega
      | succ b =>
        simp only [List.getElem?_cons_succ] at hb
        cases a with
        | zero =>
          simp only [List.getElem?_cons_zero, Option.some.injEq] at ha
          left
          exact ⟨p.2, List.mem_iff_getElem?.mpr ⟨b, hb⟩, by rw [ha]⟩
        | succ a =>
          simp only [List.getElem?_cons_succ] at ha
          right
          exact ih.mpr ⟨a, b, by omega, ha, hb⟩

/-! ### partitions and the group index -/

theorem sameSet_iff (a b : List Nat) : sameSet a b = true ↔ ∀ x, x ∈ a ↔ x ∈ b := by
  simp only [sameSet, Bool.and_eq_true, List.all_eq_true, List.contains_iff_mem]
  constructor
  · rintro ⟨h1, h2⟩ x; exact ⟨h1 x, h2 x⟩
  · intro h; exact ⟨fun x hx => (h x).mp hx, fun x hx => (h x).mpr hx⟩

theorem isPartitionOf_iff (n : Nat) (groups : List (List Nat)) :
    isPartitionOf n groups = true ↔
      (∀ g ∈ groups, g ≠ []) ∧ groups.flatten.Nodup ∧ ∀ i, i ∈ groups.flatten ↔ i < n := by
  simp only [isPartitionOf, Bool.and_eq_true, List.all_eq_true, decide_eq_true_eq, sameSet_iff,
    List.mem_range, Bool.not_eq_true', List.isEmpty_eq_false_iff, and_assoc]

/-- index of the (first) group containing `i`. -/
def gidx (groups : List (List Nat)) (i : Nat) : Nat := groups.findIdx (fun g => decide (i ∈ g))

theorem gidx_mem (groups : List (List Nat)) (i : Nat) (h : i ∈ groups.flatten) :
    ∃ g, groups[gidx groups i]? = some g ∧ i ∈ g := by
  unfold gidx
  obtain ⟨g, hg, hig⟩ := List.mem_flatten.mp h
  have hlt : groups.findIdx (fun g => decide (i ∈ g)) < groups.length :=
    List.findIdx_lt_length_of_exists ⟨g, hg, by simpa using hig⟩
  refine ⟨groups[groups.findIdx (fun g => decide (i ∈ g))], by simp [hlt], ?_⟩
  have := List.findIdx_getElem (w := hlt)
  simpa using this

theorem gidx_eq (groups : List (List Nat)) (hnd : groups.flatten.Nodup) (a : Nat) (g : List Nat)
    (hg : groups[a]? = some g) (i : Nat) (hi : i ∈ g) : gidx groups i = a := by
  obtain ⟨ha, rfl⟩ := List.getElem?_eq_some_iff.mp hg
  refine (List.findIdx_eq ha).mpr ⟨by simpa using hi, fun j hj => ?_⟩
  have hpw := (List.pairwise_flatten.mp hnd).2
  have := List.pairwise_iff_getElem.mp hpw j a (by omega) ha hj
  simp only [decide_eq_false_iff_not]
  intro hij
  exact this i hij i hi rfl

/-- `ConsecRobust` by indices. -/
theorem consecRobust_getElem (t : Table) (groups : List (List Nat)) (hr : ConsecRobust t groups)
    (a : Nat) (g1 g2 : List Nat) (h1 : groups[a]? = some g1) (h2 : groups[a + 1]? = some g2) :
    ∀ i ∈ g1, ∀ j ∈ g2, t.bef i j < t.aft i j ∧ t.bef i j < t.tie i j := by
  induction groups generalizing a with
  | nil => simp at h1
  | cons x xs ih =>
    cases xs with
    | nil => simp at h2
    | cons y ys =>
      simp only [ConsecRobust] at hr
      cases a with
      | zero =>
        simp only [List.getElem?_cons_zero, Option.some.injEq, Nat.zero_add, List.getElem?_cons_succ] at h1 h2
        subst h1; subst h2
        exact hr.1
      | succ a =>
        simp only [List.getElem?_cons_succ] at h1 h2
        exact ih hr.2 a h1 h2

/-! ### regrouping -/

theorem compare_congr_diff (a b c d : Int) (h : a - b = c - d) : compare a b = compare c d := by
  show compareOfLessAndEq a b = compareOfLessAndEq c d
  unfold compareOfLessAndEq
  have h1 : a < b ↔ c < d := by omega
  have h2 : a = b ↔ c = d := by omega
  simp only [h1, h2]

def bound (v : List Int) : Nat := (v.map Int.natAbs).foldl max 0

theorem natAbs_le_bound (v : List Int) (i : Nat) : (v.getD i 0).natAbs ≤ bound v := by
  by_cases h : i < v.length
  · rw [getD_of_lt v i 0 h]
    exact (BioSM.foldl_max_ge (v.map Int.natAbs) 0).2 _ (List.mem_map.mpr ⟨v[i], by simp, rfl⟩)
  · simp [List.getD, h]

/-- keys `(g i, v[i])` in lexicographic order, coded on one integer. -/
def regroup (g : Nat → Nat) (v : List Int) : List Int :=
  (List.range v.length).map fun i => (g i : Int) * (2 * (bound v : Int) + 1) + v.getD i 0

@[simp] theorem regroup_length (g : Nat → Nat) (v : List Int) : (regroup g v).length = v.length := by
  simp [regroup]

theorem regroup_getD (g : Nat → Nat) (v : List Int) (i : Nat) (h : i < v.length) :
    (regroup g v).getD i 0 = (g i : Int) * (2 * (bound v : Int) + 1) + v.getD i 0 :=
  getD_range_map _ _ _ _ h

theorem regroup_lt (g : Nat → Nat) (v : List Int) (i j : Nat) (hi : i < v.length) (hj : j < v.length)
    (h : g i < g j) : (regroup g v).getD i 0 < (regroup g v).getD j 0 := by
  rw [regroup_getD g v i hi, regroup_getD g v j hj]
  have h1 := natAbs_le_bound v i
  have h2 := natAbs_le_bound v j
  have h3 : ((g i : Int) + 1) * (2 * (bound v : Int) + 1) ≤ (g j : Int) * (2 * (bound v : Int) + 1) :=
    Int.mul_le_mul_of_nonneg_right (by omega) (by omega)
  rw [Int.add_mul] at h3
  generalize (g i : Int) * (2 * (bound v : Int) + 1) = A at *
  generalize (g j : Int) * (2 * (bound v : Int) + 1) = B at *
  omega

theorem regroup_diff (g : Nat → Nat) (v : List Int) (i j : Nat) (hi : i < v.length) (hj : j < v.length)
    (h : g i = g j) :
    (regroup g v).getD i 0 - (regroup g v).getD j 0 = v.getD i 0 - v.getD j 0 := by
  rw [regroup_getD g v i hi, regroup_getD g v j hj, h]
  omega

/-- the oriented no-back hypothesis on a group function. -/
def NoBackG (t : Table) (n : Nat) (g : Nat → Nat) : Prop :=
  ∀ i j, i < n → j < n → g i < g j → t.bef i j ≤ t.aft i j ∧ t.bef i j ≤ t.tie i j

theorem sel_regroup_of_lt (t : Table) (g : Nat → Nat) (v : List Int) (i j : Nat)
    (hi : i < v.length) (hj : j < v.length) (h : g i < g j) : sel t (regroup g v) i j = t.bef i j := by
  have := regroup_lt g v i j hi hj h
  simp only [sel]
  rw [if_pos this]

theorem sel_regroup_of_gt (t : Table) (g : Nat → Nat) (v : List Int) (i j : Nat)
    (hi : i < v.length) (hj : j < v.length) (h : g j < g i) : sel t (regroup g v) i j = t.aft i j := by
  have := regroup_lt g v j i hj hi h
  have h' : ¬ (regroup g v).getD i 0 < (regroup g v).getD j 0 := by omega
  simp only [sel]
  rw [if_neg h', if_pos this]

theorem sel_regroup_of_eq (t : Table) (g : Nat → Nat) (v : List Int) (i j : Nat)
    (hi : i < v.length) (hj : j < v.length) (h : g i = g j) : sel t (regroup g v) i j = sel t v i j :=
  BioSM.sel_congr_cmp t _ _ i j
    (compare_congr_diff _ _ _ _ (regroup_diff g v i j hi hj h))
    (compare_congr_diff _ _ _ _ (regroup_diff g v j i hj hi h.symm))

theorem bef_le_sel (t : Table) (v : List Int) (i j : Nat)
    (h : t.bef i j ≤ t.aft i j ∧ t.bef i j ≤ t.tie i j) : t.bef i j ≤ sel t v i j := by
  unfold sel
  simp only []
  split
  · omega
  · split <;> omega

theorem aft_le_sel (t : Table) (v : List Int) (i j : Nat)
    (h : t.aft i j ≤ t.bef i j ∧ t.aft i j ≤ t.tie i j) : t.aft i j ≤ sel t v i j := by
  unfold sel
  simp only []
  split
  · omega
  · split <;> omega

/-- the term-by-term inequality. -/
theorem sel_regroup_le (t : Table) (n : Nat) (hm : MirrorT t n) (g : Nat → Nat) (hnb : NoBackG t n g)
    (v : List Int) (hv : v.length = n) (i j : Nat) (hi : i < n) (hj : j < n) :
    sel t (regroup g v) i j ≤ sel t v i j := by
  rcases Nat.lt_trichotomy (g i) (g j) with h | h | h
  · rw [sel_regroup_of_lt t g v i j (by omega) (by omega) h]
    exact bef_le_sel t v i j (hnb i j hi hj h)
  · rw [sel_regroup_of_eq t g v i j (by omega) (by omega) h]
    exact Int.le_refl _
  · rw [sel_regroup_of_gt t g v i j (by omega) (by omega) h]
    apply aft_le_sel
    have h1 := hnb j i hj hi h
    have h2 := hm i j hi hj
    have h3 := hm j i hj hi
    omega

theorem scoreVec_regroup_le (t : Table) (n : Nat) (hm : MirrorT t n) (g : Nat → Nat) (hnb : NoBackG t n g)
    (v : List Int) (hv : v.length = n) : scoreVec t (regroup g v) ≤ scoreVec t v := by
  unfold scoreVec
  rw [regroup_length]
  apply isum_map_le
  intro p hp
  obtain ⟨h1, h2⟩ := mem_pairs_range p hp
  exact sel_regroup_le t n hm g hnb v hv p.1 p.2 (by omega) (by omega)

/-- with equal totals every term is equal. -/
theorem sel_regroup_eq_of_score (t : Table) (n : Nat) (hm : MirrorT t n) (g : Nat → Nat) (hnb : NoBackG t n g)
    (v : List Int) (hv : v.length = n) (hs : scoreVec t v ≤ scoreVec t (regroup g v))
    (i j : Nat) (hij : i < j) (hj : j < n) : sel t (regroup g v) i j = sel t v i j := by
  unfold scoreVec at hs
  rw [regroup_length] at hs
  have := isum_map_eq_of_le (pairs (List.range v.length)) (fun p => sel t (regroup g v) p.1 p.2)
    (fun p => sel t v p.1 p.2)
    (fun p hp => by
      obtain ⟨h1, h2⟩ := mem_pairs_range p hp
      exact sel_regroup_le t n hm g hnb v hv p.1 p.2 (by omega) (by omega)) hs (i, j)
    ((mem_pairs_iff _ _).mpr ⟨i, j, hij, by simp only [List.getElem?_range (show i < v.length by omega)], by simp only [List.getElem?_range (show j < v.length by omega)]⟩)
  exact this

/-- under the mirror law the selected cost does not depend on the orientation of the pair. -/
theorem sel_mirror (t : Table) (n : Nat) (hm : MirrorT t n) (v : List Int) (i j : Nat) (hi : i < n) (hj : j < n) :
    sel t v i j = sel t v j i := by
  have h2 := hm i j hi hj
  have h3 := hm j i hj hi
  unfold sel
  simp only []
  split <;> split <;> (try split) <;> (try split) <;> omega

/-! ### the partition instance -/

theorem noBackG_gidx (t : Table) (n : Nat) (groups : List (List Nat)) (hp : isPartitionOf n groups = true)
    (hnb : NoBack t groups) : NoBackG t n (gidx groups) := by
  obtain ⟨_, _, hmem⟩ := (isPartitionOf_iff n groups).mp hp
  intro i j hi hj h
  obtain ⟨gi, hgi, hi'⟩ := gidx_mem groups i ((hmem i).mpr hi)
  obtain ⟨gj, hgj, hj'⟩ := gidx_mem groups j ((hmem j).mpr hj)
  exact hnb (gi, gj) ((mem_pairs_iff _ _).mpr ⟨_, _, h, hgi, hgj⟩) i hi' j hj'

/-- members of a pair of groups: bounds and group indices. -/
theorem pair_facts (n : Nat) (groups : List (List Nat)) (hp : isPartitionOf n groups = true)
    (p : List Nat × List Nat) (hpp : p ∈ pairs groups) (i : Nat) (hi : i ∈ p.1) (j : Nat) (hj : j ∈ p.2) :
    i < n ∧ j < n ∧ gidx groups i < gidx groups j := by
  obtain ⟨_, hnd, hmem⟩ := (isPartitionOf_iff n groups).mp hp
  obtain ⟨a, b, hab, ha, hb⟩ := (mem_pairs_iff _ _).mp hpp
  have h1 := gidx_eq groups hnd a p.1 ha i hi
  have h2 := gidx_eq groups hnd b p.2 hb j hj
  refine ⟨(hmem i).mp ?_, (hmem j).mp ?_, by omega⟩
  · exact List.mem_flatten.mpr ⟨p.1, List.mem_of_getElem? ha, hi⟩
  · exact List.mem_flatten.mpr ⟨p.2, List.mem_of_getElem? hb, hj⟩

theorem respectsI_regroup (n : Nat) (groups : List (List Nat)) (hp : isPartitionOf n groups = true)
    (v : List Int) (hv : v.length = n) : RespectsI groups (regroup (gidx groups) v) := by
  intro p hpp i hi j hj
  obtain ⟨h1, h2, h3⟩ := pair_facts n groups hp p hpp i hi j hj
  exact regroup_lt _ v i j (by omega) (by omega) h3

/-! ### lower bound (existence of an optimum) -/

def min3 (t : Table) (i j : Nat) : Int := min (t.bef i j) (min (t.aft i j) (t.tie i j))

theorem min3_le_sel (t : Table) (v : List Int) (i j : Nat) : min3 t i j ≤ sel t v i j := by
  unfold sel min3
  simp only []
  split
  · omega
  · split <;> omega

def lower (t : Table) (n : Nat) : Int := isum ((pairs (List.range n)).map fun p => min3 t p.1 p.2)

theorem lower_le (t : Table) (v : List Int) : lower t v.length ≤ scoreVec t v := by
  unfold lower scoreVec
  apply isum_map_le
  intro p _
  exact min3_le_sel t v p.1 p.2

end L4
end Corankco
