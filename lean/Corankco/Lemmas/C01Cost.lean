import Corankco.Lemmas.C01Counts
/-
  C01 helper lemmas, part 6: each entry of the two vectors returned by `costByRanking` is the matching pair
  counter.
-/
namespace Corankco
namespace C01
open Model Spec

/-- the sorted mapped buckets of `r` -/
def rPrime (c r : Ranking) : List (List Nat) := r.map fun b => sortNat (b.map (cid c))
/-- the candidate elements that `r` does not rank -/
def missing (c r : Ranking) : List Elem := c.flatten.filter fun x => !(r.flatten.contains x)
/-- number of unranked elements in the `i`-th bucket of `c` -/
def tf (c r : Ranking) (i : Nat) : Nat := (missing c r).countP (fun x => cid c x == i)
def t3 (c r : Ranking) : List Nat :=
  (List.range c.length).map fun i => ((missing c r).filter fun x => cid c x == i).length

theorem costByRanking_unfold (c r : Ranking) :
    costByRanking c r =
      ([0, (mergeSortLike (rPrime c r)).2.1, ((rPrime c r).map tieRun).sum,
        ((rPrime c r).flatten.map fun k => (suffixAfter (missing c r).length (t3 c r)).getD k 0).sum,
        ((rPrime c r).flatten.map fun k => (prefixExcl 0 (t3 c r)).getD k 0).sum,
        (missingLoop (missing c r).length ((c.map List.length).zip (t3 c r))).1],
       [(mergeSortLike (rPrime c r)).2.2, 0, 0,
        (missingLoop (missing c r).length ((c.map List.length).zip (t3 c r))).2.1, 0,
        (missingLoop (missing c r).length ((c.map List.length).zip (t3 c r))).2.2]) := rfl

theorem t3_eq (c r : Ranking) : t3 c r = (List.range c.length).map (tf c r) := by
  unfold t3 tf
  simp only [List.countP_eq_length_filter]

theorem t3_length (c r : Ranking) : (t3 c r).length = c.length := by simp [t3]

theorem t3_take_sum (c r : Ranking) (j : Nat) (hj : j ≤ c.length) :
    ((t3 c r).take j).sum = (missing c r).countP (fun x => decide (cid c x < j)) := by
  rw [t3_eq, ← List.map_take, List.take_range, Nat.min_eq_left hj]
  exact sum_range_countP _ _ _

theorem missing_cid_lt (c r : Ranking) : ∀ x ∈ missing c r, cid c x < c.length := by
  intro x hx
  exact cid_lt (List.mem_filter.mp hx).1

theorem rPrime_flatten_perm (c r : Ranking) : (rPrime c r).flatten.Perm (r.flatten.map (cid c)) := by
  induction r with
  | nil => simp [rPrime]
  | cons b bs ih =>
    simp only [rPrime, List.map_cons, List.flatten_cons, List.map_append] at ih ⊢
    exact (sortNat_perm _).append ih

theorem rPrime_sorted (c r : Ranking) : ∀ s ∈ rPrime c r, Sorted s := by
  intro s hs
  simp only [rPrime, List.mem_map] at hs
  obtain ⟨b, _, rfl⟩ := hs
  exact sortNat_sorted _

section
variable (c r : Ranking) (hc : c.flatten.Nodup) (hr : r.flatten.Nodup) (hsub : ∀ x ∈ r.flatten, x ∈ c.flatten)
include hc hr hsub

/-- `s_1[1]`: pairs ordered in `c`, reversed in `r` -/
theorem ms_gt_eq : (mergeSortLike (rPrime c r)).2.1 = nOrd c r 1 := by
  have hp := filter_ranked_perm c r hc hr hsub
  rw [(mergeSortLike_spec (rPrime c r) (rPrime_sorted c r)).2.2.1, nOrd_eq_cross,
    cross_status_lt3 r _ _ 1 (by omega), cross_perm _ hp hp, cross_status1 _ r hr]
  unfold rPrime
  rw [pairSum_map]
  apply pairSum_congr
  intro a _ b _
  rw [crossGt_perm (sortNat_perm _) (sortNat_perm _), crossGt_eq_cross, cross_map, cross_swap]
  rfl

/-- `s_2[0]`: pairs tied in `c`, strictly ordered in `r` -/
theorem ms_eq_eq : (mergeSortLike (rPrime c r)).2.2 = nTie c r 0 + nTie c r 1 := by
  have hp := filter_ranked_perm c r hc hr hsub
  rw [(mergeSortLike_spec (rPrime c r) (rPrime_sorted c r)).2.2.2, nTie01_eq_cross,
    cross_status_lt3 r _ _ 0 (by omega), cross_perm _ hp hp, cross_status0 _ r hr]
  unfold rPrime
  rw [pairSum_map]
  apply pairSum_congr
  intro a _ b _
  rw [crossEq_perm (sortNat_perm _) (sortNat_perm _), crossEq_eq_cross, cross_map]
  apply cross_congr
  intro x _ y _
  exact eqc_comm c y x

/-- `s_1[2]`: pairs ordered in `c`, tied in `r` -/
theorem s12_eq : ((rPrime c r).map tieRun).sum = nOrd c r 2 := by
  have hp := filter_ranked_perm c r hc hr hsub
  rw [nOrd_eq_cross, cross_status_lt3 r _ _ 2 (by omega), cross_perm _ hp hp, cross_status2 _ r hr]
  unfold rPrime
  rw [List.map_map]
  apply sum_map_congr
  intro b _
  simp only [Function.comp]
  rw [tieRun_sorted _ (sortNat_sorted _), crossGt_perm (sortNat_perm _) (sortNat_perm _), crossGt_eq_cross,
    cross_map, cross_swap]
  rfl

/-- `s_1[3]`: pairs ordered in `c`, only the first one ranked -/
theorem s13_eq :
    ((rPrime c r).flatten.map fun k => (suffixAfter (missing c r).length (t3 c r)).getD k 0).sum = nOrd c r 3 := by
  have hp := filter_ranked_perm c r hc hr hsub
  rw [((rPrime_flatten_perm c r).map _).sum_nat, List.map_map, nOrd_eq_cross, cross_status3,
    cross_perm_left _ hp]
  show _ = cross (ltc c) r.flatten (missing c r)
  unfold cross
  apply sum_map_congr
  intro x hx
  have hlt := cid_lt (hsub x hx)
  simp only [Function.comp]
  rw [suffixAfter_getD _ _ _ (by rw [t3_length]; exact hlt), t3_take_sum _ _ _ (by omega), length_sub_countP_lt]
  rfl

/-- `s_1[4]`: pairs ordered in `c`, only the second one ranked -/
theorem s14_eq :
    ((rPrime c r).flatten.map fun k => (prefixExcl 0 (t3 c r)).getD k 0).sum = nOrd c r 4 := by
  have hp := filter_ranked_perm c r hc hr hsub
  rw [((rPrime_flatten_perm c r).map _).sum_nat, List.map_map, nOrd_eq_cross, cross_status4,
    cross_perm_right _ _ hp, cross_swap]
  show _ = cross (fun y x => ltc c x y) r.flatten (missing c r)
  unfold cross
  apply sum_map_congr
  intro x hx
  have hlt := cid_lt (hsub x hx)
  simp only [Function.comp]
  rw [prefixExcl_getD _ _ _ (by rw [t3_length]; exact hlt), t3_take_sum _ _ _ (by omega)]
  simp only [Nat.zero_add]
  rfl

end

/-! ### the loop over the consensus buckets -/

theorem c_lengths (c : Ranking) : c.map List.length = (List.range c.length).map (fun i => (c.getD i []).length) := by
  apply List.ext_getElem
  · simp
  · intro i h1 h2
    simp only [List.length_map] at h1
    simp [List.getD_eq_getElem?_getD, h1]

theorem zip_eq (c r : Ranking) :
    (c.map List.length).zip (t3 c r) =
      (List.range c.length).map (fun i => ((c.getD i []).length, tf c r i)) := by
  rw [c_lengths, t3_eq, List.zip_map']

/-- `s_1[5]`: pairs ordered in `c`, none ranked -/
theorem ml1_eq (c r : Ranking) :
    (missingLoop (missing c r).length ((c.map List.length).zip (t3 c r))).1 = nOrd c r 5 := by
  rw [missingLoop_eq, zip_eq]
  simp only []
  unfold tf
  rw [ml1_range, nOrd_eq_cross, cross_status5]
  show _ = cross (ltc c) (missing c r) (missing c r)
  have := sum_fibres (missing c r) (cid c) (fun i => (missing c r).countP (fun y => decide (i < cid c y))) c.length
    (missing_cid_lt c r)
  show _ = ((missing c r).map (fun x => (fun i => (missing c r).countP (fun y => decide (i < cid c y))) (cid c x))).sum
  rw [this]
  apply sum_map_congr
  intro i _
  exact Nat.mul_comm _ _

/-- the buckets of `c` are the fibres of the bucket index -/
theorem fibre_length (c : Ranking) (hc : c.flatten.Nodup) (i : Nat) :
    c.flatten.countP (fun x => bucketIdx c x == some i) = (c.getD i []).length := by
  induction c generalizing i with
  | nil => simp
  | cons b bs ih =>
    rw [List.flatten_cons] at hc ⊢
    have hdisj : ∀ x ∈ bs.flatten, x ∉ b := by
      intro x hx hxb
      exact (List.nodup_append.mp hc).2.2 x hxb x hx rfl
    have hbs := (List.nodup_append.mp hc).2.1
    rw [List.countP_append]
    cases i with
    | zero =>
      have h1 : b.countP (fun x => bucketIdx (b :: bs) x == some 0) = b.length := by
        rw [List.countP_eq_length]; intro x hx; simp [bucketIdx_cons_of_mem bs hx]
      have h2 : bs.flatten.countP (fun x => bucketIdx (b :: bs) x == some 0) = 0 := by
        rw [List.countP_eq_zero]; intro x hx
        rw [bucketIdx_cons_of_not_mem bs (hdisj x hx)]
        cases bucketIdx bs x <;> simp
      rw [h1, h2]; simp
    | succ j =>
      have h1 : b.countP (fun x => bucketIdx (b :: bs) x == some (j + 1)) = 0 := by
        rw [List.countP_eq_zero]; intro x hx; simp [bucketIdx_cons_of_mem bs hx]
      have h2 : bs.flatten.countP (fun x => bucketIdx (b :: bs) x == some (j + 1)) =
          bs.flatten.countP (fun x => bucketIdx bs x == some j) := by
        apply List.countP_congr; intro x hx
        rw [bucketIdx_cons_of_not_mem bs (hdisj x hx)]
        cases bucketIdx bs x <;> simp
      rw [h1, h2, ih hbs j]; simp

theorem fibre_length_cid (c : Ranking) (hc : c.flatten.Nodup) (i : Nat) :
    c.flatten.countP (fun x => cid c x == i) = (c.getD i []).length := by
  rw [← fibre_length c hc i]
  apply List.countP_congr
  intro x hx
  rw [bucketIdx_eq_cid hx]
  simp

theorem countP_filter_split {α : Type} (p q : α → Bool) (l : List α) :
    l.countP p = (l.filter q).countP p + (l.filter (fun x => !q x)).countP p := by
  induction l with
  | nil => rfl
  | cons a l ih =>
    simp only [List.filter_cons, List.countP_cons, ih]
    cases q a <;> simp [List.countP_cons] <;> omega

/-- `s_2[3]`: pairs tied in `c`, exactly one ranked -/
theorem ml2_eq (c r : Ranking) (hc : c.flatten.Nodup) :
    (missingLoop (missing c r).length ((c.map List.length).zip (t3 c r))).2.1 = nTie c r 3 + nTie c r 4 := by
  rw [missingLoop_eq, zip_eq]
  simp only [List.map_map]
  rw [nTie34_eq_cross, cross_status3]
  show _ = ((c.flatten.filter fun x => r.flatten.contains x).map
    (fun x => (fun i => (missing c r).countP (fun y => i == cid c y)) (cid c x))).sum
  have hsf := sum_fibres (c.flatten.filter fun x => r.flatten.contains x) (cid c)
    (fun i => (missing c r).countP (fun y => i == cid c y)) c.length (fun x hx => cid_lt (List.mem_filter.mp hx).1)
  rw [hsf]
  apply sum_map_congr
  intro i _
  simp only [Function.comp]
  have h1 := fibre_length_cid c hc i
  have h2 := countP_filter_split (fun x => cid c x == i) (fun x => r.flatten.contains x) c.flatten
  have h3 : (missing c r).countP (fun y => i == cid c y) = tf c r i := by
    unfold tf
    apply List.countP_congr; intro y _
    simp only [beq_iff_eq]; exact eq_comm
  have h4 : (c.flatten.filter fun x => !(r.flatten.contains x)).countP (fun x => cid c x == i) = tf c r i := rfl
  rw [h3]
  congr 1
  omega

/-- `s_2[5]`: pairs tied in `c`, none ranked -/
theorem ml3_eq (c r : Ranking) :
    (missingLoop (missing c r).length ((c.map List.length).zip (t3 c r))).2.2 = nTie c r 5 := by
  rw [missingLoop_eq, zip_eq]
  simp only [List.map_map]
  have h := countP_pairs_fibre (missing c r) (cid c) c.length (missing_cid_lt c r)
  rw [nTie_eq]
  have e : (pairs c.flatten).countP (fun p => eqc c p.1 p.2 && (status r p.1 p.2 == 5)) =
      (pairs (missing c r)).countP (fun p => cid c p.1 == cid c p.2) := by
    unfold missing
    rw [pairs_filter, List.countP_filter]
    apply List.countP_congr
    intro p _
    have : (status r p.1 p.2 == 5) = (!(r.flatten.contains p.1) && !(r.flatten.contains p.2)) := by
      rw [Bool.eq_iff_iff]; simp [status_eq_5_iff]
    rw [this]
    rfl
  rw [e, h]
  rfl

/-- the two vectors of `costByRanking`, entry by entry -/
theorem costByRanking_counts (c r : Ranking) (hc : c.flatten.Nodup) (hr : r.flatten.Nodup)
    (hsub : ∀ x ∈ r.flatten, x ∈ c.flatten) :
    costByRanking c r =
      ([0, nOrd c r 1, nOrd c r 2, nOrd c r 3, nOrd c r 4, nOrd c r 5],
       [nTie c r 0 + nTie c r 1, 0, 0, nTie c r 3 + nTie c r 4, 0, nTie c r 5]) := by
  rw [costByRanking_unfold, ms_gt_eq c r hc hr hsub, ms_eq_eq c r hc hr hsub, s12_eq c r hc hr hsub,
    s13_eq c r hc hr hsub, s14_eq c r hc hr hsub, ml1_eq, ml2_eq c r hc, ml3_eq]

end C01
end Corankco
