import Corankco.Lemmas.Basic
import Corankco.Lemmas.C11
import Corankco.Spec.Partition
/-
  Helper lemmas for C06 (ParCons bookkeeping) and C07 (ParFront fusion loop, consistency walk).
-/
namespace Corankco
open Model Spec
namespace PartLoop

/-! ### ParCons fold -/

/-- one step of the ParCons fold. -/
def parConsStep (t : Table) (bound : Nat) (exact aux : List Nat → List (List Nat))
    (acc : ParConsOut) (scc : List Nat) : ParConsOut :=
  if canBeAllTied scc t then
    { acc with consensus := acc.consensus ++ [scc], partition := acc.partition ++ [scc] }
  else if scc.length > bound then
    { consensus := acc.consensus ++ aux scc, optimal := false, partition := acc.partition ++ [scc] }
  else
    { acc with consensus := acc.consensus ++ exact scc, partition := acc.partition ++ [scc] }

theorem parCons_eq_foldl (t : Table) (comps : List (List Nat)) (bound : Nat)
    (exact aux : List Nat → List (List Nat)) :
    parCons t comps bound exact aux =
      comps.foldl (parConsStep t bound exact aux) { consensus := [], optimal := true, partition := [] } := rfl

theorem parCons_foldl (t : Table) (bound : Nat) (exact aux : List Nat → List (List Nat))
    (comps : List (List Nat)) (acc : ParConsOut) :
    let r := comps.foldl (parConsStep t bound exact aux) acc
    r.partition = acc.partition ++ comps ∧
    r.optimal = (acc.optimal && !(comps.any fun c => !canBeAllTied c t && decide (c.length > bound))) ∧
    r.consensus = acc.consensus ++
      comps.flatMap fun c => if canBeAllTied c t then [c] else if c.length > bound then aux c else exact c := by
  induction comps generalizing acc with
  | nil => simp
  | cons c cs ih =>
    simp only [List.foldl_cons]
    obtain ⟨h1, h2, h3⟩ := ih (parConsStep t bound exact aux acc c)
    refine ⟨?_, ?_, ?_⟩
    · rw [h1]; unfold parConsStep
      by_cases hc : canBeAllTied c t = true
      · simp [hc]
      · by_cases hb : c.length > bound
        · simp [hc, hb]
        · simp [hc, hb]
    · rw [h2]; unfold parConsStep
      by_cases hc : canBeAllTied c t = true
      · simp [hc]
      · by_cases hb : c.length > bound
        · simp [hc, hb]
        · simp [hc, hb]
    · rw [h3]; unfold parConsStep
      by_cases hc : canBeAllTied c t = true
      · simp [hc]
      · by_cases hb : c.length > bound
        · simp [hc, hb]
        · simp [hc, hb]

/-! ### the fusion loop -/

/-- one fusion step: groups `idx` and `idx + 1` are replaced by their concatenation. -/
def fuseAt {α : Type} (idx : Nat) (p : List (List α)) : List (List α) :=
  (p.set idx (p.getD idx [] ++ p.getD (idx + 1) [])).eraseIdx (idx + 1)

theorem split_at_pair {α : Type} {idx : Nat} {p : List α} (h : idx + 1 < p.length) :
    ∃ pre s1 s2 post, p = pre ++ s1 :: s2 :: post ∧ pre.length = idx := by
  induction p generalizing idx with
  | nil => simp at h
  | cons a q ih =>
    cases idx with
    | zero =>
      cases q with
      | nil => simp at h
      | cons b post => exact ⟨[], a, b, post, rfl, rfl⟩
    | succ k =>
      obtain ⟨pre, s1, s2, post, e, hl⟩ := ih (idx := k) (by simpa using h)
      exact ⟨a :: pre, s1, s2, post, by simp [e], by simp [hl]⟩

theorem fuseAt_append {α : Type} (pre : List (List α)) (s1 s2 : List α) (post : List (List α)) :
    fuseAt pre.length (pre ++ s1 :: s2 :: post) = pre ++ (s1 ++ s2) :: post := by
  induction pre with
  | nil => simp [fuseAt]
  | cons a pre ih =>
    unfold fuseAt at ih ⊢
    simpa using ih

theorem mergeLoop_step (t : Table) (fuel idx : Nat) (p : List (List Nat)) :
    mergeLoop t (fuel + 1) idx p =
      if idx + 1 < p.length then
        if fullyRobust t (p.getD idx []) (p.getD (idx + 1) []) then mergeLoop t fuel (idx + 1) p
        else mergeLoop t fuel (idx - 1) (fuseAt idx p)
      else p := by
  rw [mergeLoop]
  by_cases h : idx + 1 < p.length
  · rw [if_pos h, if_pos h]
    simp only [fuseAt]
    cases fullyRobust t (p.getD idx []) (p.getD (idx + 1) []) <;> simp
  · rw [if_neg h, if_neg h]

/-- any property preserved by a fusion step is preserved by the loop. -/
theorem mergeLoop_inv (t : Table) (Inv : List (List Nat) → Prop)
    (hstep : ∀ idx p, idx + 1 < p.length → Inv p → Inv (fuseAt idx p)) :
    ∀ fuel idx p, Inv p → Inv (mergeLoop t fuel idx p) := by
  intro fuel
  induction fuel with
  | zero => intro idx p h; simpa [mergeLoop] using h
  | succ fuel ih =>
    intro idx p h
    rw [mergeLoop_step]
    split
    · split
      · exact ih _ _ h
      · exact ih _ _ (hstep _ _ ‹_› h)
    · exact h

theorem fullyRobust_iff (t : Table) (a b : List Nat) :
    fullyRobust t a b = true ↔ ∀ i ∈ a, ∀ j ∈ b, isRobust t i j = true := by
  simp [fullyRobust]

theorem isRobust_iff (t : Table) (i j : Nat) :
    isRobust t i j = true ↔ t.bef i j < t.aft i j ∧ t.bef i j < t.tie i j := by
  simp [isRobust]

/-- with enough fuel the loop stops only when the index has reached the end, and all consecutive pairs left of the
    index are fully robust. -/
theorem mergeLoop_robust (t : Table) :
    ∀ fuel idx p, 2 * p.length + 1 ≤ fuel + idx →
      (∀ k, k + 1 ≤ idx → k + 1 < p.length → fullyRobust t (p.getD k []) (p.getD (k + 1) []) = true) →
      ∀ k, k + 1 < (mergeLoop t fuel idx p).length →
        fullyRobust t ((mergeLoop t fuel idx p).getD k []) ((mergeLoop t fuel idx p).getD (k + 1) []) = true := by
  intro fuel
  induction fuel with
  | zero =>
    intro idx p hf hinv k hk
    simp only [mergeLoop] at hk ⊢
    exact hinv k (by omega) hk
  | succ fuel ih =>
    intro idx p hf hinv
    rw [mergeLoop_step]
    by_cases h : idx + 1 < p.length
    · rw [if_pos h]
      by_cases hr : fullyRobust t (p.getD idx []) (p.getD (idx + 1) []) = true
      · rw [if_pos hr]
        apply ih
        · omega
        · intro k hk1 hk2
          by_cases hk : k = idx
          · subst hk; exact hr
          · exact hinv k (by omega) hk2
      · rw [if_neg hr]
        obtain ⟨pre, s1, s2, post, e, hl⟩ := split_at_pair h
        subst hl
        rw [e, fuseAt_append]
        apply ih
        · rw [e] at hf; simp at hf ⊢; omega
        · intro k hk1 hk2
          have h1 : k < pre.length := by omega
          have h2 : k + 1 < pre.length := by omega
          have := hinv k (by omega) (by rw [e]; simp; omega)
          rw [e] at this
          simpa [List.getD_eq_getElem?_getD, List.getElem?_append_left, h1, h2] using this
    · rw [if_neg h]
      intro k hk
      exact hinv k (by omega) hk

theorem flatten_map_singleton {α : Type} (l : List α) : (l.map fun c => [c]).flatten = l := by
  induction l with
  | nil => rfl
  | cons a l ih => simp [ih]

/-- the loop only merges blocks of consecutive input groups. -/
theorem mergeLoop_blocks (t : Table) (comps : List (List Nat)) (fuel idx : Nat) :
    ∃ blocks : List (List (List Nat)), blocks.flatten = comps ∧ (∀ b ∈ blocks, b ≠ []) ∧
      mergeLoop t fuel idx comps = blocks.map List.flatten := by
  refine mergeLoop_inv t
    (fun p => ∃ blocks : List (List (List Nat)), blocks.flatten = comps ∧ (∀ b ∈ blocks, b ≠ []) ∧
      p = blocks.map List.flatten) ?_ fuel idx comps ?_
  · rintro idx p h ⟨blocks, h1, h2, rfl⟩
    obtain ⟨pre, b1, b2, post, e, hl⟩ := split_at_pair (p := blocks) (by simpa using h)
    subst e
    refine ⟨pre ++ (b1 ++ b2) :: post, by simpa using h1, ?_, ?_⟩
    · intro b hb
      simp only [List.mem_append, List.mem_cons] at hb
      rcases hb with hb | rfl | hb
      · exact h2 b (by simp [hb])
      · have := h2 b1 (by simp)
        simp [this]
      · exact h2 b (by simp [hb])
    · have := fuseAt_append (pre.map List.flatten) b1.flatten b2.flatten (post.map List.flatten)
      rw [List.length_map, hl] at this
      simpa using this
  · exact ⟨comps.map fun c => [c], flatten_map_singleton comps, by simp, by simp [Function.comp_def]⟩

/-- merging blocks of consecutive groups keeps a pairwise relation between groups that is defined memberwise. -/
theorem pairwise_map_flatten {r : Nat → Nat → Prop} (blocks : List (List (List Nat)))
    (h : blocks.flatten.Pairwise fun g1 g2 => ∀ i ∈ g1, ∀ j ∈ g2, r i j) :
    (blocks.map List.flatten).Pairwise fun g1 g2 => ∀ i ∈ g1, ∀ j ∈ g2, r i j := by
  induction blocks with
  | nil => simp
  | cons b bs ih =>
    rw [List.flatten_cons, List.pairwise_append] at h
    rw [List.map_cons, List.pairwise_cons]
    refine ⟨?_, ih h.2.1⟩
    intro g hg i hi j hj
    obtain ⟨b', hb', rfl⟩ := List.mem_map.mp hg
    obtain ⟨x, hx, hix⟩ := List.mem_flatten.mp hi
    obtain ⟨y, hy, hjy⟩ := List.mem_flatten.mp hj
    exact h.2.2 x hx y (List.mem_flatten.mpr ⟨b', hb', hy⟩) i hix j hjy

theorem pairwise_of_pairs {α : Type} {R : α → α → Prop} {l : List α} (h : ∀ p ∈ pairs l, R p.1 p.2) :
    l.Pairwise R := by
  induction l with
  | nil => simp
  | cons x xs ih =>
    rw [List.pairwise_cons]
    refine ⟨fun y hy => h (x, y) (by simp [hy]), ih fun p hp => h p (by simp [hp])⟩

theorem noBack_iff_pairwise (t : Table) (groups : List (List Nat)) :
    NoBack t groups ↔
      groups.Pairwise fun g1 g2 => ∀ i ∈ g1, ∀ j ∈ g2, t.bef i j ≤ t.aft i j ∧ t.bef i j ≤ t.tie i j := by
  constructor
  · intro h; exact pairwise_of_pairs h
  · intro h p hp; exact (mem_pairs_of_pairwise h p hp).2.2

theorem consecRobust_of_getD (t : Table) (l : List (List Nat))
    (h : ∀ k, k + 1 < l.length → fullyRobust t (l.getD k []) (l.getD (k + 1) []) = true) : ConsecRobust t l := by
  induction l with
  | nil => trivial
  | cons g1 l ih =>
    cases l with
    | nil => trivial
    | cons g2 rest =>
      refine ⟨?_, ih fun k hk => ?_⟩
      · have := h 0 (by simp)
        simp only [List.getD_cons_zero, List.getD_cons_succ, fullyRobust_iff, isRobust_iff] at this
        exact this
      · have := h (k + 1) (by simpa using hk)
        simpa using this

/-! ### the consistency walk on suffixes -/

/-- `consistentLoop` on the remaining groups and the remaining buckets instead of indices. -/
def cwalk : Nat → List (List Elem) → List Bucket → Bool → Option Int → Option Bool
  | 0, _, _, _, _ => none
  | _ + 1, [], _, flag, _ => some flag
  | fuel + 1, g :: Ps, cs, flag, nb =>
    if !flag then some flag else
      let n : Int := match nb with | some k => k | none => g.length
      match cs with
      | [] => cwalk fuel (g :: Ps) [] flag none
      | b :: cs' =>
        if n > 0 then
          let st := seeBucket g b (flag, n)
          if st.2 == 0 then cwalk fuel Ps cs' st.1 none else cwalk fuel (g :: Ps) cs' st.1 (some st.2)
        else cwalk fuel (g :: Ps) (b :: cs') flag none

theorem consistentLoop_eq_walk (P : List (List Elem)) (c : Ranking) :
    ∀ fuel flag idb idp nb,
      consistentLoop P c fuel flag idb idp nb = cwalk fuel (P.drop idp) (c.drop idb) flag nb := by
  intro fuel
  induction fuel with
  | zero => intros; simp [consistentLoop, cwalk]
  | succ fuel ih =>
    intro flag idb idp nb
    rw [consistentLoop]
    by_cases hidp : idp < P.length
    · have hd := List.drop_eq_getElem_cons hidp
      rw [hd]
      have hg : P.getD idp [] = P[idp] := by simp [hidp]
      cases flag with
      | false => simp [cwalk]
      | true =>
        by_cases hidb : idb < c.length
        · rw [List.drop_eq_getElem_cons hidb]
          have hb : c.getD idb [] = c[idb] := by simp [hidb]
          cases nb <;> simp only [cwalk, hg, hb, hidp, hidb, ih, hd] <;> simp
        · have : c.drop idb = [] := List.drop_eq_nil_of_le (by omega)
          rw [this]
          cases nb <;> simp only [cwalk, hg, hidp, hidb, ih, this, hd] <;> simp
    · have : P.drop idp = [] := List.drop_eq_nil_of_le (by omega)
      rw [this]
      simp [cwalk, hidp]

/-! ### counting without duplicates -/

theorem nodup_subset_length_le {l g : List Nat} (hl : l.Nodup) (hs : ∀ x ∈ l, x ∈ g) :
    l.length ≤ g.length := by
  induction l generalizing g with
  | nil => simp
  | cons a l ih =>
    rw [List.nodup_cons] at hl
    have ha : a ∈ g := hs a (by simp)
    have := ih (g := g.erase a) hl.2 (fun x hx => by
      have hne : x ≠ a := fun e => hl.1 (e ▸ hx)
      exact (List.mem_erase_of_ne hne).mpr (hs x (by simp [hx])))
    rw [List.length_erase_of_mem ha] at this
    have : 0 < g.length := List.length_pos_of_mem ha
    simp only [List.length_cons]
    omega

theorem nodup_subset_length_eq_mem {l g : List Nat} (hl : l.Nodup) (hs : ∀ x ∈ l, x ∈ g)
    (hlen : g.length ≤ l.length) : ∀ x ∈ g, x ∈ l := by
  intro x hx
  refine Classical.byContradiction fun hxl => ?_
  have := nodup_subset_length_le (g := g.erase x) hl (fun y hy => by
    have hne : y ≠ x := fun e => hxl (e ▸ hy)
    exact (List.mem_erase_of_ne hne).mpr (hs y hy))
  rw [List.length_erase_of_mem hx] at this
  have : 0 < g.length := List.length_pos_of_mem hx
  omega

theorem perm_of_nodup_subset_length {l g : List Nat} (hl : l.Nodup) (hg : g.Nodup) (hs : ∀ x ∈ l, x ∈ g)
    (hlen : g.length ≤ l.length) : l.Perm g :=
  (List.perm_ext_iff_of_nodup hl hg).mpr fun a => ⟨hs a, nodup_subset_length_eq_mem hl hs hlen a⟩

theorem dedup_of_nodup {l : List Nat} (h : l.Nodup) : dedup l = l := by
  induction l with
  | nil => rfl
  | cons a l ih =>
    rw [List.nodup_cons] at h
    simp only [dedup, ih h.2]
    congr 1
    rw [List.filter_eq_self]
    intro x hx
    have : x ≠ a := fun e => h.1 (e ▸ hx)
    simpa using this

/-! ### `seeBucket` -/

theorem seeBucket_fst (g b : List Elem) (st : Bool × Int) :
    (seeBucket g b st).1 = (st.1 && b.all fun e => g.contains e) := by
  unfold seeBucket
  induction b generalizing st with
  | nil => simp
  | cons e b ih =>
    rw [List.foldl_cons, ih]
    by_cases he : e ∈ g
    · simp [he]
    · simp [he]

theorem seeBucket_snd_of_subset (g b : List Elem) (st : Bool × Int) (h : ∀ e ∈ b, e ∈ g) :
    (seeBucket g b st).2 = st.2 - b.length := by
  unfold seeBucket
  induction b generalizing st with
  | nil => simp
  | cons e b ih =>
    have he : g.contains e = true := by simpa using h e (by simp)
    rw [List.foldl_cons, ih _ (fun x hx => h x (by simp [hx]))]
    simp only [he, if_true, List.length_cons]
    omega

theorem seeBucket_of_subset (g b : List Elem) (n : Int) (h : ∀ e ∈ b, e ∈ g) :
    seeBucket g b (true, n) = (true, n - b.length) := by
  apply Prod.ext
  · rw [seeBucket_fst]; simpa using h
  · rw [seeBucket_snd_of_subset g b _ h]

theorem seeBucket_of_not_subset (g b : List Elem) (n : Int) (h : ¬ ∀ e ∈ b, e ∈ g) :
    (seeBucket g b (true, n)).1 = false := by
  rw [seeBucket_fst]
  simpa using h

/-! ### unfolding `cwalk` -/

theorem cwalk_false (fuel : Nat) (Ps : List (List Elem)) (cs : List Bucket) (nb : Option Int) :
    cwalk (fuel + 1) Ps cs false nb = some false := by
  cases Ps <;> simp [cwalk]

theorem cwalk_none (fuel : Nat) (g : List Elem) (Ps : List (List Elem)) (cs : List Bucket) (flag : Bool) :
    cwalk fuel (g :: Ps) cs flag none = cwalk fuel (g :: Ps) cs flag (some (g.length : Int)) := by
  cases fuel with
  | zero => rfl
  | succ fuel => simp [cwalk]

theorem cwalk_cons_pos (fuel : Nat) (g : List Elem) (Ps : List (List Elem)) (b : Bucket) (cs : List Bucket)
    (n : Int) (hn : 0 < n) :
    cwalk (fuel + 1) (g :: Ps) (b :: cs) true (some n) =
      if (seeBucket g b (true, n)).2 = 0 then cwalk fuel Ps cs (seeBucket g b (true, n)).1 none
      else cwalk fuel (g :: Ps) cs (seeBucket g b (true, n)).1 (some (seeBucket g b (true, n)).2) := by
  simp [cwalk, hn]

/-! ### the specification, recursively -/

/-- `x` is ranked in a strictly earlier bucket than `y`. -/
def Before (c : Ranking) (x y : Elem) : Prop :=
  ∃ i j, bucketIdx c x = some i ∧ bucketIdx c y = some j ∧ i < j

theorem consistentSpec_iff (P : List (List Elem)) (c : Ranking) :
    consistentSpec P c = true ↔
      (∀ x, x ∈ P.flatten ↔ x ∈ c.flatten) ∧
      P.Pairwise fun g1 g2 => ∀ x ∈ g1, ∀ y ∈ g2, Before c x y := by
  unfold consistentSpec sameSet
  simp only [Bool.and_eq_true, List.all_eq_true, List.contains_iff_mem]
  constructor
  · rintro ⟨⟨h1, h2⟩, h3⟩
    refine ⟨fun x => ⟨h1 x, h2 x⟩, pairwise_of_pairs fun p hp x hx y hy => ?_⟩
    have := h3 p hp x hx y hy
    unfold Before
    revert this
    cases bucketIdx c x <;> cases bucketIdx c y <;> simp
  · rintro ⟨h1, h2⟩
    refine ⟨⟨fun x => (h1 x).mp, fun x => (h1 x).mpr⟩, fun p hp x hx y hy => ?_⟩
    have := (mem_pairs_of_pairwise h2 p hp).2.2 x hx y hy
    unfold Before at this
    revert this
    cases bucketIdx c x <;> cases bucketIdx c y <;> simp

theorem split_prefix {α : Type} (p : α → Prop) (c : List α) :
    ∃ bl rest, c = bl ++ rest ∧ (∀ b ∈ bl, p b) ∧ (rest = [] ∨ ∃ b0 rest', rest = b0 :: rest' ∧ ¬ p b0) := by
  induction c with
  | nil => exact ⟨[], [], rfl, by simp, .inl rfl⟩
  | cons a c ih =>
    by_cases ha : p a
    · obtain ⟨bl, rest, e, h1, h2⟩ := ih
      exact ⟨a :: bl, rest, by simp [e], by simpa [ha] using h1, h2⟩
    · exact ⟨[], a :: c, rfl, by simp, .inr ⟨a, c, rfl, ha⟩⟩

theorem before_append_right {bl rest : Ranking} {x y : Elem} (hx : x ∉ bl.flatten) (hy : y ∉ bl.flatten) :
    Before (bl ++ rest) x y ↔ Before rest x y := by
  unfold Before
  rw [bucketIdx_append_right hx, bucketIdx_append_right hy]
  cases bucketIdx rest x <;> cases bucketIdx rest y <;> simp

theorem before_append_left_right {bl rest : Ranking} {x y : Elem} (hx : x ∈ bl.flatten) (hy : y ∉ bl.flatten)
    (hy' : y ∈ rest.flatten) : Before (bl ++ rest) x y := by
  obtain ⟨i, hi⟩ := bucketIdx_isSome hx
  obtain ⟨j, hj⟩ := bucketIdx_isSome hy'
  refine ⟨i, j + bl.length, ?_, ?_, ?_⟩
  · rw [bucketIdx_append_left hx, hi]
  · rw [bucketIdx_append_right hy, hj]; rfl
  · have := bucketIdx_lt_length hi; omega

theorem consistentSpec_cons (g : List Elem) (Ps : List (List Elem)) (c : Ranking)
    (hnd : (g ++ Ps.flatten).Nodup) (hc : c.flatten.Nodup) :
    consistentSpec (g :: Ps) c = true ↔
      ∃ bl rest, c = bl ++ rest ∧ bl.flatten.Perm g ∧ consistentSpec Ps rest = true := by
  obtain ⟨hgnd, hPnd, hdisj⟩ := List.nodup_append.mp hnd
  simp only [consistentSpec_iff, List.flatten_cons, List.mem_append, List.pairwise_cons]
  constructor
  · rintro ⟨hmem, hfirst, hrest⟩
    obtain ⟨bl, rest, rfl, hbl, hsplit⟩ := split_prefix (fun b : Bucket => ∀ e ∈ b, e ∈ g) c
    rw [List.flatten_append] at hc hmem
    obtain ⟨hblnd, hrnd, hbr⟩ := List.nodup_append.mp hc
    have hblg : ∀ x ∈ bl.flatten, x ∈ g := by
      intro x hx
      obtain ⟨b, hb, hxb⟩ := List.mem_flatten.mp hx
      exact hbl b hb x hxb
    have hgbl : ∀ x ∈ g, x ∈ bl.flatten := by
      intro x hx
      refine Classical.byContradiction fun hxbl => ?_
      have hxr : x ∈ rest.flatten := by
        have := (hmem x).mp (.inl hx)
        simp only [List.mem_append] at this
        exact this.resolve_left hxbl
      rcases hsplit with rfl | ⟨b0, rest', rfl, hb0⟩
      · simp at hxr
      · obtain ⟨y, hyb0, hyg⟩ : ∃ y, y ∈ b0 ∧ y ∉ g := by
          refine Classical.byContradiction fun h => hb0 fun e he => ?_
          exact Classical.byContradiction fun heg => h ⟨e, he, heg⟩
        have hybl : y ∉ bl.flatten := fun h => hyg (hblg y h)
        have hyP : y ∈ Ps.flatten := by
          have := (hmem y).mpr (by simp [hyb0])
          exact this.resolve_left hyg
        obtain ⟨g2, hg2, hyg2⟩ := List.mem_flatten.mp hyP
        have hbef := (before_append_right hxbl hybl).mp (hfirst g2 hg2 x hx y hyg2)
        obtain ⟨i, j, _, hj, hij⟩ := hbef
        simp only [bucketIdx, hyb0, if_true, Option.some.injEq] at hj
        omega
    refine ⟨bl, rest, rfl, (List.perm_ext_iff_of_nodup hblnd hgnd).mpr fun a => ⟨hblg a, hgbl a⟩, ?_, ?_⟩
    · intro y
      constructor
      · intro hy
        have hyg : y ∉ g := fun h => hdisj y h y hy rfl
        have := (hmem y).mp (.inr hy)
        simp only [List.mem_append] at this
        exact this.resolve_left fun h => hyg (hblg y h)
      · intro hy
        have := (hmem y).mpr (by simp [hy])
        exact this.resolve_left fun h => hbr y (hgbl y h) y hy rfl
    · refine hrest.imp_of_mem fun {g1 g2} hg1 hg2 h x hx y hy => ?_
      have hxbl : x ∉ bl.flatten := fun hh =>
        hdisj x (hblg x hh) x (List.mem_flatten.mpr ⟨g1, hg1, hx⟩) rfl
      have hybl : y ∉ bl.flatten := fun hh =>
        hdisj y (hblg y hh) y (List.mem_flatten.mpr ⟨g2, hg2, hy⟩) rfl
      exact (before_append_right hxbl hybl).mp (h x hx y hy)
  · rintro ⟨bl, rest, rfl, hp, hmem, hrest⟩
    have hnotbl : ∀ y ∈ Ps.flatten, y ∉ bl.flatten := fun y hy hh =>
      hdisj y (hp.mem_iff.mp hh) y hy rfl
    refine ⟨?_, ?_, ?_⟩
    · intro x
      rw [List.flatten_append, List.mem_append, hp.mem_iff, hmem x]
    · intro g2 hg2 x hx y hy
      have hyP : y ∈ Ps.flatten := List.mem_flatten.mpr ⟨g2, hg2, hy⟩
      exact before_append_left_right (hp.mem_iff.mpr hx) (hnotbl y hyP) ((hmem y).mp hyP)
    · refine hrest.imp_of_mem fun {g1 g2} hg1 hg2 h x hx y hy => ?_
      exact (before_append_right (hnotbl x (List.mem_flatten.mpr ⟨g1, hg1, hx⟩))
        (hnotbl y (List.mem_flatten.mpr ⟨g2, hg2, hy⟩))).mpr (h x hx y hy)

theorem consistentSpec_prepend_empty (Ps : List (List Elem)) (bl rest : Ranking) (h : bl.flatten = []) :
    consistentSpec Ps (bl ++ rest) = true ↔ consistentSpec Ps rest = true := by
  have hn : ∀ x, x ∉ bl.flatten := by simp [h]
  simp only [consistentSpec_iff, List.flatten_append, h, List.nil_append]
  refine and_congr Iff.rfl ⟨fun hp => hp.imp fun hh x hx y hy => ?_, fun hp => hp.imp fun hh x hx y hy => ?_⟩
  · exact (before_append_right (hn x) (hn y)).mp (hh x hx y hy)
  · exact (before_append_right (hn x) (hn y)).mpr (hh x hx y hy)

/-! ### one group -/

/-- the walk over the buckets of one group `g`: `seen` are the buckets already consumed for `g`, `n` the number of
    elements of `g` still to see. -/
theorem cwalk_group (g : List Elem) (Ps : List (List Elem)) (hg : g.Nodup)
    (IH : ∀ (rest : List Bucket) (fuel : Nat), rest.flatten.Nodup →
      rest.flatten.length = Ps.flatten.length → rest.length + 1 ≤ fuel →
      cwalk fuel Ps rest true none = some (consistentSpec Ps rest)) :
    ∀ (cs seen : List Bucket) (n : Int) (fuel : Nat),
      (∀ x ∈ seen.flatten, x ∈ g) → (seen.flatten ++ cs.flatten).Nodup →
      n = (g.length : Int) - seen.flatten.length → 0 < n →
      (cs.flatten.length : Int) = n + Ps.flatten.length → cs.length + 1 ≤ fuel →
      ∃ r, cwalk fuel (g :: Ps) cs true (some n) = some r ∧
        (r = true ↔
          ∃ bl rest, cs = bl ++ rest ∧ (seen ++ bl).flatten.Perm g ∧ consistentSpec Ps rest = true) := by
  intro cs
  induction cs with
  | nil =>
    intro seen n fuel _ _ _ hn hc _
    simp at hc; omega
  | cons b cs ih =>
    intro seen n fuel hsub hnd hneq hn hc hf
    obtain ⟨fuel, rfl⟩ : ∃ f, fuel = f + 1 := ⟨fuel - 1, by simp at hf; omega⟩
    obtain ⟨fuel', hfuel'⟩ : ∃ f, fuel = f + 1 := ⟨fuel - 1, by simp at hf; omega⟩
    rw [cwalk_cons_pos _ _ _ _ _ _ hn]
    have hnil : ¬ (seen.flatten.Perm g) := fun hp => by have := hp.length_eq; omega
    by_cases hb : ∀ e ∈ b, e ∈ g
    · rw [seeBucket_of_subset g b n hb]
      simp only
      have hsub' : ∀ x ∈ (seen ++ [b]).flatten, x ∈ g := by
        intro x hx
        simp only [List.flatten_append, List.flatten_cons, List.flatten_nil, List.append_nil,
          List.mem_append] at hx
        rcases hx with hx | hx
        · exact hsub x hx
        · exact hb x hx
      have hnd' : ((seen ++ [b]).flatten ++ cs.flatten).Nodup := by
        simpa [List.append_assoc] using hnd
      have hlen' : (seen ++ [b]).flatten.length = seen.flatten.length + b.length := by simp
      have hnds' := (List.nodup_append.mp hnd').1
      have hle := nodup_subset_length_le hnds' hsub'
      have hc' : (cs.flatten.length : Int) = n - b.length + Ps.flatten.length := by
        simp only [List.flatten_cons, List.length_append] at hc; omega
      by_cases h0 : n - (b.length : Int) = 0
      · rw [if_pos h0]
        have hndc : cs.flatten.Nodup := (List.nodup_append.mp hnd').2.1
        refine ⟨consistentSpec Ps cs, IH cs fuel hndc (by omega) (by simp at hf; omega), ?_⟩
        constructor
        · intro hspec
          refine ⟨[b], cs, rfl, ?_, hspec⟩
          exact perm_of_nodup_subset_length hnds' hg hsub' (by omega)
        · rintro ⟨bl, rest, e, hp, hspec⟩
          cases bl with
          | nil => exact absurd (by simpa using hp) hnil
          | cons b0 bl =>
            simp only [List.cons_append, List.cons.injEq] at e
            obtain ⟨rfl, e⟩ := e
            subst e
            have hlen := hp.length_eq
            simp only [List.flatten_append, List.flatten_cons, List.length_append] at hlen
            have hbl : bl.flatten = [] := List.length_eq_zero_iff.mp (by omega)
            exact (consistentSpec_prepend_empty Ps bl rest hbl).mpr hspec
      · rw [if_neg h0]
        obtain ⟨r, hr, hiff⟩ := ih (seen ++ [b]) (n - b.length) fuel hsub' hnd' (by omega) (by omega) hc'
          (by simp at hf; omega)
        refine ⟨r, hr, hiff.trans ?_⟩
        constructor
        · rintro ⟨bl, rest, e, hp, hspec⟩
          exact ⟨b :: bl, rest, by simp [e], by simpa using hp, hspec⟩
        · rintro ⟨bl, rest, e, hp, hspec⟩
          cases bl with
          | nil => exact absurd (by simpa using hp) hnil
          | cons b0 bl =>
            simp only [List.cons_append, List.cons.injEq] at e
            obtain ⟨rfl, e⟩ := e
            exact ⟨bl, rest, e, by simpa using hp, hspec⟩
    · rw [seeBucket_of_not_subset g b n hb]
      subst hfuel'
      simp only [cwalk_false, ite_self]
      refine ⟨false, rfl, ?_⟩
      constructor
      · intro h; cases h
      · rintro ⟨bl, rest, e, hp, _⟩
        exfalso
        cases bl with
        | nil => exact absurd (by simpa using hp) hnil
        | cons b0 bl =>
          simp only [List.cons_append, List.cons.injEq] at e
          obtain ⟨rfl, e⟩ := e
          apply hb
          intro x hx
          exact hp.mem_iff.mp (by simp [hx])

/-! ### the whole walk -/

theorem cwalk_start : ∀ (Ps : List (List Elem)) (cs : List Bucket) (fuel : Nat),
    (∀ g ∈ Ps, g ≠ []) → Ps.flatten.Nodup → cs.flatten.Nodup →
    cs.flatten.length = Ps.flatten.length → cs.length + 1 ≤ fuel →
    cwalk fuel Ps cs true none = some (consistentSpec Ps cs) := by
  intro Ps
  induction Ps with
  | nil =>
    intro cs fuel _ _ _ hlen hf
    obtain ⟨fuel, rfl⟩ : ∃ f, fuel = f + 1 := ⟨fuel - 1, by omega⟩
    have hnil : cs.flatten = [] := List.length_eq_zero_iff.mp (by simpa using hlen)
    have : consistentSpec [] cs = true := (consistentSpec_iff [] cs).mpr (by simp [hnil])
    rw [this]
    simp [cwalk]
  | cons g Ps ih =>
    intro cs fuel hne hnd hcnd hlen hf
    obtain ⟨hgnd, hPnd, _⟩ := List.nodup_append.mp (by simpa using hnd : (g ++ Ps.flatten).Nodup)
    have hg0 : 0 < g.length := List.length_pos_iff.mpr (hne g (by simp))
    rw [cwalk_none]
    obtain ⟨r, hr, hiff⟩ := cwalk_group g Ps hgnd
      (fun rest fuel h1 h3 h4 => ih rest fuel (fun g' hg' => hne g' (by simp [hg'])) hPnd h1 h3 h4)
      cs [] g.length fuel (by simp) (by simpa using hcnd) (by simp) (by omega)
      (by simp only [List.flatten_cons, List.length_append] at hlen; omega) hf
    rw [hr]
    congr 1
    rw [Bool.eq_iff_iff, hiff, consistentSpec_cons g Ps cs (by simpa using hnd) hcnd]
    simp

theorem consistentWith_eq (P : List (List Elem)) (c : Ranking)
    (hP : ∀ g ∈ P, g ≠ []) (hPd : P.flatten.Nodup) (hc : c.flatten.Nodup)
    (fuel : Nat) (hf : c.length + 1 ≤ fuel) :
    consistentWith P c fuel = some (consistentSpec P c) := by
  unfold consistentWith
  simp only [dedup_of_nodup hPd, dedup_of_nodup hc]
  by_cases hlen : c.flatten.length = P.flatten.length
  · rw [consistentLoop_eq_walk]
    simp only [hlen, beq_self_eq_true, List.drop_zero]
    exact cwalk_start P c fuel hP hPd hc hlen hf
  · obtain ⟨fuel, rfl⟩ : ∃ f, fuel = f + 1 := ⟨fuel - 1, by omega⟩
    have hspec : consistentSpec P c = false := by
      rw [Bool.eq_false_iff]
      intro h
      have hm := ((consistentSpec_iff P c).mp h).1
      exact hlen ((List.perm_ext_iff_of_nodup hPd hc).mpr hm).length_eq.symm
    have hb : (c.flatten.length == P.flatten.length) = false := by simpa using hlen
    rw [hspec, hb, consistentLoop_eq_walk, cwalk_false]

end PartLoop
end Corankco
