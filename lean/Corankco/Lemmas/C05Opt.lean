import Corankco.Props.C06f
import Corankco.Props.C05c
/-
  Helpers for C05d (the optimised exact algorithm = ParCons with an unbounded exact budget and the CPLEX model with
  no-tie rows as sub-solver): a ranking of the ids `0..n-1` of a universe read as a ranking of ELEMENTS
  (`readIds`), its bucket-id vector, and the size of the components of a partition.
-/
namespace Corankco
open Model Spec
namespace C05Opt

/-- a ranking of ids read through a universe: `id ↦ U[id]` -/
def readIds (U : List Elem) (r : List (List Nat)) : Ranking := r.map fun b => b.map fun i => U.getD i 0

theorem map_getD_range (U : List Elem) : ((List.range U.length).map fun i => U.getD i 0) = U := by
  apply List.ext_getElem
  · simp
  · intro i h1 h2
    simp [h2]

theorem elemsOf_range (U : List Elem) : C06f.elemsOf U (List.range U.length) = U := map_getD_range U

theorem readIds_flatten (U : List Elem) (r : List (List Nat)) :
    (readIds U r).flatten = r.flatten.map fun i => U.getD i 0 := by
  unfold readIds
  rw [List.map_flatten]

/-- a partition of `0..n-1`, flattened, is a permutation of `range n` -/
theorem partition_perm_range (n : Nat) (r : List (List Nat)) (hp : isPartitionOf n r = true) :
    r.flatten.Perm (List.range n) := by
  obtain ⟨_, hnd, hmem⟩ := (L4.isPartitionOf_iff n r).mp hp
  exact (List.perm_ext_iff_of_nodup hnd List.nodup_range).mpr (fun i => by rw [hmem i, List.mem_range])

theorem readIds_ne_nil (U : List Elem) (r : List (List Nat)) (hp : isPartitionOf U.length r = true) :
    ∀ b ∈ readIds U r, b ≠ [] := by
  obtain ⟨hne, _, _⟩ := (L4.isPartitionOf_iff _ r).mp hp
  intro b hb
  obtain ⟨b0, hb0, rfl⟩ := List.mem_map.mp hb
  simpa using hne b0 hb0

/-- a partition of the ids of `U`, read through `U`, ranks exactly the elements of `U` -/
theorem readIds_perm (U : List Elem) (r : List (List Nat)) (hp : isPartitionOf U.length r = true) :
    (readIds U r).flatten.Perm U := by
  rw [readIds_flatten]
  have := (partition_perm_range _ r hp).map fun i => U.getD i 0
  rw [map_getD_range] at this
  exact this

/-- elements → ids undoes ids → elements -/
theorem readIds_map_idx (U : List Elem) (hU : U.Nodup) (r : List (List Nat))
    (hlt : ∀ b ∈ r, ∀ i ∈ b, i < U.length) :
    ((readIds U r).map fun b => b.map (SubTable.idx U)) = r := by
  unfold readIds
  rw [List.map_map]
  conv => rhs; rw [← List.map_id r]
  apply List.map_congr_left
  intro b hb
  simp only [Function.comp_apply, id]
  exact Final.map_idx_map_getD hU b (hlt b hb)

/-- the bucket-id vector over elements of the ranking read through `U` is the bucket-id vector over ids -/
theorem vecOf_readIds (U : List Elem) (hU : U.Nodup) (r : List (List Nat)) (hp : isPartitionOf U.length r = true) :
    vecOf U (readIds U r) = (vecOfIds U.length r).map fun k => Int.ofNat k := by
  obtain ⟨_, _, hmem⟩ := (L4.isPartitionOf_iff _ r).mp hp
  have hlt : ∀ b ∈ r, ∀ i ∈ b, i < U.length :=
    fun b hb i hi => (hmem i).mp (List.mem_flatten.mpr ⟨b, hb, hi⟩)
  have hperm : (readIds U r).flatten.Perm (C06f.elemsOf U (List.range U.length)) := by
    rw [elemsOf_range]; exact readIds_perm U r hp
  apply List.ext_getElem
  · simp [vecOf, vecOfIds]
  · intro i h1 h2
    have hi : i < U.length := by simpa [vecOf] using h1
    have := C06f.lift_key U hU (List.range U.length) (fun j hj => List.mem_range.mp hj) (readIds U r)
      (readIds_ne_nil U r hp) hperm i (List.mem_range.mpr hi)
    rw [readIds_map_idx U hU r hlt, getD_of_lt _ _ _ h2, getD_of_lt _ _ _ h1] at this
    exact this.symm

/-- a group of a partition of `0..n-1` has at most `n` ids -/
theorem group_length_le (n : Nat) (comps : List (List Nat)) (hp : isPartitionOf n comps = true)
    (c : List Nat) (hc : c ∈ comps) : c.length ≤ n := by
  have h1 := (List.sublist_flatten_of_mem hc).length_le
  have h2 := (partition_perm_range n comps hp).length_eq
  rw [List.length_range] at h2
  omega

end C05Opt
end Corankco
