import Corankco.Lemmas.C02
import Corankco.Spec.Algos
/-
  Helper lemmas for the C11 (KwikSort) property theorems.
-/
namespace Corankco
open Model Spec

/-! ### Part 1: the vectorised counts of `_where_should_it_be` are the status counts -/

/-- The six status cases of a pair in one ranking, read on the two positions. -/
theorem status_posIn_cases (r : Ranking) (x y : Elem) :
    (status r x y = 0 ∧ status r y x = 1 ∧ 0 ≤ posIn r x ∧ posIn r x < posIn r y) ∨
    (status r x y = 1 ∧ status r y x = 0 ∧ 0 ≤ posIn r y ∧ posIn r y < posIn r x) ∨
    (status r x y = 2 ∧ status r y x = 2 ∧ 0 ≤ posIn r x ∧ posIn r x = posIn r y) ∨
    (status r x y = 3 ∧ status r y x = 4 ∧ 0 ≤ posIn r x ∧ posIn r y = -1) ∨
    (status r x y = 4 ∧ status r y x = 3 ∧ posIn r x = -1 ∧ 0 ≤ posIn r y) ∨
    (status r x y = 5 ∧ status r y x = 5 ∧ posIn r x = -1 ∧ posIn r y = -1) := by
  have hp := rankFn_posIn
  unfold status
  cases hx : bucketIdx r x with
  | none =>
    cases hy : bucketIdx r y with
    | none => simp [hp.none r x hx, hp.none r y hy]
    | some j => simp [hp.none r x hx, hp.nonneg r y j hy]
  | some i =>
    cases hy : bucketIdx r y with
    | none => simp [hp.none r y hy, hp.nonneg r x i hx]
    | some j =>
      have h1 := hp.nonneg r x i hx
      have h2 := hp.nonneg r y j hy
      rcases Nat.lt_trichotomy i j with h | h | h
      · have hl := hp.lt r x y i j hx hy h
        have hn : ¬ j < i := by omega
        simp [h, hn, h1, hl]
      · subst h
        have he := hp.eq r x y i hx hy
        simp [h2, he]
      · have hl := hp.lt r y x j i hy hx h
        have hn : ¬ i < j := by omega
        simp [h, hn, h2, hl]

/-- The five tests of the code on one column of the two rows, as tests on the status of `(e, p)`. -/
theorem row_bools (r : Ranking) (p e : Elem) :
    (posIn r p + posIn r e == -2) = (status r e p == 5) ∧
    (posIn r p == posIn r e) = (status r e p == 2 || status r e p == 5) ∧
    (posIn r p == -1) = (status r e p == 3 || status r e p == 5) ∧
    (posIn r e == -1) = (status r e p == 4 || status r e p == 5) ∧
    decide (posIn r e < posIn r p) = (status r e p == 0 || status r e p == 4) := by
  rcases status_posIn_cases r e p with h | h | h | h | h | h <;>
    obtain ⟨h1, -, h3, h4⟩ := h <;> rw [h1] <;>
    generalize posIn r p = a at * <;> generalize posIn r e = b at * <;>
    refine ⟨?_, ?_, ?_, ?_, ?_⟩ <;> simp <;> omega

/-- number of rankings of `D` in which the pair `(x, y)` has status `k`. -/
def stCount (D : Dataset) (x y : Elem) (k : Nat) : Nat := (D.filter fun r => status r x y == k).length

@[simp] theorem stCount_nil (x y : Elem) (k : Nat) : stCount [] x y k = 0 := rfl

theorem stCount_cons (r : Ranking) (D : Dataset) (x y : Elem) (k : Nat) :
    stCount (r :: D) x y k = (if status r x y = k then 1 else 0) + stCount D x y k := by
  unfold stCount
  by_cases h : status r x y = k <;> simp [h] <;> omega

/-- The five vectorised counts and the length, as combinations of the status counts of `(e, p)`
    (`p` the pivot, `e` the other element). -/
theorem kwik_counts (D : Dataset) (p e : Elem) :
    ((((D.map (posIn · p)).zip (D.map (posIn · e))).filter fun q => q.1 + q.2 == -2).length
        = stCount D e p 5) ∧
    ((((D.map (posIn · p)).zip (D.map (posIn · e))).filter fun q => q.1 == q.2).length
        = stCount D e p 2 + stCount D e p 5) ∧
    (((D.map (posIn · p)).filter (· == -1)).length = stCount D e p 3 + stCount D e p 5) ∧
    (((D.map (posIn · e)).filter (· == -1)).length = stCount D e p 4 + stCount D e p 5) ∧
    ((((D.map (posIn · p)).zip (D.map (posIn · e))).filter fun q => decide (q.2 < q.1)).length
        = stCount D e p 0 + stCount D e p 4) ∧
    ((D.map (posIn · p)).length = stCount D e p 0 + stCount D e p 1 + stCount D e p 2 +
        stCount D e p 3 + stCount D e p 4 + stCount D e p 5) := by
  induction D with
  | nil => simp
  | cons r D ih =>
    obtain ⟨i1, i2, i3, i4, i5, i6⟩ := ih
    simp only [List.length_map] at i6
    obtain ⟨b1, b2, b3, b4, b5⟩ := row_bools r p e
    simp only [List.map_cons, List.zip_cons_cons, List.filter_cons, stCount_cons, List.length_cons,
      List.length_map, b1, b2, b3, b4, b5]
    rcases status_posIn_cases r e p with h | h | h | h | h | h <;>
      obtain ⟨h1, -, -, -⟩ := h <;> simp [h1] <;> omega

/-- The three costs of the definition as dot products with the status counts. -/
theorem costs_stCount (S : Scheme) (D : Dataset) (p e : Elem) :
    before S D e p = S.b0 * stCount D e p 0 + S.b1 * stCount D e p 1 + S.b2 * stCount D e p 2 +
        S.b3 * stCount D e p 3 + S.b4 * stCount D e p 4 + S.b5 * stCount D e p 5 ∧
    tied S D e p = S.t0 * stCount D e p 0 + S.t1 * stCount D e p 1 + S.t2 * stCount D e p 2 +
        S.t3 * stCount D e p 3 + S.t4 * stCount D e p 4 + S.t5 * stCount D e p 5 ∧
    after S D e p = S.b0 * stCount D e p 1 + S.b1 * stCount D e p 0 + S.b2 * stCount D e p 2 +
        S.b3 * stCount D e p 4 + S.b4 * stCount D e p 3 + S.b5 * stCount D e p 5 := by
  induction D with
  | nil => simp [before, tied, after]
  | cons r D ih =>
    obtain ⟨i1, i2, i3⟩ := ih
    unfold before tied after at *
    simp only [List.map_cons, isum_cons, i1, i2, i3, stCount_cons]
    rcases status_posIn_cases r e p with h | h | h | h | h | h <;>
      obtain ⟨h1, h2, -, -⟩ := h <;>
      simp [h1, h2, Scheme.B, Scheme.T, Int.mul_add] <;> omega

/-- `whereShouldItBe` on the two position rows is the decision of the definition. -/
theorem whereShouldItBe_rows (S : Scheme) (D : Dataset) (p e : Elem) :
    whereShouldItBe S (D.map (posIn · p)) (D.map (posIn · e)) = whereSpec S D p e := by
  obtain ⟨k1, k2, k3, k4, k5, k6⟩ := kwik_counts D p e
  obtain ⟨c1, c2, c3⟩ := costs_stCount S D p e
  unfold whereShouldItBe whereSpec
  simp only [k1, k2, k3, k4, k5, k6, c1, c2, c3]
  have e0 : ((stCount D e p 0 + stCount D e p 4 : Nat) : Int) - ((stCount D e p 4 + stCount D e p 5 : Nat) : Int)
      + (stCount D e p 5 : Nat) = stCount D e p 0 := by omega
  have e1 : ((stCount D e p 0 + stCount D e p 1 + stCount D e p 2 + stCount D e p 3 + stCount D e p 4 +
      stCount D e p 5 : Nat) : Int) - ((stCount D e p 0 + stCount D e p 4 : Nat) : Int)
      - ((stCount D e p 2 + stCount D e p 5 : Nat) : Int) - ((stCount D e p 3 + stCount D e p 5 : Nat) : Int)
      + (stCount D e p 5 : Nat) = stCount D e p 1 := by omega
  have e2 : ((stCount D e p 2 + stCount D e p 5 : Nat) : Int) - (stCount D e p 5 : Nat) = stCount D e p 2 := by
    omega
  have e3 : ((stCount D e p 3 + stCount D e p 5 : Nat) : Int) - (stCount D e p 5 : Nat) = stCount D e p 3 := by
    omega
  have e4 : ((stCount D e p 4 + stCount D e p 5 : Nat) : Int) - (stCount D e p 5 : Nat) = stCount D e p 4 := by
    omega
  rw [e0, e1, e2, e3, e4]

/-! ### Part 2: comparison helpers, bucket indices under concatenation -/

theorem cmp_nat_cases (a b : Nat) :
    (a < b ∧ compare a b = .lt) ∨ (a = b ∧ compare a b = .eq) ∨ (b < a ∧ compare a b = .gt) := by
  rcases Nat.lt_trichotomy a b with h | h | h
  · exact .inl ⟨h, Nat.compare_eq_lt.mpr h⟩
  · exact .inr (.inl ⟨h, Nat.compare_eq_eq.mpr h⟩)
  · exact .inr (.inr ⟨h, Nat.compare_eq_gt.mpr h⟩)

theorem cmp_int_cases (a b : Int) :
    (a < b ∧ compare a b = .lt) ∨ (a = b ∧ compare a b = .eq) ∨ (b < a ∧ compare a b = .gt) := by
  rcases Int.lt_trichotomy a b with h | h | h
  · exact .inl ⟨h, Int.compare_eq_lt.mpr h⟩
  · exact .inr (.inl ⟨h, Int.compare_eq_eq.mpr h⟩)
  · exact .inr (.inr ⟨h, Int.compare_eq_gt.mpr h⟩)

theorem compare_nat_nat_iff {a b c d : Nat} :
    compare a b = compare c d ↔ ((a < b ↔ c < d) ∧ (a = b ↔ c = d)) := by
  rcases cmp_nat_cases a b with ⟨h1, e1⟩ | ⟨h1, e1⟩ | ⟨h1, e1⟩ <;>
    rcases cmp_nat_cases c d with ⟨h2, e2⟩ | ⟨h2, e2⟩ | ⟨h2, e2⟩ <;>
    rw [e1, e2] <;> simp <;> omega

theorem compare_nat_int_iff {a b : Nat} {c d : Int} :
    compare a b = compare c d ↔ ((a < b ↔ c < d) ∧ (a = b ↔ c = d)) := by
  rcases cmp_nat_cases a b with ⟨h1, e1⟩ | ⟨h1, e1⟩ | ⟨h1, e1⟩ <;>
    rcases cmp_int_cases c d with ⟨h2, e2⟩ | ⟨h2, e2⟩ | ⟨h2, e2⟩ <;>
    rw [e1, e2] <;> simp <;> omega

/-- index of the bucket of `x`, defaulting to 0 (the key `cmpIn` compares). -/
def bIdx (r : Ranking) (x : Elem) : Nat := (bucketIdx r x).getD 0

theorem cmpIn_eq (r : Ranking) (x y : Elem) : cmpIn r x y = compare (bIdx r x) (bIdx r y) := rfl

theorem bucketIdx_lt_length {r : Ranking} {x : Elem} {i : Nat} (h : bucketIdx r x = some i) :
    i < r.length := by
  induction r generalizing i with
  | nil => simp [bucketIdx] at h
  | cons b bs ih =>
    unfold bucketIdx at h
    by_cases hx : x ∈ b
    · simp [hx] at h; simp; omega
    · cases hb : bucketIdx bs x with
      | none => simp [hx, hb] at h
      | some k =>
        simp [hx, hb] at h
        have := ih hb
        simp; omega

theorem bucketIdx_append_left {A B : Ranking} {x : Elem} (h : x ∈ A.flatten) :
    bucketIdx (A ++ B) x = bucketIdx A x := by
  induction A with
  | nil => simp at h
  | cons b bs ih =>
    simp only [List.cons_append, bucketIdx]
    by_cases hx : x ∈ b
    · simp [hx]
    · simp only [hx, if_false]
      rw [ih]
      simpa [hx] using h

theorem bucketIdx_append_right {A B : Ranking} {x : Elem} (h : x ∉ A.flatten) :
    bucketIdx (A ++ B) x = (bucketIdx B x).map (· + A.length) := by
  induction A with
  | nil => simp
  | cons b bs ih =>
    simp only [List.flatten_cons, List.mem_append, not_or] at h
    simp only [List.cons_append, bucketIdx, h.1, if_false, ih h.2, List.length_cons]
    cases bucketIdx B x <;> simp <;> omega

theorem bIdx_zone0 {A B : Ranking} {s : Bucket} {x : Elem} (h : x ∈ A.flatten) :
    bIdx (A ++ [s] ++ B) x = bIdx A x ∧ bIdx A x < A.length := by
  unfold bIdx
  rw [List.append_assoc, bucketIdx_append_left h]
  obtain ⟨i, hi⟩ := bucketIdx_isSome h
  rw [hi]
  exact ⟨rfl, bucketIdx_lt_length hi⟩

theorem bIdx_zone1 {A B : Ranking} {s : Bucket} {x : Elem} (h : x ∉ A.flatten) (hs : x ∈ s) :
    bIdx (A ++ [s] ++ B) x = A.length := by
  unfold bIdx
  rw [List.append_assoc, bucketIdx_append_right h]
  simp [bucketIdx, hs]

theorem bIdx_zone2 {A B : Ranking} {s : Bucket} {x : Elem} (h : x ∉ A.flatten) (hs : x ∉ s)
    (hB : x ∈ B.flatten) :
    bIdx (A ++ [s] ++ B) x = A.length + 1 + bIdx B x := by
  unfold bIdx
  rw [List.append_assoc, bucketIdx_append_right h]
  obtain ⟨i, hi⟩ := bucketIdx_isSome hB
  simp [bucketIdx, hs, hi]
  omega

/-! ### Part 3: the recursion, for an arbitrary placement function `w` -/

theorem filter3_perm {α : Type} (f : α → Int) (l : List α) :
    (l.filter (fun e => decide (f e < 0)) ++ l.filter (fun e => decide (f e = 0)) ++
      l.filter (fun e => decide (f e > 0))).Perm l := by
  induction l with
  | nil => simp
  | cons x xs ih =>
    rcases Int.lt_trichotomy (f x) 0 with h | h | h
    · have h1 : ¬ f x = 0 := by omega
      have h2 : ¬ 0 < f x := by omega
      simp only [List.filter_cons, h, h1, h2, decide_true, decide_false, if_true, gt_iff_lt]
      simpa using ih
    · simp only [List.filter_cons, h, decide_true, gt_iff_lt, if_true, List.append_assoc,
        List.cons_append]
      exact List.perm_middle.trans (List.Perm.cons _ (by simpa using ih))
    · have h1 : ¬ f x < 0 := by omega
      have h2 : ¬ f x = 0 := by omega
      simp only [List.filter_cons, h, h1, h2, decide_true, decide_false, gt_iff_lt, if_true,
        Bool.false_eq_true, if_false]
      exact List.perm_middle.trans (List.Perm.cons _ ih)

theorem perm_cons_filter_ne {l : List Nat} (hnd : l.Nodup) {a : Nat} (ha : a ∈ l) :
    l.Perm (a :: l.filter (· ≠ a)) := by
  have e : l.filter (· ≠ a) = l.erase a := by
    rw [hnd.erase_eq_filter]
    apply List.filter_congr
    intro x _
    by_cases h : x = a <;> simp [h]
  rw [e]
  exact List.perm_cons_erase ha

/-- What the recursion guarantees on a call with list `rem`: the output is a partition of `rem` into non-empty
    buckets; every logged step places every element on the side `w` says; and whenever `w` is the comparison
    of a key `f`, the output is `rem` sorted by `f` with ties exactly on equal keys. -/
structure Good (w : Nat → Nat → Int) (rem : List Nat) (out : List (List Nat)) (log : List (List Nat × Nat)) :
    Prop where
  perm : out.flatten.Perm rem
  nonempty : ∀ b ∈ out, b ≠ []
  steps : ∀ st ∈ log, (∀ e ∈ st.1, e ∈ rem) ∧ st.2 ∈ st.1 ∧
    ∀ e ∈ st.1, e ≠ st.2 → cmpIn out e st.2 = compare (w st.2 e) 0
  sorted : ∀ f : Nat → Nat,
    (∀ p ∈ rem, ∀ e ∈ rem, p ≠ e → w p e = ordToInt (compare (f e) (f p))) →
    ∀ x ∈ rem, ∀ y ∈ rem, cmpIn out x y = compare (f x) (f y)

theorem Good.nil (w : Nat → Nat → Int) : Good w [] [] [] :=
  ⟨by simp, by simp, by simp, by simp⟩

theorem Good.single (w : Nat → Nat → Int) (a : Nat) : Good w [a] [[a]] [] := by
  refine ⟨by simp, by simp, by simp, ?_⟩
  intro f _ x hx y hy
  simp only [List.mem_singleton] at hx hy
  subst hx; subst hy
  rw [cmpIn_eq, compare_nat_nat_iff]
  simp

theorem ordToInt_compare_sign (a b : Nat) :
    (ordToInt (compare a b) < 0 ↔ a < b) ∧ (ordToInt (compare a b) = 0 ↔ a = b) ∧
    (0 < ordToInt (compare a b) ↔ b < a) := by
  rcases cmp_nat_cases a b with ⟨h, e⟩ | ⟨h, e⟩ | ⟨h, e⟩ <;> rw [e] <;> simp [ordToInt] <;> omega

/-- One recursion step: pivot, three-way split, the two sub-results glued around the pivot's bucket. -/
theorem Good.step {w : Nat → Nat → Int} {rem : List Nat} (hnd : rem.Nodup) {piv : Nat} (hp : piv ∈ rem)
    {ob oa : List (List Nat)} {lb la : List (List Nat × Nat)}
    (hb : Good w ((rem.filter (· ≠ piv)).filter fun e => decide (w piv e < 0)) ob lb)
    (ha : Good w ((rem.filter (· ≠ piv)).filter fun e => decide (w piv e > 0)) oa la) :
    Good w rem (ob ++ [piv :: (rem.filter (· ≠ piv)).filter fun e => decide (w piv e = 0)] ++ oa)
      ((rem, piv) :: lb ++ la) := by
  -- membership in the three zones
  have mb : ∀ x, x ∈ ob.flatten ↔ (x ∈ rem ∧ x ≠ piv) ∧ w piv x < 0 := by
    intro x; rw [hb.perm.mem_iff]; simp only [List.mem_filter, decide_eq_true_eq]
  have ma : ∀ x, x ∈ oa.flatten ↔ (x ∈ rem ∧ x ≠ piv) ∧ 0 < w piv x := by
    intro x; rw [ha.perm.mem_iff]; simp only [List.mem_filter, decide_eq_true_eq, gt_iff_lt]
  have ms : ∀ x, x ∈ (piv :: (rem.filter (· ≠ piv)).filter fun e => decide (w piv e = 0)) ↔
      x = piv ∨ ((x ∈ rem ∧ x ≠ piv) ∧ w piv x = 0) := by
    intro x; simp only [List.mem_cons, List.mem_filter, decide_eq_true_eq]
  -- the key of an element of `rem` in the glued output
  have key : ∀ x ∈ rem,
      (x ≠ piv ∧ w piv x < 0 ∧ x ∈ ob.flatten ∧
        bIdx (ob ++ [piv :: (rem.filter (· ≠ piv)).filter fun e => decide (w piv e = 0)] ++ oa) x = bIdx ob x ∧
        bIdx ob x < ob.length) ∨
      ((x = piv ∨ w piv x = 0) ∧
        bIdx (ob ++ [piv :: (rem.filter (· ≠ piv)).filter fun e => decide (w piv e = 0)] ++ oa) x = ob.length) ∨
      (x ≠ piv ∧ 0 < w piv x ∧ x ∈ oa.flatten ∧
        bIdx (ob ++ [piv :: (rem.filter (· ≠ piv)).filter fun e => decide (w piv e = 0)] ++ oa) x =
          ob.length + 1 + bIdx oa x) := by
    intro x hx
    by_cases hxp : x = piv
    · right; left
      have h1 : x ∉ ob.flatten := by rw [mb]; simp [hxp]
      exact ⟨.inl hxp, bIdx_zone1 h1 ((ms x).mpr (.inl hxp))⟩
    · rcases Int.lt_trichotomy (w piv x) 0 with h | h | h
      · left
        have h1 : x ∈ ob.flatten := (mb x).mpr ⟨⟨hx, hxp⟩, h⟩
        exact ⟨hxp, h, h1, bIdx_zone0 h1⟩
      · right; left
        have h1 : x ∉ ob.flatten := by rw [mb]; omega
        exact ⟨.inr h, bIdx_zone1 h1 ((ms x).mpr (.inr ⟨⟨hx, hxp⟩, h⟩))⟩
      · right; right
        have h1 : x ∉ ob.flatten := by rw [mb]; omega
        have h2 : x ∉ (piv :: (rem.filter (· ≠ piv)).filter fun e => decide (w piv e = 0)) := by
          rw [ms]; omega
        have h3 : x ∈ oa.flatten := (ma x).mpr ⟨⟨hx, hxp⟩, h⟩
        exact ⟨hxp, h, h3, bIdx_zone2 h1 h2 h3⟩
  have subB : ∀ x, x ∈ ((rem.filter (· ≠ piv)).filter fun e => decide (w piv e < 0)) → x ∈ rem := by
    intro x hx; simp only [List.mem_filter, decide_eq_true_eq] at hx; exact hx.1.1
  have subA : ∀ x, x ∈ ((rem.filter (· ≠ piv)).filter fun e => decide (w piv e > 0)) → x ∈ rem := by
    intro x hx; simp only [List.mem_filter, decide_eq_true_eq] at hx; exact hx.1.1
  refine ⟨?_, ?_, ?_, ?_⟩
  · -- permutation
    simp only [List.flatten_append, List.flatten_cons, List.flatten_nil, List.append_nil]
    have h1 := (hb.perm.append_right
        (piv :: (rem.filter (· ≠ piv)).filter fun e => decide (w piv e = 0))).append ha.perm
    refine h1.trans ?_
    have h2 := filter3_perm (w piv) (rem.filter (· ≠ piv))
    refine (List.Perm.trans ?_ (List.Perm.cons piv h2)).trans (perm_cons_filter_ne hnd hp).symm
    simp only [List.append_assoc, List.cons_append]
    exact List.perm_middle
  · intro b hb'
    simp only [List.mem_append, List.mem_singleton] at hb'
    rcases hb' with (h | h) | h
    · exact hb.nonempty b h
    · subst h; simp
    · exact ha.nonempty b h
  · intro st hst
    simp only [List.cons_append, List.mem_cons, List.mem_append] at hst
    rcases hst with h | h | h
    · subst h
      refine ⟨fun e he => he, hp, ?_⟩
      intro e he hne
      simp only at he hne ⊢
      rw [cmpIn_eq, compare_nat_int_iff]
      have kp : bIdx (ob ++ [piv :: (rem.filter (· ≠ piv)).filter fun e => decide (w piv e = 0)] ++ oa) piv
          = ob.length := by
        rcases key piv hp with h | h | h
        · exact absurd rfl h.1
        · exact h.2
        · exact absurd rfl h.1
      rw [kp]
      rcases key e he with h | h | h
      · obtain ⟨_, h2, _, h4, h5⟩ := h
        rw [h4]; omega
      · obtain ⟨h1, h2⟩ := h
        have : w piv e = 0 := by rcases h1 with h1 | h1; exact absurd h1 hne; exact h1
        rw [h2]; omega
      · obtain ⟨_, h2, _, h4⟩ := h
        rw [h4]; omega
    · obtain ⟨s1, s2, s3⟩ := hb.steps st h
      refine ⟨fun e he => subB e (s1 e he), s2, ?_⟩
      intro e he hne
      rw [← s3 e he hne, cmpIn_eq, cmpIn_eq]
      have m1 : e ∈ ob.flatten := hb.perm.mem_iff.mpr (s1 e he)
      have m2 : st.2 ∈ ob.flatten := hb.perm.mem_iff.mpr (s1 st.2 s2)
      rw [(bIdx_zone0 m1).1, (bIdx_zone0 m2).1]
    · obtain ⟨s1, s2, s3⟩ := ha.steps st h
      refine ⟨fun e he => subA e (s1 e he), s2, ?_⟩
      intro e he hne
      rw [← s3 e he hne, cmpIn_eq, cmpIn_eq]
      have z : ∀ x, x ∈ ((rem.filter (· ≠ piv)).filter fun e => decide (w piv e > 0)) →
          bIdx (ob ++ [piv :: (rem.filter (· ≠ piv)).filter fun e => decide (w piv e = 0)] ++ oa) x =
            ob.length + 1 + bIdx oa x := by
        intro x hx
        have hx' := hx
        simp only [List.mem_filter, decide_eq_true_eq] at hx'
        rcases key x (subA x hx) with h | h | h
        · omega
        · rcases h.1 with h1 | h1
          · exact absurd h1 hx'.1.2
          · omega
        · exact h.2.2.2
      rw [z e (s1 e he), z st.2 (s1 st.2 s2), compare_nat_nat_iff]
      omega
  · intro f hw x hx y hy
    have hB := hb.sorted f (fun p hp' e he hne => hw p (subB p hp') e (subB e he) hne)
    have hA := ha.sorted f (fun p hp' e he hne => hw p (subA p hp') e (subA e he) hne)
    -- sign of `w piv x` in terms of the key
    have sg : ∀ z ∈ rem, z ≠ piv →
        (w piv z < 0 ↔ f z < f piv) ∧ (w piv z = 0 ↔ f z = f piv) ∧ (0 < w piv z ↔ f piv < f z) := by
      intro z hz hne
      rw [hw piv hp z hz (fun h => hne h.symm)]
      exact ordToInt_compare_sign (f z) (f piv)
    have key' : ∀ z ∈ rem,
        (f z < f piv ∧ z ∈ ((rem.filter (· ≠ piv)).filter fun e => decide (w piv e < 0)) ∧
          bIdx (ob ++ [piv :: (rem.filter (· ≠ piv)).filter fun e => decide (w piv e = 0)] ++ oa) z = bIdx ob z ∧
          bIdx ob z < ob.length) ∨
        (f z = f piv ∧
          bIdx (ob ++ [piv :: (rem.filter (· ≠ piv)).filter fun e => decide (w piv e = 0)] ++ oa) z = ob.length) ∨
        (f piv < f z ∧ z ∈ ((rem.filter (· ≠ piv)).filter fun e => decide (w piv e > 0)) ∧
          bIdx (ob ++ [piv :: (rem.filter (· ≠ piv)).filter fun e => decide (w piv e = 0)] ++ oa) z =
            ob.length + 1 + bIdx oa z) := by
      intro z hz
      rcases key z hz with h | h | h
      · obtain ⟨h1, h2, h3, h4, h5⟩ := h
        left
        exact ⟨((sg z hz h1).1).mp h2, hb.perm.mem_iff.mp h3, h4, h5⟩
      · obtain ⟨h1, h2⟩ := h
        right; left
        refine ⟨?_, h2⟩
        rcases h1 with h1 | h1
        · rw [h1]
        · by_cases hzp : z = piv
          · rw [hzp]
          · exact ((sg z hz hzp).2.1).mp h1
      · obtain ⟨h1, h2, h3, h4⟩ := h
        right; right
        exact ⟨((sg z hz h1).2.2).mp h2, ha.perm.mem_iff.mp h3, h4⟩
    rw [cmpIn_eq, compare_nat_nat_iff]
    rcases key' x hx with h | h | h <;> rcases key' y hy with h' | h' | h'
    · obtain ⟨a1, a2, a3, a4⟩ := h
      obtain ⟨b1, b2, b3, b4⟩ := h'
      have := hB x a2 y b2
      rw [cmpIn_eq, compare_nat_nat_iff] at this
      rw [a3, b3]; exact this
    · obtain ⟨a1, a2, a3, a4⟩ := h
      obtain ⟨b1, b2⟩ := h'
      rw [a3, b2]; omega
    · obtain ⟨a1, a2, a3, a4⟩ := h
      obtain ⟨b1, b2, b3⟩ := h'
      rw [a3, b3]; omega
    · obtain ⟨a1, a2⟩ := h
      obtain ⟨b1, b2, b3, b4⟩ := h'
      rw [a2, b3]; omega
    · obtain ⟨a1, a2⟩ := h
      obtain ⟨b1, b2⟩ := h'
      rw [a2, b2]; omega
    · obtain ⟨a1, a2⟩ := h
      obtain ⟨b1, b2, b3⟩ := h'
      rw [a2, b3]; omega
    · obtain ⟨a1, a2, a3⟩ := h
      obtain ⟨b1, b2, b3, b4⟩ := h'
      rw [a3, b3]; omega
    · obtain ⟨a1, a2, a3⟩ := h
      obtain ⟨b1, b2⟩ := h'
      rw [a3, b2]; omega
    · obtain ⟨a1, a2, a3⟩ := h
      obtain ⟨b1, b2, b3⟩ := h'
      have := hA x a2 y b2
      rw [cmpIn_eq, compare_nat_nat_iff] at this
      rw [a3, b3]; omega

/-- the guarded recursive call of `_kwik_sort` on one side of the pivot. -/
def kwSub (w : Nat → Nat → Int) (fuel : Nat) (l script : List Nat) :
    List (List Nat) × List Nat × List (List Nat × Nat) :=
  if l.length = 1 then ([l], script, [])
  else if l.length > 0 then kwikSort w fuel l script
  else ([], script, [])

theorem kwikSort_succ_cons (w : Nat → Nat → Int) (fuel r0 : Nat) (rest script : List Nat) :
    kwikSort w (fuel + 1) (r0 :: rest) script =
      (let rem := r0 :: rest
       let piv := rem.getD (script.headD 0 % rem.length) r0
       let others := rem.filter (· ≠ piv)
       let rb := kwSub w fuel (others.filter fun e => decide (w piv e < 0)) script.tail
       let ra := kwSub w fuel (others.filter fun e => decide (w piv e > 0)) rb.2.1
       (rb.1 ++ [piv :: others.filter fun e => decide (w piv e = 0)] ++ ra.1, ra.2.1,
         (rem, piv) :: rb.2.2 ++ ra.2.2)) := rfl

theorem kwSub_good {w : Nat → Nat → Int} {fuel : Nat}
    (ih : ∀ (rem script : List Nat), rem.Nodup → rem.length ≤ fuel →
      Good w rem (kwikSort w fuel rem script).1 (kwikSort w fuel rem script).2.2)
    (l script : List Nat) (hnd : l.Nodup) (hl : l.length ≤ fuel) :
    Good w l (kwSub w fuel l script).1 (kwSub w fuel l script).2.2 := by
  unfold kwSub
  by_cases h1 : l.length = 1
  · obtain ⟨a, rfl⟩ := List.length_eq_one_iff.mp h1
    simpa using Good.single w a
  · by_cases h2 : l.length > 0
    · simp only [h1, h2, if_false, if_true]
      exact ih l script hnd hl
    · have : l = [] := List.eq_nil_of_length_eq_zero (by omega)
      subst this
      simpa using Good.nil w

theorem kwikSort_good (w : Nat → Nat → Int) (fuel : Nat) :
    ∀ (rem script : List Nat), rem.Nodup → rem.length ≤ fuel →
      Good w rem (kwikSort w fuel rem script).1 (kwikSort w fuel rem script).2.2 := by
  induction fuel with
  | zero =>
    intro rem script _ hl
    have : rem = [] := List.eq_nil_of_length_eq_zero (by omega)
    subst this
    exact Good.nil w
  | succ fuel ih =>
    intro rem script hnd hl
    cases rem with
    | nil => exact Good.nil w
    | cons r0 rest =>
      rw [kwikSort_succ_cons]
      have hp : (r0 :: rest).getD (script.headD 0 % (r0 :: rest).length) r0 ∈ r0 :: rest := by
        have hlt : script.headD 0 % (r0 :: rest).length < (r0 :: rest).length :=
          Nat.mod_lt _ (by simp)
        rw [getD_of_lt _ _ _ hlt]
        exact List.getElem_mem hlt
      dsimp only
      generalize (r0 :: rest).getD (script.headD 0 % (r0 :: rest).length) r0 = piv at hp ⊢
      generalize r0 :: rest = rem at hnd hl hp ⊢
      have hfl : ∀ q : Nat → Bool, ((rem.filter (· ≠ piv)).filter q).length ≤ fuel := by
        intro q
        have h1 := List.length_filter_le q (rem.filter (· ≠ piv))
        have h2 := (perm_cons_filter_ne hnd hp).length_eq
        simp only [List.length_cons] at h2
        omega
      have hfn : ∀ q : Nat → Bool, ((rem.filter (· ≠ piv)).filter q).Nodup :=
        fun q => (hnd.sublist List.filter_sublist).sublist List.filter_sublist
      exact Good.step hnd hp (kwSub_good ih _ _ (hfn _) (hfl _)) (kwSub_good ih _ _ (hfn _) (hfl _))

/-! ### Part 4: from ids to elements -/

theorem bucketIdx_map_inj (g : Nat → Nat) (r : Ranking) (x : Nat)
    (hinj : ∀ y ∈ r.flatten, g y = g x → y = x) :
    bucketIdx (r.map (List.map g)) (g x) = bucketIdx r x := by
  induction r with
  | nil => rfl
  | cons b bs ih =>
    have hm : g x ∈ b.map g ↔ x ∈ b := by
      constructor
      · intro h
        obtain ⟨y, hy, e⟩ := List.mem_map.mp h
        have := hinj y (by simp [hy]) e
        rwa [this] at hy
      · exact fun h => List.mem_map.mpr ⟨x, h, rfl⟩
    have ih' := ih (fun y hy => hinj y (by simp [hy]))
    simp only [List.map_cons, bucketIdx, ih']
    by_cases hx : x ∈ b
    · simp [hx, hm.mpr hx]
    · have : ¬ g x ∈ b.map g := fun h => hx (hm.mp h)
      simp [hx, this]

theorem cmpIn_map_inj (g : Nat → Nat) (r : Ranking) (x y : Nat)
    (hinj : ∀ a b, (a ∈ r.flatten ∨ a = x ∨ a = y) → (b ∈ r.flatten ∨ b = x ∨ b = y) → g a = g b → a = b) :
    cmpIn (r.map (List.map g)) (g x) (g y) = cmpIn r x y := by
  unfold cmpIn
  rw [bucketIdx_map_inj g r x (fun a ha e => hinj a x (.inl ha) (.inr (.inl rfl)) e),
      bucketIdx_map_inj g r y (fun a ha e => hinj a y (.inl ha) (.inr (.inr rfl)) e)]

theorem wellFormed_of_perm {univ : List Elem} {r : Ranking} (hp : r.flatten.Perm univ) (hnd : univ.Nodup)
    (hne : ∀ b ∈ r, b ≠ []) : wellFormedRanking univ r = true := by
  unfold wellFormedRanking
  simp only [Bool.and_eq_true, List.all_eq_true, decide_eq_true_eq, List.contains_iff_mem]
  refine ⟨⟨⟨?_, hp.nodup_iff.mpr hnd⟩, fun x hx => hp.mem_iff.mp hx⟩, fun x hx => hp.mem_iff.mpr hx⟩
  intro b hb
  have := hne b hb
  cases b with
  | nil => exact absurd rfl this
  | cons _ _ => rfl

theorem ordToInt_compare_whereSpec (S : Scheme) (D : Dataset) (p e : Elem) :
    ordToInt (compare (whereSpec S D p e) 0) = whereSpec S D p e := by
  unfold whereSpec
  dsimp only
  repeat' split
  all_goals decide

/-- row `i` of the position matrix. -/
theorem getPositions_getD (D : Dataset) (i : Nat) (hi : i < (univOf D).length) :
    (getPositions D).getD i [] = D.map (posIn · ((univOf D).getD i 0)) := by
  unfold getPositions
  rw [getD_map_of_lt _ _ _ _ hi, getD_of_lt _ _ _ hi]

theorem whereShouldItBe_getPositions (S : Scheme) (D : Dataset) (i j : Nat)
    (hi : i < (univOf D).length) (hj : j < (univOf D).length) :
    whereShouldItBe S ((getPositions D).getD i []) ((getPositions D).getD j []) =
      whereSpec S D ((univOf D).getD i 0) ((univOf D).getD j 0) := by
  rw [getPositions_getD D i hi, getPositions_getD D j hj, whereShouldItBe_rows]

theorem univ_getD_inj (D : Dataset) {i j : Nat} (hi : i < (univOf D).length) (hj : j < (univOf D).length)
    (h : (univOf D).getD i 0 = (univOf D).getD j 0) : i = j := by
  rw [getD_of_lt _ _ _ hi, getD_of_lt _ _ _ hj] at h
  exact Classical.byContradiction fun hne => nodup_getElem_ne (univOf_nodup D) hi hj hne h

/-- The id-level run behind `kwikSortDataset`, with its guarantee. -/
theorem kwikSortDataset_good (S : Scheme) (D : Dataset) (order : List Nat)
    (horder : order.Perm (List.range (univOf D).length)) (script : List Nat) :
    ∃ out log,
      Good (fun p e => whereShouldItBe S ((getPositions D).getD p []) ((getPositions D).getD e []))
        order out log ∧
      (kwikSortDataset S D order script).1 = out.map (List.map fun i => (univOf D).getD i 0) ∧
      (kwikSortDataset S D order script).2 =
        log.map fun st => (st.1.map fun i => (univOf D).getD i 0, (univOf D).getD st.2 0) :=
  ⟨_, _, kwikSort_good _ order.length order script (horder.nodup_iff.mpr List.nodup_range) (Nat.le_refl _),
    rfl, rfl⟩

section Dataset
variable (S : Scheme) (D : Dataset) (order : List Nat)
  (horder : order.Perm (List.range (univOf D).length)) (script : List Nat)
include horder

theorem kwikSortDataset_wellFormed :
    wellFormedRanking (univOf D) (kwikSortDataset S D order script).1 = true := by
  obtain ⟨out, log, hg, e1, -⟩ := kwikSortDataset_good S D order horder script
  rw [e1]
  apply wellFormed_of_perm
  · rw [← List.map_flatten]
    have := ((hg.perm.trans horder).map fun i => (univOf D).getD i 0)
    rwa [map_getD_range] at this
  · exact univOf_nodup D
  · intro b hb
    obtain ⟨b0, hb0, rfl⟩ := List.mem_map.mp hb
    have := hg.nonempty b0 hb0
    cases b0 with
    | nil => exact absurd rfl this
    | cons _ _ => simp

theorem kwikSortDataset_steps :
    ∀ st ∈ (kwikSortDataset S D order script).2, ∀ e ∈ st.1, e ≠ st.2 →
      ordToInt (cmpIn (kwikSortDataset S D order script).1 e st.2) = whereSpec S D st.2 e := by
  obtain ⟨out, log, hg, e1, e2⟩ := kwikSortDataset_good S D order horder script
  rw [e1, e2]
  have hlt : ∀ i ∈ order, i < (univOf D).length := fun i hi => List.mem_range.mp (horder.mem_iff.mp hi)
  intro st hst e he hne
  obtain ⟨st0, hst0, rfl⟩ := List.mem_map.mp hst
  obtain ⟨e0, he0, rfl⟩ := List.mem_map.mp he
  obtain ⟨s1, s2, s3⟩ := hg.steps st0 hst0
  have hne0 : e0 ≠ st0.2 := fun h => hne (by rw [h])
  have l1 := hlt e0 (s1 e0 he0)
  have l2 := hlt st0.2 (s1 st0.2 s2)
  dsimp only
  rw [cmpIn_map_inj, s3 e0 he0 hne0, whereShouldItBe_getPositions S D _ _ l2 l1,
    ordToInt_compare_whereSpec]
  intro a b ha hb hab
  have la : a < (univOf D).length := by
    rcases ha with h | h | h
    · exact hlt a (hg.perm.mem_iff.mp h)
    · rw [h]; exact l1
    · rw [h]; exact l2
  have lb : b < (univOf D).length := by
    rcases hb with h | h | h
    · exact hlt b (hg.perm.mem_iff.mp h)
    · rw [h]; exact l1
    · rw [h]; exact l2
  exact univ_getD_inj D la lb hab

theorem kwikSortDataset_sorted (f : Elem → Nat)
    (hf : ∀ p ∈ univOf D, ∀ e ∈ univOf D, p ≠ e → whereSpec S D p e = ordToInt (compare (f e) (f p))) :
    ∀ x ∈ univOf D, ∀ y ∈ univOf D,
      cmpIn (kwikSortDataset S D order script).1 x y = compare (f x) (f y) := by
  obtain ⟨out, log, hg, e1, -⟩ := kwikSortDataset_good S D order horder script
  rw [e1]
  have hlt : ∀ i ∈ order, i < (univOf D).length := fun i hi => List.mem_range.mp (horder.mem_iff.mp hi)
  have hmem : ∀ i, i < (univOf D).length → i ∈ order :=
    fun i hi => horder.mem_iff.mpr (List.mem_range.mpr hi)
  have hgm : ∀ i, i < (univOf D).length → (univOf D).getD i 0 ∈ univOf D := by
    intro i hi; rw [getD_of_lt _ _ _ hi]; exact List.getElem_mem hi
  have hs := hg.sorted (fun i => f ((univOf D).getD i 0)) (by
    intro p hp e he hne
    have lp := hlt p hp
    have le := hlt e he
    rw [whereShouldItBe_getPositions S D _ _ lp le]
    exact hf _ (hgm p lp) _ (hgm e le) (fun h => hne (univ_getD_inj D lp le h)))
  intro x hx y hy
  obtain ⟨i, hi, rfl⟩ := List.mem_iff_getElem.mp hx
  obtain ⟨j, hj, rfl⟩ := List.mem_iff_getElem.mp hy
  have := hs i (hmem i hi) j (hmem j hj)
  simp only [getD_of_lt _ _ _ hi, getD_of_lt _ _ _ hj] at this
  rw [← this, ← getD_of_lt _ _ 0 hi, ← getD_of_lt _ _ 0 hj]
  apply cmpIn_map_inj
  intro a b ha hb hab
  have la : a < (univOf D).length := by
    rcases ha with h | h | h
    · exact hlt a (hg.perm.mem_iff.mp h)
    · rw [h]; exact hi
    · rw [h]; exact hj
  have lb : b < (univOf D).length := by
    rcases hb with h | h | h
    · exact hlt b (hg.perm.mem_iff.mp h)
    · rw [h]; exact hi
    · rw [h]; exact hj
  exact univ_getD_inj D la lb hab

end Dataset

/-! ### Part 5: coherent datasets, unanimous datasets -/

theorem coherent_key (S : Scheme) (D : Dataset) (hc : coherent S D = true) :
    ∀ p ∈ univOf D, ∀ e ∈ univOf D, p ≠ e →
      whereSpec S D p e = ordToInt (compare (cntBefore S D e) (cntBefore S D p)) := by
  unfold coherent at hc
  simp only [List.all_eq_true, Bool.or_eq_true, beq_iff_eq] at hc
  intro p hp e he hne
  rcases hc e he p hp with h | h
  · exact absurd h.symm hne
  · exact h

theorem ordersBy_of_sorted {univ : List Elem} {out : Ranking} (f : Elem → Nat)
    (hw : wellFormedRanking univ out = true)
    (hs : ∀ x ∈ univ, ∀ y ∈ univ, cmpIn out x y = compare (f x) (f y)) :
    ordersBy univ (fun x y => decide (f x ≤ f y)) out = true := by
  unfold ordersBy
  simp only [hw, Bool.true_and, List.all_eq_true]
  intro x hx y hy
  rw [hs x hx y hy]
  rcases cmp_nat_cases (f x) (f y) with ⟨h, e⟩ | ⟨h, e⟩ | ⟨h, e⟩ <;> rw [e] <;> simp <;> omega

theorem isum_map_replicate {α : Type} (f : α → Int) (m : Nat) (a : α) :
    isum ((List.replicate m a).map f) = m * f a := by
  induction m with
  | zero => simp
  | succ m ih =>
    simp only [List.replicate_succ, List.map_cons, isum_cons, ih, Int.natCast_add, Int.add_mul]
    omega

theorem mem_univOf_replicate {r : Ranking} {m : Nat} (hm : 0 < m) (x : Elem) :
    x ∈ univOf (List.replicate m r) ↔ x ∈ r.flatten := by
  unfold univOf
  rw [mem_dedup]
  simp only [List.mem_flatten, List.mem_replicate]
  constructor
  · rintro ⟨l, ⟨r', ⟨_, rfl⟩, hl⟩, hx⟩
    exact ⟨l, hl, hx⟩
  · rintro ⟨l, hl, hx⟩
    exact ⟨l, ⟨r, ⟨by omega, rfl⟩, hl⟩, hx⟩

/-- On `m` copies of one ranking every cheapest placement is the placement in that ranking, as soon as
    creating a tie (`t0 > 0`) and breaking one (`b2 > 0`) both cost something. -/
theorem whereSpec_replicate (S : Scheme) (hS : S.Valid) (ht : 0 < S.t0) (hb : 0 < S.b2)
    (r : Ranking) (m : Nat) (hm : 0 < m) (p e : Elem) (hp : p ∈ r.flatten) (he : e ∈ r.flatten) :
    whereSpec S (List.replicate m r) p e = ordToInt (compare (bIdx r e) (bIdx r p)) := by
  obtain ⟨-, -, -, -, -, -, -, -, -, -, -, -, hb0, hb1, -, ht01, ht2, -⟩ := hS
  obtain ⟨i, hi⟩ := bucketIdx_isSome he
  obtain ⟨j, hj⟩ := bucketIdx_isSome hp
  have hM : (0 : Int) < m := by omega
  have f1 : 0 < (m : Int) * S.b1 := Int.mul_pos hM hb1
  have f2 : 0 < (m : Int) * S.t0 := Int.mul_pos hM ht
  have f3 : 0 < (m : Int) * S.b2 := Int.mul_pos hM hb
  have f4 : (m : Int) * S.b0 = 0 := by rw [hb0]; simp
  have f5 : (m : Int) * S.t2 = 0 := by rw [ht2]; simp
  have f6 : (m : Int) * S.t1 = (m : Int) * S.t0 := by rw [ht01]
  unfold whereSpec before after tied bIdx
  simp only [isum_map_replicate, status, hi, hj, Option.getD_some]
  rcases cmp_nat_cases i j with ⟨h, e'⟩ | ⟨h, e'⟩ | ⟨h, e'⟩ <;> rw [e']
  · have hn : ¬ j < i := by omega
    simp only [h, hn, if_true, if_false, Scheme.B, Scheme.T, ordToInt]
    repeat' split
    all_goals omega
  · subst h
    simp only [Nat.lt_irrefl, if_false, Scheme.B, Scheme.T, ordToInt]
    repeat' split
    all_goals omega
  · have hn : ¬ i < j := by omega
    simp only [h, hn, if_true, if_false, Scheme.B, Scheme.T, ordToInt]
    repeat' split
    all_goals omega

end Corankco
