import Corankco.Spec.C19
import Mathlib.Tactic.Ring
import Mathlib.Tactic.LinearCombination
/-
  C19 — helper lemmas for the scoring-scheme properties.
-/
namespace Corankco
namespace C19
open Model

/-! ### Constructor -/

/-- "a non-negative number" (definitionally the predicate used by `Spec.numsOK`). -/
def penOK (scale : Int) : PyVal → Bool :=
  fun p => match p.num? scale with | some x => decide (0 ≤ x) | none => false

/-- numeric value, 0 for a non-number (definitionally the function used by `Spec.values`). -/
def penVal (scale : Int) : PyVal → Int := fun p => (p.num? scale).getD 0

theorem numsOK_eq (scale : Int) (v : PyVal) : Spec.numsOK scale v = (Spec.entries v).all (penOK scale) := rfl
theorem values_eq (scale : Int) (v : PyVal) : Spec.values scale v = (Spec.entries v).map (penVal scale) := rfl

theorem penVal_nonneg (scale : Int) (p : PyVal) (h : penOK scale p = true) : 0 ≤ penVal scale p := by
  unfold penOK at h; unfold penVal
  cases hn : p.num? scale with
  | none => simp [hn] at h
  | some x => simpa [hn] using h

theorem readPens_eq (scale : Int) (l : List PyVal) :
    readPens scale l =
      if l.all (penOK scale) then .ok (l.map (penVal scale)) else .error .nonReal := by
  induction l with
  | nil => rfl
  | cons p ps ih =>
    simp only [readPens, List.all_cons, List.map_cons]
    cases hn : p.num? scale with
    | none => simp [penOK, hn]
    | some x =>
      by_cases hx : x < 0
      · have : ¬ 0 ≤ x := by omega
        simp [penOK, hn, hx, this]
      · have h0 : 0 ≤ x := by omega
        simp only [hx, if_false, ih]
        by_cases hall : ps.all (penOK scale) = true
        · simp [penOK, penVal, hn, h0, hall]
        · simp [penOK, hn, h0, hall]

theorem getD_nonneg (l : List Int) (h : ∀ x ∈ l, 0 ≤ x) (i : Nat) : 0 ≤ l.getD i 0 := by
  rw [List.getD_eq_getElem?_getD]
  cases hx : l[i]? with
  | none => simp
  | some x => simpa using h x (List.mem_of_getElem? hx)

theorem map_penVal_nonneg (scale : Int) (l : List PyVal) (h : l.all (penOK scale) = true) :
    ∀ x ∈ l.map (penVal scale), 0 ≤ x := by
  intro x hx
  rw [List.mem_map] at hx
  obtain ⟨p, hp, rfl⟩ := hx
  exact penVal_nonneg scale p (List.all_eq_true.mp h p hp)

/-- The checks in code order agree with the documented constraints once penalties are non-negative. -/
theorem assocOK_eq (S : Scheme) (hb0 : 0 ≤ S.b0) (hb1 : 0 ≤ S.b1) (ht2 : 0 ≤ S.t2) :
    assocOK S = Spec.constraintsOK S := by
  rw [Bool.eq_iff_iff]
  simp only [assocOK, Spec.constraintsOK, Bool.and_eq_true, Bool.not_eq_true', Bool.or_eq_false_iff,
    bne_eq_false_iff_eq, decide_eq_false_iff_not, beq_iff_eq, decide_eq_true_eq, beq_eq_false_iff_ne]
  omega

theorem constraintsOK_valid (S : Scheme) (h : Spec.constraintsOK S = true)
    (hb : ∀ x ∈ S.bList, 0 ≤ x) (ht : ∀ x ∈ S.tList, 0 ≤ x) : S.Valid := by
  simp only [Spec.constraintsOK, Bool.and_eq_true, beq_iff_eq, decide_eq_true_eq] at h
  simp only [Scheme.bList, Scheme.tList, List.mem_cons, List.not_mem_nil, or_false, forall_eq_or_imp,
    forall_eq] at hb ht
  unfold Scheme.Valid
  omega

theorem valid_assocOK (S : Scheme) (h : S.Valid) : assocOK S = true := by
  unfold Scheme.Valid at h
  rw [assocOK_eq S (by omega) (by omega) (by omega)]
  simp only [Spec.constraintsOK, Bool.and_eq_true, beq_iff_eq, decide_eq_true_eq]
  omega

theorem ofLists_bList (b t : List Int) (hb : b.length = 6) : (Scheme.ofLists b t).bList = b := by
  match b, hb with
  | [_, _, _, _, _, _], _ => rfl

theorem ofLists_tList (b t : List Int) (ht : t.length = 6) : (Scheme.ofLists b t).tList = t := by
  match t, ht with
  | [_, _, _, _, _, _], _ => rfl

/-- The main case of the constructor: a list of two lists. -/
theorem newScheme_two_lists (scale : Int) (l0 l1 : List PyVal) :
    newScheme scale (.list [.list l0, .list l1]) = Spec.newSpec scale (.list [.list l0, .list l1]) := by
  simp only [newScheme, PyVal.asList?, Spec.newSpec, numsOK_eq, values_eq, Spec.shapeOK, Spec.entries]
  by_cases h0 : l0.length = 6
  · by_cases h1 : l1.length = 6
    · have ht : (List.map (penVal scale) (l0 ++ l1)).take 6 = l0.map (penVal scale) := by
        rw [List.map_append]; exact List.take_left' (by simp [h0])
      have hd : (List.map (penVal scale) (l0 ++ l1)).drop 6 = l1.map (penVal scale) := by
        rw [List.map_append]; exact List.drop_left' (by simp [h0])
      simp only [h0, h1, readPens_eq, List.all_append, ht, hd]
      by_cases a0 : l0.all (penOK scale) = true
      · by_cases a1 : l1.all (penOK scale) = true
        · have nb := map_penVal_nonneg scale l0 a0
          have nt := map_penVal_nonneg scale l1 a1
          have e : assocOK (Scheme.ofLists (l0.map (penVal scale)) (l1.map (penVal scale))) =
              Spec.constraintsOK (Scheme.ofLists (l0.map (penVal scale)) (l1.map (penVal scale))) :=
            assocOK_eq _ (getD_nonneg _ nb 0) (getD_nonneg _ nb 1) (getD_nonneg _ nt 2)
          simp [a0, a1, e]
        · simp [a0, a1]
      · simp [a0]
    · simp [h0, h1]
  · simp [h0]

/-! ### Multiplication, homogeneity -/

theorem scale_valid (S : Scheme) (hS : S.Valid) (k : Int) (hk : 0 < k) : (Scheme.scale k S).Valid := by
  unfold Scheme.Valid at hS
  obtain ⟨a0, a1, a2, a3, a4, a5, c0, c1, c2, c3, c4, c5, e0, p1, l34, e01, e2, e34⟩ := hS
  have hk' : 0 ≤ k := Int.le_of_lt hk
  unfold Scheme.Valid Scheme.scale
  refine ⟨Int.mul_nonneg hk' a0, Int.mul_nonneg hk' a1, Int.mul_nonneg hk' a2, Int.mul_nonneg hk' a3,
    Int.mul_nonneg hk' a4, Int.mul_nonneg hk' a5, Int.mul_nonneg hk' c0, Int.mul_nonneg hk' c1,
    Int.mul_nonneg hk' c2, Int.mul_nonneg hk' c3, Int.mul_nonneg hk' c4, Int.mul_nonneg hk' c5,
    ?_, Int.mul_pos hk p1, Int.mul_le_mul_of_nonneg_left l34 hk', ?_, ?_, ?_⟩
  · simp [e0]
  · simp [e01]
  · simp [e2]
  · simp [e34]

theorem ofNums_valid (S : Scheme) (h : S.Valid) : ofNums S = .ok S := by
  have ha := valid_assocOK S h
  unfold Scheme.Valid at h
  have hb : S.bList.any (· < 0) = false := by
    simp only [Scheme.bList, List.any_cons, List.any_nil, Bool.or_false, Bool.or_eq_false_iff,
      decide_eq_false_iff_not]
    omega
  have ht : S.tList.any (· < 0) = false := by
    simp only [Scheme.tList, List.any_cons, List.any_nil, Bool.or_false, Bool.or_eq_false_iff,
      decide_eq_false_iff_not]
    omega
  simp [ofNums, hb, ht, ha]

theorem scale_B (k : Int) (S : Scheme) (i : Nat) : (Scheme.scale k S).B i = k * S.B i := by
  match i with
  | 0 | 1 | 2 | 3 | 4 | 5 => rfl
  | _ + 6 => simp [Scheme.B]

theorem scale_T (k : Int) (S : Scheme) (i : Nat) : (Scheme.scale k S).T i = k * S.T i := by
  match i with
  | 0 | 1 | 2 | 3 | 4 | 5 => rfl
  | _ + 6 => simp [Scheme.T]

theorem isum_map_mul {α : Type} (k : Int) (f : α → Int) (l : List α) :
    isum (l.map fun a => k * f a) = k * isum (l.map f) := by
  induction l with
  | nil => simp [isum]
  | cons a as ih => simp only [List.map_cons, isum, ih, Int.mul_add]

theorem pen_scale (k : Int) (S : Scheme) (r c : Ranking) (x y : Elem) :
    Spec.pen (Scheme.scale k S) r c x y = k * Spec.pen S r c x y := by
  unfold Spec.pen
  split
  · split
    · exact scale_B ..
    · split
      · exact scale_B ..
      · exact scale_T ..
  · simp

theorem kemenyOne_scale (k : Int) (S : Scheme) (c r : Ranking) :
    Spec.kemenyOne (Scheme.scale k S) c r = k * Spec.kemenyOne S c r := by
  unfold Spec.kemenyOne
  rw [← isum_map_mul]
  congr 1
  apply List.map_congr_left
  intro p _
  exact pen_scale ..

/-! ### Proportionality scan -/

/-- same zero pattern -/
def ZP (l1 l2 : List Int) : Prop := ∀ p ∈ l1.zip l2, (p.1 = 0 ↔ p.2 = 0)

/-- all cross products agree -/
def Cross (l1 l2 : List Int) : Prop := ∀ p ∈ l1.zip l2, ∀ q ∈ l1.zip l2, p.1 * q.2 = q.1 * p.2

theorem proportional_iff_ZP_Cross (l1 l2 : List Int) :
    Spec.proportional l1 l2 = true ↔ ZP l1 l2 ∧ Cross l1 l2 := by
  simp [Spec.proportional, ZP, Cross, List.all_eq_true]

/-- cancellation: two pairs that are each proportional to a non-degenerate pivot are proportional to each other -/
theorem cross_of_pivot {a b p1 p2 q1 q2 : Int} (ha : a ≠ 0) (hb : b ≠ 0)
    (hp : p1 * b = a * p2) (hq : q1 * b = a * q2) : p1 * q2 = q1 * p2 := by
  have h : (p1 * q2 - q1 * p2) * (a * b) = 0 := by
    linear_combination (q2 * a) * hp - (p2 * a) * hq
  rcases Int.mul_eq_zero.mp h with h | h
  · omega
  · rcases Int.mul_eq_zero.mp h with h | h
    · exact absurd h ha
    · exact absurd h hb

/-- the scan with a coefficient already set -/
theorem equivScan_some (c1 c2 : Int) (l1 l2 : List Int) :
    (equivScan (some (c1, c2)) l1 l2 = some (some (c1, c2)) ∨ equivScan (some (c1, c2)) l1 l2 = none) ∧
    ((equivScan (some (c1, c2)) l1 l2).isSome = true ↔
      ZP l1 l2 ∧ ∀ p ∈ l1.zip l2, p.1 ≠ 0 → p.1 * c2 = c1 * p.2) := by
  induction l1 generalizing l2 with
  | nil => simp [equivScan, ZP]
  | cons a as ih =>
    cases l2 with
    | nil => simp [equivScan, ZP]
    | cons b bs =>
      simp only [equivScan, equivStep]
      by_cases ha : a = 0
      · by_cases hb : b = 0
        · subst ha; subst hb
          simp only [ne_eq, not_true_eq_false, if_true, if_false]
          refine ⟨(ih bs).1, ?_⟩
          rw [(ih bs).2]
          simp [ZP]
        · subst ha
          simp [hb, ZP]
      · by_cases hb : b = 0
        · subst hb
          simp [ha, ZP]
        · by_cases hc : a * c2 = c1 * b
          · simp only [ha, hb, hc, ne_eq, not_true_eq_false, if_false]
            refine ⟨(ih bs).1, ?_⟩
            rw [(ih bs).2]
            simp [ZP, ha, hb, hc]
          · simp [ha, hb, hc, ZP]

/-- the scan from the unset coefficient: succeeds iff zero patterns agree and all cross products agree -/
theorem equivScan_none (l1 l2 : List Int) :
    (equivScan none l1 l2).isSome = true ↔ ZP l1 l2 ∧ Cross l1 l2 := by
  induction l1 generalizing l2 with
  | nil => simp [equivScan, ZP, Cross]
  | cons a as ih =>
    cases l2 with
    | nil => simp [equivScan, ZP, Cross]
    | cons b bs =>
      simp only [equivScan, equivStep]
      by_cases ha : a = 0
      · by_cases hb : b = 0
        · subst ha; subst hb
          simp only [ne_eq, not_true_eq_false, if_true, if_false]
          rw [ih bs]
          simp [ZP, Cross]
        · subst ha
          simp [hb, ZP]
      · by_cases hb : b = 0
        · subst hb
          simp [ha, ZP]
        · simp only [ha, hb, ne_eq, if_false]
          rw [(equivScan_some a b as bs).2]
          constructor
          · rintro ⟨hz, hp⟩
            have hz' : ZP (a :: as) (b :: bs) := by
              intro p hp'
              simp only [List.zip_cons_cons, List.mem_cons] at hp'
              rcases hp' with rfl | hp'
              · simp [ha, hb]
              · exact hz p hp'
            refine ⟨hz', ?_⟩
            -- every pair is proportional to the pivot (a, b)
            have piv : ∀ p ∈ (a :: as).zip (b :: bs), p.1 * b = a * p.2 := by
              intro p hp'
              simp only [List.zip_cons_cons, List.mem_cons] at hp'
              rcases hp' with rfl | hp'
              · rfl
              · by_cases h0 : p.1 = 0
                · have := (hz p hp').mp h0
                  simp [h0, this]
                · exact hp p hp' h0
            intro p hp' q hq'
            exact cross_of_pivot ha hb (piv p hp') (piv q hq')
          · rintro ⟨hz, hc⟩
            refine ⟨fun p hp' => hz p (by simp [hp']), ?_⟩
            intro p hp' _
            have := hc p (by simp [hp']) (a, b) (by simp)
            simpa using this

theorem equivScan_append (co : Coef) (a1 b1 a2 b2 : List Int) (h : a1.length = b1.length) :
    equivScan co (a1 ++ a2) (b1 ++ b2) =
      match equivScan co a1 b1 with
      | none => none
      | some co' => equivScan co' a2 b2 := by
  induction a1 generalizing b1 co with
  | nil =>
    cases b1 with
    | nil => cases a2 <;> simp [equivScan]
    | cons _ _ => simp at h
  | cons x xs ih =>
    cases b1 with
    | nil => simp at h
    | cons y ys =>
      simp only [List.cons_append, equivScan]
      cases equivStep co x y with
      | none => rfl
      | some co' => exact ih co' ys (by simpa using h)

theorem equivGen_eq_scan (stop : Nat) (S1 S2 : Scheme) :
    equivGen stop S1 S2 =
      (equivScan none (S1.bList.take stop ++ S1.tList.take stop)
        (S2.bList.take stop ++ S2.tList.take stop)).isSome := by
  rw [equivScan_append _ _ _ _ _ (by simp [Scheme.bList])]
  unfold equivGen
  cases equivScan none (S1.bList.take stop) (S2.bList.take stop) <;> rfl

theorem scan_eq_proportional (l1 l2 : List Int) :
    (equivScan none l1 l2).isSome = Spec.proportional l1 l2 := by
  rw [Bool.eq_iff_iff, equivScan_none, proportional_iff_ZP_Cross]

/-! ### Proportionality by a rational factor -/

theorem proportional_of_factor (l1 l2 : List Int) (k1 k2 : Int) (h1 : 0 < k1) (h2 : 0 < k2)
    (h : ∀ p ∈ l1.zip l2, k2 * p.1 = k1 * p.2) : Spec.proportional l1 l2 = true := by
  rw [proportional_iff_ZP_Cross]
  have n1 : k1 ≠ 0 := by omega
  have n2 : k2 ≠ 0 := by omega
  constructor
  · intro p hp
    have e := h p hp
    constructor
    · intro h0
      rw [h0, Int.mul_zero] at e
      rcases Int.mul_eq_zero.mp e.symm with h | h
      · exact absurd h n1
      · exact h
    · intro h0
      rw [h0, Int.mul_zero] at e
      rcases Int.mul_eq_zero.mp e with h | h
      · exact absurd h n2
      · exact h
  · intro p hp q hq
    have ep := h p hp
    have eq := h q hq
    have hh : (p.1 * q.2 - q.1 * p.2) * (k1 * k2) = 0 := by
      linear_combination (k1 * q.2) * ep - (k1 * p.2) * eq
    rcases Int.mul_eq_zero.mp hh with h | h
    · omega
    · rcases Int.mul_eq_zero.mp h with h | h
      · exact absurd h n1
      · exact absurd h n2

theorem factor_of_proportional (l1 l2 : List Int) (hlen : l1.length = l2.length)
    (hnz : ∃ x ∈ l1, x ≠ 0) (hnn1 : ∀ x ∈ l1, 0 ≤ x) (hnn2 : ∀ x ∈ l2, 0 ≤ x)
    (h : Spec.proportional l1 l2 = true) :
    ∃ k1 k2 : Int, 0 < k1 ∧ 0 < k2 ∧ ∀ p ∈ l1.zip l2, k2 * p.1 = k1 * p.2 := by
  rw [proportional_iff_ZP_Cross] at h
  obtain ⟨hz, hc⟩ := h
  obtain ⟨x, hx, hx0⟩ := hnz
  obtain ⟨i, hi, rfl⟩ := List.getElem_of_mem hx
  have hi2 : i < l2.length := by omega
  have hm : (l1[i], l2[i]) ∈ l1.zip l2 := by
    rw [List.mem_iff_getElem]
    exact ⟨i, by simp [hi, hi2], by simp⟩
  have hy0 : l2[i] ≠ 0 := fun e => hx0 ((hz _ hm).mpr e)
  have px : 0 ≤ l1[i] := hnn1 _ (List.getElem_mem hi)
  have py : 0 ≤ l2[i] := hnn2 _ (List.getElem_mem hi2)
  refine ⟨l1[i], l2[i], by omega, by omega, ?_⟩
  intro p hp
  have := hc p hp _ hm
  simp only at this
  rw [Int.mul_comm l2[i] p.1]; exact this

end C19
end Corankco
