import Corankco.Model.Parse
/-
  C18 (round trip): lemmas on the Python string primitives of `Model/Parse.lean` over concatenations, the bucket
  parser, the `scanLoop` invariant, and `parseTies` on well-formed text.
-/
namespace Corankco
open Model

namespace C18R

/-! ### decimal text -/

theorem intRepr_ofNat (n : Nat) : intRepr (Int.ofNat n) = Nat.toDigits 10 n := by
  simp [intRepr, Int.repr_eq_if]

theorem digitsVal_eq (l : List Char) : digitsVal l = Nat.ofDigitChars 10 l 0 := by
  unfold digitsVal Nat.ofDigitChars
  congr 1
  funext a c
  omega

theorem isDigit_of_mem_intRepr {n : Nat} {c : Char} (h : c ∈ intRepr (Int.ofNat n)) : c.isDigit = true := by
  rw [intRepr_ofNat] at h
  exact Nat.isDigit_of_mem_toDigits (by decide) (by decide) h

theorem intRepr_ne_nil (n : Nat) : intRepr (Int.ofNat n) ≠ [] := by
  rw [intRepr_ofNat]; exact Nat.toDigits_ne_nil

theorem isDigitStr_intRepr (n : Nat) : isDigitStr (intRepr (Int.ofNat n)) = true := by
  simp only [isDigitStr, Bool.and_eq_true, Bool.not_eq_true', List.isEmpty_eq_false_iff, List.all_eq_true]
  exact ⟨intRepr_ne_nil n, fun c hc => isDigit_of_mem_intRepr hc⟩

theorem digitsVal_intRepr (n : Nat) : digitsVal (intRepr (Int.ofNat n)) = n := by
  rw [intRepr_ofNat, digitsVal_eq]; exact Nat.ofDigitChars_ten_toDigits

/-! ### `strip` -/

/-- no blank at either end -/
def Tight (x : List Char) : Prop :=
  (∀ a ∈ x.head?, isWs a = false) ∧ (∀ z ∈ x.getLast?, isWs z = false)

theorem dropWhile_pad {w y : List Char} (hw : ∀ c ∈ w, isWs c = true) (hy : ∀ a ∈ y.head?, isWs a = false) :
    (w ++ y).dropWhile isWs = y := by
  induction w with
  | nil =>
    cases y with
    | nil => rfl
    | cons a m => simp [hy a (by simp)]
  | cons c w ih =>
    have hc : isWs c = true := hw c (by simp)
    simp only [List.cons_append, List.dropWhile_cons, hc, if_true]
    exact ih (fun d hd => hw d (by simp [hd]))

theorem pyStrip_pad {pre x post : List Char} (hx : Tight x) (hne : x ≠ [])
    (hpre : ∀ c ∈ pre, isWs c = true) (hpost : ∀ c ∈ post, isWs c = true) :
    pyStrip (pre ++ x ++ post) = x := by
  unfold pyStrip
  have h1 : (pre ++ x ++ post).dropWhile isWs = x ++ post := by
    rw [List.append_assoc]
    apply dropWhile_pad hpre
    intro a ha
    apply hx.1
    cases x with
    | nil => exact absurd rfl hne
    | cons b m => simpa using ha
  rw [h1, List.reverse_append]
  rw [dropWhile_pad (w := post.reverse) (y := x.reverse)]
  · simp
  · intro c hc; exact hpost c (by simpa using hc)
  · intro a ha; apply hx.2; simpa using ha

theorem pyStrip_tight {x : List Char} (hx : Tight x) (hne : x ≠ []) : pyStrip x = x := by
  have := pyStrip_pad (pre := []) (post := []) hx hne (by simp) (by simp)
  simpa using this

theorem tight_of_noWs {x : List Char} (h : ∀ c ∈ x, isWs c = false) : Tight x := by
  constructor
  · intro a ha; exact h a (List.mem_of_mem_head? ha)
  · intro a ha; exact h a (List.mem_of_mem_getLast? ha)

theorem isWs_false_of_isDigit {c : Char} (h : c.isDigit = true) : isWs c = false := by
  simp only [Char.isDigit, Bool.and_eq_true, decide_eq_true_eq] at h
  have h1 := h.1
  have h2 := h.2
  simp only [isWs, Bool.or_eq_false_iff, beq_eq_false_iff_ne, ne_eq]
  refine ⟨⟨⟨⟨⟨?_, ?_⟩, ?_⟩, ?_⟩, ?_⟩, ?_⟩ <;> (rintro rfl; revert h1 h2; decide)


/-! ### `split` -/

theorem pySplit_ne_nil (c : Char) (s : List Char) : pySplit c s ≠ [] := by
  cases s with
  | nil => simp [pySplit]
  | cons x xs =>
    unfold pySplit
    split
    · simp
    · split <;> simp

theorem pySplit_cons (c x : Char) (xs : List Char) :
    ∃ p ps, pySplit c xs = p :: ps ∧
      pySplit c (x :: xs) = if x == c then [] :: p :: ps else (x :: p) :: ps := by
  cases h : pySplit c xs with
  | nil => exact absurd h (pySplit_ne_nil c xs)
  | cons p ps =>
    refine ⟨p, ps, rfl, ?_⟩
    rw [pySplit, h]

/-- `(a + c + b).split(c) == a.split(c) + b.split(c)` -/
theorem pySplit_append (c : Char) (a b : List Char) :
    pySplit c (a ++ c :: b) = pySplit c a ++ pySplit c b := by
  induction a with
  | nil =>
    obtain ⟨p, ps, h1, h2⟩ := pySplit_cons c c b
    simp [h2, h1, pySplit]
  | cons x a ih =>
    obtain ⟨p, ps, h1, h2⟩ := pySplit_cons c x a
    obtain ⟨p', ps', h1', h2'⟩ := pySplit_cons c x (a ++ c :: b)
    rw [List.cons_append, h2', h2]
    rw [ih, h1] at h1'
    simp only [List.cons_append, List.cons.injEq] at h1'
    obtain ⟨rfl, rfl⟩ := h1'
    split <;> simp

theorem pySplit_notin {c : Char} {a : List Char} (h : c ∉ a) : pySplit c a = [a] := by
  induction a with
  | nil => simp [pySplit]
  | cons x a ih =>
    obtain ⟨p, ps, h1, h2⟩ := pySplit_cons c x a
    rw [ih (fun hc => h (List.mem_cons_of_mem _ hc))] at h1
    simp only [List.cons.injEq] at h1
    obtain ⟨rfl, rfl⟩ := h1
    have : (x == c) = false := by
      simp only [beq_eq_false_iff_ne, ne_eq]; rintro rfl; exact h (by simp)
    rw [h2, this]; simp

theorem pySplit_getLast {c : Char} (a : List Char) {b : List Char} (h : c ∉ b) :
    (pySplit c (a ++ c :: b)).getLast? = some b := by
  rw [pySplit_append, pySplit_notin h]; simp

theorem pySplit_hit {c : Char} {a : List Char} (b : List Char) (h : c ∉ a) :
    pySplit c (a ++ c :: b) = a :: pySplit c b := by
  rw [pySplit_append, pySplit_notin h]; simp


/-! ### slices, `find`, `rfind` -/

theorem normIdx_nat {n k : Nat} {i : Int} (hi : i = (k : Int)) (hk : k ≤ n) : normIdx n i = k := by
  subst hi
  unfold normIdx
  split
  · omega
  · split <;> omega

theorem pySlice_mid {s a b d : List Char} {i j : Int} (hs : s = a ++ b ++ d)
    (hi : i = (a.length : Int)) (hj : j = ((a.length + b.length : Nat) : Int)) : pySlice s i j = b := by
  subst hs
  unfold pySlice
  rw [normIdx_nat hi (by simp only [List.length_append]; omega), normIdx_nat hj (by simp)]
  simp only []
  rw [← List.length_append, List.take_left', List.drop_left']
  all_goals rfl

theorem pySlice_empty {s : List Char} {i j : Int} (h : i = j) : pySlice s i j = [] := by
  subst h
  unfold pySlice
  simp

theorem pySliceFrom_end {s : List Char} {i : Int} (h : i = (s.length : Int)) : pySliceFrom s i = [] := by
  unfold pySliceFrom
  rw [normIdx_nat h (Nat.le_refl _)]
  simp

theorem findFrom_notin {c : Char} {m : List Char} (h : c ∉ m) (off : Nat) : findFrom c m off = none := by
  induction m generalizing off with
  | nil => rfl
  | cons x m ih =>
    have : (x == c) = false := by
      simp only [beq_eq_false_iff_ne, ne_eq]; rintro rfl; exact h (by simp)
    rw [findFrom, this]
    exact ih (fun hc => h (List.mem_cons_of_mem _ hc)) _

theorem findFrom_hit {c : Char} {m : List Char} (d : List Char) (h : c ∉ m) (off : Nat) :
    findFrom c (m ++ c :: d) off = some (off + m.length) := by
  induction m generalizing off with
  | nil => simp [findFrom]
  | cons x m ih =>
    have : (x == c) = false := by
      simp only [beq_eq_false_iff_ne, ne_eq]; rintro rfl; exact h (by simp)
    rw [List.cons_append, findFrom, this]
    simp only [Bool.false_eq_true, if_false]
    rw [ih (fun hc => h (List.mem_cons_of_mem _ hc))]
    simp; omega

/-- `s.find(c, i, j)` finds the first `c` after position `i` -/
theorem pyFind_hit {s a m d1 d2 : List Char} {c : Char} {i j : Int}
    (hs : s = a ++ m ++ c :: d1 ++ d2) (hc : c ∉ m)
    (hi : i = (a.length : Int)) (hj : j = ((a.length + m.length + 1 + d1.length : Nat) : Int)) :
    pyFind s c i j = ((a.length + m.length : Nat) : Int) := by
  subst hs
  unfold pyFind
  rw [normIdx_nat hi (by simp only [List.length_append, List.length_cons]; omega), normIdx_nat hj (by simp only [List.length_append, List.length_cons]; omega)]
  have e1 : a.length + m.length + 1 + d1.length = (a ++ m ++ c :: d1).length := by simp; omega
  have e2 : a ++ m ++ c :: d1 = a ++ (m ++ c :: d1) := by simp
  simp only []
  rw [e1, List.take_left', e2, List.drop_left', findFrom_hit d1 hc]
  all_goals rfl

theorem pyFind_miss {s a m d2 : List Char} {c : Char} {i j : Int}
    (hs : s = a ++ m ++ d2) (hc : c ∉ m)
    (hi : i = (a.length : Int)) (hj : j = ((a.length + m.length : Nat) : Int)) :
    pyFind s c i j = -1 := by
  subst hs
  unfold pyFind
  rw [normIdx_nat hi (by simp only [List.length_append]; omega), normIdx_nat hj (by simp)]
  simp only []
  rw [← List.length_append, List.take_left', List.drop_left', findFrom_notin hc]
  all_goals rfl

theorem pyRfind_last (a : List Char) (c : Char) : pyRfind (a ++ [c]) c = (a.length : Int) := by
  unfold pyRfind
  simp [findFrom]

/-! ### one bucket -/

theorem intercalate_cons_cons (sep x y : List Char) (ys : List (List Char)) :
    sep.intercalate (x :: y :: ys) = x ++ sep ++ sep.intercalate (y :: ys) := by
  simp [List.intercalate, List.intersperse]

theorem intercalate_single (sep x : List Char) : sep.intercalate [x] = x := by
  simp [List.intercalate, List.intersperse]

/-- the pieces of `t₁, t₂, …, tₙ` at the commas -/
theorem pySplit_join (t : List Char) (ts : List (List Char)) (h : ∀ u ∈ t :: ts, ',' ∉ u) :
    pySplit ',' ([',', ' '].intercalate (t :: ts)) = t :: ts.map (' ' :: ·) := by
  induction ts generalizing t with
  | nil => rw [intercalate_single]; exact pySplit_notin (h t (by simp))
  | cons t' ts ih =>
    rw [intercalate_cons_cons, List.append_assoc]
    simp only [List.cons_append, List.nil_append]
    rw [pySplit_hit _ (h t (by simp))]
    obtain ⟨p, ps, h1, h2⟩ := pySplit_cons ',' ' ' ([',', ' '].intercalate (t' :: ts))
    rw [ih t' (fun u hu => h u (List.mem_cons_of_mem _ hu))] at h1
    simp only [List.cons.injEq] at h1
    obtain ⟨rfl, rfl⟩ := h1
    rw [h2]
    simp

def bucketStep (conv : List Char → Except PErr Name) (acc : NBucket) (piece : List Char) : Except PErr NBucket :=
  let e := pyStrip piece
  if e.isEmpty then .error .valueError
  else match conv e with
    | .ok x => .ok (if acc.contains x then acc else acc ++ [x])
    | .error err => .error err

theorem parseBucket_eq (conv : List Char → Except PErr Name) (text : List Char) :
    parseBucket conv text = (pySplit ',' text).foldlM (bucketStep conv) [] := rfl

theorem bucketStep_ok {conv : List Char → Except PErr Name} {acc : NBucket} {piece : List Char} {x : Name}
    (hne : pyStrip piece ≠ []) (hc : conv (pyStrip piece) = .ok x) (hx : x ∉ acc) :
    bucketStep conv acc piece = .ok (acc ++ [x]) := by
  unfold bucketStep
  simp [hne, hc, hx]

theorem foldlM_pieces (conv : List Char → Except PErr Name) (val : List Char → Name)
    (ps ts : List (List Char)) (hps : ps.map pyStrip = ts)
    (hts : ∀ t ∈ ts, t ≠ [] ∧ conv t = .ok (val t)) (acc : NBucket)
    (hnd : (acc ++ ts.map val).Nodup) :
    ps.foldlM (bucketStep conv) acc = .ok (acc ++ ts.map val) := by
  induction ps generalizing ts acc with
  | nil => subst hps; simp [pure, Except.pure]
  | cons p ps ih =>
    subst hps
    obtain ⟨hne, hc⟩ := hts (pyStrip p) (by simp)
    have hx : val (pyStrip p) ∉ acc := by
      intro hmem
      rw [List.nodup_append] at hnd
      exact hnd.2.2 _ hmem _ (by simp) rfl
    rw [List.foldlM_cons, bucketStep_ok hne hc hx]
    show List.foldlM (bucketStep conv) (acc ++ [val (pyStrip p)]) ps = _
    rw [ih (ps.map pyStrip) rfl (fun t ht => hts t (by simp at ht ⊢; exact Or.inr ht))]
    · simp
    · simpa using hnd

theorem parseBucket_join (conv : List Char → Except PErr Name) (val : List Char → Name)
    (ts : List (List Char)) (hne : ts ≠ [])
    (hts : ∀ t ∈ ts, t ≠ [] ∧ ',' ∉ t ∧ Tight t ∧ conv t = .ok (val t))
    (hnd : (ts.map val).Nodup) :
    parseBucket conv ([',', ' '].intercalate ts) = .ok (ts.map val) := by
  cases ts with
  | nil => exact absurd rfl hne
  | cons t ts =>
    rw [parseBucket_eq, pySplit_join t ts (fun u hu => (hts u hu).2.1)]
    rw [foldlM_pieces conv val _ (t :: ts) ?_ (fun u hu => ⟨(hts u hu).1, (hts u hu).2.2.2⟩) [] (by simpa using hnd)]
    · simp
    · simp only [List.map_cons, List.map_map, List.cons.injEq]
      refine ⟨pyStrip_tight (hts t (by simp)).2.2.1 (hts t (by simp)).1, ?_⟩
      rw [List.map_congr_left (g := id)]
      · simp
      · intro u hu
        have := hts u (List.mem_cons_of_mem _ hu)
        have h := pyStrip_pad (pre := [' ']) (post := []) this.2.2.1 this.1 (by simp [isWs]) (by simp)
        simpa using h

/-! ### the scanning loop -/

/-- bracketed bucket text -/
def bk (t : List Char) : List Char := '[' :: t ++ [']']
/-- text after the current bucket: `, [t₁], [t₂] …` -/
def tailT (rest : List (List Char)) : List Char := (rest.map fun t => ',' :: ' ' :: bk t).flatten

theorem scanLoop_step {conv : List Char → Except PErr Name} {s : List Char} {re st en oe : Int} {fuel : Nat}
    {ret : List NBucket} {b : NBucket} (hst : 0 ≤ st) (hen : 0 ≤ en)
    (hb : parseBucket conv (pySlice s (st + 1) en) = .ok b) :
    scanLoop conv s re (fuel + 1) ret st en oe =
      scanLoop conv s re fuel (ret ++ [b]) (pyFind s '[' (en + 1) re)
        (pyFind s ']' (max (en + 1) (pyFind s '[' (en + 1) re + 1)) re) en := by
  have h1 : (st != -1) = true := by simp; omega
  have h2 : (en != -1) = true := by simp; omega
  rw [scanLoop]
  simp only [h1, h2, Bool.and_self, if_true, hb]

theorem scanLoop_stop (conv : List Char → Except PErr Name) (s : List Char) (re oe : Int) (fuel : Nat)
    (ret : List NBucket) :
    scanLoop conv s re (fuel + 1) ret (-1) (-1) oe = .ok (ret, -1, -1, oe) := by
  rw [scanLoop]; simp

theorem scan_inv (conv : List Char → Except PErr Name)
    (rest : List (List Char × NBucket)) :
    ∀ (s P : List Char) (it : List Char × NBucket) (ret : List NBucket) (oe st en re : Int) (fuel : Nat),
    s = P ++ bk it.1 ++ tailT (rest.map (·.1)) ++ [']'] →
    (∀ q ∈ it :: rest, parseBucket conv q.1 = .ok q.2 ∧ '[' ∉ q.1 ∧ ']' ∉ q.1) →
    rest.length + 2 ≤ fuel →
    st = (P.length : Int) → en = ((P.length + 1 + it.1.length : Nat) : Int) → re = (s.length : Int) - 1 →
    scanLoop conv s re fuel ret st en oe = .ok (ret ++ (it :: rest).map (·.2), -1, -1, (s.length : Int) - 2) := by
  induction rest with
  | nil =>
    intro s P it ret oe st en re fuel hs hgood hfuel hst hen hre
    obtain ⟨f, rfl⟩ : ∃ f, fuel = f + 2 := ⟨fuel - 2, by simp at hfuel; omega⟩
    have hlen : s.length = P.length + it.1.length + 3 := by
      rw [hs]; simp [bk, tailT]; omega
    have hb : parseBucket conv (pySlice s (st + 1) en) = .ok it.2 := by
      rw [pySlice_mid (a := P ++ ['[']) (b := it.1) (d := ']' :: [']'])]
      · exact (hgood it (by simp)).1
      · rw [hs]; simp [bk, tailT]
      · simp; omega
      · simp; omega
    rw [scanLoop_step (by omega) (by omega) hb]
    have hst' : pyFind s '[' (en + 1) re = -1 := by
      apply pyFind_miss (a := P ++ bk it.1) (m := []) (d2 := [']'])
      · rw [hs]; simp [bk, tailT]
      · simp
      · simp [bk]; omega
      · simp [bk]; omega
    rw [hst']
    have hen' : pyFind s ']' (max (en + 1) (-1 + 1)) re = -1 := by
      apply pyFind_miss (a := P ++ bk it.1) (m := []) (d2 := [']'])
      · rw [hs]; simp [bk, tailT]
      · simp
      · simp [bk]; omega
      · simp [bk]; omega
    rw [hen', scanLoop_stop]
    simp
    omega
  | cons it' rest ih =>
    intro s P it ret oe st en re fuel hs hgood hfuel hst hen hre
    obtain ⟨f, rfl⟩ : ∃ f, fuel = f + 1 := ⟨fuel - 1, by simp at hfuel; omega⟩
    have hlen : s.length = P.length + it.1.length + 2 + (tailT ((it' :: rest).map (·.1))).length + 1 := by
      rw [hs]; simp [bk]; omega
    have hb : parseBucket conv (pySlice s (st + 1) en) = .ok it.2 := by
      rw [pySlice_mid (a := P ++ ['[']) (b := it.1) (d := ']' :: tailT ((it' :: rest).map (·.1)) ++ [']'])]
      · exact (hgood it (by simp)).1
      · rw [hs]; simp [bk]
      · simp; omega
      · simp; omega
    rw [scanLoop_step (by omega) (by omega) hb]
    have hst' : pyFind s '[' (en + 1) re = ((P.length + it.1.length + 4 : Nat) : Int) := by
      rw [pyFind_hit (a := P ++ bk it.1) (m := [',', ' ']) (d1 := it'.1 ++ ']' :: tailT (rest.map (·.1))) (d2 := [']'])]
      · simp [bk]; omega
      · rw [hs]; simp [bk, tailT]
      · simp
      · simp [bk]; omega
      · simp [bk, tailT] at hlen ⊢; omega
    rw [hst']
    have hen' : pyFind s ']' (max (en + 1) (((P.length + it.1.length + 4 : Nat) : Int) + 1)) re =
        ((P.length + it.1.length + 5 + it'.1.length : Nat) : Int) := by
      rw [pyFind_hit (a := P ++ bk it.1 ++ [',', ' ', '[']) (m := it'.1) (d1 := tailT (rest.map (·.1))) (d2 := [']'])]
      · simp [bk]; omega
      · rw [hs]; simp [bk, tailT]
      · exact (hgood it' (by simp)).2.2
      · simp [bk]; omega
      · simp [bk, tailT] at hlen ⊢; omega
    rw [hen']
    rw [ih s (P ++ bk it.1 ++ [',', ' ']) it' (ret ++ [it.2]) en _ _ re f]
    · simp
    · rw [hs]; simp [bk, tailT]
    · intro q hq; exact hgood q (List.mem_cons_of_mem _ hq)
    · simp at hfuel ⊢; omega
    · simp [bk]; omega
    · simp [bk]; omega
    · exact hre

/-! ### `parseTies` on normalised text -/

def repl (c : Char) : Char := if c == '{' then '[' else if c == '}' then ']' else c

/-- `parse_ranking_with_ties` after the `strip / split(":")[-1] / strip / replace` preprocessing -/
def parseNorm (conv : List Char → Except PErr Name) (s : List Char) : Except PErr (List NBucket) :=
  if (pyStrip (pySlice s (pyFindFrom s '[' 0 + 1) (pyRfind s ']'))).isEmpty || pyEndsWith s ['[', '[', ']', ']'] then .ok []
  else
    if !(pySliceFrom s (pyRfind s ']' + 1)).isEmpty then .error .valueError
    else
      match scanLoop conv s (pyRfind s ']') (s.length + 2) [] (pyFindFrom s '[' (pyFindFrom s '[' 0 + 1))
          (pyFindFrom s ']' 0) (pyFindFrom s ']' 0) with
      | .error e => .error e
      | .ok (ret, st', en', oldEn) =>
        if st' != en' && (st' == -1 || en' == -1) then .error .valueError
        else if !(pySlice s (oldEn + 1) (pyRfind s ']')).isEmpty then .error .valueError
        else .ok ret

theorem parseTies_eq (conv : List Char → Except PErr Name) (input : List Char) :
    parseTies conv input =
      parseNorm conv ((pyStrip ((pySplit ':' (pyStrip input)).getLast?.getD [])).map repl) := by
  unfold parseTies parseNorm repl
  rfl

theorem intercalate_eq (sep x : List Char) (xs : List (List Char)) :
    sep.intercalate (x :: xs) = x ++ (xs.map (sep ++ ·)).flatten := by
  induction xs generalizing x with
  | nil => simp
  | cons y ys ih => rw [intercalate_cons_cons, ih y]; simp

/-- normalised ranking text `[[t₁], [t₂], …]` -/
def normText (ins : List (List Char)) : List Char := '[' :: [',', ' '].intercalate (ins.map bk) ++ [']']

theorem normText_cons (i : List Char) (rest : List (List Char)) :
    normText (i :: rest) = ['['] ++ bk i ++ tailT rest ++ [']'] := by
  simp [normText, intercalate_eq, tailT, List.map_map, Function.comp_def]

theorem tailT_length (rest : List (List Char)) : rest.length ≤ (tailT rest).length := by
  induction rest with
  | nil => simp [tailT]
  | cons t rest ih => simp [tailT] at ih ⊢; omega

theorem body_last (i : List Char) (rest : List (List Char)) :
    ∃ P l, l ∈ i :: rest ∧ bk i ++ tailT rest = P ++ bk l := by
  induction rest generalizing i with
  | nil => exact ⟨[], i, by simp, by simp [tailT]⟩
  | cons j rest ih =>
    obtain ⟨P, l, hl, h⟩ := ih j
    refine ⟨bk i ++ [',', ' '] ++ P, l, List.mem_cons_of_mem _ hl, ?_⟩
    have : tailT (j :: rest) = [',', ' '] ++ (bk j ++ tailT rest) := by simp [tailT]
    rw [this, h]; simp

theorem dropWhile_ne_nil {p : Char → Bool} {a : Char} {l : List Char} (hm : a ∈ l) (ha : p a = false) :
    l.dropWhile p ≠ [] := by
  induction l with
  | nil => simp at hm
  | cons x l ih =>
    rw [List.dropWhile_cons]
    split
    · rename_i hx
      rcases List.mem_cons.1 hm with rfl | h
      · simp [ha] at hx
      · exact ih h
    · simp

theorem pyStrip_ne_nil {a : Char} (m : List Char) (ha : isWs a = false) : pyStrip (a :: m) ≠ [] := by
  unfold pyStrip
  simp only [List.dropWhile_cons, ha, Bool.false_eq_true, if_false, ne_eq, List.reverse_eq_nil_iff]
  exact dropWhile_ne_nil (a := a) (by simp) ha

theorem pyEndsWith_third {p : List Char} {z e f a b c d : Char} (h : pyEndsWith (p ++ [z, e, f]) [a, b, c, d] = true) :
    z = b := by
  unfold pyEndsWith at h
  simp only [Bool.and_eq_true, decide_eq_true_eq, beq_iff_eq] at h
  rcases List.eq_nil_or_concat p with rfl | ⟨p', y, rfl⟩
  · simp at h
  · rw [List.concat_eq_append] at h
    have : (p' ++ [y] ++ [z, e, f]).length - [a, b, c, d].length = p'.length := by simp
    rw [this] at h
    have h2 := h.2
    rw [List.append_assoc, List.drop_left'] at h2
    · simp at h2; exact h2.2.1
    · rfl

theorem parseNorm_nil (conv : List Char → Except PErr Name) : parseNorm conv (normText []) = .ok [] := by
  unfold parseNorm
  have : pySlice (normText []) (pyFindFrom (normText []) '[' 0 + 1) (pyRfind (normText []) ']') = [] := by decide
  rw [this]
  simp [pyStrip]

theorem parseNorm_render (conv : List Char → Except PErr Name) (items : List (List Char × NBucket))
    (hgood : ∀ q ∈ items, parseBucket conv q.1 = .ok q.2 ∧ '[' ∉ q.1 ∧ ']' ∉ q.1 ∧ q.1 ≠ []) :
    parseNorm conv (normText (items.map (·.1))) = .ok (items.map (·.2)) := by
  cases items with
  | nil => exact parseNorm_nil conv
  | cons it rest =>
    generalize hsd : normText ((it :: rest).map (·.1)) = s
    have hs : s = ['['] ++ bk it.1 ++ tailT (rest.map (·.1)) ++ [']'] := by
      rw [← hsd, List.map_cons, normText_cons]
    have hlen : s.length = it.1.length + 3 + (tailT (rest.map (·.1))).length + 1 := by
      rw [hs]; simp [bk]; omega
    have hf0 : pyFindFrom s '[' 0 = 0 := by
      unfold pyFindFrom
      rw [pyFind_hit (a := []) (m := []) (d1 := bk it.1 ++ tailT (rest.map (·.1)) ++ [']']) (d2 := [])]
      · simp
      · rw [hs]; simp
      · simp
      · simp
      · rw [hlen]; simp [bk]; omega
    have hrf : pyRfind s ']' = (s.length : Int) - 1 := by
      rw [hs, pyRfind_last]; simp; omega
    have hbody : pySlice s (0 + 1) ((s.length : Int) - 1) = bk it.1 ++ tailT (rest.map (·.1)) := by
      apply pySlice_mid (a := ['[']) (d := [']'])
      · rw [hs]; simp
      · simp
      · rw [hlen]; simp [bk]; omega
    have hst : pyFindFrom s '[' (0 + 1) = 1 := by
      unfold pyFindFrom
      rw [pyFind_hit (a := ['[']) (m := []) (d1 := it.1 ++ ']' :: tailT (rest.map (·.1)) ++ [']']) (d2 := [])]
      · simp
      · rw [hs]; simp [bk]
      · simp
      · simp
      · rw [hlen]; simp; omega
    have hen : pyFindFrom s ']' 0 = ((1 + 1 + it.1.length : Nat) : Int) := by
      unfold pyFindFrom
      rw [pyFind_hit (a := []) (m := '[' :: '[' :: it.1) (d1 := tailT (rest.map (·.1)) ++ [']']) (d2 := [])]
      · simp; omega
      · rw [hs]; simp [bk]
      · simp; exact (hgood it (by simp)).2.2.1
      · simp
      · rw [hlen]; simp; omega
    have hstrip : (pyStrip (bk it.1 ++ tailT (rest.map (·.1)))).isEmpty = false := by
      rw [List.isEmpty_eq_false_iff]
      exact pyStrip_ne_nil _ (by decide)
    have hends : pyEndsWith s ['[', '[', ']', ']'] = false := by
      cases h : pyEndsWith s ['[', '[', ']', ']'] with
      | false => rfl
      | true =>
        exfalso
        obtain ⟨P, l, hl, hPl⟩ := body_last it.1 (rest.map (·.1))
        obtain ⟨q, hq, rfl⟩ : ∃ q ∈ it :: rest, q.1 = l := by
          rw [← List.map_cons (f := fun (q : List Char × NBucket) => q.1)] at hl
          obtain ⟨q, hq, h⟩ := List.mem_map.1 hl
          exact ⟨q, hq, h⟩
        obtain ⟨hq1, hq2, hq3, hq4⟩ := hgood q hq
        rcases List.eq_nil_or_concat q.1 with h0 | ⟨m, z, hm⟩
        · exact hq4 h0
        · rw [List.concat_eq_append] at hm
          have hs' : s = (['['] ++ P ++ '[' :: m) ++ [z, ']', ']'] := by
            rw [hs, List.append_assoc ['['], hPl, bk, hm]; simp
          rw [hs'] at h
          have := pyEndsWith_third h
          apply hq2
          rw [hm, this]; simp
    have hfrom : (pySliceFrom s ((s.length : Int) - 1 + 1)).isEmpty = true := by
      rw [pySliceFrom_end (by omega)]; rfl
    have hscan := scan_inv conv rest s ['['] it [] ((1 + 1 + it.1.length : Nat) : Int) 1
      ((1 + 1 + it.1.length : Nat) : Int) ((s.length : Int) - 1) (s.length + 2) hs
      (fun q hq => ⟨(hgood q hq).1, (hgood q hq).2.1, (hgood q hq).2.2.1⟩)
      (by have := tailT_length (rest.map (·.1)); simp at this; omega) (by simp) (by simp) rfl
    unfold parseNorm
    rw [hf0, hrf, hbody, hstrip, hends, hst, hen, hfrom, hscan]
    simp only [Bool.or_self, Bool.false_eq_true, if_false, Bool.not_true]
    rw [pySlice_empty (by omega)]
    simp
/-! ### preprocessing: `strip / split(":")[-1] / strip` -/

theorem label_decomp (label t : List Char) :
    ∃ W L', label ++ ':' :: t = W ++ (L' ++ ':' :: t) ∧ (∀ c ∈ W, isWs c = true) ∧
      (∀ a ∈ (L' ++ ':' :: t).head?, isWs a = false) := by
  induction label with
  | nil => exact ⟨[], [], rfl, by simp, by simp; decide⟩
  | cons c l ih =>
    cases hc : isWs c with
    | true =>
      obtain ⟨W, L', h1, h2, h3⟩ := ih
      refine ⟨c :: W, L', by simp [h1], ?_, h3⟩
      intro d hd
      rcases List.mem_cons.1 hd with rfl | hd
      · exact hc
      · exact h2 d hd
    | false => exact ⟨[], c :: l, rfl, by simp, by simpa using hc⟩

theorem prep {pre post pfx text : List Char} (ht : Tight text) (hne : text ≠ []) (hcol : ':' ∉ text)
    (hpre : ∀ c ∈ pre, isWs c = true) (hpost : ∀ c ∈ post, isWs c = true)
    (hpfx : pfx = [] ∨ ∃ label, pfx = label ++ [':']) :
    pyStrip ((pySplit ':' (pyStrip (pre ++ pfx ++ text ++ post))).getLast?.getD []) = text := by
  rcases hpfx with rfl | ⟨label, rfl⟩
  · rw [List.append_nil, pyStrip_pad ht hne hpre hpost, pySplit_notin hcol]
    simpa using pyStrip_tight ht hne
  · obtain ⟨W, L', h1, h2, h3⟩ := label_decomp label text
    have e : pre ++ (label ++ [':']) ++ text ++ post = (pre ++ W) ++ (L' ++ ':' :: text) ++ post := by
      have : pre ++ (label ++ [':']) ++ text = pre ++ (label ++ ':' :: text) := by simp
      rw [this, h1]; simp
    have hT : Tight (L' ++ ':' :: text) := by
      refine ⟨h3, ?_⟩
      intro z hz
      apply ht.2
      cases text with
      | nil => exact absurd rfl hne
      | cons a m =>
        rw [show L' ++ ':' :: a :: m = (L' ++ [':']) ++ (a :: m) by simp, List.getLast?_append] at hz
        cases h : (a :: m).getLast? with
        | none => simp at h
        | some y => rw [h] at hz; simpa using hz
    rw [e, pyStrip_pad hT (by simp) ?_ hpost, pySplit_getLast L' hcol]
    · simpa using pyStrip_tight ht hne
    · intro c hc
      rcases List.mem_append.1 hc with h | h
      · exact hpre c h
      · exact h2 c h
/-! ### the rendered text -/

theorem sep_eq : (", ".toList) = [',', ' '] := by decide

/-- text of a bucket without its delimiters -/
def inner (b : NBucket) : List Char := [',', ' '].intercalate (b.map nameText)

theorem renderBucket_eq (b : NBucket) : renderBucket b = '{' :: inner b ++ ['}'] := by
  simp [renderBucket, inner, sep_eq]

theorem renderRanking_eq (r : NRanking) :
    renderRanking r = '[' :: [',', ' '].intercalate (r.map fun b => '{' :: inner b ++ ['}']) ++ [']'] := by
  have : renderBucket = fun b => '{' :: inner b ++ ['}'] := funext renderBucket_eq
  simp [renderRanking, sep_eq, this]

theorem renderRankingBrackets_eq (r : NRanking) : renderRankingBrackets r = (renderRanking r).map repl := by
  unfold renderRankingBrackets repl; rfl

theorem mem_intercalate {sep : List Char} {xs : List (List Char)} {c : Char} (h : c ∈ sep.intercalate xs) :
    c ∈ sep ∨ ∃ x ∈ xs, c ∈ x := by
  cases xs with
  | nil => simp [List.intercalate] at h
  | cons x xs =>
    rw [intercalate_eq] at h
    simp only [List.mem_append, List.mem_flatten, List.mem_map] at h
    rcases h with h | ⟨l, ⟨y, hy, rfl⟩, hc⟩
    · exact Or.inr ⟨x, by simp, h⟩
    · rcases List.mem_append.1 hc with h | h
      · exact Or.inl h
      · exact Or.inr ⟨y, List.mem_cons_of_mem _ hy, h⟩

theorem map_intercalate (f : Char → Char) (sep : List Char) (xs : List (List Char)) :
    (sep.intercalate xs).map f = (sep.map f).intercalate (xs.map (List.map f)) := by
  cases xs with
  | nil => simp [List.intercalate]
  | cons x xs =>
    rw [List.map_cons, intercalate_eq, intercalate_eq]
    simp [List.map_flatten, List.map_map, Function.comp_def]

theorem mem_inner {b : NBucket} {c : Char} (h : c ∈ inner b) : c = ',' ∨ c = ' ' ∨ ∃ x ∈ b, c ∈ nameText x := by
  rcases mem_intercalate h with h | ⟨t, ht, hc⟩
  · simp at h; rcases h with h | h <;> simp [h]
  · obtain ⟨x, hx, rfl⟩ := List.mem_map.1 ht
    exact Or.inr (Or.inr ⟨x, hx, hc⟩)

theorem mem_renderRanking {r : NRanking} {c : Char} (h : c ∈ renderRanking r) :
    c ∈ ['[', ']', '{', '}', ',', ' '] ∨ ∃ x ∈ r.flatten, c ∈ nameText x := by
  rw [renderRanking_eq] at h
  simp only [List.mem_cons, List.mem_append, List.not_mem_nil, or_false] at h
  rcases h with (rfl | h) | rfl
  · simp
  · rcases mem_intercalate h with h | ⟨t, ht, hc⟩
    · simp at h; rcases h with h | h <;> simp [h]
    · obtain ⟨b, hb, rfl⟩ := List.mem_map.1 ht
      simp only [List.mem_cons, List.mem_append, List.not_mem_nil, or_false] at hc
      rcases hc with (rfl | hc) | rfl
      · simp
      · rcases mem_inner hc with rfl | rfl | ⟨x, hx, hcx⟩
        · simp
        · simp
        · exact Or.inr ⟨x, List.mem_flatten.2 ⟨b, hb, hx⟩, hcx⟩
      · simp
  · simp

/-- no delimiter of the format -/
def Plain (c : Char) : Prop := c ≠ '[' ∧ c ≠ ']' ∧ c ≠ '{' ∧ c ≠ '}' ∧ c ≠ ',' ∧ c ≠ ':'

theorem repl_of_noBrace {c : Char} (h1 : c ≠ '{') (h2 : c ≠ '}') : repl c = c := by
  simp [repl, h1, h2]

theorem map_repl_of_noBrace {l : List Char} (h : ∀ c ∈ l, c ≠ '{' ∧ c ≠ '}') : l.map repl = l := by
  rw [List.map_congr_left (g := id)]
  · simp
  · intro c hc; exact repl_of_noBrace (h c hc).1 (h c hc).2

theorem repl_idem (c : Char) : repl (repl c) = repl c := by
  unfold repl
  split
  · decide
  · split
    · decide
    · simp

theorem map_repl_render (r : NRanking) (hx : ∀ x ∈ r.flatten, ∀ c ∈ nameText x, Plain c) :
    (renderRanking r).map repl = normText (r.map inner) := by
  rw [renderRanking_eq, normText]
  simp only [List.map_cons, List.map_append, List.map_nil, map_intercalate, List.map_map]
  congr 2
  · congr 1
    apply List.map_congr_left
    intro b hb
    simp only [Function.comp_def, List.map_cons, List.map_append, List.map_nil, bk]
    rw [map_repl_of_noBrace]
    · rfl
    · intro c hc
      rcases mem_inner hc with rfl | rfl | ⟨x, hx', hcx⟩
      · decide
      · decide
      · have := hx x (List.mem_flatten.2 ⟨b, hb, hx'⟩) c hcx
        exact ⟨this.2.2.1, this.2.2.2.1⟩


/-- a name's text: non-empty, no delimiter, no blank at either end -/
def GoodText (t : List Char) : Prop := t ≠ [] ∧ Tight t ∧ ∀ c ∈ t, Plain c

theorem tight_render (r : NRanking) : Tight (renderRanking r) ∧ renderRanking r ≠ [] := by
  rw [renderRanking_eq]
  refine ⟨⟨?_, ?_⟩, by simp⟩
  · intro a ha; simp at ha; subst ha; decide
  · intro z hz
    rw [List.getLast?_append] at hz
    simp at hz; subst hz; decide

theorem tight_map_repl {l : List Char} (h : Tight l) (hne : l ≠ []) : Tight (l.map repl) ∧ l.map repl ≠ [] := by
  have hr : ∀ c, isWs c = false → isWs (repl c) = false := by
    intro c hc
    unfold repl
    split
    · decide
    · split
      · decide
      · exact hc
  refine ⟨⟨?_, ?_⟩, by simpa using hne⟩
  · intro a ha
    rw [List.head?_map] at ha
    obtain ⟨b, hb, rfl⟩ := Option.map_eq_some_iff.1 ha
    exact hr b (h.1 b hb)
  · intro a ha
    rw [List.getLast?_map] at ha
    obtain ⟨b, hb, rfl⟩ := Option.map_eq_some_iff.1 ha
    exact hr b (h.2 b hb)

theorem colon_notin_render (r : NRanking) (hx : ∀ x ∈ r.flatten, ∀ c ∈ nameText x, Plain c) :
    ':' ∉ renderRanking r := by
  intro h
  rcases mem_renderRanking h with h | ⟨x, hx', hc⟩
  · revert h; decide
  · exact (hx x hx' _ hc).2.2.2.2.2 rfl

theorem colon_notin_map_repl {l : List Char} (h : ':' ∉ l) : ':' ∉ l.map repl := by
  intro hm
  obtain ⟨c, hc, he⟩ := List.mem_map.1 hm
  unfold repl at he
  split at he
  · revert he; decide
  · split at he
    · revert he; decide
    · subst he; exact h hc

/-- `parse_ranking_with_ties` on a rendered ranking, with blank padding and an optional `label:` prefix -/
theorem parseTies_render (conv : List Char → Except PErr Name) (val : List Char → Name) (r : NRanking)
    (brackets : Bool) (pre post pfx : List Char)
    (hb : ∀ b ∈ r, b ≠ [])
    (hx : ∀ x ∈ r.flatten, GoodText (nameText x) ∧ conv (nameText x) = .ok (val (nameText x)))
    (hnd : ∀ b ∈ r, (b.map fun x => val (nameText x)).Nodup)
    (hpre : ∀ c ∈ pre, isWs c = true) (hpost : ∀ c ∈ post, isWs c = true)
    (hpfx : pfx = [] ∨ ∃ label, pfx = label ++ [':']) :
    parseTies conv (pre ++ pfx ++ (if brackets then renderRankingBrackets r else renderRanking r) ++ post) =
      .ok (r.map fun b => b.map fun x => val (nameText x)) := by
  have hplain : ∀ x ∈ r.flatten, ∀ c ∈ nameText x, Plain c := fun x h => (hx x h).1.2.2
  have hnorm : ((if brackets then renderRankingBrackets r else renderRanking r)).map repl = normText (r.map inner) := by
    cases brackets
    · simpa using map_repl_render r hplain
    · simp only [if_true, renderRankingBrackets_eq, List.map_map]
      rw [List.map_congr_left (g := repl) (fun c _ => by simp [repl_idem])]
      exact map_repl_render r hplain
  have htext : Tight (if brackets then renderRankingBrackets r else renderRanking r) ∧
      (if brackets then renderRankingBrackets r else renderRanking r) ≠ [] ∧
      ':' ∉ (if brackets then renderRankingBrackets r else renderRanking r) := by
    have h1 := tight_render r
    have h2 := colon_notin_render r hplain
    cases brackets
    · simpa using ⟨h1.1, h1.2, h2⟩
    · simp only [if_true, renderRankingBrackets_eq]
      exact ⟨(tight_map_repl h1.1 h1.2).1, (tight_map_repl h1.1 h1.2).2, colon_notin_map_repl h2⟩
  rw [parseTies_eq, prep htext.1 htext.2.1 htext.2.2 hpre hpost hpfx, hnorm]
  have := parseNorm_render conv (r.map fun b => (inner b, b.map fun x => val (nameText x))) ?_
  · simpa [List.map_map, Function.comp_def] using this
  · intro q hq
    obtain ⟨b, hbr, rfl⟩ := List.mem_map.1 hq
    have hmem : ∀ x ∈ b, x ∈ r.flatten := fun x hxb => List.mem_flatten.2 ⟨b, hbr, hxb⟩
    refine ⟨?_, ?_, ?_, ?_⟩
    · have := parseBucket_join conv val (b.map nameText) (by simpa using hb b hbr) ?_ (by simpa [List.map_map, Function.comp_def] using hnd b hbr)
      · simpa [inner, List.map_map, Function.comp_def] using this
      · intro t ht
        obtain ⟨x, hxb, rfl⟩ := List.mem_map.1 ht
        obtain ⟨⟨h1, h2, h3⟩, h4⟩ := hx x (hmem x hxb)
        exact ⟨h1, fun hc => (h3 _ hc).2.2.2.2.1 rfl, h2, h4⟩
    · intro hc
      rcases mem_inner hc with h | h | ⟨x, hxb, hcx⟩
      · revert h; decide
      · revert h; decide
      · exact ((hx x (hmem x hxb)).1.2.2 _ hcx).1 rfl
    · intro hc
      rcases mem_inner hc with h | h | ⟨x, hxb, hcx⟩
      · revert h; decide
      · revert h; decide
      · exact ((hx x (hmem x hxb)).1.2.2 _ hcx).2.1 rfl
    · show inner b ≠ []
      cases hbe : b with
      | nil => exact absurd hbe (hb b hbr)
      | cons x xs =>
        have hxne := (hx x (hmem x (by simp [hbe]))).1.1
        simp only [inner, List.map_cons, intercalate_eq]
        simp [hxne]
/-! ### building the ranking -/

theorem dedupN_nodup {l : List Name} (h : l.Nodup) : dedupN l = l := by
  induction l with
  | nil => rfl
  | cons x xs ih =>
    rw [List.nodup_cons] at h
    rw [dedupN, ih h.2, List.filter_eq_self.2]
    intro a ha
    simp only [ne_eq, decide_not, Bool.not_eq_eq_eq_not, Bool.not_true, decide_eq_false_iff_not]
    rintro rfl; exact h.1 ha

theorem nodup_of_mem_flatten {r : NRanking} (h : r.flatten.Nodup) {b : NBucket} (hb : b ∈ r) : b.Nodup :=
  List.Nodup.sublist (List.sublist_flatten_of_mem hb) h

theorem mkRanking_ok {r : NRanking} (h : r.flatten.Nodup) : mkRanking r = .ok r := by
  have hmap : r.map dedupN = r := by
    rw [List.map_congr_left (g := id)]
    · simp
    · intro b hb; exact dedupN_nodup (nodup_of_mem_flatten h hb)
  unfold mkRanking
  simp only [hmap, dedupN_nodup h, if_true]

theorem nodup_map_on {α β : Type} {f : α → β} {l : List α} (hinj : ∀ x ∈ l, ∀ y ∈ l, f x = f y → x = y)
    (h : l.Nodup) : (l.map f).Nodup := by
  induction l with
  | nil => simp
  | cons a l ih =>
    rw [List.nodup_cons] at h
    rw [List.map_cons, List.nodup_cons]
    refine ⟨?_, ih (fun x hx y hy => hinj x (List.mem_cons_of_mem _ hx) y (List.mem_cons_of_mem _ hy)) h.2⟩
    intro hm
    obtain ⟨y, hy, he⟩ := List.mem_map.1 hm
    have := hinj y (List.mem_cons_of_mem _ hy) a (by simp) he
    subst this; exact h.1 hy

theorem fromString_of_parse {input : List Char} {r : NRanking} (h : parseTies convStr input = .ok r)
    (hint : (r.all fun b => b.all Name.canBeInt) = false) (hnd : r.flatten.Nodup) :
    fromString input = .ok r := by
  unfold fromString
  simp only [h, hint, Bool.false_eq_true, if_false, mkRanking_ok hnd]

theorem fromString_of_parse_int {input : List Char} {r r' : NRanking} (h : parseTies convStr input = .ok r')
    (hint : (r'.all fun b => b.all Name.canBeInt) = true) (hr : r'.map (fun b => b.map Name.toIntName) = r)
    (hnd : r.flatten.Nodup) :
    fromString input = .ok r := by
  unfold fromString
  have : r'.map (fun b => dedupN (b.map Name.toIntName)) = r := by
    subst hr
    apply List.map_congr_left
    intro b hb
    apply dedupN_nodup
    exact nodup_of_mem_flatten hnd (List.mem_map.2 ⟨b, hb, rfl⟩)
  simp only [h, hint, if_true, this, mkRanking_ok hnd]

/-! ### names -/

theorem goodText_intRepr (n : Nat) : GoodText (intRepr (Int.ofNat n)) := by
  refine ⟨intRepr_ne_nil n, tight_of_noWs fun c hc => isWs_false_of_isDigit (isDigit_of_mem_intRepr hc), ?_⟩
  intro c hc
  have := isDigit_of_mem_intRepr hc
  refine ⟨?_, ?_, ?_, ?_, ?_, ?_⟩ <;> (rintro rfl; revert this; decide)

theorem length_pyStrip_le (s : List Char) : (pyStrip s).length ≤ (s.dropWhile isWs).length := by
  unfold pyStrip
  rw [List.length_reverse]
  exact Nat.le_trans (List.dropWhile_sublist _).length_le (by simp)

theorem head_of_dropWhile_eq {p : Char → Bool} {l : List Char} (h : l.dropWhile p = l) :
    ∀ a ∈ l.head?, p a = false := by
  cases l with
  | nil => simp
  | cons x m =>
    intro a ha
    simp at ha; subst ha
    cases hx : p x with
    | false => rfl
    | true =>
      rw [List.dropWhile_cons, hx, if_pos rfl] at h
      have := (List.dropWhile_sublist p (l := m)).length_le
      rw [h] at this
      simp at this
      omega

theorem tight_of_pyStrip {s : List Char} (h : pyStrip s = s) : Tight s := by
  have h1 : s.dropWhile isWs = s := by
    apply List.Sublist.eq_of_length (List.dropWhile_sublist _)
    have a := length_pyStrip_le s
    have b := (List.dropWhile_sublist isWs (l := s)).length_le
    rw [h] at a
    omega
  have h2 : s.reverse.dropWhile isWs = s.reverse := by
    unfold pyStrip at h
    rw [h1] at h
    have := congrArg List.reverse h
    simpa using this
  refine ⟨head_of_dropWhile_eq h1, ?_⟩
  intro z hz
  apply head_of_dropWhile_eq h2
  simpa using hz

/-! ### the int converter -/

theorem pyIntDigits_digits (ds : List Char) (hd : ∀ c ∈ ds, c.isDigit = true) (a : Nat) :
    pyIntDigits ds true (some a) = some (ds.foldl (fun acc c => acc * 10 + (c.toNat - '0'.toNat)) a) := by
  induction ds generalizing a with
  | nil => simp [pyIntDigits]
  | cons c cs ih =>
    simp only [pyIntDigits, hd c (by simp), if_true, Option.getD_some, List.foldl_cons]
    exact ih (fun d hd' => hd d (List.mem_cons_of_mem _ hd')) _

theorem pyInt_digits {ds : List Char} (hne : ds ≠ []) (hd : ∀ c ∈ ds, c.isDigit = true) :
    pyInt ds = some (digitsVal ds : Nat) := by
  cases ds with
  | nil => exact absurd rfl hne
  | cons c cs =>
    have hc := hd c (by simp)
    have hmain : (pyIntDigits (c :: cs) false none).map (fun n => (n : Int)) = some ((digitsVal (c :: cs) : Nat) : Int) := by
      simp only [pyIntDigits, hc, if_true, Option.getD_none]
      rw [pyIntDigits_digits cs (fun d hd' => hd d (List.mem_cons_of_mem _ hd'))]
      simp [digitsVal]
    unfold pyInt
    split
    · rename_i rest heq
      simp only [List.cons.injEq] at heq
      rw [heq.1] at hc; exact absurd hc (by decide)
    · rename_i rest heq
      simp only [List.cons.injEq] at heq
      rw [heq.1] at hc; exact absurd hc (by decide)
    · exact hmain

theorem convInt_intRepr (n : Nat) : convInt (intRepr (Int.ofNat n)) = .ok (.int (Int.ofNat n)) := by
  unfold convInt
  rw [pyInt_digits (intRepr_ne_nil n) (fun c hc => isDigit_of_mem_intRepr hc), digitsVal_intRepr]
  rfl

/-! ### files -/

theorem unescape_id {t : List Char} (h : '\\' ∉ t) : readFile.unescape t = t := by
  induction t with
  | nil => simp [readFile.unescape]
  | cons c cs ih =>
    have hc : c ≠ '\\' := by rintro rfl; exact h (by simp)
    have ih' := ih (fun hm => h (List.mem_cons_of_mem _ hm))
    unfold readFile.unescape
    split
    · rename_i heq; simp only [List.cons.injEq] at heq; exact absurd heq.1 hc
    · rename_i heq; simp only [List.cons.injEq] at heq
      obtain ⟨rfl, rfl⟩ := heq
      rw [ih']
    · rename_i heq; simp at heq

theorem pySplit_lines (ls : List (List Char)) (h : ∀ l ∈ ls, '\n' ∉ l) :
    pySplit '\n' (ls.flatMap fun l => l ++ ['\n']) = ls ++ [[]] := by
  induction ls with
  | nil => simp [pySplit]
  | cons l ls ih =>
    rw [List.flatMap_cons, List.append_assoc]
    simp only [List.cons_append, List.nil_append]
    rw [pySplit_hit _ (h l (by simp)), ih (fun l' hl' => h l' (List.mem_cons_of_mem _ hl'))]

theorem mapM_ok {α β : Type} (f : α → Except PErr β) (g : α → β) (l : List α) (h : ∀ a ∈ l, f a = .ok (g a)) :
    l.mapM f = .ok (l.map g) := by
  induction l with
  | nil => simp [pure, Except.pure]
  | cons a l ih =>
    rw [List.mapM_cons, h a (by simp), ih (fun b hb => h b (List.mem_cons_of_mem _ hb))]
    rfl

theorem mapM_map_ok {α β : Type} (f : α → Except PErr β) (h : β → α) (l : List β) (hl : ∀ b ∈ l, f (h b) = .ok b) :
    (l.map h).mapM f = .ok l := by
  induction l with
  | nil => simp [pure, Except.pure]
  | cons a l ih =>
    rw [List.map_cons, List.mapM_cons, hl a (by simp), ih (fun b hb => hl b (List.mem_cons_of_mem _ hb))]
    rfl

theorem readFile_write (rs : List NRanking)
    (h : ∀ r ∈ rs, parseTies convInt (renderRanking r) = .ok r ∧ ∀ c ∈ renderRanking r, c ≠ '\\' ∧ c ≠ '\n') :
    readFile (writeFile rs) = .ok rs := by
  have hun : readFile.unescape (writeFile rs) = writeFile rs := by
    apply unescape_id
    intro hm
    obtain ⟨r, hr, hc⟩ := List.mem_flatMap.1 hm
    rcases List.mem_append.1 hc with hc | hc
    · exact ((h r hr).2 _ hc).1 rfl
    · revert hc; decide
  have hsplit : pySplit '\n' (writeFile rs) = rs.map renderRanking ++ [[]] := by
    have := pySplit_lines (rs.map renderRanking) (by
      intro l hl hc
      obtain ⟨r, hr, rfl⟩ := List.mem_map.1 hl
      exact ((h r hr).2 _ hc).2 rfl)
    rw [← this, writeFile, List.flatMap_map]
  have hfilter : (rs.map renderRanking ++ [[]]).filter
      (fun l => !(pyStrip l).isEmpty && l.head? != some '%') = rs.map renderRanking := by
    rw [List.filter_append, List.filter_eq_self.2]
    · simp [pyStrip]
    · intro l hl
      obtain ⟨r, hr, rfl⟩ := List.mem_map.1 hl
      have ht := tight_render r
      rw [pyStrip_tight ht.1 ht.2]
      rw [renderRanking_eq]
      simp
  unfold readFile
  simp only [hun, hsplit, hfilter]
  rw [mapM_map_ok (parseTies convInt) renderRanking rs (fun r hr => (h r hr).1)]

end C18R
end Corankco
