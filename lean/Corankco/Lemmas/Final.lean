import Corankco.Lemmas.BioTerm
import Corankco.Lemmas.SubTable
import Corankco.Lemmas.Compose
import Corankco.Lemmas.PartLoop
/-
  Helper lemmas for the unconditional end-to-end statements (C08u, C09u, C06f):
  * the default starting points of BioConsert have their rows among the default departure rows,
  * the id map `SubTable.idx` is injective on the universe, and bucket ids commute with it,
  * the consensus of ParCons only depends on the sub-solvers where they are actually called.
-/
namespace Corankco
open Model Spec
namespace Final

/-! ### default starting points of BioConsert -/

/-- on a complete dataset, unification changes nothing -/
theorem unifyRanking_of_complete (D : Dataset) (hc : isComplete D = true) (r : Ranking) (hr : r ∈ D) :
    unifyRanking (univOf D) r = r := by
  unfold unifyRanking
  simp only [isComplete, List.all_eq_true, List.contains_iff_mem] at hc
  have hnil : ((univOf D).filter fun x => !(r.flatten.contains x)) = [] := by
    rw [List.filter_eq_nil_iff]
    intro x hx
    simp [hc x hx r hr]
  rw [hnil]
  rfl

/-- the row of the all-tied ranking is the all-zero row -/
theorem rowOf_allTied (univ : List Elem) : rowOf univ [univ] = List.replicate univ.length 0 := by
  unfold rowOf
  rw [List.eq_replicate_iff]
  refine ⟨by simp, ?_⟩
  intro b hb
  obtain ⟨x, hx, rfl⟩ := List.mem_map.mp hb
  simp [bidIn, hx]

/-- the row of every unified input ranking is a default departure row (membership survives `eraseDups`) -/
theorem unified_row_mem_default (D : Dataset) (r : Ranking) (hr : r ∈ D) :
    rowOf (univOf D) (unifyRanking (univOf D) r) ∈ departuresDefault D := by
  unfold departuresDefault
  simp only []
  apply List.mem_append_left
  rw [List.mem_eraseDups, List.mem_map]
  by_cases hc : isComplete D = true
  · rw [if_pos hc]
    exact ⟨r, hr, by rw [unifyRanking_of_complete D hc r hr]⟩
  · rw [if_neg hc]
    exact ⟨_, List.mem_map.mpr ⟨r, hr, rfl⟩, rfl⟩

/-- the all-zero row is a default departure row -/
theorem allTied_row_mem_default (D : Dataset) :
    List.replicate (univOf D).length 0 ∈ departuresDefault D := by
  unfold departuresDefault
  simp

theorem departuresDefault_ne_nil (D : Dataset) : departuresDefault D ≠ [] := by
  simp [departuresDefault]

/-- every unified input ranking is well formed over the universe -/
theorem unified_wf (D : Dataset) (hD : ∀ r ∈ D, r.flatten.Nodup) (hDne : ∀ r ∈ D, ∀ b ∈ r, b ≠ [])
    (r : Ranking) (hr : r ∈ D) : wellFormedRanking (univOf D) (unifyRanking (univOf D) r) = true :=
  BioSM.wellFormed_unifyRanking _ (univOf_nodup D) r (hDne r hr) (hD r hr) (BioSM.flatten_subset_univOf D r hr)

/-- the all-tied ranking is well formed as soon as the universe is not empty -/
theorem allTied_wf (univ : List Elem) (hu : univ.Nodup) (hne : univ ≠ []) :
    wellFormedRanking univ [univ] = true := by
  rw [BioSM.wellFormedRanking_iff]
  refine ⟨?_, by simpa using hu, by simp, by simp⟩
  intro b hb
  rw [List.mem_singleton.mp hb]
  exact hne

theorem scoreVecN_nil (t : Table) : scoreVecN t [] = 0 := by
  simp [scoreVecN, scoreVec]

/-! ### the id map of the universe -/

open SubTable in
/-- the id map is injective on the universe -/
theorem idx_inj {U : List Elem} {x y : Elem} (hx : x ∈ U) (hy : y ∈ U) (h : idx U x = idx U y) : x = y := by
  have h1 := indexOf?_getElem? (indexOf?_eq_idx hx)
  have h2 := indexOf?_getElem? (indexOf?_eq_idx hy)
  rw [h, h2] at h1
  exact (Option.some.inj h1).symm

open SubTable in
/-- the id of the `i`-th element of a universe without repetition is `i` -/
theorem idx_getD {U : List Elem} (hU : U.Nodup) {i : Nat} (hi : i < U.length) : idx U (U.getD i 0) = i := by
  rw [getD_of_lt _ _ _ hi]
  simp [idx, indexOf?_getElem_nodup hU i hi]

theorem getD_mem {U : List Elem} {i : Nat} (hi : i < U.length) : U.getD i 0 ∈ U := by
  rw [getD_of_lt _ _ _ hi]
  exact List.getElem_mem hi

open SubTable in
theorem mem_map_idx {U : List Elem} {b : List Elem} (hb : ∀ y ∈ b, y ∈ U) {x : Elem} (hx : x ∈ U) :
    idx U x ∈ b.map (idx U) ↔ x ∈ b := by
  constructor
  · intro h
    obtain ⟨y, hy, e⟩ := List.mem_map.mp h
    rw [← idx_inj (hb y hy) hx e]
    exact hy
  · exact fun h => List.mem_map.mpr ⟨x, h, rfl⟩

open SubTable in
/-- bucket ids commute with the id map: the bucket of the id of `x` in the ranking read as ids is the bucket of `x` -/
theorem bidIn_map_idx (U : List Elem) (c : Ranking) (hc : ∀ y ∈ c.flatten, y ∈ U) (x : Elem) (hx : x ∈ U) :
    bidIn (c.map fun b => b.map (idx U)) (idx U x) = bidIn c x := by
  induction c with
  | nil => rfl
  | cons b bs ih =>
    have hb : ∀ y ∈ b, y ∈ U := fun y hy => hc y (by simp [hy])
    have ih' := ih (fun y hy => hc y (by simp [hy]))
    simp only [List.map_cons, bidIn, mem_map_idx hb hx, ih']

/-- ids → elements → ids is the identity on ids below the size of the universe -/
theorem map_idx_map_getD {U : List Elem} (hU : U.Nodup) (g : List Nat) (hg : ∀ i ∈ g, i < U.length) :
    (g.map fun i => U.getD i 0).map (SubTable.idx U) = g := by
  rw [List.map_map]
  conv => rhs; rw [← List.map_id g]
  apply List.map_congr_left
  intro i hi
  simp only [Function.comp_apply, id]
  exact idx_getD hU (hg i hi)

/-- distinct ids give distinct elements -/
theorem nodup_map_getD {U : List Elem} (hU : U.Nodup) (g : List Nat) (hg : ∀ i ∈ g, i < U.length)
    (hn : g.Nodup) : (g.map fun i => U.getD i 0).Nodup := by
  rw [List.nodup_iff_pairwise_ne] at hn ⊢
  rw [List.pairwise_map]
  refine hn.imp_of_mem ?_
  intro a b ha hb hab e
  apply hab
  rw [← idx_getD hU (hg a ha), ← idx_getD hU (hg b hb), e]

/-! ### ParCons only looks at its sub-solvers where it calls them -/

theorem flatMap_congr_mem {α β : Type} (l : List α) (f g : α → List β) (h : ∀ a ∈ l, f a = g a) :
    l.flatMap f = l.flatMap g := by
  induction l with
  | nil => rfl
  | cons a as ih =>
    rw [List.flatMap_cons, List.flatMap_cons, h a (by simp), ih (fun b hb => h b (by simp [hb]))]

/-- the consensus of ParCons is unchanged when the sub-solvers are changed where they are not called -/
theorem parCons_consensus_congr (t : Table) (comps : List (List Nat)) (bound : Nat)
    (exact aux exact' aux' : List Nat → List (List Nat))
    (he : ∀ c ∈ comps, canBeAllTied c t = false → ¬ c.length > bound → exact c = exact' c)
    (ha : ∀ c ∈ comps, canBeAllTied c t = false → c.length > bound → aux c = aux' c) :
    (parCons t comps bound exact aux).consensus = (parCons t comps bound exact' aux').consensus := by
  obtain ⟨_, _, h3⟩ := PartLoop.parCons_foldl t bound exact aux comps
    { consensus := [], optimal := true, partition := [] }
  obtain ⟨_, _, h3'⟩ := PartLoop.parCons_foldl t bound exact' aux' comps
    { consensus := [], optimal := true, partition := [] }
  rw [PartLoop.parCons_eq_foldl, PartLoop.parCons_eq_foldl, h3, h3']
  congr 1
  apply flatMap_congr_mem
  intro c hc
  cases hct : canBeAllTied c t with
  | true => simp
  | false =>
    by_cases hb : c.length > bound
    · simp [hb, ha c hc hct hb]
    · simp [hb, he c hc hct hb]

end Final
end Corankco
