import Corankco.Spec.Bio
import Corankco.Lemmas.Basic
/-
  The delta arrays of BioConsert (`Model.computeDelta`, mirror of `_compute_delta_costs`) are score differences:
  the cumulative values that the two searches read from `change` / `add` are exactly
  `score(after the single-element move) - score(before)`.

  Plan: (1) a move of `x` only changes the pairs involving `x`, and with the mirror law these can all be read from
  row `x` of the table; (2) every range sum of the arrays is a sum over the other elements `y` of a contribution
  that depends only on the bucket of `y`; (3) that contribution telescopes to the difference of the selected costs.
-/
namespace Corankco
open Model Spec

/-! ### sums -/

theorem isum_map_sub {α : Type} (f g : α → Int) (l : List α) :
    isum (l.map fun a => f a - g a) = isum (l.map f) - isum (l.map g) := by
  induction l with
  | nil => rfl
  | cons x xs ih => simp [ih]; omega

/-- a sum with a single possibly non-zero term -/
theorem isum_map_ite_eq (l : List Nat) (hnd : l.Nodup) (x : Nat) (c : Int) :
    isum (l.map fun y => if y = x then c else 0) = if x ∈ l then c else 0 := by
  induction l with
  | nil => simp
  | cons a l ih =>
    rw [List.nodup_cons] at hnd
    simp only [List.map_cons, isum_cons, ih hnd.2, List.mem_cons]
    by_cases h : a = x
    · subst h; simp [hnd.1]
    · have h' : ¬ x = a := fun e => h e.symm
      simp [h, h']

/-- Sum over the pairs of a duplicate-free list of a function that vanishes on the pairs avoiding `x`:
    only the pairs through `x` remain. -/
theorem isum_pairs_single (x : Nat) (g : Nat → Int) (F : Nat → Nat → Int) (l : List Nat) (hnd : l.Nodup)
    (hF0 : ∀ i j, i ∈ l → j ∈ l → i ≠ x → j ≠ x → F i j = 0)
    (hF1 : ∀ j, j ∈ l → j ≠ x → F x j = g j)
    (hF2 : ∀ i, i ∈ l → i ≠ x → F i x = g i) :
    isum ((pairs l).map fun p => F p.1 p.2) =
      if x ∈ l then isum (l.map fun y => if y = x then 0 else g y) else 0 := by
  induction l with
  | nil => simp
  | cons a l ih =>
    rw [List.nodup_cons] at hnd
    have ih' := ih hnd.2 (fun i j hi hj => hF0 i j (by simp [hi]) (by simp [hj]))
      (fun j hj => hF1 j (by simp [hj])) (fun i hi => hF2 i (by simp [hi]))
    simp only [pairs_cons, List.map_append, List.map_map, isum_append, ih', Function.comp_def,
      List.map_cons, isum_cons, List.mem_cons]
    by_cases h : a = x
    · subst h
      have e : isum (l.map fun y => F a y) = isum (l.map fun y => if y = a then 0 else g y) := by
        apply isum_map_congr
        intro y hy
        have hya : y ≠ a := fun e => hnd.1 (e ▸ hy)
        simp [hya, hF1 y (by simp [hy]) hya]
      simp [hnd.1, e]
    · have h' : ¬ x = a := fun e => h e.symm
      have e : isum (l.map fun y => F a y) = isum (l.map fun y => if y = x then g a else 0) := by
        apply isum_map_congr
        intro y hy
        by_cases hyx : y = x
        · subst hyx; simp [hF2 a (by simp) h]
        · simp [hyx, hF0 a y (by simp) (by simp [hy]) h hyx]
      rw [e, isum_map_ite_eq l hnd.2]
      by_cases hx : x ∈ l <;> simp [hx, h, h']

/-! ### the mirror law and the row-`x` decomposition of a score difference -/

theorem sel_mirror (t : Table) (n : Nat) (hm : MirrorT t n) (v : List Int) (i j : Nat) (hi : i < n) (hj : j < n) :
    sel t v i j = sel t v j i := by
  obtain ⟨h1, h2⟩ := hm i j hi hj
  obtain ⟨h3, _⟩ := hm j i hj hi
  simp only [sel]
  split <;> split <;> (try split) <;> (try split) <;> omega

/-- Two key vectors that agree outside `x`: the score difference only involves row `x` of the table. -/
theorem scoreVec_diff_row (t : Table) (v v' : List Int) (n x : Nat) (hv : v.length = n) (hv' : v'.length = n)
    (hx : x < n) (hm : MirrorT t n) (hag : ∀ i, i ≠ x → v'.getD i 0 = v.getD i 0) :
    scoreVec t v' - scoreVec t v =
      isum ((List.range n).map fun y => if y = x then 0 else sel t v' x y - sel t v x y) := by
  unfold scoreVec
  rw [hv, hv', ← isum_map_sub]
  have := isum_pairs_single x (fun y => sel t v' x y - sel t v x y)
    (fun i j => sel t v' i j - sel t v i j) (List.range n) List.nodup_range
    (by
      intro i j _ _ hi hj
      simp only [sel, hag i hi, hag j hj]
      omega)
    (by intro j _ _; rfl)
    (by
      intro i hi _
      have hi' : i < n := by simpa using hi
      simp only [sel_mirror t n hm v' i x hi' hx, sel_mirror t n hm v i x hi' hx])
  rw [this]
  simp [hx]

/-! ### difference arrays: `addAt`, `sumRange` -/

theorem length_addAt (l : List Int) (k : Nat) (v : Int) : (addAt l k v).length = l.length := by
  simp [addAt]

theorem getD_addAt (l : List Int) (k : Nat) (v : Int) (i : Nat) :
    (addAt l k v).getD i 0 = l.getD i 0 + if k = i ∧ i < l.length then v else 0 := by
  simp only [addAt, List.getD_eq_getElem?_getD, List.getElem?_modify]
  by_cases hi : i < l.length
  · simp only [List.getElem?_eq_getElem hi, Option.map_eq_map, Option.map_some, Option.getD_some]
    by_cases hk : k = i <;> simp [hk, hi]
  · simp [hi]

/-- `v` if `k` lies in the inclusive range `lo..hi`, else `0`. -/
def ind (lo hi k : Nat) (v : Int) : Int := if lo ≤ k ∧ k ≤ hi then v else 0

theorem isum_range_ite (lo k m : Nat) (v : Int) :
    isum ((List.range m).map fun i => if k = lo + i then v else 0) = if lo ≤ k ∧ k < lo + m then v else 0 := by
  induction m with
  | zero => simp; omega
  | succ m ih =>
    simp only [List.range_succ, List.map_append, isum_append, ih, List.map_cons, List.map_nil, isum_cons, isum_nil]
    omega

theorem sumRange_addAt (l : List Int) (k : Nat) (v : Int) (lo hi : Nat) (hk : k < l.length) :
    sumRange (addAt l k v) lo hi = sumRange l lo hi + ind lo hi k v := by
  unfold sumRange ind
  simp only [getD_addAt, isum_map_add]
  have e : isum ((List.range (hi + 1 - lo)).map fun i => if k = lo + i ∧ lo + i < l.length then v else 0) =
      isum ((List.range (hi + 1 - lo)).map fun i => if k = lo + i then v else 0) := by
    apply isum_map_congr
    intro i _
    by_cases h : k = lo + i
    · subst h; simp [hk]
    · simp [h]
  rw [e, isum_range_ite]
  omega

theorem sumRange_replicate (m lo hi : Nat) : sumRange (List.replicate m 0) lo hi = 0 := by
  unfold sumRange
  have : ∀ i, (List.replicate m (0 : Int)).getD i 0 = 0 := by
    intro i
    simp only [List.getD_eq_getElem?_getD, List.getElem?_replicate]
    split <;> rfl
  simp only [this]
  exact isum_map_zero _

theorem sumRange_single (l : List Int) (k : Nat) : sumRange l k k = l.getD k 0 := by
  unfold sumRange
  have : k + 1 - k = 1 := by omega
  rw [this]
  simp [List.range_succ]

theorem ind_isum {α : Type} (lo hi k : Nat) (f : α → Int) (l : List α) :
    ind lo hi k (isum (l.map f)) = isum (l.map fun y => ind lo hi k (f y)) := by
  unfold ind
  by_cases h : lo ≤ k ∧ k ≤ hi
  · simp [h]
  · simp [h, isum_map_zero]

theorem ind_sub (lo hi k : Nat) (a b : Int) : ind lo hi k (a - b) = ind lo hi k a - ind lo hi k b := by
  unfold ind; split <;> omega

/-! ### the loop of `computeDelta` -/

/-- contribution of `y` to the totals `ttb`, `tta`, `ttt` (same bucket as `x`, other element) -/
def tbOf (t : Table) (r : List Nat) (x b y : Nat) : Int := if r.getD y 0 = b ∧ x ≠ y then t.bef x y else 0
def taOf (t : Table) (r : List Nat) (x b y : Nat) : Int := if r.getD y 0 = b ∧ x ≠ y then t.aft x y else 0
def ttOf (t : Table) (r : List Nat) (x b y : Nat) : Int := if r.getD y 0 = b ∧ x ≠ y then t.tie x y else 0

/-- what the loop body for `y` adds to the range sum `lo..hi` of `change` -/
def foldCh (t : Table) (r : List Nat) (x b lo hi y : Nat) : Int :=
  if b < r.getD y 0 then
    ind lo hi (r.getD y 0) (t.tie x y - t.bef x y) + ind lo hi (r.getD y 0 + 1) (t.aft x y - t.tie x y)
  else if r.getD y 0 < b then
    ind lo hi (r.getD y 0) (t.tie x y - t.aft x y) +
      (if r.getD y 0 ≠ 0 then ind lo hi (r.getD y 0 - 1) (t.bef x y - t.tie x y) else 0)
  else 0

/-- same for `add` -/
def foldAd (t : Table) (r : List Nat) (x b lo hi y : Nat) : Int :=
  if b < r.getD y 0 then ind lo hi (r.getD y 0 + 1) (t.aft x y - t.bef x y)
  else if r.getD y 0 < b then ind lo hi (r.getD y 0) (t.bef x y - t.aft x y)
  else 0

theorem deltaStep_spec (t : Table) (r : List Nat) (x b : Nat) (st : DeltaSt) (y lo hi : Nat)
    (hc : r.getD y 0 + 1 < st.change.length) (ha : r.getD y 0 + 1 < st.add.length) :
    (deltaStep t r x b st y).change.length = st.change.length ∧
    (deltaStep t r x b st y).add.length = st.add.length ∧
    sumRange (deltaStep t r x b st y).change lo hi = sumRange st.change lo hi + foldCh t r x b lo hi y ∧
    sumRange (deltaStep t r x b st y).add lo hi = sumRange st.add lo hi + foldAd t r x b lo hi y ∧
    (deltaStep t r x b st y).ttb = st.ttb + tbOf t r x b y ∧
    (deltaStep t r x b st y).tta = st.tta + taOf t r x b y ∧
    (deltaStep t r x b st y).ttt = st.ttt + ttOf t r x b y ∧
    (deltaStep t r x b st y).alone = (st.alone && !decide (r.getD y 0 = b ∧ x ≠ y)) := by
  unfold deltaStep foldCh foldAd tbOf taOf ttOf
  by_cases h1 : b < r.getD y 0
  · have hne : ¬ r.getD y 0 = b := by omega
    simp only [h1, if_true, length_addAt, hne, false_and, if_false, decide_false, Bool.not_false, Bool.and_true,
      true_and, and_true, Int.add_zero]
    rw [sumRange_addAt _ _ _ _ _ (by simp only [length_addAt]; omega), sumRange_addAt _ _ _ _ _ (by omega),
      sumRange_addAt _ _ _ _ _ (by omega)]
    omega
  · by_cases h2 : b > r.getD y 0
    · have hne : ¬ r.getD y 0 = b := by omega
      have h2' : r.getD y 0 < b := h2
      by_cases h0 : r.getD y 0 ≠ 0
      · simp only [h1, h2, h0, ne_eq, not_false_eq_true, if_true, if_false, length_addAt, hne, false_and,
          decide_false, Bool.not_false, Bool.and_true, true_and, and_true, Int.add_zero]
        rw [sumRange_addAt _ _ _ _ _ (by simp only [length_addAt]; omega), sumRange_addAt _ _ _ _ _ (by omega),
          sumRange_addAt _ _ _ _ _ (by omega)]
        omega
      · simp only [h1, h2, h0, ne_eq, if_true, if_false, length_addAt, hne, false_and,
          decide_false, Bool.not_false, Bool.and_true, true_and, and_true, Int.add_zero]
        rw [sumRange_addAt _ _ _ _ _ (by omega), sumRange_addAt _ _ _ _ _ (by omega)]
        omega
    · have he : r.getD y 0 = b := by omega
      have h2' : ¬ r.getD y 0 < b := by omega
      simp only [he, Nat.lt_irrefl, if_false, gt_iff_lt, true_and, Int.add_zero]
      by_cases hxy : x ≠ y
      · simp [hxy]
      · simp [hxy]

theorem deltaFold_spec (t : Table) (r : List Nat) (x b lo hi : Nat) (ys : List Nat) (st : DeltaSt)
    (hc : ∀ y ∈ ys, r.getD y 0 + 1 < st.change.length) (ha : ∀ y ∈ ys, r.getD y 0 + 1 < st.add.length) :
    (ys.foldl (deltaStep t r x b) st).change.length = st.change.length ∧
    (ys.foldl (deltaStep t r x b) st).add.length = st.add.length ∧
    sumRange (ys.foldl (deltaStep t r x b) st).change lo hi =
      sumRange st.change lo hi + isum (ys.map (foldCh t r x b lo hi)) ∧
    sumRange (ys.foldl (deltaStep t r x b) st).add lo hi =
      sumRange st.add lo hi + isum (ys.map (foldAd t r x b lo hi)) ∧
    (ys.foldl (deltaStep t r x b) st).ttb = st.ttb + isum (ys.map (tbOf t r x b)) ∧
    (ys.foldl (deltaStep t r x b) st).tta = st.tta + isum (ys.map (taOf t r x b)) ∧
    (ys.foldl (deltaStep t r x b) st).ttt = st.ttt + isum (ys.map (ttOf t r x b)) ∧
    (ys.foldl (deltaStep t r x b) st).alone =
      (st.alone && ys.all fun y => !decide (r.getD y 0 = b ∧ x ≠ y)) := by
  induction ys generalizing st with
  | nil => simp
  | cons y ys ih =>
    obtain ⟨s1, s2, s3, s4, s5, s6, s7, s8⟩ :=
      deltaStep_spec t r x b st y lo hi (hc y (by simp)) (ha y (by simp))
    obtain ⟨i1, i2, i3, i4, i5, i6, i7, i8⟩ := ih (deltaStep t r x b st y)
      (fun z hz => by rw [s1]; exact hc z (by simp [hz])) (fun z hz => by rw [s2]; exact ha z (by simp [hz]))
    simp only [List.foldl_cons, List.map_cons, isum_cons, List.all_cons]
    rw [i1, i2, i3, i4, i5, i6, i7, i8, s1, s2, s3, s4, s5, s6, s7, s8]
    refine ⟨rfl, rfl, ?_, ?_, ?_, ?_, ?_, ?_⟩ <;> first | omega | simp [Bool.and_assoc]

/-! ### `computeDelta`: every range sum is a sum of per-element contributions -/

theorem getD_lt_of_bound (r : List Nat) (hb : ∀ v ∈ r, v < r.length) (y : Nat) (hy : y < r.length) :
    r.getD y 0 < r.length := by
  rw [getD_of_lt r y 0 hy]; exact hb _ (List.getElem_mem hy)

/-- contribution of `y` to the range sum `lo..hi` of the final `change` -/
def chTerm (t : Table) (r : List Nat) (x lo hi y : Nat) : Int :=
  foldCh t r x (r.getD x 0) lo hi y +
  (if r.getD x 0 ≠ 0 then
    ind lo hi (r.getD x 0 - 1) (tbOf t r x (r.getD x 0) y - ttOf t r x (r.getD x 0) y) else 0) +
  ind lo hi (r.getD x 0 + 1) (taOf t r x (r.getD x 0) y - ttOf t r x (r.getD x 0) y)

/-- contribution of `y` to the range sum `lo..hi` of the final `add` -/
def adTerm (t : Table) (r : List Nat) (x lo hi y : Nat) : Int :=
  foldAd t r x (r.getD x 0) lo hi y +
  ind lo hi (r.getD x 0 + 1) (taOf t r x (r.getD x 0) y - ttOf t r x (r.getD x 0) y) +
  ind lo hi (r.getD x 0) (tbOf t r x (r.getD x 0) y - ttOf t r x (r.getD x 0) y)

/-- the state after the loop of `computeDelta` -/
def deltaLoop (t : Table) (r : List Nat) (x : Nat) : DeltaSt :=
  (List.range r.length).foldl (deltaStep t r x (r.getD x 0))
    { change := List.replicate (r.length + 2) 0, add := List.replicate (r.length + 3) 0, alone := true,
      ttb := 0, tta := 0, ttt := 0 }

theorem computeDelta_fst (t : Table) (r : List Nat) (x : Nat) :
    (computeDelta t r x).1 =
      addAt (if r.getD x 0 ≠ 0 then
          addAt (deltaLoop t r x).change (r.getD x 0 - 1) ((deltaLoop t r x).ttb - (deltaLoop t r x).ttt)
        else (deltaLoop t r x).change) (r.getD x 0 + 1) ((deltaLoop t r x).tta - (deltaLoop t r x).ttt) := rfl

theorem computeDelta_snd (t : Table) (r : List Nat) (x : Nat) :
    (computeDelta t r x).2.1 =
      addAt (addAt (deltaLoop t r x).add (r.getD x 0 + 1) ((deltaLoop t r x).tta - (deltaLoop t r x).ttt))
        (r.getD x 0) ((deltaLoop t r x).ttb - (deltaLoop t r x).ttt) := rfl

theorem computeDelta_trd (t : Table) (r : List Nat) (x : Nat) :
    (computeDelta t r x).2.2 = (deltaLoop t r x).alone := rfl

theorem deltaStep_alone (t : Table) (r : List Nat) (x b : Nat) (st : DeltaSt) (y : Nat) :
    (deltaStep t r x b st y).alone = (st.alone && !decide (r.getD y 0 = b ∧ x ≠ y)) := by
  unfold deltaStep
  generalize r.getD y 0 = b2
  by_cases h1 : b < b2
  · have hne : ¬ b2 = b := by omega
    simp [h1, hne]
  · by_cases h2 : b > b2
    · have hne : ¬ b2 = b := by omega
      simp [h1, h2, hne]
    · have he : b2 = b := by omega
      subst he
      by_cases hxy : x = y <;> simp [hxy]

theorem deltaFold_alone (t : Table) (r : List Nat) (x b : Nat) (ys : List Nat) (st : DeltaSt) :
    (ys.foldl (deltaStep t r x b) st).alone =
      (st.alone && ys.all fun y => !decide (r.getD y 0 = b ∧ x ≠ y)) := by
  induction ys generalizing st with
  | nil => simp
  | cons y ys ih =>
    simp only [List.foldl_cons, List.all_cons]
    rw [ih, deltaStep_alone, Bool.and_assoc]

theorem computeDelta_alone (t : Table) (r : List Nat) (x : Nat) :
    (computeDelta t r x).2.2 = (List.range r.length).all fun y => !decide (r.getD y 0 = r.getD x 0 ∧ x ≠ y) := by
  rw [computeDelta_trd, deltaLoop, deltaFold_alone]
  simp

theorem computeDelta_spec (t : Table) (r : List Nat) (hb : ∀ v ∈ r, v < r.length) (x : Nat) (hx : x < r.length)
    (lo hi : Nat) :
    sumRange (computeDelta t r x).1 lo hi = isum ((List.range r.length).map (chTerm t r x lo hi)) ∧
    sumRange (computeDelta t r x).2.1 lo hi = isum ((List.range r.length).map (adTerm t r x lo hi)) := by
  have hbx := getD_lt_of_bound r hb x hx
  have hspec := deltaFold_spec t r x (r.getD x 0) lo hi (List.range r.length)
    { change := List.replicate (r.length + 2) 0, add := List.replicate (r.length + 3) 0, alone := true,
      ttb := 0, tta := 0, ttt := 0 }
    (by
      intro y hy
      have := getD_lt_of_bound r hb y (by simpa using hy)
      simp only [List.length_replicate]; omega)
    (by
      intro y hy
      have := getD_lt_of_bound r hb y (by simpa using hy)
      simp only [List.length_replicate]; omega)
  rw [← deltaLoop] at hspec
  obtain ⟨i1, i2, i3, i4, i5, i6, i7, _⟩ := hspec
  simp only [List.length_replicate, sumRange_replicate, Int.zero_add] at i1 i2 i3 i4 i5 i6 i7
  rw [computeDelta_fst, computeDelta_snd]
  constructor
  · by_cases h0 : r.getD x 0 ≠ 0
    · rw [if_pos h0]
      rw [sumRange_addAt _ _ _ _ _ (by rw [length_addAt, i1]; omega), sumRange_addAt _ _ _ _ _ (by rw [i1]; omega),
        i3, i5, i6, i7]
      delta chTerm
      simp only [if_pos h0, isum_map_add, ind_sub, ind_isum, isum_map_sub] <;> omega
    · rw [if_neg h0]
      rw [sumRange_addAt _ _ _ _ _ (by rw [i1]; omega), i3, i6, i7]
      delta chTerm
      simp only [if_neg h0, isum_map_add, ind_sub, ind_isum, isum_map_sub, isum_map_zero] <;> omega
  · rw [sumRange_addAt _ _ _ _ _ (by rw [length_addAt, i2]; omega), sumRange_addAt _ _ _ _ _ (by rw [i2]; omega),
      i4, i5, i6, i7]
    delta adTerm
    simp only [isum_map_add, ind_sub, ind_isum, isum_map_sub] <;> omega

/-! ### keys of a move -/

theorem length_moveKeys (r : List Nat) (x : Nat) (k : Int) : (moveKeys r x k).length = r.length := by
  simp [moveKeys]

theorem getD_moveKeys_self (r : List Nat) (x : Nat) (k : Int) (hx : x < r.length) :
    (moveKeys r x k).getD x 0 = k := by
  simp [moveKeys, List.getD_eq_getElem?_getD, List.getElem?_mapIdx, List.getElem?_eq_getElem hx]

theorem getD_moveKeys_ne (r : List Nat) (x : Nat) (k : Int) (y : Nat) (hy : y < r.length) (hyx : y ≠ x) :
    (moveKeys r x k).getD y 0 = 2 * ((r.getD y 0 : Nat) : Int) + 1 := by
  simp [moveKeys, List.getD_eq_getElem?_getD, List.getElem?_mapIdx, List.getElem?_eq_getElem hy, hyx]

theorem getD_moveKeys_agree (r : List Nat) (x : Nat) (k k' : Int) (i : Nat) (hi : i ≠ x) :
    (moveKeys r x k').getD i 0 = (moveKeys r x k).getD i 0 := by
  simp [moveKeys, List.getD_eq_getElem?_getD, List.getElem?_mapIdx, hi]

/-- the current vector and its key form have the same score -/
theorem scoreVecN_eq_keys (t : Table) (r : List Nat) (x : Nat) (hx : x < r.length) :
    scoreVecN t r = scoreVec t (moveKeys r x (2 * (Int.ofNat (r.getD x 0)) + 1)) := by
  unfold scoreVecN scoreVec
  rw [length_moveKeys, List.length_map]
  apply isum_map_congr
  intro p hp
  obtain ⟨h1, h2⟩ := mem_pairs_range p hp
  have hk : ∀ y, y < r.length →
      (moveKeys r x (2 * (Int.ofNat (r.getD x 0)) + 1)).getD y 0 = 2 * ((r.getD y 0 : Nat) : Int) + 1 := by
    intro y hy
    by_cases hyx : y = x
    · subst hyx; rw [getD_moveKeys_self _ _ _ hy]; rfl
    · exact getD_moveKeys_ne _ _ _ _ hy hyx
  have hm : ∀ y, y < r.length → (r.map fun v => Int.ofNat v).getD y 0 = ((r.getD y 0 : Nat) : Int) := by
    intro y hy
    simp [List.getD_eq_getElem?_getD, List.getElem?_eq_getElem hy]
  simp only [sel, hk p.1 (by omega), hk p.2 h2, hm p.1 (by omega), hm p.2 h2]
  split <;> split <;> (try split) <;> (try split) <;> omega

/-- `alone` is "no other element shares the bucket of x" -/
theorem bio_alone_iff (t : Table) (r : List Nat) (x : Nat) (_hx : x < r.length) :
    (computeDelta t r x).2.2 = true ↔ ∀ y, y < r.length → y ≠ x → r.getD y 0 ≠ r.getD x 0 := by
  rw [computeDelta_alone]
  simp only [List.all_eq_true, List.mem_range, Bool.not_eq_true', decide_eq_false_iff_not]
  constructor
  · intro h y hy hyx e
    exact h y hy ⟨e, fun e' => hyx e'.symm⟩
  · intro h y hy e
    exact h y hy (fun e' => e.2 e'.symm) e.1

/-! ### telescoping of the contributions of one element -/

theorem chTerm_self (t : Table) (r : List Nat) (x lo hi : Nat) : chTerm t r x lo hi x = 0 := by
  simp [chTerm, foldCh, tbOf, taOf, ttOf, ind]

theorem adTerm_self (t : Table) (r : List Nat) (x lo hi : Nat) : adTerm t r x lo hi x = 0 := by
  simp [adTerm, foldAd, tbOf, taOf, ttOf, ind]

theorem chTerm_eq (t : Table) (r : List Nat) (x : Nat) (hx : x < r.length) (j : Nat) (_hjb : j ≠ r.getD x 0)
    (y : Nat) (hy : y < r.length) (hyx : y ≠ x) :
    (if j > r.getD x 0 then chTerm t r x (r.getD x 0 + 1) j y else chTerm t r x j (r.getD x 0 - 1) y) =
      sel t (moveKeys r x (2 * (Int.ofNat j) + 1)) x y -
        sel t (moveKeys r x (2 * (Int.ofNat (r.getD x 0)) + 1)) x y := by
  have hxy : x ≠ y := fun e => hyx e.symm
  simp only [sel, getD_moveKeys_self _ _ _ hx, getD_moveKeys_ne _ _ _ _ hy hyx, chTerm, foldCh, tbOf, taOf, ttOf,
    ind, Int.ofNat_eq_natCast, hxy, ne_eq, not_false_eq_true, and_true]
  generalize r.getD x 0 = b at *
  generalize r.getD y 0 = b2
  generalize t.bef x y = cb
  generalize t.aft x y = ca
  generalize t.tie x y = ct
  rcases Nat.lt_trichotomy b b2 with h | h | h <;> rcases Nat.lt_trichotomy j b2 with h' | h' | h' <;>
    rcases Nat.lt_trichotomy j b with h'' | h'' | h'' <;> omega

theorem adTerm_eq (t : Table) (r : List Nat) (x : Nat) (hx : x < r.length) (p : Nat)
    (y : Nat) (hy : y < r.length) (hyx : y ≠ x) :
    (if p > r.getD x 0 then adTerm t r x (r.getD x 0 + 1) p y else adTerm t r x p (r.getD x 0) y) =
      sel t (moveKeys r x (2 * (Int.ofNat p))) x y -
        sel t (moveKeys r x (2 * (Int.ofNat (r.getD x 0)) + 1)) x y := by
  have hxy : x ≠ y := fun e => hyx e.symm
  simp only [sel, getD_moveKeys_self _ _ _ hx, getD_moveKeys_ne _ _ _ _ hy hyx, adTerm, foldAd, tbOf, taOf, ttOf,
    ind, Int.ofNat_eq_natCast, hxy, ne_eq, not_false_eq_true, and_true]
  generalize r.getD x 0 = b at *
  generalize r.getD y 0 = b2
  generalize t.bef x y = cb
  generalize t.aft x y = ca
  generalize t.tie x y = ct
  rcases Nat.lt_trichotomy b b2 with h | h | h <;> rcases Nat.lt_trichotomy p b2 with h' | h' | h' <;>
    rcases Nat.lt_trichotomy p b with h'' | h'' | h'' <;> omega

/-! ### the main statements -/

/-- joining the existing bucket `j ≠ b`: the cumulative value read from `change` is the score difference.
    (`hb`: all bucket ids are `< n`, which density implies, see `DenseN.lt_length`; without it the writes at
    `b2 + 1` can fall outside the arrays and the statement is false, e.g. `r = [0, 5]`.) -/
theorem bio_delta_change (t : Table) (r : List Nat) (hm : MirrorT t r.length) (hb : ∀ v ∈ r, v < r.length)
    (x : Nat) (hx : x < r.length) (j : Nat) (_hj : j ≤ r.foldl max 0) (hjb : j ≠ r.getD x 0) :
    changeTo (computeDelta t r x).1 (r.getD x 0) j =
      scoreVec t (moveKeys r x (2 * (Int.ofNat j) + 1)) - scoreVecN t r := by
  rw [scoreVecN_eq_keys t r x hx,
    scoreVec_diff_row t _ _ r.length x (length_moveKeys _ _ _) (length_moveKeys _ _ _) hx hm
      (getD_moveKeys_agree r x _ _)]
  have key : changeTo (computeDelta t r x).1 (r.getD x 0) j =
      isum ((List.range r.length).map fun y =>
        if j > r.getD x 0 then chTerm t r x (r.getD x 0 + 1) j y else chTerm t r x j (r.getD x 0 - 1) y) := by
    unfold changeTo
    split
    · exact (computeDelta_spec t r hb x hx _ _).1
    · exact (computeDelta_spec t r hb x hx _ _).1
  rw [key]
  apply isum_map_congr
  intro y hy
  have hy' : y < r.length := by simpa using hy
  by_cases hyx : y = x
  · subst hyx; simp [chTerm_self]
  · rw [chTerm_eq t r x hx j hjb y hy' hyx, if_neg hyx]

/-- new singleton bucket just before old bucket `p` (`p = max+1`: at the end): same for `add`. -/
theorem bio_delta_add (t : Table) (r : List Nat) (hm : MirrorT t r.length) (hb : ∀ v ∈ r, v < r.length)
    (x : Nat) (hx : x < r.length) (p : Nat) (_hp : p ≤ r.foldl max 0 + 1) :
    addTo (computeDelta t r x).2.1 (r.getD x 0) p =
      scoreVec t (moveKeys r x (2 * (Int.ofNat p))) - scoreVecN t r := by
  rw [scoreVecN_eq_keys t r x hx,
    scoreVec_diff_row t _ _ r.length x (length_moveKeys _ _ _) (length_moveKeys _ _ _) hx hm
      (getD_moveKeys_agree r x _ _)]
  have key : addTo (computeDelta t r x).2.1 (r.getD x 0) p =
      isum ((List.range r.length).map fun y =>
        if p > r.getD x 0 then adTerm t r x (r.getD x 0 + 1) p y else adTerm t r x p (r.getD x 0) y) := by
    unfold addTo
    split
    · exact (computeDelta_spec t r hb x hx _ _).2
    · exact (computeDelta_spec t r hb x hx _ _).2
  rw [key]
  apply isum_map_congr
  intro y hy
  have hy' : y < r.length := by simpa using hy
  by_cases hyx : y = x
  · subst hyx; simp [adTerm_self]
  · rw [adTerm_eq t r x hx p y hy' hyx, if_neg hyx]

/-! ### the cell of the own bucket -/

theorem getD_addAt_ne (l : List Int) (k : Nat) (v : Int) (i : Nat) (h : ¬ k = i) :
    (addAt l k v).getD i 0 = l.getD i 0 := by
  rw [getD_addAt, if_neg (fun e => h e.1), Int.add_zero]

theorem deltaStep_change_own (t : Table) (r : List Nat) (x b : Nat) (st : DeltaSt) (y : Nat) :
    (deltaStep t r x b st y).change.getD b 0 = st.change.getD b 0 := by
  unfold deltaStep
  generalize r.getD y 0 = b2
  by_cases h1 : b < b2
  · have e1 : ¬ b2 = b := by omega
    have e2 : ¬ b2 + 1 = b := by omega
    simp only [h1, if_true, getD_addAt_ne _ _ _ _ e1, getD_addAt_ne _ _ _ _ e2]
  · by_cases h2 : b > b2
    · have e1 : ¬ b2 = b := by omega
      have e2 : ¬ b2 - 1 = b := by omega
      by_cases h0 : b2 ≠ 0
      · simp only [h1, h2, if_true, if_false, if_pos h0, getD_addAt_ne _ _ _ _ e1, getD_addAt_ne _ _ _ _ e2]
      · simp only [h1, h2, if_true, if_false, if_neg h0, getD_addAt_ne _ _ _ _ e1]
    · by_cases hxy : x ≠ y
      · simp only [h1, h2, if_false, if_pos hxy]
      · simp only [h1, h2, if_false, if_neg hxy]

theorem deltaFold_change_own (t : Table) (r : List Nat) (x b : Nat) (ys : List Nat) (st : DeltaSt) :
    (ys.foldl (deltaStep t r x b) st).change.getD b 0 = st.change.getD b 0 := by
  induction ys generalizing st with
  | nil => rfl
  | cons y ys ih => rw [List.foldl_cons, ih, deltaStep_change_own]

/-- the cell of the element's own bucket is never written: `change[b] = 0` -/
theorem bio_change_own_zero (t : Table) (r : List Nat) (x : Nat) (_hx : x < r.length) :
    (computeDelta t r x).1.getD (r.getD x 0) 0 = 0 := by
  have h : (deltaLoop t r x).change.getD (r.getD x 0) 0 = 0 := by
    rw [deltaLoop, deltaFold_change_own]
    simp only [List.getD_eq_getElem?_getD, List.getElem?_replicate]
    split <;> rfl
  rw [computeDelta_fst, getD_addAt]
  have e2 : ¬ r.getD x 0 + 1 = r.getD x 0 := by omega
  by_cases h0 : r.getD x 0 ≠ 0
  · have e1 : ¬ r.getD x 0 - 1 = r.getD x 0 := by omega
    rw [if_pos h0, getD_addAt_ne _ _ _ _ e1, h, if_neg (fun e => e2 e.1)]
    rfl
  · rw [if_neg h0, h, if_neg (fun e => e2 e.1)]
    rfl

/-! ### density gives the bound on the bucket ids -/

theorem length_ge_of_range_subset (m : Nat) : ∀ (r : List Nat), (∀ k, k < m → k ∈ r) → m ≤ r.length := by
  induction m with
  | zero => intro r _; omega
  | succ m ih =>
    intro r h
    have hm : m ∈ r := h m (by omega)
    have := ih (r.erase m) (fun k hk => (List.mem_erase_of_ne (by omega)).mpr (h k (by omega)))
    rw [List.length_erase_of_mem hm] at this
    have : 0 < r.length := List.length_pos_of_mem hm
    omega

theorem DenseN.lt_length {r : List Nat} (hd : DenseN r) : ∀ v ∈ r, v < r.length := by
  intro v hv
  have := length_ge_of_range_subset (v + 1) r (fun k hk => by
    by_cases e : k = v
    · exact e ▸ hv
    · exact hd v hv k (by omega))
  omega

/-- the statements under density -/
theorem bio_delta_change_dense (t : Table) (r : List Nat) (hm : MirrorT t r.length) (hd : DenseN r)
    (x : Nat) (hx : x < r.length) (j : Nat) (hj : j ≤ r.foldl max 0) (hjb : j ≠ r.getD x 0) :
    changeTo (computeDelta t r x).1 (r.getD x 0) j =
      scoreVec t (moveKeys r x (2 * (Int.ofNat j) + 1)) - scoreVecN t r :=
  bio_delta_change t r hm (DenseN.lt_length hd) x hx j hj hjb

theorem bio_delta_add_dense (t : Table) (r : List Nat) (hm : MirrorT t r.length) (hd : DenseN r)
    (x : Nat) (hx : x < r.length) (p : Nat) (hp : p ≤ r.foldl max 0 + 1) :
    addTo (computeDelta t r x).2.1 (r.getD x 0) p =
      scoreVec t (moveKeys r x (2 * (Int.ofNat p))) - scoreVecN t r :=
  bio_delta_add t r hm (DenseN.lt_length hd) x hx p hp

/-! ### concrete checks: 5 elements, buckets `{1,3} < {0,2} < {4}`, a table with the mirror law and
    pairwise different `bef / aft / tie` entries -/

namespace BioDeltaExample

def cst (i j : Nat) : Cost :=
  if i < j then (Int.ofNat (3 * i + j + 1), Int.ofNat (i + 2 * j * j + 2), Int.ofNat (7 * i + j * j))
  else if j < i then (Int.ofNat (j + 2 * i * i + 2), Int.ofNat (3 * j + i + 1), Int.ofNat (7 * j + i * i))
  else (0, 0, 0)

def tab : Table := (List.range 5).map fun i => (List.range 5).map fun j => cst i j

def vec : List Nat := [1, 0, 1, 0, 2]

example : (List.range 5).all (fun i => (List.range 5).all fun j =>
    tab.bef i j == tab.aft j i && tab.tie i j == tab.tie j i) = true := by decide
example : tab.bef 0 1 ≠ tab.aft 0 1 ∧ tab.bef 0 1 ≠ tab.tie 0 1 ∧ tab.get 0 1 ≠ tab.get 1 0 := by decide

-- element 2 (bucket 1, shared with 0): join bucket 0, join bucket 2
example : changeTo (computeDelta tab vec 2).1 1 0 = scoreVec tab (moveKeys vec 2 1) - scoreVecN tab vec := by decide
example : changeTo (computeDelta tab vec 2).1 1 2 = scoreVec tab (moveKeys vec 2 5) - scoreVecN tab vec := by decide
-- element 3 (bucket 0, shared with 1): join bucket 2
example : changeTo (computeDelta tab vec 3).1 0 2 = scoreVec tab (moveKeys vec 3 5) - scoreVecN tab vec := by decide
-- element 4 (alone in bucket 2): join bucket 0
example : changeTo (computeDelta tab vec 4).1 2 0 = scoreVec tab (moveKeys vec 4 1) - scoreVecN tab vec := by decide
-- new singleton buckets for element 2 before old buckets 0, 1, 2 and at the end
example : (List.range 4).all (fun p =>
    addTo (computeDelta tab vec 2).2.1 1 p == scoreVec tab (moveKeys vec 2 (2 * Int.ofNat p)) - scoreVecN tab vec) = true := by
  decide
example : (List.range 4).all (fun p =>
    addTo (computeDelta tab vec 4).2.1 2 p == scoreVec tab (moveKeys vec 4 (2 * Int.ofNat p)) - scoreVecN tab vec) = true := by
  decide
-- the values are not trivially zero
example : changeTo (computeDelta tab vec 2).1 1 0 = 12 ∧ addTo (computeDelta tab vec 2).2.1 1 3 = 24 := by decide
example : (computeDelta tab vec 2).2.2 = false ∧ (computeDelta tab vec 4).2.2 = true := by decide
example : (computeDelta tab vec 2).1.getD 1 0 = 0 := by decide
example : scoreVecN tab vec = scoreVec tab (moveKeys vec 2 3) := by decide

-- the bound on the ids is needed: on the non-dense vector `[0, 5]` the writes at index 5, 6 fall outside `change`
def tab2 : Table := [[(0, 0, 0), (1, 2, 4)], [(2, 1, 4), (0, 0, 0)]]
example : changeTo (computeDelta tab2 [0, 5] 0).1 0 5 = 0 ∧
    scoreVec tab2 (moveKeys [0, 5] 0 11) - scoreVecN tab2 [0, 5] = 3 := by decide
example : addTo (computeDelta tab2 [0, 5] 0).2.1 0 6 = 0 ∧
    scoreVec tab2 (moveKeys [0, 5] 0 12) - scoreVecN tab2 [0, 5] = 1 := by decide

end BioDeltaExample

end Corankco
