import Corankco.Model.Basic
/-
  Line protocol: every argument and every answer is a JSON-subset tree of integers and arrays.
  (`[[1,2],[3]]`; booleans travel as 0/1, strings as code-point lists.)
-/
namespace Corankco

inductive J where
  | n : Int → J
  | l : List J → J
deriving Inhabited

namespace J

partial def render : J → String
  | n i => toString i
  | l xs => "[" ++ ",".intercalate (xs.map render) ++ "]"

/-- Recursive-descent parser over a character array; returns the tree and the next index. -/
partial def parseAt (s : Array Char) (i : Nat) : Option (J × Nat) :=
  let rec skip (i : Nat) : Nat :=
    if h : i < s.size then (if s[i] = ' ' then skip (i + 1) else i) else i
  let i := skip i
  if h : i < s.size then
    let c := s[i]
    if c = '[' then
      let rec items (i : Nat) (acc : Array J) : Option (J × Nat) :=
        let i := skip i
        if h : i < s.size then
          if s[i] = ']' then some (J.l acc.toList, i + 1)
          else if s[i] = ',' then items (i + 1) acc
          else match parseAt s i with
            | some (v, j) => items j (acc.push v)
            | none => none
        else none
      items (i + 1) #[]
    else
      let neg := c = '-'
      let start := if neg then i + 1 else i
      let rec digits (i : Nat) (acc : Nat) (any : Bool) : Option (Nat × Nat) :=
        if h : i < s.size then
          let d := s[i]
          if d.isDigit then digits (i + 1) (acc * 10 + (d.toNat - '0'.toNat)) true
          else if any then some (acc, i) else none
        else if any then some (acc, i) else none
      match digits start 0 false with
      | some (v, j) => some (J.n (if neg then -(v : Int) else (v : Int)), j)
      | none => none
  else none

def parse (str : String) : Option J :=
  let a := str.toList.toArray
  match parseAt a 0 with
  | some (v, _) => some v
  | none => none

end J

class ToJ (α : Type) where
  toJ : α → J
class FromJ (α : Type) where
  fromJ : J → Option α

export ToJ (toJ)
export FromJ (fromJ)

instance : ToJ J := ⟨id⟩
instance : FromJ J := ⟨some⟩
instance : ToJ Int := ⟨J.n⟩
instance : ToJ Nat := ⟨fun n => J.n n⟩
instance : ToJ Bool := ⟨fun b => J.n (if b then 1 else 0)⟩
instance {α} [ToJ α] : ToJ (List α) := ⟨fun xs => J.l (xs.map toJ)⟩
instance {α β} [ToJ α] [ToJ β] : ToJ (α × β) := ⟨fun p => J.l [toJ p.1, toJ p.2]⟩
instance {α} [ToJ α] : ToJ (Option α) := ⟨fun o => match o with | none => J.l [] | some x => J.l [toJ x]⟩

instance : FromJ Int := ⟨fun j => match j with | J.n i => some i | _ => none⟩
instance : FromJ Nat := ⟨fun j => match j with | J.n i => if i < 0 then none else some i.toNat | _ => none⟩
instance : FromJ Bool := ⟨fun j => match j with | J.n i => some (i != 0) | _ => none⟩
instance {α} [FromJ α] : FromJ (List α) :=
  ⟨fun j => match j with | J.l xs => xs.mapM fromJ | _ => none⟩
instance {α β} [FromJ α] [FromJ β] : FromJ (α × β) :=
  ⟨fun j => match j with
    | J.l [a, b] => do let x ← fromJ a; let y ← fromJ b; pure (x, y)
    | _ => none⟩
instance {α} [FromJ α] : FromJ (Option α) :=
  ⟨fun j => match j with
    | J.l [] => some none
    | J.l [a] => do let x ← fromJ a; pure (some x)
    | _ => none⟩

instance : ToJ Scheme := ⟨fun S => toJ [S.bList, S.tList]⟩
instance : FromJ Scheme :=
  ⟨fun j => match (fromJ j : Option (List (List Int))) with
    | some [b, t] => if b.length = 6 ∧ t.length = 6 then some (Scheme.ofLists b t) else none
    | _ => none⟩

end Corankco
