/-
  Basic types of the model (import-free: the compiled driver links against this).

  * elements are `Nat` (the harness codes str / int elements through a table),
  * a bucket is the list of its members in the order CPython iterates the set (observed, passed in),
  * a ranking is the list of its buckets, a dataset the list of its rankings,
  * penalties are `Int` (the harness scales dyadic floats by a common denominator).
-/
namespace Corankco

abbrev Elem := Nat
abbrev Bucket := List Elem
abbrev Ranking := List Bucket
abbrev Dataset := List Ranking

/-- The two penalty vectors `B` and `T` of `scoringscheme.py`. -/
structure Scheme where
  b0 : Int
  b1 : Int
  b2 : Int
  b3 : Int
  b4 : Int
  b5 : Int
  t0 : Int
  t1 : Int
  t2 : Int
  t3 : Int
  t4 : Int
  t5 : Int
deriving Repr, DecidableEq

namespace Scheme

def B (S : Scheme) : Nat → Int
  | 0 => S.b0 | 1 => S.b1 | 2 => S.b2 | 3 => S.b3 | 4 => S.b4 | 5 => S.b5 | _ => 0

def T (S : Scheme) : Nat → Int
  | 0 => S.t0 | 1 => S.t1 | 2 => S.t2 | 3 => S.t3 | 4 => S.t4 | 5 => S.t5 | _ => 0

def bList (S : Scheme) : List Int := [S.b0, S.b1, S.b2, S.b3, S.b4, S.b5]
def tList (S : Scheme) : List Int := [S.t0, S.t1, S.t2, S.t3, S.t4, S.t5]

def ofLists (b t : List Int) : Scheme :=
  { b0 := b.getD 0 0, b1 := b.getD 1 0, b2 := b.getD 2 0, b3 := b.getD 3 0, b4 := b.getD 4 0, b5 := b.getD 5 0,
    t0 := t.getD 0 0, t1 := t.getD 1 0, t2 := t.getD 2 0, t3 := t.getD 3 0, t4 := t.getD 4 0, t5 := t.getD 5 0 }

/-- The validity constraints enforced by `ScoringScheme.__init__` (`scoringscheme.py:96-106`),
    on already-numeric penalties. -/
def Valid (S : Scheme) : Prop :=
  0 ≤ S.b0 ∧ 0 ≤ S.b1 ∧ 0 ≤ S.b2 ∧ 0 ≤ S.b3 ∧ 0 ≤ S.b4 ∧ 0 ≤ S.b5 ∧
  0 ≤ S.t0 ∧ 0 ≤ S.t1 ∧ 0 ≤ S.t2 ∧ 0 ≤ S.t3 ∧ 0 ≤ S.t4 ∧ 0 ≤ S.t5 ∧
  S.b0 = 0 ∧ 0 < S.b1 ∧ S.b3 ≤ S.b4 ∧ S.t0 = S.t1 ∧ S.t2 = 0 ∧ S.t3 = S.t4

instance (S : Scheme) : Decidable S.Valid := by unfold Valid; exact inferInstance

def scale (k : Int) (S : Scheme) : Scheme :=
  { b0 := k * S.b0, b1 := k * S.b1, b2 := k * S.b2, b3 := k * S.b3, b4 := k * S.b4, b5 := k * S.b5,
    t0 := k * S.t0, t1 := k * S.t1, t2 := k * S.t2, t3 := k * S.t3, t4 := k * S.t4, t5 := k * S.t5 }

end Scheme

/-- Sum of a list of integers. -/
def isum : List Int → Int
  | [] => 0
  | x :: xs => x + isum xs

/-- All pairs `(l[i], l[j])` with `i < j`, in lexicographic order of `(i, j)`. -/
def pairs {α : Type} : List α → List (α × α)
  | [] => []
  | x :: xs => xs.map (fun y => (x, y)) ++ pairs xs

/-- First index of `x` in `l`, if any. -/
def indexOf? (x : Nat) : List Nat → Option Nat
  | [] => none
  | y :: ys => if x = y then some 0 else (indexOf? x ys).map (· + 1)

/-- Elements of a list of lists in order of first appearance (Python: dict insertion order). -/
def dedup : List Nat → List Nat
  | [] => []
  | x :: xs => x :: (dedup xs).filter (· ≠ x)

/-- Index (position in the list of buckets) of the first bucket of `r` containing `x`. -/
def bucketIdx (r : Ranking) (x : Elem) : Option Nat :=
  match r with
  | [] => none
  | b :: bs => if x ∈ b then some 0 else (bucketIdx bs x).map (· + 1)

/-- The elements of a dataset in order of first appearance: ids are positions in this list
    (`dataset.py:143-162`: a dict filled while scanning rankings, buckets, members). -/
def univOf (D : Dataset) : List Elem := dedup (D.flatten.flatten)

/-- Domain of a ranking in iteration order. -/
def domain (r : Ranking) : List Elem := r.flatten

end Corankco
