import Corankco.Model.Basic
/-
  Model of `dataset.py:382-408` (position / bucket-id matrices) and of
  `pairwisebasedalgorithm.py` (cost table, graph of elements, robust arcs, `can_be_all_tied`).
-/
namespace Corankco
namespace Model

/-- `Ranking.positions[x] - 1`: number of elements in the buckets before the bucket of `x`; `-1` if unranked. -/
def posIn : Ranking → Elem → Int
  | [], _ => -1
  | b :: bs, x =>
      if x ∈ b then 0
      else
        let p := posIn bs x
        if p < 0 then -1 else p + b.length

/-- Index of the bucket of `x` in `r`; `-1` if unranked. -/
def bidIn : Ranking → Elem → Int
  | [], _ => -1
  | b :: bs, x =>
      if x ∈ b then 0
      else
        let p := bidIn bs x
        if p < 0 then -1 else p + 1

/-- `Dataset.get_positions()`: row `i` = positions of the element of id `i` in every ranking. -/
def getPositions (D : Dataset) : List (List Int) :=
  (univOf D).map fun x => D.map fun r => posIn r x

/-- `Dataset.get_bucket_ids()`. -/
def getBucketIds (D : Dataset) : List (List Int) :=
  (univOf D).map fun x => D.map fun r => bidIn r x

abbrev Cost := Int × Int × Int          -- (before, after, tied)
abbrev Table := List (List Cost)

def Cost.add (a b : Cost) : Cost := (a.1 + b.1, a.2.1 + b.2.1, a.2.2 + b.2.2)
def Cost.swap (a : Cost) : Cost := (a.2.1, a.1, a.2.2)

/-- The six-way case analysis of `_pairwise_cost_matrix_only` for one ranking
    (`pairwisebasedalgorithm.py:55-89`), `p1`, `p2` = positions (or bucket ids) of the two elements. -/
def stepCost (S : Scheme) (p1 p2 : Int) : Cost :=
  if p1 ≠ -1 ∧ p2 ≠ -1 then
    if p1 < p2 then (S.b0, S.b1, S.t0)
    else if p1 > p2 then (S.b1, S.b0, S.t1)
    else (S.b2, S.b2, S.t2)
  else if p1 ≠ -1 then (S.b3, S.b4, S.t3)
  else if p2 ≠ -1 then (S.b4, S.b3, S.t4)
  else (S.b5, S.b5, S.t5)

/-- Inner loop over the rankings for the pair of rows `(r1, r2)`. -/
def pairCost (S : Scheme) : List Int → List Int → Cost
  | p1 :: r1, p2 :: r2 => Cost.add (stepCost S p1 p2) (pairCost S r1 r2)
  | _, _ => (0, 0, 0)

/-- `_pairwise_cost_matrix_only`: upper triangle computed, lower triangle mirrored, diagonal zero. -/
def costMatrix (S : Scheme) (pos : List (List Int)) : Table :=
  (List.range pos.length).map fun i =>
    (List.range pos.length).map fun j =>
      if i < j then pairCost S (pos.getD i []) (pos.getD j [])
      else if j < i then Cost.swap (pairCost S (pos.getD j []) (pos.getD i []))
      else (0, 0, 0)

def Table.get (t : Table) (i j : Nat) : Cost := (t.getD i []).getD j (0, 0, 0)
def Table.bef (t : Table) (i j : Nat) : Int := (t.get i j).1
def Table.aft (t : Table) (i j : Nat) : Int := (t.get i j).2.1
def Table.tie (t : Table) (i j : Nat) : Int := (t.get i j).2.2

/-- Arcs of the graph of elements (`pairwisebasedalgorithm.py:189-205`):
    `(i, j)` whenever placing `i` after `j` is not the cheapest option. Diagonal entries are all 0. -/
def arcs (t : Table) : List (Nat × Nat) :=
  (List.range t.length).flatMap fun i =>
    ((List.range t.length).filter fun j => decide (t.aft i j > t.bef i j) || decide (t.aft i j > t.tie i j)).map
      fun j => (i, j)

/-- Robust arcs (`pairwisebasedalgorithm.py:179-186`): before strictly cheaper than after and than tied. -/
def robustArcs (t : Table) : List (Nat × Nat) :=
  (List.range t.length).flatMap fun i =>
    ((List.range t.length).filter fun j => decide (t.aft i j > t.bef i j) && decide (t.tie i j > t.bef i j)).map
      fun j => (i, j)

/-- `can_be_all_tied` (`pairwisebasedalgorithm.py:207-232`) on a list of ids (any order). -/
def canBeAllTied (ids : List Nat) (t : Table) : Bool :=
  (pairs ids).all fun p => decide (t.tie p.1 p.2 ≤ min (t.bef p.1 p.2) (t.aft p.1 p.2))

/-- Bucket-id vector of a complete candidate over the ids of `univ`: `v[i]` = bucket of the i-th element. -/
def vecOf (univ : List Elem) (c : Ranking) : List Int := univ.map (bidIn c)

/-- Cost selected by the relative placement of ids `i`, `j` in the vector `v`. -/
def sel (t : Table) (v : List Int) (i j : Nat) : Int :=
  let a := v.getD i 0
  let b := v.getD j 0
  if a < b then t.bef i j else if b < a then t.aft i j else t.tie i j

/-- Score of a bucket-id vector from the table: sum over `i < j` of the selected entries. -/
def scoreVec (t : Table) (v : List Int) : Int :=
  isum ((pairs (List.range v.length)).map fun p => sel t v p.1 p.2)

end Model
end Corankco
