import Corankco.Model.Basic
/-
  Model of `scoringscheme.py`: constructor validation (order of checks and exception class),
  multiplication, proportionality test (as repaired: both vectors are read), nickname.
  Numbers are integers: the harness scales the dyadic penalties by a common denominator.
-/
namespace Corankco
namespace Model

/-- The Python values a caller may hand to `ScoringScheme(...)`, as far as the constructor distinguishes them. -/
inductive PyVal where
  | list : List PyVal → PyVal
  | int : Int → PyVal
  | float : Int → PyVal      -- scaled
  | bool : Bool → PyVal      -- `isinstance(True, int)` holds in Python: a bool is accepted as 0 / 1
  | pynone : PyVal
  | str : PyVal
  | other : PyVal            -- tuple, dict, set, object ...
  | nan : PyVal              -- float('nan'): a float, but not a real number (as repaired: refused like a non-number)
  | inf : PyVal              -- float('inf') / float('-inf'): likewise
deriving Repr, Inhabited

inductive SErr where
  | invalid      -- InvalidScoringScheme
  | nonReal      -- NonRealPositiveValuesScoringScheme
  | forbidden    -- ForbiddenAssociationPenaltiesScoringScheme
  | valueError   -- ValueError (multiplication by a non-number)
deriving Repr, DecidableEq

/-- `isinstance(pen, float) or isinstance(pen, int)`, with the numeric value (`scale` = what the int 1 is worth). -/
def PyVal.num? (scale : Int) : PyVal → Option Int
  | .int i => some (i * scale)
  | .float f => some f
  | .bool b => some (if b then scale else 0)
  | _ => Option.none

def PyVal.asList? : PyVal → Option (List PyVal)
  | .list xs => some xs
  | _ => Option.none

/-- loop `for pen in penalties[k]` (`scoringscheme.py:85-92`). -/
def readPens (scale : Int) : List PyVal → Except SErr (List Int)
  | [] => .ok []
  | p :: ps =>
    match p.num? scale with
    | none => .error .nonReal
    | some v =>
      if v < 0 then .error .nonReal
      else match readPens scale ps with
        | .ok vs => .ok (v :: vs)
        | .error e => .error e

/-- The association checks of `scoringscheme.py:96-106` in the order the code performs them. -/
def assocOK (S : Scheme) : Bool :=
  !(S.t0 != S.t1 || S.t3 != S.t4 || decide (S.b3 > S.b4)) &&
  !(decide (S.b0 > 0) || decide (S.t2 > 0)) &&
  !(decide (S.b3 > S.b4)) &&
  !(S.b1 == 0)

/-- `ScoringScheme.__init__`. -/
def newScheme (scale : Int) (v : PyVal) : Except SErr Scheme :=
  match v with
  | .list [p0, p1] =>
    match p0.asList?, p1.asList? with
    | some l0, some l1 =>
      if l0.length != 6 || l1.length != 6 then .error .invalid
      else match readPens scale l0 with
        | .error e => .error e
        | .ok b => match readPens scale l1 with
          | .error e => .error e
          | .ok t =>
            let S := Scheme.ofLists b t
            if assocOK S then .ok S else .error .forbidden
    | _, _ => .error .invalid
  | _ => .error .invalid

/-- Build from already-numeric vectors (what `__mul__` and the presets do). -/
def ofNums (S : Scheme) : Except SErr Scheme :=
  if S.bList.any (· < 0) || S.tList.any (· < 0) then .error .nonReal
  else if assocOK S then .ok S else .error .forbidden

/-- `__mul__` / `__rmul__`: `k` is the (scaled) multiplier, `none` = not a number. -/
def mulScheme (S : Scheme) (k : Option Int) : Except SErr Scheme :=
  match k with
  | none => .error .valueError
  | some k => ofNums (Scheme.scale k S)

/-- what `__mul__` can be given: a finite number, something that is not a number, or NaN / ±inf (a float, but every
    product is NaN or infinite, which the constructor refuses as "non real") -/
inductive MulArg where
  | num : Int → MulArg
  | notNumber : MulArg
  | nonFinite : MulArg

def mulSchemeArg (S : Scheme) : MulArg → Except SErr Scheme
  | .num k => mulScheme S (some k)
  | .notNumber => mulScheme S none
  | .nonFinite => .error .nonReal

/-- state of the proportionality scan: the coefficient `pen1/pen2` as a fraction, `none` = NaN (not yet set). -/
abbrev Coef := Option (Int × Int)

/-- one step of the loop of `__is_equivalent_to_generic` (`scoringscheme.py:317-328`). -/
def equivStep (co : Coef) (p1 p2 : Int) : Option Coef :=
  if p1 = 0 then (if p2 ≠ 0 then none else some co)
  else if p2 = 0 then none
  else match co with
    | none => some (some (p1, p2))
    | some (c1, c2) => if p1 * c2 ≠ c1 * p2 then none else some co

def equivScan : Coef → List Int → List Int → Option Coef
  | co, a :: as, b :: bs =>
    match equivStep co a b with
    | none => none
    | some co' => equivScan co' as bs
  | co, _, _ => some co

/-- `__is_equivalent_to_generic(other, stop)`: both vectors, entries `0 .. stop-1`, one shared coefficient. -/
def equivGen (stop : Nat) (S1 S2 : Scheme) : Bool :=
  match equivScan none (S1.bList.take stop) (S2.bList.take stop) with
  | none => false
  | some co => (equivScan co (S1.tList.take stop) (S2.tList.take stop)).isSome

def isEquivalentTo (S1 S2 : Scheme) : Bool := equivGen 6 S1 S2
def isEquivalentToOnComplete (S1 S2 : Scheme) : Bool := equivGen 3 S1 S2

/-- presets with p = 1 (any positive common scale gives the same answers; here scale 1). -/
def unifying : Scheme := Scheme.ofLists [0, 1, 1, 0, 1, 1] [1, 1, 0, 1, 1, 0]
def pseudo : Scheme := Scheme.ofLists [0, 1, 1, 0, 1, 0] [1, 1, 0, 1, 1, 0]
def induced : Scheme := Scheme.ofLists [0, 1, 1, 0, 0, 0] [1, 1, 0, 0, 0, 0]
def extended : Scheme := Scheme.ofLists [0, 1, 0, 0, 0, 0] [1, 1, 0, 1, 1, 1]
/-- presets with p = 1/2, scaled by 2. -/
def unifyingHalf : Scheme := Scheme.ofLists [0, 2, 1, 0, 2, 1] [1, 1, 0, 1, 1, 0]
def inducedHalf : Scheme := Scheme.ofLists [0, 2, 1, 0, 0, 0] [1, 1, 0, 0, 0, 0]

/-- `get_nickname`: 0 UKSP, 1 GPDP, 2 IGKS, 3 EKS, 4 = the textual form. -/
def nickname (S : Scheme) : Nat :=
  if isEquivalentTo S unifying then 0
  else if isEquivalentTo S pseudo then 1
  else if isEquivalentTo S induced then 2
  else if isEquivalentTo S extended then 3
  else 4

end Model
end Corankco
