import Corankco.Model.Basic
/-
  Model of `kemeny_score_computation.py:39-277` — the n·log n Kemeny score:
  consensus bucket map, completeness scan, per input ranking the prefix-sum counters and the
  merge-sort-like inversion counting, final dot products.
-/
namespace Corankco
namespace Model

inductive KErr where
  | invalidRankings   -- InvalidRankingsForComputingDistance
deriving Repr, DecidableEq

theorem length_dropWhile_le' (p : Nat → Bool) (l : List Nat) : (l.dropWhile p).length ≤ l.length := by
  induction l with
  | nil => simp
  | cons a l ih => simp only [List.dropWhile]; split <;> simp <;> omega

/-- insertion into a sorted list (stable sort of one mapped bucket: `sort(asarray(..), kind='mergesort')`). -/
def insertSorted (a : Nat) : List Nat → List Nat
  | [] => [a]
  | b :: l => if a ≤ b then a :: b :: l else b :: insertSorted a l

def sortNat : List Nat → List Nat
  | [] => []
  | a :: l => insertSorted a (sortNat l)

/-- `__merge` (`kemeny_score_computation.py:224-277`): returns (merged, added to s_1[1], added to s_2[0]). -/
def mergeCount : List Nat → List Nat → List Nat × Nat × Nat
  | [], r => (r, 0, 0)
  | a :: l, [] => (a :: l, 0, 0)
  | a :: l, b :: r =>
    if a < b then
      let res := mergeCount l (b :: r)
      (a :: res.1, res.2.1, res.2.2)
    else if b < a then
      let res := mergeCount (a :: l) r
      (b :: res.1, res.2.1 + (l.length + 1), res.2.2)
    else
      let l1 := l.takeWhile (· == a)
      let l2 := l.dropWhile (· == a)
      let r1 := r.takeWhile (· == a)
      let r2 := r.dropWhile (· == a)
      let res := mergeCount l2 r2
      (a :: l1 ++ (b :: r1) ++ res.1,
       res.2.1 + (r1.length + 1) * l2.length,
       res.2.2 + (l1.length + 1) * (r1.length + 1))
termination_by l r => l.length + r.length
decreasing_by
  all_goals simp_wf
  all_goals
    have h1 := length_dropWhile_le' (· == a) l
    have h2 := length_dropWhile_le' (· == a) r
    omega

/-- `__mergesortlike` (`:205-221`) on the list of sorted mapped buckets; same split point
    (`middle = (right - left) // 2`, left part = `middle + 1` buckets). -/
def mergeSortLike (l : List (List Nat)) : List Nat × Nat × Nat :=
  match h : l with
  | [] => ([], 0, 0)
  | [x] => (x, 0, 0)
  | x :: y :: rest =>
    let k := (l.length - 1) / 2 + 1
    let a := mergeSortLike (l.take k)
    let b := mergeSortLike (l.drop k)
    let m := mergeCount a.1 b.1
    (m.1, a.2.1 + b.2.1 + m.2.1, a.2.2 + b.2.2 + m.2.2)
termination_by l.length
decreasing_by
  all_goals simp_wf
  all_goals subst h
  all_goals simp only [List.length_cons] at *
  all_goals omega

/-- tie-run scan computing `s_1[2]` for one sorted mapped bucket (`:151-164`). -/
def tieRun : List Nat → Nat
  | [] => 0
  | a :: l =>
    let run := l.takeWhile (· == a)
    let rest := l.dropWhile (· == a)
    (run.length + 1) * rest.length + tieRun rest
termination_by l => l.length
decreasing_by
  simp_wf
  have := length_dropWhile_le' (· == a) l
  omega

/-- exclusive prefix sums: `t_1 = cumsum([0] ++ t_3[:-1])`. -/
def prefixExcl : Nat → List Nat → List Nat
  | _, [] => []
  | acc, x :: xs => acc :: prefixExcl (acc + x) xs

/-- `t_2 = total - cumsum(t_3)` (inclusive prefix). -/
def suffixAfter : Nat → List Nat → List Nat
  | _, [] => []
  | rem, x :: xs => (rem - x) :: suffixAfter (rem - x) xs

/-- loop `:182-199` over the consensus buckets: returns (s_1[5], s_2[3], s_2[5]). -/
def missingLoop : Nat → List (Nat × Nat) → Nat × Nat × Nat
  | _, [] => (0, 0, 0)
  | rem, (len, t3) :: rest =>
    if t3 > 0 then
      let rem' := rem - t3
      let r := missingLoop rem' rest
      (rem' * t3 + r.1, (len - t3) * t3 + r.2.1, (if t3 > 1 then t3 * (t3 - 1) / 2 else 0) + r.2.2)
    else missingLoop rem rest

/-- `__cost_by_ranking`: the two count vectors `(s_1, s_2)` of candidate `c` against input ranking `r`.
    Precondition of the caller: every element of `r` is in `c`. -/
def costByRanking (c r : Ranking) : List Nat × List Nat :=
  let cid : Elem → Nat := fun x => (bucketIdx c x).getD 0
  let rPrime : List (List Nat) := r.map fun b => sortNat (b.map cid)
  let missing : List Elem := c.flatten.filter fun x => !(r.flatten.contains x)
  let t3 : List Nat := (List.range c.length).map fun i => (missing.filter fun x => cid x == i).length
  let t1 := prefixExcl 0 t3
  let t2 := suffixAfter missing.length t3
  let s13 := (rPrime.flatten.map fun k => t2.getD k 0).sum
  let s14 := (rPrime.flatten.map fun k => t1.getD k 0).sum
  let s12 := (rPrime.map tieRun).sum
  let ml := missingLoop missing.length ((c.map List.length).zip t3)
  let ms := mergeSortLike rPrime
  ([0, ms.2.1, s12, s13, s14, ml.1], [ms.2.2, 0, 0, ml.2.1, 0, ml.2.2])

def dot (v : List Nat) (w : List Int) : Int :=
  match v, w with
  | a :: v, b :: w => (a : Int) * b + dot v w
  | _, _ => 0

def addVec : List Nat → List Nat → List Nat
  | a :: v, b :: w => (a + b) :: addVec v w
  | _, _ => []

/-- `get_kemeny_score`. -/
def getScore (S : Scheme) (c : Ranking) (D : Dataset) : Except KErr Int :=
  if D.flatten.flatten.all (fun x => c.flatten.contains x) then
    let tot := D.foldl (fun acc r =>
      let cr := costByRanking c r
      (addVec acc.1 cr.1, addVec acc.2 cr.2)) ([0, 0, 0, 0, 0, 0], [0, 0, 0, 0, 0, 0])
    .ok (dot tot.1 S.bList + dot tot.2 S.tList)
  else .error .invalidRankings

end Model
end Corankco
