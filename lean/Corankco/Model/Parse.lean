import Corankco.Model.DatasetOps
/-
  Model of the text format (C18): `utils.py:10-105` (`parse_ranking_with_ties`, its two converters, the file reader's
  line filter and int-then-str fall-back, the writer), `ranking.py:43-68` (`Ranking.from_string`), `str(ranking)`.
  Python's `str` primitives are modelled on `List Char` with Python's index conventions (negative indices, clamped
  slices, `find` = -1 when absent).
-/
namespace Corankco
namespace Model

inductive PErr where
  | valueError
  | outOfFuel        -- never returned: see `C18_total`
deriving DecidableEq, Repr

/-- characters `str.strip()` removes (the ASCII ones; the harness stays in ASCII). -/
def isWs (c : Char) : Bool := c == ' ' || c == '\t' || c == '\n' || c == '\r' || c == '\x0b' || c == '\x0c'

def pyStrip (s : List Char) : List Char :=
  ((s.dropWhile isWs).reverse.dropWhile isWs).reverse

/-- Python slice bound normalisation for a sequence of length `n`. -/
def normIdx (n : Nat) (i : Int) : Nat :=
  if i < 0 then (if i + n < 0 then 0 else (i + n).toNat) else (if i > n then n else i.toNat)

/-- `s[a:b]`. -/
def pySlice (s : List Char) (a b : Int) : List Char :=
  let lo := normIdx s.length a
  let hi := normIdx s.length b
  (s.take hi).drop lo

/-- `s[a:]`. -/
def pySliceFrom (s : List Char) (a : Int) : List Char := s.drop (normIdx s.length a)

/-- index of the first `c` in `l`, counted from `off`. -/
def findFrom (c : Char) : List Char → Nat → Option Nat
  | [], _ => none
  | x :: xs, off => if x == c then some off else findFrom c xs (off + 1)

/-- `s.find(c, start, end)` -/
def pyFind (s : List Char) (c : Char) (start stop : Int) : Int :=
  let lo := normIdx s.length start
  let hi := normIdx s.length stop
  match findFrom c ((s.take hi).drop lo) lo with
  | some i => i
  | none => -1

/-- `s.find(c, start)` / `s.find(c)` -/
def pyFindFrom (s : List Char) (c : Char) (start : Int) : Int := pyFind s c start s.length

/-- `s.rfind(c)` -/
def pyRfind (s : List Char) (c : Char) : Int :=
  match findFrom c s.reverse 0 with
  | some i => (s.length : Int) - 1 - i
  | none => -1

/-- `s.split(c)` (single-character separator): always at least one piece. -/
def pySplit (c : Char) : List Char → List (List Char)
  | [] => [[]]
  | x :: xs =>
    match pySplit c xs with
    | [] => [[]]      -- unreachable
    | p :: ps => if x == c then [] :: p :: ps else (x :: p) :: ps

def pyEndsWith (s suffix : List Char) : Bool :=
  decide (suffix.length ≤ s.length) && s.drop (s.length - suffix.length) == suffix

/-- one bucket: `for str_bucket in text.split(","): elt = str_bucket.strip(); if elt == "": raise; bucket.add(conv(elt))` -/
def parseBucket (conv : List Char → Except PErr Name) (text : List Char) : Except PErr NBucket :=
  (pySplit ',' text).foldlM (fun (acc : NBucket) piece =>
    let e := pyStrip piece
    if e.isEmpty then .error .valueError
    else match conv e with
      | .ok x => .ok (if acc.contains x then acc else acc ++ [x])
      | .error err => .error err) []

/-- the `while st_str != -1 and en_str != -1` loop of `parse_ranking_with_ties` (`utils.py:44-59`).
    State: (ret, st_str, en_str, old_en). -/
def scanLoop (conv : List Char → Except PErr Name) (s : List Char) (rankingEnd : Int) :
    Nat → List NBucket → Int → Int → Int → Except PErr (List NBucket × Int × Int × Int)
  | 0, _, _, _, _ => .error .outOfFuel
  | fuel + 1, ret, st, en, oldEn =>
    if st != -1 && en != -1 then
      match parseBucket conv (pySlice s (st + 1) en) with
      | .error e => .error e
      | .ok b =>
        let st' := pyFind s '[' (en + 1) rankingEnd
        let en' := pyFind s ']' (max (en + 1) (st' + 1)) rankingEnd
        scanLoop conv s rankingEnd fuel (ret ++ [b]) st' en' en
    else .ok (ret, st, en, oldEn)

/-- `parse_ranking_with_ties(ranking, converter)`. -/
def parseTies (conv : List Char → Except PErr Name) (input : List Char) : Except PErr (List NBucket) :=
  -- ranking.strip().split(":")[-1].strip()
  let s0 := pyStrip ((pySplit ':' (pyStrip input)).getLast?.getD [])
  -- replace('{', '[').replace('}', ']')
  let s := s0.map fun c => if c == '{' then '[' else if c == '}' then ']' else c
  -- empty ranking: nothing between the first '[' and the last ']' or old format "[[]]"
  if (pyStrip (pySlice s (pyFindFrom s '[' 0 + 1) (pyRfind s ']'))).isEmpty || pyEndsWith s ['[', '[', ']', ']'] then .ok []
  else
    let st := pyFindFrom s '[' (pyFindFrom s '[' 0 + 1)
    let en := pyFindFrom s ']' 0
    let rankingEnd := pyRfind s ']'
    if !(pySliceFrom s (rankingEnd + 1)).isEmpty then .error .valueError
    else
      match scanLoop conv s rankingEnd (s.length + 2) [] st en en with
      | .error e => .error e
      | .ok (ret, st', en', oldEn) =>
        if st' != en' && (st' == -1 || en' == -1) then .error .valueError
        else if !(pySlice s (oldEn + 1) rankingEnd).isEmpty then .error .valueError
        else .ok ret

/-- converter of `parse_ranking_with_ties_of_str`. -/
def convStr (e : List Char) : Except PErr Name := .ok (.str e)

/-- Python `int(text)` on an already stripped ASCII text: optional sign, digits, single underscores between digits. -/
def pyIntDigits : List Char → Bool → Option Nat → Option Nat
  | [], prevDigit, acc => if prevDigit then acc else none
  | c :: cs, prevDigit, acc =>
    if c.isDigit then pyIntDigits cs true (some ((acc.getD 0) * 10 + (c.toNat - '0'.toNat)))
    else if c == '_' && prevDigit then
      (match cs with
       | d :: _ => if d.isDigit then pyIntDigits cs false acc else none
       | [] => none)
    else none

def pyInt (e : List Char) : Option Int :=
  match e with
  | '-' :: rest => (pyIntDigits rest false none).map fun n => -(n : Int)
  | '+' :: rest => (pyIntDigits rest false none).map fun n => (n : Int)
  | _ => (pyIntDigits e false none).map fun n => (n : Int)

/-- converter of `parse_ranking_with_ties_of_int`. -/
def convInt (e : List Char) : Except PErr Name :=
  match pyInt e with
  | some i => .ok (.int i)
  | none => .error .valueError

/-- `Ranking.from_string`: parse with string names; if every name is a digit string, convert to ints; build. -/
def fromString (input : List Char) : Except PErr NRanking :=
  match parseTies convStr input with
  | .error e => .error e
  | .ok buckets =>
    let allInts := buckets.all fun b => b.all Name.canBeInt
    let bs := if allInts then buckets.map fun b => dedupN (b.map Name.toIntName) else buckets
    match mkRanking bs with
    | .ok r => .ok r
    | .error _ => .error .valueError

/-- `str(name)` -/
def nameText : Name → List Char
  | .int i => intRepr i
  | .str s => s

/-- `str(ranking)` = `str([set(bucket) …])` for non-empty buckets: `[{a, b}, {c}]` in the given member order. -/
def renderBucket (b : NBucket) : List Char :=
  ['{'] ++ (", ".toList).intercalate (b.map nameText) ++ ['}']

def renderRanking (r : NRanking) : List Char :=
  ['['] ++ (", ".toList).intercalate (r.map renderBucket) ++ [']']

/-- the same in bracket notation `[[a, b], [c]]`. -/
def renderRankingBrackets (r : NRanking) : List Char :=
  (renderRanking r).map fun c => if c == '{' then '[' else if c == '}' then ']' else c

/-- `write_rankings`: one line per ranking. -/
def writeFile (rs : List NRanking) : List Char :=
  rs.flatMap fun r => renderRanking r ++ ['\n']

/-- `get_rankings_from_file` (as repaired: a line is skipped only when blank or a `%` comment): parse every kept line
    with the int converter; if any raises ValueError, parse every kept line again with the str converter. -/
def readFile (text : List Char) : Except PErr (List (List NBucket)) :=
  -- read().replace("\\\n", "")
  let rec unescape : List Char → List Char
    | '\\' :: '\n' :: rest => unescape rest
    | c :: rest => c :: unescape rest
    | [] => []
  let lines := (pySplit '\n' (unescape text)).filter fun l => !(pyStrip l).isEmpty && l.head? != some '%'
  match lines.mapM (parseTies convInt) with
  | .ok res => .ok res
  | .error .valueError => lines.mapM (parseTies convStr)
  | .error e => .error e

end Model
end Corankco
