import Corankco.Model.Algos
/-
  C15 — the state machine of calls on SHARED dataset / scheme objects. Every operation of the public API that the
  property lists (running an algorithm, reading a score, computing a partition, derived rankings, accessors) is
  read-only in the model: `step` returns the state it was given. What a pure model cannot exhibit — aliasing and
  in-place mutation in the Python heap — is observed by the harness (snapshots before / after every call).
-/
namespace Corankco
namespace Model

structure HState where
  D : Dataset
  S : Scheme
deriving Repr

inductive HOp where
  | borda (useBid : Bool)
  | copeland
  | pickAPerm (amo : Bool)
  | score (c : Ranking)
deriving Repr

inductive HOut where
  | ranking (r : Option Ranking)
  | rankings (rs : Option (List Ranking × Option Int))
  | value (v : Option Int)
deriving Repr

def hOut (s : HState) : HOp → HOut
  | .borda b => .ranking (match borda b s.S s.D with | .ok r => some r | .error _ => none)
  | .copeland => .ranking (some (copeland s.S s.D).1)
  | .pickAPerm amo => .rankings (match pickAPerm amo s.S s.D with | .ok o => some o | .error _ => none)
  | .score c => .value (match getScore s.S c s.D with | .ok v => some v | .error _ => none)

/-- one call on the shared objects: new state and output. -/
def hStep (s : HState) (op : HOp) : HState × HOut := (s, hOut s op)

/-- run a history, collecting the outputs. -/
def hRun (s : HState) : List HOp → HState × List HOut
  | [] => (s, [])
  | op :: ops =>
    let r := hStep s op
    let rest := hRun r.1 ops
    (rest.1, r.2 :: rest.2)

end Model
end Corankco
