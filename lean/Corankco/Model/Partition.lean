import Corankco.Model.Pairwise
import Corankco.Model.Algos
/-
  Model of `parcons.py` and `ordered_partition.py` (ParCons partition and algorithm, ParFront merge loop,
  consistency walk), of the projection `dataset.py` hands to the sub-solvers, and the verified exhaustive
  optimum used as exact oracle.

  igraph's `components()` is a parameter: the list `comps` of strongly connected components in the order igraph
  returned them (observed and passed in; checked by `Spec.isTopoSCC`).
-/
namespace Corankco
namespace Model

/-! ### weak orders and exhaustive optimum (L3) -/

/-- all ways to add one more element (the last id) to a dense vector: join bucket `j ≤ max` or open a new
    bucket at position `p ≤ max + 1`. -/
def extendWeak (v : List Nat) : List (List Nat) :=
  let nb := if v.isEmpty then 0 else v.foldl max 0 + 1
  ((List.range nb).map fun j => v ++ [j]) ++
  ((List.range (nb + 1)).map fun p => (v.map fun b => if b ≥ p then b + 1 else b) ++ [p])

/-- every dense bucket-id vector of length `n`, each exactly once. -/
def allWeakOrders : Nat → List (List Nat)
  | 0 => [[]]
  | n + 1 => (allWeakOrders n).flatMap extendWeak

def scoreN (t : Table) (v : List Nat) : Int := scoreVec t (v.map fun b => Int.ofNat b)

/-- minimum score over all rankings with ties of `n` elements. -/
def optScore (t : Table) (n : Nat) : Int :=
  match (allWeakOrders n).map (scoreN t) with
  | [] => 0
  | s :: ss => ss.foldl min s

/-- all minimisers. -/
def optima (t : Table) (n : Nat) : List (List Nat) :=
  let o := optScore t n
  (allWeakOrders n).filter fun v => scoreN t v == o

/-! ### projection on a component -/

/-- the sub-problem handed to a sub-solver (as repaired): every ranking is projected on the kept elements, empty
    buckets are dropped, rankings that miss all kept elements are kept as empty rankings. -/
def projectKeepAll (D : Dataset) (keep : List Elem) : Dataset :=
  D.map fun r => (r.map fun b => b.filter fun x => keep.contains x).filter fun b => !b.isEmpty

/-- `Dataset.sub_problem_from_elements` (public API): rankings without any kept element are dropped. -/
def subProblem (D : Dataset) (keep : List Elem) : Dataset :=
  (projectKeepAll D keep).filter fun r => !r.isEmpty

/-! ### ParCons -/

/-- result of ParCons on ids: consensus buckets, necessarily-optimal flag, weak partition. -/
structure ParConsOut where
  consensus : List (List Nat)
  optimal : Bool
  partition : List (List Nat)

/-- `ParCons.compute_consensus_rankings` (`parcons.py:77-123`): `exact` / `aux` solve a component (given as the
    list of its ids) and return a ranking of those ids. -/
def parCons (t : Table) (comps : List (List Nat)) (bound : Nat)
    (exact aux : List Nat → List (List Nat)) : ParConsOut :=
  comps.foldl (fun acc scc =>
    if canBeAllTied scc t then
      { acc with consensus := acc.consensus ++ [scc], partition := acc.partition ++ [scc] }
    else if scc.length > bound then
      { consensus := acc.consensus ++ aux scc, optimal := false, partition := acc.partition ++ [scc] }
    else
      { acc with consensus := acc.consensus ++ exact scc, partition := acc.partition ++ [scc] })
    { consensus := [], optimal := true, partition := [] }

/-! ### ParFront -/

def isRobust (t : Table) (i j : Nat) : Bool :=
  decide (t.aft i j > t.bef i j) && decide (t.tie i j > t.bef i j)

/-- no fusion needed between two consecutive groups: every cross pair is a robust arc. -/
def fullyRobust (t : Table) (g1 g2 : List Nat) : Bool :=
  g1.all fun a => g2.all fun b => isRobust t a b

/-- the fusion loop of `parfront_partition` (`ordered_partition.py:190-213`, as repaired: the index steps back to
    `max(index - 1, 0)`). -/
def mergeLoop (t : Table) : Nat → Nat → List (List Nat) → List (List Nat)
  | 0, _, p => p
  | fuel + 1, idx, p =>
    if idx + 1 < p.length then
      let s1 := p.getD idx []
      let s2 := p.getD (idx + 1) []
      if !fullyRobust t s1 s2 then
        mergeLoop t fuel (idx - 1) ((p.set idx (s1 ++ s2)).eraseIdx (idx + 1))
      else mergeLoop t fuel (idx + 1) p
    else p

/-- enough fuel for any run: every iteration either fuses (at most `len - 1` times) or advances. -/
def parFront (t : Table) (comps : List (List Nat)) : List (List Nat) :=
  mergeLoop t (2 * comps.length + 2) 0 comps

/-! ### consistency walk -/

/-- inner loop body over one consensus bucket: `for e in bucket: if e not in toSee: flag = False else nb -= 1`. -/
def seeBucket (toSee : List Elem) (bucket : List Elem) (st : Bool × Int) : Bool × Int :=
  bucket.foldl (fun st e => if toSee.contains e then (st.1, st.2 - 1) else (false, st.2)) st

/-- `consistent_with` (`ordered_partition.py:90-136`) with fuel; `none` = the Python loop does not terminate
    within the fuel. State: (flag, id_bucket_cons, id_partition, nb_elements_to_see or none when a new group starts). -/
def consistentLoop (P : List (List Elem)) (c : Ranking) :
    Nat → Bool → Nat → Nat → Option Int → Option Bool
  | 0, _, _, _, _ => none
  | fuel + 1, flag, idb, idp, nb =>
    if !(flag && idp < P.length) then some flag
    else
      let toSee := P.getD idp []
      let n : Int := match nb with | some k => k | none => toSee.length
      if flag && idb < c.length && n > 0 then
        let st := seeBucket toSee (c.getD idb []) (flag, n)
        if st.2 == 0 then consistentLoop P c fuel st.1 (idb + 1) (idp + 1) none
        else consistentLoop P c fuel st.1 (idb + 1) idp (some st.2)
      else
        -- inner loop not entered (or left) with the group unfinished: the outer loop starts the same group again
        consistentLoop P c fuel flag idb idp none

def consistentWith (P : List (List Elem)) (c : Ranking) (fuel : Nat) : Option Bool :=
  let nP := (dedup P.flatten).length
  let nC := (dedup c.flatten).length
  consistentLoop P c fuel (nC == nP) 0 0 none

end Model
end Corankco
