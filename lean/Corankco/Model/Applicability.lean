import Corankco.Model.Algos
/-
  Model of `is_scoring_scheme_relevant_when_incomplete_rankings` for every algorithm configuration
  (`rank_aggregation_algorithm.py`, `borda.py:119-136`, `pickaperm.py:99-110`, `bioconsert.py:452-465` as repaired,
  `parcons.py:134-143`, the others return True) and of the refusal guards of `compute_consensus_rankings`.
-/
namespace Corankco
namespace Model

/-- algorithm configurations, nested: BioConsert with starting algorithms, ParCons with an auxiliary algorithm. -/
inductive Alg where
  | exact : Alg            -- ExactAlgorithm / ExactAlgorithmPulp / ExactAlgorithmCplex(...)
  | kwik : Alg
  | copeland : Alg
  | borda : Alg            -- both tie variants
  | pickAPerm : Alg
  | bioCo : Alg
  | bioConsert : List Alg → Alg
  | parCons : Alg → Alg
deriving Repr

mutual
/-- the declared applicability. -/
def relevant : Alg → Scheme → Bool
  | .exact, _ => true
  | .kwik, _ => true
  | .copeland, _ => true
  | .borda, S => bordaRelevant S
  | .pickAPerm, S => isEquivalentTo S unifying
  | .bioCo, S => bordaRelevant S
  | .bioConsert st, S => relevantAll st S
  | .parCons aux, S => relevant aux S
def relevantAll : List Alg → Scheme → Bool
  | [], _ => true
  | a :: as, S => relevant a S && relevantAll as S
end

mutual
/-- does `compute_consensus_rankings` refuse (raise its documented exception) on a dataset that is complete or not?
    For ParCons this is an upper bound: the auxiliary algorithm is only invoked on delegated components, and the
    projection of a complete dataset is complete. -/
def mayRefuse : Alg → Scheme → Bool → Bool
  | .exact, _, _ => false
  | .kwik, _, _ => false
  | .copeland, _, _ => false
  | .borda, S, complete => !complete && !bordaRelevant S
  | .pickAPerm, S, complete => !complete && !isEquivalentTo S unifying
  | .bioCo, S, complete => !complete && !bordaRelevant S
  | .bioConsert st, S, complete => mayRefuseAny st S complete
  | .parCons aux, S, complete => mayRefuse aux S complete
def mayRefuseAny : List Alg → Scheme → Bool → Bool
  | [], _, _ => false
  | a :: as, S, c => mayRefuse a S c || mayRefuseAny as S c
end

/-- configurations for which refusal on incomplete data is EXACTLY "declared not relevant":
    Borda, PickAPerm, BioCo and BioConsert started from them. -/
def exactRefusal : Alg → Bool
  | .borda => true
  | .pickAPerm => true
  | .bioCo => true
  | .bioConsert st => st.all fun a => match a with
      | .borda => true | .pickAPerm => true | .exact => true | .kwik => true | .copeland => true | _ => false
  | _ => false

end Model
end Corankco
