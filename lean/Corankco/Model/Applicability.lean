import Corankco.Model.Algos
/-
  Model of `is_scoring_scheme_relevant_when_incomplete_rankings` for every algorithm configuration
  (`rank_aggregation_algorithm.py`, `borda.py:119-136`, `pickaperm.py:99-110`, `bioconsert.py:452-465` as repaired,
  `parcons.py:134-143`, the others return True) and of the refusal guards of `compute_consensus_rankings`.
-/
namespace Corankco
namespace Model

/-- algorithm configurations, nested: BioConsert with starting algorithms, ParCons with an auxiliary algorithm. -/
inductive Alg where
  | exact : Alg            -- ExactAlgorithm / ExactAlgorithmPulp / ExactAlgorithmCplex(...)
  | kwik : Alg
  | copeland : Alg
  | borda : Alg            -- both tie variants
  | pickAPerm : Alg
  | bioCo : Alg
  | bioConsert : List Alg → Alg
  | parCons : Alg → Alg
deriving Repr

mutual
/-- the declared applicability. -/
def relevant : Alg → Scheme → Bool
  | .exact, _ => true
  | .kwik, _ => true
  | .copeland, _ => true
  | .borda, S => bordaRelevant S
  | .pickAPerm, S => isEquivalentTo S unifying
  | .bioCo, S => bordaRelevant S
  | .bioConsert st, S => relevantAll st S
  | .parCons aux, S => relevant aux S
def relevantAll : List Alg → Scheme → Bool
  | [], _ => true
  | a :: as, S => relevant a S && relevantAll as S
end

mutual
/-- does `compute_consensus_rankings` refuse (raise its documented exception) on a dataset that is complete or not?
    For ParCons this is an upper bound: the auxiliary algorithm is only invoked on delegated components, and the
    projection of a complete dataset is complete. -/
def mayRefuse : Alg → Scheme → Bool → Bool
  | .exact, _, _ => false
  | .kwik, _, _ => false
  | .copeland, _, _ => false
  | .borda, S, complete => !complete && !bordaRelevant S
  | .pickAPerm, S, complete => !complete && !isEquivalentTo S unifying
  | .bioCo, S, complete => !complete && !bordaRelevant S
  | .bioConsert st, S, complete => mayRefuseAny st S complete
  | .parCons aux, S, complete => mayRefuse aux S complete
def mayRefuseAny : List Alg → Scheme → Bool → Bool
  | [], _, _ => false
  | a :: as, S, c => mayRefuse a S c || mayRefuseAny as S c
end

/-- configurations for which refusal on incomplete data is EXACTLY "declared not relevant":
    Borda, PickAPerm, BioCo and BioConsert started from them. -/
def exactRefusal : Alg → Bool
  | .borda => true
  | .pickAPerm => true
  | .bioCo => true
  | .bioConsert st => st.all fun a => match a with
      | .borda => true | .pickAPerm => true | .exact => true | .kwik => true | .copeland => true | _ => false
  | _ => false

/-! ### the selector `algorithm_choice.py` (`Algorithm`, `AlgorithmEnumeration`, `get_algorithm`) -/

/-- members of the enum `Algorithm`. -/
inductive AlgName where
  | EXACT | PARCONS | BIOCONSERT | BIOCO | KWIKSORTRANDOM | PICKAPERM | BORDACOUNT | COPELANDMETHOD
deriving DecidableEq, Repr

/-- the enum values (`algorithm_choice.py:33-43`). -/
def AlgName.value : AlgName → Nat
  | .EXACT => 0 | .PARCONS => 1 | .BIOCONSERT => 2 | .BIOCO => 3
  | .KWIKSORTRANDOM => 4 | .PICKAPERM => 5 | .BORDACOUNT => 6 | .COPELANDMETHOD => 7

def AlgName.ofValue? : Nat → Option AlgName
  | 0 => some .EXACT | 1 => some .PARCONS | 2 => some .BIOCONSERT | 3 => some .BIOCO
  | 4 => some .KWIKSORTRANDOM | 5 => some .PICKAPERM | 6 => some .BORDACOUNT | 7 => some .COPELANDMETHOD
  | _ => none

/-- the algorithm classes the selector can instantiate. -/
inductive AlgClass where
  | ExactAlgorithm | ParCons | BioConsert | BioCo | KwikSortRandom | PickAPerm | BordaCount | CopelandMethod
deriving DecidableEq, Repr

/-- `AlgorithmEnumeration.median_ranking_algorithms`, in list order (as repaired: the order of the enum values). -/
def classList : List AlgClass :=
  [.ExactAlgorithm, .ParCons, .BioConsert, .BioCo, .KwikSortRandom, .PickAPerm, .BordaCount, .CopelandMethod]

/-- the constructor parameters that change the configuration: starting algorithms (BioConsert), auxiliary algorithm
    (ParCons). `optimize`, `use_bucket_id` and `bound_for_exact` do not change the configuration term. -/
structure Params where
  starters : Option (List Alg) := none
  aux : Option Alg := none

/-- `cls(**parameters)` with the constructors' defaults (`parcons.py:35-52`, `bioconsert.py:239-250`, `bioco.py`). -/
def construct : AlgClass → Params → Alg
  | .ExactAlgorithm, _ => .exact
  | .ParCons, p => .parCons (p.aux.getD (.bioConsert []))
  | .BioConsert, p => .bioConsert (p.starters.getD [])
  | .BioCo, _ => .bioCo
  | .KwikSortRandom, _ => .kwik
  | .PickAPerm, _ => .pickAPerm
  | .BordaCount, _ => .borda
  | .CopelandMethod, _ => .copeland

/-- `get_algorithm(alg, parameters)`: the class at index `alg.value` of the list, instantiated. -/
def getAlgorithm (a : AlgName) (p : Params) : Option Alg :=
  (classList[a.value]?).map fun c => construct c p

/-- `Algorithm.get_all()`. -/
def AlgName.getAll : List AlgName :=
  [.EXACT, .PARCONS, .BIOCONSERT, .BIOCO, .KWIKSORTRANDOM, .PICKAPERM, .BORDACOUNT, .COPELANDMETHOD]

/-- `Algorithm.get_all_compatible_with_any_scoring_scheme()`. -/
def AlgName.compatibleWithAny : List AlgName :=
  [.EXACT, .PARCONS, .BIOCONSERT, .KWIKSORTRANDOM, .COPELANDMETHOD]

/-- the class an enum member names. -/
def AlgName.named : AlgName → AlgClass
  | .EXACT => .ExactAlgorithm | .PARCONS => .ParCons | .BIOCONSERT => .BioConsert | .BIOCO => .BioCo
  | .KWIKSORTRANDOM => .KwikSortRandom | .PICKAPERM => .PickAPerm | .BORDACOUNT => .BordaCount
  | .COPELANDMETHOD => .CopelandMethod

end Model
end Corankco
