import Corankco.Model.Pairwise
import Corankco.Model.Partition
/-
  Model of the ILP the exact algorithms build (`exactalgorithmpulp.py`, `exactalgorithmcplex.py`,
  `exactalgorithmcplexforpaperoptim1.py`): variables, objective, binary and transitivity rows, the pruning rows
  of both back-ends, the defeat-count decoder, the optimised per-component path and the back-end selector.
  The solver is a parameter: theorems speak about any optimal feasible 0/1 point of these rows.
-/
namespace Corankco
namespace Model

/-- `x i j` = "i before j" (all i ≠ j); `t i j` = "i tied with j" (stored with i < j). -/
inductive Var where
  | x : Nat → Nat → Var
  | t : Nat → Nat → Var
deriving DecidableEq, Repr

/-- the tie variable of an unordered pair, normalised as the code does (`t_{min}_{max}`). -/
def tvar (i j : Nat) : Var := if i < j then .t i j else .t j i

inductive Sense where
  | eq | le
deriving DecidableEq, Repr

structure Row where
  coeffs : List (Var × Int)
  sense : Sense
  rhs : Int
deriving Repr

/-- ordered pairs `i < j` below `n`. -/
def ltPairs (n : Nat) : List (Nat × Nat) := pairs (List.range n)

/-- `_add_binary_constraints`: exactly one of before / after / tied per unordered pair. -/
def binaryRows (n : Nat) : List Row :=
  (ltPairs n).map fun p => ⟨[(.x p.1 p.2, 1), (.x p.2 p.1, 1), (.t p.1 p.2, 1)], .eq, 1⟩

/-- `_add_transitivity_constraints`: for every ordered triple of distinct ids the three rows
    `x_ij + x_jk + t_jk − x_ik ≤ 1`, `x_ij + t_ij + x_jk − x_ik ≤ 1`, `2 t_ij + 2 t_jk − t_ik ≤ 3`. -/
def transRows (n : Nat) : List Row :=
  (List.range n).flatMap fun i => (List.range n).flatMap fun j =>
    if j = i then [] else
    (List.range n).flatMap fun k =>
      if k = i ∨ k = j then [] else
      [⟨[(.x i j, 1), (.x j k, 1), (tvar j k, 1), (.x i k, -1)], .le, 1⟩,
       ⟨[(.x i j, 1), (tvar i j, 1), (.x j k, 1), (.x i k, -1)], .le, 1⟩,
       ⟨[(tvar i j, 2), (tvar j k, 2), (tvar i k, -1)], .le, 3⟩]

/-- objective: `bef(i,j)` on `x_i_j` for all `i ≠ j`, `tie(i,j)` on `t_i_j` for `i < j`. -/
def objective (tb : Table) (n : Nat) : List (Var × Int) :=
  ((List.range n).flatMap fun i => (List.range n).flatMap fun j =>
    if i = j then [] else [(Var.x i j, tb.bef i j)]) ++
  ((ltPairs n).map fun p => (Var.t p.1 p.2, tb.tie p.1 p.2))

/-- PuLP back-end, `_add_personal_optimization_constraints` (`exactalgorithmpulp.py:266-297`): for every pair of
    components (earlier, later) and every cross pair of elements, force "earlier before later". The no-tie rows of
    that function are never emitted (the second loop runs over an exhausted iterator). -/
def pulpPruneRows (comps : List (List Nat)) : List Row :=
  (pairs comps).flatMap fun p => p.1.flatMap fun ei => p.2.flatMap fun ej =>
    [⟨[(.x ei ej, 1)], .eq, 1⟩, ⟨[(.x ej ei, 1)], .eq, 0⟩,
     (if ei < ej then ⟨[(.t ei ej, 1)], .eq, 0⟩ else ⟨[(.x ej ei, 1)], .eq, 0⟩)]

/-- CPLEX back-ends: the global no-tie test `bef + aft − 2·tie ≤ θ` for every pair (`θ` = scaled 0.001). -/
def noTieOK (tb : Table) (n : Nat) (θ : Int) : Bool :=
  (ltPairs n).all fun p => decide (tb.bef p.1 p.2 + tb.aft p.1 p.2 - 2 * tb.tie p.1 p.2 ≤ θ)

/-- `_add_personal_optimization_constraints` of `ExactAlgorithmCplex` (when `optimize`) and of
    `ExactAlgorithmCplexForPaperOptim1` (always): all tie variables forced to 0 when the test passes. -/
def cplexPruneRows (tb : Table) (n : Nat) (θ : Int) (active : Bool) : List Row :=
  if active && noTieOK tb n θ then (ltPairs n).map fun p => ⟨[(.t p.1 p.2, 1)], .eq, 0⟩ else []

/-- an assignment of the variables. -/
abbrev Asg := Var → Int

def evalLin (a : Asg) (l : List (Var × Int)) : Int := isum (l.map fun p => p.2 * a p.1)

def satisfies (a : Asg) (r : Row) : Bool :=
  match r.sense with
  | .eq => evalLin a r.coeffs == r.rhs
  | .le => decide (evalLin a r.coeffs ≤ r.rhs)

/-- all variables of a problem on `n` ids take the value 0 or 1. -/
def isBinary (a : Asg) (n : Nat) : Bool :=
  ((List.range n).all fun i => (List.range n).all fun j => i == j || a (.x i j) == 0 || a (.x i j) == 1) &&
  (ltPairs n).all fun p => a (.t p.1 p.2) == 0 || a (.t p.1 p.2) == 1

def feasible (a : Asg) (n : Nat) (rows : List Row) : Bool := isBinary a n && rows.all (satisfies a)

/-- the assignment that encodes the ranking with ties described by the key vector `v`. -/
def asgOfVec (v : List Int) : Asg
  | .x i j => if v.getD i 0 < v.getD j 0 then 1 else 0
  | .t i j => if v.getD i 0 = v.getD j 0 then 1 else 0

/-- `_calculate_defeat_counts`: number of `x_i_j = 1` with `j` the loser. -/
def defeatCounts (a : Asg) (n : Nat) : List Nat :=
  (List.range n).map fun j => ((List.range n).filter fun i => i != j && a (.x i j) == 1).length

/-- `_create_ranking_from_defeat_counts` / the PuLP decoder: ids sorted by defeat count (stable), grouped on equal
    counts, starting from an empty bucket with count 0 exactly as the code does. -/
def decodeCounts (counts : List Nat) : List (List Nat) :=
  let sorted := sortBy (fun a b => decide (a.2 ≤ b.2)) ((List.range counts.length).zip counts)
  let st := sorted.foldl (fun (st : List (List Nat) × List Nat × Nat) e =>
    if e.2 = st.2.2 then (st.1, st.2.1 ++ [e.1], st.2.2)
    else (st.1 ++ [st.2.1], [e.1], e.2)) ([], [], 0)
  st.1 ++ [st.2.1]

def decode (a : Asg) (n : Nat) : List (List Nat) := decodeCounts (defeatCounts a n)

/-- rows of the three ILP variants. -/
def rowsPulp (n : Nat) (comps : List (List Nat)) : List Row := binaryRows n ++ transRows n ++ pulpPruneRows comps
def rowsCplex (tb : Table) (n : Nat) (θ : Int) (noTiePruning : Bool) : List Row :=
  binaryRows n ++ transRows n ++ cplexPruneRows tb n θ noTiePruning

/-- `ExactAlgorithm.__init__` (as repaired): CPLEX model when the `cplex` module can be imported, PuLP otherwise. -/
inductive Backend where
  | cplex | pulp
deriving DecidableEq, Repr

def selectBackend (cplexAvailable : Bool) : Backend := if cplexAvailable then .cplex else .pulp

end Model
end Corankco
