/-
  Model of `element.py`, `ranking.py` (constructor, views), `dataset.py` (analysis with type homogenisation, id
  maps, flags, mutators, unification, projection, matrices, equality) for C16 and C17.
  Elements carry their Python type here: `Name.int` / `Name.str`.
  Sets are lists in observed iteration order; every operation that builds a Python set de-duplicates.
-/
namespace Corankco
namespace Model

inductive Name where
  | int : Int → Name
  | str : List Char → Name
deriving DecidableEq, Repr, Inhabited

abbrev NBucket := List Name
abbrev NRanking := List NBucket

inductive DErr where
  | emptyDataset   -- EmptyDatasetException
  | valueError     -- ValueError (an element in several buckets of one ranking)
deriving DecidableEq, Repr

def isDigitStr (s : List Char) : Bool := !s.isEmpty && s.all fun c => c.isDigit

/-- `Element.can_be_int()`. -/
def Name.canBeInt : Name → Bool
  | .int _ => true
  | .str s => isDigitStr s

/-- `int(str(e))` for an element that can be an int. -/
def digitsVal (s : List Char) : Nat := s.foldl (fun acc c => acc * 10 + (c.toNat - '0'.toNat)) 0

def Name.toIntName : Name → Name
  | .int i => .int i
  | .str s => .int (digitsVal s)

/-- `str(int)` in Python. -/
def intRepr (i : Int) : List Char := (toString i).toList

/-- `str(e)`. -/
def Name.toStrName : Name → Name
  | .int i => .str (intRepr i)
  | .str s => .str s

/-- a Python set built by inserting the members in order. -/
def dedupN : List Name → List Name
  | [] => []
  | x :: xs => x :: (dedupN xs).filter (· ≠ x)

/-- `Ranking.__init__`: buckets must be pairwise disjoint. -/
def mkRanking (buckets : List NBucket) : Except DErr NRanking :=
  let bs := buckets.map dedupN
  let flat := bs.flatten
  if flat.length = (dedupN flat).length then .ok bs else .error .valueError

/-- `Ranking.positions`: element ↦ 1 + number of elements in earlier buckets. -/
def positionsOf : Nat → NRanking → List (Name × Nat)
  | _, [] => []
  | acc, b :: bs => b.map (fun x => (x, acc)) ++ positionsOf (acc + b.length) bs

structure DS where
  rankings : List NRanking
  elemId : List (Name × Nat)     -- mapping_elem_id, insertion order
  idElem : List (Nat × Name)     -- mapping_id_elem, insertion order
  complete : Bool
  withoutTies : Bool
deriving Repr

def countOcc (rs : List NRanking) (x : Name) : Nat := (rs.filter fun r => r.flatten.contains x).length

/-- `_analyse_rankings` (as repaired: the id maps are rebuilt from scratch and only assigned on success). -/
def analyse (rs : List NRanking) : Except DErr DS :=
  if rs.isEmpty then .error .emptyDataset
  else
    let allInt := rs.all fun r => r.all fun b => b.all Name.canBeInt
    let conv : Name → Name := if allInt then Name.toIntName else Name.toStrName
    let built := rs.mapM fun r => mkRanking (r.map fun b => b.map conv)
    match built with
    | .error e => .error e
    | .ok rs' =>
      let univ := dedupN (rs'.flatten.flatten)
      if univ.isEmpty then .error .emptyDataset
      else
        let ids := List.range univ.length
        .ok { rankings := rs', elemId := univ.zip ids, idElem := ids.zip univ,
              complete := univ.all fun x => countOcc rs' x == rs'.length,
              withoutTies := rs'.all fun r => r.all fun b => b.length ≤ 1 }

def DS.universe (d : DS) : List Name := d.elemId.map (·.1)

/-- `remove_elements(elements_to_remove)`; on an exception the object is left as it was. -/
def removeElements (d : DS) (els : List Name) : Except DErr DS :=
  let rs := d.rankings.map fun r => (r.map fun b => b.filter fun x => !els.contains x).filter fun b => !b.isEmpty
  analyse (rs.filter fun r => !r.isEmpty)

/-- `remove_elements_rate_presence_lower_than(num/den)`. -/
def removeRate (d : DS) (num den : Nat) : Except DErr DS :=
  let m := d.rankings.length
  let els := d.universe.filter fun x => decide (countOcc d.rankings x * den < num * m)
  removeElements d els

/-- `remove_empty_rankings()`. -/
def removeEmptyRankings (d : DS) : Except DErr DS :=
  analyse (d.rankings.filter fun r => !r.isEmpty)

/-- `unified_rankings()` (as repaired). -/
def unifiedRankingsN (d : DS) : List NRanking :=
  d.rankings.map fun r =>
    let missing := d.universe.filter fun x => !(r.flatten.contains x)
    if missing.isEmpty then r else r ++ [missing]

def unifiedDataset (d : DS) : Except DErr DS := analyse (unifiedRankingsN d)

/-- `sub_problem_from_elements(elements_to_keep)`. -/
def subProblemN (d : DS) (keep : List Name) : Except DErr DS :=
  let rs := d.rankings.map fun r => (r.map fun b => b.filter fun x => keep.contains x).filter fun b => !b.isEmpty
  analyse (rs.filter fun r => !r.isEmpty)

/-- `get_positions()` / `get_bucket_ids()` rows by id. -/
def posMatrix (d : DS) : List (List Int) :=
  d.universe.map fun x => d.rankings.map fun r =>
    match (positionsOf 1 r).lookup x with
    | some p => (p : Int) - 1
    | none => -1

def bidMatrix (d : DS) : List (List Int) :=
  d.universe.map fun x => d.rankings.map fun r =>
    match r.findIdx? (fun b => b.contains x) with
    | some i => (i : Int)
    | none => -1

/-! ### equality (C17), as repaired: multiset of rankings, a ranking = sequence of frozensets -/

def sameBucket (a b : NBucket) : Bool := a.all (b.contains ·) && b.all (a.contains ·)

def sameRankingN (a b : NRanking) : Bool :=
  a.length == b.length && (a.zip b).all fun p => sameBucket p.1 p.2

/-- remove the first ranking equal to `r`; `none` if there is none. -/
def removeFirst (r : NRanking) : List NRanking → Option (List NRanking)
  | [] => none
  | x :: xs => if sameRankingN r x then some xs else (removeFirst r xs).map (x :: ·)

/-- `Counter(a) == Counter(b)` up to `sameRankingN`. -/
def multisetEq : List NRanking → List NRanking → Bool
  | [], ys => ys.isEmpty
  | x :: xs, ys =>
    match removeFirst x ys with
    | none => false
    | some ys' => multisetEq xs ys'

def dsEq (a b : DS) : Bool := multisetEq a.rankings b.rankings

end Model
end Corankco
