import Corankco.Model.Basic
/-
  Model of the random generators of `ranking.py:207-383`: the Markov moves on a bucket-id vector
  (`-1` = element absent), one step as a function of the two drawn numbers, conversion to buckets.
-/
namespace Corankco
namespace Model

def cnt (v : List Int) (b : Int) : Nat := v.countP (· == b)

def vmax : List Int → Int
  | [] => -1          -- never used on an empty vector (n ≥ 1)
  | [x] => x
  | x :: xs => max x (vmax xs)

/-- `__add_left`: put `e` alone in a new bucket just before its bucket. -/
def addLeft (v : List Int) (e : Nat) : List Int :=
  let b := v.getD e 0
  if cnt v b > 1 then (v.map fun x => if x ≥ b then x + 1 else x).set e b else v

/-- `__add_right`: put `e` alone in a new bucket just after its bucket (only if the bucket has > 2 elements). -/
def addRight (v : List Int) (e : Nat) : List Int :=
  let b := v.getD e 0
  if cnt v b > 2 then (v.map fun x => if x > b then x + 1 else x).set e (b + 1) else v

/-- `__change_left`: move `e` into the previous bucket. -/
def changeLeft (v : List Int) (e : Nat) : List Int :=
  let b := v.getD e 0
  if b ≠ 0 then
    let v' := if cnt v b = 1 then v.map (fun x => if x > b then x - 1 else x) else v
    v'.set e (v'.getD e 0 - 1)
  else v

/-- `__change_right`: move `e` into the next bucket. -/
def changeRight (v : List Int) (e : Nat) : List Int :=
  let b := v.getD e 0
  if b ≠ vmax v ∧ (cnt v b > 1 ∨ cnt v (b + 1) > 1) then
    let v' := v.set e (b + 1)
    if cnt v b = 1 then v'.map (fun x => if x > b then x - 1 else x) else v'
  else v

/-- `__remove_element`. -/
def removeElem (v : List Int) (e : Nat) : List Int :=
  let b := v.getD e 0
  let v' := if cnt v b = 1 then v.map (fun x => if x > b then x - 1 else x) else v
  v'.set e (-1)

/-- `__put_element_first`. -/
def putFirst (v : List Int) (e : Nat) : List Int :=
  (v.map fun x => if x ≥ 0 then x + 1 else x).set e 0

/-- `__step_element_complete(ranking, elem)` with `alea = randint(1, 4)`. -/
def stepComplete (v : List Int) (e : Nat) (alea : Nat) : List Int :=
  if alea = 1 then addLeft v e
  else if alea = 2 then addRight v e
  else if alea = 3 then changeLeft v e
  else if alea = 4 then changeRight v e
  else v

/-- `__step_element_incomplete(ranking, elem, missing)` with `alea = randint(1, 5)`;
    `elem in missing_elements` is `v[elem] = -1` (the set is kept in step with the vector by the code). -/
def stepIncomplete (v : List Int) (e : Nat) (alea : Nat) : List Int :=
  if v.getD e 0 < 0 then
    if alea = 5 then putFirst v e else v
  else
    if alea = 1 then addLeft v e
    else if alea = 2 then addRight v e
    else if alea = 3 then changeLeft v e
    else if alea = 4 then changeRight v e
    else if alea = 5 then removeElem v e
    else v

/-- a walk: the list of drawn pairs `(elem, alea)` in the order the code draws them. -/
def walk (complete : Bool) (v : List Int) (draws : List (Nat × Nat)) : List Int :=
  draws.foldl (fun v d => if complete then stepComplete v d.1 d.2 else stepIncomplete v d.1 d.2) v

/-- conversion `ranking.py:270-280`: bucket `i` = elements whose entry is `i`; `none` when no element is ranked. -/
def toRanking (v : List Int) : Option Ranking :=
  let nb := (vmax v + 1).toNat
  let r : Ranking := (List.range nb).map fun (i : Nat) => (List.range v.length).filter fun e => v.getD e 0 == Int.ofNat i
  if nb > 0 then some r else none

/-- `generate_rankings`: every ranking starts from `[0, 1, .., n-1]` and walks. -/
def generate (n : Nat) (complete : Bool) (draws : List (List (Nat × Nat))) : List Ranking :=
  draws.filterMap fun ds => toRanking (walk complete ((List.range n).map fun (i : Nat) => Int.ofNat i) ds)

end Model
end Corankco
