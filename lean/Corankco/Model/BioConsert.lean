import Corankco.Model.Pairwise
import Corankco.Model.Algos
/-
  Model of `bioconsert.py`: delta arrays, the two searches (with their in-place prefix accumulation),
  the two moves, the sweep loop, the driver loop over departure rankings, departure rankings (as repaired:
  expressed in the dataset's own ids) and the decoding of the best vectors.

  Vectors are `List Nat` (`r[i]` = bucket id of the element of id `i`), arrays are `List Int`
  (`change` has length n+2, `add` length n+3, as in the code). The threshold 0.001 is the parameter `τ`.
-/
namespace Corankco
namespace Model

def addAt (l : List Int) (k : Nat) (v : Int) : List Int := l.modify k (· + v)

structure DeltaSt where
  change : List Int
  add : List Int
  alone : Bool
  ttb : Int
  tta : Int
  ttt : Int

/-- body of the loop `for e2 in range(n)` of `_compute_delta_costs` (`bioconsert.py:171-189`). -/
def deltaStep (t : Table) (r : List Nat) (x b : Nat) (st : DeltaSt) (e2 : Nat) : DeltaSt :=
  let b2 := r.getD e2 0
  let cb := t.bef x e2
  let ca := t.aft x e2
  let ct := t.tie x e2
  if b < b2 then
    { st with change := addAt (addAt st.change b2 (ct - cb)) (b2 + 1) (ca - ct),
              add := addAt st.add (b2 + 1) (ca - cb) }
  else if b > b2 then
    let ch := addAt st.change b2 (ct - ca)
    let ch := if b2 ≠ 0 then addAt ch (b2 - 1) (cb - ct) else ch
    { st with change := ch, add := addAt st.add b2 (cb - ca) }
  else if x ≠ e2 then
    { st with alone := false, ttb := st.ttb + cb, tta := st.tta + ca, ttt := st.ttt + ct }
  else st

/-- `_compute_delta_costs`: returns (change, add, alone). -/
def computeDelta (t : Table) (r : List Nat) (x : Nat) : List Int × List Int × Bool :=
  let n := r.length
  let b := r.getD x 0
  let st := (List.range n).foldl (deltaStep t r x b)
    { change := List.replicate (n + 2) 0, add := List.replicate (n + 3) 0, alone := true, ttb := 0, tta := 0, ttt := 0 }
  let ch := if b ≠ 0 then addAt st.change (b - 1) (st.ttb - st.ttt) else st.change
  let ch := addAt ch (b + 1) (st.tta - st.ttt)
  let ad := addAt st.add (b + 1) (st.tta - st.ttt)
  let ad := addAt ad b (st.ttb - st.ttt)
  (ch, ad, st.alone)

/-- one iteration of a rightward accumulation loop: `arr[i] += arr[i-1]; if arr[i] < -τ: res = i`. -/
def accRight (τ : Int) (st : Option Nat × List Int) (i : Nat) : Option Nat × List Int :=
  match st.1 with
  | some _ => st
  | none =>
    let arr := addAt st.2 i (st.2.getD (i - 1) 0)
    (if arr.getD i 0 < -τ then some i else none, arr)

/-- one iteration of a leftward accumulation loop: `arr[i] += arr[i+1]; if arr[i] < -τ: res = i`. -/
def accLeft (τ : Int) (st : Option Nat × List Int) (i : Nat) : Option Nat × List Int :=
  match st.1 with
  | some _ => st
  | none =>
    let arr := addAt st.2 i (st.2.getD (i + 1) 0)
    (if arr.getD i 0 < -τ then some i else none, arr)

/-- indices `hi, hi-1, .., 0` (empty when called with `none`). -/
def downFrom : Option Nat → List Nat
  | none => []
  | some hi => (List.range (hi + 1)).reverse

/-- `_search_to_change_bucket(bucket_elem, change, max_id_bucket)`: target bucket (or none = -1) and the array as
    the search leaves it. -/
def searchChange (τ : Int) (b : Nat) (change : List Int) (maxId : Nat) : Option Nat × List Int :=
  let st0 : Option Nat × List Int := (if change.getD b 0 < -τ then some b else none, change)
  -- look right: i = b+1 .. maxId
  let st1 := (List.range' (b + 1) (maxId - b)).foldl (accRight τ) st0
  match st1.1 with
  | some _ => st1
  | none =>
    -- look left: first test change[b-1] (when b ≥ 1), then i = b-2 .. 0
    if b = 0 then st1
    else
      let st2 : Option Nat × List Int := (if st1.2.getD (b - 1) 0 < -τ then some (b - 1) else none, st1.2)
      (downFrom (if b ≥ 2 then some (b - 2) else none)).foldl (accLeft τ) st2

/-- `_search_to_add_bucket(bucket_elem, add, max_id_bucket)`. -/
def searchAdd (τ : Int) (b : Nat) (add : List Int) (maxId : Nat) : Option Nat × List Int :=
  let st0 : Option Nat × List Int := (if add.getD (b + 1) 0 < -τ then some (b + 1) else none, add)
  -- look right: i = b+2 .. maxId+1
  let st1 := (List.range' (b + 2) (maxId - b)).foldl (accRight τ) st0
  match st1.1 with
  | some _ => st1
  | none =>
    let st2 : Option Nat × List Int := (if st1.2.getD b 0 < -τ then some b else none, st1.2)
    (downFrom (if b ≥ 1 then some (b - 1) else none)).foldl (accLeft τ) st2

/-- `_change_bucket(r, n, element, old_pos, new_pos, alone)`. -/
def changeBucket (r : List Nat) (x old new : Nat) (alone : Bool) : List Nat :=
  let r1 := r.set x new
  if alone then r1.map fun v => if v > old then v - 1 else v else r1

/-- `_add_bucket(r, n, element, old_pos, new_pos, alone)`. -/
def addBucket (r : List Nat) (x old new : Nat) (alone : Bool) : List Nat :=
  if old < new then
    if alone then (r.map fun v => if old < v ∧ v < new then v - 1 else v).set x (new - 1)
    else (r.map fun v => if v ≥ new then v + 1 else v).set x new
  else
    if alone then (r.map fun v => if new ≤ v ∧ v < old then v + 1 else v).set x new
    else (r.map fun v => if v ≥ new then v + 1 else v).set x new

structure SweepSt where
  r : List Nat
  maxId : Nat
  delta : Int
  moved : Bool

/-- body of `for elem in range(n)` in `_improve_one_ranking` (`bioconsert.py:211-234`). -/
def sweepStep (t : Table) (τ : Int) (st : SweepSt) (x : Nat) : SweepSt :=
  let b := st.r.getD x 0
  let (change, add, alone) := computeDelta t st.r x
  match searchChange τ b change st.maxId with
  | (some to, change') =>
    { r := changeBucket st.r x b to alone, maxId := if alone then st.maxId - 1 else st.maxId,
      delta := st.delta + change'.getD to 0, moved := true }
  | (none, _) =>
    match searchAdd τ b add st.maxId with
    | (some to, add') =>
      { r := addBucket st.r x b to alone, maxId := if alone then st.maxId else st.maxId + 1,
        delta := st.delta + add'.getD to 0, moved := true }
    | (none, _) => st

def sweep (t : Table) (τ : Int) (r : List Nat) (maxId : Nat) (delta : Int) : SweepSt :=
  (List.range r.length).foldl (sweepStep t τ) { r := r, maxId := maxId, delta := delta, moved := false }

/-- `while terminated == 0` with fuel; the Bool tells whether the loop exited normally (a sweep without move). -/
def improveLoop (t : Table) (τ : Int) : Nat → List Nat → Nat → Int → List Nat × Int × Bool
  | 0, r, _, delta => (r, delta, false)
  | fuel + 1, r, maxId, delta =>
    let st := sweep t τ r maxId delta
    if st.moved then improveLoop t τ fuel st.r st.maxId st.delta else (st.r, st.delta, true)

/-- `_improve_one_ranking(r, cost_matrix_1d, n)`. -/
def improveOne (t : Table) (τ : Int) (fuel : Nat) (r : List Nat) : List Nat × Int × Bool :=
  improveLoop t τ fuel r (r.foldl max 0) 0

/-- score of a Nat vector. -/
def scoreVecN (t : Table) (r : List Nat) : Int := scoreVec t (r.map fun v => Int.ofNat v)

/-- `dst_init` of `_bio_consert` (`bioconsert.py:379-388`, as repaired: `<`, `>`, else tied). -/
def dstInit (t : Table) (r : List Nat) : Int :=
  isum ((pairs (List.range r.length)).map fun p =>
    let a := r.getD p.1 0
    let b := r.getD p.2 0
    if a < b then t.bef p.1 p.2 else if a > b then t.aft p.1 p.2 else t.tie p.1 p.2)

/-- `_bio_consert`: for each departure ranking, (final vector, dst_min[i], exited normally). -/
def bioConsertLoop (t : Table) (τ : Int) (fuel : Nat) (deps : List (List Nat)) : List (List Nat × Int × Bool) :=
  deps.map fun r =>
    let res := improveOne t τ fuel r
    (res.1, dstInit t r + res.2.1, res.2.2)

/-- bucket ids of `ranking` read with the ids of the dataset (`univ`), `_bucket_ids_with_ids_of`. -/
def rowOf (univ : List Elem) (r : Ranking) : List Nat := univ.map fun x => (bidIn r x).toNat

/-- `_departure_rankings` without starting algorithms: distinct (unified) input rankings, then the all-tied one. -/
def departuresDefault (D : Dataset) : List (List Nat) :=
  let univ := univOf D
  let rs := if isComplete D then D else unifiedRankings D
  (rs.map (rowOf univ)).eraseDups ++ [List.replicate univ.length 0]

/-- with starting algorithms: one row per starter consensus, in order. -/
def departuresStarters (D : Dataset) (cons : List Ranking) : List (List Nat) :=
  cons.map (rowOf (univOf D))

/-- decoding `bioconsert.py:322-345`: bucket `b` = elements whose entry is `b`, for `b` in `0 .. #distinct ids - 1`. -/
def decodeVec (univ : List Elem) (v : List Nat) : Ranking :=
  (List.range v.eraseDups.length).map fun b =>
    ((univ.zip v).filter fun p => p.2 == b).map (·.1)

/-- selection of the best vectors and decoding (`bioconsert.py:296-345`). -/
def selectBest (univ : List Elem) (atMostOne : Bool) (res : List (List Nat × Int × Bool)) : List Ranking × Option Int :=
  match res with
  | [] => ([], none)
  | r0 :: rest =>
    let lowest := rest.foldl (fun m r => min m r.2.1) r0.2.1
    let best := (res.filter fun r => r.2.1 == lowest).map (·.1)
    let best := if atMostOne then (match best.getLast? with | some b => [b] | none => []) else best
    (best.eraseDups.map (decodeVec univ), some lowest)

/-- BioConsert on a dataset given the table and the departure rows. -/
def bioConsertRun (S : Scheme) (D : Dataset) (deps : List (List Nat)) (atMostOne : Bool) (τ : Int) (fuel : Nat) :
    (List Ranking × Option Int) × List (List Nat × Int × Bool) :=
  let t := costMatrix S (getPositions D)
  let res := bioConsertLoop t τ fuel deps
  (selectBest (univOf D) atMostOne res, res)

end Model
end Corankco
