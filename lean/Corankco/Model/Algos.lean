import Corankco.Model.Pairwise
import Corankco.Model.Scheme
import Corankco.Model.Kemeny
/-
  Models of the positional / pairwise heuristics:
  `borda.py`, `copeland.py`, `pickaperm.py`, `kwiksortabs.py` + `kwiksortrandom.py`,
  and of the dataset notions they use (`is_complete`, `unified_rankings`).
-/
namespace Corankco
namespace Model

inductive AErr where
  | schemeNotHandled        -- ScoringSchemeNotHandledException (Borda)
  | incompatible            -- InompleteRankingsIncompatibleWithScoringSchemeException (PickAPerm)
  | incompatibleArgs        -- IncompatibleArgumentsException (exact, optimize with all rankings)
deriving Repr, DecidableEq

/-- `Dataset.is_complete`: every element occurs in every ranking (`dataset.py:139-165`). -/
def isComplete (D : Dataset) : Bool :=
  (univOf D).all fun x => D.all fun r => r.flatten.contains x

/-- `Dataset.without_ties`. -/
def withoutTies (D : Dataset) : Bool := D.all fun r => r.all fun b => b.length ≤ 1

/-- `Dataset.unified_rankings()` (as repaired): each ranking followed by one last bucket of its missing elements. -/
def unifyRanking (univ : List Elem) (r : Ranking) : Ranking :=
  let missing := univ.filter fun x => !(r.flatten.contains x)
  if missing.isEmpty then r else r ++ [missing]

def unifiedRankings (D : Dataset) : Dataset := D.map (unifyRanking (univOf D))

/-! ### Borda -/

def bordaRelevant (S : Scheme) : Bool :=
  isEquivalentTo S induced || isEquivalentTo S unifying || isEquivalentTo S inducedHalf || isEquivalentTo S unifyingHalf

/-- points of one ranking: `(elem, id_bucket)` for every member, `id_bucket` advancing by 1 or by the bucket size. -/
def bordaPoints (useBid : Bool) : Nat → Ranking → List (Elem × Nat)
  | _, [] => []
  | acc, b :: bs => b.map (fun x => (x, acc)) ++ bordaPoints useBid (if useBid then acc + 1 else acc + b.length) bs

/-- accumulate into the dict `points[elem] = [sum, count]` (insertion order = first appearance). -/
def bordaAcc (tbl : List (Elem × Nat × Nat)) (p : Elem × Nat) : List (Elem × Nat × Nat) :=
  match tbl with
  | [] => [(p.1, p.2, 1)]
  | (x, s, c) :: rest => if x = p.1 then (x, s + p.2, c + 1) :: rest else (x, s, c) :: bordaAcc rest p

/-- mean `s1/c1` vs `s2/c2` by cross-multiplication (counts are positive). -/
def meanLe (a b : Elem × Nat × Nat) : Bool := a.2.1 * b.2.2 ≤ b.2.1 * a.2.2
def meanEq (a b : Elem × Nat × Nat) : Bool := a.2.1 * b.2.2 == b.2.1 * a.2.2

/-- stable insertion sort by a `≤`-like relation (Python `sorted`). -/
def insertBy {α : Type} (le : α → α → Bool) (a : α) : List α → List α
  | [] => [a]
  | b :: l => if le b a then b :: insertBy le a l else a :: b :: l

def sortBy {α : Type} (le : α → α → Bool) (l : List α) : List α :=
  l.foldl (fun acc a => insertBy le a acc) []

/-- `itertools.groupby` on adjacent equal keys. -/
def groupAdj {α : Type} (eq : α → α → Bool) : List α → List (List α)
  | [] => []
  | a :: l =>
    match groupAdj eq l with
    | [] => [[a]]
    | g :: gs =>
      match g with
      | [] => [a] :: gs
      | b :: _ => if eq a b then (a :: g) :: gs else [a] :: g :: gs

def borda (useBid : Bool) (S : Scheme) (D : Dataset) : Except AErr Ranking :=
  if !isComplete D && !bordaRelevant S then .error .schemeNotHandled
  else
    let rs := if isEquivalentTo S unifying || isEquivalentTo S unifyingHalf then unifiedRankings D else D
    let pts := (rs.flatMap (bordaPoints useBid 0)).foldl bordaAcc []
    let sorted := sortBy meanLe pts
    .ok ((groupAdj meanEq sorted).map fun g => g.map (·.1))

/-! ### Copeland -/

/-- `_fill_dicts_copeland`: for id `i`: (victories, equalities, defeats). -/
def copelandResults (t : Table) : List (Nat × Nat × Nat) :=
  (List.range t.length).map fun i =>
    let others := (List.range t.length).filter (· ≠ i)
    ((others.filter fun j => decide (t.bef i j < t.aft i j)).length,
     (others.filter fun j => decide (t.bef i j = t.aft i j)).length,
     (others.filter fun j => decide (t.bef i j > t.aft i j)).length)

/-- doubled Copeland score `2·victories + equalities`. -/
def copelandScore2 (r : Nat × Nat × Nat) : Nat := 2 * r.1 + r.2.1

def copeland (S : Scheme) (D : Dataset) : Ranking × List Nat × List (Nat × Nat × Nat) :=
  let univ := univOf D
  let t := costMatrix S (getPositions D)
  let res := copelandResults t
  let sc := res.map copelandScore2
  let items := univ.zip sc
  let sorted := sortBy (fun a b => decide (a.2 ≥ b.2)) items
  ((groupAdj (fun a b => a.2 == b.2) sorted).map (fun g => g.map (·.1)), sc, res)

/-! ### PickAPerm -/

/-- the scan of `pickaperm.py:67-80` over an abstract score function. -/
def pickScan {α : Type} (score : α → Int) (atMostOne : Bool) : List α → Option (Int × List α) → Option (Int × List α)
  | [], st => st
  | r :: rs, none => pickScan score atMostOne rs (some (score r, [r]))
  | r :: rs, some (m, acc) =>
    let d := score r
    if d < m then pickScan score atMostOne rs (some (d, [r]))
    else if d = m ∧ !atMostOne then pickScan score atMostOne rs (some (m, acc ++ [r]))
    else pickScan score atMostOne rs (some (m, acc))

def pickAPerm (atMostOne : Bool) (S : Scheme) (D : Dataset) : Except AErr (List Ranking × Option Int) :=
  if !isComplete D && !isEquivalentTo S unifying then .error .incompatible
  else
    let rs := if isComplete D then D else unifiedRankings D
    let score := fun r => match getScore S r D with | .ok v => v | .error _ => 0
    match pickScan score atMostOne rs none with
    | none => .ok ([], none)         -- dst_min stays `inf`; unreachable: a dataset has ≥ 1 ranking
    | some (m, acc) => .ok (acc, some m)

/-! ### KwikSort -/

/-- `_where_should_it_be` exactly as written: five vectorised counts, the `comp` vector, three dot products. -/
def whereShouldItBe (S : Scheme) (pivot other : List Int) : Int :=
  let z := pivot.zip other
  let bothNon : Int := (z.filter fun p => p.1 + p.2 == -2).length
  let same : Int := (z.filter fun p => p.1 == p.2).length
  let pivMiss : Int := (pivot.filter (· == -1)).length
  let othMiss : Int := (other.filter (· == -1)).length
  let othBef : Int := (z.filter fun p => decide (p.2 < p.1)).length
  let m : Int := pivot.length
  let c0 := othBef - othMiss + bothNon
  let c1 := m - othBef - same - pivMiss + bothNon
  let c2 := same - bothNon
  let c3 := pivMiss - bothNon
  let c4 := othMiss - bothNon
  let c5 := bothNon
  let costBefore := S.b0 * c0 + S.b1 * c1 + S.b2 * c2 + S.b3 * c3 + S.b4 * c4 + S.b5 * c5
  let costSame := S.t0 * c0 + S.t1 * c1 + S.t2 * c2 + S.t3 * c3 + S.t4 * c4 + S.t5 * c5
  let costAfter := S.b0 * c1 + S.b1 * c0 + S.b2 * c2 + S.b3 * c4 + S.b4 * c3 + S.b5 * c5
  if costSame ≤ costBefore then (if costSame ≤ costAfter then 0 else 1)
  else if costBefore ≤ costAfter then -1 else 1

/-- `_kwik_sort` with the pivot supplied by a script of indices (consumed in call order); `w p e` is the
    placement of `e` relative to pivot `p`. Returns the appended buckets, the remaining script and the log of
    `(remaining, pivot)` of every call in call order. -/
def kwikSort (w : Nat → Nat → Int) :
    Nat → List Nat → List Nat → List (List Nat) × List Nat × List (List Nat × Nat)
  | 0, _, script => ([], script, [])
  | fuel + 1, remaining, script =>
    match remaining with
    | [] => ([], script, [])
    | r0 :: _ =>
      let idx := script.headD 0
      let script := script.tail
      let pivot := remaining.getD (idx % remaining.length) r0
      let others := remaining.filter (· ≠ pivot)
      let before := others.filter fun e => decide (w pivot e < 0)
      let after := others.filter fun e => decide (w pivot e > 0)
      let same := pivot :: others.filter fun e => decide (w pivot e = 0)
      let rb :=
        if before.length = 1 then ([before], script, [])
        else if before.length > 0 then kwikSort w fuel before script
        else ([], script, [])
      let ra :=
        if after.length = 1 then ([after], rb.2.1, [])
        else if after.length > 0 then kwikSort w fuel after rb.2.1
        else ([], rb.2.1, [])
      (rb.1 ++ [same] ++ ra.1, ra.2.1, (remaining, pivot) :: rb.2.2 ++ ra.2.2)

/-- KwikSort on a dataset: ids are positions in `univOf D`; `order` = the initial `list(dataset.universe)` as ids.
    Returns the consensus and the step log, both over elements. -/
def kwikSortDataset (S : Scheme) (D : Dataset) (order : List Nat) (script : List Nat) :
    Ranking × List (List Elem × Elem) :=
  let pos := getPositions D
  let univ := univOf D
  let w := fun p e => whereShouldItBe S (pos.getD p []) (pos.getD e [])
  let res := kwikSort w order.length order script
  (res.1.map fun b => b.map fun i => univ.getD i 0,
   res.2.2.map fun st => (st.1.map fun i => univ.getD i 0, univ.getD st.2 0))

end Model
end Corankco
