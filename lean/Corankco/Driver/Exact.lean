import Corankco.Proto
import Corankco.Model.Exact
import Corankco.Spec.Partition
namespace Corankco.Driver
open Corankco Model

def varJ : Var → J
  | .x i j => J.l [J.n 0, J.n i, J.n j]
  | .t i j => J.l [J.n 1, J.n i, J.n j]

def rowJ (r : Row) : J :=
  J.l [J.l (r.coeffs.map fun p => J.l [varJ p.1, J.n p.2]), J.n (match r.sense with | .eq => 0 | .le => 1), J.n r.rhs]

/-- [table, backend (0 pulp / 1 cplex), comps, noTiePruning, θ] -> [rows, objective] -/
def ilpRows (j : J) : Option J := do
  let (t, backend, comps, active, θ) ← (fromJ j : Option (Table × Nat × List (List Nat) × Bool × Int))
  let n := t.length
  let rows := if backend == 0 then rowsPulp n comps else rowsCplex t n θ active
  pure (J.l [J.l (rows.map rowJ), J.l ((objective t n).map fun p => J.l [varJ p.1, J.n p.2])])

/-- [n, list of [i,j] with x_i_j = 1] -> decoded ranking of ids -/
def ilpDecode (j : J) : Option J := do
  let (n, ones) ← (fromJ j : Option (Nat × List (Nat × Nat)))
  let a : Asg := fun v => match v with
    | .x i j => if ones.contains (i, j) then 1 else 0
    | .t _ _ => 0
  pure (toJ (decode a n))

/-- [table, rankings of ids, allRequested] -> every ranking is a partition with the optimal score; when all are
    requested the returned set is exactly the set of minimisers -/
def c05Holds (j : J) : Option J := do
  let (t, outs, all) ← (fromJ j : Option (Table × List (List (List Nat)) × Bool))
  let n := t.length
  let vecs := outs.map (Spec.vecOfIds n)
  let okEach := outs.all (fun c => Spec.isPartitionOf n c) && vecs.all fun v => scoreN t v == optScore t n
  let opt := optima t n
  let okAll := !all || (opt.all (fun o => vecs.contains o) && vecs.all (fun v => opt.contains v) &&
                        decide (vecs.eraseDups.length = vecs.length))
  pure (J.l [toJ (decide (outs.length ≥ 1) && okEach && okAll), toJ (optScore t n), toJ opt.length])

/-- [S, D, keep (elements), noTiePruning] -> rows / objective of the CPLEX model of the sub-problem obtained by projecting
    the dataset on the kept elements (rankings that lose all their elements stay as empty rankings) -/
def ilpSubRows (j : J) : Option J := do
  let (S, D, keep, active) ← (fromJ j : Option (Scheme × Dataset × List Elem × Bool))
  let sub := projectKeepAll D keep
  let t := costMatrix S (getPositions sub)
  let n := t.length
  let rows := rowsCplex t n 0 active
  pure (J.l [J.l (rows.map rowJ), J.l ((objective t n).map fun p => J.l [varJ p.1, J.n p.2]), toJ (univOf sub)])

/-- [S, D, keep, observed sub-dataset, noTiePruning]: the observed sub-dataset must be the model's projection up to the
    order of bucket members; rows / objective of the CPLEX model are built on the OBSERVED sub-dataset (its id numbering
    follows CPython's iteration order of the freshly built sets) -/
def ilpSubRowsObs (j : J) : Option J := do
  let (S, D, keep, sub, active) ← (fromJ j : Option (Scheme × Dataset × List Elem × Dataset × Bool))
  let proj := projectKeepAll D keep
  let same := proj.length == sub.length && (proj.zip sub).all fun p =>
    p.1.length == p.2.length && (p.1.zip p.2).all fun q => q.1.all (q.2.contains ·) && q.2.all (q.1.contains ·)
  let t := costMatrix S (getPositions sub)
  let n := t.length
  let rows := rowsCplex t n 0 active
  pure (J.l [J.l (rows.map rowJ), J.l ((objective t n).map fun p => J.l [varJ p.1, J.n p.2]), toJ same])

def exactOps : List (String × (J → Option J)) :=
  [("ilp.rows", ilpRows), ("ilp.subrows", ilpSubRows), ("ilp.subrowsobs", ilpSubRowsObs), ("ilp.decode", ilpDecode), ("c05.holds", c05Holds)]

end Corankco.Driver
