import Corankco.Proto
import Corankco.Spec.Partition
namespace Corankco.Driver
open Corankco Model

def partGraph (j : J) : Option J := do
  let (S, D) ← (fromJ j : Option (Scheme × Dataset))
  let t := costMatrix S (getPositions D)
  pure (J.l [toJ ((arcs t).filter fun p => p.1 != p.2), toJ (robustArcs t)])

def partTopo (j : J) : Option J := do
  let (t, comps) ← (fromJ j : Option (Table × List (List Nat)))
  pure (toJ (Spec.isTopoSCC t t.length comps))

def partFront (j : J) : Option J := do
  let (t, comps) ← (fromJ j : Option (Table × List (List Nat)))
  pure (toJ (parFront t comps))

def partCons (j : J) : Option J := do
  let (t, comps, bound) ← (fromJ j : Option (Table × List (List Nat) × Nat))
  let out := parCons t comps bound (fun scc => [scc]) (fun scc => [scc])
  pure (J.l [toJ out.partition, toJ out.optimal, toJ (comps.map fun c => canBeAllTied c t)])

def partConsistent (j : J) : Option J := do
  let (P, c) ← (fromJ j : Option (List (List Elem) × Ranking))
  let fuel := 4 * (P.length + c.length) + 16
  let r : Int := match consistentWith P c fuel with | some true => 1 | some false => 0 | none => -1
  pure (J.l [J.n r, toJ (Spec.consistentSpec P c)])

def c06Holds (j : J) : Option J := do
  let (t, comps, bound, part, cons, flag) ←
    (fromJ j : Option (Table × List (List Nat) × Nat × List (List Nat) × List (List Nat) × Bool))
  pure (toJ (Spec.C06.holds t t.length comps bound part cons flag))

def flagHolds (j : J) : Option J := do
  let (t, cons, flag) ← (fromJ j : Option (Table × List (List Nat) × Bool))
  pure (toJ (Spec.flagTruthful t t.length cons flag))

def c07Holds (j : J) : Option J := do
  let (t, comps, pf) ← (fromJ j : Option (Table × List (List Nat) × List (List Nat)))
  pure (toJ (Spec.C07.holds t t.length comps pf))

def optOp (j : J) : Option J := do
  let (t, withOptima) ← (fromJ j : Option (Table × Bool))
  pure (J.l [toJ (optScore t t.length), toJ (if withOptima then optima t t.length else [])])

def partOps : List (String × (J → Option J)) :=
  [("part.graph", partGraph), ("part.topo", partTopo), ("part.parfront", partFront), ("part.parcons", partCons),
   ("part.consistent", partConsistent), ("c06.holds", c06Holds), ("flag.holds", flagHolds), ("c07.holds", c07Holds),
   ("opt", optOp)]

end Corankco.Driver
