import Corankco.Proto
import Corankco.Spec.C01
import Corankco.Model.Kemeny
namespace Corankco.Driver
open Corankco

def c01Model (j : J) : Option J := do
  let (S, D, c) ← (fromJ j : Option (Scheme × Dataset × Ranking))
  match Model.getScore S c D with
  | .ok v => pure (J.l [toJ (some v), toJ (D.map fun r => Model.costByRanking c r)])
  | .error _ => pure (J.l [toJ (none : Option Int), J.l []])

def c01Holds (j : J) : Option J := do
  let (S, D, c, out) ← (fromJ j : Option (Scheme × Dataset × Ranking × Option Int))
  pure (toJ (Spec.C01.holds S D c out))

def c01Ops : List (String × (J → Option J)) :=
  [("c01.model", c01Model), ("c01.holds", c01Holds)]

end Corankco.Driver
