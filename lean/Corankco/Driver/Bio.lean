import Corankco.Proto
import Corankco.Spec.Bio
namespace Corankco.Driver
open Corankco Model

def optJ (o : Option Nat) : J := match o with | some k => J.n k | none => J.n (-1)

def bioDelta (j : J) : Option J := do
  let (t, r, x) ← (fromJ j : Option (Table × List Nat × Nat))
  let (c, a, al) := computeDelta t r x
  pure (J.l [toJ c, toJ a, toJ al])

def bioSearch (j : J) : Option J := do
  let (τ, b, change, add, maxId) ← (fromJ j : Option (Int × Nat × List Int × List Int × Nat))
  let sc := searchChange τ b change maxId
  let sa := searchAdd τ b add maxId
  pure (J.l [optJ sc.1, toJ sc.2, optJ sa.1, toJ sa.2])

def bioMove (j : J) : Option J := do
  let (kind, r, x, old, new, alone) ← (fromJ j : Option (Nat × List Nat × Nat × Nat × Nat × Bool))
  pure (toJ (if kind == 0 then changeBucket r x old new alone else addBucket r x old new alone))

def bioImprove (j : J) : Option J := do
  let (t, τ, fuel, r) ← (fromJ j : Option (Table × Int × Nat × List Nat))
  let res := improveOne t τ fuel r
  pure (J.l [toJ res.1, toJ res.2.1, toJ res.2.2, toJ (Spec.localOptVec t τ res.1)])

def bioDepartures (j : J) : Option J := do
  let (D, starters) ← (fromJ j : Option (Dataset × List Ranking))
  pure (toJ (if starters.isEmpty then departuresDefault D else departuresStarters D starters))

def bioResJ (res : List (List Nat × Int × Bool)) : J :=
  J.l (res.map fun r => J.l [toJ r.1, toJ r.2.1, toJ r.2.2])

def bioRun (j : J) : Option J := do
  let (S, D, starters, amo, τ, fuel) ← (fromJ j : Option (Scheme × Dataset × List Ranking × Bool × Int × Nat))
  let deps := if starters.isEmpty then departuresDefault D else departuresStarters D starters
  let out := bioConsertRun S D deps amo τ fuel
  pure (J.l [toJ out.1.1, toJ out.1.2, bioResJ out.2, toJ deps])

def c08Holds (j : J) : Option J := do
  let (S, D, τ, out) ← (fromJ j : Option (Scheme × Dataset × Int × List Ranking))
  pure (toJ (Spec.C08.holds S D τ out))

def c09Holds (j : J) : Option J := do
  let (S, D, out, rep, starts) ← (fromJ j : Option (Scheme × Dataset × List Ranking × Int × List Ranking))
  let starts := if starts.isEmpty then Spec.defaultStarts D else starts
  pure (toJ (Spec.C09.holds S D out rep starts))

def bioOps : List (String × (J → Option J)) :=
  [("bio.delta", bioDelta), ("bio.search", bioSearch), ("bio.move", bioMove), ("bio.improve", bioImprove),
   ("bio.departures", bioDepartures), ("bio.run", bioRun), ("c08.holds", c08Holds), ("c09.holds", c09Holds)]

end Corankco.Driver
