import Corankco.Proto
import Corankco.Spec.C02
namespace Corankco.Driver
open Corankco

def c02Model (j : J) : Option J := do
  let (S, D) ← (fromJ j : Option (Scheme × Dataset))
  let pos := Model.getPositions D
  let bid := Model.getBucketIds D
  pure (J.l [toJ (univOf D), toJ pos, toJ bid, toJ (Model.costMatrix S pos), toJ (Model.costMatrix S bid)])

def c02Holds (j : J) : Option J := do
  let (S, D, c, tp, tb) ← (fromJ j : Option (Scheme × Dataset × Ranking × Model.Table × Model.Table))
  pure (toJ (Spec.C02.holds S D c tp tb))

def c02Ops : List (String × (J → Option J)) :=
  [("c02.model", c02Model), ("c02.holds", c02Holds)]

end Corankco.Driver
