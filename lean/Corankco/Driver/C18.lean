import Corankco.Proto
import Corankco.Model.Parse
import Corankco.Driver.C16
namespace Corankco.Driver
open Corankco Model

def textOfJ (j : J) : Option (List Char) :=
  match j with
  | J.l cs => cs.mapM fun c => match c with | J.n k => some (Char.ofNat k.toNat) | _ => none
  | _ => none

def textJ (s : List Char) : J := J.l (s.map fun c => J.n c.toNat)

def perrJ : PErr → J
  | .valueError => J.l [J.n 1]
  | .outOfFuel => J.l [J.n 9]

def bucketsJ (r : Except PErr (List NBucket)) : J :=
  match r with
  | .ok bs => J.l [J.n 0, rankingJ bs]
  | .error e => perrJ e

def parseStr (j : J) : Option J := do let t ← textOfJ j; pure (bucketsJ (parseTies convStr t))
def parseInt (j : J) : Option J := do let t ← textOfJ j; pure (bucketsJ (parseTies convInt t))
def parseFrom (j : J) : Option J := do let t ← textOfJ j; pure (bucketsJ (fromString t))

def renderOp (j : J) : Option J := do
  let r ← rankingOfJ j
  pure (J.l [textJ (renderRanking r), textJ (renderRankingBrackets r)])

def fileRead (j : J) : Option J := do
  let t ← textOfJ j
  match readFile t with
  | .ok rs => pure (J.l [J.n 0, J.l (rs.map rankingJ)])
  | .error e => pure (perrJ e)

def fileWrite (j : J) : Option J := do
  let rs ← listOfJ rankingOfJ j
  pure (textJ (writeFile rs))

def c18Ops : List (String × (J → Option J)) :=
  [("parse.str", parseStr), ("parse.int", parseInt), ("parse.from", parseFrom), ("render", renderOp),
   ("file.read", fileRead), ("file.write", fileWrite)]

end Corankco.Driver
