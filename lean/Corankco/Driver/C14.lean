import Corankco.Proto
import Corankco.Model.Applicability
namespace Corankco.Driver
open Corankco Model

partial def algOfJ : J → Option Alg
  | J.l [J.n 0] => some .exact
  | J.l [J.n 1] => some .kwik
  | J.l [J.n 2] => some .copeland
  | J.l [J.n 3] => some .borda
  | J.l [J.n 4] => some .pickAPerm
  | J.l [J.n 5] => some .bioCo
  | J.l [J.n 6, J.l xs] => do let ys ← xs.mapM algOfJ; pure (.bioConsert ys)
  | J.l [J.n 7, a] => do let x ← algOfJ a; pure (.parCons x)
  -- the selector: [8, enum value, [] | [[starters…]] (BIOCONSERT) | [aux] (PARCONS)]
  | J.l [J.n 8, J.n v, J.l ps] => do
    let a ← AlgName.ofValue? v.toNat
    if v < 0 then none
    let p : Params ← match a, ps with
      | _, [] => some {}
      | .BIOCONSERT, [J.l xs] => do let ys ← xs.mapM algOfJ; pure { starters := some ys }
      | .PARCONS, [x] => do let y ← algOfJ x; pure { aux := some y }
      | _, _ => none
    getAlgorithm a p
  | _ => none

partial def algToJ : Alg → J
  | .exact => J.l [J.n 0]
  | .kwik => J.l [J.n 1]
  | .copeland => J.l [J.n 2]
  | .borda => J.l [J.n 3]
  | .pickAPerm => J.l [J.n 4]
  | .bioCo => J.l [J.n 5]
  | .bioConsert st => J.l [J.n 6, J.l (st.map algToJ)]
  | .parCons aux => J.l [J.n 7, algToJ aux]

/-- [configuration term the selector builds, listed by get_all_compatible_with_any_scoring_scheme, get_all values,
     compatible values] -/
def c14Factory (j : J) : Option J := do
  match j with
  | J.l [J.n 8, J.n v, _] =>
    let alg ← algOfJ j
    let a ← AlgName.ofValue? v.toNat
    pure (J.l [algToJ alg, toJ (AlgName.compatibleWithAny.contains a),
               J.l (AlgName.getAll.map fun x => J.n x.value), J.l (AlgName.compatibleWithAny.map fun x => J.n x.value)])
  | _ => none

def c14Relevant (j : J) : Option J := do
  match j with
  | J.l [a, s] =>
    let alg ← algOfJ a
    let S ← (fromJ s : Option Scheme)
    pure (J.l [toJ (relevant alg S), toJ (mayRefuse alg S false), toJ (mayRefuse alg S true), toJ (exactRefusal alg)])
  | _ => none

def c14Ops : List (String × (J → Option J)) := [("c14.relevant", c14Relevant), ("c14.factory", c14Factory)]

end Corankco.Driver
