import Corankco.Proto
import Corankco.Model.Applicability
namespace Corankco.Driver
open Corankco Model

partial def algOfJ : J → Option Alg
  | J.l [J.n 0] => some .exact
  | J.l [J.n 1] => some .kwik
  | J.l [J.n 2] => some .copeland
  | J.l [J.n 3] => some .borda
  | J.l [J.n 4] => some .pickAPerm
  | J.l [J.n 5] => some .bioCo
  | J.l [J.n 6, J.l xs] => do let ys ← xs.mapM algOfJ; pure (.bioConsert ys)
  | J.l [J.n 7, a] => do let x ← algOfJ a; pure (.parCons x)
  | _ => none

def c14Relevant (j : J) : Option J := do
  match j with
  | J.l [a, s] =>
    let alg ← algOfJ a
    let S ← (fromJ s : Option Scheme)
    pure (J.l [toJ (relevant alg S), toJ (mayRefuse alg S false), toJ (mayRefuse alg S true), toJ (exactRefusal alg)])
  | _ => none

def c14Ops : List (String × (J → Option J)) := [("c14.relevant", c14Relevant)]

end Corankco.Driver
