import Corankco.Proto
import Corankco.Spec.C16
namespace Corankco.Driver
open Corankco Model Spec

def nameOfJ : J → Option Name
  | J.l [J.n 0, J.n v] => some (.int v)
  | J.l [J.n 1, J.l cs] => do
      let xs ← cs.mapM fun c => match c with | J.n k => some (Char.ofNat k.toNat) | _ => none
      pure (.str xs)
  | _ => none

def nameJ : Name → J
  | .int v => J.l [J.n 0, J.n v]
  | .str s => J.l [J.n 1, J.l (s.map fun c => J.n c.toNat)]

def listOfJ {α} (f : J → Option α) : J → Option (List α)
  | J.l xs => xs.mapM f
  | _ => none

def rankingOfJ (j : J) : Option NRanking := listOfJ (listOfJ nameOfJ) j

def rankingJ (r : NRanking) : J := J.l (r.map fun b => J.l (b.map nameJ))

def rviewJ (v : RView) : J :=
  J.l [rankingJ v.buckets, J.l (v.positions.map fun p => J.l [nameJ p.1, J.n p.2]), J.l (v.domain.map nameJ),
       J.n v.nbElements, J.n v.len]

def snapJ (s : Snap) : J :=
  J.l [J.l (s.rankings.map rviewJ), J.l (s.univ.map nameJ),
       J.l (s.elemId.map fun p => J.l [nameJ p.1, J.n p.2]), J.l (s.idElem.map fun p => J.l [J.n p.1, nameJ p.2]),
       J.n s.nbElements, J.n s.nbRankings, toJ s.complete, toJ s.withoutTies, toJ s.pos, toJ s.bid]

def rviewOfJ : J → Option RView
  | J.l [b, J.l ps, d, J.n nb, J.n ln] => do
      let buckets ← rankingOfJ b
      let positions ← ps.mapM fun p => match p with
        | J.l [x, J.n k] => do let n ← nameOfJ x; pure (n, k.toNat)
        | _ => none
      let domain ← listOfJ nameOfJ d
      pure { buckets, positions, domain, nbElements := nb.toNat, len := ln.toNat }
  | _ => none

def snapOfJ : J → Option Snap
  | J.l [J.l rs, u, J.l ei, J.l ie, J.n nbE, J.n nbR, c, w, p, b] => do
      let rankings ← rs.mapM rviewOfJ
      let uni ← listOfJ nameOfJ u
      let elemId ← ei.mapM fun q => match q with
        | J.l [x, J.n k] => do let n ← nameOfJ x; pure (n, k.toNat)
        | _ => none
      let idElem ← ie.mapM fun q => match q with
        | J.l [J.n k, x] => do let n ← nameOfJ x; pure (k.toNat, n)
        | _ => none
      let complete ← (fromJ c : Option Bool)
      let withoutTies ← (fromJ w : Option Bool)
      let pos ← (fromJ p : Option (List (List Int)))
      let bid ← (fromJ b : Option (List (List Int)))
      pure { rankings, univ := uni, elemId, idElem, nbElements := nbE.toNat, nbRankings := nbR.toNat, complete,
             withoutTies, pos, bid }
  | _ => none

def errJ : DErr → J
  | .emptyDataset => J.l [J.n 1]
  | .valueError => J.l [J.n 2]

/-- one mutator / derived operation on the current dataset -/
def applyOp (d : DS) : J → Option (Except DErr DS × J)
  | J.l [J.n 0, els] => do
      let e ← listOfJ nameOfJ els
      let r := removeElements d e
      pure (r, match r with | .ok d' => J.l [J.n 0, snapJ (snapOf d')] | .error x => errJ x)
  | J.l [J.n 1, J.n num, J.n den] =>
      let r := removeRate d num.toNat den.toNat
      some (r, match r with | .ok d' => J.l [J.n 0, snapJ (snapOf d')] | .error x => errJ x)
  | J.l [J.n 2] =>
      let r := removeEmptyRankings d
      some (r, match r with | .ok d' => J.l [J.n 0, snapJ (snapOf d')] | .error x => errJ x)
  | J.l [J.n 3] =>
      -- unified rankings (views) and unified dataset: read-only
      let u := unifiedRankingsN d
      let ud := unifiedDataset d
      some (.ok d, J.l [J.n 0, J.l (u.map fun r => rviewJ (viewOf r)),
        match ud with | .ok d' => J.l [J.n 0, snapJ (snapOf d')] | .error x => errJ x])
  | J.l [J.n 4, keep] => do
      let k ← listOfJ nameOfJ keep
      let sp := subProblemN d k
      pure (.ok d, match sp with | .ok d' => J.l [J.n 0, snapJ (snapOf d')] | .error x => errJ x)
  | _ => none

/-- [raw rankings, ops] -> [ctor result, result of each op] -/
def dsRun (j : J) : Option J := do
  match j with
  | J.l [rs, J.l ops] =>
    let raw ← listOfJ rankingOfJ rs
    let built := raw.mapM mkRanking
    let init : Except DErr DS := match built with | .error e => .error e | .ok rs' => analyse rs'
    match init with
    | .error e => pure (J.l [errJ e])
    | .ok d0 =>
      let res ← ops.foldlM (fun (st : DS × List J) op => do
        let (r, out) ← applyOp st.1 op
        pure (match r with | .ok d' => (d', st.2 ++ [out]) | .error _ => (st.1, st.2 ++ [out])))
        (d0, [J.l [J.n 0, snapJ (snapOf d0)]])
      pure (J.l res.2)
  | _ => none

def c16Inv (j : J) : Option J := do
  let s ← snapOfJ j
  pure (toJ (C16.inv s))

def c16Unified (j : J) : Option J := do
  match j with
  | J.l [u, o, J.l vs] =>
    let uni ← listOfJ nameOfJ u
    let orig ← listOfJ rankingOfJ o
    let views ← vs.mapM rviewOfJ
    pure (toJ (unifiedOK uni orig views))
  | _ => none

def c16Proj (j : J) : Option J := do
  match j with
  | J.l [o, k, p] =>
    let orig ← listOfJ rankingOfJ o
    let keep ← listOfJ nameOfJ k
    let proj ← listOfJ rankingOfJ p
    pure (toJ (projOK orig keep proj))
  | _ => none

def c17Eq (j : J) : Option J := do
  match j with
  | J.l [a, b] =>
    let ra ← listOfJ rankingOfJ a
    let rb ← listOfJ rankingOfJ b
    pure (toJ (multisetEq ra rb))
  | _ => none

def c16Ops : List (String × (J → Option J)) :=
  [("ds.run", dsRun), ("c16.inv", c16Inv), ("c16.unified", c16Unified), ("c16.proj", c16Proj), ("ds.eq", c17Eq)]

end Corankco.Driver
