import Corankco.Proto
import Corankco.Spec.C19
namespace Corankco.Driver
open Corankco Model

partial def pyOfJ : J → Option PyVal
  | J.l [J.n 0, J.l xs] => do let ys ← xs.mapM pyOfJ; pure (.list ys)
  | J.l [J.n 1, J.n v] => some (.int v)
  | J.l [J.n 2, J.n v] => some (.float v)
  | J.l [J.n 3, J.n v] => some (.bool (v != 0))
  | J.l [J.n 4] => some .pynone
  | J.l [J.n 5] => some .str
  | J.l [J.n 6] => some .other
  | J.l [J.n 7] => some .nan
  | J.l [J.n 8] => some .inf
  | _ => none

def errCode : SErr → Int
  | .invalid => 1 | .nonReal => 2 | .forbidden => 3 | .valueError => 4

def resJ (r : Except SErr Scheme) : J :=
  match r with
  | .ok S => J.l [J.n 0, toJ S]
  | .error e => J.l [J.n (errCode e)]

def c19New (j : J) : Option J := do
  match j with
  | J.l [J.n scale, v] =>
    let pv ← pyOfJ v
    pure (J.l [resJ (newScheme scale pv), resJ (Spec.newSpec scale pv)])
  | _ => none

def c19Mul (j : J) : Option J := do
  let (S, k) ← (fromJ j : Option (Scheme × Option Int))
  pure (resJ (mulScheme S k))

/-- multiplication by NaN / ±inf -/
def c19MulNonFinite (j : J) : Option J := do
  let S ← (fromJ j : Option Scheme)
  pure (resJ (mulSchemeArg S .nonFinite))

def c19Equiv (j : J) : Option J := do
  let (S1, S2) ← (fromJ j : Option (Scheme × Scheme))
  pure (J.l [toJ (isEquivalentTo S1 S2), toJ (isEquivalentToOnComplete S1 S2),
             toJ (Spec.equivSpec 6 S1 S2), toJ (Spec.equivSpec 3 S1 S2), toJ (nickname S1)])

/-- the preset schemes the model uses (scaled by 2 so that p = 1/2 is integral), in the order
    unifying, pseudo, induced, extended, unifying p=1/2, induced p=1/2 -/
def c19Presets (_ : J) : Option J :=
  some (toJ [Scheme.scale 2 unifying, Scheme.scale 2 pseudo, Scheme.scale 2 induced, Scheme.scale 2 extended,
             unifyingHalf, inducedHalf])

def c19Ops : List (String × (J → Option J)) :=
  [("c19.new", c19New), ("c19.mul", c19Mul), ("c19.mulnf", c19MulNonFinite), ("c19.equiv", c19Equiv), ("c19.presets", c19Presets)]

end Corankco.Driver
