import Corankco.Proto
import Corankco.Spec.Algos
namespace Corankco.Driver
open Corankco Model

def algBorda (j : J) : Option J := do
  let (useBid, S, D) ← (fromJ j : Option (Bool × Scheme × Dataset))
  match borda useBid S D with
  | .ok r => pure (J.l [J.n 0, toJ r])
  | .error _ => pure (J.l [J.n 1])

def algCopeland (j : J) : Option J := do
  let (S, D) ← (fromJ j : Option (Scheme × Dataset))
  let (r, sc, res) := copeland S D
  pure (J.l [toJ r, toJ sc, toJ (res.map fun x => [x.1, x.2.1, x.2.2])])

def algPick (j : J) : Option J := do
  let (amo, S, D) ← (fromJ j : Option (Bool × Scheme × Dataset))
  match pickAPerm amo S D with
  | .ok (rs, sc) => pure (J.l [J.n 0, toJ rs, toJ sc])
  | .error _ => pure (J.l [J.n 2])

def algKwik (j : J) : Option J := do
  let (S, D, order, script) ← (fromJ j : Option (Scheme × Dataset × List Nat × List Nat))
  let r := kwikSortDataset S D order script
  pure (J.l [toJ r.1, toJ r.2])

def algWhere (j : J) : Option J := do
  let (S, D) ← (fromJ j : Option (Scheme × Dataset))
  let pos := getPositions D
  pure (toJ (pos.map fun p => pos.map fun e => whereShouldItBe S p e))

def c12Holds (j : J) : Option J := do
  let (useBid, S, D, out) ← (fromJ j : Option (Bool × Scheme × Dataset × Option Ranking))
  pure (toJ (Spec.C12.holds useBid S D out))

def c13Holds (j : J) : Option J := do
  let (S, D, out, sc, res) ← (fromJ j : Option (Scheme × Dataset × Ranking × List Nat × List (List Nat)))
  pure (toJ (Spec.C13.holds S D out sc (res.map fun l => (l.getD 0 0, l.getD 1 0, l.getD 2 0))))

def c10Holds (j : J) : Option J := do
  let (amo, S, D, out) ← (fromJ j : Option (Bool × Scheme × Dataset × Option (List Ranking × Option Int)))
  pure (toJ (Spec.C10.holds amo S D out))

def c11Holds (j : J) : Option J := do
  let (S, D, out, steps) ← (fromJ j : Option (Scheme × Dataset × Ranking × List (List Elem × Elem)))
  pure (J.l [toJ (Spec.C11.holds S D out steps), toJ (Spec.coherent S D)])

def c03Holds (j : J) : Option J := do
  let (D, amo, out) ← (fromJ j : Option (Dataset × Bool × List Ranking))
  pure (toJ (Spec.C03.holds D amo out))

def c04Holds (j : J) : Option J := do
  let (S, D, out, rep) ← (fromJ j : Option (Scheme × Dataset × List Ranking × Option Int))
  pure (J.l [toJ (Spec.C04.holds S D out rep), toJ (out.map (Spec.kemeny S D))])

def algosOps : List (String × (J → Option J)) :=
  [("alg.borda", algBorda), ("alg.copeland", algCopeland), ("alg.pickaperm", algPick), ("alg.kwik", algKwik),
   ("alg.where", algWhere), ("c12.holds", c12Holds), ("c13.holds", c13Holds), ("c10.holds", c10Holds),
   ("c11.holds", c11Holds), ("c03.holds", c03Holds), ("c04.holds", c04Holds)]

end Corankco.Driver
