import Corankco.Proto
import Corankco.Spec.C20
namespace Corankco.Driver
open Corankco Model

/-- [complete, v, draws] -> vectors after every step -/
def c20Walk (j : J) : Option J := do
  let (complete, v, draws) ← (fromJ j : Option (Bool × List Int × List (Nat × Nat)))
  let states := draws.foldl (fun (acc : List Int × List (List Int)) d =>
    let v' := if complete then stepComplete acc.1 d.1 d.2 else stepIncomplete acc.1 d.1 d.2
    (v', acc.2 ++ [v'])) (v, [])
  pure (J.l [toJ states.2, toJ (states.2.all Spec.denseB)])

/-- [move, v, e] -> vector  (moves 1..6 = addLeft, addRight, changeLeft, changeRight, remove, putFirst) -/
def c20Move (j : J) : Option J := do
  let (mv, v, e) ← (fromJ j : Option (Nat × List Int × Nat))
  let r := match mv with
    | 1 => addLeft v e | 2 => addRight v e | 3 => changeLeft v e | 4 => changeRight v e
    | 5 => removeElem v e | _ => putFirst v e
  pure (J.l [toJ r, toJ (Spec.denseB r)])

def c20Gen (j : J) : Option J := do
  let (n, complete, draws) ← (fromJ j : Option (Nat × Bool × List (List (Nat × Nat))))
  pure (toJ (generate n complete draws))

def c20Holds (j : J) : Option J := do
  let (n, m, complete, rs) ← (fromJ j : Option (Nat × Nat × Bool × List Ranking))
  pure (toJ (Spec.C20.holds n m complete rs))

def c20HoldsU (j : J) : Option J := do
  let (n, m, rs) ← (fromJ j : Option (Nat × Nat × List Ranking))
  pure (toJ (Spec.C20.holdsUniform n m rs))

def c20Ops : List (String × (J → Option J)) :=
  [("c20.walk", c20Walk), ("c20.move", c20Move), ("c20.gen", c20Gen), ("c20.holds", c20Holds),
   ("c20.holdsU", c20HoldsU)]

end Corankco.Driver
