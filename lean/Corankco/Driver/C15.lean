import Corankco.Proto
import Corankco.Model.History
namespace Corankco.Driver
open Corankco Model

def hopOfJ : J → Option HOp
  | J.l [J.n 0, J.n b] => some (.borda (b != 0))
  | J.l [J.n 1] => some .copeland
  | J.l [J.n 2, J.n a] => some (.pickAPerm (a != 0))
  | J.l [J.n 3, c] => do let r ← (fromJ c : Option Ranking); pure (.score r)
  | _ => none

def houtJ : HOut → J
  | .ranking r => toJ r
  | .rankings rs => toJ rs
  | .value v => toJ v

def c15Run (j : J) : Option J := do
  match j with
  | J.l [s, d, J.l ops] =>
    let S ← (fromJ s : Option Scheme)
    let D ← (fromJ d : Option Dataset)
    let hops ← ops.mapM hopOfJ
    pure (J.l ((hRun ⟨D, S⟩ hops).2.map houtJ))
  | _ => none

def c15Ops : List (String × (J → Option J)) := [("c15.run", c15Run)]

end Corankco.Driver
