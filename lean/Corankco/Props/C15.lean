import Corankco.Model.History
/-
  C15 — in the model, by construction: no call changes the shared objects, and any history of calls gives the same
  outputs as calls on fresh copies. Heap aliasing itself is OBSERVED by the harness, not proved (level: partial).
-/
namespace Corankco
open Model

/-- frame: the state after any history is the initial state -/
theorem C15_frame (s : HState) (ops : List HOp) : (hRun s ops).1 = s := by
  induction ops generalizing s with
  | nil => rfl
  | cons op ops ih => simp [hRun, hStep, ih]

/-- history independence: the outputs of a history on shared objects are the outputs on fresh copies -/
theorem C15_history_independent (s : HState) (ops : List HOp) : (hRun s ops).2 = ops.map (hOut s) := by
  induction ops generalizing s with
  | nil => rfl
  | cons op ops ih => simp [hRun, hStep, ih]

/-- repeatability: calling the same deterministic operation twice gives the same result -/
theorem C15_repeatable (s : HState) (op : HOp) (pre mid : List HOp) :
    ((hRun s (pre ++ [op] ++ mid ++ [op])).2).getLast? = some (hOut s op) ∧
    ((hRun s (pre ++ [op])).2).getLast? = some (hOut s op) := by
  have last : ∀ (l : List HOut) (x : HOut), (l ++ [x]).getLast? = some x := by
    intro l x; simp
  constructor
  · rw [C15_history_independent, List.map_append]
    exact last _ _
  · rw [C15_history_independent, List.map_append]
    exact last _ _

example : (hRun ⟨[[[0, 1], [2]], [[2], [0]]], unifying⟩ [.borda false, .copeland, .borda false]).2.length = 3 := by
  simp [hRun]

end Corankco
