import Corankco.Lemmas.C10
/-
  C10 — property theorems of PickAPerm (helper lemmas live in Lemmas/C10.lean).
-/
namespace Corankco
open Model

/-- the scan over an abstract score function: members, minimality, completeness of the returned list -/
theorem C10_scan {α : Type} (score : α → Int) (amo : Bool) (l : List α) (hl : l ≠ []) :
    ∃ m acc, pickScan score amo l none = some (m, acc) ∧ acc ≠ [] ∧
      (∀ r ∈ acc, r ∈ l ∧ score r = m) ∧ (∀ r ∈ l, m ≤ score r) ∧
      (amo = true → acc.length = 1) ∧ (amo = false → ∀ r ∈ l, score r = m → r ∈ acc) := by
  cases l with
  | nil => exact absurd rfl hl
  | cons a rs =>
    obtain ⟨m, acc, he, hane, hmem, hle, hmin, hl1, hall⟩ :=
      C10.pickScan_some score amo rs (score a) [a] (by simp) (by intro r hr; simp at hr; rw [hr])
        (by intro _; rfl)
    refine ⟨m, acc, by simpa only [pickScan] using he, hane, ?_, ?_, hl1, ?_⟩
    · intro r hr
      obtain ⟨h, hs⟩ := hmem r hr
      refine ⟨?_, hs⟩
      rcases h with h | h
      · simp at h; simp [h]
      · simp [h]
    · intro r hr
      rcases List.mem_cons.mp hr with rfl | hr
      · exact hle
      · exact hmin r hr
    · intro hf r hr hs
      obtain ⟨ha1, ha2⟩ := hall hf
      rcases List.mem_cons.mp hr with rfl | hr
      · exact ha2 hs.symm r (by simp)
      · exact ha1 r hr hs

/-- PickAPerm: refused exactly for an incomplete dataset under a scheme not equivalent to the unifying one; otherwise
    every returned ranking is one of the (unified) input rankings, has the minimum Kemeny score among them, the
    reported score is that minimum, exactly one ranking is returned on request, and when all are requested every
    minimal input ranking is returned. -/
theorem C10_holds (amo : Bool) (S : Scheme) (hS : S.Valid) (D : Dataset) (hne : D ≠ [])
    (hD : ∀ r ∈ D, r.flatten.Nodup) :
    Spec.C10.holds amo S D
      (match pickAPerm amo S D with | .ok out => some out | .error _ => none) = true := by
  have hequiv : isEquivalentTo S unifying = Spec.equivSpec 6 S unifying :=
    C19_equiv_spec 6 S unifying hS (by decide)
  rw [C10.pickAPerm_eq amo S hS D hD, hequiv]
  unfold Spec.C10.holds
  by_cases hrej : (!isComplete D && !Spec.equivSpec 6 S unifying) = true
  · rw [if_pos hrej]
    simpa using hrej
  · rw [if_neg hrej]
    have hacc : (isComplete D || Spec.equivSpec 6 S unifying) = true := by
      cases h1 : isComplete D <;> cases h2 : Spec.equivSpec 6 S unifying <;> simp [h1, h2] at hrej ⊢
    -- the scanned list
    have hin : (if isComplete D = true then D else unifiedRankings D) = C10.inputs D := rfl
    simp only [hin]
    have hine := C10.inputs_ne_nil hne
    obtain ⟨m, acc, he, hane, hmem, hmin, hl1, hall⟩ :=
      C10_scan (Spec.kemeny S D) amo (C10.inputs D) hine
    rw [he]
    -- the minimum of the spec is `m`
    obtain ⟨a0, hacc0⟩ := List.exists_mem_of_ne_nil acc hane
    obtain ⟨ha0, hsa0⟩ := hmem a0 hacc0
    have hbest : ((C10.inputs D).map (Spec.kemeny S D)).foldl min
        (Spec.kemeny S D ((C10.inputs D).headD [])) = m := by
      apply C10.foldl_min_eq
      · cases hI : C10.inputs D with
        | nil => exact absurd hI hine
        | cons b bs => simp
      · rw [← hsa0]
        exact List.mem_map.mpr ⟨a0, ha0, rfl⟩
      · intro x hx
        obtain ⟨r, hr, rfl⟩ := List.mem_map.mp hx
        exact hmin r hr
    simp only [hbest, hacc, Bool.true_and, Bool.and_eq_true, Bool.or_eq_true, decide_eq_true_eq,
      List.all_eq_true, List.any_eq_true, beq_iff_eq, Bool.not_eq_true', bne_iff_ne, ne_eq]
    refine ⟨⟨⟨⟨?_, ?_⟩, ?_⟩, ?_⟩, ?_⟩
    · cases acc with
      | nil => exact absurd rfl hane
      | cons _ _ => simp
    · cases amo with
      | true => right; exact hl1 rfl
      | false => left; rfl
    · intro r hr
      obtain ⟨hrl, hrs⟩ := hmem r hr
      refine ⟨⟨r, hrl, C10.sameRanking_refl r⟩, ?_⟩
      exact hrs
    · trivial
    · cases amo with
      | true => left; rfl
      | false =>
        right
        intro i hi
        by_cases hk : Spec.kemeny S D i = m
        · right
          exact ⟨i, hall rfl i hi hk, C10.sameRanking_refl i⟩
        · left; exact hk

/-! ### non-vacuity -/

def C10.exD2 : Dataset := [[[0], [1]], [[1], [0]]]
def C10.exD3 : Dataset := [[[0], [1]], [[1]], [[1], [0]]]
def C10.exD4 : Dataset := [[[0], [1]], [[1]]]

/-- the hypotheses of `C10_holds` are satisfiable on these instances -/
example : unifying.Valid ∧ induced.Valid ∧ (∀ r ∈ C10.exD2, r.flatten.Nodup) ∧
    (∀ r ∈ C10.exD3, r.flatten.Nodup) ∧ (∀ r ∈ C10.exD4, r.flatten.Nodup) := by decide

/-- a complete dataset whose two distinct rankings are both minimal: all requested → both returned -/
example : isComplete C10.exD2 = true ∧
    pickAPerm false unifying C10.exD2 = .ok ([[[0], [1]], [[1], [0]]], some 1) := by
  rw [C10.pickAPerm_eq _ _ (by decide) _ (by decide)]; decide

/-- … and a single one on request -/
example : pickAPerm true unifying C10.exD2 = .ok ([[[0], [1]]], some 1) := by
  rw [C10.pickAPerm_eq _ _ (by decide) _ (by decide)]; decide

/-- the spec distinguishes: both minimal rankings are demanded when all are requested, exactly one otherwise -/
example : Spec.C10.holds false unifying C10.exD2 (some ([[[0], [1]], [[1], [0]]], some 1)) = true ∧
    Spec.C10.holds false unifying C10.exD2 (some ([[[0], [1]]], some 1)) = false ∧
    Spec.C10.holds true unifying C10.exD2 (some ([[[0], [1]]], some 1)) = true ∧
    Spec.C10.holds true unifying C10.exD2 (some ([[[0], [1]], [[1], [0]]], some 1)) = false ∧
    Spec.C10.holds false unifying C10.exD2 (some ([[[0], [1]], [[1], [0]]], some 2)) = false := by decide

/-- an incomplete dataset under the unifying scheme: the rankings are unified before being scored -/
example : isComplete C10.exD3 = false ∧ unifiedRankings C10.exD3 = [[[0], [1]], [[1], [0]], [[1], [0]]] ∧
    pickAPerm false unifying C10.exD3 = .ok ([[[1], [0]], [[1], [0]]], some 1) := by
  rw [C10.pickAPerm_eq _ _ (by decide) _ (by decide)]; decide

/-- a refused one: incomplete dataset, induced measure -/
example : isComplete C10.exD4 = false ∧ pickAPerm false induced C10.exD4 = .error .incompatible ∧
    Spec.C10.holds false induced C10.exD4 none = true ∧
    Spec.C10.holds false induced C10.exD4 (some ([[[0], [1]]], some 0)) = false := by
  rw [C10.pickAPerm_eq _ _ (by decide) _ (by decide)]; decide

-- the compiled model gives the same answers
#guard pickAPerm false unifying C10.exD2 == .ok ([[[0], [1]], [[1], [0]]], some 1)
#guard pickAPerm false unifying C10.exD3 == .ok ([[[1], [0]], [[1], [0]]], some 1)
#guard pickAPerm false induced C10.exD4 == .error .incompatible

end Corankco
