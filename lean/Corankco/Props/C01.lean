import Corankco.Spec.C01
import Corankco.Lemmas.C01Cost
import Corankco.Lemmas.C01Score
/-
  C01 — property theorems (helper lemmas live in Lemmas/C01*.lean).
-/
namespace Corankco
open Model

/-- A candidate lacking a dataset element is refused and nothing is scored. -/
theorem C01_refuse (S : Scheme) (D : Dataset) (c : Ranking) (h : Spec.covers c D = false) :
    getScore S c D = .error .invalidRankings := by
  unfold Spec.covers at h
  unfold getScore
  rw [h]
  rfl

/-- What the two vectors of `costByRanking c r` count, for a candidate `c` and an input ranking `r` with disjoint
    buckets, every element of `r` being in `c`. With `nOrd c r k` the number of pairs `(x, y)` of `pairs c.flatten`
    that `c` orders (in either direction; the status is read from the element placed first in `c`) with status
    `k` in `r`, and `nTie c r k` the number of pairs that `c` ties with status `k` in `r`:
    the first vector is `[0, n1, n2, n3, n4, n5]` (`n0` is not computed: it is multiplied by `b0 = 0`),
    the second one `[m0, 0, 0, m3, 0, m5]` where `m0` counts the pairs tied in `c` and strictly ordered in `r`
    (status 0 or 1), `m3` the pairs tied in `c` with exactly one element ranked (status 3 or 4) and `m5` the pairs
    tied in `c` with no element ranked. -/
theorem C01_counts (c r : Ranking) (hc : c.flatten.Nodup) (hr : r.flatten.Nodup)
    (hsub : ∀ x ∈ r.flatten, x ∈ c.flatten) :
    costByRanking c r =
      ([0, C01.nOrd c r 1, C01.nOrd c r 2, C01.nOrd c r 3, C01.nOrd c r 4, C01.nOrd c r 5],
       [C01.nTie c r 0 + C01.nTie c r 1, 0, 0, C01.nTie c r 3 + C01.nTie c r 4, 0, C01.nTie c r 5]) :=
  C01.costByRanking_counts c r hc hr hsub

/-- The n·log n routine returns the pairwise-penalty definition, for every valid scheme, every dataset of
    rankings with disjoint buckets (incomplete, ties, empty rankings) and every candidate with disjoint buckets
    over the universe or a superset of it. -/
theorem C01_score (S : Scheme) (hS : S.Valid) (D : Dataset) (c : Ranking)
    (hc : c.flatten.Nodup) (hD : ∀ r ∈ D, r.flatten.Nodup) (hcov : Spec.covers c D = true) :
    getScore S c D = .ok (Spec.kemeny S D c) := by
  have hsub := C01.covers_sub hcov
  have hfold := C01.foldl_score S c D 6 ([0, 0, 0, 0, 0, 0], [0, 0, 0, 0, 0, 0]) rfl rfl (by
    intro r hr
    have hcnt := C01_counts c r hc (hD r hr) (hsub r hr)
    refine ⟨by rw [hcnt]; rfl, by rw [hcnt]; rfl, ?_⟩
    exact C01.dot_counts_eq_kemenyOne S hS c r _ hcnt)
  unfold Spec.covers at hcov
  unfold getScore
  rw [if_pos hcov]
  simp only []
  rw [hfold]
  simp [dot, Scheme.bList, Scheme.tList, Spec.kemeny]

/-- Both together, as the decidable predicate the checker evaluates on implementation outputs. -/
theorem C01_holds (S : Scheme) (hS : S.Valid) (D : Dataset) (c : Ranking)
    (hc : c.flatten.Nodup) (hD : ∀ r ∈ D, r.flatten.Nodup) :
    Spec.C01.holds S D c (match getScore S c D with | .ok v => some v | .error _ => none) = true := by
  unfold Spec.C01.holds
  cases hcov : Spec.covers c D with
  | true => rw [C01_score S hS D c hc hD hcov]; simp
  | false => rw [C01_refuse S D c hcov]; simp

/-! ### non-vacuity: 5 elements, 3 rankings with ties, element `4` missing from the second ranking,
    candidate over the strict superset `{0, …, 6}` -/

def C01.exS : Scheme :=
  { b0 := 0, b1 := 2, b2 := 1, b3 := 1, b4 := 2, b5 := 1, t0 := 2, t1 := 2, t2 := 0, t3 := 1, t4 := 1, t5 := 3 }
def C01.exD : Dataset := [[[0, 1], [2], [3, 4]], [[2], [0, 3], [1]], [[4, 3], [2, 1, 0]]]
def C01.exC : Ranking := [[1, 5], [0, 2], [6], [3, 4]]

example : C01.exS.Valid ∧ C01.exC.flatten.Nodup ∧ (∀ r ∈ C01.exD, r.flatten.Nodup) ∧
    Spec.covers C01.exC C01.exD = true := by decide

example : getScore C01.exS C01.exC C01.exD = .ok (Spec.kemeny C01.exS C01.exD C01.exC) :=
  C01_score _ (by decide) _ _ (by decide) (by decide) (by decide)

/-- the value of the definition on this instance, by kernel evaluation -/
example : Spec.kemeny C01.exS C01.exD C01.exC = 79 := by decide

-- the compiled routine and the definition agree (and give 79) on this instance
#guard (match getScore C01.exS C01.exC C01.exD with
  | .ok v => v == Spec.kemeny C01.exS C01.exD C01.exC && v == 79
  | .error _ => false)

end Corankco
