import Corankco.Props.C02c
/-
  C13d — the reported features (doubled scores, victory / equality / defeat counts, in id order) of the renamed dataset
  are the same lists: Copeland sees the dataset only through the cost table.
-/
namespace Corankco
open Model Spec

theorem C13_features_rename (S : Scheme) (hS : S.Valid) (D : Dataset) (f : Elem → Elem) (hf : Function.Injective f) :
    (copeland S (D.map fun r => r.map fun b => b.map f)).2 = (copeland S D).2 := by
  unfold copeland
  simp only [C02_rename_table S hS D f hf]

end Corankco
