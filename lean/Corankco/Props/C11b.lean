import Corankco.Props.C11
import Corankco.Props.C13b
import Corankco.Props.C02b
import Corankco.Props.C02c
/-
  C11b — the cheapest pairwise placement KwikSort follows at every recursion step (tie preferred, then before) does not
  depend on the order of the input rankings.
-/
namespace Corankco
open Model Spec

theorem C11_whereSpec_perm (S : Scheme) (D D' : Dataset) (hp : D.Perm D') (p e : Elem) :
    Spec.whereSpec S D p e = Spec.whereSpec S D' p e := by
  unfold Spec.whereSpec
  rw [C13_before_perm S D D' hp, C13_after_perm S D D' hp, C02_tied_perm S D D' hp]

/-- … nor on the names of the elements. -/
theorem C11_whereSpec_rename {f : Elem → Elem} (hf : Function.Injective f) (S : Scheme) (D : Dataset) (p e : Elem) :
    Spec.whereSpec S (D.map fun r => r.map fun b => b.map f) (f p) (f e) = Spec.whereSpec S D p e := by
  unfold Spec.whereSpec
  rw [C13_before_rename hf, C13_after_rename hf, C02_tied_rename hf]

/-- Non-vacuity: a pair whose cheapest placement is a tie, in two orders of the same rankings. -/
example :
    Spec.whereSpec Model.unifying [[[0, 1], [2]], [[2], [0]], [[1], [0]]] 0 1 = 0 ∧
      Spec.whereSpec Model.unifying [[[1], [0]], [[0, 1], [2]], [[2], [0]]] 0 1 = 0 ∧
      Spec.whereSpec Model.unifying [[[0, 1], [2]], [[2], [0]], [[1], [0]]] 2 0 = -1 := by
  decide

end Corankco
