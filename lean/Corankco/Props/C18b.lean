import Corankco.Lemmas.C18Round
/-
  C18 (round trip): parsing the textual form of a ranking gives the ranking back.
-/
namespace Corankco
open Model

/-- rankings of non-negative integers with non-empty, pairwise disjoint buckets -/
def IntRanking (r : NRanking) : Prop :=
  (∀ b ∈ r, b ≠ []) ∧ r.flatten.Nodup ∧ ∀ x ∈ r.flatten, ∃ n : Nat, x = .int (Int.ofNat n)

def AllWs (s : List Char) : Prop := ∀ c ∈ s, isWs c = true

/-- the decimal text of a natural number parses back to it -/
theorem C18_digits_roundtrip (n : Nat) :
    isDigitStr (intRepr (Int.ofNat n)) = true ∧ digitsVal (intRepr (Int.ofNat n)) = n :=
  ⟨C18R.isDigitStr_intRepr n, C18R.digitsVal_intRepr n⟩

/-- text round trip, integer elements: parsing the textual form (brace or bracket notation), with any surrounding
    white space and any `label:` prefix, yields the ranking itself -/
theorem C18_roundtrip_int (r : NRanking) (h : IntRanking r) (brackets : Bool)
    (pre post label : List Char) (hpre : AllWs pre) (hpost : AllWs post) (usePrefix : Bool) :
    fromString (pre ++ (if usePrefix then label ++ [':'] else []) ++
        (if brackets then renderRankingBrackets r else renderRanking r) ++ post) = .ok r := by
  obtain ⟨hb, hnd, hint⟩ := h
  have hparse := C18R.parseTies_render convStr Name.str r brackets pre post
    (if usePrefix then label ++ [':'] else []) hb ?_ ?_ hpre hpost ?_
  · refine C18R.fromString_of_parse_int hparse ?_ ?_ hnd
    · simp only [List.all_map, List.all_eq_true, Function.comp_def]
      intro b hb' x hx
      obtain ⟨n, rfl⟩ := hint x (List.mem_flatten.2 ⟨b, hb', hx⟩)
      exact C18R.isDigitStr_intRepr n
    · rw [List.map_map, List.map_congr_left (g := id)]
      · simp
      · intro b hb'
        simp only [Function.comp_def, List.map_map, id]
        rw [List.map_congr_left (g := id)]
        · simp
        · intro x hx
          obtain ⟨n, rfl⟩ := hint x (List.mem_flatten.2 ⟨b, hb', hx⟩)
          simp only [nameText, Name.toIntName, C18R.digitsVal_intRepr, id]
          rfl
  · intro x hx
    obtain ⟨n, rfl⟩ := hint x hx
    exact ⟨C18R.goodText_intRepr n, rfl⟩
  · intro b hb'
    apply C18R.nodup_map_on _ (C18R.nodup_of_mem_flatten hnd hb')
    intro x hx y hy hxy
    obtain ⟨n, rfl⟩ := hint x (List.mem_flatten.2 ⟨b, hb', hx⟩)
    obtain ⟨m, rfl⟩ := hint y (List.mem_flatten.2 ⟨b, hb', hy⟩)
    simp only [nameText, Name.str.injEq] at hxy
    have := congrArg digitsVal hxy
    rw [C18R.digitsVal_intRepr, C18R.digitsVal_intRepr] at this
    rw [this]
  · cases usePrefix
    · exact Or.inl rfl
    · exact Or.inr ⟨label, rfl⟩


/-- string elements free of the format's delimiters, not integer literals, no outer blanks -/
def SafeStr (s : List Char) : Prop :=
  s ≠ [] ∧ (∀ c ∈ s, c ≠ '[' ∧ c ≠ ']' ∧ c ≠ '{' ∧ c ≠ '}' ∧ c ≠ ',' ∧ c ≠ ':' ∧ c ≠ '\n') ∧
  pyStrip s = s ∧ isDigitStr s = false

def StrRanking (r : NRanking) : Prop :=
  (∀ b ∈ r, b ≠ []) ∧ r.flatten.Nodup ∧ ∀ x ∈ r.flatten, ∃ s, x = .str s ∧ SafeStr s

/-- text round trip, string elements; more general than `C18_roundtrip_str`: the names may include digit strings as
    long as one name is not a digit string (otherwise `from_string` converts every name to an int), and a `label:`
    prefix is allowed. -/
theorem C18_roundtrip_str_mixed (r : NRanking) (hb : ∀ b ∈ r, b ≠ []) (hnd : r.flatten.Nodup)
    (hx : ∀ x ∈ r.flatten, ∃ s, x = .str s ∧ s ≠ [] ∧
      (∀ c ∈ s, c ≠ '[' ∧ c ≠ ']' ∧ c ≠ '{' ∧ c ≠ '}' ∧ c ≠ ',' ∧ c ≠ ':') ∧ pyStrip s = s)
    (hmix : ∃ x ∈ r.flatten, x.canBeInt = false) (brackets : Bool)
    (pre post label : List Char) (hpre : AllWs pre) (hpost : AllWs post) (usePrefix : Bool) :
    fromString (pre ++ (if usePrefix then label ++ [':'] else []) ++
        (if brackets then renderRankingBrackets r else renderRanking r) ++ post) = .ok r := by
  have hid : ∀ b ∈ r, (b.map fun x => Name.str (nameText x)) = b := by
    intro b hb'
    rw [List.map_congr_left (g := id)]
    · simp
    · intro x hxb
      obtain ⟨s, rfl, -⟩ := hx x (List.mem_flatten.2 ⟨b, hb', hxb⟩)
      rfl
  have hparse := C18R.parseTies_render convStr Name.str r brackets pre post
    (if usePrefix then label ++ [':'] else []) hb ?_ ?_ hpre hpost ?_
  · have hr : (r.map fun b => b.map fun x => Name.str (nameText x)) = r := by
      rw [List.map_congr_left (g := id)]
      · simp
      · exact hid
    rw [hr] at hparse
    refine C18R.fromString_of_parse hparse ?_ hnd
    obtain ⟨x, hxr, hxi⟩ := hmix
    obtain ⟨b, hbr, hxb⟩ := List.mem_flatten.1 hxr
    rw [List.all_eq_false]
    refine ⟨b, hbr, ?_⟩
    rw [Bool.not_eq_true, List.all_eq_false]
    exact ⟨x, hxb, by simp [hxi]⟩
  · intro x hxr
    obtain ⟨s, rfl, hne, hdel, hstrip⟩ := hx x hxr
    refine ⟨⟨hne, C18R.tight_of_pyStrip hstrip, ?_⟩, rfl⟩
    intro c hc
    have := hdel c hc
    exact ⟨this.1, this.2.1, this.2.2.1, this.2.2.2.1, this.2.2.2.2.1, this.2.2.2.2.2⟩
  · intro b hb'
    rw [hid b hb']
    exact C18R.nodup_of_mem_flatten hnd hb'
  · cases usePrefix
    · exact Or.inl rfl
    · exact Or.inr ⟨label, rfl⟩

/-- text round trip, string elements -/
theorem C18_roundtrip_str (r : NRanking) (h : StrRanking r) (hne : r ≠ []) (brackets : Bool)
    (pre post : List Char) (hpre : AllWs pre) (hpost : AllWs post) :
    fromString (pre ++ (if brackets then renderRankingBrackets r else renderRanking r) ++ post) = .ok r := by
  obtain ⟨hb, hnd, hx⟩ := h
  have := C18_roundtrip_str_mixed r hb hnd ?_ ?_ brackets pre post [] hpre hpost false
  · simpa using this
  · intro x hxr
    obtain ⟨s, rfl, h1, h2, h3, -⟩ := hx x hxr
    exact ⟨s, rfl, h1, fun c hc => by
      have := h2 c hc
      exact ⟨this.1, this.2.1, this.2.2.1, this.2.2.2.1, this.2.2.2.2.1, this.2.2.2.2.2.1⟩, h3⟩
  · cases r with
    | nil => exact absurd rfl hne
    | cons b bs =>
      cases hbe : b with
      | nil => exact absurd hbe (hb b (by simp))
      | cons x xs =>
        have hxr : x ∈ (b :: bs).flatten := by simp [hbe]
        obtain ⟨s, rfl, -, -, -, h4⟩ := hx x hxr
        exact ⟨Name.str s, by simp, h4⟩

/-- file round trip, integer elements: reading what was written gives back the rankings (bucket lists) -/
theorem C18_file_int (rs : List NRanking) (h : ∀ r ∈ rs, IntRanking r) :
    readFile (writeFile rs) = .ok rs := by
  apply C18R.readFile_write
  intro r hr
  obtain ⟨hb, hnd, hint⟩ := h r hr
  constructor
  · have := C18R.parseTies_render convInt (fun t => .int (Int.ofNat (digitsVal t))) r false [] [] [] hb ?_ ?_
      (by simp) (by simp) (Or.inl rfl)
    · have hr' : (r.map fun b => b.map fun x => Name.int (Int.ofNat (digitsVal (nameText x)))) = r := by
        rw [List.map_congr_left (g := id)]
        · simp
        · intro b hb'
          rw [List.map_congr_left (g := id)]
          · simp
          · intro x hxb
            obtain ⟨n, rfl⟩ := hint x (List.mem_flatten.2 ⟨b, hb', hxb⟩)
            show Name.int (Int.ofNat (digitsVal (intRepr (Int.ofNat n)))) = _
            rw [C18R.digitsVal_intRepr]; rfl
      rw [hr'] at this
      simpa using this
    · intro x hxr
      obtain ⟨n, rfl⟩ := hint x hxr
      refine ⟨C18R.goodText_intRepr n, ?_⟩
      simp only [nameText, C18R.digitsVal_intRepr]
      exact C18R.convInt_intRepr n
    · intro b hb'
      rw [List.map_congr_left (g := id)]
      · simpa using C18R.nodup_of_mem_flatten hnd hb'
      · intro x hxb
        obtain ⟨n, rfl⟩ := hint x (List.mem_flatten.2 ⟨b, hb', hxb⟩)
        show Name.int (Int.ofNat (digitsVal (intRepr (Int.ofNat n)))) = _
        rw [C18R.digitsVal_intRepr]; rfl
  · intro c hc
    rcases C18R.mem_renderRanking hc with hd | ⟨x, hxr, hcx⟩
    · constructor <;> (rintro rfl; revert hd; decide)
    · obtain ⟨n, rfl⟩ := hint x hxr
      have := C18R.isDigit_of_mem_intRepr hcx
      constructor <;> (rintro rfl; revert this; decide)

end Corankco
