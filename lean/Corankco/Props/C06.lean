import Corankco.Props.C06a
import Corankco.Props.C06b
import Corankco.Props.C06c
/-
  C06 — composed statement about ParCons: given the graph's components in topological order (igraph, assumed and
  checked per sample) and sub-solvers that return, for a component, a ranking of exactly its ids that is optimal
  for the component (the ILP solver, assumed), the consensus respects the partition and, when the
  necessarily-optimal mark is set, is a global minimiser.
  Pieces: `C06_graph`, `L4_regroup`, `C06_partition` (C06a); `C06_flag`, `C06_consensus` (C06b);
  `C06_all_tied`, `C06_concat_optimal`, `C06_projection`, `C06_projection_dropped` (C06c).
-/
namespace Corankco
open Model Spec

/-- the partition theorem and the optimality transfer in one statement: if a key vector respects the components and
    is optimal on each of them, it is a global optimum (L4 discharged) -/
theorem C06_optimal_of_components (t : Table) (n : Nat) (hm : MirrorT t n) (comps : List (List Nat))
    (h : isTopoSCC t n comps = true) (v : List Int) (hv : v.length = n)
    (hr : RespectsI comps v) (hopt : ∀ g ∈ comps, OptimalOn t g v) : Optimal t n v := by
  have hp : isPartitionOf n comps = true := by
    simp only [isTopoSCC, Bool.and_eq_true] at h
    exact h.1.1
  have hnb := C06_graph t n hm comps h
  exact C06_concat_optimal t n hm comps hp hnb v hv hr hopt
    (fun w hw => L4_regroup t n hm comps hp hnb w hw)

end Corankco
