import Corankco.Props.C08
/-
  C09 — BioConsert returns the best of its local optima, never worse than any departure ranking, with the
  true score: property theorems (helper lemmas live in Lemmas/BioSweep.lean).
-/
namespace Corankco
open Model Spec

/-- selection: the reported score is the minimum of the recorded scores, every returned ranking is the decoding of
    a final vector attaining it, and exactly one ranking is returned on request -/
theorem C09_selectBest (univ : List Elem) (amo : Bool) (res : List (List Nat × Int × Bool)) (hres : res ≠ []) :
    let out := selectBest univ amo res
    ∃ m, out.2 = some m ∧ (∀ r ∈ res, m ≤ r.2.1) ∧ out.1 ≠ [] ∧
      (∀ c ∈ out.1, ∃ r ∈ res, r.2.1 = m ∧ c = decodeVec univ r.1) ∧ (amo = true → out.1.length = 1) :=
  BioSM.selectBest_spec univ amo res hres

/-- the row of a well-formed ranking is dense and has one entry per element -/
theorem C09_rowOf_dense (univ : List Elem) (_hu : univ.Nodup) (c : Ranking) (hw : wellFormedRanking univ c = true) :
    DenseN (rowOf univ c) ∧ (rowOf univ c).length = univ.length :=
  BioSM.rowOf_dense univ c hw

/-- the all-tied departure row is dense -/
theorem C09_replicate_dense (n : Nat) : DenseN (List.replicate n 0) ∧ (List.replicate n 0).length = n :=
  ⟨BioSM.replicate_zero_dense n, by simp⟩

/-- departure rows from starter consensuses: dense, of the right length -/
theorem C09_departuresStarters_dense (D : Dataset) (cons : List Ranking)
    (hc : ∀ c ∈ cons, wellFormedRanking (univOf D) c = true) :
    ∀ row ∈ departuresStarters D cons, DenseN row ∧ row.length = (univOf D).length := by
  intro row hrow
  obtain ⟨c, hcm, rfl⟩ := List.mem_map.mp hrow
  exact BioSM.rowOf_dense _ c (hc c hcm)

/-- default departure rows (input rankings, unified when the dataset is not complete, then the all-tied one):
    dense, of the right length, as soon as every input ranking has non-empty pairwise disjoint buckets -/
theorem C09_departuresDefault_dense (D : Dataset) (hD : ∀ r ∈ D, (∀ b ∈ r, b ≠ []) ∧ r.flatten.Nodup) :
    ∀ row ∈ departuresDefault D, DenseN row ∧ row.length = (univOf D).length :=
  BioSM.departuresDefault_dense D hD

/-- the score of a departure row read from the table is the Kemeny score of the ranking it encodes -/
theorem C09_score_rowOf (S : Scheme) (hS : S.Valid) (D : Dataset) (c : Ranking)
    (hw : wellFormedRanking (univOf D) c = true) :
    scoreVecN (costMatrix S (getPositions D)) (rowOf (univOf D) c) = Spec.kemeny S D c :=
  BioSM.scoreVecN_rowOf S hS D c hw

/-- C04 for BioConsert: the reported score is the Kemeny score of every returned ranking -/
theorem C04_bioconsert (S : Scheme) (hS : S.Valid) (D : Dataset) (deps : List (List Nat)) (amo : Bool) (τ : Int)
    (hτ : 0 ≤ τ) (fuel : Nat) (hne : deps ≠ []) (hdeps : ∀ r ∈ deps, DenseN r ∧ r.length = (univOf D).length)
    (hflag : ∀ r ∈ (bioConsertRun S D deps amo τ fuel).2, r.2.2 = true) :
    ∃ m, (bioConsertRun S D deps amo τ fuel).1.2 = some m ∧
      (bioConsertRun S D deps amo τ fuel).1.1 ≠ [] ∧
      (amo = true → (bioConsertRun S D deps amo τ fuel).1.1.length = 1) ∧
      ∀ c ∈ (bioConsertRun S D deps amo τ fuel).1.1, Spec.kemeny S D c = m := by
  have hres := C08_run_results S D deps amo τ hτ fuel hdeps hflag
  have hne' : (bioConsertRun S D deps amo τ fuel).2 ≠ [] := by
    intro e
    have : (bioConsertRun S D deps amo τ fuel).2.length = deps.length := by
      simp [bioConsertRun, bioConsertLoop]
    rw [e] at this
    exact hne (List.eq_nil_of_length_eq_zero this.symm)
  obtain ⟨m, h1, _, h3, h4, h5⟩ := BioSM.selectBest_spec (univOf D) amo _ hne'
  refine ⟨m, h1, h3, h5, ?_⟩
  intro c hc
  obtain ⟨r, hr, e, rfl⟩ := h4 c hc
  obtain ⟨r1, r2, _, r4⟩ := hres r hr
  obtain ⟨d1, d2⟩ := BioSM.decodeVec_spec (univOf D) (univOf_nodup D) r.1 r1 r2
  rw [← BioSM.scoreVecN_rowOf S hS D _ d1, d2, ← r4, e]

/-- C09: the reported score is at most the score of every departure row -/
theorem C09_best (S : Scheme) (D : Dataset) (deps : List (List Nat)) (amo : Bool) (τ : Int)
    (hτ : 0 ≤ τ) (fuel : Nat) (hdeps : ∀ r ∈ deps, DenseN r ∧ r.length = (univOf D).length)
    (hflag : ∀ r ∈ (bioConsertRun S D deps amo τ fuel).2, r.2.2 = true)
    (m : Int) (hm : (bioConsertRun S D deps amo τ fuel).1.2 = some m) :
    ∀ dep ∈ deps, m ≤ scoreVecN (costMatrix S (getPositions D)) dep := by
  intro dep hdep
  obtain ⟨i, hi, e⟩ := List.mem_iff_getElem.mp hdep
  obtain ⟨hlen, hall⟩ := C08_bioConsertLoop (costMatrix S (getPositions D)) τ hτ fuel deps (univOf D).length
    (BioSM.mirror_costMatrix S D) hdeps
  have hi' : i < (bioConsertLoop (costMatrix S (getPositions D)) τ fuel deps).length := by omega
  have hmem : (bioConsertLoop (costMatrix S (getPositions D)) τ fuel deps)[i] ∈
      (bioConsertRun S D deps amo τ fuel).2 := List.getElem_mem hi'
  have hgd : (bioConsertLoop (costMatrix S (getPositions D)) τ fuel deps).getD i ([], 0, false) =
      (bioConsertLoop (costMatrix S (getPositions D)) τ fuel deps)[i] := getD_of_lt _ _ _ hi'
  have h := hall i hi (by rw [hgd]; exact hflag _ hmem)
  simp only [hgd, getD_of_lt _ _ _ hi, e] at h
  have hne' : (bioConsertRun S D deps amo τ fuel).2 ≠ [] := List.ne_nil_of_mem hmem
  obtain ⟨m', h1, h2, _⟩ := BioSM.selectBest_spec (univOf D) amo _ hne'
  have hmm : m' = m := by
    have h1' : (bioConsertRun S D deps amo τ fuel).1.2 = some m' := h1
    rw [hm] at h1'
    exact (Option.some.inj h1').symm
  have := h2 _ hmem
  omega

/-- C09 as the decidable predicate of the specification: all returned rankings have the reported score, which is
    at most the Kemeny score of every starting ranking whose row is among the departure rows -/
theorem C09_holds (S : Scheme) (hS : S.Valid) (D : Dataset) (deps : List (List Nat)) (amo : Bool) (τ : Int)
    (hτ : 0 ≤ τ) (fuel : Nat) (hne : deps ≠ []) (hdeps : ∀ r ∈ deps, DenseN r ∧ r.length = (univOf D).length)
    (hflag : ∀ r ∈ (bioConsertRun S D deps amo τ fuel).2, r.2.2 = true)
    (starts : List Ranking)
    (hstarts : ∀ s ∈ starts, wellFormedRanking (univOf D) s = true ∧ rowOf (univOf D) s ∈ deps) :
    ∃ m, (bioConsertRun S D deps amo τ fuel).1.2 = some m ∧
      Spec.C09.holds S D (bioConsertRun S D deps amo τ fuel).1.1 m starts = true := by
  obtain ⟨m, h1, _, _, h4⟩ := C04_bioconsert S hS D deps amo τ hτ fuel hne hdeps hflag
  refine ⟨m, h1, ?_⟩
  simp only [Spec.C09.holds, Bool.and_eq_true, List.all_eq_true, beq_iff_eq, decide_eq_true_eq]
  refine ⟨h4, ?_⟩
  intro s hs
  obtain ⟨w, hrow⟩ := hstarts s hs
  rw [← BioSM.scoreVecN_rowOf S hS D s w]
  exact C09_best S D deps amo τ hτ fuel hdeps hflag m h1 _ hrow

/-- Non-vacuity of the dataset-level theorems: a 3-element dataset with a tie and an unranked element, a valid
    non-preset scheme, the default departure rows; every loop exits normally within 5 sweeps, two rankings of
    score 7 are returned, the departure rows have scores 8, 7 and 12. -/
example :
    let S : Scheme := ⟨0, 2, 1, 1, 3, 1, 2, 2, 0, 3, 3, 1⟩
    let D : Dataset := [[[0, 1], [2]], [[2], [0]]]
    S.Valid ∧ (∀ r ∈ D, (∀ b ∈ r, b ≠ []) ∧ r.flatten.Nodup) ∧
    departuresDefault D = [[0, 0, 1], [1, 2, 0], [0, 0, 0]] ∧
    (∀ r ∈ (bioConsertRun S D (departuresDefault D) false 0 5).2, r.2.2 = true) ∧
    (bioConsertRun S D (departuresDefault D) false 0 5).1 = ([[[0], [1], [2]], [[2], [0], [1]]], some 7) ∧
    (departuresDefault D).map (scoreVecN (costMatrix S (getPositions D))) = [8, 7, 12] := by
  decide

end Corankco
