import Corankco.Lemmas.Final
import Corankco.Props.C08t
import Corankco.Props.C09
import Corankco.Props.C03
import Corankco.Props.C04
/-
  C08 / C09 / C03 / C04 for BioConsert, UNCONDITIONALLY: no hypothesis on the fuel or on the exit flags of the
  sweep loops.  Composition of the partial-correctness results (C08, C09, C03, C04) with the termination result
  (C08t): above an explicit fuel bound every loop exits normally, so every conclusion holds.
  Helper lemmas live in Lemmas/Final.lean.
-/
namespace Corankco
open Model Spec

/-- BioConsert on any dense departure rows, with an EXPLICIT fuel bound: if the fuel exceeds, for every departure
    row, the distance of its score to the lower bound `L4.lower` of all scores (plus one), then the run returns at
    least one (exactly one if asked) well-formed ranking, each a local optimum, reports their true non-negative
    score, and that score is at most the Kemeny score of every ranking `s` of `starts` that is dominated by a
    departure row (`hstarts`; for a well-formed `s` whose row is a departure row the two scores are equal). -/
theorem C08_unconditional_fuel (S : Scheme) (hS : S.Valid) (D : Dataset) (deps : List (List Nat)) (hne : deps ≠ [])
    (hdeps : ∀ r ∈ deps, DenseN r ∧ r.length = (univOf D).length) (amo : Bool) (τ : Int) (hτ : 0 ≤ τ)
    (starts : List Ranking)
    (hstarts : ∀ s ∈ starts, ∃ dep ∈ deps, scoreVecN (costMatrix S (getPositions D)) dep ≤ Spec.kemeny S D s)
    (fuel : Nat)
    (hf : ∀ r ∈ deps, (scoreVecN (costMatrix S (getPositions D)) r -
        L4.lower (costMatrix S (getPositions D)) (univOf D).length).toNat + 1 ≤ fuel) :
    let out := (bioConsertRun S D deps amo τ fuel).1
    C03.holds D amo out.1 = true ∧ C08.holds S D τ out.1 = true ∧
    (∃ m, out.2 = some m ∧ C04.holds S D out.1 (some m) = true ∧ C09.holds S D out.1 m starts = true) := by
  intro out
  have hfl : ∀ r ∈ (bioConsertRun S D deps amo τ fuel).2, r.2.2 = true :=
    C08_loop_terminates (costMatrix S (getPositions D)) τ hτ (univOf D).length (BioSM.mirror_costMatrix S D)
      deps hdeps fuel hf
  refine ⟨C03_bioconsert S hS D deps hne hdeps amo τ hτ fuel hfl,
    (C08_run S hS D deps amo τ hτ fuel hdeps hfl).2, ?_⟩
  obtain ⟨m, h1, hne', _, h4⟩ := C04_bioconsert S hS D deps amo τ hτ fuel hne hdeps hfl
  refine ⟨m, h1, ?_, ?_⟩
  · simp only [C04.holds, Bool.and_eq_true, decide_eq_true_eq, List.all_eq_true, beq_iff_eq]
    refine ⟨?_, h4⟩
    obtain ⟨c, hc⟩ := List.exists_mem_of_ne_nil _ hne'
    rw [← h4 c hc]
    exact C04_nonneg S hS D c
  · simp only [C09.holds, Bool.and_eq_true, List.all_eq_true, beq_iff_eq, decide_eq_true_eq]
    refine ⟨h4, ?_⟩
    intro s hs
    obtain ⟨dep, hdep, hle⟩ := hstarts s hs
    exact Int.le_trans (C09_best S D deps amo τ hτ fuel hdeps hfl m h1 dep hdep) hle

/-- the same with the fuel bound quantified: there is a fuel above which everything holds -/
theorem C08_unconditional (S : Scheme) (hS : S.Valid) (D : Dataset) (deps : List (List Nat)) (hne : deps ≠ [])
    (hdeps : ∀ r ∈ deps, DenseN r ∧ r.length = (univOf D).length) (amo : Bool) (τ : Int) (hτ : 0 ≤ τ)
    (starts : List Ranking)
    (hstarts : ∀ s ∈ starts, ∃ dep ∈ deps, scoreVecN (costMatrix S (getPositions D)) dep ≤ Spec.kemeny S D s) :
    ∃ fuel0, ∀ fuel, fuel0 ≤ fuel →
      let out := (bioConsertRun S D deps amo τ fuel).1
      C03.holds D amo out.1 = true ∧ C08.holds S D τ out.1 = true ∧
      (∃ m, out.2 = some m ∧ C04.holds S D out.1 (some m) = true ∧ C09.holds S D out.1 m starts = true) := by
  have hex : ∃ fuel0 : Nat, ∀ r ∈ deps, (scoreVecN (costMatrix S (getPositions D)) r -
      L4.lower (costMatrix S (getPositions D)) (univOf D).length).toNat + 1 ≤ fuel0 := by
    clear hne hdeps hstarts
    induction deps with
    | nil => exact ⟨0, fun r hr => by cases hr⟩
    | cons a l ih =>
      obtain ⟨f, hf⟩ := ih
      refine ⟨max f ((scoreVecN (costMatrix S (getPositions D)) a -
        L4.lower (costMatrix S (getPositions D)) (univOf D).length).toNat + 1), ?_⟩
      intro r hr
      rcases List.mem_cons.mp hr with rfl | hr
      · exact Nat.le_max_right _ _
      · exact Nat.le_trans (hf r hr) (Nat.le_max_left _ _)
  obtain ⟨fuel0, hfuel0⟩ := hex
  exact ⟨fuel0, fun fuel hle => C08_unconditional_fuel S hS D deps hne hdeps amo τ hτ starts hstarts fuel
    (fun r hr => Nat.le_trans (hfuel0 r hr) hle)⟩

/-- every default starting point (each unified input ranking, and the all-tied ranking) is dominated by a default
    departure row: the row of a unified input ranking is a departure row (de-duplication keeps membership) and has
    the same score; the all-zero row is a departure row and has the score of the all-tied ranking (when the universe
    is empty, the all-tied ranking `[[]]` is not well formed, but the empty row scores 0 and scores are ≥ 0). -/
theorem C09_defaultStarts_dominated (S : Scheme) (hS : S.Valid) (D : Dataset)
    (hD : ∀ r ∈ D, r.flatten.Nodup) (hDne : ∀ r ∈ D, ∀ b ∈ r, b ≠ []) :
    ∀ s ∈ defaultStarts D, ∃ dep ∈ departuresDefault D,
      scoreVecN (costMatrix S (getPositions D)) dep ≤ Spec.kemeny S D s := by
  intro s hs
  rcases List.mem_append.mp hs with hs | hs
  · obtain ⟨r, hr, rfl⟩ := List.mem_map.mp hs
    exact ⟨_, Final.unified_row_mem_default D r hr,
      Int.le_of_eq (C09_score_rowOf S hS D _ (Final.unified_wf D hD hDne r hr))⟩
  · rw [List.mem_singleton.mp hs]
    refine ⟨_, Final.allTied_row_mem_default D, ?_⟩
    by_cases hu : univOf D = []
    · rw [hu]
      simp only [List.length_nil, List.replicate_zero, Final.scoreVecN_nil]
      exact C04_nonneg S hS D _
    · rw [← Final.rowOf_allTied]
      exact Int.le_of_eq (C09_score_rowOf S hS D _ (Final.allTied_wf _ (univOf_nodup D) hu))

/-- every default starting point with a non-empty universe is well formed and its row is a default departure row
    (the hypothesis shape of `C09_holds`) -/
theorem C09_defaultStarts_rows (D : Dataset) (hD : ∀ r ∈ D, r.flatten.Nodup) (hDne : ∀ r ∈ D, ∀ b ∈ r, b ≠ [])
    (hu : univOf D ≠ []) :
    ∀ s ∈ defaultStarts D, wellFormedRanking (univOf D) s = true ∧ rowOf (univOf D) s ∈ departuresDefault D := by
  intro s hs
  rcases List.mem_append.mp hs with hs | hs
  · obtain ⟨r, hr, rfl⟩ := List.mem_map.mp hs
    exact ⟨Final.unified_wf D hD hDne r hr, Final.unified_row_mem_default D r hr⟩
  · rw [List.mem_singleton.mp hs, Final.rowOf_allTied]
    exact ⟨Final.allTied_wf _ (univOf_nodup D) hu, Final.allTied_row_mem_default D⟩

set_option linter.unusedVariables false in
/-- default BioConsert on any dataset of well-formed rankings: with enough fuel (an explicit bound exists, see
    `C08_default_fuel`) the run returns local optima, reports their true score, and is never worse than any of its
    starting points.  No hypothesis on the fuel or on the exit flags; the universe may be empty (`D = [[]]`): the
    all-tied start `[[]]` is then not well formed but its score is still ≥ the reported one.
    (`hne` is not needed: the all-zero departure row is always present.) -/
theorem C08_default (S : Scheme) (hS : S.Valid) (D : Dataset) (hne : D ≠ [])
    (hD : ∀ r ∈ D, r.flatten.Nodup) (hDne : ∀ r ∈ D, ∀ b ∈ r, b ≠ []) (amo : Bool) (τ : Int) (hτ : 0 ≤ τ) :
    ∃ fuel0, ∀ fuel, fuel0 ≤ fuel →
      let out := (bioConsertRun S D (departuresDefault D) amo τ fuel).1
      C03.holds D amo out.1 = true ∧ C08.holds S D τ out.1 = true ∧
      (∃ m, out.2 = some m ∧ C04.holds S D out.1 (some m) = true ∧
            C09.holds S D out.1 m (defaultStarts D) = true) :=
  C08_unconditional S hS D (departuresDefault D) (Final.departuresDefault_ne_nil D)
    (C09_departuresDefault_dense D fun r hr => ⟨hDne r hr, hD r hr⟩) amo τ hτ (defaultStarts D)
    (C09_defaultStarts_dominated S hS D hD hDne)

/-- the same with the explicit fuel bound: any fuel above, for every default departure row, its score minus the
    lower bound `L4.lower` of all scores, plus one -/
theorem C08_default_fuel (S : Scheme) (hS : S.Valid) (D : Dataset)
    (hD : ∀ r ∈ D, r.flatten.Nodup) (hDne : ∀ r ∈ D, ∀ b ∈ r, b ≠ []) (amo : Bool) (τ : Int) (hτ : 0 ≤ τ)
    (fuel : Nat)
    (hf : ∀ r ∈ departuresDefault D, (scoreVecN (costMatrix S (getPositions D)) r -
        L4.lower (costMatrix S (getPositions D)) (univOf D).length).toNat + 1 ≤ fuel) :
    let out := (bioConsertRun S D (departuresDefault D) amo τ fuel).1
    C03.holds D amo out.1 = true ∧ C08.holds S D τ out.1 = true ∧
    (∃ m, out.2 = some m ∧ C04.holds S D out.1 (some m) = true ∧
          C09.holds S D out.1 m (defaultStarts D) = true) :=
  C08_unconditional_fuel S hS D (departuresDefault D) (Final.departuresDefault_ne_nil D)
    (C09_departuresDefault_dense D fun r hr => ⟨hDne r hr, hD r hr⟩) amo τ hτ (defaultStarts D)
    (C09_defaultStarts_dominated S hS D hD hDne) fuel hf

/-- Non-vacuity: the 3-element dataset of C09 (a tie, an unranked element, a valid non-preset scheme).  The explicit
    fuel bounds of the three default departure rows are 2, 1 and 6, so `C08_default_fuel` applies with fuel 6; the run
    returns two rankings of score 7, the default starts score 8, 7 and 12. -/
example :
    let S : Scheme := ⟨0, 2, 1, 1, 3, 1, 2, 2, 0, 3, 3, 1⟩
    let D : Dataset := [[[0, 1], [2]], [[2], [0]]]
    let t := costMatrix S (getPositions D)
    S.Valid ∧ (∀ r ∈ D, r.flatten.Nodup) ∧ (∀ r ∈ D, ∀ b ∈ r, b ≠ []) ∧
    ((departuresDefault D).map fun r => (scoreVecN t r - L4.lower t (univOf D).length).toNat + 1) = [2, 1, 6] ∧
    (bioConsertRun S D (departuresDefault D) false 0 6).1 = ([[[0], [1], [2]], [[2], [0], [1]]], some 7) ∧
    defaultStarts D = [[[0, 1], [2]], [[2], [0], [1]], [[0, 1, 2]]] ∧
    (defaultStarts D).map (Spec.kemeny S D) = [8, 7, 12] := by
  decide

/-- the conclusion of `C08_default_fuel` on that instance, obtained from the theorem (not by evaluation) -/
example :
    let S : Scheme := ⟨0, 2, 1, 1, 3, 1, 2, 2, 0, 3, 3, 1⟩
    let D : Dataset := [[[0, 1], [2]], [[2], [0]]]
    let out := (bioConsertRun S D (departuresDefault D) false 0 6).1
    C03.holds D false out.1 = true ∧ C08.holds S D 0 out.1 = true ∧
    (∃ m, out.2 = some m ∧ C04.holds S D out.1 (some m) = true ∧
          C09.holds S D out.1 m (defaultStarts D) = true) :=
  C08_default_fuel _ (by decide) _ (by decide) (by decide) false 0 (by decide) 6 (by decide)

/-- the empty universe is covered: `D = [[]]` (one ranking without any bucket) satisfies the hypotheses of
    `C08_default`; the universe is empty, the all-tied start is `[[]]` (not well formed), the run returns the empty
    ranking with score 0 and all four predicates hold -/
example :
    let S : Scheme := ⟨0, 2, 1, 1, 3, 1, 2, 2, 0, 3, 3, 1⟩
    let D : Dataset := [[]]
    let out := (bioConsertRun S D (departuresDefault D) false 0 1).1
    D ≠ [] ∧ (∀ r ∈ D, r.flatten.Nodup) ∧ (∀ r ∈ D, ∀ b ∈ r, b ≠ []) ∧ univOf D = [] ∧
    defaultStarts D = [[], [[]]] ∧ wellFormedRanking (univOf D) [[]] = false ∧ out = ([[]], some 0) ∧
    C03.holds D false out.1 = true ∧ C08.holds S D 0 out.1 = true ∧ C04.holds S D out.1 out.2 = true ∧
    C09.holds S D out.1 0 (defaultStarts D) = true := by
  decide

end Corankco
