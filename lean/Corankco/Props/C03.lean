import Corankco.Lemmas.C03
import Corankco.Props.C05a
import Corankco.Props.C06d
import Corankco.Props.C09
import Corankco.Props.C10
import Corankco.Props.C11
import Corankco.Props.C12
import Corankco.Props.C13
/-
  C03 — every algorithm returns a well-formed consensus over exactly the universe: at least one ranking (exactly one
  when at most one is asked for), each a sequence of non-empty, pairwise disjoint buckets whose union is exactly the
  set of elements of the dataset. Composition of the per-algorithm results (C05, C06, C08, C09, C10, C11, C12, C13);
  helper lemmas live in Lemmas/C03.lean.
-/
namespace Corankco
open Model Spec

/-- ids → elements: a partition of the ids `0..n-1` read through the dataset's id map is a well-formed ranking over
    the universe (`n = (univOf D).length`, elements = `(univOf D).getD i 0`) -/
theorem C03_ids_to_elems (univ : List Elem) (hu : univ.Nodup) (c : List (List Nat))
    (hp : isPartitionOf univ.length c = true) :
    wellFormedRanking univ (c.map fun b => b.map fun i => univ.getD i 0) = true :=
  C03.wf_of_partition univ hu c hp

/-- Borda (both variants), whenever it accepts the input -/
theorem C03_borda (useBid : Bool) (S : Scheme) (D : Dataset) (hD : ∀ r ∈ D, r.flatten.Nodup) (r : Ranking)
    (h : borda useBid S D = .ok r) (amo : Bool) : C03.holds D amo [r] = true := by
  have h12 := C12_holds useBid S D hD
  rw [h] at h12
  simp only [C12.holds, Bool.and_eq_true] at h12
  exact C03.holds_single D amo r (C03.wf_of_ordersBy h12.2)

/-- Copeland -/
theorem C03_copeland (S : Scheme) (hS : S.Valid) (D : Dataset) (amo : Bool) :
    C03.holds D amo [(copeland S D).1] = true := by
  have h13 := C13_holds S hS D
  simp only [C13.holds, Bool.and_eq_true] at h13
  exact C03.holds_single D amo _ (C03.wf_of_ordersBy h13.2)

/-- KwikSort, for EVERY pivot script -/
theorem C03_kwiksort (S : Scheme) (D : Dataset) (order : List Nat)
    (horder : order.Perm (List.range (univOf D).length)) (script : List Nat) (amo : Bool) :
    C03.holds D amo [(kwikSortDataset S D order script).1] = true := by
  have h11 := C11_holds S D order horder script
  simp only [C11.holds, Bool.and_eq_true] at h11
  exact C03.holds_single D amo _ h11.1.1

/-- PickAPerm, whenever it accepts the input: the returned rankings are (unified) input rankings, which are well
    formed as soon as the input buckets are non-empty and pairwise disjoint -/
theorem C03_pickaperm (amo : Bool) (S : Scheme) (hS : S.Valid) (D : Dataset) (hne : D ≠ [])
    (hD : ∀ r ∈ D, r.flatten.Nodup) (hDne : ∀ r ∈ D, ∀ b ∈ r, b ≠ []) (out : List Ranking) (sc : Option Int)
    (h : pickAPerm amo S D = .ok (out, sc)) : C03.holds D amo out = true := by
  rw [C10.pickAPerm_eq amo S hS D hD] at h
  split at h
  · cases h
  · obtain ⟨m, acc, he, hane, hmem, _, hl1, _⟩ :=
      C10_scan (Spec.kemeny S D) amo (C10.inputs D) (C10.inputs_ne_nil hne)
    rw [he] at h
    have e : acc = out := by
      injection h with h
      exact (Prod.mk.inj h).1
    subst e
    exact C03.holds_of D amo acc hane hl1
      (fun c hc => C03.inputs_wf D hD hDne c (hmem c hc).1)

/-- BioConsert / BioCo, with or without starting algorithms (the departure rows are a parameter: any dense rows of
    the right length — `C09_departuresDefault_dense` / `C09_departuresStarters_dense` show the model's rows are).
    A non-empty universe is not needed. -/
theorem C03_bioconsert (S : Scheme) (hS : S.Valid) (D : Dataset) (deps : List (List Nat)) (hdeps : deps ≠ [])
    (hd : ∀ r ∈ deps, DenseN r ∧ r.length = (univOf D).length) (amo : Bool) (τ : Int) (hτ : 0 ≤ τ) (fuel : Nat)
    (hfl : ∀ r ∈ (bioConsertRun S D deps amo τ fuel).2, r.2.2 = true) :
    C03.holds D amo (bioConsertRun S D deps amo τ fuel).1.1 = true := by
  obtain ⟨_, _, hne, h1, _⟩ := C04_bioconsert S hS D deps amo τ hτ fuel hdeps hd hfl
  have hw := (C08_run S hS D deps amo τ hτ fuel hd hfl).1
  exact C03.holds_of D amo _ hne h1 (fun c hc => (hw c hc).1)

/-- BioConsert with its default departure rows on a well-formed input dataset -/
theorem C03_bioconsert_default (S : Scheme) (hS : S.Valid) (D : Dataset)
    (hD : ∀ r ∈ D, r.flatten.Nodup) (hDne : ∀ r ∈ D, ∀ b ∈ r, b ≠ []) (amo : Bool) (τ : Int) (hτ : 0 ≤ τ)
    (fuel : Nat)
    (hfl : ∀ r ∈ (bioConsertRun S D (departuresDefault D) amo τ fuel).2, r.2.2 = true) :
    C03.holds D amo (bioConsertRun S D (departuresDefault D) amo τ fuel).1.1 = true :=
  C03_bioconsert S hS D (departuresDefault D) (by simp [departuresDefault])
    (C09_departuresDefault_dense D fun r hr => ⟨hDne r hr, hD r hr⟩) amo τ hτ fuel hfl

/-- BioConsert started from the consensuses of other algorithms (each of which satisfies C03) -/
theorem C03_bioconsert_starters (S : Scheme) (hS : S.Valid) (D : Dataset) (cons : List Ranking) (hcons : cons ≠ [])
    (hc : ∀ c ∈ cons, wellFormedRanking (univOf D) c = true) (amo : Bool) (τ : Int) (hτ : 0 ≤ τ) (fuel : Nat)
    (hfl : ∀ r ∈ (bioConsertRun S D (departuresStarters D cons) amo τ fuel).2, r.2.2 = true) :
    C03.holds D amo (bioConsertRun S D (departuresStarters D cons) amo τ fuel).1.1 = true :=
  C03_bioconsert S hS D (departuresStarters D cons) (by simpa [departuresStarters] using hcons)
    (C09_departuresStarters_dense D cons hc) amo τ hτ fuel hfl

/-- exact algorithms: whatever feasible 0/1 point the solver returns, the decoded consensus is well formed -/
theorem C03_decode (D : Dataset) (hu : univOf D ≠ []) (a : Asg)
    (h : feasible a (univOf D).length (binaryRows (univOf D).length ++ transRows (univOf D).length) = true)
    (amo : Bool) :
    C03.holds D amo [(decode a (univOf D).length).map fun b => b.map fun i => (univOf D).getD i 0] = true := by
  have hn : 0 < (univOf D).length := List.length_pos_iff.mpr hu
  exact C03.holds_single D amo _
    (C03_ids_to_elems (univOf D) (univOf_nodup D) _ (C05_decode (univOf D).length hn a h).1)

/-- ParCons (and the optimised exact algorithm, which has the same shape): whatever rankings of their component the
    sub-solvers return -/
theorem C03_parcons (D : Dataset) (t : Table) (comps : List (List Nat))
    (hp : isPartitionOf (univOf D).length comps = true)
    (bound : Nat) (exact aux : List Nat → List (List Nat))
    (hex : ∀ c ∈ comps, SolvesComp c (exact c)) (haux : ∀ c ∈ comps, SolvesComp c (aux c)) (amo : Bool) :
    C03.holds D amo
      [(parCons t comps bound exact aux).consensus.map fun b => b.map fun i => (univOf D).getD i 0] = true :=
  C03.holds_single D amo _
    (C03_ids_to_elems (univOf D) (univOf_nodup D) _
      (C06_respects t (univOf D).length comps hp bound exact aux hex haux).1)

/-! ### non-vacuity and sharpness of the hypotheses -/

/-- `hDne` is needed for PickAPerm: an input ranking with an empty bucket is returned as is -/
example :
    let D : Dataset := [[[], [0]]]
    unifying.Valid ∧ D ≠ [] ∧ (∀ r ∈ D, r.flatten.Nodup) ∧
    pickAPerm false unifying D = .ok ([[[], [0]]], some 0) ∧ C03.holds D false [[[], [0]]] = false := by
  refine ⟨by decide, by decide, by decide, ?_, by decide⟩
  rw [C10.pickAPerm_eq _ _ (by decide) _ (by decide)]; decide

/-- a non-empty universe is needed for the ILP decoder: on zero ids it returns one empty bucket -/
example : feasible (asgOfVec []) 0 (binaryRows 0 ++ transRows 0) = true ∧ decode (asgOfVec []) 0 = [[]] ∧
    C03.holds [] true [([[]] : List (List Nat)).map fun b => b.map fun i => (univOf []).getD i 0] = false := by
  decide

/-- the predicate distinguishes: a missing element, a repeated element, an empty bucket, a foreign element, no
    ranking, two rankings when at most one is asked for -/
example :
    let D : Dataset := [[[0, 1], [2]], [[2], [0]]]
    C03.holds D true [[[2], [0, 1]]] = true ∧ C03.holds D false [[[2], [0, 1]], [[0], [1], [2]]] = true ∧
    C03.holds D true [[[2], [0]]] = false ∧ C03.holds D true [[[2], [0, 1], [2]]] = false ∧
    C03.holds D true [[[2], [], [0, 1]]] = false ∧ C03.holds D true [[[2], [0, 1, 3]]] = false ∧
    C03.holds D false [] = false ∧ C03.holds D true [[[2], [0, 1]], [[0], [1], [2]]] = false := by
  decide

/-- the hypotheses of the dataset-level theorems are satisfiable together: an incomplete dataset with a tie -/
example :
    let S : Scheme := unifying
    let D : Dataset := [[[0, 1], [2]], [[2], [0]]]
    S.Valid ∧ D ≠ [] ∧ (∀ r ∈ D, r.flatten.Nodup) ∧ (∀ r ∈ D, ∀ b ∈ r, b ≠ []) ∧ univOf D ≠ [] ∧
    (borda false S D).isOk = true ∧ (pickAPerm true S D).isOk = true ∧
    [1, 2, 0].Perm (List.range (univOf D).length) ∧
    (∀ r ∈ (bioConsertRun S D (departuresDefault D) false 0 5).2, r.2.2 = true) ∧
    feasible (asgOfVec [1, 0, 1]) 3 (binaryRows 3 ++ transRows 3) = true ∧
    isPartitionOf (univOf D).length [[2], [0, 1]] = true := by
  refine ⟨by decide, by decide, by decide, by decide, by decide, by decide, ?_, by decide, by decide,
    by decide, by decide⟩
  rw [C10.pickAPerm_eq _ _ (by decide) _ (by decide)]; decide

end Corankco
