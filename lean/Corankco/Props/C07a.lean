import Corankco.Lemmas.L4
/-
  C07 (propositional part, all sizes): a partition without back arcs whose consecutive groups are fully robust is
  respected by every optimum. Helper lemmas live in Lemmas/L4.lean.
-/
namespace Corankco
open Model Spec

/-- C07: a partition without back arcs whose consecutive groups are fully robust is respected by EVERY optimum -/
theorem C07_all_optima (t : Table) (n : Nat) (hm : MirrorT t n) (groups : List (List Nat))
    (hp : isPartitionOf n groups = true) (hnb : NoBack t groups) (hr : ConsecRobust t groups)
    (v : List Int) (hv : Optimal t n v) : RespectsI groups v := by
  obtain ⟨hvl, hvo⟩ := hv
  obtain ⟨hne, hnd, hmem⟩ := (L4.isPartitionOf_iff n groups).mp hp
  have hG := L4.noBackG_gidx t n groups hp hnb
  have hs : scoreVec t v ≤ scoreVec t (L4.regroup (L4.gidx groups) v) := hvo _ (by simp [hvl])
  -- equal totals: every term is equal, in both orientations
  have hterm : ∀ i j, i < n → j < n → i ≠ j →
      sel t (L4.regroup (L4.gidx groups) v) i j = sel t v i j := by
    intro i j hi hj hij
    rcases Nat.lt_or_gt_of_ne hij with h | h
    · exact L4.sel_regroup_eq_of_score t n hm _ hG v hvl hs i j h hj
    · rw [L4.sel_mirror t n hm _ i j hi hj, L4.sel_mirror t n hm v i j hi hj]
      exact L4.sel_regroup_eq_of_score t n hm _ hG v hvl hs j i h hi
  -- consecutive groups
  have hcons : ∀ a g1 g2, groups[a]? = some g1 → groups[a + 1]? = some g2 →
      ∀ i ∈ g1, ∀ j ∈ g2, v.getD i 0 < v.getD j 0 := by
    intro a g1 g2 h1 h2 i hi j hj
    have hr' := L4.consecRobust_getElem t groups hr a g1 g2 h1 h2 i hi j hj
    have ei := L4.gidx_eq groups hnd a g1 h1 i hi
    have ej := L4.gidx_eq groups hnd (a + 1) g2 h2 j hj
    have hin : i < n := (hmem i).mp (List.mem_flatten.mpr ⟨g1, List.mem_of_getElem? h1, hi⟩)
    have hjn : j < n := (hmem j).mp (List.mem_flatten.mpr ⟨g2, List.mem_of_getElem? h2, hj⟩)
    have hij : i ≠ j := by intro e; subst e; omega
    have e := hterm i j hin hjn hij
    rw [L4.sel_regroup_of_lt t _ v i j (by omega) (by omega) (by omega)] at e
    unfold sel at e
    simp only [] at e
    split at e
    · assumption
    · split at e <;> omega
  -- any two groups: chain through the intermediate (non-empty) groups
  have hchain : ∀ d a b, a + d + 1 = b → ∀ g1 g2, groups[a]? = some g1 → groups[b]? = some g2 →
      ∀ i ∈ g1, ∀ j ∈ g2, v.getD i 0 < v.getD j 0 := by
    intro d
    induction d with
    | zero =>
      intro a b hab g1 g2 h1 h2
      subst hab
      exact hcons a g1 g2 h1 h2
    | succ d ih =>
      intro a b hab g1 g2 h1 h2 i hi j hj
      have hb : b < groups.length := (List.getElem?_eq_some_iff.mp h2).1
      have ha1 : a + 1 < groups.length := by omega
      have hmid : groups[a + 1]? = some groups[a + 1] := by simp [ha1]
      have hne' := hne groups[a + 1] (List.getElem_mem _)
      obtain ⟨k, hk⟩ := List.exists_mem_of_ne_nil _ hne'
      have c1 := hcons a g1 _ h1 hmid i hi k hk
      have c2 := ih (a + 1) b (by omega) _ g2 hmid h2 k hk j hj
      omega
  intro p hpp i hi j hj
  obtain ⟨a, b, hab, ha, hb⟩ := (L4.mem_pairs_iff _ _).mp hpp
  exact hchain (b - a - 1) a b (by omega) p.1 p.2 ha hb i hi j hj

end Corankco
