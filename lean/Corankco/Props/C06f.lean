import Corankco.Lemmas.Final
import Corankco.Props.C06e
import Corankco.Props.C05b
/-
  C06 (part f, end to end): ParCons on a DATASET with an exact sub-solver given at the level of ELEMENTS.  The
  sub-solver receives the elements of a component, solves the projected dataset `projectKeepAll D keep` (whose ids
  are re-numbered) and returns a ranking of elements; ParCons reads it back with the ids of `D`.  Composition of
  `C06_flag_truthful` (C06d) with `C06_sub_optimal` (C06e).  Helper lemmas live in Lemmas/Final.lean.
-/
namespace Corankco
open Model Spec

namespace C06f

/-- the elements of a component given as ids of the dataset (`id ↦ (univOf D)[id]`) -/
def elemsOf (U : List Elem) (c : List Nat) : List Elem := c.map fun i => U.getD i 0

/-- the id-level sub-solver ParCons calls, obtained from an element-level solver: translate the ids of the component
    to elements, solve, translate the returned ranking back to ids (`SubTable.idx U x` = position of `x` in `U`) -/
def liftExact (U : List Elem) (exactE : List Elem → Ranking) (c : List Nat) : List (List Nat) :=
  (exactE (elemsOf U c)).map fun b => b.map (SubTable.idx U)

/-- a ranking of the elements of a component, read with the ids of the dataset, is a ranking of the component -/
theorem lift_solves (U : List Elem) (hU : U.Nodup) (g : List Nat) (hg : ∀ i ∈ g, i < U.length) (cE : Ranking)
    (hne : ∀ b ∈ cE, b ≠ []) (hperm : cE.flatten.Perm (elemsOf U g)) :
    SolvesComp g (cE.map fun b => b.map (SubTable.idx U)) := by
  refine ⟨?_, ?_⟩
  · intro b hb
    obtain ⟨b0, hb0, rfl⟩ := List.mem_map.mp hb
    have := hne b0 hb0
    simpa using this
  · rw [← List.map_flatten]
    have := hperm.map (SubTable.idx U)
    rw [elemsOf, Final.map_idx_map_getD hU g hg] at this
    exact this

/-- the key an id of the component gets in the consensus vector over ids is the bucket of its element -/
theorem lift_key (U : List Elem) (hU : U.Nodup) (g : List Nat) (hg : ∀ i ∈ g, i < U.length) (cE : Ranking)
    (hne : ∀ b ∈ cE, b ≠ []) (hperm : cE.flatten.Perm (elemsOf U g)) (i : Nat) (hi : i ∈ g) :
    ((vecOfIds U.length (cE.map fun b => b.map (SubTable.idx U))).map fun k => Int.ofNat k).getD i 0 =
      (vecOf U cE).getD i 0 := by
  have hlt := hg i hi
  have hsub : ∀ y ∈ cE.flatten, y ∈ U := by
    intro y hy
    obtain ⟨j, hj, rfl⟩ := List.mem_map.mp (hperm.mem_iff.mp hy)
    exact Final.getD_mem (hg j hj)
  have hmem : i ∈ (cE.map fun b => b.map (SubTable.idx U)).flatten :=
    (lift_solves U hU g hg cE hne hperm).2.mem_iff.mpr hi
  rw [Compose.key_eq U.length _ i hlt hmem]
  have h := Final.bidIn_map_idx U cE hsub (U.getD i 0) (Final.getD_mem hlt)
  rw [Final.idx_getD hU hlt] at h
  rw [h, vecOf, getD_map_of_lt _ _ _ _ hlt, getD_of_lt _ _ _ hlt]

/-- optimality on the component transfers from the key vector over elements to the key vector over ids -/
theorem lift_optimalOn (t : Table) (U : List Elem) (hU : U.Nodup) (g : List Nat) (hg : ∀ i ∈ g, i < U.length)
    (cE : Ranking) (hne : ∀ b ∈ cE, b ≠ []) (hperm : cE.flatten.Perm (elemsOf U g))
    (hO : OptimalOn t g (vecOf U cE)) :
    OptimalOn t g ((vecOfIds U.length (cE.map fun b => b.map (SubTable.idx U))).map fun k => Int.ofNat k) := by
  intro w hw
  have hcongr := Compose.scoreIds_congr t g
    ((vecOfIds U.length (cE.map fun b => b.map (SubTable.idx U))).map fun k => Int.ofNat k) (vecOf U cE)
    (fun i hi j hj => by rw [lift_key U hU g hg cE hne hperm i hi, lift_key U hU g hg cE hne hperm j hj])
  rw [hcongr]
  apply hO w
  rw [hw]
  simp [vecOfIds, vecOf]

end C06f

open C06f in
/-- ParCons end to end on a dataset, with a dataset-level exact sub-solver.

    `t` is the cost table of `D`, `n` the number of its elements, `comps` the strongly connected components of the
    graph of elements in a topological order (igraph's contract, `isTopoSCC`), given as lists of ids.
    `exactE` is the exact sub-solver at the level of ELEMENTS: for every component `c` that cannot be all tied, with
    `keep := elemsOf (univOf D) c` its elements, `exactE keep` is a ranking of exactly the elements `keep` (non-empty
    buckets, every element once) and is a global optimum of the PROJECTED dataset `projectKeepAll D keep`, for the
    cost table of that dataset and with the ids of that dataset (`Optimal … (vecOf (univOf (projectKeepAll D keep)) …)`
    — this is what an exact algorithm proves about its own input, see C05).  ParCons calls it through
    `liftExact (univOf D) exactE` (ids → elements → solve → ids).  The auxiliary heuristic `aux` is ARBITRARY.

    Conclusion: whenever ParCons marks its result as necessarily optimal, the consensus, read as a key vector over
    the ids of `D`, is a global optimum of the table of `D` (`Optimal t n`), i.e. no ranking with ties of the `n`
    elements has a smaller generalised Kemeny score.

    Nothing is assumed about `exactE` on components that can be all tied (it is not called there), nor about `aux`
    (when the mark is set it has not been called). -/
theorem C06_parcons_dataset (S : Scheme) (hS : S.Valid) (D : Dataset) (comps : List (List Nat))
    (h : isTopoSCC (costMatrix S (getPositions D)) (univOf D).length comps = true)
    (bound : Nat) (exactE : List Elem → Ranking) (aux : List Nat → List (List Nat))
    (hexact : ∀ c ∈ comps, canBeAllTied c (costMatrix S (getPositions D)) = false →
      (∀ b ∈ exactE (elemsOf (univOf D) c), b ≠ []) ∧
      (exactE (elemsOf (univOf D) c)).flatten.Perm (elemsOf (univOf D) c) ∧
      Optimal (costMatrix S (getPositions (projectKeepAll D (elemsOf (univOf D) c))))
        (univOf (projectKeepAll D (elemsOf (univOf D) c))).length
        (vecOf (univOf (projectKeepAll D (elemsOf (univOf D) c))) (exactE (elemsOf (univOf D) c))))
    (hflag : (parCons (costMatrix S (getPositions D)) comps bound
        (liftExact (univOf D) exactE) aux).optimal = true) :
    Optimal (costMatrix S (getPositions D)) (univOf D).length
      ((vecOfIds (univOf D).length (parCons (costMatrix S (getPositions D)) comps bound
        (liftExact (univOf D) exactE) aux).consensus).map fun k => Int.ofNat k) := by
  have hU := univOf_nodup D
  have hp : isPartitionOf (univOf D).length comps = true := by
    simp only [isTopoSCC, Bool.and_eq_true] at h
    exact h.1.1
  obtain ⟨hne, hnd, hmem⟩ := (L4.isPartitionOf_iff (univOf D).length comps).mp hp
  have hlt : ∀ c ∈ comps, ∀ i ∈ c, i < (univOf D).length :=
    fun c hc i hi => (hmem i).mp (List.mem_flatten.mpr ⟨c, hc, hi⟩)
  -- sub-solvers that agree with the given ones wherever ParCons calls them, and solve every component
  let exact' : List Nat → List (List Nat) := fun c =>
    if canBeAllTied c (costMatrix S (getPositions D)) then [c] else liftExact (univOf D) exactE c
  let aux' : List Nat → List (List Nat) := fun c => [c]
  have hflag0 := (C06_flag (costMatrix S (getPositions D)) comps bound (liftExact (univOf D) exactE) aux).2
  have hflag' : (parCons (costMatrix S (getPositions D)) comps bound exact' aux').optimal = true := by
    rw [(C06_flag (costMatrix S (getPositions D)) comps bound exact' aux').2, ← hflag0]
    exact hflag
  have hnodel : ∀ c ∈ comps, canBeAllTied c (costMatrix S (getPositions D)) = false → ¬ c.length > bound := by
    intro c hc hct hgt
    rw [hflag] at hflag0
    have : (comps.any fun c => !canBeAllTied c (costMatrix S (getPositions D)) && decide (c.length > bound)) = true :=
      List.any_eq_true.mpr ⟨c, hc, by simp [hct, hgt]⟩
    rw [this] at hflag0
    exact absurd hflag0 (by decide)
  have hcons : (parCons (costMatrix S (getPositions D)) comps bound (liftExact (univOf D) exactE) aux).consensus =
      (parCons (costMatrix S (getPositions D)) comps bound exact' aux').consensus := by
    apply Final.parCons_consensus_congr
    · intro c _ hct _
      simp [exact', hct]
    · intro c hc hct hgt
      exact absurd hgt (hnodel c hc hct)
  rw [hcons]
  have hsolveE : ∀ c ∈ comps, canBeAllTied c (costMatrix S (getPositions D)) = false →
      SolvesComp c (liftExact (univOf D) exactE c) := by
    intro c hc hct
    obtain ⟨e1, e2, _⟩ := hexact c hc hct
    exact lift_solves (univOf D) hU c (hlt c hc) _ e1 e2
  apply C06_flag_truthful (costMatrix S (getPositions D)) (univOf D).length (BioSM.mirror_costMatrix S D) comps h
    bound exact' aux'
  · intro c hc
    cases hct : canBeAllTied c (costMatrix S (getPositions D)) with
    | true =>
      simp only [exact', hct, if_true]
      exact ⟨by simp [hne c hc], by simp⟩
    | false =>
      simp only [exact', hct]
      exact hsolveE c hc hct
  · intro c hc
    exact ⟨by simp [aux', hne c hc], by simp [aux']⟩
  · intro c hc hct
    obtain ⟨e1, e2, e3⟩ := hexact c hc hct
    have hcn : c.Nodup := (List.pairwise_flatten.mp hnd).1 c hc
    have hk : ∀ x ∈ elemsOf (univOf D) c, x ∈ univOf D := by
      intro x hx
      obtain ⟨j, hj, rfl⟩ := List.mem_map.mp hx
      exact Final.getD_mem (hlt c hc j hj)
    have hO := C06_sub_optimal S hS D (elemsOf (univOf D) c) (Final.nodup_map_getD hU c (hlt c hc) hcn) hk
      (exactE (elemsOf (univOf D) c)) e2 e3
    rw [SubTable.filterMap_indexOf? _ _ hk, elemsOf, Final.map_idx_map_getD hU c (hlt c hc)] at hO
    have := lift_optimalOn (costMatrix S (getPositions D)) (univOf D) hU c (hlt c hc) _ e1 e2 hO
    simp only [exact', hct]
    exact this
  · exact hflag'

/-! ### non-vacuity: the exhaustive exact solver satisfies the hypothesis on `exactE`, on every dataset -/

namespace C06f

/-- the exhaustive exact solver at the level of elements: project the dataset on the kept elements, enumerate every
    ranking with ties of the projected dataset, decode the first optimum with the ids of the projected dataset -/
def bruteE (S : Scheme) (D : Dataset) (keep : List Elem) : Ranking :=
  decodeVec (univOf (projectKeepAll D keep))
    ((optima (costMatrix S (getPositions (projectKeepAll D keep))) (univOf (projectKeepAll D keep)).length).headD [])

theorem optima_ne_nil (t : Table) (n : Nat) : optima t n ≠ [] := by
  obtain ⟨d, hd, e⟩ := WO.optScore_attained t n
  have : d ∈ optima t n := List.mem_filter.mpr ⟨hd, by simp [e]⟩
  exact List.ne_nil_of_mem this

theorem headD_mem {α : Type} (l : List α) (d : α) (h : l ≠ []) : l.headD d ∈ l := by
  cases l with
  | nil => exact absurd rfl h
  | cons a as => simp

/-- the exhaustive solver returns a ranking of exactly the kept elements that is a global optimum of the projected
    dataset: the hypothesis `hexact` of `C06_parcons_dataset` -/
theorem bruteE_spec (S : Scheme) (D : Dataset) (keep : List Elem) (hkn : keep.Nodup)
    (hk : ∀ x ∈ keep, x ∈ univOf D) :
    (∀ b ∈ bruteE S D keep, b ≠ []) ∧ (bruteE S D keep).flatten.Perm keep ∧
    Optimal (costMatrix S (getPositions (projectKeepAll D keep))) (univOf (projectKeepAll D keep)).length
      (vecOf (univOf (projectKeepAll D keep)) (bruteE S D keep)) := by
  have hd := headD_mem _ [] (optima_ne_nil (costMatrix S (getPositions (projectKeepAll D keep)))
    (univOf (projectKeepAll D keep)).length)
  obtain ⟨hl, hdn, hopt⟩ := (optima_spec _ _ _).mp hd
  obtain ⟨wf, hrow⟩ := BioSM.decodeVec_spec (univOf (projectKeepAll D keep)) (univOf_nodup _) _ hdn hl
  have wf' : wellFormedRanking (univOf (projectKeepAll D keep)) (bruteE S D keep) = true := wf
  have hrow' : rowOf (univOf (projectKeepAll D keep)) (bruteE S D keep) = _ := hrow
  obtain ⟨w1, _, _, _⟩ := (BioSM.wellFormedRanking_iff _ _).mp wf'
  refine ⟨w1, ?_, ?_⟩
  · exact (BioSM.perm_of_wellFormed _ (univOf_nodup _) _ wf').trans (SubTable.univOf_project_perm D keep hkn hk)
  · rw [BioSM.vecOf_eq_rowOf _ _ wf', hrow']
    exact hopt

end C06f

open C06f in
/-- ParCons with the exhaustive exact sub-solver, on ANY dataset, any valid scheme, any components satisfying
    igraph's contract, any size bound and any auxiliary heuristic: a result marked necessarily optimal is a global
    optimum.  No hypothesis on a solver is left; this also shows that the hypothesis `hexact` of
    `C06_parcons_dataset` is satisfiable on every instance. -/
theorem C06_parcons_brute (S : Scheme) (hS : S.Valid) (D : Dataset) (comps : List (List Nat))
    (h : isTopoSCC (costMatrix S (getPositions D)) (univOf D).length comps = true)
    (bound : Nat) (aux : List Nat → List (List Nat))
    (hflag : (parCons (costMatrix S (getPositions D)) comps bound
        (liftExact (univOf D) (bruteE S D)) aux).optimal = true) :
    Optimal (costMatrix S (getPositions D)) (univOf D).length
      ((vecOfIds (univOf D).length (parCons (costMatrix S (getPositions D)) comps bound
        (liftExact (univOf D) (bruteE S D)) aux).consensus).map fun k => Int.ofNat k) := by
  apply C06_parcons_dataset S hS D comps h bound (bruteE S D) aux _ hflag
  intro c hc _
  have hp : isPartitionOf (univOf D).length comps = true := by
    simp only [isTopoSCC, Bool.and_eq_true] at h
    exact h.1.1
  obtain ⟨_, hnd, hmem⟩ := (L4.isPartitionOf_iff (univOf D).length comps).mp hp
  have hlt : ∀ i ∈ c, i < (univOf D).length :=
    fun i hi => (hmem i).mp (List.mem_flatten.mpr ⟨c, hc, hi⟩)
  apply bruteE_spec S D _ (Final.nodup_map_getD (univOf_nodup D) c hlt ((List.pairwise_flatten.mp hnd).1 c hc))
  intro x hx
  obtain ⟨j, hj, rfl⟩ := List.mem_map.mp hx
  exact Final.getD_mem (hlt j hj)

set_option maxRecDepth 8000 in
/-- Non-vacuity on a concrete instance: a Condorcet cycle on the elements 0, 1, 2 followed by element 3; the ids of
    `D` are positions in `univOf D = [1, 0, 2, 3]`, so ids and elements differ.  The cycle is one component that
    cannot be all tied; the exhaustive solver is called on the elements `[1, 0, 2]`, returns `[[0], [2], [1]]` over
    elements, read back as `[[1], [2], [0]]` over ids; the mark is set and the score 4 is the optimum. -/
example :
    let D : Dataset := [[[1], [0], [2], [3]], [[0], [2], [1], [3]], [[2], [1], [0], [3]]]
    let t := costMatrix unifying (getPositions D)
    let out := parCons t [[0, 1, 2], [3]] 10 (C06f.liftExact (univOf D) (C06f.bruteE unifying D)) (fun c => [c])
    unifying.Valid ∧ univOf D = [1, 0, 2, 3] ∧ isTopoSCC t 4 [[0, 1, 2], [3]] = true ∧
    canBeAllTied [0, 1, 2] t = false ∧ C06f.elemsOf (univOf D) [0, 1, 2] = [1, 0, 2] ∧
    C06f.bruteE unifying D [1, 0, 2] = [[0], [2], [1]] ∧
    out.consensus = [[1], [2], [0], [3]] ∧ out.optimal = true ∧
    scoreN t (vecOfIds 4 out.consensus) = 4 ∧ optScore t 4 = 4 := by
  decide

end Corankco
