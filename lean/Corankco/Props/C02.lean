import Corankco.Lemmas.C02
/-
  C02 — property theorems (helper lemmas live in Lemmas/).
-/
namespace Corankco
open Model

/-- Mirror law of the table the code builds, for every scheme and every position matrix:
    `before(i,j) = after(j,i)` and `tied(i,j) = tied(j,i)`. -/
theorem C02_mirror (S : Scheme) (pos : List (List Int)) (i j : Nat)
    (hi : i < pos.length) (hj : j < pos.length) :
    (costMatrix S pos).bef i j = (costMatrix S pos).aft j i ∧
    (costMatrix S pos).tie i j = (costMatrix S pos).tie j i := by
  unfold Table.bef Table.aft Table.tie Table.get costMatrix
  rw [getD_range_map _ _ _ _ hi, getD_range_map _ _ _ _ hj,
      getD_range_map _ _ _ _ hj, getD_range_map _ _ _ _ hi]
  rcases Nat.lt_trichotomy i j with h | h | h
  · have h' : ¬ j < i := by omega
    simp [h, h', Cost.swap]
  · subst h; simp
  · have h' : ¬ i < j := by omega
    simp [h, h', Cost.swap]

/-- NOT A THEOREM without a hypothesis on `S`: the statement
    `∀ S D, costMatrix S (getPositions D) = Spec.specTable S D` is false.
    The code mirrors the lower triangle from the upper one, so its `tied` entry at `(y, x)` is
    `tied x y`; the definition's is `tied y x`, and these differ as soon as `t0 ≠ t1` (or `t3 ≠ t4`). -/
example : ¬ ∀ (S : Scheme) (D : Dataset), costMatrix S (getPositions D) = Spec.specTable S D :=
  fun h => absurd (h ⟨0, 1, 0, 0, 0, 0, 0, 1, 0, 0, 0, 0⟩ [[[0], [1]]]) (by decide)

/-- The table the code builds from the position matrix is the table of the definition,
    for every valid scheme (only `t0 = t1` and `t3 = t4` are used, see
    `costMatrix_rankFn_eq_specTable`). -/
theorem C02_def (S : Scheme) (hS : S.Valid) (D : Dataset) :
    costMatrix S (getPositions D) = Spec.specTable S D :=
  costMatrix_rankFn_eq_specTable rankFn_posIn S hS.2.2.2.2.2.2.2.2.2.2.2.2.2.2.2.1
    hS.2.2.2.2.2.2.2.2.2.2.2.2.2.2.2.2.2 D

/-- Positions and bucket ids give the same table. -/
theorem C02_pos_eq_bid (S : Scheme) (D : Dataset) :
    costMatrix S (getPositions D) = costMatrix S (getBucketIds D) :=
  costMatrix_rankFn_congr rankFn_posIn rankFn_bidIn S D

/-- For every complete candidate the entries selected by its pairwise placements add up to its Kemeny score. -/
theorem C02_sum (S : Scheme) (hS : S.Valid) (D : Dataset) (c : Ranking)
    (hc : c.flatten.Perm (univOf D)) :
    scoreVec (Spec.specTable S D) (vecOf (univOf D) c) = Spec.kemeny S D c := by
  rw [scoreVec_specTable,
    kemeny_eq_isum_pairs S hS.2.2.2.2.2.2.2.2.2.2.2.2.2.2.2.1 hS.2.2.2.2.2.2.2.2.2.2.2.2.2.2.2.2.2 D c _ hc]

/-- Non-vacuity of `C02_sum`: a 3-element dataset with a tie (`{0,1}`) and an unranked element
    (`1` in the second ranking), a valid non-preset scheme, a complete candidate with a tie. -/
example :
    let S : Scheme := ⟨0, 2, 1, 1, 3, 1, 2, 2, 0, 3, 3, 1⟩
    let D : Dataset := [[[0, 1], [2]], [[2], [0]]]
    let c : Ranking := [[2, 0], [1]]
    S.Valid ∧ univOf D = [0, 1, 2] ∧ c.flatten.Perm (univOf D) := by
  decide

end Corankco
