import Corankco.Spec.C02
/-
  C02 — property theorems (helper lemmas live in Lemmas/).
-/
namespace Corankco
open Model

theorem getD_range_map {α : Type} (f : Nat → α) (n i : Nat) (d : α) (h : i < n) :
    ((List.range n).map f).getD i d = f i := by
  simp [List.getD, h]

/-- Mirror law of the table the code builds, for every scheme and every position matrix:
    `before(i,j) = after(j,i)` and `tied(i,j) = tied(j,i)`. -/
theorem C02_mirror (S : Scheme) (pos : List (List Int)) (i j : Nat)
    (hi : i < pos.length) (hj : j < pos.length) :
    (costMatrix S pos).bef i j = (costMatrix S pos).aft j i ∧
    (costMatrix S pos).tie i j = (costMatrix S pos).tie j i := by
  unfold Table.bef Table.aft Table.tie Table.get costMatrix
  rw [getD_range_map _ _ _ _ hi, getD_range_map _ _ _ _ hj,
      getD_range_map _ _ _ _ hj, getD_range_map _ _ _ _ hi]
  rcases Nat.lt_trichotomy i j with h | h | h
  · have h' : ¬ j < i := by omega
    simp [h, h', Cost.swap]
  · subst h; simp
  · have h' : ¬ i < j := by omega
    simp [h, h', Cost.swap]

end Corankco
