import Corankco.Lemmas.Invariance
/-
  C01b — sanity theorems about the definition of the generalised Kemeny score (`Spec.kemeny`):
  it is insensitive to what must not matter.
-/
namespace Corankco
open Model Spec

/-- order of the rankings in the dataset -/
theorem C01_perm_dataset (S : Scheme) (D D' : Dataset) (c : Ranking) (h : D.Perm D') :
    kemeny S D c = kemeny S D' c :=
  isum_map_perm (kemenyOne S c) h

/-- order of the members inside the buckets of the candidate: only `T0 = T1` and `T3 = T4` are used, and the
    candidate need not even be repetition-free. -/
theorem C01_perm_candidate_members' (S : Scheme) (h01 : S.t0 = S.t1) (h34 : S.t3 = S.t4) (D : Dataset)
    (c c' : Ranking) (h : List.Forall₂ (fun b b' => b.Perm b') c c') : kemeny S D c = kemeny S D c' := by
  unfold kemeny
  apply isum_map_congr
  intro r _
  exact Invariance.kemenyOne_candidate_members S h01 h34 h r

/-- order of the members inside the buckets of the candidate (needs the validity constraints T0=T1, T3=T4) -/
theorem C01_perm_candidate_members (S : Scheme) (hS : S.Valid) (D : Dataset) (c c' : Ranking)
    (_hc : c.flatten.Nodup) (h : List.Forall₂ (fun b b' => b.Perm b') c c') : kemeny S D c = kemeny S D c' :=
  C01_perm_candidate_members' S hS.2.2.2.2.2.2.2.2.2.2.2.2.2.2.2.1 hS.2.2.2.2.2.2.2.2.2.2.2.2.2.2.2.2.2 D c c' h

/-- order of the members inside the buckets of the input rankings -/
theorem C01_perm_input_members (S : Scheme) (D D' : Dataset) (c : Ranking)
    (h : List.Forall₂ (fun r r' => List.Forall₂ (fun b b' => b.Perm b') r r') D D') :
    kemeny S D c = kemeny S D' c := by
  unfold kemeny
  induction h with
  | nil => rfl
  | cons hr _ ih =>
    simp only [List.map_cons, isum_cons, ih, Invariance.kemenyOne_input_members S hr c]

/-- renaming the elements by an injective function -/
theorem C01_rename (S : Scheme) (D : Dataset) (c : Ranking) (f : Elem → Elem) (hf : Function.Injective f) :
    kemeny S (D.map fun r => r.map fun b => b.map f) (c.map fun b => b.map f) = kemeny S D c := by
  unfold kemeny
  rw [List.map_map]
  apply isum_map_congr
  intro r _
  exact Invariance.kemenyOne_rename hf S c r

/-- The validity constraints are needed for the candidate's members: with `T0 ≠ T1` the score of a tied pair
    depends on which member the candidate lists first. -/
example :
    let S : Scheme := { b0 := 0, b1 := 1, b2 := 1, b3 := 0, b4 := 1, b5 := 0,
                        t0 := 1, t1 := 2, t2 := 0, t3 := 0, t4 := 0, t5 := 0 }
    ¬ S.Valid ∧ kemeny S [[[0], [1]]] [[0, 1]] = 1 ∧ kemeny S [[[0], [1]]] [[1, 0]] = 2 := by
  decide

/-- Non-vacuity: a valid scheme, a dataset with ties and a missing element, all four transformations at once. -/
example :
    let S : Scheme := { b0 := 0, b1 := 2, b2 := 1, b3 := 0, b4 := 2, b5 := 0,
                        t0 := 2, t1 := 2, t2 := 0, t3 := 1, t4 := 1, t5 := 0 }
    S.Valid ∧
    kemeny S [[[0, 1], [2]], [[2], [1]]] [[1], [0, 2]] = 6 ∧
    kemeny S [[[2], [1]], [[1, 0], [2]]] [[1], [2, 0]] = 6 ∧
    kemeny S [[[12], [11]], [[11, 10], [12]]] [[11], [12, 10]] = 6 := by
  decide

end Corankco
