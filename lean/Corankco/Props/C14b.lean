import Corankco.Props.C14
/-
  C14, selector layer (`algorithm_choice.py`): the enum-based factory instantiates the class each member names, and the
  members the library declares "compatible with any scoring scheme" are, with their default parameters, declared
  relevant for every scheme and never refuse a dataset.
-/
namespace Corankco
open Model

/-- `get_algorithm` is total on the enum: every member indexes a class of the list -/
theorem C14_factory_total (a : AlgName) (p : Params) : (getAlgorithm a p).isSome = true := by
  cases a <;> rfl

/-- ... and that class is the one the member names -/
theorem C14_factory_named (a : AlgName) (p : Params) : getAlgorithm a p = some (construct a.named p) := by
  cases a <;> rfl

/-- `get_all()` lists every member exactly once; the "compatible" list is a sub-list of it -/
theorem C14_getAll (a : AlgName) : a ∈ AlgName.getAll := by
  cases a <;> decide

theorem C14_getAll_nodup : AlgName.getAll.Nodup := by decide

theorem C14_compatible_sub (a : AlgName) (_h : a ∈ AlgName.compatibleWithAny) : a ∈ AlgName.getAll := C14_getAll a

/-- the enum values are a bijection with `0..7` -/
theorem C14_value_ofValue (a : AlgName) : AlgName.ofValue? a.value = some a := by
  cases a <;> rfl

/-- declared "compatible with any scoring scheme" is truthful: with default parameters such an algorithm declares every
    scheme relevant for incomplete rankings and refuses no dataset, complete or not -/
theorem C14_compatible_any (a : AlgName) (h : a ∈ AlgName.compatibleWithAny) (S : Scheme) :
    ∃ alg, getAlgorithm a {} = some alg ∧ relevant alg S = true ∧ ∀ complete, mayRefuse alg S complete = false := by
  have key : ∃ alg, getAlgorithm a {} = some alg ∧ relevant alg S = true := by
    cases a
    case BIOCO => exact absurd h (by decide)
    case PICKAPERM => exact absurd h (by decide)
    case BORDACOUNT => exact absurd h (by decide)
    all_goals exact ⟨_, rfl, by simp [construct, relevant, relevantAll]⟩
  obtain ⟨alg, h1, h2⟩ := key
  exact ⟨alg, h1, h2, fun c => C14_true_accepts alg S h2 c⟩

/-- the members left out of that list are exactly those whose default configuration refuses some scheme -/
theorem C14_not_compatible (a : AlgName) (h : a ∉ AlgName.compatibleWithAny) :
    ∃ alg, getAlgorithm a {} = some alg ∧ (alg = .bioCo ∨ alg = .pickAPerm ∨ alg = .borda) := by
  cases a
  case BIOCO => exact ⟨_, rfl, Or.inl rfl⟩
  case PICKAPERM => exact ⟨_, rfl, Or.inr (Or.inl rfl)⟩
  case BORDACOUNT => exact ⟨_, rfl, Or.inr (Or.inr rfl)⟩
  all_goals exact absurd (by decide) h

end Corankco
