import Corankco.Lemmas.PartSum
/-
  C06 — partition arguments (helper lemmas live in Lemmas/PartSum.lean): decomposition of the score along a partition,
  all-tied components, optimality of a concatenation of group optima, and the projection of the dataset on a component.
-/
namespace Corankco
open Model Spec

/-- decomposition of the score along a partition: within-group parts plus cross pairs -/
theorem scoreVec_partition (t : Table) (n : Nat) (hm : MirrorT t n) (groups : List (List Nat))
    (hp : isPartitionOf n groups = true) (v : List Int) (hv : v.length = n) :
    scoreVec t v =
      isum (groups.map fun g => scoreIds t g v) +
      isum ((pairs groups).map fun p => isum (p.1.map fun i => isum (p.2.map fun j => sel t v i j))) := by
  have hperm := PartSum.partition_perm n groups hp
  have h1 : scoreVec t v = PartSum.psum (sel t v) groups.flatten := by
    rw [PartSum.scoreVec_eq_psum, hv]
    exact (PartSum.psum_perm_lt (sel t v) n (fun i j hi hj => PartSum.sel_symm t n hm v i j hi hj) hperm
      (fun i hi => (PartSum.partition_mem n groups hp i).mp hi)).symm
  rw [h1, PartSum.psum_flatten]
  rfl

set_option linter.unusedVariables false in
/-- a component that can be all tied: tying all its elements is optimal for the component
    (the proof is termwise and uses neither `hm`, `hids`, `hlt` nor `hv`) -/
theorem C06_all_tied (t : Table) (n : Nat) (hm : MirrorT t n) (ids : List Nat) (hids : ids.Nodup)
    (hlt : ∀ i ∈ ids, i < n) (h : canBeAllTied ids t = true) (v : List Int) (hv : v.length = n)
    (hv0 : ∀ i ∈ ids, ∀ j ∈ ids, v.getD i 0 = v.getD j 0) :
    OptimalOn t ids v := by
  intro w _
  unfold scoreIds
  apply PartSum.isum_map_le
  intro p hp
  obtain ⟨h1, h2⟩ := mem_pairs p hp
  have he := hv0 p.1 h1 p.2 h2
  simp only [canBeAllTied, List.all_eq_true, decide_eq_true_eq] at h
  have hle := h p hp
  have e : sel t v p.1 p.2 = t.tie p.1 p.2 := by
    simp only [sel]
    rw [if_neg (by omega), if_neg (by omega)]
  rw [e]
  simp only [sel]
  split
  · omega
  · split <;> omega

set_option linter.unusedVariables false in
/-- C06 core: a ranking that respects a partition without back arcs and is optimal on every group is a global optimum
    (`hnb` is only needed for L4, here the hypothesis `hL4`, and is not used again) -/
theorem C06_concat_optimal (t : Table) (n : Nat) (hm : MirrorT t n) (groups : List (List Nat))
    (hp : isPartitionOf n groups = true) (hnb : NoBack t groups) (v : List Int) (hv : v.length = n)
    (hr : RespectsI groups v) (hopt : ∀ g ∈ groups, OptimalOn t g v)
    -- L4, proved elsewhere, taken here as a hypothesis so that this file is independent of it:
    (hL4 : ∀ w : List Int, w.length = n → ∃ w' : List Int, w'.length = n ∧ RespectsI groups w' ∧
        scoreVec t w' ≤ scoreVec t w ∧
        (∀ g ∈ groups, ∀ i ∈ g, ∀ j ∈ g, compare (w'.getD i 0) (w'.getD j 0) = compare (w.getD i 0) (w.getD j 0))) :
    Optimal t n v := by
  refine ⟨hv, ?_⟩
  intro w hw
  obtain ⟨w', hw'l, hw'r, hw'le, _⟩ := hL4 w hw
  have Hv := scoreVec_partition t n hm groups hp v hv
  have Hw := scoreVec_partition t n hm groups hp w' hw'l
  have Cv := PartSum.cross_respects t groups v hr
  have Cw := PartSum.cross_respects t groups w' hw'r
  have Hin : isum (groups.map fun g => scoreIds t g v) ≤ isum (groups.map fun g => scoreIds t g w') :=
    PartSum.isum_map_le (fun g hg => hopt g hg w' (by omega))
  unfold PartSum.cross at Cv Cw
  omega

/-- projection lemma (why sub-problems may be solved on the projected dataset): projecting every ranking on the kept
    elements and dropping emptied buckets — while KEEPING rankings that lose all their elements as empty rankings —
    leaves the status of every pair of kept elements unchanged in every ranking, hence the three pairwise costs -/
theorem C06_projection (S : Scheme) (D : Dataset) (keep : List Elem) (x y : Elem) (hx : x ∈ keep) (hy : y ∈ keep) :
    Spec.before S (projectKeepAll D keep) x y = Spec.before S D x y ∧
    Spec.after S (projectKeepAll D keep) x y = Spec.after S D x y ∧
    Spec.tied S (projectKeepAll D keep) x y = Spec.tied S D x y := by
  simp only [Spec.before, Spec.after, Spec.tied, PartSum.projectKeepAll_eq, List.map_map, Function.comp_def,
    PartSum.status_projR keep _ x y hx hy, PartSum.status_projR keep _ y x hy hx, and_self]

/-- and what goes wrong otherwise: dropping the `k` rankings that contain none of the kept elements (the public
    `sub_problem_from_elements`) changes each cost of a kept pair by exactly `k` times the both-unranked penalty -/
theorem C06_projection_dropped (S : Scheme) (D : Dataset) (keep : List Elem) (x y : Elem) (hx : x ∈ keep) (hy : y ∈ keep) :
    let k : Int := ((projectKeepAll D keep).filter fun r => r.isEmpty).length
    Spec.before S D x y = Spec.before S (subProblem D keep) x y + k * S.b5 ∧
    Spec.after S D x y = Spec.after S (subProblem D keep) x y + k * S.b5 ∧
    Spec.tied S D x y = Spec.tied S (subProblem D keep) x y + k * S.t5 := by
  intro k
  obtain ⟨h1, h2, h3⟩ := C06_projection S D keep x y hx hy
  rw [← h1, ← h2, ← h3]
  exact ⟨PartSum.isum_split_empty _ (fun r => S.B (Spec.status r x y)) S.b5 rfl,
    PartSum.isum_split_empty _ (fun r => S.B (Spec.status r y x)) S.b5 rfl,
    PartSum.isum_split_empty _ (fun r => S.T (Spec.status r x y)) S.t5 rfl⟩

/-- Non-vacuity of the projection statements: a ranking that loses all its elements, duplicated elements inside a
    ranking, and the shift by `k = 1` of the public sub-problem. -/
example :
    let S : Scheme := { b0 := 0, b1 := 2, b2 := 2, b3 := 0, b4 := 2, b5 := 3, t0 := 2, t1 := 2, t2 := 0, t3 := 1, t4 := 1, t5 := 5 }
    let D : Dataset := [[[0, 3], [1], [2]], [[3], [4]], [[2, 3], [3, 0], [1, 0]]]
    projectKeepAll D [0, 1] = [[[0], [1]], [], [[0], [1, 0]]] ∧ subProblem D [0, 1] = [[[0], [1]], [[0], [1, 0]]] ∧
      Spec.before S D 0 1 = 3 ∧ Spec.before S (subProblem D [0, 1]) 0 1 = 0 ∧
      Spec.tied S D 0 1 = 9 ∧ Spec.tied S (subProblem D [0, 1]) 0 1 = 4 := by
  decide

end Corankco
