import Corankco.Props.C08u
import Corankco.Props.C09u
import Corankco.Props.C03
import Corankco.Props.C10
/-
  Two named corollaries of C09 ("never worse than its starting points"), UNCONDITIONALLY (no hypothesis on the fuel
  or on the exit flags of the sweep loops):
  * BioCo (BioConsert started from Borda's consensus) is never worse than Borda,
  * default BioConsert is never worse than PickAPerm.
  Composition of `C09_starters` / `C08_default` (the reported score is the score of every returned ranking and is at
  most the score of every starting point) with `C03_borda` (Borda's consensus is well formed) and `C10_scan` /
  `C10.pickAPerm_eq` (every ranking PickAPerm returns is one of the (unified) input rankings, each of which is a
  default starting point of BioConsert).
-/
namespace Corankco
open Model Spec

/-- reading `C09.holds`: every returned ranking has the reported score, which is at most the score of every start -/
theorem C09.holds_le {S : Scheme} {D : Dataset} {out : List Ranking} {m : Int} {starts : List Ranking}
    (h : C09.holds S D out m starts = true) :
    ∀ c ∈ out, ∀ s ∈ starts, Spec.kemeny S D c ≤ Spec.kemeny S D s := by
  simp only [C09.holds, Bool.and_eq_true, List.all_eq_true, beq_iff_eq, decide_eq_true_eq] at h
  intro c hc s hs
  rw [h.1 c hc]
  exact h.2 s hs

/-- every ranking PickAPerm scans (the input rankings of a complete dataset, the unified ones otherwise) is a default
    starting point of BioConsert: on a complete dataset unification changes nothing -/
theorem C09.inputs_sub_defaultStarts (D : Dataset) : ∀ p ∈ C10.inputs D, p ∈ defaultStarts D := by
  intro p hp
  unfold defaultStarts
  apply List.mem_append_left
  unfold C10.inputs at hp
  split at hp
  · rename_i hc
    exact List.mem_map.mpr ⟨p, hp, Final.unifyRanking_of_complete D hc p hp⟩
  · exact hp

/-- every ranking PickAPerm returns is one of the rankings it scans -/
theorem C09.pickAPerm_sub_inputs (S : Scheme) (hS : S.Valid) (D : Dataset) (hne : D ≠ [])
    (hD : ∀ r ∈ D, r.flatten.Nodup) (amoP : Bool) (outP : List Ranking) (sc : Option Int)
    (hp : pickAPerm amoP S D = .ok (outP, sc)) : ∀ p ∈ outP, p ∈ C10.inputs D := by
  rw [C10.pickAPerm_eq amoP S hS D hD] at hp
  split at hp
  · cases hp
  · obtain ⟨m, acc, he, _, hmem, _⟩ :=
      C10_scan (Spec.kemeny S D) amoP (C10.inputs D) (C10.inputs_ne_nil hne)
    rw [he] at hp
    have e : acc = outP := by
      injection hp with hp
      exact (Prod.mk.inj hp).1
    subst e
    exact fun p hp => (hmem p hp).1

/-- BioCo (BioConsert started from Borda's consensus) is never worse than Borda: whenever Borda accepts the dataset,
    with enough fuel every ranking BioCo returns scores at most Borda's consensus -/
theorem C09_bioco_le_borda (S : Scheme) (hS : S.Valid) (D : Dataset) (hD : ∀ r ∈ D, r.flatten.Nodup)
    (useBid : Bool) (rb : Ranking) (hb : borda useBid S D = .ok rb) (amo : Bool) (τ : Int) (hτ : 0 ≤ τ) :
    ∃ fuel0, ∀ fuel, fuel0 ≤ fuel →
      ∀ c ∈ (bioConsertRun S D (departuresStarters D [rb]) amo τ fuel).1.1, kemeny S D c ≤ kemeny S D rb := by
  have hwf : ∀ c ∈ [rb], wellFormedRanking (univOf D) c = true := by
    have h3 := C03_borda useBid S D hD rb hb amo
    simp only [C03.holds, Bool.and_eq_true, List.all_eq_true] at h3
    exact h3.2
  obtain ⟨fuel0, hf⟩ := C09_starters S hS D [rb] (by simp) hwf amo τ hτ
  refine ⟨fuel0, fun fuel hle c hc => ?_⟩
  obtain ⟨_, _, m, _, _, h9⟩ := hf fuel hle
  exact C09.holds_le h9 c hc rb (by simp)

/-- default BioConsert is never worse than PickAPerm: whenever PickAPerm accepts the dataset, with enough fuel every
    ranking default BioConsert returns scores at most every ranking PickAPerm returns -/
theorem C09_default_le_pickaperm (S : Scheme) (hS : S.Valid) (D : Dataset) (hne : D ≠ [])
    (hD : ∀ r ∈ D, r.flatten.Nodup) (hDne : ∀ r ∈ D, ∀ b ∈ r, b ≠ []) (amoP : Bool) (outP : List Ranking)
    (sc : Option Int) (hp : pickAPerm amoP S D = .ok (outP, sc)) (amo : Bool) (τ : Int) (hτ : 0 ≤ τ) :
    ∃ fuel0, ∀ fuel, fuel0 ≤ fuel →
      ∀ c ∈ (bioConsertRun S D (departuresDefault D) amo τ fuel).1.1, ∀ p ∈ outP,
        kemeny S D c ≤ kemeny S D p := by
  obtain ⟨fuel0, hf⟩ := C08_default S hS D hne hD hDne amo τ hτ
  refine ⟨fuel0, fun fuel hle c hc p hpo => ?_⟩
  obtain ⟨_, _, m, _, _, h9⟩ := hf fuel hle
  exact C09.holds_le h9 c hc p
    (C09.inputs_sub_defaultStarts D p (C09.pickAPerm_sub_inputs S hS D hne hD amoP outP sc hp p hpo))

/-! ### non-vacuity -/

/-- the hypotheses of both corollaries are satisfiable together (the incomplete 3-element dataset of C03 with a tie,
    unifying scheme), and the conclusions are not vacuous: Borda returns `[[0], [1, 2]]` of score 4 and BioCo started
    from it returns `[[0, 1], [2]]` of score 3 (a strict improvement); PickAPerm returns two rankings of score 3 and
    default BioConsert returns two rankings of score 3 -/
example :
    let S : Scheme := unifying
    let D : Dataset := [[[0, 1], [2]], [[2], [0]]]
    S.Valid ∧ D ≠ [] ∧ (∀ r ∈ D, r.flatten.Nodup) ∧ (∀ r ∈ D, ∀ b ∈ r, b ≠ []) ∧
    borda false S D = .ok [[0], [1, 2]] ∧ kemeny S D [[0], [1, 2]] = 4 ∧
    (bioConsertRun S D (departuresStarters D [[[0], [1, 2]]]) false 0 6).1 = ([[[0, 1], [2]]], some 3) ∧
    pickAPerm false S D = .ok ([[[0, 1], [2]], [[2], [0], [1]]], some 3) ∧
    (bioConsertRun S D (departuresDefault D) false 0 6).1 = ([[[0, 1], [2]], [[2], [0], [1]]], some 3) ∧
    [[[0, 1], [2]], [[2], [0], [1]]].map (kemeny S D) = [3, 3] := by
  refine ⟨by decide, by decide, by decide, by decide, by decide, by decide, by decide, ?_, by decide, by decide⟩
  rw [C10.pickAPerm_eq _ _ (by decide) _ (by decide)]; decide

end Corankco

#print axioms Corankco.C09_bioco_le_borda
#print axioms Corankco.C09_default_le_pickaperm
