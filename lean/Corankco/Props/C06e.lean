import Corankco.Lemmas.SubTable
import Corankco.Props.C06d
/-
  C06 (part e, sub-problems): the sub-solvers of ParCons / the optimised exact algorithm work on the PROJECTED dataset
  `projectKeepAll D keep`, whose ids are re-numbered by first appearance. Its universe is the kept set, its cost table
  is the restriction of the table of `D` through the two numberings, and a global optimum of the projected dataset is
  optimal for the component in the table of `D` (the hypothesis `hopt` of `C06_flag_truthful`).
-/
namespace Corankco
open Model Spec

/-- the universe of the projected dataset is the kept part of the universe (as a set), when every kept element occurs
    in `D` -/
theorem C06_sub_universe (D : Dataset) (keep : List Elem) (hk : ∀ x ∈ keep, x ∈ univOf D) :
    ∀ x, x ∈ univOf (projectKeepAll D keep) ↔ x ∈ keep :=
  SubTable.mem_univOf_project D keep hk

set_option linter.unusedVariables false in
/-- the cost table of the projected dataset is the restriction of the table of `D`, through the two id numberings:
    for kept elements `x`, `y` with ids `i`, `j` in `D` and `i'`, `j'` in the projected dataset, entry `(i', j')` of the
    sub-table is entry `(i, j)` of the table (`hk` is not needed: `hi`, `hj` already say that `x`, `y` occur in `D`; of
    the validity of the scheme only `t0 = t1` and `t3 = t4` are used) -/
theorem C06_subtable (S : Scheme) (hS : S.Valid) (D : Dataset) (keep : List Elem) (hk : ∀ x ∈ keep, x ∈ univOf D)
    (x y : Elem) (hx : x ∈ keep) (hy : y ∈ keep) (i j i' j' : Nat)
    (hi : indexOf? x (univOf D) = some i) (hj : indexOf? y (univOf D) = some j)
    (hi' : indexOf? x (univOf (projectKeepAll D keep)) = some i')
    (hj' : indexOf? y (univOf (projectKeepAll D keep)) = some j') :
    (costMatrix S (getPositions (projectKeepAll D keep))).get i' j' = (costMatrix S (getPositions D)).get i j :=
  SubTable.subtable_get S hS.2.2.2.2.2.2.2.2.2.2.2.2.2.2.2.1 hS.2.2.2.2.2.2.2.2.2.2.2.2.2.2.2.2.2 D keep x y hx hy
    i j i' j' hi hj hi' hj'

set_option linter.unusedVariables false in
/-- hence: a ranking of the kept elements that is a global optimum of the projected dataset is optimal for the
    component in the table of `D` (the hypothesis `hopt` of `C06_flag_truthful`), where the ranking is given over
    ELEMENTS (`c : Ranking`, a partition of `keep`) and read with either id numbering.
    Any key vector `w` on the big id space restricts to the key vector `w'[i'] := w[i]` on the small one, with
    `scoreVec t' w' = scoreIds t ids w` (`SubTable.scoreVec_restr`), and the restriction of `vecOf (univOf D) c` is
    `vecOf (univOf D') c`. (`hc` is not used: the transfer holds for any `c`.) -/
theorem C06_sub_optimal (S : Scheme) (hS : S.Valid) (D : Dataset) (keep : List Elem) (hkn : keep.Nodup)
    (hk : ∀ x ∈ keep, x ∈ univOf D) (c : Ranking) (hc : c.flatten.Perm keep)
    (hopt : Optimal (costMatrix S (getPositions (projectKeepAll D keep))) (univOf (projectKeepAll D keep)).length
              (vecOf (univOf (projectKeepAll D keep)) c)) :
    OptimalOn (costMatrix S (getPositions D)) (keep.filterMap fun x => indexOf? x (univOf D))
      (vecOf (univOf D) c) := by
  have h01 := hS.2.2.2.2.2.2.2.2.2.2.2.2.2.2.2.1
  have h34 := hS.2.2.2.2.2.2.2.2.2.2.2.2.2.2.2.2.2
  have hsub : ∀ x ∈ univOf (projectKeepAll D keep), x ∈ univOf D :=
    fun x hx => hk x ((SubTable.mem_univOf_project D keep hk x).mp hx)
  intro w _
  rw [← SubTable.scoreVec_restr S h01 h34 D keep hkn hk (vecOf (univOf D) c),
    ← SubTable.scoreVec_restr S h01 h34 D keep hkn hk w, SubTable.restr_vecOf _ _ hsub c]
  exact hopt.2 _ (SubTable.restr_length _ _ w)

/-- Non-vacuity / illustration: the example of the task (ranking `[[3]]` loses all its elements and is kept as an
    empty ranking; ids 0, 2 of `D` become ids 0, 1 of the projected dataset), and a dataset where the two numberings
    list the kept elements in opposite orders (`keep = [0, 2]`, ids `[1, 0]` in `D₂`, sub-universe `[2, 0]`). -/
example :
    let S : Scheme := ⟨0, 2, 1, 1, 3, 1, 2, 2, 0, 3, 3, 1⟩
    let D : Dataset := [[[0, 1], [2]], [[2], [0]], [[3]]]
    let D₂ : Dataset := [[[2], [0, 1]], [[0], [2]], [[3]]]
    S.Valid ∧ univOf D = [0, 1, 2, 3] ∧ projectKeepAll D [0, 2] = [[[0], [2]], [[2], [0]], []] ∧
      univOf (projectKeepAll D [0, 2]) = [0, 2] ∧
      ([0, 2].filterMap fun x => indexOf? x (univOf D)) = [0, 2] ∧
      (costMatrix S (getPositions (projectKeepAll D [0, 2]))).get 0 1 = (costMatrix S (getPositions D)).get 0 2 ∧
      univOf D₂ = [2, 0, 1, 3] ∧ univOf (projectKeepAll D₂ [0, 2]) = [2, 0] ∧
      ([0, 2].filterMap fun x => indexOf? x (univOf D₂)) = [1, 0] ∧
      vecOf (univOf D₂) [[0], [2]] = [1, 0, -1, -1] ∧ vecOf (univOf (projectKeepAll D₂ [0, 2])) [[0], [2]] = [1, 0] := by
  decide

end Corankco
