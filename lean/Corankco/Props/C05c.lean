import Corankco.Props.C05a
import Corankco.Props.C05b
/-
  C05 (part c, composition): the CPLEX models — with or without the no-tie pruning rows an optimal feasible point
  decodes to a global optimum; without pruning rows the optimal feasible points are exactly those decoding to an
  optimal ranking.
-/
namespace Corankco
open Model Spec

namespace C05c

theorem feasible_cplex_iff (t : Table) (a : Asg) (n : Nat) (θ : Int) (active : Bool) :
    feasible a n (rowsCplex t n θ active) = true ↔
      feasible a n (binaryRows n ++ transRows n) = true ∧
        (cplexPruneRows t n θ active).all (satisfies a) = true := by
  unfold feasible rowsCplex
  rw [List.all_append (xs := binaryRows n ++ transRows n)]
  simp only [Bool.and_eq_true]
  constructor
  · rintro ⟨h1, h2, h3⟩; exact ⟨⟨h1, h2⟩, h3⟩
  · rintro ⟨⟨h1, h2⟩, h3⟩; exact ⟨h1, h2, h3⟩

theorem cplexPrune_false (t : Table) (n : Nat) (θ : Int) : cplexPruneRows t n θ false = [] := by
  simp [cplexPruneRows]

theorem feasible_cplex_false_iff (t : Table) (a : Asg) (n : Nat) (θ : Int) :
    feasible a n (rowsCplex t n θ false) = true ↔ feasible a n (binaryRows n ++ transRows n) = true := by
  rw [feasible_cplex_iff, cplexPrune_false]; simp

/-- a tie-free ranking satisfies the no-tie rows -/
theorem cplexPrune_asgOfVec (t : Table) (n : Nat) (θ : Int) (active : Bool) (v : List Int)
    (hne : ∀ i j, i < n → j < n → i ≠ j → v.getD i 0 ≠ v.getD j 0) :
    (cplexPruneRows t n θ active).all (satisfies (asgOfVec v)) = true := by
  unfold cplexPruneRows
  split
  · rw [List.all_map, List.all_eq_true, Exact.forall_ltPairs]
    intro i j hij hj
    have := hne i j (by omega) hj (by omega)
    simp only [Function.comp_def, satisfies, evalLin, asgOfVec, List.map_cons, List.map_nil, isum, if_neg this]; decide
  · rfl

end C05c

/-- CPLEX models (non-optimised, optimised sub-problems, paper-optim1): with or without the no-tie rows, an optimal
    feasible point of the rows the model builds decodes to a global optimum -/
theorem C05_optimal_cplex (t : Table) (n : Nat) (hn : 0 < n) (hm : MirrorT t n) (active : Bool) (a : Asg)
    (hf : feasible a n (rowsCplex t n 0 active) = true)
    (hmin : ∀ b : Asg, feasible b n (rowsCplex t n 0 active) = true →
        evalLin a (objective t n) ≤ evalLin b (objective t n)) :
    Optimal t n ((vecOfIds n (decode a n)).map fun k => Int.ofNat k) := by
  have hbase := ((C05c.feasible_cplex_iff t a n 0 active).mp hf).1
  by_cases hp : (active && noTieOK t n 0) = true
  · -- the no-tie rows are present: some optimum is tie-free and satisfies them
    have hnt : noTieOK t n 0 = true := by
      cases active <;> simp_all
    obtain ⟨v', hopt, hne⟩ := C05_prune_noties t n hm hnt
    have hv'f : feasible (asgOfVec v') n (rowsCplex t n 0 active) = true :=
      (C05c.feasible_cplex_iff t _ n 0 active).mpr
        ⟨C05_asg_feasible n v' hopt.1, C05c.cplexPrune_asgOfVec t n 0 active v' hne⟩
    refine ⟨by simp [vecOfIds], ?_⟩
    intro w hw
    rw [← C05_objective_decode t n hn hm a hbase]
    have h1 := hmin _ hv'f
    rw [C05_objective t n hm v' hopt.1] at h1
    exact Int.le_trans h1 (hopt.2 w hw)
  · -- no pruning rows: the plain model
    have hrows : cplexPruneRows t n 0 active = [] := by
      unfold cplexPruneRows; rw [if_neg hp]
    apply C05_optimal t n hn hm a hbase
    intro b hb
    apply hmin b
    rw [C05c.feasible_cplex_iff, hrows]
    exact ⟨hb, rfl⟩

/-- all optima (non-optimised model, no pruning rows): a feasible point is optimal iff it decodes to an optimal ranking -/
theorem C05_all_iff (t : Table) (n : Nat) (hn : 0 < n) (hm : MirrorT t n) (a : Asg)
    (hf : feasible a n (rowsCplex t n 0 false) = true) :
    (∀ b : Asg, feasible b n (rowsCplex t n 0 false) = true → evalLin a (objective t n) ≤ evalLin b (objective t n))
      ↔ Optimal t n ((vecOfIds n (decode a n)).map fun k => Int.ofNat k) := by
  constructor
  · intro hmin
    exact C05_optimal_cplex t n hn hm false a hf hmin
  · intro hopt b hb
    have hfa := (C05c.feasible_cplex_false_iff t a n 0).mp hf
    have hfb := (C05c.feasible_cplex_false_iff t b n 0).mp hb
    rw [C05_objective_decode t n hn hm a hfa, ((Exact.feasible_iff b n).mp hfb).objective_eq t hm]
    exact hopt.2 _ (Exact.cvec_length b n)

end Corankco
