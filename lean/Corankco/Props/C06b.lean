import Corankco.Lemmas.PartLoop
/-
  C06 — ParCons: bookkeeping of the component loop (helper lemmas live in Lemmas/PartLoop.lean).
-/
namespace Corankco
open Model Spec PartLoop

/-- ParCons bookkeeping: the reported weak partition is the list of components, and the necessarily-optimal mark is
    set exactly when no component was delegated to the auxiliary heuristic -/
theorem C06_flag (t : Table) (comps : List (List Nat)) (bound : Nat) (exact aux : List Nat → List (List Nat)) :
    (parCons t comps bound exact aux).partition = comps ∧
    (parCons t comps bound exact aux).optimal =
      !(comps.any fun c => !canBeAllTied c t && decide (c.length > bound)) := by
  obtain ⟨h1, h2, _⟩ := parCons_foldl t bound exact aux comps { consensus := [], optimal := true, partition := [] }
  rw [parCons_eq_foldl]
  exact ⟨by simpa using h1, by simpa using h2⟩

/-- the consensus is the concatenation, component by component, of: the component itself as one bucket when it can be
    all tied, else the sub-solver's ranking of it -/
theorem C06_consensus (t : Table) (comps : List (List Nat)) (bound : Nat) (exact aux : List Nat → List (List Nat)) :
    (parCons t comps bound exact aux).consensus =
      comps.flatMap fun c => if canBeAllTied c t then [c] else if c.length > bound then aux c else exact c := by
  obtain ⟨_, _, h3⟩ := parCons_foldl t bound exact aux comps { consensus := [], optimal := true, partition := [] }
  rw [parCons_eq_foldl]
  simpa using h3

end Corankco
