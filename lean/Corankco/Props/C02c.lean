import Corankco.Props.C02b
import Corankco.Props.C13c
/-
  C02c — the pairwise cost table is unchanged by an injective renaming of the elements (the first-appearance numbering
  is carried over by the renaming, so entry `(i, j)` stays entry `(i, j)`).
-/
namespace Corankco
open Model Spec

theorem C02_tied_rename {f : Elem → Elem} (hf : Function.Injective f) (S : Scheme) (D : Dataset) (x y : Elem) :
    Spec.tied S (D.map fun r => r.map fun b => b.map f) (f x) (f y) = Spec.tied S D x y := by
  unfold Spec.tied
  rw [List.map_map]
  congr 1
  apply List.map_congr_left
  intro r _
  simp only [Function.comp, Invariance.status_rename hf]

theorem C02_rename (S : Scheme) (hS : S.Valid) (D : Dataset) (f : Elem → Elem) (hf : Function.Injective f)
    (i j : Nat) (hi : i < (univOf D).length) (hj : j < (univOf D).length) :
    (costMatrix S (getPositions (D.map fun r => r.map fun b => b.map f))).get i j =
      (costMatrix S (getPositions D)).get i j := by
  have hl : (univOf (D.map fun r => r.map fun b => b.map f)).length = (univOf D).length := by
    rw [Invariance.univOf_rename hf, List.length_map]
  have hi' : i < (univOf (D.map fun r => r.map fun b => b.map f)).length := hl ▸ hi
  have hj' : j < (univOf (D.map fun r => r.map fun b => b.map f)).length := hl ▸ hj
  have ei : (univOf (D.map fun r => r.map fun b => b.map f))[i] = f (univOf D)[i] := by
    simp [Invariance.univOf_rename hf]
  have ej : (univOf (D.map fun r => r.map fun b => b.map f))[j] = f (univOf D)[j] := by
    simp [Invariance.univOf_rename hf]
  rw [C02_def S hS D, C02_def S hS _, specTable_get S D i j hi hj, specTable_get S _ i j hi' hj', ei, ej,
    C13_before_rename hf, C13_after_rename hf, C02_tied_rename hf]
  simp only [hf.eq_iff]

end Corankco

namespace Corankco
open Model Spec

/-- … hence the whole table — the only view of the dataset that Copeland, KwikSort's graph, ParCons, ParFront and the
    exact models take — is the same table: every id-level result of those algorithms is unchanged by the renaming. -/
theorem C02_rename_table (S : Scheme) (hS : S.Valid) (D : Dataset) (f : Elem → Elem) (hf : Function.Injective f) :
    costMatrix S (getPositions (D.map fun r => r.map fun b => b.map f)) = costMatrix S (getPositions D) := by
  rw [C02_def S hS D, C02_def S hS _]
  unfold Spec.specTable
  rw [Invariance.univOf_rename hf, List.map_map]
  apply List.map_congr_left
  intro x _
  simp only [Function.comp, List.map_map]
  apply List.map_congr_left
  intro y _
  simp only [Function.comp, hf.eq_iff, C13_before_rename hf, C13_after_rename hf, C02_tied_rename hf]

end Corankco
