import Corankco.Lemmas.C17
/-
  C17 — dataset equality (`Counter(a) == Counter(b)` over rankings seen as tuples of frozensets) is equality of the
  multisets of rankings: an equivalence, irrespective of the order of the rankings and of the iteration order of the
  bucket members, and sensitive to multiplicities. Helper lemmas live in Lemmas/C17.lean
  (core: `multisetEq a b = true ↔ ∀ r, cnt r a = cnt r b`).
-/
namespace Corankco
open Model

/-- ranking equality is an equivalence -/
theorem C17_ranking_equiv :
    (∀ r : NRanking, sameRankingN r r = true) ∧
    (∀ r q : NRanking, sameRankingN r q = sameRankingN q r) ∧
    (∀ r q s : NRanking, sameRankingN r q = true → sameRankingN q s = true → sameRankingN r s = true) :=
  ⟨C17.sameRankingN_refl, C17.sameRankingN_comm, fun _ _ _ h1 h2 => C17.sameRankingN_trans h1 h2⟩

/-- dataset equality means: same rankings with the same multiplicities — there is a reordering of `b` that matches `a`
    ranking by ranking -/
theorem C17_iff (a b : List NRanking) :
    multisetEq a b = true ↔
      ∃ b' : List NRanking, b'.Perm b ∧ List.Forall₂ (fun r q => sameRankingN r q = true) a b' := by
  constructor
  · exact C17.multisetEq_matching
  · rintro ⟨b', hp, hf⟩
    rw [C17.multisetEq_iff_cnt]
    intro r
    rw [C17.cnt_forall₂ hf r, C17.cnt_perm hp r]

theorem C17_refl (a : List NRanking) : multisetEq a a = true :=
  (C17.multisetEq_iff_cnt a a).2 fun _ => rfl

theorem C17_symm (a b : List NRanking) : multisetEq a b = multisetEq b a := by
  rw [Bool.eq_iff_iff, C17.multisetEq_iff_cnt, C17.multisetEq_iff_cnt]
  exact ⟨fun h r => (h r).symm, fun h r => (h r).symm⟩

theorem C17_trans (a b c : List NRanking) (h1 : multisetEq a b = true) (h2 : multisetEq b c = true) :
    multisetEq a c = true := by
  rw [C17.multisetEq_iff_cnt] at *
  exact fun r => (h1 r).trans (h2 r)

/-- irrespective of the order of the rankings -/
theorem C17_perm_rankings (a b : List NRanking) (h : a.Perm b) : multisetEq a b = true :=
  (C17.multisetEq_iff_cnt a b).2 fun r => C17.cnt_perm h r

/-- irrespective of the order in which bucket members were inserted / are iterated -/
theorem C17_perm_members (a b : List NRanking)
    (h : List.Forall₂ (fun r q => List.Forall₂ (fun x y => x.Perm y) r q) a b) : multisetEq a b = true := by
  rw [C17.multisetEq_iff_cnt]
  intro r
  apply C17.cnt_forall₂
  induction h with
  | nil => exact List.Forall₂.nil
  | cons hrq _ ih => exact List.Forall₂.cons (C17.sameRankingN_of_perm_members hrq) ih

/-- near misses are unequal: different number of rankings, or a ranking of `a` without an equal in `b` -/
theorem C17_length (a b : List NRanking) (h : multisetEq a b = true) : a.length = b.length := by
  obtain ⟨b', hp, hf⟩ := C17.multisetEq_matching h
  rw [← hp.length_eq]
  exact C17.forall₂_length hf

theorem C17_member (a b : List NRanking) (h : multisetEq a b = true) (r : NRanking) (hr : r ∈ a) :
    ∃ q ∈ b, sameRankingN r q = true := by
  rw [← C17.cnt_pos_iff, ← (C17.multisetEq_iff_cnt a b).1 h r, C17.cnt_pos_iff]
  exact ⟨r, hr, C17.sameRankingN_refl r⟩

/-- multiplicities matter -/
theorem C17_count (a b : List NRanking) (h : multisetEq a b = true) (r : NRanking) :
    (a.filter fun q => sameRankingN r q).length = (b.filter fun q => sameRankingN r q).length := by
  rw [← C17.cnt_eq_filter, ← C17.cnt_eq_filter]
  exact (C17.multisetEq_iff_cnt a b).1 h r

/-! ### instances -/

/-- `[[{0,8}]]` vs `[[{8,0}]]`: equal -/
example : multisetEq [[[.int 0, .int 8]]] [[[.int 8, .int 0]]] = true := by decide

/-- the rankings in another order, buckets iterated in another order: equal -/
example : multisetEq [[[.int 0, .int 8], [.int 3]], [[.int 3], [.int 8]]]
    [[[.int 3], [.int 8]], [[.int 8, .int 0], [.int 3]]] = true := by decide

/-- one element moved to the other bucket: unequal -/
example : multisetEq [[[.int 0, .int 8], [.int 3]]] [[[.int 0], [.int 8, .int 3]]] = false := by decide

/-- the buckets of a ranking in another order: unequal -/
example : multisetEq [[[.int 0], [.int 8]]] [[[.int 8], [.int 0]]] = false := by decide

/-- one multiplicity changed (same set of distinct rankings, same number of rankings): unequal -/
example : multisetEq [[[.int 0], [.int 8]], [[.int 0], [.int 8]], [[.int 8], [.int 0]]]
    [[[.int 0], [.int 8]], [[.int 8], [.int 0]], [[.int 8], [.int 0]]] = false := by decide

/-- one ranking more: unequal -/
example : multisetEq [[[.int 0], [.int 8]]] [[[.int 0], [.int 8]], [[.int 0], [.int 8]]] = false := by decide

end Corankco
