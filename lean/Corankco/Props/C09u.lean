import Corankco.Props.C08u
/-
  C09 / C08 / C03 / C04 for BioConsert started from the consensus rankings of other algorithms, UNCONDITIONALLY
  (no hypothesis on the fuel or on the exit flags): instance of `C08_unconditional` for the departure rows
  `departuresStarters D starts`.
-/
namespace Corankco
open Model Spec

/-- every starter consensus is dominated by (indeed scores exactly as) its own departure row -/
theorem C09_starters_dominated (S : Scheme) (hS : S.Valid) (D : Dataset) (starts : List Ranking)
    (hw : ∀ c ∈ starts, wellFormedRanking (univOf D) c = true) :
    ∀ s ∈ starts, ∃ dep ∈ departuresStarters D starts,
      scoreVecN (costMatrix S (getPositions D)) dep ≤ Spec.kemeny S D s :=
  fun s hs => ⟨rowOf (univOf D) s, List.mem_map.mpr ⟨s, hs, rfl⟩,
    Int.le_of_eq (C09_score_rowOf S hS D s (hw s hs))⟩

/-- BioConsert started from the (well-formed) consensus rankings `starts ≠ []` of its starting algorithms, on ANY
    dataset: with enough fuel (an explicit bound exists, see `C09_starters_fuel`) the run returns at least one
    (exactly one if asked) well-formed ranking, each a local optimum, reports their true non-negative score, and is
    never worse than any of the starting consensuses.  No hypothesis on the input rankings is needed: only the
    starters' consensuses are read. -/
theorem C09_starters (S : Scheme) (hS : S.Valid) (D : Dataset) (starts : List Ranking) (hst : starts ≠ [])
    (hw : ∀ c ∈ starts, wellFormedRanking (univOf D) c = true) (amo : Bool) (τ : Int) (hτ : 0 ≤ τ) :
    ∃ fuel0, ∀ fuel, fuel0 ≤ fuel →
      let out := (bioConsertRun S D (departuresStarters D starts) amo τ fuel).1
      C03.holds D amo out.1 = true ∧ C08.holds S D τ out.1 = true ∧
      (∃ m, out.2 = some m ∧ C04.holds S D out.1 (some m) = true ∧ C09.holds S D out.1 m starts = true) :=
  C08_unconditional S hS D (departuresStarters D starts) (by simpa [departuresStarters] using hst)
    (C09_departuresStarters_dense D starts hw) amo τ hτ starts (C09_starters_dominated S hS D starts hw)

/-- the same with the explicit fuel bound -/
theorem C09_starters_fuel (S : Scheme) (hS : S.Valid) (D : Dataset) (starts : List Ranking) (hst : starts ≠ [])
    (hw : ∀ c ∈ starts, wellFormedRanking (univOf D) c = true) (amo : Bool) (τ : Int) (hτ : 0 ≤ τ) (fuel : Nat)
    (hf : ∀ r ∈ departuresStarters D starts, (scoreVecN (costMatrix S (getPositions D)) r -
        L4.lower (costMatrix S (getPositions D)) (univOf D).length).toNat + 1 ≤ fuel) :
    let out := (bioConsertRun S D (departuresStarters D starts) amo τ fuel).1
    C03.holds D amo out.1 = true ∧ C08.holds S D τ out.1 = true ∧
    (∃ m, out.2 = some m ∧ C04.holds S D out.1 (some m) = true ∧ C09.holds S D out.1 m starts = true) :=
  C08_unconditional_fuel S hS D (departuresStarters D starts) (by simpa [departuresStarters] using hst)
    (C09_departuresStarters_dense D starts hw) amo τ hτ starts (C09_starters_dominated S hS D starts hw) fuel hf

end Corankco
