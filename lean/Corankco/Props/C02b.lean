import Corankco.Props.C02
import Corankco.Model.Scheme
/-
  C02b — the pairwise cost table does not depend on the order of the input rankings: the entry of a pair of elements
  is the same in both tables, wherever the first-appearance numbering of the two datasets puts the pair.
-/
namespace Corankco
open Model Spec

theorem C02_tied_perm (S : Scheme) (D D' : Dataset) (hp : D.Perm D') (x y : Elem) :
    Spec.tied S D x y = Spec.tied S D' x y := by
  unfold Spec.tied; exact isum_map_perm _ hp

/-- Entry `(i, j)` of the table of `D` is entry `(i', j')` of the table of any permutation `D'` of `D` whenever the two
    index pairs name the same two elements. -/
theorem C02_perm (S : Scheme) (hS : S.Valid) (D D' : Dataset) (hp : D.Perm D') (i j i' j' : Nat)
    (hi : i < (univOf D).length) (hj : j < (univOf D).length)
    (hi' : i' < (univOf D').length) (hj' : j' < (univOf D').length)
    (hx : (univOf D)[i] = (univOf D')[i']) (hy : (univOf D)[j] = (univOf D')[j']) :
    (costMatrix S (getPositions D)).get i j = (costMatrix S (getPositions D')).get i' j' := by
  rw [C02_def S hS D, C02_def S hS D', specTable_get S D i j hi hj, specTable_get S D' i' j' hi' hj', ← hx, ← hy]
  have hb : Spec.before S D (univOf D)[i] (univOf D)[j] = Spec.before S D' (univOf D)[i] (univOf D)[j] := by
    unfold Spec.before; exact isum_map_perm _ hp
  have ha : Spec.after S D (univOf D)[i] (univOf D)[j] = Spec.after S D' (univOf D)[i] (univOf D)[j] := by
    unfold Spec.after; exact isum_map_perm _ hp
  rw [hb, ha, C02_tied_perm S D D' hp]

/-- Non-vacuity: the pair (0, 1) sits at (0, 1) in one numbering and at (1, 0) in the other. -/
example :
    Scheme.Valid Model.unifying ∧ univOf [[[0, 1], [2]], [[2], [0]], [[1], [0]]] = [0, 1, 2] ∧
      univOf [[[1], [0]], [[0, 1], [2]], [[2], [0]]] = [1, 0, 2] ∧
      (costMatrix Model.unifying (getPositions [[[0, 1], [2]], [[2], [0]], [[1], [0]]])).get 0 1 =
        (costMatrix Model.unifying (getPositions [[[1], [0]], [[0, 1], [2]], [[2], [0]]])).get 1 0 := by
  decide

end Corankco
