import Corankco.Props.C01
/-
  C04 — the score computed on demand (`Consensus.kemeny_score`) is the true score, and it is never negative.
-/
namespace Corankco
open Model

namespace C04

theorem isum_nonneg (l : List Int) (h : ∀ x ∈ l, 0 ≤ x) : 0 ≤ isum l := by
  induction l with
  | nil => simp [isum]
  | cons a l ih =>
    have h1 := h a (by simp)
    have h2 := ih (fun x hx => h x (by simp [hx]))
    simp only [isum]; omega

theorem B_nonneg (S : Scheme) (hS : S.Valid) (k : Nat) : 0 ≤ S.B k := by
  obtain ⟨h0, h1, h2, h3, h4, h5, _⟩ := hS
  unfold Scheme.B; split <;> first | assumption | exact Int.le_refl 0

theorem T_nonneg (S : Scheme) (hS : S.Valid) (k : Nat) : 0 ≤ S.T k := by
  obtain ⟨_, _, _, _, _, _, h0, h1, h2, h3, h4, h5, _⟩ := hS
  unfold Scheme.T; split <;> first | assumption | exact Int.le_refl 0

theorem pen_nonneg (S : Scheme) (hS : S.Valid) (r c : Ranking) (x y : Elem) : 0 ≤ Spec.pen S r c x y := by
  unfold Spec.pen
  split
  · split
    · exact B_nonneg S hS _
    · split
      · exact B_nonneg S hS _
      · exact T_nonneg S hS _
  · exact Int.le_refl 0

theorem kemenyOne_nonneg (S : Scheme) (hS : S.Valid) (c r : Ranking) : 0 ≤ Spec.kemenyOne S c r := by
  unfold Spec.kemenyOne
  apply isum_nonneg
  intro x hx
  obtain ⟨p, _, rfl⟩ := List.mem_map.1 hx
  exact pen_nonneg S hS r c p.1 p.2

end C04

/-- a Kemeny score is never negative under a valid scheme -/
theorem C04_nonneg (S : Scheme) (hS : S.Valid) (D : Dataset) (c : Ranking) : 0 ≤ Spec.kemeny S D c := by
  unfold Spec.kemeny
  apply C04.isum_nonneg
  intro x hx
  obtain ⟨r, _, rfl⟩ := List.mem_map.1 hx
  exact C04.kemenyOne_nonneg S hS c r

/-- the score computed on demand (Consensus.kemeny_score) is the true score of the first ranking -/
theorem C04_lazy (S : Scheme) (hS : S.Valid) (D : Dataset) (c : Ranking)
    (hc : c.flatten.Nodup) (hD : ∀ r ∈ D, r.flatten.Nodup) (hcov : Spec.covers c D = true) :
    Model.getScore S c D = .ok (Spec.kemeny S D c) ∧ 0 ≤ Spec.kemeny S D c :=
  ⟨C01_score S hS D c hc hD hcov, C04_nonneg S hS D c⟩

/-- Non-vacuity: the instance of C01 (ties, a missing element, candidate over a superset) -/
example : Model.getScore C01.exS C01.exC C01.exD = .ok (Spec.kemeny C01.exS C01.exD C01.exC) ∧
    0 ≤ Spec.kemeny C01.exS C01.exD C01.exC :=
  C04_lazy _ (by decide) _ _ (by decide) (by decide) (by decide)

end Corankco
