import Corankco.Lemmas.C20
/-
  C20 — property theorems on the random generators (helper lemmas live in Lemmas/C20.lean).
  All statements hold for every vector, element, drawn number and number of steps.
-/
namespace Corankco
open Model

/-- `Dense` (defined in Lemmas/C20.lean) unfolds to: entries are ≥ -1 and the used bucket ids are
    downward closed. -/
example (v : List Int) :
    Dense v ↔ ((∀ x ∈ v, -1 ≤ x) ∧ ∀ x ∈ v, ∀ b : Int, 0 ≤ b → b < x → b ∈ v) := Iff.rfl

/-- `Dense` coincides with the executable `Spec.denseB` the differential check evaluates. -/
theorem C20_dense_iff_denseB (v : List Int) : Dense v ↔ Spec.denseB v = true := dense_iff_denseB v

theorem C20_init_dense (n : Nat) : Dense ((List.range n).map fun (i : Nat) => Int.ofNat i) :=
  init_dense n

/-! each move preserves density and the length, for every ranked (resp. absent) element -/

theorem C20_addLeft_dense (v : List Int) (e : Nat) (he : e < v.length) (hr : 0 ≤ v.getD e 0)
    (h : Dense v) : Dense (addLeft v e) := addLeft_dense v e he hr h

theorem C20_addRight_dense (v : List Int) (e : Nat) (he : e < v.length) (hr : 0 ≤ v.getD e 0)
    (h : Dense v) : Dense (addRight v e) := addRight_dense v e he hr h

theorem C20_changeLeft_dense (v : List Int) (e : Nat) (he : e < v.length) (hr : 0 ≤ v.getD e 0)
    (h : Dense v) : Dense (changeLeft v e) := changeLeft_dense v e he hr h

theorem C20_changeRight_dense (v : List Int) (e : Nat) (he : e < v.length) (hr : 0 ≤ v.getD e 0)
    (h : Dense v) : Dense (changeRight v e) := changeRight_dense v e he hr h

theorem C20_removeElem_dense (v : List Int) (e : Nat) (he : e < v.length) (hr : 0 ≤ v.getD e 0)
    (h : Dense v) : Dense (removeElem v e) := removeElem_dense v e he hr h

theorem C20_putFirst_dense (v : List Int) (e : Nat) (he : e < v.length) (hm : v.getD e 0 = -1)
    (h : Dense v) : Dense (putFirst v e) := putFirst_dense v e he hm h

/-- every move keeps the length (no hypothesis at all) -/
theorem C20_moves_length (v : List Int) (e : Nat) :
    (addLeft v e).length = v.length ∧ (addRight v e).length = v.length ∧
    (changeLeft v e).length = v.length ∧ (changeRight v e).length = v.length ∧
    (removeElem v e).length = v.length ∧ (putFirst v e).length = v.length :=
  ⟨addLeft_length v e, addRight_length v e, changeLeft_length v e, changeRight_length v e,
    removeElem_length v e, putFirst_length v e⟩

/-- one step, every drawn element and every drawn number -/
theorem C20_step_dense (complete : Bool) (v : List Int) (e alea : Nat) (he : e < v.length) (h : Dense v)
    (hc : complete = true → ∀ x ∈ v, 0 ≤ x) :
    Dense (if complete then stepComplete v e alea else stepIncomplete v e alea) :=
  step_dense complete v e alea he h hc

/-- every walk (every sequence of draws) -/
theorem C20_walk_dense (complete : Bool) (v : List Int) (draws : List (Nat × Nat))
    (hd : ∀ d ∈ draws, d.1 < v.length) (h : Dense v) (hc : complete = true → ∀ x ∈ v, 0 ≤ x) :
    Dense (walk complete v draws) ∧ (walk complete v draws).length = v.length ∧
    (complete = true → ∀ x ∈ walk complete v draws, 0 ≤ x) :=
  walk_dense complete draws v hd h hc

/-- conversion of a dense vector: non-empty pairwise-disjoint buckets over exactly the ranked elements -/
theorem C20_convert (v : List Int) (h : Dense v) (r : Ranking) (hr : toRanking v = some r) :
    Spec.validRanking v.length r = true ∧ ∀ e, e ∈ r.flatten ↔ (e < v.length ∧ 0 ≤ v.getD e 0) :=
  convert v h r hr

theorem C20_convert_none (v : List Int) (h : Dense v) : toRanking v = none ↔ ∀ x ∈ v, x = -1 :=
  convert_none v h

/-- the generator: whatever is drawn, the delivered rankings are valid; in complete mode there are exactly
    as many rankings as requested and each contains all n elements -/
theorem C20_generate (n : Nat) (hn : 0 < n) (complete : Bool) (draws : List (List (Nat × Nat)))
    (hd : ∀ ds ∈ draws, ∀ d ∈ ds, d.1 < n) :
    Spec.C20.holds n draws.length complete (generate n complete draws) = true :=
  generate_holds n hn complete draws hd

/-! ### non-vacuity

  `[0, 0, 1, -1, 1, 2]`: element 3 absent, buckets {0,1}, {2,4}, {5}. -/

example : Dense [0, 0, 1, -1, 1, 2] := by decide
example : ¬ Dense [0, 2] := by decide
example : ¬ Dense [0, -2] := by decide
example : ¬ Dense [1, 1, 2] := by decide

/-- hypotheses of the five "ranked element" move theorems are jointly satisfiable (element 0, in a
    two-element bucket; element 5, alone in its bucket) -/
example : ∃ (v : List Int) (e : Nat), e < v.length ∧ 0 ≤ v.getD e 0 ∧ Dense v ∧ cnt v (v.getD e 0) > 1 :=
  ⟨[0, 0, 1, -1, 1, 2], 0, by decide, by decide, by decide, by decide⟩
example : ∃ (v : List Int) (e : Nat), e < v.length ∧ 0 ≤ v.getD e 0 ∧ Dense v ∧ cnt v (v.getD e 0) = 1 :=
  ⟨[0, 0, 1, -1, 1, 2], 5, by decide, by decide, by decide, by decide⟩
/-- hypotheses of `C20_putFirst_dense` -/
example : ∃ (v : List Int) (e : Nat), e < v.length ∧ v.getD e 0 = -1 ∧ Dense v :=
  ⟨[0, 0, 1, -1, 1, 2], 3, by decide, by decide, by decide⟩

/-- and the moves really move on it (the conclusions are not about an unchanged vector) -/
example : addLeft [0, 0, 1, -1, 1, 2] 0 = [0, 1, 2, -1, 2, 3] := by decide
example : addRight [0, 0, 0, -1, 1, 2] 0 = [1, 0, 0, -1, 2, 3] := by decide
example : changeLeft [0, 0, 1, -1, 1, 2] 5 = [0, 0, 1, -1, 1, 1] := by decide
example : changeLeft [0, 0, 1, -1, 1, 2] 2 = [0, 0, 0, -1, 1, 2] := by decide
example : changeRight [0, 0, 1, -1, 1, 2] 0 = [1, 0, 1, -1, 1, 2] := by decide
example : changeRight [0, 1, 1, -1, 2, 2] 0 = [0, 0, 0, -1, 1, 1] := by decide
example : removeElem [0, 0, 1, -1, 1, 2] 5 = [0, 0, 1, -1, 1, -1] := by decide
example : removeElem [0, 1, 1, -1, 2, 2] 0 = [-1, 0, 0, -1, 1, 1] := by decide
example : putFirst [0, 0, 1, -1, 1, 2] 3 = [1, 1, 2, 0, 2, 3] := by decide

/-- hypotheses of `C20_step_dense` / `C20_walk_dense`, both modes -/
example : ∃ (v : List Int) (draws : List (Nat × Nat)), (∀ d ∈ draws, d.1 < v.length) ∧ Dense v ∧
    ((false : Bool) = true → ∀ x ∈ v, 0 ≤ x) ∧ walk false v draws ≠ v :=
  ⟨[0, 0, 1, -1, 1, 2], [(0, 1), (3, 5), (5, 5)], by decide, by decide, by decide, by decide⟩
example : ∃ (v : List Int) (draws : List (Nat × Nat)), (∀ d ∈ draws, d.1 < v.length) ∧ Dense v ∧
    ((true : Bool) = true → ∀ x ∈ v, 0 ≤ x) ∧ walk true v draws ≠ v :=
  ⟨[0, 0, 1, 1, 2], [(0, 1), (3, 4), (4, 3)], by decide, by decide, by decide, by decide⟩

/-- hypotheses of `C20_convert` and both sides of `C20_convert_none` -/
example : toRanking [0, 0, 1, -1, 1, 2] = some [[0, 1], [2, 4], [5]] := by decide
example : Dense [-1, -1] ∧ toRanking [-1, -1] = none := ⟨by decide, by decide⟩
example : Dense [] ∧ toRanking [] = none := ⟨by decide, by decide⟩

/-- `C20_generate`: a request on which something is generated, both modes -/
example : generate 3 true [[(0, 3)], [(1, 3), (2, 3)]] = [[[0], [1], [2]], [[0, 1, 2]]] := by decide
example : generate 2 false [[(0, 5), (1, 5)], [(1, 5)]] = [[[0]]] := by decide

end Corankco
