import Corankco.Lemmas.BioSweep
/-
  C08 — BioConsert stops at a local optimum: property theorems (helper lemmas live in
  Lemmas/BioDelta.lean, BioSearch.lean, BioMove.lean, BioSweep.lean).  No bound on the sizes.
-/
namespace Corankco
open Model Spec

/-! ### re-exports of the building blocks -/

/-- the cumulative value read from `change` for an existing bucket `j ≠ b` is the score difference of the move -/
theorem C08_delta_change (t : Table) (r : List Nat) (hm : MirrorT t r.length) (hd : DenseN r)
    (x : Nat) (hx : x < r.length) (j : Nat) (hj : j ≤ r.foldl max 0) (hjb : j ≠ r.getD x 0) :
    changeTo (computeDelta t r x).1 (r.getD x 0) j =
      scoreVec t (moveKeys r x (2 * (Int.ofNat j) + 1)) - scoreVecN t r :=
  bio_delta_change_dense t r hm hd x hx j hj hjb

/-- same for `add` and a new singleton bucket just before old bucket `p` -/
theorem C08_delta_add (t : Table) (r : List Nat) (hm : MirrorT t r.length) (hd : DenseN r)
    (x : Nat) (hx : x < r.length) (p : Nat) (hp : p ≤ r.foldl max 0 + 1) :
    addTo (computeDelta t r x).2.1 (r.getD x 0) p =
      scoreVec t (moveKeys r x (2 * (Int.ofNat p))) - scoreVecN t r :=
  bio_delta_add_dense t r hm hd x hx p hp

/-- the two searches are sound and complete: a reported target is admissible, its cell holds the cumulative
    delta, which is `< -τ`; no target means every admissible target has a cumulative delta `≥ -τ`. -/
theorem C08_search_complete (τ : Int) (hτ : 0 ≤ τ) (b maxId : Nat) (hb : b ≤ maxId) (change add : List Int)
    (hlc : maxId + 1 < change.length) (h0 : change.getD b 0 = 0) (hla : maxId + 2 < add.length) :
    (∀ to change', searchChange τ b change maxId = (some to, change') →
      to ≤ maxId ∧ to ≠ b ∧ change'.getD to 0 = changeTo change b to ∧ changeTo change b to < -τ) ∧
    (∀ change', searchChange τ b change maxId = (none, change') →
      ∀ j, j ≤ maxId → j ≠ b → -τ ≤ changeTo change b j) ∧
    (∀ to add', searchAdd τ b add maxId = (some to, add') →
      to ≤ maxId + 1 ∧ add'.getD to 0 = addTo add b to ∧ addTo add b to < -τ) ∧
    (∀ add', searchAdd τ b add maxId = (none, add') → ∀ p, p ≤ maxId + 1 → -τ ≤ addTo add b p) :=
  ⟨fun to c' h => bio_searchChange_some τ hτ b maxId hb change hlc h0 to c' h,
   fun c' h => bio_searchChange_none τ hτ b maxId hb change hlc h0 c' h,
   fun to a' h => bio_searchAdd_some τ b maxId hb add hla to a' h,
   fun a' h => bio_searchAdd_none τ b maxId hb add hla a' h⟩

/-- the two moves: the result is dense, has the same length, orders the elements as the key vector of the move
    does, and its maximum is the updated `max_id_bucket`. -/
theorem C08_moves (r : List Nat) (hd : DenseN r) (x : Nat) (hx : x < r.length) (alone : Bool)
    (ha : alone = true ↔ AloneAt r x) :
    (∀ j, j ≤ r.foldl max 0 → j ≠ r.getD x 0 →
      let r' := changeBucket r x (r.getD x 0) j alone
      DenseN r' ∧ r'.length = r.length ∧
      (∀ i k, i < r.length → k < r.length →
        compare (r'.getD i 0) (r'.getD k 0) =
          compare ((moveKeys r x (2 * (Int.ofNat j) + 1)).getD i 0)
            ((moveKeys r x (2 * (Int.ofNat j) + 1)).getD k 0)) ∧
      r'.foldl max 0 = (if alone then r.foldl max 0 - 1 else r.foldl max 0)) ∧
    (∀ p, p ≤ r.foldl max 0 + 1 →
      let r' := addBucket r x (r.getD x 0) p alone
      DenseN r' ∧ r'.length = r.length ∧
      (∀ i k, i < r.length → k < r.length →
        compare (r'.getD i 0) (r'.getD k 0) =
          compare ((moveKeys r x (2 * (Int.ofNat p))).getD i 0) ((moveKeys r x (2 * (Int.ofNat p))).getD k 0)) ∧
      r'.foldl max 0 = (if alone then r.foldl max 0 else r.foldl max 0 + 1)) :=
  ⟨fun j hj hjb => bio_changeBucket r hd x hx j hj hjb alone ha,
   fun p hp => bio_addBucket r hd x hx p hp alone ha⟩

/-! ### one step, one sweep, one departure ranking -/

/-- one step of a sweep preserves: density, length, maxId = max r, and the running delta tracks the score;
    every accepted move strictly decreases the score by more than τ -/
theorem C08_sweepStep_inv (t : Table) (τ : Int) (hτ : 0 ≤ τ) (st : SweepSt) (x : Nat)
    (hm : MirrorT t st.r.length) (hd : DenseN st.r) (hx : x < st.r.length) (hmax : st.maxId = st.r.foldl max 0) :
    let st' := sweepStep t τ st x
    DenseN st'.r ∧ st'.r.length = st.r.length ∧ st'.maxId = st'.r.foldl max 0 ∧
    scoreVecN t st'.r - scoreVecN t st.r = st'.delta - st.delta ∧
    (st'.r ≠ st.r → st'.delta - st.delta < -τ) ∧
    (st'.moved = st.moved ∨ st'.moved = true) ∧
    (st'.r = st.r ∧ st'.delta = st.delta ∧ st'.moved = st.moved ∨ st'.moved = true) := by
  intro st'
  rcases BioSM.sweepStep_spec t τ hτ st x hm hd hx hmax with ⟨e, _⟩ | ⟨s1, s2, s3, s4, s5, s6⟩
  · have e' : st' = st := e
    rw [e']
    exact ⟨hd, rfl, hmax, by omega, fun h => absurd rfl h, Or.inl rfl, Or.inl ⟨rfl, rfl, rfl⟩⟩
  · exact ⟨s2, s3, s4, s5, fun _ => s6, Or.inr s1, Or.inr s1⟩

/-- if a step makes no move then no single-element move of x improves by more than τ -/
theorem C08_sweepStep_nomove (t : Table) (τ : Int) (hτ : 0 ≤ τ) (st : SweepSt) (x : Nat)
    (hm : MirrorT t st.r.length) (hd : DenseN st.r) (hx : x < st.r.length) (hmax : st.maxId = st.r.foldl max 0)
    (hno : (sweepStep t τ { st with moved := false } x).moved = false) :
    (∀ j, j ≤ st.r.foldl max 0 → j ≠ st.r.getD x 0 →
        scoreVecN t st.r - τ ≤ scoreVec t (moveKeys st.r x (2 * (Int.ofNat j) + 1))) ∧
    (∀ p, p ≤ st.r.foldl max 0 + 1 →
        scoreVecN t st.r - τ ≤ scoreVec t (moveKeys st.r x (2 * (Int.ofNat p)))) := by
  rcases BioSM.sweepStep_spec t τ hτ { st with moved := false } x hm hd hx hmax with ⟨_, hn⟩ | ⟨s1, _⟩
  · exact hn
  · rw [s1] at hno; cases hno

/-- C08 for one departure ranking: when the loop exits normally the final vector is dense, a local optimum, its
    score is the initial score plus the returned delta, and the delta is ≤ 0 (C09: never worse than the start) -/
theorem C08_improveOne (t : Table) (τ : Int) (hτ : 0 ≤ τ) (fuel : Nat) (r : List Nat)
    (hm : MirrorT t r.length) (hd : DenseN r) (r' : List Nat) (d : Int)
    (h : improveOne t τ fuel r = (r', d, true)) :
    DenseN r' ∧ r'.length = r.length ∧ localOptVec t τ r' = true ∧
    scoreVecN t r' = scoreVecN t r + d ∧ d ≤ 0 := by
  obtain ⟨h1, h2, h3, h4, h5⟩ := BioSM.improveLoop_spec t τ hτ fuel r (r.foldl max 0) 0 hm hd rfl r' d h
  exact ⟨h1, h2, h3, by omega, h5⟩

/-- the initial score computed by the driver loop is the score of the departure vector -/
theorem C04_dstInit (t : Table) (r : List Nat) : dstInit t r = scoreVecN t r := BioSM.dstInit_eq t r

/-- the whole loop: every result flagged `true` is a dense local optimum whose recorded score is its true score and
    is at most the score of its departure ranking -/
theorem C08_bioConsertLoop (t : Table) (τ : Int) (hτ : 0 ≤ τ) (fuel : Nat) (deps : List (List Nat))
    (n : Nat) (hm : MirrorT t n) (hdeps : ∀ r ∈ deps, DenseN r ∧ r.length = n) :
    let res := bioConsertLoop t τ fuel deps
    res.length = deps.length ∧
    ∀ i, i < deps.length → (res.getD i ([], 0, false)).2.2 = true →
      let ri := res.getD i ([], 0, false)
      DenseN ri.1 ∧ ri.1.length = n ∧ localOptVec t τ ri.1 = true ∧
      ri.2.1 = scoreVecN t ri.1 ∧ ri.2.1 ≤ scoreVecN t (deps.getD i []) := by
  intro res
  refine ⟨by simp [res, bioConsertLoop], ?_⟩
  intro i hi
  have e : res.getD i ([], 0, false) =
      ((improveOne t τ fuel deps[i]).1, dstInit t deps[i] + (improveOne t τ fuel deps[i]).2.1,
        (improveOne t τ fuel deps[i]).2.2) := by
    simp only [res, bioConsertLoop]
    rw [getD_map_of_lt _ _ _ _ hi]
  rw [e, getD_of_lt _ _ _ hi]
  intro hflag
  simp only at hflag ⊢
  obtain ⟨hdi, hli⟩ := hdeps deps[i] (List.getElem_mem hi)
  have himp : improveOne t τ fuel deps[i] =
      ((improveOne t τ fuel deps[i]).1, (improveOne t τ fuel deps[i]).2.1, true) := by
    rw [← hflag]
  obtain ⟨h1, h2, h3, h4, h5⟩ := C08_improveOne t τ hτ fuel deps[i] (by rw [hli]; exact hm) hdi _ _ himp
  rw [C04_dstInit]
  exact ⟨h1, by omega, h3, by omega, by omega⟩

/-- decoding a dense vector gives a well-formed ranking over the universe whose row is the vector
    (`_hne` is not needed) -/
theorem C03_decodeVec (univ : List Elem) (hu : univ.Nodup) (v : List Nat) (hv : DenseN v) (hl : v.length = univ.length)
    (_hne : univ ≠ []) :
    wellFormedRanking univ (decodeVec univ v) = true ∧ rowOf univ (decodeVec univ v) = v :=
  BioSM.decodeVec_spec univ hu v hv hl

/-! ### the whole algorithm on a dataset -/

/-- every result of the run on a dataset, when all loops exited normally: a dense local optimum of the right
    length whose recorded score is its score. -/
theorem C08_run_results (S : Scheme) (D : Dataset) (deps : List (List Nat)) (amo : Bool) (τ : Int) (hτ : 0 ≤ τ)
    (fuel : Nat) (hdeps : ∀ r ∈ deps, DenseN r ∧ r.length = (univOf D).length)
    (hflag : ∀ r ∈ (bioConsertRun S D deps amo τ fuel).2, r.2.2 = true) :
    ∀ r ∈ (bioConsertRun S D deps amo τ fuel).2,
      DenseN r.1 ∧ r.1.length = (univOf D).length ∧
      localOptVec (costMatrix S (getPositions D)) τ r.1 = true ∧
      r.2.1 = scoreVecN (costMatrix S (getPositions D)) r.1 := by
  intro r hr
  obtain ⟨hlen, hall⟩ := C08_bioConsertLoop (costMatrix S (getPositions D)) τ hτ fuel deps (univOf D).length
    (BioSM.mirror_costMatrix S D) hdeps
  have hr' : r ∈ bioConsertLoop (costMatrix S (getPositions D)) τ fuel deps := hr
  obtain ⟨i, hi, e⟩ := List.mem_iff_getElem.mp hr'
  have hgd : (bioConsertLoop (costMatrix S (getPositions D)) τ fuel deps).getD i ([], 0, false) = r := by
    rw [getD_of_lt _ _ _ hi, e]
  have := hall i (by omega) (by rw [hgd]; exact hflag r hr)
  simp only [hgd] at this
  exact ⟨this.1, this.2.1, this.2.2.1, this.2.2.2.1⟩

/-- C08 on a dataset: for a valid scheme, dense departure rows of the right length, when every loop exited
    normally, every returned ranking is well formed and is a local optimum for the table of the definition. -/
theorem C08_run (S : Scheme) (hS : S.Valid) (D : Dataset) (deps : List (List Nat)) (amo : Bool) (τ : Int)
    (hτ : 0 ≤ τ) (fuel : Nat) (hdeps : ∀ r ∈ deps, DenseN r ∧ r.length = (univOf D).length)
    (hflag : ∀ r ∈ (bioConsertRun S D deps amo τ fuel).2, r.2.2 = true) :
    (∀ c ∈ (bioConsertRun S D deps amo τ fuel).1.1,
      wellFormedRanking (univOf D) c = true ∧ localOptVec (specTable S D) τ (rowOf (univOf D) c) = true) ∧
    Spec.C08.holds S D τ (bioConsertRun S D deps amo τ fuel).1.1 = true := by
  have hres := C08_run_results S D deps amo τ hτ fuel hdeps hflag
  have key : ∀ c ∈ (bioConsertRun S D deps amo τ fuel).1.1,
      wellFormedRanking (univOf D) c = true ∧ localOptVec (specTable S D) τ (rowOf (univOf D) c) = true := by
    intro c hc
    by_cases hne : (bioConsertRun S D deps amo τ fuel).2 = []
    · have : (bioConsertRun S D deps amo τ fuel).1.1 = [] := by
        simp only [bioConsertRun] at hne ⊢
        rw [hne]; rfl
      rw [this] at hc; cases hc
    · obtain ⟨m, _, _, _, h4, _⟩ := BioSM.selectBest_spec (univOf D) amo _ hne
      obtain ⟨r, hr, _, rfl⟩ := h4 c hc
      obtain ⟨r1, r2, r3, _⟩ := hres r hr
      obtain ⟨d1, d2⟩ := BioSM.decodeVec_spec (univOf D) (univOf_nodup D) r.1 r1 r2
      rw [d2, ← C02_def S hS D]
      exact ⟨d1, r3⟩
  refine ⟨key, ?_⟩
  simp only [Spec.C08.holds, List.all_eq_true, Bool.and_eq_true]
  exact key

end Corankco
