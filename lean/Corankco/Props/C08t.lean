import Corankco.Lemmas.BioTerm
import Corankco.Props.C08
/-
  C08 (termination part): the BioConsert local search exits normally, with an explicit fuel bound, for τ ≥ 0,
  tables with the mirror law and dense departure vectors.  Helper lemmas live in Lemmas/BioTerm.lean.
-/
namespace Corankco
open Model Spec

/-- every sweep that makes a move strictly decreases the (integer) score; the score is bounded below; so the loop
    exits normally as soon as the fuel exceeds the distance of the start score to the lower bound -/
theorem C08_terminates (t : Table) (τ : Int) (hτ : 0 ≤ τ) (r : List Nat) (hm : MirrorT t r.length) (hd : DenseN r)
    (fuel : Nat) (hf : (scoreVecN t r - L4.lower t r.length).toNat + 1 ≤ fuel) :
    (improveOne t τ fuel r).2.2 = true :=
  BioSM.improveLoop_terminates t τ hτ fuel r (r.foldl max 0) 0 hm hd rfl hf

/-- fuel independence: once the loop exits normally, more fuel gives the same result -/
theorem C08_fuel_mono (t : Table) (τ : Int) (fuel fuel' : Nat) (r : List Nat) (h : fuel ≤ fuel')
    (hok : (improveOne t τ fuel r).2.2 = true) : improveOne t τ fuel' r = improveOne t τ fuel r :=
  BioSM.improveLoop_fuel_mono t τ fuel fuel' r (r.foldl max 0) 0 h hok

/-- the whole loop with an explicit fuel: any fuel above the bound of every departure vector makes every loop
    exit normally -/
theorem C08_loop_terminates (t : Table) (τ : Int) (hτ : 0 ≤ τ) (n : Nat) (hm : MirrorT t n) (deps : List (List Nat))
    (hdeps : ∀ r ∈ deps, DenseN r ∧ r.length = n) (fuel : Nat)
    (hf : ∀ r ∈ deps, (scoreVecN t r - L4.lower t n).toNat + 1 ≤ fuel) :
    ∀ x ∈ bioConsertLoop t τ fuel deps, x.2.2 = true := by
  intro x hx
  simp only [bioConsertLoop, List.mem_map] at hx
  obtain ⟨r, hr, rfl⟩ := hx
  obtain ⟨hd, hl⟩ := hdeps r hr
  exact C08_terminates t τ hτ r (by rw [hl]; exact hm) hd fuel (by rw [hl]; exact hf r hr)

/-- hence there is always enough fuel, and the whole BioConsert loop terminates on dense departures -/
theorem C08_run_terminates (t : Table) (τ : Int) (hτ : 0 ≤ τ) (n : Nat) (hm : MirrorT t n) (deps : List (List Nat))
    (hdeps : ∀ r ∈ deps, DenseN r ∧ r.length = n) :
    ∃ fuel, ∀ fuel', fuel ≤ fuel' → ∀ x ∈ bioConsertLoop t τ fuel' deps, x.2.2 = true := by
  have hex : ∃ fuel : Nat, ∀ r ∈ deps, (scoreVecN t r - L4.lower t n).toNat + 1 ≤ fuel := by
    clear hdeps
    induction deps with
    | nil => exact ⟨0, fun r hr => by cases hr⟩
    | cons a l ih =>
      obtain ⟨f, hf⟩ := ih
      refine ⟨max f ((scoreVecN t a - L4.lower t n).toNat + 1), ?_⟩
      intro r hr
      rcases List.mem_cons.mp hr with rfl | hr
      · exact Nat.le_max_right _ _
      · exact Nat.le_trans (hf r hr) (Nat.le_max_left _ _)
  obtain ⟨fuel, hfuel⟩ := hex
  exact ⟨fuel, fun fuel' hle => C08_loop_terminates t τ hτ n hm deps hdeps fuel'
    (fun r hr => Nat.le_trans (hfuel r hr) hle)⟩

end Corankco
