import Corankco.Lemmas.C12
/-
  C12 — Borda (helper lemmas live in Lemmas/C12.lean, the sort-and-group lemma L5 in Lemmas/SortGroup.lean).
-/
namespace Corankco
open Model

/-- Borda: refusal exactly for incomplete data under a scheme outside the four families; otherwise the consensus is
    well-formed over exactly the universe and orders the elements by increasing mean positional score, tied exactly
    on equal means (variant by bucket size or bucket id; unranked elements = one last bucket under a unifying scheme,
    skipped otherwise). -/
theorem C12_holds (useBid : Bool) (S : Scheme) (D : Dataset) (hD : ∀ r ∈ D, r.flatten.Nodup) :
    Spec.C12.holds useBid S D (match borda useBid S D with | .ok r => some r | .error _ => none) = true := by
  rw [C12.borda_eq]
  unfold Spec.C12.holds
  by_cases hacc : (!isComplete D && !(Spec.isUnifyingFamily S || Spec.isInducedFamily S)) = true
  · rw [if_pos hacc]
    revert hacc
    cases isComplete D <;> cases Spec.isUnifyingFamily S <;> cases Spec.isInducedFamily S <;> simp
  · rw [if_neg hacc]
    simp only [Bool.and_eq_true]
    refine ⟨?_, ?_⟩
    · revert hacc
      cases isComplete D <;> cases Spec.isUnifyingFamily S <;> cases Spec.isInducedFamily S <;> simp
    · apply C12.bordaOut_ordersBy useBid S D hD
      intro x hx
      rw [SortGroup.lookup_map_self _ _ x hx]
      rfl

/-- Independence of the order of the rankings: permuting the dataset does not change the relative placement of
    any two elements in the Borda consensus. -/
theorem C12_perm (useBid : Bool) (S : Scheme) (D D' : Dataset) (hD : ∀ r ∈ D, r.flatten.Nodup) (hp : D.Perm D')
    (r r' : Ranking) (h : borda useBid S D = .ok r) (h' : borda useBid S D' = .ok r') :
    ∀ x ∈ univOf D, ∀ y ∈ univOf D, Spec.cmpIn r x y = Spec.cmpIn r' x y := by
  have hD' : ∀ r ∈ D', r.flatten.Nodup := fun r hr => hD r (hp.mem_iff.mpr hr)
  rw [C12.borda_eq] at h h'
  split at h
  · exact absurd h (by simp)
  split at h'
  · exact absurd h' (by simp)
  have e : r = C12.bordaOut useBid S D := by injection h with h; exact h.symm
  have e' : r' = C12.bordaOut useBid S D' := by injection h' with h'; exact h'.symm
  subst e; subst e'
  have o := C12.bordaOut_ordersBy useBid S D hD (Spec.bordaSumCount useBid (C12.bordaRs S D)) (fun _ _ => rfl)
  have o' := C12.bordaOut_ordersBy useBid S D' hD' (Spec.bordaSumCount useBid (C12.bordaRs S D))
    (fun x _ => C12.bordaSumCount_bordaRs_perm useBid S D D' hp x)
  have hu : ∀ a, a ∈ univOf D → a ∈ univOf D' := fun a => (C12.univOf_perm D D' hp).mem_iff.mp
  intro x hx y hy
  exact SortGroup.cmpIn_unique _ _ _ _ _ o o' x y hx hy (hu x hx) (hu y hy)

/-- and it is accepted / refused alike -/
theorem C12_perm_refusal (useBid : Bool) (S : Scheme) (D D' : Dataset) (hp : D.Perm D') :
    (borda useBid S D).isOk = (borda useBid S D').isOk := by
  rw [C12.borda_eq, C12.borda_eq, C12.isComplete_perm D D' hp]
  split <;> rfl

/-- Non-vacuity (accepted, non-trivial): an incomplete dataset with a tie, a unifying-family scheme; element `0`,
    unranked in the second ranking, is credited its last bucket there, and the consensus ties `0` and `2` on
    equal means 2/2. The hypotheses of `C12_holds` / `C12_perm` are satisfiable, with a different ranking order. -/
example :
    let S : Scheme := unifyingHalf
    let D : Dataset := [[[0, 1], [2]], [[2], [1]]]
    let D' : Dataset := [[[2], [1]], [[0, 1], [2]]]
    (∀ r ∈ D, r.flatten.Nodup) ∧ isComplete D = false ∧ Spec.isUnifyingFamily S = true ∧
      unifiedRankings D = [[[0, 1], [2]], [[2], [1], [0]]] ∧
      borda false S D = .ok [[1], [0, 2]] ∧ borda false S D' = .ok [[1], [2, 0]] ∧ D.Perm D' := by
  refine ⟨by decide, by decide, by decide, by decide, by decide, by decide, ?_⟩
  exact List.Perm.swap _ _ _

/-- Non-vacuity (refused): the same incomplete dataset under the pseudo-distance scheme, which belongs to none of
    the four families; the specification asks for exactly this refusal. -/
example :
    let D : Dataset := [[[0, 1], [2]], [[2], [1]]]
    borda false pseudo D = .error .schemeNotHandled ∧ Spec.C12.holds false pseudo D none = true ∧
      Spec.C12.holds false pseudo D (some [[1], [0, 2]]) = false := by
  decide

end Corankco
