import Corankco.Lemmas.C13
/-
  C13 — Copeland (helper lemmas live in Lemmas/C13.lean, the sort-and-group lemma L5 in Lemmas/SortGroup.lean).
-/
namespace Corankco
open Model

/-- Copeland: victory / equality / defeat counts are the three pair classes of the definition (sum n-1), doubled
    scores are 2·victories + equalities (total n(n-1)), the consensus is well-formed and lists the elements by
    decreasing score, tied exactly on equal scores. -/
theorem C13_holds (S : Scheme) (hS : S.Valid) (D : Dataset) :
    Spec.C13.holds S D (copeland S D).1 (copeland S D).2.1 (copeland S D).2.2 = true := by
  have hres : copelandResults (costMatrix S (getPositions D)) = (univOf D).map (Spec.copVictories S D) := by
    rw [C02_def S hS D]; exact C13.copelandResults_spec S D
  have hsc : ((univOf D).map (Spec.copVictories S D)).map copelandScore2 =
      (univOf D).map (C13.score2 S D) := by
    rw [List.map_map]; rfl
  unfold Spec.C13.holds copeland
  simp only [hres, hsc, Bool.and_eq_true, beq_iff_eq]
  refine ⟨⟨⟨⟨trivial, ?_⟩, ?_⟩, ?_⟩, ?_⟩
  · apply List.map_congr_left
    intro x hx
    exact (C13.sc_lookup S D x hx).symm
  · rw [List.all_eq_true]
    intro r hr
    obtain ⟨x, hx, rfl⟩ := List.mem_map.mp hr
    rw [beq_iff_eq]
    exact C13.copVictories_total S D x hx
  · exact C13.score2_sum S D
  · exact C13.copeland_ordersBy S D _ (fun x hx => C13.sc_lookup S D x hx)

/-- Non-vacuity: a valid scheme, an incomplete dataset with ties; elements `0` and `1` form an equal-cost pair
    (one equality each), both beat `2`, and the consensus ties them on equal doubled scores 3. -/
example :
    let S : Scheme := unifying
    let D : Dataset := [[[0, 1], [2]], [[2], [0]], [[1], [0]]]
    S.Valid ∧ univOf D = [0, 1, 2] ∧ Spec.before S D 0 1 = Spec.after S D 0 1 ∧
      (copeland S D).2.2 = [(1, 1, 0), (1, 1, 0), (0, 0, 2)] ∧ (copeland S D).2.1 = [3, 3, 0] ∧
      (copeland S D).1 = [[0, 1], [2]] := by
  decide

end Corankco
