import Corankco.Lemmas.C05Opt
/-
  C05 (part d, composition): the OPTIMISED exact algorithm.  It works like ParCons with an unbounded exact budget:
  the universe is split into the components of the graph of elements (topological order), a component that can be
  all tied is returned as one bucket, and for every other component the CPLEX integer program WITH the no-tie pruning
  rows (`rowsCplex t' n' 0 true`) is built for the dataset projected on the component, solved, and the solution is
  decoded (`decode`) and read back through the id map of the projected dataset.  Composition of `C05_optimal_cplex`
  (C05c), `C05_decode` (C05a) and `C06_parcons_dataset` (C06f); helper lemmas live in Lemmas/C05Opt.lean.
-/
namespace Corankco
open Model Spec

/-- the element-level sub-solver of the optimised path: `solve` is the ILP solver (a parameter): given the projected
    dataset it returns an assignment; the ranking is decoded and read through the projected dataset's own id map.
    (The scheme is not used here — the rows and the objective are only needed to state the solver's contract,
    `SolverOK`; the argument is kept, as `_S`, so that the solver has the signature of the library's.) -/
def optimizedExactE (_S : Scheme) (D : Dataset) (solve : Dataset → Asg) (keep : List Elem) : Ranking :=
  let sub := projectKeepAll D keep
  let n' := (univOf sub).length
  (decode (solve sub) n').map fun b => b.map fun i => (univOf sub).getD i 0

/-- solver contract on one sub-problem: the point it returns is feasible and optimal for the rows the model builds -/
def SolverOK (S : Scheme) (sub : Dataset) (a : Asg) : Prop :=
  let t' := costMatrix S (getPositions sub)
  let n' := (univOf sub).length
  feasible a n' (rowsCplex t' n' 0 true) = true ∧
  ∀ b : Asg, feasible b n' (rowsCplex t' n' 0 true) = true → evalLin a (objective t' n') ≤ evalLin b (objective t' n')

namespace C05d

theorem optimizedExactE_eq (S : Scheme) (D : Dataset) (solve : Dataset → Asg) (keep : List Elem) :
    optimizedExactE S D solve keep =
      C05Opt.readIds (univOf (projectKeepAll D keep))
        (decode (solve (projectKeepAll D keep)) (univOf (projectKeepAll D keep)).length) := rfl

/-- the sub-solver of the optimised path on ONE sub-problem: for a non-empty duplicate-free list `keep` of elements of
    `D`, if the ILP solver honours its contract on the projected dataset, `optimizedExactE` returns a ranking of
    exactly the elements `keep` (non-empty buckets) that is a global optimum of the projected dataset — the hypothesis
    `hexact` of `C06_parcons_dataset` -/
theorem optimizedExactE_spec (S : Scheme) (D : Dataset) (solve : Dataset → Asg) (keep : List Elem)
    (hne : keep ≠ []) (hkn : keep.Nodup) (hk : ∀ x ∈ keep, x ∈ univOf D)
    (hs : SolverOK S (projectKeepAll D keep) (solve (projectKeepAll D keep))) :
    (∀ b ∈ optimizedExactE S D solve keep, b ≠ []) ∧
    (optimizedExactE S D solve keep).flatten.Perm keep ∧
    Optimal (costMatrix S (getPositions (projectKeepAll D keep))) (univOf (projectKeepAll D keep)).length
      (vecOf (univOf (projectKeepAll D keep)) (optimizedExactE S D solve keep)) := by
  obtain ⟨hf, hmin⟩ := hs
  have hperm := SubTable.univOf_project_perm D keep hkn hk
  have hn : 0 < (univOf (projectKeepAll D keep)).length := by
    rw [hperm.length_eq]
    exact List.length_pos_iff.mpr hne
  have hbase := ((C05c.feasible_cplex_iff _ _ _ 0 true).mp hf).1
  have hdec := (C05_decode _ hn _ hbase).1
  have hopt := C05_optimal_cplex _ _ hn (BioSM.mirror_costMatrix S (projectKeepAll D keep)) true _ hf hmin
  rw [optimizedExactE_eq]
  refine ⟨C05Opt.readIds_ne_nil _ _ hdec, (C05Opt.readIds_perm _ _ hdec).trans hperm, ?_⟩
  rw [C05Opt.vecOf_readIds _ (univOf_nodup _) _ hdec]
  exact hopt

end C05d

/-- C05, optimised path: IF the solver honours its contract on every sub-problem it is given, the consensus is a
    global optimum (for components in topological order — igraph's contract).

    `comps` are the strongly connected components of the graph of elements of `D`, as lists of ids, in a topological
    order (`isTopoSCC`).  The optimised exact algorithm is ParCons with the size bound `(univOf D).length` — no
    component is larger, so none is ever delegated and the auxiliary heuristic `aux` (ARBITRARY here) is never
    called — and with `optimizedExactE` as exact sub-solver.  `solve` is the ILP solver, a parameter; the only
    hypothesis on it is `hsolve`: on the projected dataset of every component that cannot be all tied (the only
    inputs it receives) it returns a feasible point of `rowsCplex t' n' 0 true` (binary, transitivity and no-tie rows)
    that minimises the objective among the feasible points.  Conclusion: no ranking with ties of the elements of `D`
    has a smaller generalised Kemeny score than the consensus. -/
theorem C05_optimized (S : Scheme) (hS : S.Valid) (D : Dataset) (comps : List (List Nat))
    (h : isTopoSCC (costMatrix S (getPositions D)) (univOf D).length comps = true)
    (solve : Dataset → Asg)
    (hsolve : ∀ c ∈ comps, canBeAllTied c (costMatrix S (getPositions D)) = false →
      SolverOK S (projectKeepAll D (C06f.elemsOf (univOf D) c)) (solve (projectKeepAll D (C06f.elemsOf (univOf D) c))))
    (aux : List Nat → List (List Nat)) :
    Optimal (costMatrix S (getPositions D)) (univOf D).length
      ((vecOfIds (univOf D).length
          (parCons (costMatrix S (getPositions D)) comps (univOf D).length
            (C06f.liftExact (univOf D) (optimizedExactE S D solve)) aux).consensus).map fun k => Int.ofNat k) := by
  have hp : isPartitionOf (univOf D).length comps = true := by
    simp only [isTopoSCC, Bool.and_eq_true] at h
    exact h.1.1
  obtain ⟨hne, hnd, hmem⟩ := (L4.isPartitionOf_iff (univOf D).length comps).mp hp
  apply C06_parcons_dataset S hS D comps h (univOf D).length (optimizedExactE S D solve) aux
  · intro c hc hct
    have hlt : ∀ i ∈ c, i < (univOf D).length :=
      fun i hi => (hmem i).mp (List.mem_flatten.mpr ⟨c, hc, hi⟩)
    apply C05d.optimizedExactE_spec S D solve
    · simpa [C06f.elemsOf] using hne c hc
    · exact Final.nodup_map_getD (univOf_nodup D) c hlt ((List.pairwise_flatten.mp hnd).1 c hc)
    · intro x hx
      obtain ⟨j, hj, rfl⟩ := List.mem_map.mp hx
      exact Final.getD_mem (hlt j hj)
    · exact hsolve c hc hct
  · rw [(C06_flag _ comps _ _ aux).2, Bool.not_eq_true', List.any_eq_false]
    intro c hc
    have := C05Opt.group_length_le _ comps hp c hc
    simp only [Bool.and_eq_true, Bool.not_eq_true', decide_eq_true_eq, not_and]
    intro _
    omega

/-! ### non-vacuity: the solver contract can be honoured on every sub-problem -/

namespace C05d

/-- the integer program with (or without) the no-tie rows always has an optimal feasible point: the encoding of an
    optimal ranking — a tie-free one when the no-tie rows are present (`C05_prune_noties`) -/
theorem exists_opt_cplex (t : Table) (n : Nat) (hm : MirrorT t n) (active : Bool) :
    ∃ a : Asg, feasible a n (rowsCplex t n 0 active) = true ∧
      ∀ b : Asg, feasible b n (rowsCplex t n 0 active) = true → evalLin a (objective t n) ≤ evalLin b (objective t n) := by
  by_cases hp : (active && noTieOK t n 0) = true
  · have hnt : noTieOK t n 0 = true := by
      cases active <;> simp_all
    obtain ⟨v', hopt, hne⟩ := C05_prune_noties t n hm hnt
    refine ⟨asgOfVec v', (C05c.feasible_cplex_iff t _ n 0 active).mpr
      ⟨C05_asg_feasible n v' hopt.1, C05c.cplexPrune_asgOfVec t n 0 active v' hne⟩, ?_⟩
    intro b hb
    have hbb := ((C05c.feasible_cplex_iff t b n 0 active).mp hb).1
    rw [C05_objective t n hm v' hopt.1, ((Exact.feasible_iff b n).mp hbb).objective_eq t hm]
    exact hopt.2 _ (Exact.cvec_length b n)
  · have hrows : cplexPruneRows t n 0 active = [] := by
      unfold cplexPruneRows; rw [if_neg hp]
    obtain ⟨v0, hv0⟩ := exists_optimal t n
    obtain ⟨h1, h2⟩ := C05_all t n hm v0 hv0
    refine ⟨asgOfVec v0, ?_, fun b hb => h2 b ((C05c.feasible_cplex_iff t b n 0 active).mp hb).1⟩
    rw [C05c.feasible_cplex_iff, hrows]
    exact ⟨h1, rfl⟩

/-- the contract `SolverOK` is satisfiable on every dataset and every scheme -/
theorem solverOK_exists (S : Scheme) (sub : Dataset) : ∃ a : Asg, SolverOK S sub a :=
  exists_opt_cplex _ _ (BioSM.mirror_costMatrix S sub) true

/-- an ideal ILP solver: on every dataset it returns some point honouring the contract -/
noncomputable def idealSolve (S : Scheme) (sub : Dataset) : Asg := Classical.choose (solverOK_exists S sub)

theorem idealSolve_ok (S : Scheme) (sub : Dataset) : SolverOK S sub (idealSolve S sub) :=
  Classical.choose_spec (solverOK_exists S sub)

end C05d

/-- the optimised exact algorithm with an ideal ILP solver, on ANY dataset, any valid scheme, any components
    satisfying igraph's contract: the consensus is a global optimum.  No hypothesis on a solver is left; this also
    shows that the hypothesis `hsolve` of `C05_optimized` is satisfiable on every instance. -/
theorem C05_optimized_ideal (S : Scheme) (hS : S.Valid) (D : Dataset) (comps : List (List Nat))
    (h : isTopoSCC (costMatrix S (getPositions D)) (univOf D).length comps = true)
    (aux : List Nat → List (List Nat)) :
    Optimal (costMatrix S (getPositions D)) (univOf D).length
      ((vecOfIds (univOf D).length
          (parCons (costMatrix S (getPositions D)) comps (univOf D).length
            (C06f.liftExact (univOf D) (optimizedExactE S D (C05d.idealSolve S))) aux).consensus).map
        fun k => Int.ofNat k) :=
  C05_optimized S hS D comps h (C05d.idealSolve S) (fun _ _ _ => C05d.idealSolve_ok S _) aux

end Corankco
