import Corankco.Lemmas.WeakOrders
import Corankco.Props.C06a
/-
  C05 (part b, all sizes): the exhaustive oracle of the harness is exact (L3: `allWeakOrders n` enumerates the dense
  bucket-id vectors of length `n` exactly once; `optScore` / `optima` are the true optimum / the dense optima), and
  the no-tie pruning of the CPLEX models is sound. Helper lemmas live in Lemmas/WeakOrders.lean.
-/
namespace Corankco
open Model Spec

/-- densification: every key vector has the same pairwise comparisons as a dense Nat vector of the same length -/
theorem exists_dense_same_cmp (v : List Int) :
    ∃ d : List Nat, d.length = v.length ∧ DenseN d ∧
      ∀ i j, i < v.length → j < v.length →
        compare (v.getD i 0) (v.getD j 0) = compare (d.getD i 0) (d.getD j 0) :=
  WO.exists_dense_same_cmp v

/-- L3: the enumeration is complete and sound: the members of `allWeakOrders n` are exactly the dense vectors of
    length n -/
theorem allWeakOrders_spec (n : Nat) (d : List Nat) :
    d ∈ allWeakOrders n ↔ (d.length = n ∧ DenseN d) :=
  WO.allWeakOrders_spec n d

/-- … and duplicate-free -/
theorem allWeakOrders_nodup (n : Nat) : (allWeakOrders n).Nodup :=
  WO.allWeakOrders_nodup n

/-- the executable oracle is the true optimum: `optScore t n` is the score of every optimal ranking, and is a lower
    bound for every ranking -/
theorem optScore_spec (t : Table) (n : Nat) :
    (∀ v : List Int, v.length = n → optScore t n ≤ scoreVec t v) ∧
    (∀ v : List Int, Optimal t n v → scoreVec t v = optScore t n) :=
  WO.optScore_spec t n

/-- `optima t n` lists exactly the dense optimal vectors -/
theorem optima_spec (t : Table) (n : Nat) (d : List Nat) :
    d ∈ optima t n ↔ (d.length = n ∧ DenseN d ∧ Optimal t n (d.map fun b => Int.ofNat b)) :=
  WO.optima_spec t n d

/-- the no-tie pruning of the CPLEX models is sound (with threshold 0 = the code's 0.001 on costs that are integer
    multiples of a unit larger than 0.001): if tying never beats the average of the two strict orders, some optimal
    ranking has no ties -/
theorem C05_prune_noties (t : Table) (n : Nat) (hm : MirrorT t n) (h : noTieOK t n 0 = true) :
    ∃ v : List Int, Optimal t n v ∧ ∀ i j, i < n → j < n → i ≠ j → v.getD i 0 ≠ v.getD j 0 := by
  have _ := hm  -- the mirror law is not needed: only the pairs `i < j` enter the score
  obtain ⟨v, hv⟩ := exists_optimal t n
  obtain ⟨w, hl, hs, hne⟩ := WO.prune_noties t n h v hv.1
  exact ⟨w, ⟨hl, fun u hu => Int.le_trans hs (hv.2 u hu)⟩, hne⟩

end Corankco
