import Corankco.Lemmas.Invariance
/-
  C12b — Borda is equivariant under an injective renaming of the elements: the consensus of the renamed dataset
  places the renamed elements exactly as the consensus of the original dataset places the original ones.
-/
namespace Corankco
open Model Spec

theorem C12_rename (useBid : Bool) (S : Scheme) (D : Dataset) (hD : ∀ r ∈ D, r.flatten.Nodup)
    (f : Elem → Elem) (hf : Function.Injective f) (r r' : Ranking)
    (h : borda useBid S D = .ok r) (h' : borda useBid S (D.map fun q => q.map fun b => b.map f) = .ok r') :
    ∀ x ∈ univOf D, ∀ y ∈ univOf D, cmpIn r x y = cmpIn r' (f x) (f y) := by
  have hD' := Invariance.nodup_rename hf D hD
  rw [C12.borda_eq] at h h'
  split at h
  · exact absurd h (by simp)
  split at h'
  · exact absurd h' (by simp)
  have e : r = C12.bordaOut useBid S D := by injection h with h; exact h.symm
  have e' : r' = C12.bordaOut useBid S (D.map fun q => q.map fun b => b.map f) := by
    injection h' with h'; exact h'.symm
  subst e; subst e'
  have o := C12.bordaOut_ordersBy useBid S D hD (bordaSumCount useBid (C12.bordaRs S D)) (fun _ _ => rfl)
  have o' := C12.bordaOut_ordersBy useBid S _ hD'
    (bordaSumCount useBid (C12.bordaRs S (D.map fun q => q.map fun b => b.map f))) (fun _ _ => rfl)
  have em : ∀ x, bordaSumCount useBid (C12.bordaRs S (D.map fun q => q.map fun b => b.map f)) (f x) =
      bordaSumCount useBid (C12.bordaRs S D) x := by
    intro x
    rw [Invariance.bordaRs_rename hf]
    exact Invariance.bordaSumCount_rename hf useBid _ x
  intro x hx y hy
  have hx' : f x ∈ univOf (D.map fun q => q.map fun b => b.map f) := by
    rw [Invariance.univOf_rename hf]; exact List.mem_map.mpr ⟨x, hx, rfl⟩
  have hy' : f y ∈ univOf (D.map fun q => q.map fun b => b.map f) := by
    rw [Invariance.univOf_rename hf]; exact List.mem_map.mpr ⟨y, hy, rfl⟩
  unfold ordersBy at o o'
  simp only [Bool.and_eq_true, List.all_eq_true] at o o'
  have a := o.2 x hx y hy
  have b := o'.2 (f x) hx' (f y) hy'
  simp only [em] at b
  revert a b
  generalize decide ((bordaSumCount useBid (C12.bordaRs S D) x).1 * (bordaSumCount useBid (C12.bordaRs S D) y).2 ≤
    (bordaSumCount useBid (C12.bordaRs S D) y).1 * (bordaSumCount useBid (C12.bordaRs S D) x).2) = p
  generalize decide ((bordaSumCount useBid (C12.bordaRs S D) y).1 * (bordaSumCount useBid (C12.bordaRs S D) x).2 ≤
    (bordaSumCount useBid (C12.bordaRs S D) x).1 * (bordaSumCount useBid (C12.bordaRs S D) y).2) = q
  cases cmpIn (C12.bordaOut useBid S D) x y <;>
    cases cmpIn (C12.bordaOut useBid S (D.map fun q => q.map fun b => b.map f)) (f x) (f y) <;>
    cases p <;> cases q <;> simp

/-- and it is accepted / refused alike -/
theorem C12_rename_refusal (useBid : Bool) (S : Scheme) (D : Dataset)
    (f : Elem → Elem) (hf : Function.Injective f) :
    (borda useBid S (D.map fun q => q.map fun b => b.map f)).isOk = (borda useBid S D).isOk := by
  have hc : isComplete (D.map fun q => q.map fun b => b.map f) = isComplete D := by
    rw [Bool.eq_iff_iff]
    unfold isComplete
    rw [Invariance.univOf_rename hf]
    simp only [List.all_eq_true, List.contains_iff_mem]
    constructor
    · intro hh x hx r hr
      have := hh (f x) (List.mem_map.mpr ⟨x, hx, rfl⟩) _ (List.mem_map.mpr ⟨r, hr, rfl⟩)
      rw [Invariance.flatten_rename] at this
      exact (Invariance.mem_map_inj hf _ x).mp this
    · intro hh x' hx' r' hr'
      obtain ⟨x, hx, rfl⟩ := List.mem_map.mp hx'
      obtain ⟨r, hr, rfl⟩ := List.mem_map.mp hr'
      rw [Invariance.flatten_rename]
      exact (Invariance.mem_map_inj hf _ x).mpr (hh x hx r hr)
  rw [C12.borda_eq, C12.borda_eq, hc]
  split <;> rfl

/-- Non-vacuity: the incomplete dataset of `C12_holds` under a unifying-family scheme, renamed by `x ↦ 10 - x`
    on `0..2` (order-reversing, so that nothing depends on the order of the names). -/
example :
    let S : Scheme := unifyingHalf
    let D : Dataset := [[[0, 1], [2]], [[2], [1]]]
    let f : Elem → Elem := fun x => 10 - x
    borda false S D = .ok [[1], [0, 2]] ∧
      borda false S (D.map fun q => q.map fun b => b.map f) = .ok [[9], [10, 8]] := by
  decide

end Corankco
