import Corankco.Lemmas.C14
/-
  C14 — applicability of a scoring scheme to incomplete rankings, for every algorithm configuration (any nesting
  depth); helper lemmas (mutual structural recursion over `Alg` / `List Alg`) live in Lemmas/C14.lean.
-/
namespace Corankco
open Model

/-- the question is total: defined (true or false) for every configuration and scheme — and for a BioConsert it is the
    conjunction over its starting algorithms, for ParCons that of its auxiliary algorithm -/
theorem C14_relevant_bioConsert (st : List Alg) (S : Scheme) :
    relevant (.bioConsert st) S = st.all fun a => relevant a S := by
  simp only [relevant]
  exact C14.relevantAll_eq_all S st

theorem C14_relevant_parCons (aux : Alg) (S : Scheme) : relevant (.parCons aux) S = relevant aux S := by
  simp only [relevant]

/-- the refusal of a BioConsert is that of one of its starting algorithms, of ParCons that of its auxiliary one -/
theorem C14_mayRefuse_bioConsert (st : List Alg) (S : Scheme) (complete : Bool) :
    mayRefuse (.bioConsert st) S complete = st.any fun a => mayRefuse a S complete := by
  simp only [mayRefuse]
  exact C14.mayRefuseAny_eq_any S complete st

theorem C14_mayRefuse_parCons (aux : Alg) (S : Scheme) (complete : Bool) :
    mayRefuse (.parCons aux) S complete = mayRefuse aux S complete := by
  simp only [mayRefuse]

/-- declared relevant ⇒ never refused, on complete and on incomplete data -/
theorem C14_true_accepts (a : Alg) (S : Scheme) (h : relevant a S = true) (complete : Bool) :
    mayRefuse a S complete = false :=
  C14.accepts S complete a h

/-- complete data is never refused, whatever the scheme -/
theorem C14_complete (a : Alg) (S : Scheme) : mayRefuse a S true = false :=
  C14.complete S a

/-- Borda, PickAPerm, BioCo and BioConsert started from them (possibly together with algorithms that never refuse):
    an incomplete dataset is refused exactly when the scheme was declared not relevant -/
theorem C14_exact (a : Alg) (S : Scheme) (h : exactRefusal a = true) :
    mayRefuse a S false = !relevant a S := by
  cases a with
  | exact => simp [exactRefusal] at h
  | kwik => simp [exactRefusal] at h
  | copeland => simp [exactRefusal] at h
  | borda => simp [mayRefuse, relevant]
  | pickAPerm => simp [mayRefuse, relevant]
  | bioCo => simp [mayRefuse, relevant]
  | bioConsert st =>
    simp only [mayRefuse, relevant]
    exact C14.exactAll S st h
  | parCons aux => simp [exactRefusal] at h

/-- the guards of the concrete algorithm models agree with `mayRefuse` for the base cases -/
theorem C14_borda_guard (useBid : Bool) (S : Scheme) (D : Dataset) :
    (match borda useBid S D with | .ok _ => false | .error _ => true) = mayRefuse .borda S (isComplete D) := by
  unfold borda
  simp only [mayRefuse]
  by_cases hg : (!isComplete D && !bordaRelevant S) = true
  · rw [if_pos hg, hg]
  · rw [if_neg hg]
    simp only [Bool.not_eq_true] at hg
    rw [hg]

theorem C14_pickAPerm_guard (amo : Bool) (S : Scheme) (D : Dataset) :
    (match pickAPerm amo S D with | .ok _ => false | .error _ => true) = mayRefuse .pickAPerm S (isComplete D) := by
  unfold pickAPerm
  simp only [mayRefuse]
  by_cases hg : (!isComplete D && !isEquivalentTo S unifying) = true
  · rw [if_pos hg, hg]
  · rw [if_neg hg]
    simp only [Bool.not_eq_true] at hg
    rw [hg]
    generalize pickScan _ amo _ none = o
    rcases o with _ | ⟨m, acc⟩ <;> rfl

/-- the two guards raise the documented exception of their algorithm, and nothing else -/
theorem C14_borda_error (useBid : Bool) (S : Scheme) (D : Dataset) (e : AErr) (h : borda useBid S D = .error e) :
    e = .schemeNotHandled := by
  unfold borda at h
  split at h
  · injection h with h; exact h.symm
  · exact absurd h (by simp)

theorem C14_pickAPerm_error (amo : Bool) (S : Scheme) (D : Dataset) (e : AErr)
    (h : pickAPerm amo S D = .error e) : e = .incompatible := by
  unfold pickAPerm at h
  split at h
  · injection h with h; exact h.symm
  · dsimp only at h
    revert h
    generalize pickScan _ amo _ none = o
    rcases o with _ | ⟨m, acc⟩ <;> intro h <;> exact absurd h (by simp)

/-! ### examples: nested configurations (depth 3), both answers, both kinds of data -/

/-- depth 3: ParCons ∘ BioConsert ∘ BioConsert ∘ leaf -/
def C14.exNested : Alg := .parCons (.bioConsert [.borda, .bioConsert [.pickAPerm, .kwik], .exact])
/-- depth 3 through BioConsert only, with a ParCons and a BioCo inside -/
def C14.exNested2 : Alg := .bioConsert [.bioConsert [.bioConsert [.bioCo], .parCons .borda], .copeland]

/-- relevant only for schemes equivalent to the unifying one (PickAPerm is the binding member) -/
example : relevant C14.exNested unifying = true ∧ relevant C14.exNested unifyingHalf = false ∧
    relevant C14.exNested induced = false ∧ relevant C14.exNested pseudo = false := by decide

/-- declared relevant: accepted on complete and on incomplete data; not relevant: refused on incomplete data only -/
example : mayRefuse C14.exNested unifying false = false ∧ mayRefuse C14.exNested unifying true = false ∧
    mayRefuse C14.exNested induced false = true ∧ mayRefuse C14.exNested induced true = false ∧
    mayRefuse C14.exNested pseudo false = true ∧ mayRefuse C14.exNested pseudo true = false := by decide

/-- the second one follows the four Borda families -/
example : relevant C14.exNested2 unifying = true ∧ relevant C14.exNested2 inducedHalf = true ∧
    relevant C14.exNested2 pseudo = false ∧ relevant C14.exNested2 extended = false ∧
    mayRefuse C14.exNested2 inducedHalf false = false ∧ mayRefuse C14.exNested2 pseudo false = true ∧
    mayRefuse C14.exNested2 pseudo true = false := by decide

/-- `exactRefusal` admits the flat BioConsert (and the empty one) but not nested ones; on the nested examples the
    equality of `C14_exact` happens to hold as well, it is just not claimed -/
example : exactRefusal (.bioConsert [.borda, .pickAPerm, .kwik]) = true ∧ exactRefusal (.bioConsert []) = true ∧
    exactRefusal C14.exNested = false ∧ exactRefusal C14.exNested2 = false ∧
    exactRefusal (.bioConsert [.bioCo]) = false := by decide

example : mayRefuse (.bioConsert [.borda, .pickAPerm, .kwik]) induced false = true ∧
    relevant (.bioConsert [.borda, .pickAPerm, .kwik]) induced = false ∧
    mayRefuse (.bioConsert [.borda, .pickAPerm, .kwik]) unifying false = false ∧
    relevant (.bioConsert [.borda, .pickAPerm, .kwik]) unifying = true := by decide

/-- the theorems instantiated on the nested configuration -/
example : mayRefuse C14.exNested unifying false = false := C14_true_accepts _ _ (by decide) _
example (S : Scheme) : mayRefuse C14.exNested2 S true = false := C14_complete _ _
example (S : Scheme) : mayRefuse (.bioConsert [.borda, .pickAPerm, .kwik]) S false =
    !relevant (.bioConsert [.borda, .pickAPerm, .kwik]) S := C14_exact _ _ (by decide)

/-- the guards on concrete datasets: incomplete data refused under `pseudo` / `induced`, accepted when complete -/
example : (match borda false pseudo [[[0, 1], [2]], [[2], [1]]] with | .ok _ => false | .error _ => true) = true ∧
    mayRefuse .borda pseudo (isComplete [[[0, 1], [2]], [[2], [1]]]) = true ∧
    mayRefuse .borda pseudo (isComplete [[[0], [1]], [[1], [0]]]) = false ∧
    mayRefuse .pickAPerm induced (isComplete [[[0], [1]], [[1]]]) = true := by decide

#guard relevant C14.exNested unifying && !relevant C14.exNested induced && mayRefuse C14.exNested induced false
#guard !mayRefuse C14.exNested induced true && relevant C14.exNested2 inducedHalf && !relevant C14.exNested2 pseudo

end Corankco
