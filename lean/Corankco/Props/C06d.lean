import Corankco.Lemmas.Compose
import Corankco.Props.C06
/-
  C06 (part d, composition): ParCons / the optimised exact algorithm end to end. The sub-solvers are parameters:
  whatever rankings of their component they return, the consensus is a partition of the ids that respects the
  components; and when the necessarily-optimal mark is set and the exact sub-solver is optimal on every component it
  is given, the consensus is a global optimum.
-/
namespace Corankco
open Model Spec

/-- what a sub-solver must deliver for component `c`: a ranking of exactly the ids of `c` (non-empty disjoint buckets) -/
def SolvesComp (c : List Nat) (res : List (List Nat)) : Prop :=
  (∀ b ∈ res, b ≠ []) ∧ res.flatten.Perm c

namespace C06d

/-- the ranking ParCons appends for component `c` -/
def pick (t : Table) (bound : Nat) (exact aux : List Nat → List (List Nat)) (c : List Nat) : List (List Nat) :=
  if canBeAllTied c t then [c] else if c.length > bound then aux c else exact c

theorem consensus_eq (t : Table) (comps : List (List Nat)) (bound : Nat) (exact aux : List Nat → List (List Nat)) :
    (parCons t comps bound exact aux).consensus = comps.flatMap (pick t bound exact aux) :=
  C06_consensus t comps bound exact aux

theorem pick_solves (t : Table) (bound : Nat) (exact aux : List Nat → List (List Nat)) (c : List Nat)
    (hne : c ≠ []) (hex : SolvesComp c (exact c)) (haux : SolvesComp c (aux c)) :
    SolvesComp c (pick t bound exact aux c) := by
  unfold pick
  split
  · exact ⟨by simp [hne], by simp⟩
  · split
    · exact haux
    · exact hex

end C06d

open C06d in
/-- ParCons' consensus is a partition of the ids and respects the components, whatever the sub-solvers return as long as
    they return rankings of their component -/
theorem C06_respects (t : Table) (n : Nat) (comps : List (List Nat)) (hp : isPartitionOf n comps = true)
    (bound : Nat) (exact aux : List Nat → List (List Nat))
    (hex : ∀ c ∈ comps, SolvesComp c (exact c)) (haux : ∀ c ∈ comps, SolvesComp c (aux c)) :
    let out := parCons t comps bound exact aux
    isPartitionOf n out.consensus = true ∧
    RespectsI comps ((vecOfIds n out.consensus).map fun k => Int.ofNat k) ∧ out.partition = comps := by
  intro out
  obtain ⟨hne, hnd, hmem⟩ := (L4.isPartitionOf_iff n comps).mp hp
  have hcons : out.consensus = comps.flatMap (pick t bound exact aux) := consensus_eq t comps bound exact aux
  have hsolve : ∀ c ∈ comps, SolvesComp c (pick t bound exact aux c) :=
    fun c hc => pick_solves t bound exact aux c (hne c hc) (hex c hc) (haux c hc)
  have hperm : out.consensus.flatten.Perm comps.flatten := by
    rw [hcons]
    exact Compose.flatMap_flatten_perm _ comps (fun c hc => (hsolve c hc).2)
  have hf : ∀ c ∈ comps, ∀ x, x ∈ (pick t bound exact aux c).flatten ↔ x ∈ c :=
    fun c hc x => (hsolve c hc).2.mem_iff
  refine ⟨?_, ?_, (C06_flag t comps bound exact aux).1⟩
  · rw [L4.isPartitionOf_iff]
    refine ⟨?_, hperm.nodup_iff.mpr hnd, fun i => by rw [hperm.mem_iff]; exact hmem i⟩
    intro b hb
    rw [hcons] at hb
    obtain ⟨c, hc, hbc⟩ := List.mem_flatMap.mp hb
    exact (hsolve c hc).1 b hbc
  · intro p hpp i hi j hj
    obtain ⟨hin, hjn, _⟩ := L4.pair_facts n comps hp p hpp i hi j hj
    rw [Compose.key_eq n _ i hin (hperm.mem_iff.mpr ((hmem i).mpr hin)),
      Compose.key_eq n _ j hjn (hperm.mem_iff.mpr ((hmem j).mpr hjn)), hcons]
    exact Compose.bidIn_flatMap_lt _ comps hnd hf p hpp i hi j hj

open C06d in
/-- truthful flag: if the mark is set and the exact sub-solver returns, for every component it is given, a ranking
    that is optimal for the component, the consensus is a global optimum -/
theorem C06_flag_truthful (t : Table) (n : Nat) (hm : MirrorT t n) (comps : List (List Nat))
    (h : isTopoSCC t n comps = true) (bound : Nat) (exact aux : List Nat → List (List Nat))
    (hex : ∀ c ∈ comps, SolvesComp c (exact c)) (haux : ∀ c ∈ comps, SolvesComp c (aux c))
    (hopt : ∀ c ∈ comps, canBeAllTied c t = false →
        OptimalOn t c ((vecOfIds n (exact c)).map fun k => Int.ofNat k))
    (hflag : (parCons t comps bound exact aux).optimal = true) :
    Optimal t n ((vecOfIds n (parCons t comps bound exact aux).consensus).map fun k => Int.ofNat k) := by
  have hp : isPartitionOf n comps = true := by
    simp only [isTopoSCC, Bool.and_eq_true] at h
    exact h.1.1
  obtain ⟨hne, hnd, hmem⟩ := (L4.isPartitionOf_iff n comps).mp hp
  obtain ⟨hpc, hresp, _⟩ := C06_respects t n comps hp bound exact aux hex haux
  obtain ⟨_, _, hmemc⟩ := (L4.isPartitionOf_iff n _).mp hpc
  have hcons := consensus_eq t comps bound exact aux
  have hsolve : ∀ c ∈ comps, SolvesComp c (pick t bound exact aux c) :=
    fun c hc => pick_solves t bound exact aux c (hne c hc) (hex c hc) (haux c hc)
  have hf : ∀ c ∈ comps, ∀ x, x ∈ (pick t bound exact aux c).flatten ↔ x ∈ c :=
    fun c hc x => (hsolve c hc).2.mem_iff
  have hlen : ((vecOfIds n (parCons t comps bound exact aux).consensus).map fun k => Int.ofNat k).length = n := by
    simp [vecOfIds]
  -- no component was delegated
  have hnodel : ∀ c ∈ comps, canBeAllTied c t = false → ¬ c.length > bound := by
    intro c hc hct hgt
    have h2 := (C06_flag t comps bound exact aux).2
    rw [hflag] at h2
    have : (comps.any fun c => !canBeAllTied c t && decide (c.length > bound)) = true :=
      List.any_eq_true.mpr ⟨c, hc, by simp [hct, hgt]⟩
    rw [this] at h2
    exact absurd h2 (by decide)
  apply C06_optimal_of_components t n hm comps h _ hlen hresp
  intro g hg
  have hlt : ∀ i ∈ g, i < n := fun i hi => (hmem i).mp (List.mem_flatten.mpr ⟨g, hg, hi⟩)
  obtain ⟨off, hoff⟩ := Compose.bidIn_flatMap_offset _ comps hnd hf g hg
  -- keys of the ids of `g` in the consensus vector
  have hkey : ∀ i ∈ g,
      ((vecOfIds n (parCons t comps bound exact aux).consensus).map fun k => Int.ofNat k).getD i 0 =
        bidIn (pick t bound exact aux g) i + off := by
    intro i hi
    rw [Compose.key_eq n _ i (hlt i hi) ((hmemc i).mpr (hlt i hi)), hcons]
    exact hoff i hi
  cases hct : canBeAllTied g t with
  | true =>
    apply C06_all_tied t n hm g ((List.pairwise_flatten.mp hnd).1 g hg) hlt hct _ hlen
    intro i hi j hj
    rw [hkey i hi, hkey j hj]
    have hpk : pick t bound exact aux g = [g] := by simp [pick, hct]
    rw [hpk, Exact.bidIn_cons_mem g [] i hi, Exact.bidIn_cons_mem g [] j hj]
  | false =>
    have hpk : pick t bound exact aux g = exact g := by
      simp [pick, hct, hnodel g hg hct]
    have hog := hopt g hg hct
    intro w hw
    have hcongr : scoreIds t g ((vecOfIds n (parCons t comps bound exact aux).consensus).map fun k => Int.ofNat k) =
        scoreIds t g ((vecOfIds n (exact g)).map fun k => Int.ofNat k) := by
      apply Compose.scoreIds_congr
      intro i hi j hj
      rw [hkey i hi, hkey j hj, hpk,
        Compose.key_eq n _ i (hlt i hi) ((hex g hg).2.mem_iff.mpr hi),
        Compose.key_eq n _ j (hlt j hj) ((hex g hg).2.mem_iff.mpr hj)]
      exact L4.compare_congr_diff _ _ _ _ (by omega)
    rw [hcongr]
    apply hog w
    rw [hw, hlen]
    simp [vecOfIds]

/-- Non-vacuity of the hypotheses of `C06_respects`: two components, sub-solvers returning one bucket per id
    / one bucket per component. -/
example :
    let comps : List (List Nat) := [[0, 1], [2]]
    isPartitionOf 3 comps = true ∧
    (∀ c ∈ comps, (∀ b ∈ c.map ([·]), b ≠ []) ∧ (c.map ([·])).flatten.Perm c) ∧
    (∀ c ∈ comps, (∀ b ∈ [c], b ≠ []) ∧ [c].flatten.Perm c) := by
  decide

end Corankco
