import Corankco.Props.C13
import Corankco.Lemmas.Invariance
import Corankco.Model.Scheme
/-
  C13c — Copeland is equivariant under an injective renaming of the elements: counts are carried over, and the
  consensus of the renamed dataset places the renamed elements as the consensus of the original places the originals.
-/
namespace Corankco
open Model Spec

theorem C13_before_rename {f : Elem → Elem} (hf : Function.Injective f) (S : Scheme) (D : Dataset) (x y : Elem) :
    Spec.before S (D.map fun r => r.map fun b => b.map f) (f x) (f y) = Spec.before S D x y := by
  unfold Spec.before
  rw [List.map_map]
  congr 1
  apply List.map_congr_left
  intro r _
  simp only [Function.comp, Invariance.status_rename hf]

theorem C13_after_rename {f : Elem → Elem} (hf : Function.Injective f) (S : Scheme) (D : Dataset) (x y : Elem) :
    Spec.after S (D.map fun r => r.map fun b => b.map f) (f x) (f y) = Spec.after S D x y := by
  unfold Spec.after
  rw [List.map_map]
  congr 1
  apply List.map_congr_left
  intro r _
  simp only [Function.comp, Invariance.status_rename hf]

theorem C13_filter_rename {f : Elem → Elem} (l : List Elem) (p : Elem → Bool) (q : Elem → Bool)
    (h : ∀ y, q (f y) = p y) : ((l.map f).filter q).length = (l.filter p).length := by
  rw [List.filter_map, List.length_map]
  congr 1
  apply List.filter_congr
  intro y _
  exact h y

/-- the three counts of the renamed element in the renamed dataset are those of the element in the dataset -/
theorem C13_counts_rename {f : Elem → Elem} (hf : Function.Injective f) (S : Scheme) (D : Dataset) (x : Elem) :
    Spec.copVictories S (D.map fun r => r.map fun b => b.map f) (f x) = Spec.copVictories S D x := by
  unfold Spec.copVictories
  rw [Invariance.univOf_rename hf]
  have hne : ((univOf D).map f).filter (· ≠ f x) = ((univOf D).filter (· ≠ x)).map f := by
    rw [List.filter_map]
    congr 1
    apply List.filter_congr
    intro y _
    simp [hf.eq_iff]
  simp only [hne]
  refine Prod.ext ?_ (Prod.ext ?_ ?_)
  · exact C13_filter_rename _ _ _ (fun y => by simp only [C13_before_rename hf, C13_after_rename hf])
  · exact C13_filter_rename _ _ _ (fun y => by simp only [C13_before_rename hf, C13_after_rename hf])
  · exact C13_filter_rename _ _ _ (fun y => by simp only [C13_before_rename hf, C13_after_rename hf])

theorem C13_rename (S : Scheme) (hS : S.Valid) (D : Dataset) (f : Elem → Elem) (hf : Function.Injective f) :
    ∀ x ∈ univOf D, ∀ y ∈ univOf D,
      cmpIn (copeland S D).1 x y = cmpIn (copeland S (D.map fun r => r.map fun b => b.map f)).1 (f x) (f y) := by
  have h := C13_holds S hS D
  have h' := C13_holds S hS (D.map fun r => r.map fun b => b.map f)
  unfold Spec.C13.holds at h h'
  simp only [Bool.and_eq_true] at h h'
  have o := h.2
  have o' := h'.2
  unfold ordersBy at o o'
  simp only [Bool.and_eq_true, List.all_eq_true] at o o'
  intro x hx y hy
  have hx' : f x ∈ univOf (D.map fun r => r.map fun b => b.map f) := by
    rw [Invariance.univOf_rename hf]; exact List.mem_map.mpr ⟨x, hx, rfl⟩
  have hy' : f y ∈ univOf (D.map fun r => r.map fun b => b.map f) := by
    rw [Invariance.univOf_rename hf]; exact List.mem_map.mpr ⟨y, hy, rfl⟩
  have a := o.2 x hx y hy
  have b := o'.2 (f x) hx' (f y) hy'
  simp only [C13.sc_lookup S D x hx, C13.sc_lookup S D y hy] at a
  simp only [C13.sc_lookup S _ (f x) hx', C13.sc_lookup S _ (f y) hy'] at b
  have ex : C13.score2 S (D.map fun r => r.map fun b => b.map f) (f x) = C13.score2 S D x := by
    unfold C13.score2; rw [C13_counts_rename hf S D x]
  have ey : C13.score2 S (D.map fun r => r.map fun b => b.map f) (f y) = C13.score2 S D y := by
    unfold C13.score2; rw [C13_counts_rename hf S D y]
  simp only [ex, ey] at b
  revert a b
  generalize decide (C13.score2 S D x ≥ C13.score2 S D y) = p
  generalize decide (C13.score2 S D y ≥ C13.score2 S D x) = q
  cases cmpIn (copeland S D).1 x y <;>
    cases cmpIn (copeland S (D.map fun r => r.map fun b => b.map f)).1 (f x) (f y) <;>
    cases p <;> cases q <;> simp

/-- Non-vacuity: renaming by `x ↦ x + 10` carries counts and consensus over. -/
example :
    (copeland Model.unifying [[[0, 1], [2]], [[2], [0]], [[1], [0]]]).1 = [[0, 1], [2]] ∧
      (copeland Model.unifying [[[10, 11], [12]], [[12], [10]], [[11], [10]]]).1 = [[10, 11], [12]] ∧
      Spec.copVictories Model.unifying [[[10, 11], [12]], [[12], [10]], [[11], [10]]] 10 = (1, 1, 0) := by
  decide

end Corankco
