import Corankco.Lemmas.C11
/-
  C11 — KwikSort: property theorems (helper lemmas live in Lemmas/C11.lean).
-/
namespace Corankco
open Model

/-- The vectorised count formulas are the status counts of the definition, hence the decision is the tie-first,
    then-before cheapest placement computed from the definition. -/
theorem C11_where (S : Scheme) (D : Dataset) (i j : Nat)
    (hi : i < (univOf D).length) (hj : j < (univOf D).length) (hij : i ≠ j) :
    whereShouldItBe S ((getPositions D).getD i []) ((getPositions D).getD j []) =
      Spec.whereSpec S D ((univOf D).getD i 0) ((univOf D).getD j 0) := by
  have _ := hij  -- not needed: the identity also holds on the diagonal
  exact whereShouldItBe_getPositions S D i j hi hj

/-- For every pivot script: the result is a well-formed ranking over exactly the universe; every element of every
    recursion step stands before / with / after that step's pivot according to the cheapest pairwise placement; and if
    the cheapest placements cohere into a ranking with ties, the result is exactly that ranking. -/
theorem C11_holds (S : Scheme) (D : Dataset) (order : List Nat)
    (horder : order.Perm (List.range (univOf D).length)) (script : List Nat) :
    Spec.C11.holds S D (kwikSortDataset S D order script).1 (kwikSortDataset S D order script).2 = true := by
  have hw := kwikSortDataset_wellFormed S D order horder script
  have hs := kwikSortDataset_steps S D order horder script
  unfold Spec.C11.holds
  simp only [Bool.and_eq_true, hw, true_and, List.all_eq_true, Bool.or_eq_true, beq_iff_eq,
    Bool.not_eq_true']
  refine ⟨?_, ?_⟩
  · intro st hst e he
    by_cases hne : e = st.2
    · exact .inl hne
    · exact .inr (hs st hst e he hne)
  · by_cases hc : Spec.coherent S D = true
    · right
      exact ordersBy_of_sorted (Spec.cntBefore S D) hw
        (kwikSortDataset_sorted S D order horder script _ (coherent_key S D hc))
    · left
      simpa using hc

/-- Pivot independence: under coherence any two scripts (and initial orders) give the same relative placements. -/
theorem C11_pivot_independent (S : Scheme) (D : Dataset) (hc : Spec.coherent S D = true)
    (o1 o2 : List Nat) (h1 : o1.Perm (List.range (univOf D).length)) (h2 : o2.Perm (List.range (univOf D).length))
    (s1 s2 : List Nat) :
    ∀ x ∈ univOf D, ∀ y ∈ univOf D,
      Spec.cmpIn (kwikSortDataset S D o1 s1).1 x y = Spec.cmpIn (kwikSortDataset S D o2 s2).1 x y := by
  intro x hx y hy
  rw [kwikSortDataset_sorted S D o1 h1 s1 _ (coherent_key S D hc) x hx y hy,
      kwikSortDataset_sorted S D o2 h2 s2 _ (coherent_key S D hc) x hx y hy]

/-- Identical rankings are returned unchanged whenever breaking or creating a tie costs something. -/
theorem C11_unanimous (S : Scheme) (hS : S.Valid) (ht : 0 < S.t0) (hb : 0 < S.b2)
    (r : Ranking) (hr : r.flatten.Nodup) (hne : ∀ b ∈ r, b ≠ []) (m : Nat) (hm : 0 < m)
    (order : List Nat) (horder : order.Perm (List.range (univOf (List.replicate m r)).length)) (script : List Nat) :
    ∀ x ∈ r.flatten, ∀ y ∈ r.flatten,
      Spec.cmpIn (kwikSortDataset S (List.replicate m r) order script).1 x y = Spec.cmpIn r x y := by
  have _ := hr; have _ := hne  -- not needed: `bucketIdx` reads the first bucket containing an element
  intro x hx y hy
  rw [cmpIn_eq r x y]
  apply kwikSortDataset_sorted S (List.replicate m r) order horder script (bIdx r)
  · intro p hp e he _
    exact whereSpec_replicate S hS ht hb r m hm p e ((mem_univOf_replicate hm p).mp hp)
      ((mem_univOf_replicate hm e).mp he)
  · exact (mem_univOf_replicate hm x).mpr hx
  · exact (mem_univOf_replicate hm y).mpr hy

/-! ### Non-vacuity -/

/-- An incoherent dataset (a 3-cycle of majority preferences): the result depends on the pivot script, and the
    property still holds for both runs (its third clause is then void). -/
example :
    let S : Scheme := ⟨0, 1, 1, 0, 1, 1, 1, 1, 0, 1, 1, 0⟩
    let D : Dataset := [[[0], [1], [2]], [[1], [2], [0]], [[2], [0], [1]]]
    Spec.coherent S D = false ∧
    (kwikSortDataset S D [0, 1, 2] [0]).1 = [[2], [0], [1]] ∧
    (kwikSortDataset S D [0, 1, 2] [1]).1 = [[0], [1], [2]] ∧
    Spec.C11.holds S D (kwikSortDataset S D [0, 1, 2] [0]).1 (kwikSortDataset S D [0, 1, 2] [0]).2 = true ∧
    Spec.C11.holds S D (kwikSortDataset S D [0, 1, 2] [1]).1 (kwikSortDataset S D [0, 1, 2] [1]).2 = true := by
  decide

/-- A coherent dataset whose first ranking is incomplete and contains a tie: two different scripts and initial
    orders give the same ranking with ties (buckets listed in a different internal order). -/
example :
    let S : Scheme := ⟨0, 1, 1, 0, 1, 1, 1, 1, 0, 1, 1, 0⟩
    let D : Dataset := [[[0, 1]], [[0], [1], [2]]]
    Spec.coherent S D = true ∧
    (kwikSortDataset S D [0, 1, 2] [0, 0]).1 = [[0, 1], [2]] ∧
    (kwikSortDataset S D [2, 1, 0] [1, 1]).1 = [[1, 0], [2]] ∧
    Spec.C11.holds S D (kwikSortDataset S D [0, 1, 2] [0, 0]).1 (kwikSortDataset S D [0, 1, 2] [0, 0]).2 = true := by
  decide

end Corankco
