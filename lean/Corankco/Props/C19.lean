import Corankco.Lemmas.C19
/-
  C19 — property theorems of the scoring scheme (helper lemmas live in Lemmas/C19.lean).
-/
namespace Corankco
open Model

set_option linter.unusedVariables false in
/-- The constructor accepts exactly the documented inputs and rejects with the documented exception, for every
    Python value and every positive scale. -/
theorem C19_accept_iff (scale : Int) (hs : 0 < scale) (v : PyVal) :
    newScheme scale v = Spec.newSpec scale v := by
  cases v with
  | list xs =>
    match xs with
    | [] => rfl
    | [p0] => cases p0 <;> rfl
    | p0 :: p1 :: _ :: _ => cases p0 <;> cases p1 <;> rfl
    | [p0, p1] =>
      cases p0 <;> cases p1 <;> first | exact C19.newScheme_two_lists scale _ _ | rfl
  | int _ => rfl
  | float _ => rfl
  | bool _ => rfl
  | pynone => rfl
  | str => rfl
  | other => rfl
  | nan => rfl
  | inf => rfl

/-- Every accepted scheme satisfies the validity constraints. -/
theorem C19_accepted_valid (scale : Int) (hs : 0 < scale) (v : PyVal) (S : Scheme)
    (h : newScheme scale v = .ok S) : S.Valid := by
  rw [C19_accept_iff scale hs v] at h
  unfold Spec.newSpec at h
  by_cases hsh : Spec.shapeOK v = true
  · by_cases hn : Spec.numsOK scale v = true
    · simp only [hsh, hn, Bool.not_true, Bool.false_eq_true, if_false] at h
      split at h
      · rename_i hc
        injection h with h
        subst h
        -- the shape: two lists of six
        have hv : ∃ l0 l1, v = .list [.list l0, .list l1] ∧ l0.length = 6 ∧ l1.length = 6 := by
          unfold Spec.shapeOK at hsh
          split at hsh
          · rename_i l0 l1
            simp only [Bool.and_eq_true, beq_iff_eq] at hsh
            exact ⟨l0, l1, rfl, hsh.1, hsh.2⟩
          · exact absurd hsh (by simp)
        obtain ⟨l0, l1, rfl, h0, h1⟩ := hv
        rw [C19.numsOK_eq] at hn
        rw [C19.values_eq] at hc ⊢
        simp only [Spec.entries, List.all_append, Bool.and_eq_true] at hn hc ⊢
        have ht : (List.map (C19.penVal scale) (l0 ++ l1)).take 6 = l0.map (C19.penVal scale) := by
          rw [List.map_append]; exact List.take_left' (by simp [h0])
        have hd : (List.map (C19.penVal scale) (l0 ++ l1)).drop 6 = l1.map (C19.penVal scale) := by
          rw [List.map_append]; exact List.drop_left' (by simp [h0])
        rw [ht, hd] at hc ⊢
        apply C19.constraintsOK_valid _ hc
        · rw [C19.ofLists_bList _ _ (by simp [h0])]
          exact C19.map_penVal_nonneg scale l0 hn.1
        · rw [C19.ofLists_tList _ _ (by simp [h1])]
          exact C19.map_penVal_nonneg scale l1 hn.2
      · exact absurd h (by simp)
    · simp [hsh, hn] at h
  · simp [hsh] at h

/-- Multiplying a valid scheme by a positive number yields the scheme with every penalty scaled, and it is valid. -/
theorem C19_mul (S : Scheme) (hS : S.Valid) (k : Int) (hk : 0 < k) :
    mulScheme S (some k) = .ok (Scheme.scale k S) ∧ (Scheme.scale k S).Valid := by
  have hv := C19.scale_valid S hS k hk
  exact ⟨C19.ofNums_valid _ hv, hv⟩

/-- Homogeneity: every Kemeny score is scaled by the same factor. -/
theorem C19_homogeneous (S : Scheme) (k : Int) (D : Dataset) (c : Ranking) :
    Spec.kemeny (Scheme.scale k S) D c = k * Spec.kemeny S D c := by
  unfold Spec.kemeny
  rw [← C19.isum_map_mul]
  congr 1
  apply List.map_congr_left
  intro r _
  exact C19.kemenyOne_scale k S c r

set_option linter.unusedVariables false in
/-- The scan decides proportionality (cross-multiplied form) on both vectors, full and complete-rankings variant. -/
theorem C19_equiv_spec (stop : Nat) (S1 S2 : Scheme) (h1 : S1.Valid) (h2 : S2.Valid) :
    equivGen stop S1 S2 = Spec.equivSpec stop S1 S2 := by
  rw [C19.equivGen_eq_scan, C19.scan_eq_proportional]
  rfl

/-- Cross-multiplied proportionality of non-negative vectors with a non-zero entry is proportionality by a
    positive rational factor k1/k2. -/
theorem C19_proportional_iff (l1 l2 : List Int) (hlen : l1.length = l2.length)
    (hnz : ∃ x ∈ l1, x ≠ 0) (hnn1 : ∀ x ∈ l1, 0 ≤ x) (hnn2 : ∀ x ∈ l2, 0 ≤ x) :
    Spec.proportional l1 l2 = true ↔
      ∃ k1 k2 : Int, 0 < k1 ∧ 0 < k2 ∧ ∀ p ∈ l1.zip l2, k2 * p.1 = k1 * p.2 := by
  constructor
  · exact C19.factor_of_proportional l1 l2 hlen hnz hnn1 hnn2
  · rintro ⟨k1, k2, p1, p2, h⟩
    exact C19.proportional_of_factor l1 l2 k1 k2 p1 p2 h

theorem forall_lt_six (P : Nat → Prop) :
    (∀ i, i < 6 → P i) ↔ P 0 ∧ P 1 ∧ P 2 ∧ P 3 ∧ P 4 ∧ P 5 := by
  constructor
  · intro h
    exact ⟨h 0 (by omega), h 1 (by omega), h 2 (by omega), h 3 (by omega), h 4 (by omega), h 5 (by omega)⟩
  · rintro ⟨h0, h1, h2, h3, h4, h5⟩ i hi
    have : i = 0 ∨ i = 1 ∨ i = 2 ∨ i = 3 ∨ i = 4 ∨ i = 5 := by omega
    rcases this with rfl | rfl | rfl | rfl | rfl | rfl <;> assumption

/-- Hence: equivalent iff one scheme is a positive multiple of the other on both penalty vectors. -/
theorem C19_equiv_iff (S1 S2 : Scheme) (h1 : S1.Valid) (h2 : S2.Valid) :
    isEquivalentTo S1 S2 = true ↔
      ∃ k1 k2 : Int, 0 < k1 ∧ 0 < k2 ∧
        (∀ i, i < 6 → k2 * S1.B i = k1 * S2.B i) ∧ (∀ i, i < 6 → k2 * S1.T i = k1 * S2.T i) := by
  unfold isEquivalentTo
  rw [C19_equiv_spec 6 S1 S2 h1 h2]
  unfold Spec.equivSpec
  have v1 := h1
  have v2 := h2
  unfold Scheme.Valid at v1 v2
  rw [C19_proportional_iff _ _ (by simp [Scheme.bList, Scheme.tList])
    ⟨S1.b1, by simp [Scheme.bList], by omega⟩
    (by
      simp only [Scheme.bList, Scheme.tList, List.take, List.cons_append, List.nil_append, List.mem_cons,
        List.not_mem_nil, or_false, forall_eq_or_imp, forall_eq]
      omega)
    (by
      simp only [Scheme.bList, Scheme.tList, List.take, List.cons_append, List.nil_append, List.mem_cons,
        List.not_mem_nil, or_false, forall_eq_or_imp, forall_eq]
      omega)]
  simp only [forall_lt_six, Scheme.B, Scheme.T]
  simp only [Scheme.bList, Scheme.tList, List.take, List.cons_append, List.nil_append, List.zip_cons_cons,
    List.zip_nil_right, List.mem_cons, List.not_mem_nil, or_false, forall_eq_or_imp, forall_eq, and_assoc]

/-- Equivalence is reflexive and symmetric on valid schemes. -/
theorem C19_equiv_refl (S : Scheme) (h : S.Valid) : isEquivalentTo S S = true := by
  rw [C19_equiv_iff S S h h]
  exact ⟨1, 1, by omega, by omega, fun _ _ => rfl, fun _ _ => rfl⟩

theorem C19_equiv_symm (S1 S2 : Scheme) (h1 : S1.Valid) (h2 : S2.Valid) :
    isEquivalentTo S1 S2 = isEquivalentTo S2 S1 := by
  rw [Bool.eq_iff_iff, C19_equiv_iff S1 S2 h1 h2, C19_equiv_iff S2 S1 h2 h1]
  constructor <;>
  · rintro ⟨k1, k2, p1, p2, hb, ht⟩
    exact ⟨k2, k1, p2, p1, fun i hi => (hb i hi).symm, fun i hi => (ht i hi).symm⟩

theorem unifying_valid : unifying.Valid := by decide
theorem pseudo_valid : pseudo.Valid := by decide
theorem induced_valid : induced.Valid := by decide
theorem extended_valid : extended.Valid := by decide

/-- a positive multiple is equivalent to the original -/
theorem equiv_scale (S : Scheme) (hS : S.Valid) (k : Int) (hk : 0 < k) :
    isEquivalentTo (Scheme.scale k S) S = true := by
  rw [C19_equiv_iff _ _ (C19.scale_valid S hS k hk) hS]
  refine ⟨k, 1, hk, by omega, fun i _ => ?_, fun i _ => ?_⟩
  · rw [C19.scale_B, Int.one_mul]
  · rw [C19.scale_T, Int.one_mul]

/-- a zero entry of a multiple facing a non-zero entry rules equivalence out -/
theorem not_equiv_of_B (S S' : Scheme) (hS : S.Valid) (hS' : S'.Valid) (k : Int) (hk : 0 < k) (i : Nat)
    (hi : i < 6) (h0 : S.B i = 0) (h1 : S'.B i ≠ 0) : isEquivalentTo (Scheme.scale k S) S' = false := by
  rw [Bool.eq_false_iff]
  intro h
  rw [C19_equiv_iff _ _ (C19.scale_valid S hS k hk) hS'] at h
  obtain ⟨k1, k2, p1, _, hb, _⟩ := h
  have e := hb i hi
  rw [C19.scale_B, h0, Int.mul_zero, Int.mul_zero] at e
  rcases Int.mul_eq_zero.mp e.symm with h | h
  · omega
  · exact h1 h

/-- Nicknames: positive multiples of the four presets get their nickname. -/
theorem C19_nickname (k : Int) (hk : 0 < k) :
    nickname (Scheme.scale k unifying) = 0 ∧ nickname (Scheme.scale k pseudo) = 1 ∧
    nickname (Scheme.scale k induced) = 2 ∧ nickname (Scheme.scale k extended) = 3 := by
  have uu := equiv_scale unifying unifying_valid k hk
  have pp := equiv_scale pseudo pseudo_valid k hk
  have ii := equiv_scale induced induced_valid k hk
  have ee := equiv_scale extended extended_valid k hk
  have pu := not_equiv_of_B pseudo unifying pseudo_valid unifying_valid k hk 5 (by omega) rfl (by decide)
  have iu := not_equiv_of_B induced unifying induced_valid unifying_valid k hk 4 (by omega) rfl (by decide)
  have ip := not_equiv_of_B induced pseudo induced_valid pseudo_valid k hk 4 (by omega) rfl (by decide)
  have eu := not_equiv_of_B extended unifying extended_valid unifying_valid k hk 2 (by omega) rfl (by decide)
  have ep := not_equiv_of_B extended pseudo extended_valid pseudo_valid k hk 2 (by omega) rfl (by decide)
  have ei := not_equiv_of_B extended induced extended_valid induced_valid k hk 2 (by omega) rfl (by decide)
  refine ⟨?_, ?_, ?_, ?_⟩
  · simp [nickname, uu]
  · simp [nickname, pu, pp]
  · simp [nickname, iu, ip, ii]
  · simp [nickname, eu, ep, ei, ee]

/-! ### Non-vacuity -/

/-- not a pair of lists: `InvalidScoringScheme`. -/
example : newScheme 1 (.list [.list [.int 0, .int 1], .pynone]) = .error .invalid := by decide
/-- NaN and infinities are floats but not non-negative real numbers: refused with the "non real" exception, wherever
    they stand (also where a comparison with NaN would let them through: `B[0] > 0`, `B[1] == 0`) -/
example : newScheme 1 (.list [.list [.nan, .int 1, .int 1, .int 0, .int 1, .int 1],
    .list [.int 1, .int 1, .int 0, .int 1, .int 1, .int 0]]) = .error .nonReal := by decide
example : newScheme 1 (.list [.list [.int 0, .inf, .int 1, .int 0, .int 1, .int 1],
    .list [.int 1, .int 1, .int 0, .int 1, .int 1, .int 0]]) = .error .nonReal := by decide
/-- wrong length: `InvalidScoringScheme`. -/
example : newScheme 1 (.list [.list [.int 0, .int 1, .int 1, .int 0, .int 1],
    .list [.int 1, .int 1, .int 0, .int 1, .int 1, .int 0]]) = .error .invalid := by decide
/-- a string penalty: `NonRealPositiveValuesScoringScheme`. -/
example : newScheme 1 (.list [.list [.int 0, .int 1, .str, .int 0, .int 1, .int 1],
    .list [.int 1, .int 1, .int 0, .int 1, .int 1, .int 0]]) = .error .nonReal := by decide
/-- a negative penalty: `NonRealPositiveValuesScoringScheme`. -/
example : newScheme 2 (.list [.list [.int 0, .int 1, .float (-1), .int 0, .int 1, .int 1],
    .list [.int 1, .int 1, .int 0, .int 1, .int 1, .int 0]]) = .error .nonReal := by decide
/-- `B[1] = 0`: `ForbiddenAssociationPenaltiesScoringScheme`. -/
example : newScheme 1 (.list [.list [.int 0, .int 0, .int 1, .int 0, .int 1, .int 1],
    .list [.int 1, .int 1, .int 0, .int 1, .int 1, .int 0]]) = .error .forbidden := by decide
/-- `T[0] ≠ T[1]`: `ForbiddenAssociationPenaltiesScoringScheme`. -/
example : newScheme 1 (.list [.list [.int 0, .int 1, .int 1, .int 0, .int 1, .int 1],
    .list [.int 1, .int 2, .int 0, .int 1, .int 1, .int 0]]) = .error .forbidden := by decide
/-- a valid input (ints, a float 0.5 at scale 2, a bool) is accepted, with the expected penalties. -/
example : newScheme 2 (.list [.list [.int 0, .int 1, .float 1, .int 0, .bool true, .float 1],
    .list [.int 1, .int 1, .bool false, .int 1, .int 1, .int 0]]) =
    .ok (Scheme.ofLists [0, 2, 1, 0, 2, 1] [2, 2, 0, 2, 2, 0]) := by decide

def exA : Scheme := Scheme.ofLists [0, 2, 3, 1, 4, 5] [6, 6, 0, 7, 7, 1]
def exA3 : Scheme := Scheme.ofLists [0, 6, 9, 3, 12, 15] [18, 18, 0, 21, 21, 3]
/-- proportional to `exA` on `B` (factor 3) but not on `T` (factor 1). -/
def exNear : Scheme := Scheme.ofLists [0, 6, 9, 3, 12, 15] [6, 6, 0, 7, 7, 1]

example : exA.Valid ∧ exA3.Valid ∧ exNear.Valid := by decide
/-- non-preset schemes -/
example : nickname exA = 4 ∧ nickname exA3 = 4 ∧ nickname exNear = 4 := by decide
/-- an equivalent pair -/
example : isEquivalentTo exA exA3 = true := by decide
/-- `B` vectors proportional -/
example : Spec.proportional exA.bList exNear.bList = true := by decide
/-- yet the pair is not equivalent: the shared coefficient fails on `T` -/
example : isEquivalentTo exA exNear = false := by decide
/-- on complete rankings as well -/
example : isEquivalentToOnComplete exA exA3 = true ∧ isEquivalentToOnComplete exA exNear = false := by decide

end Corankco
