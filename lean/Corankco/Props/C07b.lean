import Corankco.Lemmas.PartLoop
/-
  C07 — ParFront: the fusion loop and the consistency walk (helper lemmas live in Lemmas/PartLoop.lean).
-/
namespace Corankco
open Model Spec PartLoop

/-- the fusion loop: with the fuel `parFront` gives it, the loop has really finished: in the result every pair of
    consecutive groups is fully robust; the result merges consecutive groups of the input without reordering
    (the concatenation of the groups is unchanged and every result group is the concatenation of a block of
    consecutive input groups) -/
theorem C07_merge_post (t : Table) (comps : List (List Nat)) :
    let pf := parFront t comps
    (∀ k, k + 1 < pf.length → fullyRobust t (pf.getD k []) (pf.getD (k + 1) []) = true) ∧
    pf.flatten = comps.flatten ∧
    (∃ blocks : List (List (List Nat)), blocks.flatten = comps ∧ (∀ b ∈ blocks, b ≠ []) ∧ pf = blocks.map List.flatten) := by
  intro pf
  have hb := mergeLoop_blocks t comps (2 * comps.length + 2) 0
  refine ⟨?_, ?_, hb⟩
  · exact mergeLoop_robust t (2 * comps.length + 2) 0 comps (by omega) (fun k hk _ => by omega)
  · obtain ⟨blocks, h1, _, h3⟩ := hb
    show (mergeLoop t (2 * comps.length + 2) 0 comps).flatten = comps.flatten
    rw [h3, ← h1]
    exact List.flatten_flatten.symm

/-- hence (Prop form used by C07_all_optima): consecutive groups of the result are strictly robust, groups stay
    non-empty when the inputs are -/
theorem C07_merge_consec (t : Table) (comps : List (List Nat)) (hne : ∀ c ∈ comps, c ≠ []) :
    ConsecRobust t (parFront t comps) ∧ (∀ g ∈ parFront t comps, g ≠ []) := by
  obtain ⟨h1, _, blocks, hb1, hb2, hb3⟩ := C07_merge_post t comps
  refine ⟨consecRobust_of_getD t _ h1, ?_⟩
  intro g hg
  rw [hb3] at hg
  obtain ⟨b, hb, rfl⟩ := List.mem_map.mp hg
  obtain ⟨c, b', rfl⟩ := List.exists_cons_of_ne_nil (hb2 b hb)
  have hc : c ∈ comps := by
    rw [← hb1]; exact List.mem_flatten.mpr ⟨_, hb, by simp⟩
  have := hne c hc
  simp [this]

/-- merging consecutive groups keeps "no back arc" -/
theorem C07_merge_noback (t : Table) (comps : List (List Nat)) (h : NoBack t comps) : NoBack t (parFront t comps) := by
  obtain ⟨_, _, blocks, hb1, _, hb3⟩ := C07_merge_post t comps
  rw [noBack_iff_pairwise] at h ⊢
  rw [hb3]
  rw [← hb1] at h
  exact pairwise_map_flatten blocks h

/-- the consistency walk terminates on every ordered partition (non-empty pairwise disjoint groups) and consensus
    (pairwise disjoint buckets) as soon as the fuel exceeds the number of buckets, and returns true exactly for: same
    element set, and every element of an earlier group in a strictly earlier bucket than every element of a later
    group. (Empty consensus buckets are harmless: no hypothesis on them is needed.) -/
theorem C07_consistent_iff_strong (P : List (List Elem)) (c : Ranking)
    (hP : ∀ g ∈ P, g ≠ []) (hPd : P.flatten.Nodup) (hc : c.flatten.Nodup)
    (fuel : Nat) (hf : c.length + 1 ≤ fuel) :
    consistentWith P c fuel = some (consistentSpec P c) :=
  consistentWith_eq P c hP hPd hc fuel hf

/-- the consistency walk terminates on every ordered partition (non-empty pairwise disjoint groups) and consensus
    (pairwise disjoint buckets), and returns true exactly for: same element set, and every element of an earlier
    group in a strictly earlier bucket than every element of a later group -/
theorem C07_consistent_iff (P : List (List Elem)) (c : Ranking)
    (hP : ∀ g ∈ P, g ≠ []) (hPd : P.flatten.Nodup) (hc : c.flatten.Nodup) (hcne : ∀ b ∈ c, b ≠ [])
    (fuel : Nat) (hf : 2 * (P.length + c.length) + 4 ≤ fuel) :
    consistentWith P c fuel = some (consistentSpec P c) := by
  have _ := hcne  -- not needed: see `C07_consistent_iff_strong`
  exact C07_consistent_iff_strong P c hP hPd hc fuel (by omega)

end Corankco
