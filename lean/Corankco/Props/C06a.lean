import Corankco.Lemmas.L4
/-
  C06 (propositional part, all sizes): the ParCons partition admits an optimal consensus.
  L4 (restrict-and-concatenate) and the existence of an optimum. Helper lemmas live in Lemmas/L4.lean.
-/
namespace Corankco
open Model Spec

/-- the graph's "no arc from a later component to an earlier one" is the no-back hypothesis -/
theorem C06_graph (t : Table) (n : Nat) (hm : MirrorT t n) (comps : List (List Nat))
    (h : isTopoSCC t n comps = true) : NoBack t comps := by
  simp only [isTopoSCC, Bool.and_eq_true] at h
  obtain ⟨⟨hp, _⟩, hall⟩ := h
  intro p hpp i hi j hj
  obtain ⟨hin, hjn, hlt⟩ := L4.pair_facts n comps hp p hpp i hi j hj
  have hne : j ≠ i := by intro e; subst e; omega
  rw [List.all_eq_true] at hall
  have h0 := hall p hpp
  simp only [List.all_eq_true] at h0
  have h3 := h0 i hi j hj
  have h1 := hm i j hin hjn
  have h2 := hm j i hjn hin
  simp [hasArc, hne] at h3
  omega

/-- L4 (restrict-and-concatenate): along a partition without back arcs, any ranking can be regrouped so that every
    earlier group stands strictly before every later group, keeping all comparisons inside each group, at no extra
    cost -/
theorem L4_regroup (t : Table) (n : Nat) (hm : MirrorT t n) (groups : List (List Nat))
    (hp : isPartitionOf n groups = true) (hnb : NoBack t groups) (v : List Int) (hv : v.length = n) :
    ∃ v' : List Int, v'.length = n ∧ RespectsI groups v' ∧ scoreVec t v' ≤ scoreVec t v ∧
      (∀ g ∈ groups, ∀ i ∈ g, ∀ j ∈ g,
        compare (v'.getD i 0) (v'.getD j 0) = compare (v.getD i 0) (v.getD j 0)) := by
  refine ⟨L4.regroup (L4.gidx groups) v, by simp [hv], L4.respectsI_regroup n groups hp v hv,
    L4.scoreVec_regroup_le t n hm _ (L4.noBackG_gidx t n groups hp hnb) v hv, ?_⟩
  intro g hg i hi j hj
  obtain ⟨_, hnd, hmem⟩ := (L4.isPartitionOf_iff n groups).mp hp
  obtain ⟨a, ha⟩ := List.mem_iff_getElem?.mp hg
  have e1 := L4.gidx_eq groups hnd a g ha i hi
  have e2 := L4.gidx_eq groups hnd a g ha j hj
  have hin : i < n := (hmem i).mp (List.mem_flatten.mpr ⟨g, hg, hi⟩)
  have hjn : j < n := (hmem j).mp (List.mem_flatten.mpr ⟨g, hg, hj⟩)
  exact L4.compare_congr_diff _ _ _ _ (L4.regroup_diff _ v i j (by omega) (by omega) (by omega))

/-- C06: the ParCons partition admits an optimal consensus -/
theorem C06_partition (t : Table) (n : Nat) (hm : MirrorT t n) (comps : List (List Nat))
    (h : isTopoSCC t n comps = true) (v : List Int) (hv : Optimal t n v) :
    ∃ v', Optimal t n v' ∧ RespectsI comps v' := by
  have hnb := C06_graph t n hm comps h
  have hp : isPartitionOf n comps = true := by
    simp only [isTopoSCC, Bool.and_eq_true] at h
    exact h.1.1
  obtain ⟨v', hl, hr, hs, _⟩ := L4_regroup t n hm comps hp hnb v hv.1
  exact ⟨v', ⟨hl, fun w hw => Int.le_trans hs (hv.2 w hw)⟩, hr⟩

/-- an optimum exists (the score is bounded below by the sum of the pairwise minima, and integer-valued) -/
theorem exists_optimal (t : Table) (n : Nat) : ∃ v, Optimal t n v := by
  have key : ∀ k : Nat, ∀ v : List Int, v.length = n → (scoreVec t v - L4.lower t n).toNat = k →
      ∃ v, Optimal t n v := by
    intro k
    induction k using Nat.strongRecOn with
    | _ k ih =>
      intro v hv hk
      by_cases hopt : ∀ w : List Int, w.length = n → scoreVec t v ≤ scoreVec t w
      · exact ⟨v, hv, hopt⟩
      · obtain ⟨w, hw⟩ := Classical.not_forall.mp hopt
        obtain ⟨hw1, hw2⟩ := Classical.not_imp.mp hw
        have h1 := L4.lower_le t w
        rw [hw1] at h1
        have h2 := L4.lower_le t v
        rw [hv] at h2
        exact ih (scoreVec t w - L4.lower t n).toNat (by omega) w hw1 rfl
  exact key _ (List.replicate n 0) (by simp) rfl

end Corankco
