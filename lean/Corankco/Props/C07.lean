import Corankco.Props.C07a
import Corankco.Props.C07b
import Corankco.Props.C06a
/-
  C07 — composed statement: the ParFront partition computed by the (repaired) fusion loop from the graph's
  components is respected by EVERY optimal consensus. Pieces: `C06_graph` (no back arc between components),
  `C07_merge_post` / `C07_merge_consec` / `C07_merge_noback` (what the loop guarantees), `C07_all_optima`.
  `C07_consistent_iff` (the library's own consistency test decides exactly that relation) is in `Props/C07b.lean`.
-/
namespace Corankco
open Model Spec

/-- the fusion loop returns a partition of the same ids into non-empty groups -/
theorem C07_parfront_partition (t : Table) (n : Nat) (comps : List (List Nat))
    (hp : isPartitionOf n comps = true) : isPartitionOf n (parFront t comps) = true := by
  rw [L4.isPartitionOf_iff] at hp ⊢
  obtain ⟨hne, hnd, hmem⟩ := hp
  have hpost := C07_merge_post t comps
  have hfl : (parFront t comps).flatten = comps.flatten := hpost.2.1
  refine ⟨(C07_merge_consec t comps hne).2, ?_, ?_⟩
  · rw [hfl]; exact hnd
  · intro i; rw [hfl]; exact hmem i

/-- C07: for a table with the mirror law and components that are the SCCs in topological order, every optimal
    consensus ranks every element of an earlier ParFront group strictly before every element of a later one -/
theorem C07_parfront (t : Table) (n : Nat) (hm : MirrorT t n) (comps : List (List Nat))
    (h : isTopoSCC t n comps = true) (v : List Int) (hv : Optimal t n v) :
    RespectsI (parFront t comps) v := by
  have hp : isPartitionOf n comps = true := by
    simp only [isTopoSCC, Bool.and_eq_true] at h
    exact h.1.1
  have hne : ∀ c ∈ comps, c ≠ [] := ((L4.isPartitionOf_iff n comps).mp hp).1
  exact C07_all_optima t n hm (parFront t comps) (C07_parfront_partition t n comps hp)
    (C07_merge_noback t comps (C06_graph t n hm comps h)) (C07_merge_consec t comps hne).1 v hv

end Corankco
