import Corankco.Props.C13
import Corankco.Lemmas.C12
/-
  C13b — Copeland does not depend on the order of the input rankings: victory / equality / defeat counts are the
  same for every element, and the two consensuses place every pair of elements alike.
-/
namespace Corankco
open Model Spec

theorem C13_before_perm (S : Scheme) (D D' : Dataset) (hp : D.Perm D') (x y : Elem) :
    Spec.before S D x y = Spec.before S D' x y := by
  unfold Spec.before; exact isum_map_perm _ hp

theorem C13_after_perm (S : Scheme) (D D' : Dataset) (hp : D.Perm D') (x y : Elem) :
    Spec.after S D x y = Spec.after S D' x y := by
  unfold Spec.after; exact isum_map_perm _ hp

/-- the three counts of an element are those of the definition whatever the order of the rankings -/
theorem C13_counts_perm (S : Scheme) (D D' : Dataset) (hp : D.Perm D') (x : Elem) :
    Spec.copVictories S D x = Spec.copVictories S D' x := by
  have hu : ((univOf D).filter (· ≠ x)).Perm ((univOf D').filter (· ≠ x)) :=
    (C12.univOf_perm D D' hp).filter _
  unfold Spec.copVictories
  simp only [← C13_before_perm S D D' hp, ← C13_after_perm S D D' hp]
  refine Prod.ext ?_ (Prod.ext ?_ ?_)
  · exact (hu.filter _).length_eq
  · exact (hu.filter _).length_eq
  · exact (hu.filter _).length_eq

/-- Copeland's consensus places every pair of elements alike whatever the order of the input rankings. -/
theorem C13_perm (S : Scheme) (hS : S.Valid) (D D' : Dataset) (hp : D.Perm D') :
    ∀ x ∈ univOf D, ∀ y ∈ univOf D, cmpIn (copeland S D).1 x y = cmpIn (copeland S D').1 x y := by
  have hu := C12.univOf_perm D D' hp
  have h := C13_holds S hS D
  have h' := C13_holds S hS D'
  unfold Spec.C13.holds at h h'
  simp only [Bool.and_eq_true] at h h'
  have o := h.2
  have o' := h'.2
  unfold ordersBy at o o'
  simp only [Bool.and_eq_true, List.all_eq_true] at o o'
  intro x hx y hy
  have hx' : x ∈ univOf D' := hu.mem_iff.mp hx
  have hy' : y ∈ univOf D' := hu.mem_iff.mp hy
  have a := o.2 x hx y hy
  have b := o'.2 x hx' y hy'
  simp only [C13.sc_lookup S D x hx, C13.sc_lookup S D y hy] at a
  simp only [C13.sc_lookup S D' x hx', C13.sc_lookup S D' y hy'] at b
  have ex : C13.score2 S D' x = C13.score2 S D x := by
    unfold C13.score2; rw [C13_counts_perm S D D' hp x]
  have ey : C13.score2 S D' y = C13.score2 S D y := by
    unfold C13.score2; rw [C13_counts_perm S D D' hp y]
  simp only [ex, ey] at b
  revert a b
  generalize decide (C13.score2 S D x ≥ C13.score2 S D y) = p
  generalize decide (C13.score2 S D y ≥ C13.score2 S D x) = q
  cases cmpIn (copeland S D).1 x y <;> cases cmpIn (copeland S D').1 x y <;>
    cases p <;> cases q <;> simp

/-- Non-vacuity: two orders of the same three rankings, same counts and same consensus. -/
example :
    let S : Scheme := unifying
    let D : Dataset := [[[0, 1], [2]], [[2], [0]], [[1], [0]]]
    let D' : Dataset := [[[1], [0]], [[0, 1], [2]], [[2], [0]]]
    S.Valid ∧ univOf D' = [1, 0, 2] ∧ (copeland S D').1 = [[1, 0], [2]] ∧ (copeland S D).1 = [[0, 1], [2]] ∧
      cmpIn (copeland S D).1 0 2 = cmpIn (copeland S D').1 0 2 := by
  decide

end Corankco
