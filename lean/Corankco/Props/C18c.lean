import Corankco.Props.C18b
import Corankco.Lemmas.C18File
/-
  C18, file round trip for STRING elements: a dataset whose names are strings free of the format's delimiters and not
  readable by Python's `int()` survives `write_rankings` + `get_rankings_from_file` (the int parser refuses the first
  line that holds a name, the reader falls back to the string parser for every line).
-/
namespace Corankco
open Model

/-- a string element a file can hold and give back: non-empty, free of the delimiters of the format, of line breaks and
    backslashes, without blanks at its ends, and not readable by Python's `int()` -/
def FileStr (s : List Char) : Prop :=
  s ≠ [] ∧ (∀ c ∈ s, c ≠ '[' ∧ c ≠ ']' ∧ c ≠ '{' ∧ c ≠ '}' ∧ c ≠ ',' ∧ c ≠ ':' ∧ c ≠ '\n' ∧ c ≠ '\\') ∧
  pyStrip s = s ∧ pyInt s = none

def FileStrRanking (r : NRanking) : Prop :=
  (∀ b ∈ r, b ≠ []) ∧ r.flatten.Nodup ∧ ∀ x ∈ r.flatten, ∃ s, x = .str s ∧ FileStr s

/-- file round trip, string elements (empty rankings allowed, also a file of empty rankings only) -/
theorem C18_file_str (rs : List NRanking) (h : ∀ r ∈ rs, FileStrRanking r) :
    readFile (writeFile rs) = .ok rs := by
  -- what a name of the dataset looks like
  have hgood : ∀ r ∈ rs, ∀ x ∈ r.flatten, C18R.GoodText (nameText x) ∧ Name.str (nameText x) = x ∧
      pyInt (nameText x) = none ∧ ∀ c ∈ nameText x, c ≠ '\\' ∧ c ≠ '\n' := by
    intro r hr x hxr
    obtain ⟨s, rfl, hne, hdel, hstrip, hint⟩ := (h r hr).2.2 x hxr
    refine ⟨⟨hne, C18R.tight_of_pyStrip hstrip, ?_⟩, rfl, hint, ?_⟩
    · intro c hc
      have := hdel c hc
      exact ⟨this.1, this.2.1, this.2.2.1, this.2.2.2.1, this.2.2.2.2.1, this.2.2.2.2.2.1⟩
    · intro c hc
      have := hdel c hc
      exact ⟨this.2.2.2.2.2.2.2, this.2.2.2.2.2.2.1⟩
  -- the lines hold neither a backslash nor a line break
  have hchars : ∀ r ∈ rs, ∀ c ∈ renderRanking r, c ≠ '\\' ∧ c ≠ '\n' := by
    intro r hr c hc
    rcases C18R.mem_renderRanking hc with hd | ⟨x, hxr, hcx⟩
    · constructor <;> (rintro rfl; revert hd; decide)
    · exact (hgood r hr x hxr).2.2.2 c hcx
  -- the string parser gives every ranking back
  have hstr : (rs.map renderRanking).mapM (parseTies convStr) = .ok rs := by
    apply C18R.mapM_map_ok
    intro r hr
    obtain ⟨hb, hnd, -⟩ := h r hr
    have hid : ∀ b ∈ r, (b.map fun x => Name.str (nameText x)) = b := by
      intro b hb'
      rw [List.map_congr_left (g := id)]
      · simp
      · intro x hxb
        exact (hgood r hr x (List.mem_flatten.2 ⟨b, hb', hxb⟩)).2.1
    have hparse := C18R.parseTies_render convStr Name.str r false [] [] [] hb
      (fun x hxr => ⟨(hgood r hr x hxr).1, rfl⟩)
      (fun b hb' => by rw [hid b hb']; exact C18R.nodup_of_mem_flatten hnd hb')
      (by simp) (by simp) (Or.inl rfl)
    have hr' : (r.map fun b => b.map fun x => Name.str (nameText x)) = r := by
      rw [List.map_congr_left (g := id)]
      · simp
      · exact hid
    rw [hr'] at hparse
    simpa using hparse
  rw [C18F.readFile_write_eq rs hchars]
  -- the int parser: accepts an empty ranking, refuses any other with ValueError
  have hint : ∀ r ∈ rs, (r = [] ∧ parseTies convInt (renderRanking r) = .ok r) ∨
      (r ≠ [] ∧ parseTies convInt (renderRanking r) = .error .valueError) := by
    intro r hr
    cases r with
    | nil => exact Or.inl ⟨rfl, C18F.parseTies_render_nil convInt⟩
    | cons b rest =>
      right
      refine ⟨by simp, ?_⟩
      cases b with
      | nil => exact absurd rfl ((h _ hr).1 [] (by simp))
      | cons x xs =>
        apply C18F.parseTies_render_err convInt .valueError x xs rest (h _ hr).1
          (fun y hy => (hgood _ hr y hy).1)
        unfold convInt
        rw [(hgood _ hr x (by simp)).2.2.1]
  by_cases hall : ∀ r ∈ rs, r = []
  · have : (rs.map renderRanking).mapM (parseTies convInt) = .ok rs := by
      apply C18R.mapM_map_ok
      intro r hr
      rcases hint r hr with ⟨-, h2⟩ | ⟨h1, -⟩
      · exact h2
      · exact absurd (hall r hr) h1
    rw [this]
  · have : (rs.map renderRanking).mapM (parseTies convInt) = .error .valueError := by
      apply C18F.mapM_err
      · intro l hl
        obtain ⟨r, hr, rfl⟩ := List.mem_map.1 hl
        rcases hint r hr with ⟨-, h2⟩ | ⟨-, h2⟩
        · exact Or.inr ⟨r, h2⟩
        · exact Or.inl h2
      · have : ∃ r ∈ rs, r ≠ [] := by
          apply Classical.byContradiction
          intro hn
          apply hall
          intro r hr
          apply Classical.byContradiction
          intro hne
          exact hn ⟨r, hr, hne⟩
        obtain ⟨r, hr, hne⟩ := this
        refine ⟨renderRanking r, List.mem_map.2 ⟨r, hr, rfl⟩, ?_⟩
        rcases hint r hr with ⟨h1, -⟩ | ⟨-, h2⟩
        · exact absurd h1 hne
        · exact h2
    rw [this]
    exact hstr

/-- the hypotheses are satisfiable by a non-trivial dataset (ties, an empty ranking, a digit-free and a mixed name) -/
example : ∀ r ∈ ([[[.str "a".toList, .str "b7".toList], [.str "x y".toList]], [], [[.str "b7".toList]]] : List NRanking),
    FileStrRanking r := by
  intro r hr
  simp only [List.mem_cons, List.not_mem_nil, or_false] at hr
  rcases hr with rfl | rfl | rfl
  · refine ⟨by decide, by decide, ?_⟩
    intro x hx
    simp only [List.flatten_cons, List.flatten_nil, List.cons_append, List.nil_append, List.mem_cons,
      List.not_mem_nil, or_false] at hx
    rcases hx with rfl | rfl | rfl
    · exact ⟨_, rfl, by decide, by decide, by decide, by decide⟩
    · exact ⟨_, rfl, by decide, by decide, by decide, by decide⟩
    · exact ⟨_, rfl, by decide, by decide, by decide, by decide⟩
  · exact ⟨by simp, by simp, by simp⟩
  · refine ⟨by decide, by decide, ?_⟩
    intro x hx
    simp only [List.flatten_cons, List.flatten_nil, List.cons_append, List.nil_append, List.mem_cons,
      List.not_mem_nil, or_false] at hx
    subst hx
    exact ⟨_, rfl, by decide, by decide, by decide, by decide⟩

end Corankco
