import Corankco.Lemmas.Exact
import Corankco.Props.C06a
/-
  C05 (propositional part, all sizes): the 0/1 program the exact algorithms build is a faithful model of rank
  aggregation with ties — rankings are feasible points with objective = score, feasible points are rankings
  (by defeat counts), the decoder reads that ranking, and an optimal feasible point decodes to a global optimum,
  also under the PuLP pruning rows. Helper lemmas live in Lemmas/Exact.lean.
-/
namespace Corankco
open Model Spec

/-- every ranking with ties is a feasible 0/1 point of the binary + transitivity rows -/
theorem C05_asg_feasible (n : Nat) (v : List Int) (hv : v.length = n) :
    feasible (asgOfVec v) n (binaryRows n ++ transRows n) = true := by
  have _ := hv
  exact (Exact.feasible_iff _ n).mpr (Exact.feas_asgOfVec v n)

/-- and the objective there is its generalised Kemeny score -/
theorem C05_objective (t : Table) (n : Nat) (hm : MirrorT t n) (v : List Int) (hv : v.length = n) :
    evalLin (asgOfVec v) (objective t n) = scoreVec t v :=
  Exact.evalLin_objective_asgOfVec t n hm v hv

/-- conversely every feasible 0/1 point is the encoding of a ranking with ties — that of its defeat counts -/
theorem C05_feasible_is_ranking (n : Nat) (a : Asg) (h : feasible a n (binaryRows n ++ transRows n) = true) :
    let c : List Int := (defeatCounts a n).map fun k => Int.ofNat k
    ∀ i j, i < n → j < n → i ≠ j →
      a (.x i j) = asgOfVec c (.x i j) ∧ a (tvar i j) = asgOfVec c (tvar i j) := by
  intro c i j hi hj hij
  exact ((Exact.feasible_iff a n).mp h).is_ranking_cvec i j hi hj hij

/-- the decoder returns a partition of the ids into non-empty buckets ordered by increasing defeat count -/
theorem C05_decode (n : Nat) (hn : 0 < n) (a : Asg) (h : feasible a n (binaryRows n ++ transRows n) = true) :
    isPartitionOf n (decode a n) = true ∧
    ∀ i j, i < n → j < n →
      compare ((vecOfIds n (decode a n)).getD i 0) ((vecOfIds n (decode a n)).getD j 0) =
        compare ((defeatCounts a n).getD i 0) ((defeatCounts a n).getD j 0) :=
  ((Exact.feasible_iff a n).mp h).decode_spec hn

/-- hence the objective of a feasible point is the score of the decoded ranking -/
theorem C05_objective_decode (t : Table) (n : Nat) (hn : 0 < n) (hm : MirrorT t n) (a : Asg)
    (h : feasible a n (binaryRows n ++ transRows n) = true) :
    evalLin a (objective t n) = scoreVec t ((vecOfIds n (decode a n)).map fun k => Int.ofNat k) := by
  have hF := (Exact.feasible_iff a n).mp h
  rw [hF.objective_eq t hm]
  have hlen : (vecOfIds n (decode a n)).length = n := by simp [vecOfIds]
  unfold Exact.cvec
  apply Exact.scoreVec_congr_nat
  · rw [Exact.defeatCounts_length, hlen]
  · rw [Exact.defeatCounts_length]
    intro i j hi hj
    exact ((hF.decode_spec hn).2 i j hi hj).symm

/-- C05 (non-optimised model): IF the solver returns an optimal feasible point of the rows the model builds, the
    decoded ranking is a global optimum -/
theorem C05_optimal (t : Table) (n : Nat) (hn : 0 < n) (hm : MirrorT t n) (a : Asg)
    (hf : feasible a n (binaryRows n ++ transRows n) = true)
    (hmin : ∀ b : Asg, feasible b n (binaryRows n ++ transRows n) = true →
        evalLin a (objective t n) ≤ evalLin b (objective t n)) :
    Optimal t n ((vecOfIds n (decode a n)).map fun k => Int.ofNat k) := by
  refine ⟨by simp [vecOfIds], ?_⟩
  intro w hw
  rw [← C05_objective_decode t n hn hm a hf, ← C05_objective t n hm w hw]
  exact hmin _ (C05_asg_feasible n w hw)

/-- all optima: the optimal feasible points are exactly the encodings of the optimal rankings -/
theorem C05_all (t : Table) (n : Nat) (hm : MirrorT t n) (v : List Int) (hv : Optimal t n v) :
    feasible (asgOfVec v) n (binaryRows n ++ transRows n) = true ∧
    ∀ b : Asg, feasible b n (binaryRows n ++ transRows n) = true →
      evalLin (asgOfVec v) (objective t n) ≤ evalLin b (objective t n) := by
  refine ⟨C05_asg_feasible n v hv.1, ?_⟩
  intro b hb
  rw [C05_objective t n hm v hv.1, ((Exact.feasible_iff b n).mp hb).objective_eq t hm]
  exact hv.2 _ (Exact.cvec_length b n)

/-- PuLP pruning rows are sound: with the components in topological order, an optimal feasible point of the PRUNED
    problem still decodes to a global optimum (some optimum satisfies the extra rows, by the partition theorem) -/
theorem C05_optimal_pulp (t : Table) (n : Nat) (hn : 0 < n) (hm : MirrorT t n) (comps : List (List Nat))
    (hc : isTopoSCC t n comps = true) (a : Asg)
    (hf : feasible a n (rowsPulp n comps) = true)
    (hmin : ∀ b : Asg, feasible b n (rowsPulp n comps) = true →
        evalLin a (objective t n) ≤ evalLin b (objective t n)) :
    Optimal t n ((vecOfIds n (decode a n)).map fun k => Int.ofNat k) := by
  obtain ⟨v0, hv0⟩ := exists_optimal t n
  obtain ⟨v', hopt, hresp⟩ := C06_partition t n hm comps hc v0 hv0
  have hbase := ((Exact.feasible_pulp_iff a n comps).mp hf).1
  have hv'f : feasible (asgOfVec v') n (rowsPulp n comps) = true :=
    (Exact.feasible_pulp_iff _ n comps).mpr ⟨C05_asg_feasible n v' hopt.1, Exact.pulpPrune_asgOfVec comps v' hresp⟩
  refine ⟨by simp [vecOfIds], ?_⟩
  intro w hw
  rw [← C05_objective_decode t n hn hm a hbase]
  have h1 := hmin _ hv'f
  rw [C05_objective t n hm v' hopt.1] at h1
  exact Int.le_trans h1 (hopt.2 w hw)

/-- back-end selection (as repaired): PuLP exactly when the cplex module is unavailable -/
theorem C05_select : selectBackend false = .pulp ∧ selectBackend true = .cplex := ⟨rfl, rfl⟩

end Corankco
