import Corankco.Lemmas.C16
/-
  C16 — the dataset / ranking views are mutually consistent: for every ranking the constructor accepts, for every
  successfully constructed dataset, after every sequence of mutators, for the unified and the projected datasets.
  Property theorems only; the lemmas are in `Corankco/Lemmas/C16.lean`.

  Statement corrected with respect to the first draft: `C16_projection` carries the side condition `hk` (see there and
  the refuting instances below it); `C16_projection_raw` is the unconditional form.
-/
namespace Corankco
open Model Spec

/-- every ranking the constructor accepts reports views that agree with its buckets -/
theorem C16_ranking (buckets : List NBucket) (r : NRanking) (h : mkRanking buckets = .ok r) :
    rviewOK (viewOf r) = true :=
  C16L.rviewOK_viewOf (C16L.mkRanking_ok h).2

/-- construction: whenever the analysis succeeds, the dataset satisfies the invariant -/
theorem C16_init (rs : List NRanking) (d : DS) (h : analyse rs = .ok d) : C16.inv (snapOf d) = true :=
  C16L.init_inv h

/-- the three mutators: each either fails, leaving the dataset as it was, or yields a dataset satisfying the
    invariant -/
theorem C16_step (d : DS) (hd : C16.inv (snapOf d) = true) (op : DOp) :
    C16.inv (snapOf (applyDOp d op)) = true := by
  cases op with
  | removeElements els =>
    simp only [applyDOp]
    split
    · rename_i d' h; exact C16_init _ d' h
    · exact hd
  | removeRate n k =>
    simp only [applyDOp]
    split
    · rename_i d' h; exact C16_init _ d' h
    · exact hd
  | removeEmpty =>
    simp only [applyDOp]
    split
    · rename_i d' h; exact C16_init _ d' h
    · exact hd

/-- every reachable state: any sequence of mutators from any successfully constructed dataset -/
theorem C16_reachable (rs : List NRanking) (d : DS) (h : analyse rs = .ok d) (ops : List DOp) :
    C16.inv (snapOf (ops.foldl applyDOp d)) = true := by
  have h0 := C16_init rs d h
  clear h
  induction ops generalizing d with
  | nil => exact h0
  | cons op ops ih => exact ih (applyDOp d op) (C16_step d h0 op)

/-- unification: every unified ranking has consistent views and is the original followed by exactly its missing
    elements as one last bucket; the unified dataset satisfies the invariant and is complete -/
theorem C16_unified (rs : List NRanking) (d : DS) (h : analyse rs = .ok d) :
    unifiedOK d.universe d.rankings ((unifiedRankingsN d).map viewOf) = true ∧
    ∀ d', unifiedDataset d = .ok d' → (C16.inv (snapOf d') = true ∧ d'.complete = true) :=
  C16L.unified_all h

/-- projection: keeps exactly the rankings meeting the kept set, relative order preserved, invariant holds.

    CORRECTED STATEMENT.  `projOK` compares names up to `normName` on *both* sides, also when it decides which
    elements are kept, whereas `sub_problem_from_elements` selects on the names as they are.  The two agree exactly
    when no element of the dataset is `normName`-equal to a kept name without being kept itself (`hk`); without `hk`
    the first conjunct is false (instances below).  `hk` holds e.g. when the kept names are elements of an all-int
    dataset (`C16L.projHyp_of_int`) or, generally, when `normName` is injective on universe ∪ keep
    (`C16L.projHyp_of_inj`). -/
theorem C16_projection (rs : List NRanking) (d : DS) (h : analyse rs = .ok d) (keep : List Name) (d' : DS)
    (hk : ∀ x ∈ d.universe, (keep.map normName).contains (normName x) = true → keep.contains x = true)
    (hp : subProblemN d keep = .ok d') :
    projOK d.rankings keep d'.rankings = true ∧ C16.inv (snapOf d') = true :=
  C16L.projection_all h keep d' hk hp

/-- projection, unconditional form: with the kept elements selected on the raw names (as the implementation does),
    the projected dataset holds exactly the rankings meeting the kept set, in order, each equal — up to the
    homogenisation `normName` — to the original with the other elements removed; and the invariant holds. -/
theorem C16_projection_raw (rs : List NRanking) (d : DS) (h : analyse rs = .ok d) (keep : List Name) (d' : DS)
    (hp : subProblemN d keep = .ok d') :
    let expect := ((d.rankings.map fun r => (r.map fun b => b.filter fun x => keep.contains x).filter
        fun b => !b.isEmpty).filter fun r => !r.isEmpty).map fun r => r.map fun b => b.map normName
    let proj' := d'.rankings.map fun r => r.map fun b => b.map normName
    proj'.length = expect.length ∧ (proj'.zip expect).all (fun p => sameRankingN p.1 p.2) = true ∧
    C16.inv (snapOf d') = true := by
  intro expect proj'
  have hi := C16_init _ d' hp
  obtain ⟨_, rfl, _, _⟩ := C16L.analyse_ok h
  rw [C16L.subProblemN_eq] at hp
  obtain ⟨_, rfl, _, _⟩ := C16L.analyse_ok hp
  have hom : (∀ x ∈ (C16L.rebuilt rs).flatten.flatten, isIntName x = true) ∨
      (∀ x ∈ (C16L.rebuilt rs).flatten.flatten, isIntName x = false) := by
    rcases C16L.rebuilt_hom rs with h1 | ⟨h1, _⟩
    · exact Or.inl h1
    · exact Or.inr h1
  have := C16L.proj_raw (R := C16L.rebuilt rs) (fun x => keep.contains x) hom
  exact ⟨this.1, this.2, hi⟩

/-! ### the uncorrected projection statement is false -/

section Refute
private def s7 : Name := .str ['7']
private def s07 : Name := .str ['0', '7']
private def sa : Name := .str ['a']

/-- int dataset, kept names containing the digit string "7": the model keeps only `8`, `projOK` expects `7` too -/
example : (match analyse [[[.int 7], [.int 8]]] with
    | .ok d => (match subProblemN d [s7, .int 8] with
      | .ok d' => !projOK d.rankings [s7, .int 8] d'.rankings && C16.inv (snapOf d')
      | .error _ => false)
    | .error _ => false) = true := by decide

/-- string dataset with a leading zero: "07" is not kept, but `normName "07" = normName "7"` -/
example : (match analyse [[[s07], [sa]]] with
    | .ok d => (match subProblemN d [s7, sa] with
      | .ok d' => !projOK d.rankings [s7, sa] d'.rankings && C16.inv (snapOf d')
      | .error _ => false)
    | .error _ => false) = true := by decide

/-- even with the kept names taken from the universe -/
example : (match analyse [[[s07], [s7], [sa]]] with
    | .ok d => (match subProblemN d [s7, sa] with
      | .ok d' => [s7, sa].all (d.universe.contains ·) && !projOK d.rankings [s7, sa] d'.rankings
      | .error _ => false)
    | .error _ => false) = true := by decide

/-- "07" and "7" in different buckets of an all-integer-like ranking: the constructor of the derived dataset
    raises (so the projection theorems are about the successful case only) -/
example : (match analyse [[[s07], [s7]]] with | .error .valueError => true | _ => false) = true := by decide
example : (match analyse [[[s07], [s7], [sa]]] with
    | .ok d => (match subProblemN d [s7, s07] with | .error .valueError => true | _ => false)
    | .error _ => false) = true := by decide
end Refute

/-! ### non-vacuity: a concrete incomplete dataset with ties -/

section NonVacuity
/-- `[{1,2},{3}]`, `[{3},{4}]`, and an empty ranking -/
private def rs0 : List NRanking := [[[.int 1, .int 2], [.int 3]], [[.int 3], [.int 4]], []]
/-- mixed names: ints, digit strings, a proper string; a repeated member inside a bucket -/
private def rs1 : List NRanking :=
  [[[.int 1, .str ['2'], .int 1], [.str ['x']]], [[.str ['x']], [.str ['1']]]]

example : (match mkRanking [[.int 1, .int 2, .int 1], [.int 3]] with
    | .ok r => r == [[.int 1, .int 2], [.int 3]] && rviewOK (viewOf r) | .error _ => false) = true := by decide
example : (match mkRanking [[.int 1, .int 2], [.int 2]] with | .error .valueError => true | _ => false) = true := by
  decide

/-- the analysis succeeds, the dataset is incomplete and has ties, the invariant holds -/
example : (match analyse rs0 with
    | .ok d => !d.complete && !d.withoutTies && d.universe.length == 4 && C16.inv (snapOf d)
    | .error _ => false) = true := by decide

/-- the invariant is not trivially true: a wrong completeness flag, or a wrong matrix entry, violates it -/
example : (match analyse rs0 with
    | .ok d => !C16.inv { snapOf d with complete := true } &&
        !C16.inv { snapOf d with pos := (snapOf d).pos.map fun row => row.map (· + 1) } &&
        !C16.inv { snapOf d with idElem := (snapOf d).idElem.reverse.zip (snapOf d).univ |>.map fun p => (p.1.1, p.2) }
    | .error _ => false) = true := by decide

/-- each mutator succeeds on it and changes it -/
example : (match analyse rs0 with
    | .ok d =>
      (applyDOp d (.removeElements [.int 3])).rankings == [[[.int 1, .int 2]], [[.int 4]]] &&
      (applyDOp d (.removeRate 1 2)).rankings == [[[.int 3]], [[.int 3]]] &&
      (applyDOp d .removeEmpty).rankings.length == 2 &&
      C16.inv (snapOf ([DOp.removeEmpty, .removeElements [.int 3], .removeRate 1 2].foldl applyDOp d))
    | .error _ => false) = true := by decide

/-- removing everything raises `emptyDataset` and leaves the dataset as it was -/
example : (match analyse rs0 with
    | .ok d => (match removeElements d [.int 1, .int 2, .int 3, .int 4] with
        | .error .emptyDataset => true | _ => false) &&
      (applyDOp d (.removeElements [.int 1, .int 2, .int 3, .int 4])).rankings == d.rankings
    | .error _ => false) = true := by decide

/-- unification succeeds: missing elements are appended, the result is complete -/
example : (match analyse rs0 with
    | .ok d => unifiedRankingsN d ==
        [[[.int 1, .int 2], [.int 3], [.int 4]], [[.int 3], [.int 4], [.int 1, .int 2]],
         [[.int 1, .int 2, .int 3, .int 4]]] &&
      (match unifiedDataset d with | .ok d' => d'.complete && !d.complete | .error _ => false)
    | .error _ => false) = true := by decide

/-- projection succeeds, the side condition of `C16_projection` holds, one ranking is dropped -/
example : (match analyse rs0 with
    | .ok d => (match subProblemN d [.int 1, .int 4, .int 9] with
      | .ok d' => d'.rankings == [[[.int 1]], [[.int 4]]] && projOK d.rankings [.int 1, .int 4, .int 9] d'.rankings &&
          decide (∀ x ∈ d.universe, ([Name.int 1, .int 4, .int 9].map normName).contains (normName x) = true →
            [Name.int 1, .int 4, .int 9].contains x = true)
      | .error _ => false)
    | .error _ => false) = true := by decide

/-- mixed names: everything becomes a string, the duplicate inside a bucket disappears; projecting the proper
    string away turns the derived dataset into ints -/
example : (match analyse rs1 with
    | .ok d => d.rankings == [[[.str ['1'], .str ['2']], [.str ['x']]], [[.str ['x']], [.str ['1']]]] &&
        C16.inv (snapOf d) && !d.complete && !d.withoutTies &&
        (match subProblemN d [.str ['1'], .str ['2']] with
          | .ok d' => d'.rankings == [[[.int 1, .int 2]], [[.int 1]]] &&
              projOK d.rankings [.str ['1'], .str ['2']] d'.rankings && C16.inv (snapOf d')
          | .error _ => false)
    | .error _ => false) = true := by decide
end NonVacuity

end Corankco
