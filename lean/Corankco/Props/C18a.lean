import Corankco.Lemmas.C18Total
/-
  C18a — totality of the text parser: on every text (no length bound) `parse_ranking_with_ties` (both converters),
  `Ranking.from_string` and the file reader return a value or ValueError; the `while` loop terminates within the fuel
  the model gives it (`outOfFuel` is never returned), and `find` / slices are total and in range (no index error).
  Helper lemmas live in Lemmas/C18Total.lean.
-/
namespace Corankco
open Model

/-- find / slice are total and in range: the facts the loop relies on -/
theorem C18_pyFind_range (s : List Char) (c : Char) (a b : Int) :
    pyFind s c a b = -1 ∨ ((normIdx s.length a : Int) ≤ pyFind s c a b ∧ pyFind s c a b < normIdx s.length b ∧
      s[(pyFind s c a b).toNat]? = some c) :=
  C18.pyFind_range s c a b

/-- slice bounds are always within the text -/
theorem C18_normIdx_le (n : Nat) (i : Int) : normIdx n i ≤ n := C18.normIdx_le n i

/-- the next `en_str` of the loop is `-1` (the loop exits at the next round) or strictly larger than the current one,
    and always below the length of the text -/
theorem C18_next_en (s : List Char) (st' en rankingEnd : Int) (hen : 0 ≤ en) :
    pyFind s ']' (max (en + 1) (st' + 1)) rankingEnd = -1 ∨
      (en + 1 ≤ pyFind s ']' (max (en + 1) (st' + 1)) rankingEnd ∧
        pyFind s ']' (max (en + 1) (st' + 1)) rankingEnd < s.length) :=
  C18.next_en s st' en rankingEnd hen

/-- a bucket parse fails only the way its converter does -/
theorem C18_parseBucket_total (conv : List Char → Except PErr Name) (hconv : ∀ e, conv e ≠ .error .outOfFuel)
    (text : List Char) : parseBucket conv text ≠ .error .outOfFuel :=
  C18.parseBucket_ne_fuel conv hconv text

/-- the index loop always terminates within the fuel `parseTies` gives it: `en_str` strictly increases.
    (`en` is `-1` or an index of the text: `hen`, `hlt`; without `hlt` the statement is false — `s = "a"`, `st = -5`,
    `en = 5`, `fuel = 1` runs out of fuel. No condition on `rankingEnd` is needed.) -/
theorem C18_scan_terminates (conv : List Char → Except PErr Name) (hconv : ∀ e, conv e ≠ .error .outOfFuel)
    (s : List Char) (rankingEnd : Int) (ret : List NBucket) (st en oldEn : Int)
    (hen : -1 ≤ en) (hlt : en < s.length) (fuel : Nat) (hf : s.length + 1 - (en + 1).toNat < fuel) :
    scanLoop conv s rankingEnd fuel ret st en oldEn ≠ .error .outOfFuel :=
  C18.scan_terminates conv hconv s rankingEnd fuel ret st en oldEn hen hlt hf

/-- totality for any converter that does not itself run out of fuel -/
theorem C18_total (conv : List Char → Except PErr Name) (hconv : ∀ e, conv e ≠ .error .outOfFuel)
    (input : List Char) : parseTies conv input ≠ .error .outOfFuel := by
  unfold parseTies
  simp only
  split
  · simp
  · split
    · simp
    · generalize hs : (List.map (fun c => if c == '{' then '[' else if c == '}' then ']' else c)
        (pyStrip ((pySplit ':' (pyStrip input)).getLast?.getD []))) = s
      have hscan := C18_scan_terminates conv hconv s (pyRfind s ']') []
        (pyFindFrom s '[' (pyFindFrom s '[' 0 + 1)) (pyFindFrom s ']' 0) (pyFindFrom s ']' 0)
        (by unfold pyFindFrom; rcases C18.pyFind_lt s ']' 0 s.length with h | h <;> omega)
        (by unfold pyFindFrom; rcases C18.pyFind_lt s ']' 0 s.length with h | h <;> omega)
        (s.length + 2) (by omega)
      split
      · rename_i e he
        rw [he] at hscan
        simpa using hscan
      · split
        · simp
        · split <;> simp

theorem convStr_ne_fuel (e : List Char) : convStr e ≠ .error .outOfFuel := by simp [convStr]

theorem convInt_ne_fuel (e : List Char) : convInt e ≠ .error .outOfFuel := by
  unfold convInt
  split <;> simp

/-- totality: on every text the parser returns a value or ValueError, for both converters -/
theorem C18_total_str (input : List Char) : parseTies convStr input ≠ .error .outOfFuel :=
  C18_total convStr convStr_ne_fuel input

theorem C18_total_int (input : List Char) : parseTies convInt input ≠ .error .outOfFuel :=
  C18_total convInt convInt_ne_fuel input

/-- same for Ranking.from_string and for the file reader -/
theorem C18_total_fromString (input : List Char) : fromString input ≠ .error .outOfFuel := by
  unfold fromString
  split
  · rename_i e he
    have := C18_total_str input
    rw [he] at this
    simpa using this
  · simp only
    split <;> simp

theorem C18_total_readFile (text : List Char) : readFile text ≠ .error .outOfFuel := by
  unfold readFile
  simp only
  split
  · simp
  · exact C18.mapM_ne_fuel _ C18_total_str _
  · rename_i e hne he
    have := C18.mapM_ne_fuel _ C18_total_int
      ((pySplit '\n' (readFile.unescape text)).filter fun l => !(pyStrip l).isEmpty && l.head? != some '%')
    cases e with
    | valueError => exact absurd rfl hne
    | outOfFuel => exact absurd he this

end Corankco
