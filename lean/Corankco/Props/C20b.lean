import Corankco.Spec.C20
/-
  C20b — uniform permutation datasets (`Ranking.uniform_permutations`): whatever permutation of `1..n` the
  random source (`shuffle`) produces, the delivered rankings satisfy `C20.holdsUniform`.
-/
namespace Corankco
open Model Spec

/-- model of `Ranking.uniform_permutations`: each ranking is a permutation (supplied by the random source) of 1..n,
    one element per bucket -/
def uniformRankings (perms : List (List Nat)) : List Ranking := perms.map fun p => p.map fun x => [x]

theorem uniformRankings_flatten (p : List Nat) : (p.map fun x => [x]).flatten = p := by
  induction p with
  | nil => rfl
  | cons a p ih => simp [ih]

theorem C20_uniform (n : Nat) (perms : List (List Nat)) (hp : ∀ p ∈ perms, p.Perm ((List.range n).map (· + 1))) :
    C20.holdsUniform n perms.length (uniformRankings perms) = true := by
  unfold C20.holdsUniform uniformRankings
  simp only [List.length_map, beq_self_eq_true, Bool.true_and, List.all_eq_true, Bool.and_eq_true,
    decide_eq_true_eq]
  intro r hr
  obtain ⟨p, hpm, rfl⟩ := List.mem_map.mp hr
  have h := hp p hpm
  rw [uniformRankings_flatten]
  refine ⟨⟨⟨?_, ?_⟩, ?_⟩, ?_⟩
  · intro b hb
    obtain ⟨x, _, rfl⟩ := List.mem_map.mp hb
    rfl
  · rw [h.length_eq]
    simp
  · rw [h.nodup_iff, List.nodup_iff_pairwise_ne, List.pairwise_map]
    exact (List.pairwise_lt_range (n := n)).imp fun hlt e => by omega
  · intro x hx
    obtain ⟨i, hi, rfl⟩ := List.mem_map.mp (h.mem_iff.mp hx)
    have := List.mem_range.mp hi
    exact ⟨Nat.succ_le_succ (Nat.zero_le i), this⟩

/-- Non-vacuity: three shuffles of `1..4`. -/
example : C20.holdsUniform 4 3 (uniformRankings [[1, 2, 3, 4], [4, 2, 1, 3], [3, 1, 4, 2]]) = true := by decide

/-- and a list that is not a permutation of `1..n` is rejected. -/
example : C20.holdsUniform 3 1 (uniformRankings [[0, 1, 2]]) = false ∧
    C20.holdsUniform 3 1 (uniformRankings [[1, 2, 2]]) = false := by decide

end Corankco
