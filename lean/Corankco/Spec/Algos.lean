import Corankco.Spec.Kemeny
import Corankco.Spec.C19
import Corankco.Model.Algos
/-
  Declarative specifications (decidable predicates on outputs) for C03, C04, C10, C11, C12, C13.
-/
namespace Corankco
namespace Spec
open Model

/-- a consensus ranking: non-empty, pairwise disjoint buckets whose union is exactly `univ`. -/
def wellFormedRanking (univ : List Elem) (r : Ranking) : Bool :=
  r.all (fun b => !b.isEmpty) && decide r.flatten.Nodup &&
  r.flatten.all (fun x => univ.contains x) && univ.all (fun x => r.flatten.contains x)

def C03.holds (D : Dataset) (atMostOne : Bool) (out : List Ranking) : Bool :=
  decide (out.length ≥ 1) && (!atMostOne || out.length == 1) && out.all (wellFormedRanking (univOf D))

/-- reported score present, non-negative, and equal to the true score of every returned ranking. -/
def C04.holds (S : Scheme) (D : Dataset) (out : List Ranking) (reported : Option Int) : Bool :=
  match reported with
  | none => false
  | some v => decide (0 ≤ v) && out.all fun r => kemeny S D r == v

/-- position of the bucket of `x` in `r` as a comparison key; elements must be ranked. -/
def cmpIn (r : Ranking) (x y : Elem) : Ordering :=
  compare ((bucketIdx r x).getD 0) ((bucketIdx r y).getD 0)

/-- `r` orders the elements of `univ` by the total preorder `le` (ascending), tied exactly on equivalence. -/
def ordersBy (univ : List Elem) (le : Elem → Elem → Bool) (r : Ranking) : Bool :=
  wellFormedRanking univ r &&
  univ.all fun x => univ.all fun y =>
    match cmpIn r x y with
    | .lt => le x y && !le y x
    | .eq => le x y && le y x
    | .gt => le y x && !le x y

/-! ### C12 Borda -/

def isUnifyingFamily (S : Scheme) : Bool := equivSpec 6 S unifying || equivSpec 6 S unifyingHalf
def isInducedFamily (S : Scheme) : Bool := equivSpec 6 S induced || equivSpec 6 S inducedHalf

/-- score of `x` in `r`: number of elements strictly before it, or its bucket index; `none` if unranked. -/
def bordaScoreIn (useBid : Bool) (r : Ranking) (x : Elem) : Option Nat :=
  match bucketIdx r x with
  | none => none
  | some i => some (if useBid then i else ((r.take i).map List.length).sum)

/-- (sum, count) over the rankings that count for `x`. -/
def bordaSumCount (useBid : Bool) (rs : Dataset) (x : Elem) : Nat × Nat :=
  rs.foldl (fun acc r => match bordaScoreIn useBid r x with
    | none => acc
    | some s => (acc.1 + s, acc.2 + 1)) (0, 0)

def C12.holds (useBid : Bool) (S : Scheme) (D : Dataset) (out : Option Ranking) : Bool :=
  let accepted := isComplete D || isUnifyingFamily S || isInducedFamily S
  match out with
  | none => !accepted
  | some r =>
    accepted &&
    let rs := if isUnifyingFamily S then unifiedRankings D else D
    let tbl := (univOf D).map fun x => (x, bordaSumCount useBid rs x)
    let m := fun x => (tbl.lookup x).getD (0, 0)
    ordersBy (univOf D) (fun x y => (m x).1 * (m y).2 ≤ (m y).1 * (m x).2) r

/-! ### C13 Copeland -/

def copVictories (S : Scheme) (D : Dataset) (x : Elem) : Nat × Nat × Nat :=
  let others := (univOf D).filter (· ≠ x)
  ((others.filter fun y => decide (before S D x y < after S D x y)).length,
   (others.filter fun y => decide (before S D x y = after S D x y)).length,
   (others.filter fun y => decide (before S D x y > after S D x y)).length)

def C13.holds (S : Scheme) (D : Dataset) (out : Ranking) (scores2 : List Nat) (res : List (Nat × Nat × Nat)) : Bool :=
  let univ := univOf D
  let n := univ.length
  let vs := univ.map (copVictories S D)
  let tbl := univ.zip (vs.map fun v => 2 * v.1 + v.2.1)
  let sc := fun x => (tbl.lookup x).getD 0
  res == vs &&
  scores2 == univ.map sc &&
  res.all (fun r => r.1 + r.2.1 + r.2.2 + 1 == n) &&
  scores2.sum == n * (n - 1) &&
  ordersBy univ (fun x y => sc x ≥ sc y) out

/-! ### C10 PickAPerm -/

def sameRanking (a b : Ranking) : Bool :=
  a.length == b.length && (a.zip b).all fun p => p.1.all (p.2.contains ·) && p.2.all (p.1.contains ·)

def C10.holds (atMostOne : Bool) (S : Scheme) (D : Dataset) (out : Option (List Ranking × Option Int)) : Bool :=
  let accepted := isComplete D || equivSpec 6 S unifying
  match out with
  | none => !accepted
  | some (rs, reported) =>
    accepted &&
    let inputs := if isComplete D then D else unifiedRankings D
    let best := (inputs.map (kemeny S D)).foldl min (kemeny S D (inputs.headD []))
    decide (rs.length ≥ 1) && (!atMostOne || rs.length == 1) &&
    rs.all (fun r => inputs.any (sameRanking r) && kemeny S D r == best) &&
    reported == some best &&
    (atMostOne || inputs.all fun i => kemeny S D i != best || rs.any (sameRanking i))

/-! ### C11 KwikSort -/

/-- cheapest placement of `e` relative to pivot `p` from the definition: tie preferred, then before (-1), else after. -/
def whereSpec (S : Scheme) (D : Dataset) (p e : Elem) : Int :=
  let cb := before S D e p
  let ca := after S D e p
  let cs := tied S D e p
  if cs ≤ cb then (if cs ≤ ca then 0 else 1) else if cb ≤ ca then -1 else 1

def ordToInt : Ordering → Int
  | .lt => -1 | .eq => 0 | .gt => 1

/-- number of elements that must stand strictly before `x`. -/
def cntBefore (S : Scheme) (D : Dataset) (x : Elem) : Nat :=
  ((univOf D).filter fun y => y ≠ x && whereSpec S D y x == 1).length

/-- the cheapest placements cohere into a ranking with ties. -/
def coherent (S : Scheme) (D : Dataset) : Bool :=
  (univOf D).all fun x => (univOf D).all fun y =>
    x == y || whereSpec S D y x == ordToInt (compare (cntBefore S D x) (cntBefore S D y))

/-- `steps`: the (remaining, pivot) pair of every recursion step, as elements. -/
def C11.holds (S : Scheme) (D : Dataset) (out : Ranking) (steps : List (List Elem × Elem)) : Bool :=
  wellFormedRanking (univOf D) out &&
  (steps.all fun st => st.1.all fun e =>
    e == st.2 || ordToInt (cmpIn out e st.2) == whereSpec S D st.2 e) &&
  (!coherent S D || ordersBy (univOf D) (fun x y => cntBefore S D x ≤ cntBefore S D y) out)

end Spec
end Corankco
