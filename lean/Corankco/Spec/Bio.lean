import Corankco.Spec.C02
import Corankco.Spec.Algos
import Corankco.Model.BioConsert
namespace Corankco
namespace Spec
open Model

/-- keys of a single-element move: the others stay at `2·bucket+1`, the moved element gets key `k`
    (`2j+1` = join existing bucket `j`, `2p` = new singleton bucket just before old bucket `p`). -/
def moveKeys (v : List Nat) (x : Nat) (k : Int) : List Int :=
  v.mapIdx fun i b => if i = x then k else 2 * (Int.ofNat b) + 1

/-- dense bucket numbering of a `Nat` vector: the used ids are downward closed. -/
def DenseN (r : List Nat) : Prop := ∀ v ∈ r, ∀ b, b < v → b ∈ r

/-- mirror law on the first `n` ids. -/
def MirrorT (t : Table) (n : Nat) : Prop :=
  ∀ i j, i < n → j < n → t.bef i j = t.aft j i ∧ t.tie i j = t.tie j i

/-- inclusive sum `l[lo] + .. + l[hi]` (0 when `hi < lo`). -/
def sumRange (l : List Int) (lo hi : Nat) : Int :=
  isum ((List.range (hi + 1 - lo)).map fun i => l.getD (lo + i) 0)

/-- what the in-place prefix accumulation of `_search_to_change_bucket` leaves in `change[j]`:
    the cumulative delta of moving the element from bucket `b` into the existing bucket `j`. -/
def changeTo (change : List Int) (b j : Nat) : Int :=
  if j > b then sumRange change (b + 1) j else sumRange change j (b - 1)

/-- same for `_search_to_add_bucket`: new singleton bucket just before old bucket `p`. -/
def addTo (add : List Int) (b p : Nat) : Int :=
  if p > b then sumRange add (b + 1) p else sumRange add p b

/-- no single-element move improves the score of `v` by more than `τ`. -/
def localOptVec (t : Table) (τ : Int) (v : List Nat) : Bool :=
  let base := scoreVecN t v
  let maxId := v.foldl max 0
  (List.range v.length).all fun x =>
    let b := v.getD x 0
    ((List.range (maxId + 1)).all fun j => j == b || decide (scoreVec t (moveKeys v x (2 * (Int.ofNat j) + 1)) ≥ base - τ)) &&
    ((List.range (maxId + 2)).all fun p => decide (scoreVec t (moveKeys v x (2 * (Int.ofNat p))) ≥ base - τ))

def C08.holds (S : Scheme) (D : Dataset) (τ : Int) (out : List Ranking) : Bool :=
  out.all fun r => wellFormedRanking (univOf D) r && localOptVec (specTable S D) τ (rowOf (univOf D) r)

/-- all returned rankings share the reported score, which is at most the score of every starting point. -/
def C09.holds (S : Scheme) (D : Dataset) (out : List Ranking) (reported : Int) (starts : List Ranking) : Bool :=
  out.all (fun r => kemeny S D r == reported) && starts.all fun s => decide (reported ≤ kemeny S D s)

/-- default starting points: every input ranking completed with its missing elements in a last bucket, and the
    all-tied ranking. -/
def defaultStarts (D : Dataset) : List Ranking := unifiedRankings D ++ [[univOf D]]

end Spec
end Corankco
