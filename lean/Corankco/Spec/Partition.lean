import Corankco.Spec.C02
import Corankco.Model.Partition
namespace Corankco
namespace Spec
open Model

def sameSet (a b : List Nat) : Bool := a.all (b.contains ·) && b.all (a.contains ·)

/-- `groups` is a partition of `0..n-1` into non-empty groups. -/
def isPartitionOf (n : Nat) (groups : List (List Nat)) : Bool :=
  groups.all (fun g => !g.isEmpty) && decide groups.flatten.Nodup && sameSet groups.flatten (List.range n)

def hasArc (t : Table) (i j : Nat) : Bool :=
  i != j && (decide (t.aft i j > t.bef i j) || decide (t.aft i j > t.tie i j))

/-- ids reachable from `src` inside `within` (fuel = size). -/
def reach (t : Table) (within : List Nat) (src : Nat) : List Nat :=
  (List.range within.length).foldl (fun seen _ =>
    seen ++ (within.filter fun j => !seen.contains j && seen.any fun i => hasArc t i j)) [src]

def stronglyConnected (t : Table) (g : List Nat) : Bool :=
  g.all fun i => sameSet (reach t g i) g

/-- pairs of groups (earlier, later). -/
def groupPairs (groups : List (List Nat)) : List (List Nat × List Nat) := pairs groups

/-- igraph's contract: the components are the SCCs in a topological order of the condensation. -/
def isTopoSCC (t : Table) (n : Nat) (comps : List (List Nat)) : Bool :=
  isPartitionOf n comps && comps.all (stronglyConnected t) &&
  (groupPairs comps).all fun p => p.1.all fun i => p.2.all fun j => !hasArc t j i

/-- `v` ranks every element of an earlier group strictly before every element of a later group. -/
def respects (groups : List (List Nat)) (v : List Nat) : Bool :=
  (groupPairs groups).all fun p => p.1.all fun i => p.2.all fun j => decide (v.getD i 0 < v.getD j 0)

/-- bucket-id vector (over ids) of a ranking of ids. -/
def vecOfIds (n : Nat) (c : List (List Nat)) : List Nat :=
  (List.range n).map fun i => (bidIn c i).toNat

/-- `merged` is obtained from `comps` by merging consecutive groups without reordering. -/
def mergesConsecutive : List (List Nat) → List (List Nat) → Bool
  | [], [] => true
  | [], _ :: _ => false
  | g :: gs, comps =>
    -- take the shortest prefix of comps whose total size reaches |g|
    let rec take (k : Nat) (acc : List Nat) (rest : List (List Nat)) : List Nat × List (List Nat) :=
      match k, rest with
      | 0, _ => (acc, rest)
      | _, [] => (acc, [])
      | k + 1, c :: cs => if acc.length ≥ g.length then (acc, c :: cs) else take k (acc ++ c) cs
    let (u, rest) := take comps.length [] comps
    -- at least one component must be consumed
    sameSet u g && u.length == g.length && decide (rest.length < comps.length) && mergesConsecutive gs rest
termination_by merged _ => merged.length

/-- C06 on ParCons' observable output for table `t` over `n` ids with observed components `comps`. -/
def C06.holds (t : Table) (n : Nat) (comps : List (List Nat)) (bound : Nat)
    (partition : List (List Nat)) (consensus : List (List Nat)) (flag : Bool) : Bool :=
  let delegated := comps.any fun c => !canBeAllTied c t && decide (c.length > bound)
  let v := vecOfIds n consensus
  isPartitionOf n partition &&
  (partition.length == comps.length && (partition.zip comps).all fun p => sameSet p.1 p.2) &&
  (optima t n).any (respects partition) &&
  isPartitionOf n consensus && respects partition v &&
  (flag == !delegated) &&
  (!flag || scoreN t v == optScore t n)

/-- any consensus marked necessarily optimal is a global minimiser. -/
def flagTruthful (t : Table) (n : Nat) (consensus : List (List Nat)) (flag : Bool) : Bool :=
  !flag || scoreN t (vecOfIds n consensus) == optScore t n

/-- C07 on the ParFront partition. -/
def C07.holds (t : Table) (n : Nat) (comps : List (List Nat)) (pf : List (List Nat)) : Bool :=
  isPartitionOf n pf && mergesConsecutive pf comps && (optima t n).all (respects pf)

/-- the relation `consistent_with` is meant to decide. -/
def consistentSpec (P : List (List Elem)) (c : Ranking) : Bool :=
  sameSet P.flatten c.flatten &&
  (pairs P).all fun p => p.1.all fun x => p.2.all fun y =>
    match bucketIdx c x, bucketIdx c y with
    | some i, some j => decide (i < j)
    | _, _ => false

/-! ### propositional notions used by the theorems (C05, C06, C07) -/

/-- score of the key vector `v` restricted to the pairs of the id list `ids`. -/
def scoreIds (t : Table) (ids : List Nat) (v : List Int) : Int :=
  isum ((pairs ids).map fun p => sel t v p.1 p.2)

/-- `v` (any integer key vector of length `n`) is a global minimiser. -/
def Optimal (t : Table) (n : Nat) (v : List Int) : Prop :=
  v.length = n ∧ ∀ w : List Int, w.length = n → scoreVec t v ≤ scoreVec t w

/-- `v` is a minimiser of the sub-problem on `ids` (only comparisons among `ids` matter). -/
def OptimalOn (t : Table) (ids : List Nat) (v : List Int) : Prop :=
  ∀ w : List Int, w.length = v.length → scoreIds t ids v ≤ scoreIds t ids w

/-- no arc from a later group to an earlier one: for `i` earlier and `j` later, placing `i` before `j` is a
    cheapest option. -/
def NoBack (t : Table) (groups : List (List Nat)) : Prop :=
  ∀ p ∈ pairs groups, ∀ i ∈ p.1, ∀ j ∈ p.2, t.bef i j ≤ t.aft i j ∧ t.bef i j ≤ t.tie i j

/-- every cross pair of two consecutive groups is a robust arc (strictly cheapest to place before). -/
def ConsecRobust (t : Table) : List (List Nat) → Prop
  | g1 :: g2 :: rest => (∀ i ∈ g1, ∀ j ∈ g2, t.bef i j < t.aft i j ∧ t.bef i j < t.tie i j) ∧ ConsecRobust t (g2 :: rest)
  | _ => True

/-- the key vector ranks every element of an earlier group strictly before every element of a later group. -/
def RespectsI (groups : List (List Nat)) (v : List Int) : Prop :=
  ∀ p ∈ pairs groups, ∀ i ∈ p.1, ∀ j ∈ p.2, v.getD i 0 < v.getD j 0

end Spec
end Corankco
