import Corankco.Spec.Kemeny
import Corankco.Model.Pairwise
namespace Corankco
namespace Spec

/-- The table the property describes, indexed by ids (positions in `univOf D`). -/
def specTable (S : Scheme) (D : Dataset) : Model.Table :=
  (univOf D).map fun x => (univOf D).map fun y =>
    if x = y then (0, 0, 0) else (before S D x y, after S D x y, tied S D x y)

def mirrorOK (t : Model.Table) : Bool :=
  (List.range t.length).all fun i => (List.range t.length).all fun j =>
    t.bef i j == t.aft j i && t.tie i j == t.tie j i

/-- C02 as a decidable predicate on an (implementation or model) output:
    `tp` built from positions, `tb` from bucket ids, `c` a complete candidate. -/
def C02.holds (S : Scheme) (D : Dataset) (c : Ranking) (tp tb : Model.Table) : Bool :=
  tp == specTable S D && tb == specTable S D && mirrorOK tp &&
  Model.scoreVec tp (Model.vecOf (univOf D) c) == kemeny S D c

end Spec
end Corankco
