import Corankco.Spec.Kemeny
namespace Corankco
namespace Spec

/-- C01 as a decidable predicate on an output (`some score` / `none` = refused with the dedicated exception). -/
def C01.holds (S : Scheme) (D : Dataset) (c : Ranking) (out : Option Int) : Bool :=
  if covers c D then out == some (kemeny S D c) else out == none

end Spec
end Corankco
