import Corankco.Model.Basic
/-
  L1 — the *definition* of the generalised Kemeny score (the specification every algorithmic model
  is compared with) and L2 — the pairwise cost table defined from it.
-/
namespace Corankco
namespace Spec

/-- Status of the ordered pair `(x, y)` in the input ranking `r`:
    0 `x` before `y`, 1 `x` after `y`, 2 tied, 3 only `x` ranked, 4 only `y` ranked, 5 none ranked. -/
def status (r : Ranking) (x y : Elem) : Nat :=
  match bucketIdx r x, bucketIdx r y with
  | some i, some j => if i < j then 0 else if j < i then 1 else 2
  | some _, none => 3
  | none, some _ => 4
  | none, none => 5

/-- Penalty of the unordered pair `{x, y}` of candidate elements for one input ranking `r`:
    the `B` entry of the pair's status, read from the element placed first in `c`, when `c`
    orders them; the `T` entry when `c` ties them. Elements outside `c` contribute nothing. -/
def pen (S : Scheme) (r c : Ranking) (x y : Elem) : Int :=
  match bucketIdx c x, bucketIdx c y with
  | some i, some j =>
      if i < j then S.B (status r x y)
      else if j < i then S.B (status r y x)
      else S.T (status r x y)
  | _, _ => 0

/-- Score of candidate `c` against one ranking. -/
def kemenyOne (S : Scheme) (c r : Ranking) : Int :=
  isum ((pairs c.flatten).map fun p => pen S r c p.1 p.2)

/-- The generalised Kemeny score: sum over input rankings and unordered pairs of candidate elements. -/
def kemeny (S : Scheme) (D : Dataset) (c : Ranking) : Int :=
  isum (D.map (kemenyOne S c))

/-- Does candidate `c` contain every element of the dataset? -/
def covers (c : Ranking) (D : Dataset) : Bool :=
  D.flatten.flatten.all (fun x => c.flatten.contains x)

/-- L2: cost of placing `x` before `y` / after `y` / tied with `y`, summed over the rankings. -/
def before (S : Scheme) (D : Dataset) (x y : Elem) : Int := isum (D.map fun r => S.B (status r x y))
def after (S : Scheme) (D : Dataset) (x y : Elem) : Int := isum (D.map fun r => S.B (status r y x))
def tied (S : Scheme) (D : Dataset) (x y : Elem) : Int := isum (D.map fun r => S.T (status r x y))

end Spec
end Corankco
