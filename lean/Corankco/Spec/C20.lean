import Corankco.Model.Markov
namespace Corankco
namespace Spec

/-- non-empty, pairwise disjoint buckets over elements `0..n-1`. -/
def validRanking (n : Nat) (r : Ranking) : Bool :=
  r.all (fun b => !b.isEmpty) && r.flatten.all (· < n) && decide r.flatten.Nodup

/-- C20 on the rankings delivered for a request `(n, m, complete)`; `uniform` = permutations of 1..n. -/
def C20.holds (n m : Nat) (complete : Bool) (rs : List Ranking) : Bool :=
  rs.all (validRanking n) &&
  (!complete || (rs.length == m && rs.all fun r => r.flatten.length == n))

def C20.holdsUniform (n m : Nat) (rs : List Ranking) : Bool :=
  rs.length == m && rs.all fun r =>
    r.all (fun b => b.length == 1) && r.flatten.length == n && decide r.flatten.Nodup &&
    r.flatten.all (fun x => 1 ≤ x && x ≤ n)

/-- Dense bucket numbering: entries ≥ -1 and every value below a used bucket id is used. -/
def denseB (v : List Int) : Bool :=
  v.all (fun x => decide (-1 ≤ x)) &&
  v.all fun x => (List.range x.toNat).all fun (b : Nat) => v.contains (Int.ofNat b)

end Spec
end Corankco
