import Corankco.Model.DatasetOps
namespace Corankco
namespace Spec
open Model

/-- what the API reports for one ranking -/
structure RView where
  buckets : NRanking
  positions : List (Name × Nat)
  domain : List Name
  nbElements : Nat
  len : Nat
deriving Repr

/-- what the API reports for a dataset -/
structure Snap where
  rankings : List RView
  univ : List Name
  elemId : List (Name × Nat)
  idElem : List (Nat × Name)
  nbElements : Nat
  nbRankings : Nat
  complete : Bool
  withoutTies : Bool
  pos : List (List Int)
  bid : List (List Int)
deriving Repr

def sameSetN (a b : List Name) : Bool := a.all (b.contains ·) && b.all (a.contains ·)

def samePairs (a b : List (Name × Nat)) : Bool :=
  a.length == b.length && a.all (b.contains ·) && b.all (a.contains ·)

/-- the views of one ranking agree with its buckets -/
def rviewOK (v : RView) : Bool :=
  let flat := v.buckets.flatten
  decide flat.Nodup && samePairs v.positions (positionsOf 1 v.buckets) &&
  sameSetN v.domain flat && v.domain.length == flat.length &&
  v.nbElements == flat.length && v.len == v.buckets.length

def viewOf (r : NRanking) : RView :=
  { buckets := r, positions := positionsOf 1 r, domain := r.flatten, nbElements := r.flatten.length, len := r.length }

def isIntName : Name → Bool
  | .int _ => true
  | .str _ => false

/-- C16 invariant on a dataset snapshot -/
def C16.inv (s : Snap) : Bool :=
  let n := s.univ.length
  let rs := s.rankings.map (·.buckets)
  s.rankings.all rviewOK &&
  -- universe = union of the domains
  decide s.univ.Nodup && sameSetN s.univ rs.flatten.flatten &&
  -- ids: a bijection with 0..n-1 in both directions and nothing else
  s.elemId.length == n && s.idElem.length == n && s.nbElements == n &&
  sameSetN (s.elemId.map (·.1)) s.univ && decide (s.elemId.map (·.1)).Nodup &&
  (List.range n).all (fun i => (s.elemId.map (·.2)).contains i) &&
  s.elemId.all (fun p => s.idElem.contains (p.2, p.1)) && s.idElem.all (fun p => s.elemId.contains (p.2, p.1)) &&
  -- homogeneous types: all int when every name is integer-like, else all strings
  (if s.univ.all Name.canBeInt then s.univ.all isIntName else s.univ.all fun x => !isIntName x) &&
  -- flags
  s.nbRankings == rs.length &&
  s.complete == (s.univ.all fun x => rs.all fun r => r.flatten.contains x) &&
  s.withoutTies == (rs.all fun r => r.all fun b => b.length ≤ 1) &&
  -- matrices (rows by id)
  (List.range n).all fun i =>
    match s.idElem.lookup i with
    | none => false
    | some x =>
      s.pos.getD i [] == rs.map (fun r => match (positionsOf 1 r).lookup x with | some p => (p : Int) - 1 | none => -1) &&
      s.bid.getD i [] == rs.map (fun r => match r.findIdx? (fun b => b.contains x) with | some k => (k : Int) | none => -1)

def snapOf (d : DS) : Snap :=
  { rankings := d.rankings.map viewOf, univ := d.universe, elemId := d.elemId, idElem := d.idElem,
    nbElements := d.elemId.length, nbRankings := d.rankings.length, complete := d.complete,
    withoutTies := d.withoutTies, pos := posMatrix d, bid := bidMatrix d }

/-- unification appends exactly the missing elements as one last bucket -/
def unifiedOK (univ : List Name) (orig : List NRanking) (uni : List RView) : Bool :=
  uni.length == orig.length && uni.all rviewOK &&
  (orig.zip uni).all fun p =>
    let r := p.1
    let u := p.2.buckets
    let missing := univ.filter fun x => !(r.flatten.contains x)
    if missing.isEmpty then sameRankingN u r
    else u.length == r.length + 1 && sameRankingN (u.take r.length) r && sameBucket (u.getD r.length []) missing

/-- names up to the documented homogenisation (a derived dataset whose names are all integer-like holds ints) -/
def normName (x : Name) : Name := if x.canBeInt then x.toIntName else x

/-- projection keeps exactly the rankings meeting the kept set, relative order preserved (element names compared up
    to the int / integer-like-string homogenisation the derived dataset applies) -/
def projOK (orig : List NRanking) (keep : List Name) (proj : List NRanking) : Bool :=
  let nk := keep.map normName
  let expect := (orig.map fun r => (r.map fun b => (b.map normName).filter fun x => nk.contains x).filter fun b => !b.isEmpty).filter
    fun r => !r.isEmpty
  let proj' := proj.map fun r => r.map fun b => b.map normName
  proj'.length == expect.length && (proj'.zip expect).all fun p => sameRankingN p.1 p.2

end Spec
end Corankco
