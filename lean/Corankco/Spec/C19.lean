import Corankco.Model.Scheme
import Corankco.Spec.Kemeny
namespace Corankco
namespace Spec
open Model

/-- "two lists of six": the shape condition. -/
def shapeOK : PyVal → Bool
  | .list [.list l0, .list l1] => l0.length == 6 && l1.length == 6
  | _ => false

def entries : PyVal → List PyVal
  | .list [.list l0, .list l1] => l0 ++ l1
  | _ => []

/-- "non-negative numbers". -/
def numsOK (scale : Int) (v : PyVal) : Bool :=
  (entries v).all fun p => match p.num? scale with | some x => decide (0 ≤ x) | none => false

def values (scale : Int) (v : PyVal) : List Int := (entries v).map fun p => (p.num? scale).getD 0

/-- "B[0]=0, B[1]>0, B[3]<=B[4], T[0]=T[1], T[2]=0 and T[3]=T[4]". -/
def constraintsOK (S : Scheme) : Bool :=
  S.b0 == 0 && decide (0 < S.b1) && decide (S.b3 ≤ S.b4) && S.t0 == S.t1 && S.t2 == 0 && S.t3 == S.t4

/-- The documented outcome of constructing a scheme. -/
def newSpec (scale : Int) (v : PyVal) : Except SErr Scheme :=
  if !shapeOK v then .error .invalid
  else if !numsOK scale v then .error .nonReal
  else
    let vs := values scale v
    let S := Scheme.ofLists (vs.take 6) (vs.drop 6)
    if constraintsOK S then .ok S else .error .forbidden

/-- Two vectors are proportional by a positive factor (cross-multiplied form, no division). -/
def proportional (l1 l2 : List Int) : Bool :=
  (l1.zip l2).all (fun p => (p.1 == 0) == (p.2 == 0)) &&
  (l1.zip l2).all fun p => (l1.zip l2).all fun q => p.1 * q.2 == q.1 * p.2

def equivSpec (stop : Nat) (S1 S2 : Scheme) : Bool :=
  proportional (S1.bList.take stop ++ S1.tList.take stop) (S2.bList.take stop ++ S2.tList.take stop)

end Spec
end Corankco
