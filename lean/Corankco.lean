import Corankco.Model.Basic
import Corankco.Model.Pairwise
import Corankco.Spec.Kemeny
import Corankco.Spec.C02
import Corankco.Proto
import Corankco.Driver.C02
import Corankco.Props.C02
