#!/bin/bash
# usage: harness/run_all.sh quick|thorough  -- runs the 20 checks one after the other, prints one line each
cd "$(dirname "$0")/.." || exit 2
( cd lean && lake build >/dev/null 2>&1 )
for i in $(seq -w 1 20); do
  s=$(date +%s)
  out=$(./check C$i "$1" 2>&1 | grep -E "VIOLATION|KNOWN|C$i $1|infrastructure" | tr '\n' ' ')
  echo "C$i exit=$? $(( $(date +%s) - s ))s :: $out"
done
