import sys, os, json, glob, importlib
sys.path.insert(0, '/verif/harness')
import lib, run
added = {}
for f in sorted(glob.glob('/verif/findings/D*_prefix_replay.json')) + sorted(glob.glob('/verif/seeded/s*/replay_C*.json')):
    try:
        r = json.load(open(f))
    except Exception as e:
        print("skip", f, e); continue
    pid = r.get("property"); case = r.get("case")
    if not pid or not isinstance(case, dict) or r.get("tier") == "thorough" or case.get("huge"):
        continue
    if len(json.dumps(case)) > 20000:
        continue
    case = {k: v for k, v in case.items() if k != "_origin"}
    prop = importlib.import_module("props." + pid.lower())
    try:
        v = run.evaluate(prop, [dict(case)])[0]
    except Exception as e:
        print("cannot run", f, type(e).__name__, str(e)[:80]); continue
    if v["agree"] and v["holds"] is True:
        name = os.path.basename(os.path.dirname(f)) if '/seeded/' in f else os.path.basename(f).split('_prefix')[0]
        d = '/verif/corpus/%s' % pid
        os.makedirs(d, exist_ok=True)
        json.dump(case, open('%s/%s.json' % (d, name), 'w'), indent=0, sort_keys=True)
        added[pid] = added.get(pid, 0) + 1
    else:
        print("not clean on the repaired tree:", f, v["agree"], v["holds"], str(v.get("diff"))[:100])
print(added, sum(added.values()))
