#!/bin/bash
# usage: refactortest.sh <id> <worktree> : a behaviour-preserving refactoring must NOT raise any alarm
set -u
RID="$1"; WT="$2"
D=/verif/seeded/harmless/$RID
mkdir -p "$D"
cp "$WT/_deliver/patch.diff" "$D/"; [ -f "$WT/_deliver/note.md" ] && cp "$WT/_deliver/note.md" "$D/"
cd "$WT" && git checkout -q -- corankco && git apply "$D/patch.diff" || exit 2
T=$(PYTHONPATH=$WT /venv/bin/python -m pytest -q -p no:cacheprovider --timeout=900 tests 2>&1 | tail -1)
echo "[$RID] tests with refactoring: $T"
cd /verif
export VERIF_REPO="$WT"
ALARMS=""
for i in $(seq -w 1 20); do
  OUT=$(VERIF_SEARCH_S=60 timeout 1500 ./check C$i quick 2>&1 | grep -E "VIOLATION|infrastructure" | tr '\n' ' ')
  [ -n "$OUT" ] && { echo "[$RID] C$i: $OUT"; ALARMS="$ALARMS C$i"; R=$(echo "$OUT" | grep -o 'replay=[^ ]*' | head -1 | cut -d= -f2); [ -n "$R" ] && cp "$R" "$D/alarm_C$i.json"; }
done
echo "[$RID] alarms:${ALARMS:- none}"
python3 - "$RID" "$T" "$ALARMS" <<'PY'
import json, sys
rid, t, alarms = sys.argv[1:4]
json.dump({"id": rid, "kind": "behaviour-preserving refactoring (independent sub-agent)", "tests_with_change": t,
           "checks_raising_an_alarm": alarms.split(), "what_i_ran": "harness/refactortest.sh: all 20 quick checks with VERIF_REPO pointing at the refactored worktree"},
          open("/verif/seeded/harmless/%s/meta.json" % rid, "w"), indent=1)
PY
git -C "$WT" checkout -q -- corankco
