"""Shared machinery of the correspondence harness (see DESIGN.md section 3).

Everything that touches the implementation imports it from /repo's *working tree* (sys.path[0]),
never from an installed copy.
"""
import hashlib
import json
import os
import random
import subprocess
import sys
import time
import ast

VERIF = os.path.dirname(os.path.dirname(os.path.abspath(__file__)))
REPO = os.environ.get("VERIF_REPO", "/repo")
DRIVER = os.path.join(VERIF, "lean", ".lake", "build", "bin", "driver")

os.environ.setdefault("NUMBA_CACHE_DIR", os.path.join(VERIF, ".cache", "numba"))
if REPO not in sys.path:
    sys.path.insert(0, REPO)

CPLEX_MODE = os.environ.get("VERIF_CPLEX", "absent")
if CPLEX_MODE == "standin":
    import pulp  # noqa: F401,E402  (must be imported before the stand-in is visible, see cplex_standin/cplex/__init__.py)
    sys.path.insert(0, os.path.join(VERIF, "harness", "cplex_standin"))


# ----------------------------------------------------------------------------------------------
# driver
# ----------------------------------------------------------------------------------------------
def jdump(obj) -> str:
    return json.dumps(obj, separators=(",", ":"))


class DriverError(Exception):
    pass


def run_driver(lines, timeout=3600):
    """lines: list of (op, tree). Returns the list of parsed answers (None for bad-op / bad-arg)."""
    if not lines:
        return []
    if not os.path.exists(DRIVER):
        raise DriverError("driver not built: " + DRIVER)
    text = "".join(op + " " + jdump(tree) + "\n" for op, tree in lines)
    proc = subprocess.run([DRIVER], input=text.encode(), stdout=subprocess.PIPE, stderr=subprocess.PIPE,
                          timeout=timeout)
    if proc.returncode != 0:
        raise DriverError("driver exit %d: %s" % (proc.returncode, proc.stderr.decode()[-2000:]))
    out = proc.stdout.decode().split("\n")
    if out and out[-1] == "":
        out.pop()
    if len(out) != len(lines):
        raise DriverError("driver answered %d lines for %d ops" % (len(out), len(lines)))
    res = []
    for (op, _), line in zip(lines, out):
        if line in ("bad-op", "bad-arg"):
            raise DriverError("driver rejected op %s: %s" % (op, line))
        res.append(json.loads(line))
    return res


# ----------------------------------------------------------------------------------------------
# numbers: penalties live on a dyadic grid; the model sees scale * penalty as an integer
# ----------------------------------------------------------------------------------------------
class NonExact(Exception):
    pass


def to_int(x, scale):
    """scale * x as an exact integer (floats on the dyadic grid are exact); otherwise a marker
    that can never equal a model output."""
    v = float(x) * scale
    if v != v or v in (float("inf"), float("-inf")):
        return ["nonfinite", str(x)]
    r = int(round(v))
    if float(r) != v:
        return ["nonexact", repr(float(x))]
    return r


def to_int_tol(x, scale, tol=1e-6):
    """scale * x as an integer when x is within `tol` (the tolerance property C04 allows) of a grid point; for penalties
    that are not exactly representable in binary, where float sums drift by a few ulps"""
    v = float(x) * scale
    if v != v or v in (float("inf"), float("-inf")):
        return ["nonfinite", str(x)]
    r = int(round(v))
    if abs(v - r) > tol * scale:
        return ["offgrid", repr(float(x))]
    return r


# ----------------------------------------------------------------------------------------------
# element coding and dataset construction
# ----------------------------------------------------------------------------------------------
class Coder:
    """Injective coding of element values into naturals for the model. ints are themselves when the
    dataset is all-int; strings get table codes."""

    def __init__(self):
        self.table = {}
        self.rev = []

    def code(self, value):
        key = (type(value).__name__, value)
        if key not in self.table:
            self.table[key] = len(self.rev)
            self.rev.append(value)
        return self.table[key]

    def value(self, code):
        return self.rev[code]


def ordered_set(members):
    s = set()
    for m in members:
        s.add(m)
    return s


def make_dataset(raw):
    """raw: list of rankings, each a list of buckets, each a list of element values in insertion order."""
    from corankco.dataset import Dataset
    from corankco.ranking import Ranking
    return Dataset([Ranking([ordered_set(b) for b in r]) for r in raw])


def make_ranking(raw):
    from corankco.ranking import Ranking
    return Ranking([ordered_set(b) for b in raw])


def observe_ranking(ranking, coder):
    """The ranking as the model sees it: buckets in order, members in CPython iteration order."""
    return [[coder.code(e.value) for e in bucket] for bucket in ranking.buckets]


def observe_dataset(ds, coder):
    return [observe_ranking(r, coder) for r in ds.rankings]


def conv_like_dataset(ds, raw_ranking):
    """values of a raw ranking converted the way the dataset homogenised its elements (int-like strings -> int)."""
    types = {e.type for e in ds.universe}
    if types == {int}:
        return [[int(x) if str(x).isdecimal() else x for x in b] for b in raw_ranking]
    return [[str(x) for x in b] for b in raw_ranking]


def canon_ranking(obs):
    """Canonical form for comparison when member order is immaterial."""
    return [sorted(b) for b in obs]


def make_scheme(sch):
    """sch = {"b": [...6 ints], "t": [...], "scale": int} -> ScoringScheme with float penalties b/scale."""
    from corankco.scoringscheme import ScoringScheme
    s = sch["scale"]
    return ScoringScheme([[x / s for x in sch["b"]], [x / s for x in sch["t"]]])


def tau(sch):
    """the library's 0.001 thresholds on the scaled integer grid: x < -0.001  <=>  k < -tau  for k = scale * x"""
    return sch["scale"] // 1000


def scheme_tree(sch):
    return [sch["b"], sch["t"]]


# ----------------------------------------------------------------------------------------------
# generators (DESIGN 3.4). Every case is a pure function of (seed, property, index).
# ----------------------------------------------------------------------------------------------
def case_rng(seed, prop, index):
    h = hashlib.sha256(("%s/%s/%s" % (seed, prop, index)).encode()).digest()
    return random.Random(int.from_bytes(h[:8], "big"))


PRESETS = {
    "unifying": ([0, 2, 2, 0, 2, 2], [2, 2, 0, 2, 2, 0], 2),
    "unifying_half": ([0, 2, 1, 0, 2, 1], [1, 1, 0, 1, 1, 0], 2),
    "pseudo": ([0, 2, 2, 0, 2, 0], [2, 2, 0, 2, 2, 0], 2),
    "pseudo_half": ([0, 2, 1, 0, 2, 0], [1, 1, 0, 1, 1, 0], 2),
    "induced": ([0, 2, 2, 0, 0, 0], [2, 2, 0, 0, 0, 0], 2),
    "induced_half": ([0, 2, 1, 0, 0, 0], [1, 1, 0, 0, 0, 0], 2),
    "extended": ([0, 2, 0, 0, 0, 0], [2, 2, 0, 2, 2, 2], 2),
}


def gen_scheme(rng, family=None, max_pairs=200):
    """Returns {"b","t","scale","family"}; always a *valid* scheme."""
    if family is None:
        family = rng.choice(["preset", "preset_mult", "grid", "grid", "fingerprint", "zeroheavy"])
    if family == "preset":
        b, t, s = PRESETS[rng.choice(sorted(PRESETS))]
        return {"b": list(b), "t": list(t), "scale": s, "family": family}
    if family == "preset_mult":
        b, t, s = PRESETS[rng.choice(sorted(PRESETS))]
        k = rng.choice([2, 3, 5, 7])
        return {"b": [k * x for x in b], "t": [k * x for x in t], "scale": s * rng.choice([1, 2, 4]),
                "family": family}
    if family == "fingerprint" and max_pairs > 3000:
        family = "grid"   # 3000 * 60^7 < 2^53: beyond that the positional numeral is no longer exact in float64
    if family == "fingerprint":
        # B = (0,1,K,K^2,K^3,K^4), T = (K^5,K^5,0,K^6,K^6,K^7): the score is a positional numeral whose
        # digits are the status counts. K > number of pair*ranking terms; capped so sums stay < 2^53.
        K = max(2, min(max_pairs + 1, 60))
        b = [0, 1, K, K ** 2, K ** 3, K ** 4]
        t = [K ** 5, K ** 5, 0, K ** 6, K ** 6, K ** 7]
        return {"b": b, "t": t, "scale": 1, "family": family}
    if family in ("fine", "close"):
        # scores that differ by less than the library's 0.001 tolerances: penalties on the grid 1/4096 around the presets
        # ("close": grid 1/2^18, i.e. differences of 4e-6 — above the 1e-6 of C04, below numpy.isclose's relative 1e-5)
        s = 4096 if family == "fine" else 1 << 18
        p = rng.choice([2048, 2047, 2049, 2046, 2050, 4095, 4097, 1, 2])
        q = rng.choice([p, p, p + rng.choice([-1, 1, 2])])
        kind = rng.choice(["unifying", "pseudo", "induced"])
        b5 = {"unifying": p, "pseudo": 0, "induced": 0}[kind]
        b4 = 0 if kind == "induced" else s
        t34 = 0 if kind == "induced" else q
        return {"b": [0, s, p, 0, b4, b5], "t": [q, q, 0, t34, t34, 0], "scale": s, "family": family}
    if family == "large":
        # penalties of magnitude 2^20 that differ by a few units: scores around 10^7..10^8 whose differences are tiny
        # RELATIVELY (exposes relative-tolerance comparisons), still exact in float64
        M = 1 << 20
        d = lambda: rng.choice([0, 1, 2, 3, 5])  # noqa: E731
        b3 = rng.choice([0, M + d()])
        b4 = max(b3, M + d())
        t01 = M + d()
        t34 = M + d()
        return {"b": [0, M + d(), M + d(), b3, b4, rng.choice([0, M + d()])], "t": [t01, t01, 0, t34, t34, rng.choice([0, M + d()])],
                "scale": 1, "family": family}
    if family == "decimal":
        # penalties that are NOT exactly representable in binary (tenths, thirds): only for checks whose predicate does not
        # compare scores (structure of the result, absence of failure) — float sums drift here
        s = rng.choice([10, 10, 3, 7])
        p = rng.randint(1, s - 1)
        kind = rng.choice(["unifying", "pseudo", "induced", "custom"])
        if kind == "custom":
            b3 = rng.randint(0, s)
            t34 = rng.randint(0, s)
            return {"b": [0, s, rng.randint(0, s), b3, max(b3, rng.randint(0, s)), rng.randint(0, s)],
                    "t": [p, p, 0, t34, t34, rng.randint(0, s)], "scale": s, "family": family}
        b5 = {"unifying": p, "pseudo": 0, "induced": 0}[kind]
        b4 = 0 if kind == "induced" else s
        t34 = 0 if kind == "induced" else p
        return {"b": [0, s, p, 0, b4, b5], "t": [p, p, 0, t34, t34, 0], "scale": s, "family": family}
    if family == "cheap_ties":
        # tie cost below half of the inversion cost (p < 0.5): ties inside cycles become optimal
        s = 8
        p = rng.choice([1, 2, 3])
        kind = rng.choice(["unifying", "pseudo", "induced"])
        b5 = {"unifying": p, "pseudo": 0, "induced": 0}[kind]
        b4 = 0 if kind == "induced" else s
        t34 = 0 if kind == "induced" else p
        return {"b": [0, s, p, 0, b4, b5], "t": [p, p, 0, t34, t34, 0], "scale": s, "family": family}
    if family == "zeroheavy":
        vals = [0, 0, 0, 1, 2, 8]
    else:
        vals = list(range(0, 33))
    scale = rng.choice([1, 2, 4, 8])
    b = [0, rng.choice([v for v in vals if v > 0] or [1])] + [rng.choice(vals) for _ in range(4)]
    if b[3] > b[4]:
        b[3], b[4] = b[4], b[3]
    t01 = rng.choice(vals)
    t34 = rng.choice(vals)
    t = [t01, t01, 0, t34, t34, rng.choice(vals)]
    return {"b": b, "t": t, "scale": scale, "family": family}


def gen_ranking(rng, elems, tie_density, shape):
    """elems: list of values. shape: complete / incomplete / empty."""
    if shape == "empty":
        return []
    pool = list(elems)
    rng.shuffle(pool)
    if shape == "incomplete" and len(pool) > 0:
        k = rng.randint(1, len(pool))
        pool = pool[:k]
    buckets = []
    for e in pool:
        if buckets and rng.random() < tie_density:
            buckets[-1].append(e)
        else:
            buckets.append([e])
    return buckets


def name_elements(rng, n, kind):
    if kind == "int":
        return list(range(n))
    if kind == "int_sparse":
        return sorted(rng.sample(range(0, max(40, 3 * n)), n))
    if kind == "collision":
        return [8 * i for i in range(n)]
    if kind == "str":
        return ["e%d" % i for i in range(n)]
    if kind == "str_digit":
        return [str(i) for i in range(n)]
    if kind == "str_mixed":
        return ["a%d" % i if i % 2 else str(i) for i in range(n)]
    if kind == "str_delim":
        # names that contain the delimiters of the textual form: str(ranking) is then ambiguous
        pool = ["a", "b", "a}, {b", "c", "b}, {c", "a, b", "{a}", "[a]"]
        return pool[:n] if n <= len(pool) else pool + ["d%d" % i for i in range(n - len(pool))]
    raise ValueError(kind)


def gen_dataset(rng, nmax=7, mmax=5, family=None, kind=None, allow_empty=True, nmin=1, big=0.0, big_nmax=40, big_hi=0.15, n_exact=None):
    """Returns (raw, meta). raw: list of rankings of buckets of values; at least one non-empty ranking.
    big: share of instances well above nmax / mmax (12..40 elements, 3..12 rankings): code paths that depend on a size."""
    if family is None:
        family = rng.choice(["uniform", "uniform", "near", "sparse", "blocky", "dup", "complete"])
    if kind is None:
        kind = rng.choice(["int", "int", "int_sparse", "collision", "str", "str_digit", "str_mixed", "str_delim"])
    n = rng.randint(nmin, nmax)
    m = rng.randint(1, mmax)
    is_big = big > 0 and rng.random() < big
    if n_exact is not None:
        # a requested (large) size: used by the thorough tier for a handful of instances of several hundred elements
        is_big = True
        big_nmax, big_hi = n_exact, 2.0
    if is_big:
        n = rng.randint(12, min(40, big_nmax)) if (big_nmax <= 40 or rng.random() >= big_hi) else rng.randint(41 if n_exact is None else n_exact, big_nmax)
        m = rng.randint(3, 12)
    elems = name_elements(rng, n, kind)
    td = rng.choice([0.0, 0.2, 0.5, 0.8])
    raw = []
    if family == "complete":
        raw = [gen_ranking(rng, elems, td, "complete") for _ in range(m)]
    elif family == "uniform":
        for _ in range(m):
            shape = rng.choice(["complete", "incomplete", "incomplete", "empty" if allow_empty else "incomplete"])
            raw.append(gen_ranking(rng, elems, td, shape))
    elif family == "near":
        ref = gen_ranking(rng, elems, td, "complete")
        for _ in range(m):
            r = [list(b) for b in ref]
            for _ in range(rng.randint(0, 2)):
                flat = [e for b in r for e in b]
                if len(flat) >= 2:
                    x = rng.choice(flat)
                    r = [[e for e in b if e != x] for b in r]
                    r = [b for b in r if b]
                    pos = rng.randint(0, len(r))
                    if rng.random() < 0.5 and r:
                        r[rng.randrange(len(r))].append(x)
                    else:
                        r.insert(pos, [x])
            if rng.random() < 0.3 and len(r) > 1:
                r.pop(rng.randrange(len(r)))
            raw.append(r)
    elif family == "sparse":
        for _ in range(m):
            k = max(1, n // 3)
            sub = rng.sample(elems, rng.randint(1, k))
            raw.append(gen_ranking(rng, sub, td, "complete"))
    elif family == "blocky":
        k = rng.randint(1, min(3, n))
        blocks = [[] for _ in range(k)]
        for e in elems:
            blocks[rng.randrange(k)].append(e)
        blocks = [b for b in blocks if b]
        for _ in range(m):
            r = []
            for blk in blocks:
                if rng.random() < 0.25:
                    continue
                sub = [e for e in blk if rng.random() < 0.85] or [rng.choice(blk)]
                r.extend(gen_ranking(rng, sub, td, "complete"))
            raw.append(r)
    elif family == "cyclic":
        # blocks consistently ordered; inside a block the rankings are rotations of one another (Condorcet cycles):
        # multi-component graphs whose components are not trivially tiable
        pure = rng.random() < 0.4      # exact rotations (Condorcet cycles), no omission, no tie
        k = 1 if pure else rng.randint(1, max(1, min(3, n // 2)))
        pool = list(elems)
        rng.shuffle(pool)
        blocks = [pool[i::k] for i in range(k)]
        m = max(m, 3)
        for j in range(m):
            r = []
            for blk in blocks:
                if not pure and rng.random() < 0.2:
                    continue
                rot = (j % len(blk)) if pure else rng.randrange(len(blk))
                seq = blk[rot:] + blk[:rot]
                if not pure and rng.random() < 0.3 and len(seq) > 1:
                    seq = seq[:-1]
                bs = []
                for e in seq:
                    if bs and not pure and rng.random() < 0.15:
                        bs[-1].append(e)
                    else:
                        bs.append([e])
                r.extend(bs)
            raw.append(r)
    elif family == "dup":
        base = [gen_ranking(rng, elems, td, rng.choice(["complete", "incomplete"])) for _ in range(max(1, m // 2))]
        raw = [[list(b) for b in rng.choice(base)] for _ in range(m)]
    if not any(len(r) > 0 for r in raw):
        raw.append(gen_ranking(rng, elems, td, "complete"))
    if not allow_empty:
        raw = [r for r in raw if r]
    # permute insertion order inside buckets (matters for hash-colliding members)
    raw = [[rng.sample(b, len(b)) for b in r] for r in raw]
    meta = {"family": family, "kind": kind, "n": n, "m": len(raw)}
    if is_big:
        meta["big"] = True
    return raw, meta


def gen_candidate(rng, elems, mode=None):
    """A ranking with ties over the given element values (mode: exact / superset / missing)."""
    if mode is None:
        mode = rng.choice(["exact", "exact", "exact", "superset", "missing"])
    pool = list(elems)
    if mode == "superset":
        extra = max([e for e in pool if isinstance(e, int)] + [0]) + 1
        if pool and isinstance(pool[0], str):
            pool = pool + ["zz%d" % i for i in range(rng.randint(1, 2))]
        else:
            pool = pool + [extra + i for i in range(rng.randint(1, 2))]
    elif mode == "missing" and len(pool) >= 1:
        pool.remove(rng.choice(pool))
    td = rng.choice([0.0, 0.3, 0.6, 0.9])
    return gen_ranking(rng, pool, td, "complete"), mode


def weak_orders(elems):
    """all rankings with ties of exactly the given elements (as lists of buckets)"""
    elems = list(elems)
    if not elems:
        return [[]]
    res = []
    first, rest = elems[0], elems[1:]
    for r in weak_orders(rest):
        for i in range(len(r)):
            res.append(r[:i] + [r[i] + [first]] + r[i + 1:])
        for i in range(len(r) + 1):
            res.append(r[:i] + [[first]] + r[i:])
    return res


def all_rankings_over_subsets(elems):
    """every ranking with ties over every subset of elems (the empty ranking included)"""
    from itertools import combinations
    out = []
    for k in range(len(elems) + 1):
        for sub in combinations(elems, k):
            out.extend(weak_orders(sub))
    return out


def dataset_elems(raw):
    seen = []
    for r in raw:
        for b in r:
            for e in b:
                if e not in seen:
                    seen.append(e)
    return seen


def dataset_size(raw):
    return sum(len(b) for r in raw for b in r) + len(raw)


# ----------------------------------------------------------------------------------------------
# anchors: AST fingerprints of the Python functions a model mirrors
# ----------------------------------------------------------------------------------------------
def _strip_docstrings(node):
    for n in ast.walk(node):
        if isinstance(n, (ast.FunctionDef, ast.ClassDef, ast.AsyncFunctionDef, ast.Module)):
            if n.body and isinstance(n.body[0], ast.Expr) and isinstance(getattr(n.body[0], "value", None), ast.Constant) \
                    and isinstance(n.body[0].value.value, str):
                n.body = n.body[1:] or [ast.Pass()]
    return node


def fingerprint(relpath, names=None):
    """sha of ast.dump (no positions, no docstrings) of the named top-level / class-level defs of a file."""
    path = os.path.join(REPO, relpath)
    try:
        tree = _strip_docstrings(ast.parse(open(path).read()))
    except (OSError, SyntaxError) as exc:
        return "unreadable:" + type(exc).__name__
    if not names:
        return hashlib.sha256(ast.dump(tree).encode()).hexdigest()[:16]
    found = {}
    for n in ast.walk(tree):
        if isinstance(n, (ast.FunctionDef, ast.ClassDef)) and n.name in names:
            found[n.name] = hashlib.sha256(ast.dump(n).encode()).hexdigest()[:16]
    return found


def load_anchor_baseline():
    p = os.path.join(VERIF, "harness", "anchors.json")
    if os.path.exists(p):
        return json.load(open(p))
    return {}


def source_drift(prop_id, anchor_files):
    base = load_anchor_baseline().get(prop_id, {})
    cur = {f: fingerprint(f) for f in anchor_files}
    drift = sorted(f for f in anchor_files if base.get(f) != cur[f])
    return cur, drift


# ----------------------------------------------------------------------------------------------
# known findings
# ----------------------------------------------------------------------------------------------
def load_known_findings():
    p = os.path.join(VERIF, "known_findings.json")
    if os.path.exists(p):
        return json.load(open(p))
    return {"open": [], "fixed": []}


def now():
    return time.time()
