"""./check back-end: run one property's correspondence check and write evidence (DESIGN 3.5).

usage: run.py <Cxx> <quick|thorough> [--replay path] [--audit audit.json]
exit 0: property held on everything explored; 1: VIOLATION printed; 2: infrastructure failure.
"""
import importlib
import json
import os
import sys
import time
import traceback

sys.path.insert(0, os.path.dirname(os.path.abspath(__file__)))
import lib  # noqa: E402


def load_prop(pid):
    return importlib.import_module("props." + pid.lower())


_WORKER = {}


def worker_impl(pid, case):
    """run prop.impl(case) in a separate process that has the stand-in `cplex` module on its path"""
    import subprocess
    w = _WORKER.get(pid)
    if w is None or w.poll() is not None:
        env = dict(os.environ)
        env["VERIF_CPLEX"] = "standin"
        w = subprocess.Popen([sys.executable, os.path.join(lib.VERIF, "harness", "worker.py"), pid],
                             stdin=subprocess.PIPE, stdout=subprocess.PIPE, env=env, text=True, bufsize=1)
        _WORKER[pid] = w
    w.stdin.write(json.dumps(case) + "\n")
    w.stdin.flush()
    while True:
        line = w.stdout.readline()
        if not line:
            raise RuntimeError("stand-in worker died")
        if line.startswith("@@OUT@@"):
            return json.loads(line[len("@@OUT@@"):])


def evaluate(prop, cases):
    """impl -> driver -> judge for a list of cases. Returns list of verdict dicts (same order)."""
    outs = []
    for case in cases:
        if case.get("cplex") == "standin" and lib.CPLEX_MODE != "standin":
            outs.append(worker_impl(prop.ID, case))
        else:
            outs.append(prop.impl(case))
    lines = []
    spans = []
    for case, out in zip(cases, outs):
        ops = prop.ops(case, out)
        spans.append((len(lines), len(ops)))
        lines.extend(ops)
    answers = lib.run_driver(lines)
    verdicts = []
    for case, out, (start, cnt) in zip(cases, outs, spans):
        v = prop.judge(case, out, answers[start:start + cnt])
        v["out"] = out
        verdicts.append(v)
    return verdicts


def case_size(case):
    return len(lib.jdump(case))


def shrink(prop, case, pred):
    """Greedy structural shrinking; `pred(verdict)` tells whether the failure is still there."""
    if not hasattr(prop, "shrink"):
        return case
    cur = case
    improved = True
    rounds = 0
    while improved and rounds < 200:
        improved = False
        rounds += 1
        for cand in prop.shrink(cur):
            if case_size(cand) >= case_size(cur):
                continue
            try:
                v = evaluate(prop, [cand])[0]
            except Exception:  # noqa: BLE001 a candidate the harness cannot run is not a smaller failure
                continue
            if pred(v):
                cur = cand
                improved = True
                break
    return cur


def write_replay(pid, seed, payload):
    d = os.path.join(lib.VERIF, "replays")
    os.makedirs(d, exist_ok=True)
    path = os.path.join(d, "%s-%s.json" % (pid, seed))
    with open(path, "w") as f:
        json.dump(payload, f, indent=1, sort_keys=True, default=str)
    return os.path.relpath(path, lib.VERIF)


def main():
    pid = sys.argv[1]
    tier = sys.argv[2] if len(sys.argv) > 2 and not sys.argv[2].startswith("--") else os.environ.get("VERIF_TIER", "quick")
    replay_path = None
    audit_path = None
    args = sys.argv[2:]
    for i, a in enumerate(args):
        if a == "--replay":
            replay_path = args[i + 1]
        if a == "--audit":
            audit_path = args[i + 1]
    seed = int(os.environ.get("VERIF_SEED", "0") or 0)
    t0 = time.time()
    prop = load_prop(pid)

    if replay_path:
        payload = json.load(open(replay_path))
        case = payload["case"]
        v = evaluate(prop, [case])[0]
        print(json.dumps({"agree": v["agree"], "holds": v["holds"], "diff": v.get("diff"), "out": v["out"]},
                         indent=1, default=str))
        if v["holds"] is False or not v["agree"]:
            print("VIOLATION property=%s replay=%s%s" % (pid, replay_path,
                                                          "" if v["holds"] is False else " no-failing-input-found"))
            sys.exit(1)
        sys.exit(0)

    audit = {"obligations": 0, "discharged": 0, "theorems": {}, "problems": ["audit not run"], "checker_cmd": ""}
    if audit_path and os.path.exists(audit_path):
        audit = json.load(open(audit_path))

    cur_fp, drift = lib.source_drift(pid, prop.ANCHORS)
    budget = prop.budget(tier)
    if drift:
        budget *= int(os.environ.get("VERIF_DRIFT_FACTOR", "4"))

    # corpus first
    cases = []
    cdir = os.path.join(lib.VERIF, "corpus", pid)
    if os.path.isdir(cdir):
        for name in sorted(os.listdir(cdir)):
            if name.endswith(".json"):
                c = json.load(open(os.path.join(cdir, name)))
                c["_origin"] = "corpus/" + name
                cases.append(c)
    n_corpus = len(cases)
    for c in (prop.fixed_cases(tier) if hasattr(prop, "fixed_cases") else []):
        c["_origin"] = "fixed"
        cases.append(c)
    for i in range(budget):
        rng = lib.case_rng(seed, pid, i)
        c = prop.gen(rng, i, tier)
        c["_origin"] = "gen/%d" % i
        cases.append(c)

    verdicts = []
    chunk = 400
    # exploration stops (after the current chunk) when the time budget of the tier is used up; the evidence then says how
    # many cases were explored
    deadline = t0 + float(os.environ.get("VERIF_BUDGET_S", "600" if tier == "quick" else "1800"))
    explored = 0
    for start in range(0, len(cases), chunk):
        verdicts.extend(evaluate(prop, cases[start:start + chunk]))
        explored = len(verdicts)
        if time.time() > deadline:
            break
        if any(v["holds"] is False for v in verdicts[-chunk:]):
            break  # a failing input is in hand: report it rather than exploring further
    out_of_time = explored < len(cases) and not any(v["holds"] is False for v in verdicts)
    planned = len(cases)
    cases = cases[:explored]

    bad_holds = [(c, v) for c, v in zip(cases, verdicts) if v["holds"] is False]
    disagree = [(c, v) for c, v in zip(cases, verdicts) if not v["agree"]]
    proof_ok = audit["obligations"] > 0 and audit["obligations"] == audit["discharged"] and not audit["problems"]
    if audit_path is None:
        proof_ok = True  # development run of the correspondence alone (./check always supplies the audit)

    violation = None
    extra_evals = 0
    if bad_holds:
        c, v = min(bad_holds, key=lambda cv: case_size(cv[0]))
        c = shrink(prop, c, lambda vv: vv["holds"] is False)
        v = evaluate(prop, [c])[0]
        violation = ("failing-input", c, v)
    elif disagree or not proof_ok:
        # broken correspondence / proof: search the implementation for a failing input (DESIGN 3.5 step 4)
        n_search = prop.budget("thorough") if hasattr(prop, "budget") else 1000
        n_search = min(n_search, int(os.environ.get("VERIF_SEARCH_MAX", "20000")))
        found = None
        sdeadline = time.time() + float(os.environ.get("VERIF_SEARCH_S", "600"))
        for start in range(0, n_search, chunk):
            scases = []
            for i in range(start, min(start + chunk, n_search)):
                rng = lib.case_rng(seed + 7919, pid, i)
                scases.append(prop.gen(rng, i, "thorough"))
            svs = evaluate(prop, scases)
            extra_evals += len(scases)
            bad = [(c, v) for c, v in zip(scases, svs) if v["holds"] is False]
            if bad:
                found = min(bad, key=lambda cv: case_size(cv[0]))
                break
            if time.time() > sdeadline:
                break
        if found:
            c = shrink(prop, found[0], lambda vv: vv["holds"] is False)
            v = evaluate(prop, [c])[0]
            violation = ("failing-input", c, v)
        elif disagree:
            c, v = min(disagree, key=lambda cv: case_size(cv[0]))
            c = shrink(prop, c, lambda vv: not vv["agree"])
            v = evaluate(prop, [c])[0]
            violation = ("correspondence", c, v)
        else:
            violation = ("proof", None, None)

    # evidence
    nontrivial = set()
    tags = {}
    for c, v in zip(cases, verdicts):
        if v.get("nontrivial"):
            cc = dict(c)
            cc.pop("_origin", None)
            nontrivial.add(lib.jdump(cc))
        for t in v.get("tags", []):
            tags[t] = tags.get(t, 0) + 1
    samples = []
    for c, v in list(zip(cases, verdicts))[n_corpus:n_corpus + 3]:
        samples.append({"case": c, "impl_output": v["out"], "agree": v["agree"], "holds": v["holds"]})
    known = lib.load_known_findings()
    known_lines = []
    exit_code = 0
    violations = 0
    if violation:
        kind, c, v = violation
        key = prop.finding_key(c, v) if (c is not None and hasattr(prop, "finding_key")) else None
        open_match = [k for k in known.get("open", []) if k.get("property") == pid and key is not None and k.get("key") == key]
        if open_match:
            known_lines.append("KNOWN-FINDING: property=%s %s" % (pid, open_match[0].get("what", key)))
        else:
            violations = 1
            payload = {"property": pid, "kind": kind, "seed": seed, "tier": tier,
                       "how_to_rerun": "./check %s --replay <this file>" % pid}
            if c is not None:
                payload.update({"case": c, "impl_output": v["out"], "agree": v["agree"], "holds": v["holds"],
                                "diff": v.get("diff")})
            if kind == "correspondence":
                payload["no_longer_checks"] = "correspondence %s: model and implementation differ on this case " \
                                              "while the property's predicate still holds on it" % pid
            if kind == "proof":
                payload["no_longer_checks"] = {"theorems": audit.get("theorems"), "problems": audit.get("problems")}
            rp = write_replay(pid, seed, payload)
            print("VIOLATION property=%s replay=%s%s" % (pid, rp, "" if kind == "failing-input" else " no-failing-input-found"))
            exit_code = 1
    for line in known_lines:
        print(line)

    evidence = {
        "property_id": pid, "tier": tier, "seed": seed, "level": "proof",
        "coverage": {
            "obligations": audit["obligations"], "discharged": audit["discharged"],
            "checker_cmd": audit.get("checker_cmd", ""),
            "trusted_base": prop.TRUSTED if hasattr(prop, "TRUSTED") else [],
            "theorems": audit.get("theorems", {}),
            "audit_problems": audit.get("problems", []),
            "evaluations": len(cases) + extra_evals,
            "planned_evaluations": planned,
            "stopped_by_time_budget": out_of_time,
            "distinct_nontrivial": len(nontrivial),
            "rule": prop.RULE,
            "samples": samples,
            "traces_validated_against_impl": sum(1 for v in verdicts if v["agree"]),
            "holds_evaluated_on_impl_outputs": sum(1 for v in verdicts if v["holds"] is True),
            "disagreements": len(disagree),
            "corpus_cases": n_corpus,
            "fixed_and_exhaustive_small_scope_cases": sum(1 for c in cases if c.get("_origin") == "fixed"),
            "distribution": dict(sorted(tags.items())),
            "source_drift": drift,
            "source_fingerprints": cur_fp,
        },
        "assumptions": prop.ASSUMPTIONS if hasattr(prop, "ASSUMPTIONS") else [],
        "wall_s": round(time.time() - t0, 2),
        "violations": violations,
    }
    os.makedirs(os.path.join(lib.VERIF, "evidence"), exist_ok=True)
    with open(os.path.join(lib.VERIF, "evidence", pid + ".json"), "w") as f:
        json.dump(evidence, f, indent=1, default=str)
    print("%s %s: %d cases, %d agree, %d nontrivial, obligations %d/%d, %.1fs" % (
        pid, tier, len(cases), evidence["coverage"]["traces_validated_against_impl"], len(nontrivial),
        audit["discharged"], audit["obligations"], time.time() - t0))
    sys.exit(exit_code)


if __name__ == "__main__":
    try:
        main()
    except SystemExit:
        raise
    except Exception:  # noqa: BLE001
        traceback.print_exc()
        sys.exit(2)
