"""impl worker for the 'CPLEX API present' configuration: started with VERIF_CPLEX=standin by run.py"""
import importlib
import json
import os
import sys

sys.path.insert(0, os.path.dirname(os.path.abspath(__file__)))
import lib  # noqa: E402,F401

prop = importlib.import_module("props." + sys.argv[1].lower())
for line in sys.stdin:
    case = json.loads(line)
    try:
        out = prop.impl(case)
    except Exception as exc:  # noqa: BLE001
        out = {"err": "other:" + type(exc).__name__ + ":" + str(exc)[:200]}
    sys.stdout.write("@@OUT@@" + json.dumps(out, default=str) + "\n")
    sys.stdout.flush()
