"""typed element names and dataset snapshots (C15, C16, C17)"""
import lib


def enc_name(v):
    if isinstance(v, bool):
        raise TypeError("bool element")
    if isinstance(v, int):
        return [0, v]
    return [1, [ord(c) for c in v]]


def enc_elem(e):
    return enc_name(e.value) if e.type is int else [1, [ord(c) for c in str(e.value)]]


def key(n):
    return (n[0], n[1] if n[0] == 0 else tuple(n[1]))


def enc_raw(raw):
    return [[[enc_name(x) for x in b] for b in r] for r in raw]


def rview(r):
    """what the API reports for one ranking (read through the public properties)"""
    return [[[enc_elem(e) for e in b] for b in r.buckets],
            [[enc_elem(e), int(p)] for e, p in r.positions.items()],
            [enc_elem(e) for e in r.domain], int(r.nb_elements), int(len(r))]


def snapshot(ds):
    s = [[rview(r) for r in ds.rankings],
         [enc_elem(e) for e in ds.universe],
         [[enc_elem(e), int(i)] for e, i in ds.mapping_elem_id.items()],
         [[int(i), enc_elem(e)] for i, e in ds.mapping_id_elem.items()],
         int(ds.nb_elements), int(ds.nb_rankings), int(bool(ds.is_complete)), int(bool(ds.without_ties))]
    try:
        s.append([[int(x) for x in row] for row in ds.get_positions().tolist()])
        s.append([[int(x) for x in row] for row in ds.get_bucket_ids().tolist()])
    except Exception as exc:  # noqa: BLE001
        s.append("err:" + type(exc).__name__)
        s.append("err:" + type(exc).__name__)
    return s


def canon_rview(v):
    return [[sorted(b, key=key) for b in v[0]], sorted(v[1], key=lambda p: key(p[0])), sorted(v[2], key=key), v[3], v[4]]


def canon_snapshot(s):
    """canonical form for comparison: member / dict iteration orders removed, and the id numbering abstracted away
    (ids depend on CPython's set iteration order at every rebuild; that they form a bijection with 0..n-1 is part of
    the invariant `C16.inv`, and the first-appearance rule is compared by C02 on the observed order): the id maps are
    compared as the sets of their keys, the two matrices row by row in the order of the sorted element names."""
    ids = {key(p[0]): p[1] for p in s[2]}
    names = sorted(s[1], key=key)

    def rows(mat):
        if isinstance(mat, str):
            return mat
        out = []
        for n in names:
            i = ids.get(key(n))
            out.append(mat[i] if i is not None and 0 <= i < len(mat) else "missing-row")
        return out
    return [[canon_rview(v) for v in s[0]], names, sorted((p[0] for p in s[2]), key=key),
            sorted(p[0] for p in s[3]), sorted((p[1] for p in s[3]), key=key), s[4], s[5], s[6], s[7], rows(s[8]), rows(s[9])]


def snapshot_is_protocol(s):
    return not isinstance(s[8], str)


def build_raw(raw):
    """Dataset from raw python values (ints / strs), buckets in the given insertion order"""
    return lib.make_dataset(raw)
