"""Stand-in for the subset of the `cplex` API that corankco uses, backed by PuLP/CBC.

It lets the harness drive the repository's CPLEX model-building and decoding code (variables, rows, senses,
objective, solve / populate) although CPLEX itself is not installed. Results obtained through it are about the
repository's code, not about CPLEX. Every problem that is solved is also recorded in `PROBLEMS` so that the
harness can compare the rows the code emitted with the model's rows.

`pulp` must be imported before this directory is put on sys.path (PuLP's own cplex_api imports `cplex`).
"""
import pulp

PROBLEMS = []   # one dict per solve / populate call: names, obj, rows


class _P:
    def __init__(self):
        self.v = None

    def set(self, v):
        self.v = v


class _NS:
    pass


class _Sense:
    minimize = 1
    maximize = -1


class _Obj:
    sense = _Sense()

    def __init__(self):
        self._s = 1

    def set_sense(self, s):
        self._s = s


class _Vars:
    def __init__(self):
        self.names, self.obj, self.lb, self.ub, self.types = [], [], [], [], ""

    def add(self, obj=None, lb=None, ub=None, types="", names=None):
        assert len(obj) == len(lb) == len(ub) == len(types) == len(names)
        self.obj += list(obj)
        self.lb += list(lb)
        self.ub += list(ub)
        self.types += types
        self.names += list(names)


class _Cons:
    def __init__(self):
        self.rows = []

    def add(self, lin_expr=None, senses="", rhs=None, names=None):
        assert len(lin_expr) == len(senses) == len(rhs) == len(names), \
            (len(lin_expr), len(senses), len(rhs), len(names))
        for r, s, b, n in zip(lin_expr, senses, rhs, names):
            self.rows.append((list(r[0]), list(r[1]), s, b, n))


class _Pool:
    def __init__(self, o):
        self.o = o

    def get_num(self):
        return len(self.o._pool)

    def get_values(self, i):
        return list(self.o._pool[i])


class _Sol:
    def __init__(self, o):
        self.o = o
        self.pool = _Pool(o)

    def get_values(self):
        return list(self.o._values)


class Cplex:
    def __init__(self):
        self.parameters = _NS()
        p = self.parameters
        p.timelimit = _P()
        p.workmem = _P()
        p.mip = _NS()
        p.mip.limits = _NS()
        p.mip.limits.treememory = _P()
        p.mip.limits.populate = _P()
        p.mip.tolerances = _NS()
        p.mip.tolerances.mipgap = _P()
        p.mip.pool = _NS()
        p.mip.pool.absgap = _P()
        p.mip.pool.intensity = _P()
        self.objective = _Obj()
        self.variables = _Vars()
        self.linear_constraints = _Cons()
        self.solution = _Sol(self)
        self._values = None
        self._pool = []

    def set_results_stream(self, s):
        pass

    def _record(self, mode):
        PROBLEMS.append({"mode": mode, "names": list(self.variables.names), "obj": list(self.variables.obj),
                         "rows": [(list(n), list(c), s, b) for n, c, s, b, _ in self.linear_constraints.rows]})

    def _build(self):
        assert self.objective._s == _Sense.minimize
        prob = pulp.LpProblem("p", pulp.LpMinimize)
        V = {}
        for n, t in zip(self.variables.names, self.variables.types):
            assert t == "B"
            V[n] = pulp.LpVariable(n, 0, 1, cat="Binary")
        prob += pulp.lpSum(c * V[n] for n, c in zip(self.variables.names, self.variables.obj))
        for names, coefs, s, b, _ in self.linear_constraints.rows:
            e = pulp.lpSum(c * V[n] for n, c in zip(names, coefs))
            prob += (e == b) if s == "E" else ((e <= b) if s == "L" else (e >= b))
        return prob, V

    def solve(self):
        self._record("solve")
        prob, V = self._build()
        prob.solve(pulp.PULP_CBC_CMD(msg=False))
        assert pulp.LpStatus[prob.status] == "Optimal"
        self._values = [round(V[n].value() or 0) for n in self.variables.names]

    def populate_solution_pool(self):
        self._record("populate")
        prob, V = self._build()
        best = None
        self._pool = []
        while len(self._pool) < 5000:
            prob.solve(pulp.PULP_CBC_CMD(msg=False))
            if pulp.LpStatus[prob.status] != "Optimal":
                break
            vals = [round(V[n].value() or 0) for n in self.variables.names]
            val = sum(c * v for c, v in zip(self.variables.obj, vals))
            if best is None:
                best = val
            if val > best + 1e-6:
                break
            self._pool.append(vals)
            ones = [V[n] for n, v in zip(self.variables.names, vals) if v == 1]
            zeros = [V[n] for n, v in zip(self.variables.names, vals) if v == 0]
            prob += pulp.lpSum(ones) - pulp.lpSum(zeros) <= len(ones) - 1
