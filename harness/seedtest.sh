#!/bin/bash
# usage: seedtest.sh <seed-id> <worktree> <property> [more properties to run]
# 1. confirms the seeded change in its scratch worktree (tests pass + demo fails with it, demo passes without it)
# 2. stores it under /verif/seeded/<seed-id>/
# 3. applies it to /repo, runs the quick checks, reverts /repo
set -u
SID="$1"; WT="$2"; shift 2
PROPS="$@"
D=/verif/seeded/$SID
mkdir -p "$D"
cp "$WT/_deliver/patch.diff" "$WT/_deliver/demo.py" "$D/" 2>/dev/null
[ -f "$WT/_deliver/note.md" ] && cp "$WT/_deliver/note.md" "$D/"
cd "$WT" || exit 2
git checkout -q -- corankco 2>/dev/null
git apply "$D/patch.diff" || { echo "patch does not apply in worktree"; exit 2; }
T_WITH=$(PYTHONPATH=$WT NUMBA_CACHE_DIR=/tmp/seed/numba_$SID /venv/bin/python -m pytest -q -p no:cacheprovider --timeout=900 tests 2>&1 | tail -1)
PYTHONPATH=$WT NUMBA_CACHE_DIR=/tmp/seed/numba_$SID /venv/bin/python "$D/demo.py" >/dev/null 2>&1; DEMO_WITH=$?
git apply -R "$D/patch.diff"
PYTHONPATH=$WT NUMBA_CACHE_DIR=/tmp/seed/numba_$SID /venv/bin/python "$D/demo.py" >/dev/null 2>&1; DEMO_WITHOUT=$?
echo "[$SID] scratch: tests with change: $T_WITH | demo with change exit=$DEMO_WITH | demo without exit=$DEMO_WITHOUT"
cd /verif
if [ "${SEED_USE_WORKTREE:-0}" = "1" ]; then
  # run the checks against the scratch worktree itself (used while something else is reading /repo)
  git -C "$WT" apply "$D/patch.diff" || { echo "patch does not apply"; exit 2; }
  export VERIF_REPO="$WT"
else
  git -C /repo apply "$D/patch.diff" || { echo "patch does not apply to /repo"; exit 2; }
fi
RES=""
for P in $PROPS; do
  OUT=$(VERIF_SEARCH_S=120 timeout 1500 ./check $P quick 2>&1 | grep -E "VIOLATION|KNOWN|quick:|infrastructure" | tr '\n' ' ')
  echo "[$SID] $P: $OUT"
  RES="$RES $P:[$OUT]"
  R=$(echo "$OUT" | grep -o 'replay=[^ ]*' | head -1 | cut -d= -f2)
  [ -n "$R" ] && [ -f "$R" ] && cp "$R" "$D/replay_$P.json"
done
if [ "${SEED_USE_WORKTREE:-0}" = "1" ]; then git -C "$WT" checkout -- corankco; else git -C /repo checkout -- .; git -C /repo status --short | head -3; fi
python3 - "$SID" "$T_WITH" "$DEMO_WITH" "$DEMO_WITHOUT" "$RES" <<'PY'
import json, sys, os
sid, t, dw, dwo, res = sys.argv[1:6]
p = "/verif/seeded/%s/meta.json" % sid
meta = json.load(open(p)) if os.path.exists(p) else {}
meta.update({"seed": sid, "confirmed_in_scratch_worktree": {"tests_with_change": t, "demo_exit_with_change": int(dw),
             "demo_exit_without_change": int(dwo)}, "checks_run_with_change_applied_to_repo": res.strip()})
json.dump(meta, open(p, "w"), indent=1)
PY
