#!/bin/bash
# usage: harness/soak.sh <tier> <seed> [<seed> ...] : all checks for several seeds on the unchanged tree; prints only alarms + summary
cd "$(dirname "$0")/.." || exit 2
TIER="$1"; shift
for SEED in "$@"; do
  for i in $(seq -w 1 20); do
    OUT=$(VERIF_SEED=$SEED timeout 3000 ./check C$i "$TIER" 2>&1); RC=$?
    if [ $RC -ne 0 ] || echo "$OUT" | grep -q "VIOLATION"; then echo "seed=$SEED C$i rc=$RC :: $(echo "$OUT" | grep -E 'VIOLATION|infrastructure|Error' | head -3 | tr '\n' ' ')"; fi
  done
  echo "seed=$SEED done"
done
