"""Regenerate MANIFEST.json from the table below (kept next to the harness so it stays in step)."""
import json, os
VERIF = os.path.dirname(os.path.dirname(os.path.abspath(__file__)))
ALL = ["C%02d" % i for i in range(1, 21)]

# property -> (design_ref, level text, level_note, technique)
CLAIMED = {
    "C02": ("DESIGN.md 6/C02",
            "Lean 4 theorems about a hand-written model of the cost-table code (mirror law, table = definition, "
            "positions = bucket ids, selected entries sum to the Kemeny score) for all schemes/datasets, tied to "
            "the code by a differential correspondence run on the table, both matrices and the id order.",
            "Trusted: Lean kernel + {propext, Classical.choice, Quot.sound}; hand translation (validated by the "
            "correspondence run, dyadic penalties so floats are exact); harness/driver encoding.",
            "Lean 4 proof over hand-written model + differential correspondence"),
}
GEN_NOTE = ("Trusted: Lean kernel + {propext, Classical.choice, Quot.sound} (audited per theorem on every run); the hand "
            "translation Python -> Lean (validated by the differential correspondence run on dyadic penalties, where float "
            "arithmetic is exact); harness / driver encoding. See DESIGN.md section 4.")
TECH = "Lean 4 proof over hand-written model + differential correspondence"
CLAIMED.update({
    "C01": ("DESIGN.md 6/C01", "Lean 4 theorems: the model of the n log n routine (prefix sums + merge-sort inversion counting) "
            "returns exactly the pairwise-penalty definition for every valid scheme, dataset and candidate, and refuses "
            "incomplete candidates (C01_score, C01_counts, C01_refuse, C01_holds); tied to the code by comparing refusal, "
            "score and the per-ranking count vectors.", GEN_NOTE, TECH),
    "C19": ("DESIGN.md 6/C19", "Lean 4 theorems: constructor accepts exactly the documented inputs with the documented "
            "exception (over a PyVal ADT), scaling, homogeneity of the Kemeny score, equivalence = proportionality on both "
            "vectors, nickname; tied to the code on well-formed, malformed and near-miss streams.", GEN_NOTE, TECH),
    "C20": ("DESIGN.md 6/C20", "Lean 4 theorems: every Markov move, step and walk (all draw sequences) preserves the dense "
            "bucket numbering; conversion yields non-empty disjoint buckets; complete mode delivers m complete rankings; "
            "tied to the code per single step with a scripted random source.", GEN_NOTE + " The random module is scripted.", TECH),
})
NOT_YET = "model/theorems not built yet in this round (work in progress; see DESIGN.md section 9)"

checks = []
for pid in ALL:
    if pid in CLAIMED:
        ref, text, note, tech = CLAIMED[pid]
        checks.append({
            "property_id": pid,
            "quick_cmd": "./check %s quick" % pid,
            "thorough_cmd": "./check %s thorough" % pid,
            "evidence_file": "evidence/%s.json" % pid,
            "replay_cmd_template": "./check %s --replay {path}" % pid,
            "engine": "lean-model+correspondence",
            "level_claimed": {"category": "proof", "text": text, "design_ref": ref},
            "level_note": note,
            "technique": tech,
        })
manifest = {
    "version": 1,
    "setup_cmd": "cd lean && lake build",
    "hooks": {"guard": "PIERREANDRIEU_CORANKCO_VERIF", "enable": "no hooks are needed: the harness reaches every "
              "observable from Python (private methods, numba dispatchers, subclassing, stand-in cplex module)",
              "baseline_off_cmd": "cd /repo && /venv/bin/python -m pytest -q -p no:cacheprovider --timeout=900",
              "source_commits": [], "add_only": True},
    "engines": [{"name": "lean-model+correspondence", "path": "lean/ harness/ check",
                 "serves_properties": sorted(CLAIMED),
                 "kind_free_text": "Lean 4 model + theorems (lake project, no Mathlib require), compiled driver, "
                                   "Python differential harness against /repo's working tree"}],
    "checks": checks,
    "not_applicable": [{"property_id": p, "reason": NOT_YET} for p in ALL if p not in CLAIMED],
    "notes": "See DESIGN.md. Every check: lake build + #print axioms audit + correspondence run + evidence.",
}
json.dump(manifest, open(os.path.join(VERIF, "MANIFEST.json"), "w"), indent=1)
print("claimed:", sorted(CLAIMED))
